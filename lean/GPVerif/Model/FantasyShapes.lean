/-
C04 (batch part) — IR and semantics of the *batch-shape choreography* of `ExactGP.get_fantasy_model`
(gpytorch/models/exact_gp.py), `DefaultPredictionStrategy.get_fantasy_strategy`
(gpytorch/models/exact_prediction_strategies.py) and `FixedNoiseGaussianLikelihood.get_fantasy_likelihood`.
Core Lean only; builds on `Bcast` (shapes innermost-first, `bcastR`, `bidxR`, tensors as index functions) and on
the symbolic shapes `Choreo.SE` of `Model/ChoreoIR.lean`.

`harness/translate/g6_fantasy_shapes.py` reads the two methods off the Python AST and writes them to
`Gen/FantasyShapes.lean` as lists of the `Op`s below.  A register holds a batch of *elements* (`Bcast.T X`: a batch
shape and a function batch index ↦ element); the trailing matrix / vector dimensions of the torch tensors live
inside the opaque element type `X`, because every torch primitive that occurs (`matmul`, `-`, `cholesky_solve`, the
mat-vec `einsum`, `cat(dim=-1)`, `cat(dim=-2)`, `unsqueeze(-1)`, `squeeze(-1)`, `[..., k:]`, `transpose(-1, -2)`) acts on the
trailing dimensions of each batch element and combines batch dimensions by one of three rules (`Rule`).
What is modelled exactly is everything that touches **batch** dimensions: shape variables and their conditional
re-binding, the `raise` guards, `expand`, `view(*batch, -1)`, `BatchRepeatLinearOperator`, and which batch element
of each argument an element of the result is computed from.

`drivers/C04.lean` runs the generated lists on position-tagged tensors (exact comparison with torch executing the
same lists and with the real `get_fantasy_model` on tagged data); `Props/C04Batch.lean` proves the acceptance
condition, the shape of every output and the elementwise statement for all batch shapes.
-/
import GPVerif.Model.ChoreoIR

namespace FShapes
open Bcast Choreo

/-- `s` can be `expand`ed to `t` (torch: rank of `t` ≥ rank of `s`, every dimension of `s` equal or 1) -/
abbrev Expands (s t : RShape) : Prop := bcastR s t = some t

instance (s t : RShape) : Decidable (Expands s t) := inferInstanceAs (Decidable (_ = _))

/-- how the batch shapes of the arguments of a tensor primitive combine -/
inductive Rule where
  /-- right-aligned broadcasting of all arguments (`matmul`, arithmetic, `cholesky_solve`, `einsum` with `...`) -/
  | bcast
  /-- all batch shapes must be equal (`torch.cat`) -/
  | equal
  /-- `LinearOperator.cat_rows(self, cross_mat, new_mat)` (linear_operator, outside /repo; trusted description):
  `self` is expanded to the broadcast of its and `cross_mat`'s batch shape when it has lower rank; after that all three
  batch shapes must be equal (`CatLinearOperator`); the result has `cross_mat`'s batch shape -/
  | catRows
  deriving DecidableEq, Repr, Inhabited

def bcastAll : List RShape → Option RShape
  | [] => some []
  | s :: ss => (bcastAll ss).bind (bcastR s)

def Rule.shape : Rule → List RShape → Option RShape
  | .bcast, l => bcastAll l
  | .equal, [] => some []
  | .equal, s :: ss => if ss.all (· == s) then some s else none
  | .catRows, [a, b, d] =>
    if (if a.length < b.length then bcastR a b = some b else a = b) ∧ d = b then some b else none
  | .catRows, _ => none

/-- natural-number expressions (`len(shape)`, `x.dim()`, integer variables) -/
inductive NE where
  | rankS (i : Nat)          -- `len(s_i)` of a shape variable
  | dimT (r k : Nat)         -- `x.dim()` of tensor register `r` whose elements have `k` trailing dimensions
  | nat (i : Nat)            -- integer variable
  | lit (n : Nat)
  | add (a b : NE)
  deriving DecidableEq, Repr, Inhabited

inductive Cond where
  | eq (a b : NE)
  | lt (a b : NE)
  | le (a b : NE)
  | or (c d : Cond)
  | and (c d : Cond)
  | not (c : Cond)
  deriving DecidableEq, Repr, Inhabited

inductive Op where
  /-- `s_dst = x.shape[:-k]` (batch shape of tensor register `t`) -/
  | shapeOf (dst t : Nat)
  /-- `s_dst = <shape expression over the shape variables>` (`.arg i` = shape variable `i`) -/
  | shapeSet (dst : Nat) (s : SE)
  /-- `s_dst = x.shape[:k]` — defined when the batch rank of `x` is at least `k` -/
  | shapeFront (dst t k : Nat)
  | natSet (dst : Nat) (e : NE)
  /-- the value of an `if` test at the point where Python evaluates it -/
  | test (dst : Nat) (c : Cond)
  /-- `if not c: raise` -/
  | guard (c : Cond)
  /-- `try: torch.broadcast_shapes(s_a, s_b)  except RuntimeError: raise` -/
  | guardBcast (a b : Nat)
  | copy (dst src : Nat)
  /-- `dst = src.expand(*s, *src.shape[-k:])`; `.self` in `s` is the batch shape of `src` -/
  | expand (dst src : Nat) (s : SE)
  /-- a torch / linear_operator primitive that acts on the trailing dimensions of each batch element; `f` names it -/
  | nary (dst : Nat) (args : List Nat) (rule : Rule) (f : Nat)
  /-- `dst = src.view(*s, -1)`: the identity when `s` is the batch shape of `src` (undefined otherwise) -/
  | viewB (dst src : Nat) (s : SE)
  /-- `BatchRepeatLinearOperator(src, front + torch.Size([1] * n))`, `n` = integer variable `ones`; defined when the
  batch rank of `src` is at most `n` (then it is `src.expand(*front, 1, …, 1, *src.batch_shape)`) -/
  | repeatB (dst src : Nat) (front : SE) (ones : Nat)
  /-- statement inside an `if` whose test was stored in boolean `b` -/
  | when (b : Nat) (v : Bool) (op : Op)
  deriving Repr, Inhabited

variable {X : Type}

structure Env (X : Type) where
  ten : Nat → Option (T X)
  shp : List RShape
  nat : Nat → Nat
  bl : Nat → Bool

def upd {β : Type} (f : Nat → β) (k : Nat) (v : β) : Nat → β := fun j => if j = k then v else f j

def Env.setT (E : Env X) (k : Nat) (t : T X) : Env X := { E with ten := upd E.ten k (some t) }
def Env.setS (E : Env X) (k : Nat) (s : RShape) : Env X := { E with shp := E.shp.set k s }

def NE.eval (E : Env X) : NE → Option Nat
  | .rankS i => (E.shp[i]?).map (·.length)
  | .dimT r k => (E.ten r).map fun t => t.shape.length + k
  | .nat i => some (E.nat i)
  | .lit n => some n
  | .add a b =>
    match a.eval E, b.eval E with
    | some x, some y => some (x + y)
    | _, _ => none

def Cond.eval (E : Env X) : Cond → Option Bool
  | .eq a b => match a.eval E, b.eval E with | some x, some y => some (decide (x = y)) | _, _ => none
  | .lt a b => match a.eval E, b.eval E with | some x, some y => some (decide (x < y)) | _, _ => none
  | .le a b => match a.eval E, b.eval E with | some x, some y => some (decide (x ≤ y)) | _, _ => none
  | .or c d => match c.eval E, d.eval E with | some x, some y => some (x || y) | _, _ => none
  | .and c d => match c.eval E, d.eval E with | some x, some y => some (x && y) | _, _ => none
  | .not c => (c.eval E).map (!·)

/-- `t.expand(s)` when allowed -/
def expandTo? (t : T X) (s : RShape) : Option (T X) :=
  if Expands t.shape s then some (t.expand s) else none

def getArgs (E : Env X) : List Nat → Option (List (T X))
  | [] => some []
  | r :: rs =>
    match E.ten r, getArgs E rs with
    | some t, some ts => some (t :: ts)
    | _, _ => none

/-- the primitive `f` applied to the broadcast batch elements of the arguments -/
def nary? (I : Nat → List X → X) (f : Nat) (rule : Rule) (args : List (T X)) : Option (T X) :=
  (rule.shape (args.map (·.shape))).map fun s =>
    ⟨s, fun idx => I f (args.map fun a => a.get (bidxR a.shape idx))⟩

def Op.run (I : Nat → List X → X) : Op → Env X → Option (Env X)
  | .shapeOf dst t, E => (E.ten t).map fun x => E.setS dst x.shape
  | .shapeSet dst s, E => (s.eval [] [] E.shp).map fun v => E.setS dst v
  | .shapeFront dst t k, E =>
    (E.ten t).bind fun x =>
      if k ≤ x.shape.length then some (E.setS dst (x.shape.drop (x.shape.length - k))) else none
  | .natSet dst e, E => (e.eval E).map fun v => { E with nat := upd E.nat dst v }
  | .test dst c, E => (c.eval E).map fun v => { E with bl := upd E.bl dst v }
  | .guard c, E => (c.eval E).bind fun v => if v then some E else none
  | .guardBcast a b, E =>
    match E.shp[a]?, E.shp[b]? with
    | some x, some y => if (bcastR x y).isSome then some E else none
    | _, _ => none
  | .copy dst src, E => (E.ten src).map fun x => E.setT dst x
  | .expand dst src s, E =>
    (E.ten src).bind fun x => (s.eval x.shape x.shape E.shp).bind fun v => (expandTo? x v).map fun y => E.setT dst y
  | .nary dst args rule f, E => (getArgs E args).bind fun ts => (nary? I f rule ts).map fun y => E.setT dst y
  | .viewB dst src s, E =>
    (E.ten src).bind fun x => (s.eval x.shape x.shape E.shp).bind fun v =>
      if v = x.shape then some (E.setT dst x) else none
  | .repeatB dst src front ones, E =>
    (E.ten src).bind fun x => (front.eval x.shape x.shape E.shp).bind fun fr =>
      if x.shape.length ≤ E.nat ones then
        some (E.setT dst (x.expand (x.shape ++ List.replicate (E.nat ones - x.shape.length) 1 ++ fr)))
      else none
  | .when b v op, E => if E.bl b = v then op.run I E else some E

def run (I : Nat → List X → X) : List Op → Env X → Option (Env X)
  | [], E => some E
  | op :: ops, E => (op.run I E).bind (run I ops)

/-! ### well-formedness (what the naturality theorem of `Bridge/FantasyShapes.lean` needs)

Shape expressions contain no literal dimensions, integer variables are set from ranks only, and statements under a
rank test re-bind a variable in place and touch batch dimensions only — so that on batch-rank-0 inputs every `if`
body is the identity whichever way its test goes. -/

def SEok : SE → Bool
  | .self => true
  | .selfDrop _ => true
  | .orig => true
  | .origDrop _ => true
  | .arg _ => true
  | .lit l => l.isEmpty
  | .cat a b => SEok a && SEok b
  | .bcast a b => SEok a && SEok b

def NEok : NE → Bool
  | .rankS _ => true
  | .dimT _ k => k == 0
  | .nat _ => true
  | .lit n => n == 0
  | .add a b => NEok a && NEok b

/-- statements allowed under a rank test -/
def Op.inPlace : Op → Bool
  | .shapeSet _ s => SEok s
  | .shapeFront _ _ _ => true
  | .natSet _ e => NEok e
  | .expand dst src s => dst == src && SEok s
  | .repeatB dst src front _ => dst == src && SEok front
  | _ => false

def Op.wf : Op → Bool
  | .shapeSet _ s => SEok s
  | .natSet _ e => NEok e
  | .expand _ _ s => SEok s
  | .viewB _ _ s => SEok s
  | .repeatB _ _ front _ => SEok front
  | .when _ _ op => op.inPlace
  | _ => true

def wfProg (p : List Op) : Bool := p.all Op.wf

/-! ### the element-level primitives (names used by the translator; their meaning is *not* needed for the batch
statements, which hold for every interpretation `I`) -/

namespace Prim
def ensure2d : Nat := 0        -- `i.unsqueeze(-1) if i.ndimension() == 1 else i`
def priorMean : Nat := 3       -- `super().__call__(*full_inputs).mean` (arguments: hyper-parameters, inputs)
def priorCovar : Nat := 4      -- `….lazy_covariance_matrix`
def sliceMeanF : Nat := 5      -- `full_mean[..., num_train:]`
def sliceFF : Nat := 6         -- `full_covar[..., num_train:, num_train:]`
def sliceFT : Nat := 7         -- `full_covar[..., num_train:, :num_train]`
def likCovar : Nat := 8        -- `fant_likelihood(mvn, inputs, **kwargs).covariance_matrix`
def rootInvDecomp : Nat := 9   -- `lik_train_train_covar.root_inv_decomposition()`
def mT : Nat := 10             -- `.transpose(-2, -1)`
def matmul : Nat := 11
def sub : Nat := 12
def matvec : Nat := 13         -- the `einsum(prefix + "...yz,...z->" + prefix + "...y")`
def unsqLast : Nat := 14       -- `.unsqueeze(-1)`
def chol : Nat := 15           -- `psd_safe_cholesky`
def cholSolve : Nat := 16      -- `torch.cholesky_solve(rhs, chol)`
def sqLast : Nat := 17         -- `.squeeze(-1)`
def catRows : Nat := 18        -- `LinearOperator.cat_rows`
def root : Nat := 19           -- `.root_decomposition().root`
def invRoot : Nat := 20        -- `.root_inv_decomposition().root`
def toDense : Nat := 21
/-- `torch.cat(…, dim=-k)` is primitive `100 + k` -/
def cat (k : Nat) : Nat := 100 + k
end Prim

/-! ### register numbering of the inputs and outputs (fixed by the translator) -/

namespace Reg
def trainX : Nat := 0      -- `self.train_inputs[0]`                       batch shape `mb`
def trainY : Nat := 1      -- `self.train_targets`                         `mb`
def xf : Nat := 2          -- `inputs[0]`                                  `ib`
def yf : Nat := 3          -- `targets`                                    `tb`
def theta : Nat := 4       -- hyper-parameters of the prior and likelihood `mb`
def ltt : Nat := 5         -- `prediction_strategy.lik_train_train_covar`  `mb`
def meanCache : Nat := 6   -- `prediction_strategy.mean_cache`             `mb`
def kw : Nat := 7          -- call-time `noise=` (fantasy_kwargs)          `kb`
def outTrainX : Nat := 10  -- `new_model.train_inputs[0]`
def outTrainY : Nat := 11  -- `new_model.train_targets`
def sTrainX : Nat := 12    -- `fant_strat.train_inputs[0]`
def sMean : Nat := 13      -- `fant_strat.train_prior_dist.mean`
def sCovar : Nat := 14     -- `fant_strat.train_prior_dist.lazy_covariance_matrix`
def sLabels : Nat := 15    -- `fant_strat.train_labels`
def sRoot : Nat := 16      -- `root=`
def sInvRoot : Nat := 17   -- `inv_root=`
def outMeanCache : Nat := 18   -- `add_to_cache(fant_strat, "mean_cache", …)`
def outCovarCache : Nat := 19  -- `add_to_cache(fant_strat, "covar_cache", …)`
def oldNoise : Nat := 0    -- `FixedNoiseGaussianLikelihood.get_fantasy_likelihood`: `self.noise_covar.noise`
def newNoise : Nat := 1    -- `kwargs["noise"]`
def outNoise : Nat := 10   -- noise of the fantasy likelihood
end Reg

/-- the initial environment of a batched call of `get_fantasy_model` (`n` = number of shape variables) -/
def fantasyEnv (n : Nat) (trainX trainY xf yf theta ltt mc kw : T X) : Env X :=
  { ten := upd (upd (upd (upd (upd (upd (upd (upd (fun _ => none) Reg.trainX (some trainX)) Reg.trainY (some trainY))
      Reg.xf (some xf)) Reg.yf (some yf)) Reg.theta (some theta)) Reg.ltt (some ltt)) Reg.meanCache (some mc)) Reg.kw (some kw)
    shp := List.replicate n []
    nat := fun _ => 0
    bl := fun _ => false }

/-- … of `FixedNoiseGaussianLikelihood.get_fantasy_likelihood` -/
def noiseEnv (n : Nat) (old new : T X) : Env X :=
  { ten := upd (upd (fun _ => none) Reg.oldNoise (some old)) Reg.newNoise (some new)
    shp := List.replicate n []
    nat := fun _ => 0
    bl := fun _ => false }

/-- a batch-rank-0 tensor -/
def scalarT (x : X) : T X := ⟨[], fun _ => x⟩

/-- the slice of a batched tensor that an element `e` of a (larger) batch reads -/
def sliceT (t : T X) (e : RIdx) : T X := scalarT (t.get (bidxR t.shape e))

/-! ### the element-level dataflow of one fantasy step (hand-written; `Props/C04Batch.lean` proves that the generated
program, run on batch-rank-0 inputs, computes exactly this) -/

structure ElemOut (X : Type) where
  trainX : X
  trainY : X
  sTrainX : X
  sMean : X
  sCovar : X
  sLabels : X
  sRoot : X
  sInvRoot : X
  meanCache : X
  covarCache : X

def elemFantasy (I : Nat → List X → X) (trainX trainY xf yf theta ltt mc kw : X) : ElemOut X :=
  let xf2 := I Prim.ensure2d [xf]
  let fullX := I (Prim.cat 2) [trainX, xf2]
  let fullY := I (Prim.cat 1) [trainY, yf]
  let fm := I Prim.priorMean [theta, fullX]
  let fc := I Prim.priorCovar [theta, fullX]
  let fantMean := I Prim.sliceMeanF [fm]
  let ff := I Prim.likCovar [I Prim.sliceFF [fc], theta, xf2, kw]
  let ftc := I Prim.toDense [I Prim.sliceFT [fc]]
  let kinv := I Prim.rootInvDecomp [ltt]
  let fsolve := I Prim.matmul [kinv, I Prim.mT [ftc]]
  let schur := I Prim.sub [ff, I Prim.matmul [ftc, fsolve]]
  let ftcm := I Prim.matvec [ftc, mc]
  let rhs := I Prim.unsqLast [I Prim.sub [I Prim.sub [yf, fantMean], ftcm]]
  let lower := I Prim.cholSolve [rhs, I Prim.chol [schur]]
  let upper := I Prim.sub [I Prim.unsqLast [mc], I Prim.matmul [fsolve, lower]]
  let newLt := I Prim.catRows [ltt, ftc, ff]
  let invRoot := I Prim.invRoot [newLt]
  { trainX := fullX, trainY := fullY, sTrainX := fullX, sMean := fm, sCovar := fc, sLabels := fullY,
    sRoot := I Prim.root [newLt], sInvRoot := invRoot,
    meanCache := I (Prim.cat 1) [I Prim.sqLast [upper], I Prim.sqLast [lower]],
    covarCache := I Prim.toDense [invRoot] }

/-! ### the shape part of a run (what decides acceptance and every shape; no tensor contents) -/

structure SEnv where
  ten : Nat → Option RShape
  shp : List RShape
  nat : Nat → Nat
  bl : Nat → Bool

def Env.abs (E : Env X) : SEnv := ⟨fun m => (E.ten m).map (·.shape), E.shp, E.nat, E.bl⟩

def SEnv.setT (A : SEnv) (k : Nat) (s : RShape) : SEnv := { A with ten := upd A.ten k (some s) }
def SEnv.setS (A : SEnv) (k : Nat) (s : RShape) : SEnv := { A with shp := A.shp.set k s }

def NE.evalS (A : SEnv) : NE → Option Nat
  | .rankS i => (A.shp[i]?).map (·.length)
  | .dimT r k => (A.ten r).map fun t => t.length + k
  | .nat i => some (A.nat i)
  | .lit n => some n
  | .add a b =>
    match a.evalS A, b.evalS A with
    | some x, some y => some (x + y)
    | _, _ => none

def Cond.evalS (A : SEnv) : Cond → Option Bool
  | .eq a b => match a.evalS A, b.evalS A with | some x, some y => some (decide (x = y)) | _, _ => none
  | .lt a b => match a.evalS A, b.evalS A with | some x, some y => some (decide (x < y)) | _, _ => none
  | .le a b => match a.evalS A, b.evalS A with | some x, some y => some (decide (x ≤ y)) | _, _ => none
  | .or c d => match c.evalS A, d.evalS A with | some x, some y => some (x || y) | _, _ => none
  | .and c d => match c.evalS A, d.evalS A with | some x, some y => some (x && y) | _, _ => none
  | .not c => (c.evalS A).map (!·)

def getArgsS (A : SEnv) : List Nat → Option (List RShape)
  | [] => some []
  | r :: rs =>
    match A.ten r, getArgsS A rs with
    | some t, some ts => some (t :: ts)
    | _, _ => none

def Op.runS : Op → SEnv → Option SEnv
  | .shapeOf dst t, A => (A.ten t).map fun x => A.setS dst x
  | .shapeSet dst s, A => (s.eval [] [] A.shp).map fun v => A.setS dst v
  | .shapeFront dst t k, A =>
    (A.ten t).bind fun x => if k ≤ x.length then some (A.setS dst (x.drop (x.length - k))) else none
  | .natSet dst e, A => (e.evalS A).map fun v => { A with nat := upd A.nat dst v }
  | .test dst c, A => (c.evalS A).map fun v => { A with bl := upd A.bl dst v }
  | .guard c, A => (c.evalS A).bind fun v => if v then some A else none
  | .guardBcast a b, A =>
    match A.shp[a]?, A.shp[b]? with
    | some x, some y => if (bcastR x y).isSome then some A else none
    | _, _ => none
  | .copy dst src, A => (A.ten src).map fun x => A.setT dst x
  | .expand dst src s, A =>
    (A.ten src).bind fun x => (s.eval x x A.shp).bind fun v => if Expands x v then some (A.setT dst v) else none
  | .nary dst args rule _, A => (getArgsS A args).bind fun ts => (rule.shape ts).map fun y => A.setT dst y
  | .viewB dst src s, A =>
    (A.ten src).bind fun x => (s.eval x x A.shp).bind fun v => if v = x then some (A.setT dst x) else none
  | .repeatB dst src front ones, A =>
    (A.ten src).bind fun x => (front.eval x x A.shp).bind fun fr =>
      if x.length ≤ A.nat ones then
        some (A.setT dst (x ++ List.replicate (A.nat ones - x.length) 1 ++ fr))
      else none
  | .when b v op, A => if A.bl b = v then op.runS A else some A

def runS : List Op → SEnv → Option SEnv
  | [], A => some A
  | op :: ops, A => (op.runS A).bind (runS ops)

/-- shape part of `fantasyEnv` -/
def fantasySEnv (n : Nat) (mb ib tb kb : RShape) : SEnv :=
  { ten := upd (upd (upd (upd (upd (upd (upd (upd (fun _ => none) Reg.trainX (some mb)) Reg.trainY (some mb))
      Reg.xf (some ib)) Reg.yf (some tb)) Reg.theta (some mb)) Reg.ltt (some mb)) Reg.meanCache (some mb)) Reg.kw (some kb)
    shp := List.replicate n []
    nat := fun _ => 0
    bl := fun _ => false }

def noiseSEnv (n : Nat) (nb kb : RShape) : SEnv :=
  { ten := upd (upd (fun _ => none) Reg.oldNoise (some nb)) Reg.newNoise (some kb)
    shp := List.replicate n []
    nat := fun _ => 0
    bl := fun _ => false }

/-! ### the specification of the batch logic (hand-written; what the generated program is proved to implement)

`mb` = batch shape of the model's training data, `ib` = of the fantasy inputs, `tb` = of the fantasy targets,
`kb` = of the call-time `noise=` (`[]` when there is none).  All shapes innermost-first. -/

/-- `if len(mb) > len(x): x = mb` -/
def adj (mb x : RShape) : RShape := if x.length < mb.length then mb else x

/-- the condition under which `get_fantasy_model` returns a model; one conjunct per check of the code, in the order in
which the code makes them (explicit `raise`s and the shape errors of `expand` / broadcasting arithmetic / `cat_rows`) -/
def Accepts (mb ib tb kb : RShape) : Prop :=
  -- `if not (tbdim == ibdim + 1 or tbdim == ibdim): raise`
  (tb.length = ib.length + 1 ∨ tb.length = ib.length) ∧
  -- `try: torch.broadcast_shapes(model_batch_shape, target_batch_shape)`
  (bcastR mb tb).isSome = true ∧
  -- the four `expand`s to the (adjusted) input / target batch shape
  Expands mb (adj mb ib) ∧ Expands mb (adj mb tb) ∧ Expands ib (adj mb ib) ∧ Expands tb (adj mb tb) ∧
  -- fantasy noise: the fantasy block with noise must have the batch shape of the fantasy inputs (`cat_rows`)
  Expands kb (adj mb ib) ∧
  -- `targets - fant_mean`
  (bcastR tb (adj mb ib)).isSome = true ∧
  -- `cat_rows`: the train-train covariance is expanded only when its batch rank is lower
  (mb.length < (adj mb ib).length ∨ mb = adj mb ib) ∧
  -- `if tbdim == ibdim + 1: … fi.expand(target_batch_shape + fi.shape[-2:])`
  (tb.length = ib.length + 1 → Expands (adj mb ib) (adj mb tb))

instance (mb ib tb kb : RShape) : Decidable (Accepts mb ib tb kb) := by unfold Accepts; exact inferInstance

/-- is the fantasy batch dimension added by the strategy (`full_inputs[0].dim() <= full_targets.dim()`)? -/
def sharedInputs (mb ib tb : RShape) : Bool := decide ((adj mb ib).length + 2 ≤ (adj mb tb).length + 1)

/-- batch shape of the strategy's inputs / prior / root: `(F, *ib')` for fantasies at shared points, else `ib'` -/
def stratShape (mb ib tb : RShape) : RShape :=
  if sharedInputs mb ib tb then adj mb ib ++ (adj mb tb).drop ((adj mb tb).length - 1) else adj mb ib

/-- batch shape of the new mean cache: `broadcast(tb, ib')` -/
def cacheShape (mb ib tb : RShape) : RShape := ((bcastR tb (adj mb ib)).getD [])

/-- batch shape of `new_model.train_inputs` -/
def outXShape (mb ib tb : RShape) : RShape := if tb.length = ib.length + 1 then adj mb tb else adj mb ib

/-- acceptance condition of `FixedNoiseGaussianLikelihood.get_fantasy_likelihood` on noise batch shapes `nb`, `kb` -/
def AcceptsNoise (nb kb : RShape) : Prop := if nb.length ≠ kb.length then Expands nb kb else nb = kb

instance (nb kb : RShape) : Decidable (AcceptsNoise nb kb) := by unfold AcceptsNoise; exact inferInstance

end FShapes

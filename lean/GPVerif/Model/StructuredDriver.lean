/-
Line-protocol driver for C09, parameterised by the record `GenOps` of the REGENERATED strategy algebra
(`Gen/StructuredAlgebra.lean`, specialised to ℚ).  `drivers/C09.lean` instantiates it with the generated definitions,
`drivers/C09spec.lean` with the hand-written `Structured.*` model (`modelOps`) — the fallback the harness uses when the
generated file no longer type-checks against these signatures (a broken tie).

One request per line: `<op> <matrix>*`, matrices as `rows cols v…` (exact rationals); replies are matrices separated by
` | `.
-/
import GPVerif.Model.Structured
import GPVerif.Model.LDL
import GPVerif.Gen.Interp
import GPVerif.Model.Proto
import Mathlib.Data.Rat.Floor

open Proto Structured

namespace StructuredDriver

/-- the generated definitions the driver evaluates, at `α = ℚ` -/
structure GenOps where
  sgprCovarCache : {n m : Nat} → Prim Rat → DMat n m Rat → (Fin n → Rat) → DMat m m Rat
  sgprPredictiveCovar : {ns n m : Nat} → DMat ns ns Rat → DMat ns m Rat → DMat m n Rat → DMat m m Rat → DMat ns ns Rat
  defaultMeanCache : {n : Nat} → Prim Rat → DMat n n Rat → DMat n 1 Rat → DMat n 1 Rat → DMat n 1 Rat
  defaultPredictiveMean : {ns n : Nat} → DMat ns n Rat → DMat n 1 Rat → DMat ns 1 Rat → DMat ns 1 Rat
  rffCovarCache : {n k : Nat} → Prim Rat → Rat → DMat n k Rat → DMat n n Rat → DMat k k Rat
  rffInnerTerm : {n k : Nat} → Prim Rat → Rat → DMat n k Rat → DMat n n Rat → DMat k k Rat
  rffPredictiveCovar : {ns k : Nat} → Prim Rat → Rat → DMat ns k Rat → DMat k k Rat → DMat ns ns Rat
  interpMeanCache : {n g : Nat} → Prim Rat → DMat g g Rat → DMat n g Rat → DMat n n Rat → DMat n 1 Rat → DMat n 1 Rat → DMat g 1 Rat
  interpPredictiveMean : {n ns g : Nat} → DMat g g Rat → DMat n g Rat → DMat ns g Rat → DMat g 1 Rat → DMat ns 1 Rat → DMat ns 1 Rat
  getCovarianceSame : {n m : Nat} → Bool → Bool → (Fin n → Rat) → DMat n m Rat → DMat m m Rat → DMat n n Rat
  getCovarianceCross : {n1 n2 m : Nat} → DMat n1 m Rat → DMat n2 m Rat → DMat m m Rat → DMat n1 n2 Rat
  multitaskForward : {n m t s : Nat} → DMat n m Rat → DMat t s Rat → DMat (n * t) (m * s) Rat
  indexCovarMatrix : {t r : Nat} → DMat t r Rat → (Fin t → Rat) → DMat t t Rat
  indexForward : {n m t : Nat} → DMat t t Rat → (Fin n → Fin t) → (Fin m → Fin t) → DMat n m Rat
  lcmForward : {n m t s : Nat} → DMat n m Rat × DMat t s Rat → List (DMat n m Rat × DMat t s Rat) → DMat (n * t) (m * s) Rat
  gridToeplitzFactors : List (Σ n : Nat, Fin n → Rat) → List (Sq Rat)
  gridForward : Bool → List (Sq Rat) → Sq Rat
  addedLoss : {n : Nat} → (Fin n → Rat) → (Fin n → Rat) → (Fin n → Rat) → Rat
  /-- `get_fantasy_strategy` (WISKI): (caches handed to the new strategy, caches of `self` after the call) -/
  wiskiFantasyStep : {g nf : Nat} → Prim Rat → DMat g g Rat → DMat g 1 Rat → DMat nf g Rat → (Fin nf → Rat) → DMat nf 1 Rat →
    DMat nf 1 Rat → (DMat g g Rat × DMat g 1 Rat) × (DMat g g Rat × DMat g 1 Rat)
  /-- `_compute_grid`: input entry read as coordinate `c` of flattened point `p` (flag, n, d, p, c) -/
  computeGridSource : Bool → Nat → Nat → Nat → Nat → Nat × Nat
  computeGridPointDim : Bool → Nat → Nat → Nat
  computeGridResultShape : Bool → Nat → Nat → List Nat × Nat
  /-- `GridKernel.forward(last_dim_is_batch=True)`: first rows, dense factors, use_toeplitz -/
  gridForwardLastDimBatch : List (Σ n : Nat, Fin n → Rat) → List (Sq Rat) → Bool → List (Sq Rat)
  inducingDeepcopyArgs : List (String × CopyMode)

/-- the hand-written model in the same shape (what the `gen_*_eq_model` theorems of `Props/C09.lean` equate the
generated definitions with) -/
def modelOps : GenOps where
  sgprCovarCache := fun P Rx d =>
    sgprCache Rx (sgprInverse Rx (fun i => (d i)⁻¹) (P.cholLInv (sgprCapacitance Rx (fun i => (d i)⁻¹))).transpose)
  sgprPredictiveCovar := fun Kss L _ cache => sgprPredCovar Kss L cache
  defaultMeanCache := fun P A y mu => (P.inv A).mul (y.sub mu)
  defaultPredictiveMean := fun Ksx mc tm => (Ksx.mul mc).add tm
  rffCovarCache := fun P c F A => P.cholL (rffInner c F (P.inv A))
  rffInnerTerm := fun P c F A => rffInner c F (P.inv A)
  rffPredictiveCovar := fun P c Fs cache => rffPredCovar (P.sqrt c) Fs cache
  interpMeanCache := fun P Kuu W A y mu => Structured.interpMeanCache Kuu W (P.inv A) (y.sub mu)
  interpPredictiveMean := fun _ _ Ws mc tm => (interpApply Ws mc).add tm
  getCovarianceSame := fun training corr kdiag Kxz R =>
    if training then lowRank (nystromRoot Kxz R) else nystromEval corr kdiag Kxz R
  getCovarianceCross := fun K1z K2z R => nystromCross K1z K2z R
  multitaskForward := fun Kx Kt => kron Kx Kt
  indexCovarMatrix := fun F v => indexCovar F v
  indexForward := fun B i1 i2 => indexGather B i1 i2
  lcmForward := fun hd tl => lcmKernel hd tl
  gridToeplitzFactors := fun rows => rows.map fun c => ⟨c.1, toeplitz c.2⟩
  gridForward := fun mode Ks => if mode then gridKronRowMajor Ks else gridKron Ks
  addedLoss := fun kdiag qdiag noise => titsiasAddedLoss kdiag qdiag noise
  wiskiFantasyStep := fun _ P0 resp0 Wf noisef yf muf =>
    (wiskiUpdate P0 resp0 Wf (fun i => (noisef i)⁻¹) (yf.sub muf), (P0, resp0))
  computeGridSource := fun flag n _ p c => Structured.computeGridSource flag n p c
  computeGridPointDim := fun flag _ d => if flag then 1 else d
  computeGridResultShape := fun flag n d => if flag then ([d], n) else ([], n)
  gridForwardLastDimBatch := fun rows covars tz => if tz then rows.map (fun c => ⟨c.1, toeplitz c.2⟩) else covars
  inducingDeepcopyArgs := [("base_kernel", .memo), ("inducing_points", .memo), ("likelihood", .memo), ("active_dims", .shared)]

abbrev RawMat := Nat × Nat × Array (Array Rat)

partial def parseMats (ts : List String) (acc : Array RawMat := #[]) : Option (Array RawMat) :=
  if ts.isEmpty then some acc else
  match takeMat? ts with
  | some (r, c, rows, rest) => parseMats rest (acc.push (r, c, rows))
  | none => none

def asMat (M : RawMat) (r c : Nat) : Option (DMat r c Rat) :=
  if M.1 = r ∧ M.2.1 = c then some (DMat.ofRaw M.2.2) else none

def sh {r c : Nat} (M : DMat r c Rat) : String := showRows M.toRows

def colFn {n : Nat} (v : DMat n 1 Rat) : Fin n → Rat := fun i => v.get i.1 0

def natOf (q : Rat) : Nat := q.num.toNat

def idxFn {n : Nat} (v : DMat n 1 Rat) (t : Nat) : Option (Fin n → Fin t) :=
  if h : 0 < t then
    if (List.finRange n).all (fun i => decide (natOf (v.get i.1 0) < t)) then
      some fun i => ⟨natOf (v.get i.1 0) % t, Nat.mod_lt _ h⟩
    else none
  else none

def normInf {r c : Nat} (M : DMat r c Rat) : Rat :=
  M.toRows.foldl (fun acc row => max acc (row.foldl (fun s v => s + |v|) 0)) 0

def joinOut (l : List String) : String := " | ".intercalate l

/-- oracle record for the generated algebra: exact certified inverse for `solve`; the Cholesky-type primitives return
the matrices the harness shipped (the real primitive's float64 output), `sqrt` the shipped float square root -/
def primOf (linv chol : Array (Array Rat)) (sq : Rat) : Prim Rat :=
  { inv := fun A => (DMat.inv? A).getD DMat.zero
    cholL := fun _ => DMat.ofRaw chol
    cholLInv := fun _ => DMat.ofRaw linv
    cholUInv := fun _ => DMat.zero
    sqrt := fun _ => sq }

/-- kron A B -/
def opKron (G : GenOps) (ms : Array RawMat) : Option String := do
  let A ← ms[0]?; let B ← ms[1]?
  let a ← asMat A A.1 A.2.1; let b ← asMat B B.1 B.2.1
  -- generated `MultitaskKernel.forward` | the model's interleaved Kronecker product (specification)
  pure (joinOut [sh (G.multitaskForward a b), sh (kron a b)])

/-- lcm A1 B1 A2 B2 … (all A's the same shape, all B's the same shape) -/
def opLcm (G : GenOps) (ms : Array RawMat) : Option String := do
  let A ← ms[0]?; let B ← ms[1]?
  let n := A.1; let m := A.2.1; let t := B.1; let s := B.2.1
  let rec pairs (i : Nat) (fuel : Nat) (acc : List (DMat n m Rat × DMat t s Rat)) :
      Option (List (DMat n m Rat × DMat t s Rat)) :=
    match fuel with
    | 0 => some acc.reverse
    | fuel + 1 =>
      if i + 1 < ms.size then do
        let a ← asMat ms[i]! n m; let b ← asMat ms[i+1]! t s
        pairs (i + 2) fuel ((a, b) :: acc)
      else some acc.reverse
  let ps ← pairs 0 ms.size []
  match ps with
  | hd :: tl => pure (joinOut [sh (G.lcmForward hd tl), sh (lcmKernel hd tl)])
  | [] => none

/-- index F v i1 i2 [K]  — with K: Hadamard multitask kernel -/
def opIndex (G : GenOps) (ms : Array RawMat) : Option String := do
  let F ← ms[0]?; let V ← ms[1]?; let I1 ← ms[2]?; let I2 ← ms[3]?
  let t := F.1; let r := F.2.1; let n := I1.1; let m := I2.1
  let f ← asMat F t r; let v ← asMat V t 1; let i1 ← asMat I1 n 1; let i2 ← asMat I2 m 1
  let g1 ← idxFn i1 t; let g2 ← idxFn i2 t
  let B := G.indexCovarMatrix f (colFn v)
  match ms[4]? with
  | some K => do
      let k ← asMat K n m
      pure (joinOut [sh B, sh (hadamardTask k B g1 g2)])
  | none => pure (joinOut [sh B, sh (G.indexForward B g1 g2), sh (indexGather (indexCovar f (colFn v)) g1 g2)])

def sqOf (M : RawMat) : Option (Sq Rat) := (asMat M M.1 M.1).map fun K => ⟨M.1, K⟩

def rowOf (M : RawMat) : Option (Σ n : Nat, Fin n → Rat) := (asMat M M.1 1).map fun c => ⟨M.1, colFn c⟩

/-- grid / gridrm: per-dimension factors (`T…`: first rows, Toeplitz; `D…`: dense).
replies: generated `GridKernel.forward` assembly (interpolation_mode = rowMajor) | model (`gridKron` / `gridKronRowMajor`) -/
def opGrid (G : GenOps) (toep rowMajor : Bool) (ms : Array RawMat) : Option String := do
  let Ks ← if toep then (ms.toList.mapM rowOf).map G.gridToeplitzFactors else ms.toList.mapM sqOf
  let KsModel ← if toep then (ms.toList.mapM rowOf).map (fun l => l.map fun c => (⟨c.1, toeplitz c.2⟩ : Sq Rat)) else ms.toList.mapM sqOf
  let R := G.gridForward rowMajor Ks
  let Rm := if rowMajor then gridKronRowMajor KsModel else gridKron KsModel
  pure (joinOut [sh R.2, sh Rm.2])

/-- cond K N Ksx Kss r -/
def opCond (ms : Array RawMat) : Option String := do
  let K ← ms[0]?; let N ← ms[1]?; let Ksx ← ms[2]?; let Kss ← ms[3]?; let R ← ms[4]?
  let n := K.1; let ns := Kss.1
  let k ← asMat K n n; let nn ← asMat N n n; let ksx ← asMat Ksx ns n; let kss ← asMat Kss ns ns; let r ← asMat R n 1
  let (mu, cov) ← conditional? k nn ksx kss r
  let Ainv ← DMat.inv? (k.add nn)
  pure (joinOut [sh mu, sh cov, showRat (normInf (k.add nn) * normInf Ainv)])

def boolOf (M : RawMat) : Bool := (M.2.2[0]?.bind (·[0]?)).getD 0 != 0

/-- sgpr corr kdiag Kxz Kzz Ksz Kss r noise R
replies: 0 Q | 1 Qs | 2 kernel_eval(R) | 3 cross(R) | 4 cache(R) | 5 mean(R) | 6 cov(R) |
7 titsias mean | 8 titsias cov | 9 represented-matrix mean | 10 represented-matrix cov |
11 ‖R Rᵀ − Kzz⁻¹‖∞ / ‖Kzz⁻¹‖∞ | 12 quad (titsias) | 13 det(Q+Σ) | 14 added loss | 15 cond(A_code) |
16..21 the same through the GENERATED definitions: kernel_eval | cross | covar_cache (Cholesky primitive = shipped L⁻¹,
matrix 9 of the request) | mean | cov | added loss -/
def opSgpr (G : GenOps) (ms : Array RawMat) : Option String := do
  let C ← ms[0]?; let KD ← ms[1]?; let Kxz ← ms[2]?; let Kzz ← ms[3]?; let Ksz ← ms[4]?; let Kss ← ms[5]?
  let Rr ← ms[6]?; let Nz ← ms[7]?; let Rt ← ms[8]?
  let corr := boolOf C
  let n := Kxz.1; let m := Kxz.2.1; let ns := Ksz.1
  let kd ← asMat KD n 1; let kxz ← asMat Kxz n m; let kzz ← asMat Kzz m m; let ksz ← asMat Ksz ns m
  let kss ← asMat Kss ns ns; let r ← asMat Rr n 1; let nz ← asMat Nz n 1; let R ← asMat Rt m m
  let kzzInv ← DMat.inv? kzz
  -- dense meaning (certified inverse of Kzz)
  let Q := (kxz.mul kzzInv).mul kxz.transpose
  let Qs := (ksz.mul kzzInv).mul kxz.transpose
  let Sigma : DMat n n Rat := DMat.diagonal (colFn nz)
  let (mt, ct) ← conditional? Q Sigma Qs kss r
  let dcorr : Fin n → Rat := fun i => if corr then diagCorrection (colFn kd) Q i else 0
  let (mc, cc) ← conditional? (Q.add (DMat.diagonal dcorr)) Sigma Qs kss r
  let AcInv ← DMat.inv? ((Q.add (DMat.diagonal dcorr)).add Sigma)
  let condA := normInf ((Q.add (DMat.diagonal dcorr)).add Sigma) * normInf AcInv
  -- the code's algebra, given the root R it actually computed
  let Rx := nystromRoot kxz R
  let L := nystromRoot ksz R
  let Keval := nystromEval corr (colFn kd) kxz R
  let cross := nystromCross ksz kxz R
  let dd : Fin n → Rat := fun i => (if corr then diagCorrection (colFn kd) (lowRank Rx) i else 0) + colFn nz i
  let dinv : Fin n → Rat := fun i => (dd i)⁻¹
  let Minv ← DMat.inv? (sgprCapacitance Rx dinv)
  let cache := sgprCache Rx (sgprInverseExact Rx dinv Minv)
  let AinvR ← DMat.inv? (Keval.add Sigma)
  let meanR := sgprPredMean L Rx AinvR r
  let covR := sgprPredCovar kss L cache
  let resid := normInf ((R.mul R.transpose).sub kzzInv) / normInf kzzInv   -- relative
  -- Titsias bound pieces
  let At := Q.add Sigma
  let AtInv ← DMat.inv? At
  let quad := ((r.transpose.mul (AtInv.mul r)).get 0 0)
  let (_, dpiv) ← DMat.ldl? At
  let det := (List.finRange n).foldl (fun acc i => acc * dpiv i) (1 : Rat)
  let added := titsiasAddedLoss (colFn kd) Q.diag (colFn nz)
  -- the REGENERATED algebra (Gen/StructuredAlgebra.lean) on the same inputs; Cholesky primitive = the shipped float64 L⁻¹
  let Li ← ms[9]?
  let P := primOf Li.2.2 #[] 0
  let gKeval := G.getCovarianceSame false corr (colFn kd) kxz R
  let gCross := G.getCovarianceCross ksz kxz R
  let gCache := G.sgprCovarCache P Rx dd
  let gMean := G.defaultPredictiveMean gCross (G.defaultMeanCache P (gKeval.add Sigma) r DMat.zero) DMat.zero
  let gCov := G.sgprPredictiveCovar kss L Rx.transpose gCache
  let gAdded := G.addedLoss (colFn kd) Q.diag (colFn nz)
  pure (joinOut [sh Q, sh Qs, sh Keval, sh cross, sh cache, sh meanR, sh covR, sh mt, sh ct, sh mc, sh cc,
    showRat resid, showRat quad, showRat det, showRat added, showRat condA,
    sh gKeval, sh gCross, sh gCache, sh gMean, sh gCov, showRat gAdded])

/-- rff c F Fs noise r
replies: K | Ksx | Kss | mean | cov (dense conditional) | inner | cov through rffPredCovarExact | cond |
generated inner term | generated predictive covariance (requests carry sqrt(c) and the code's covar_cache as matrices 5, 6) -/
def opRff (G : GenOps) (ms : Array RawMat) : Option String := do
  let C ← ms[0]?; let F ← ms[1]?; let Fs ← ms[2]?; let Nz ← ms[3]?; let Rr ← ms[4]?
  let c : Rat := (C.2.2[0]?.bind (·[0]?)).getD 1
  let n := F.1; let k := F.2.1; let ns := Fs.1
  let f ← asMat F n k; let fs ← asMat Fs ns k; let nz ← asMat Nz n 1; let r ← asMat Rr n 1
  let K := (f.mul f.transpose).smul c
  let Ksx := (fs.mul f.transpose).smul c
  let Kss := (fs.mul fs.transpose).smul c
  let Sigma : DMat n n Rat := DMat.diagonal (colFn nz)
  let (mu, cov) ← conditional? K Sigma Ksx Kss r
  let Ainv ← DMat.inv? (K.add Sigma)
  let inner := rffInner c f Ainv
  let covR := rffPredCovarExact c fs inner
  -- the REGENERATED algebra: `solve` = certified inverse, `psd_safe_cholesky` = the shipped `covar_cache`, sqrt = shipped float
  let Sq_ ← ms[5]?; let Ch ← ms[6]?
  let P := primOf #[] Ch.2.2 ((Sq_.2.2[0]?.bind (·[0]?)).getD 0)
  let gInner := G.rffInnerTerm P c f (K.add Sigma)
  let gCov := G.rffPredictiveCovar P c fs (G.rffCovarCache P c f (K.add Sigma))
  -- training objective pieces: rᵀ A⁻¹ r and det A (A = c F Fᵀ + Σ)
  let quad := ((r.transpose.mul (Ainv.mul r)).get 0 0)
  let (_, dpiv) ← DMat.ldl? (K.add Sigma)
  let det := (List.finRange n).foldl (fun acc i => acc * dpiv i) (1 : Rat)
  pure (joinOut [sh K, sh Ksx, sh Kss, sh mu, sh cov, sh inner, sh covR, showRat (normInf (K.add Sigma) * normInf Ainv),
    sh gInner, sh gCov, showRat quad, showRat det])

/-- interp eps d grid_0 … grid_{d-1} X   (grids as G×1, X as npts×d; eps as 1×1, 0 = default)
replies: indices (npts × nc^d) | values -/
def opInterp (ms : Array RawMat) : Option String := do
  let E ← ms[0]?; let D ← ms[1]?
  let d := natOf ((D.2.2[0]?.bind (·[0]?)).getD 0)
  let e : Rat := (E.2.2[0]?.bind (·[0]?)).getD 0
  let eps : Rat := if e = 0 then Gen.Interp.defaultEps else e
  if ms.size ≠ d + 3 then none else
  let grids : List (Nat × (Nat → Rat)) := (List.range d).map fun i =>
    let G := ms[2 + i]!
    (G.1, fun k => ((G.2.2[k]?).bind (·[0]?)).getD 0)
  let X := ms[2 + d]!
  let rows := X.2.2.toList.map fun row => Interp.interpolate (Gen.Interp.spec eps) grids row.toList
  let idx := rows.map fun r => r.map fun p => ((p.1 : Int) : Rat)
  let val := rows.map fun r => r.map (·.2)
  pure (joinOut [showRows idx, showRows val])

/-- kiss W Ws Kuu noise r [Wf noisef rf]
replies: Kxx | Ksx | Kss | mean (through interpMeanCache) | cov | mean_cache | cond
with the fantasy triple additionally: updated P | updated resp | fantasy mean cache (exact form) |
fantasy mean | fantasy cov (dense conditional on the concatenated data) -/
def opKiss (G : GenOps) (ms : Array RawMat) : Option String := do
  let W ← ms[0]?; let Ws ← ms[1]?; let Kuu ← ms[2]?; let Nz ← ms[3]?; let Rr ← ms[4]?
  let n := W.1; let g := W.2.1; let ns := Ws.1
  let w ← asMat W n g; let ws ← asMat Ws ns g; let kuu ← asMat Kuu g g; let nz ← asMat Nz n 1; let r ← asMat Rr n 1
  let Kxx := interpKernel w kuu w
  let Ksx := interpKernel ws kuu w
  let Kss := interpKernel ws kuu ws
  let Sigma : DMat n n Rat := DMat.diagonal (colFn nz)
  let Ainv ← DMat.inv? (Kxx.add Sigma)
  let mc := interpMeanCache kuu w Ainv r
  let mean := interpApply ws mc
  let cov := condCovar Kss Ksx Ainv
  let base := [sh Kxx, sh Ksx, sh Kss, sh mean, sh cov, sh mc, showRat (normInf (Kxx.add Sigma) * normInf Ainv)]
  -- the REGENERATED mean path (last reply item)
  let P := primOf #[] #[] 0
  let gmean := G.interpPredictiveMean kuu w ws (G.interpMeanCache P kuu w (Kxx.add Sigma) r DMat.zero) DMat.zero
  match ms[5]?, ms[6]?, ms[7]? with
  | some Wf, some Nf, some Rf => do
      let nf := Wf.1
      let wf ← asMat Wf nf g; let nzf ← asMat Nf nf 1; let rf ← asMat Rf nf 1
      let dinv : Fin n → Rat := fun i => (colFn nz i)⁻¹
      let dinvf : Fin nf → Rat := fun i => (colFn nzf i)⁻¹
      let (Pn, resp) := wiskiUpdate (wiskiInnerProd w dinv) (wiskiResponse w dinv r) wf dinvf rf
      -- the root-free exact fantasy mean cache needs a g×g rational inverse: only for small grids
      let (fmc, fmean) ← (if g ≤ 14 then do
          let Tinv ← DMat.inv? (wiskiT kuu Pn)
          let fmc := wiskiMeanCacheExact kuu Tinv resp
          pure (fmc, interpApply ws fmc)
        else pure (DMat.zero, DMat.zero) : Option (DMat g 1 Rat × DMat ns 1 Rat))
      -- dense conditional on the concatenated data
      let wall := vstack w wf
      let Kall := interpKernel wall kuu wall
      let Ksall := interpKernel ws kuu wall
      let SigAll : DMat (n + nf) (n + nf) Rat := DMat.diagonal (Fin.addCases (colFn nz) (colFn nzf))
      let (dm, dc) ← conditional? Kall SigAll Ksall Kss (vstack r rf)
      pure (joinOut (base ++ [sh Pn, sh resp, sh fmc, sh fmean, sh dm, sh dc, sh gmean]))
  | _, _, _ => pure (joinOut (base ++ [sh gmean]))

/-- one request of a fantasy history with the shipped fantasy noise and its float square roots (oracle of `Prim.sqrt`) -/
structure HistReq (g : Nat) where
  q : FantasyReq g Rat
  nzf : DMat q.nf 1 Rat
  sf : DMat q.nf 1 Rat

/-- the generated transition threaded through a history: `(caches of the object after, caches handed out per request)` -/
def genHistory (G : GenOps) {g : Nat} (st : DMat g g Rat × DMat g 1 Rat) : List (HistReq g) →
    (DMat g g Rat × DMat g 1 Rat) × List (DMat g g Rat × DMat g 1 Rat)
  | [] => (st, [])
  | h :: rest =>
    let tbl : List (Rat × Rat) := (List.finRange h.q.nf).map fun i => (h.nzf.get i.1 0, h.sf.get i.1 0)
    let P : Prim Rat := { primOf #[] #[] 0 with sqrt := fun x => (tbl.lookup x).getD 0 }
    let o := G.wiskiFantasyStep P st.1 st.2 h.q.Wf (fun i => h.nzf.get i.1 0) h.q.rf DMat.zero
    let r := genHistory G o.2 rest
    (r.1, o.1 :: r.2)

/-- kissh W Ws Kuu noise r  (Wf_k noisef_k rf_k sqrt(noisef_k))*   — a HISTORY of `get_fantasy_model` requests, all issued against
the same base object.  replies: Kxx | Ksx | Kss | mean | cov | cond | generated mean (as `kiss`) | per request: dense-conditional mean | covariance (on base ++ fantasy_k data) |
response cache handed to strategy k (model history) | the same through the GENERATED transition threaded through the
history | ‖generated inner product − model‖∞ | exact WISKI mean (small grids, else zeros) |
finally: response cache of the BASE object after the history (model) | generated | ‖generated base inner product − model‖∞ |
rᵀ A⁻¹ r | det A (training objective of the base data) -/
def opKissHist (G : GenOps) (ms : Array RawMat) : Option String := do
  let W ← ms[0]?; let Ws ← ms[1]?; let Kuu ← ms[2]?; let Nz ← ms[3]?; let Rr ← ms[4]?
  let n := W.1; let g := W.2.1; let ns := Ws.1
  let w ← asMat W n g; let ws ← asMat Ws ns g; let kuu ← asMat Kuu g g; let nz ← asMat Nz n 1; let r ← asMat Rr n 1
  let Kxx := interpKernel w kuu w
  let Ksx := interpKernel ws kuu w
  let Kss := interpKernel ws kuu ws
  let Sigma : DMat n n Rat := DMat.diagonal (colFn nz)
  let Ainv ← DMat.inv? (Kxx.add Sigma)
  let mean := interpApply ws (interpMeanCache kuu w Ainv r)
  let cov := condCovar Kss Ksx Ainv
  let gmean := G.interpPredictiveMean kuu w ws (G.interpMeanCache (primOf #[] #[] 0) kuu w (Kxx.add Sigma) r DMat.zero) DMat.zero
  -- training objective pieces: rᵀ A⁻¹ r and det A (A = W K_uu Wᵀ + Σ)
  let quad := ((r.transpose.mul (Ainv.mul r)).get 0 0)
  let (_, dpiv) ← DMat.ldl? (Kxx.add Sigma)
  let det := (List.finRange n).foldl (fun acc i => acc * dpiv i) (1 : Rat)
  let dinv : Fin n → Rat := fun i => (colFn nz i)⁻¹
  let base : WiskiState g Rat := wiskiBase w dinv r
  if (ms.size - 5) % 4 ≠ 0 then none else
  let k := (ms.size - 5) / 4
  let reqs : List (HistReq g) ← (List.range k).mapM fun j => do
    let Wf ← ms[5 + 4 * j]?; let Nf ← ms[6 + 4 * j]?; let Rf ← ms[7 + 4 * j]?; let Sf ← ms[8 + 4 * j]?
    let nf := Wf.1
    let wf ← asMat Wf nf g; let nzf ← asMat Nf nf 1; let rf ← asMat Rf nf 1; let sf ← asMat Sf nf 1
    pure (⟨⟨nf, wf, fun i => (colFn nzf i)⁻¹, rf⟩, nzf, sf⟩ : HistReq g)
  -- the model's history: every request against the same object
  let hist := wiskiFantasyHistory wiskiFantasyStep base (reqs.map (·.q))
  -- the generated transition threaded through the same history
  let gres := genHistory G (base.innerProd, base.response) reqs
  let per ← (List.range k).mapM fun j => do
    let h : HistReq g ← reqs[j]?
    let mst : WiskiState g Rat ← hist.2[j]?
    let gst : DMat g g Rat × DMat g 1 Rat ← gres.2[j]?
    let wall := vstack w h.q.Wf
    let Kall := interpKernel wall kuu wall
    let Ksall := interpKernel ws kuu wall
    let SigAll : DMat (n + h.q.nf) (n + h.q.nf) Rat := DMat.diagonal (Fin.addCases (colFn nz) (colFn h.nzf))
    let (dm, dc) ← conditional? Kall SigAll Ksall Kss (vstack r h.q.rf)
    let fmean ← (if g ≤ 14 then do
        let Tinv ← DMat.inv? (wiskiT kuu mst.innerProd)
        pure (interpApply ws (wiskiMeanCacheExact kuu Tinv mst.response))
      else pure DMat.zero : Option (DMat ns 1 Rat))
    pure [sh dm, sh dc, sh mst.response, sh gst.2, showRat (normInf (gst.1.sub mst.innerProd)), sh fmean]
  pure (joinOut ([sh Kxx, sh Ksx, sh Kss, sh mean, sh cov, showRat (normInf (Kxx.add Sigma) * normInf Ainv), sh gmean] ++ per.flatten ++
    [sh hist.1.response, sh gres.1.2, showRat (normInf (gres.1.1.sub hist.1.innerProd)), showRat quad, showRat det]))

def modeCode : CopyMode → Rat
  | .memo => 0 | .fresh => 1 | .shared => 2 | .other => 3

/-- gentab n d  — the small generated tables next to the model's:
`_compute_grid` source map for both flags (rows `[flag p c row col]`, generated | model), point dimension and result shape
(generated | model), and the copy modes of `InducingPointKernel.__deepcopy__` for (base_kernel, inducing_points, likelihood)
(generated | model; 0 = deepcopy with memo, 1 = deepcopy without memo, 2 = shared reference, 3 = other) -/
def opGenTab (G : GenOps) (ms : Array RawMat) : Option String := do
  let N ← ms[0]?; let D ← ms[1]?
  let n := natOf ((N.2.2[0]?.bind (·[0]?)).getD 0); let d := natOf ((D.2.2[0]?.bind (·[0]?)).getD 0)
  let rowsOf (f : Bool → Nat → Nat → Nat → Nat → Nat × Nat) : List (List Rat) :=
    ([true, false].map fun flag =>
      let np := if flag then d * n else n
      let nc := if flag then 1 else d
      (List.range np).map fun p => (List.range nc).map fun c =>
        let s := f flag n d p c
        [(if flag then 1 else 0 : Rat), (p : Rat), (c : Rat), (s.1 : Rat), (s.2 : Rat)]).flatten.flatten
  let shapeOf (O : GenOps) : List (List Rat) := [true, false].map fun flag =>
    let r := O.computeGridResultShape flag n d
    [(O.computeGridPointDim flag n d : Rat), (r.2 : Rat), (r.1.length : Rat), ((r.1.headD 0 : Nat) : Rat)]
  let modes (O : GenOps) : List (List Rat) :=
    [["base_kernel", "inducing_points", "likelihood"].map fun a => ((O.inducingDeepcopyArgs.lookup a).map modeCode).getD 3]
  pure (joinOut [showRows (rowsOf G.computeGridSource), showRows (rowsOf modelOps.computeGridSource),
    showRows (shapeOf G), showRows (shapeOf modelOps), showRows (modes G), showRows (modes modelOps)])

/-- gridB tz K_0 … K_{d-1}  — `GridKernel.forward(last_dim_is_batch=True)`: the per-dimension factors (dense matrices shipped;
their first rows are the Toeplitz columns).  replies: d generated factors, then d model factors (`toeplitz` of the first row
under use_toeplitz, the dense matrix otherwise) -/
def opGridBatch (G : GenOps) (ms : Array RawMat) : Option String := do
  let T ← ms[0]?
  let tz := boolOf T
  let Ks ← (ms.toList.drop 1).mapM sqOf
  let rows : List (Σ n : Nat, Fin n → Rat) := Ks.map fun K =>
    ⟨K.1, fun l => if h : 0 < K.1 then K.2.toMatrix ⟨0, h⟩ l else 0⟩
  let gen := G.gridForwardLastDimBatch rows Ks tz
  let mdl : List (Sq Rat) := if tz then rows.map (fun c => ⟨c.1, toeplitz c.2⟩) else Ks
  pure (joinOut ((gen.map fun K => sh K.2) ++ (mdl.map fun K => sh K.2)))

def step (G : GenOps) (line : String) : String :=
  match tokens line with
  | op :: rest =>
    match parseMats rest with
    | none => "bad-matrices"
    | some ms =>
      let res := match op with
        | "kron" => opKron G ms
        | "lcm" => opLcm G ms
        | "index" => opIndex G ms
        | "gridT" => opGrid G true false ms
        | "gridD" => opGrid G false false ms
        | "gridrmT" => opGrid G true true ms
        | "gridrmD" => opGrid G false true ms
        | "cond" => opCond ms
        | "sgpr" => opSgpr G ms
        | "rff" => opRff G ms
        | "interp" => opInterp ms
        | "kiss" => opKiss G ms
        | "kissh" => opKissHist G ms
        | "gentab" => opGenTab G ms
        | "gridB" => opGridBatch G ms
        | _ => none
      res.getD "fail"
  | [] => "empty"


end StructuredDriver

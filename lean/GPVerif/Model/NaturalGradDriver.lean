/-
C19 — the model half of the line protocol (shared by `drivers/C19.lean`, which adds the regenerated definitions of
`Gen/NaturalGrad.lean`, and by the fallback `drivers/C19spec.lean`, which runs when the regenerated file does not build).
-/
import GPVerif.Model.NaturalGrad
import GPVerif.Model.Proto

namespace NaturalGradDriver
open Proto

def mk (n m : Nat) (rows : Array (Array Rat)) : DMat n m Rat := DMat.ofRaw rows

def sh {n m : Nat} (A : DMat n m Rat) : String := showRows A.toRows

/-- requests of the first build (model only) -/
def stepOld (line : String) : Option String :=
  match tokens line with
  | "NB" :: ts => some <| Id.run do
      let some (n, _, g, ts) := takeMat? ts | return "bad-request"
      let some (_, _, S, ts) := takeMat? ts | return "bad-request"
      let some (_, _, mu, _) := takeMat? ts | return "bad-request"
      let r := NaturalGrad.naturalBackward (mk n 1 g) (mk n n S) (mk n 1 mu)
      return sh r.1 ++ " ; " ++ sh r.2
  | "CB" :: ts => some <| Id.run do
      let some (n, _, d, ts) := takeMat? ts | return "bad-request"
      let some (_, _, L, ts) := takeMat? ts | return "bad-request"
      let some (_, _, Li, _) := takeMat? ts | return "bad-request"
      return sh (NaturalGrad.choleskyBackward (mk n n d) (mk n n L) (mk n n Li))
  | "NGD" :: ts => some <| Id.run do
      let some (n, _, k, ts) := takeMat? ts | return "bad-request"
      let some (_, _, m, ts) := takeMat? ts | return "bad-request"
      match ts with
      | [gm, gv] =>
        let some gm := parseRat? gm | return "bad-request"
        let some gv := parseRat? gv | return "bad-request"
        let r := NaturalGrad.ngdExpecGrads (mk n 1 k) (mk n 1 m) gm gv
        return sh r.1 ++ " ; " ++ sh r.2
      | _ => return "bad-request"
  | _ => none

/-- `GB <dout_dmu n×1> <dout_dL n×n> <mu n×1> <L n×n> <C n×n>`, model half:
`dout_deta1 ; dout_deta2 (= choleskyBackward) ; trilTangent` -/
def gbModel {n : Nat} (gMu : DMat n 1 Rat) (gL : DMat n n Rat) (mu : DMat n 1 Rat) (L C : DMat n n Rat) : String :=
  let G := NaturalGrad.choleskyBackward gL L C
  let r := NaturalGrad.naturalBackward gMu G mu
  sh r.1 ++ " ; " ++ sh r.2 ++ " ; " ++ sh (NaturalGrad.trilTangent G L C)

/-- `NGDX <K n×d> <natural_vec n×1> <natural_mat n×n> <gm d×1> <gv d×1> <gk>`, model half (`S` = certified inverse of
`−2·natural_mat`, `m = S·natural_vec`): `interp_mean ; interp_var ; interp_term_grad ; expec_vec_grad ; expec_mat_grad` -/
def ngdxModel {n d : Nat} (K : DMat n d Rat) (nv : DMat n 1 Rat) (Θ S : DMat n n Rat) (gm gv : DMat d 1 Rat) (gk : Rat) :
    String :=
  let m := S.mul nv
  let prec := Θ.smul (-2)
  sh (NaturalGrad.interpMeanM K m) ++ " ; " ++ sh (NaturalGrad.interpVarM K S) ++ " ; " ++
    sh (NaturalGrad.ngdInterpTermGradM S K m gm.transpose gv.transpose) ++ " ; " ++
    sh (NaturalGrad.ngdExpecVecGradM K m nv gm.transpose gv.transpose gk) ++ " ; " ++
    sh (NaturalGrad.ngdExpecMatGradM K prec gv.transpose gk)

end NaturalGradDriver

/-
L4 — settings store, the statement IR that translator G1 emits, its interpreter, and well-nested `with`
programs with exceptions.  Core Lean only (executable by the driver, no Mathlib).

Values are `Option Nat`: `none` is Python's `None`, `some k` is the k-th atom of the generated atom table
(the `repr` of a Python constant).  Classes and fields are numbered by the translator.
-/

namespace Settings

abbrev Val := Option Nat

/-- Global state: class id → field id → value. -/
abbrev Store := Nat → Nat → Val
/-- Instance (`self`) fields and constructor arguments. -/
abbrev Frame := Nat → Val

def setS (σ : Store) (c f : Nat) (v : Val) : Store :=
  fun c' f' => if c' = c ∧ f' = f then v else σ c' f'
def setF (φ : Frame) (f : Nat) (v : Val) : Frame :=
  fun f' => if f' = f then v else φ f'

inductive Expr where
  | const (v : Val)
  | param (p : Nat)
  | cls (c f : Nat)
  | self (f : Nat)
  | ifNotNone (c t e : Expr)      -- `t if c is not None else e`
  deriving DecidableEq, Repr

/-- Conditions of `if` statements: `e is not None`, Python truthiness of `e` (falsy = `None` or one of the
listed atoms, i.e. `False`, `0`, `0.0`, `''` as they occur in the atom table), and negation. -/
inductive Cond where
  | notNone (e : Expr)
  | truthy (e : Expr) (falsy : List Nat)
  | neg (c : Cond)
  deriving DecidableEq, Repr

inductive Stmt where
  | setCls (c f : Nat) (e : Expr)
  | setSelf (f : Nat) (e : Expr)
  | guard (c : Cond) (s : Stmt)                  -- `if c: s` (an `else` branch is emitted as `guard (neg c)`)
  | raiseUnlessIn (e : Expr) (allowed : List Val) -- `if e not in {...}: raise`
  | warn                                         -- `warnings.warn(...)`: raises iff warnings are escalated to errors
  deriving DecidableEq, Repr

structure Env where
  store : Store
  self : Frame
  args : Frame
  /-- the process runs with warnings escalated to exceptions (`-W error`) -/
  strict : Bool

def Expr.eval (ρ : Env) : Expr → Val
  | .const v => v
  | .param p => ρ.args p
  | .cls c f => ρ.store c f
  | .self f => ρ.self f
  | .ifNotNone c t e => if (c.eval ρ).isSome then t.eval ρ else e.eval ρ

def Cond.eval (ρ : Env) : Cond → Bool
  | .notNone e => (e.eval ρ).isSome
  | .truthy e falsy => match e.eval ρ with
    | none => false
    | some a => !falsy.contains a
  | .neg c => !c.eval ρ

/-- Returns the environment after the statement and whether it raised (a raising statement changes nothing). -/
def Stmt.exec (ρ : Env) : Stmt → Env × Bool
  | .setCls c f e => ({ ρ with store := setS ρ.store c f (e.eval ρ) }, false)
  | .setSelf f e => ({ ρ with self := setF ρ.self f (e.eval ρ) }, false)
  | .guard c s => if c.eval ρ then s.exec ρ else (ρ, false)
  | .raiseUnlessIn e allowed => if allowed.contains (e.eval ρ) then (ρ, false) else (ρ, true)
  | .warn => (ρ, ρ.strict)

/-- Run statements in order, stopping at the first raise (the environment reached so far is kept). -/
def execAll (ρ : Env) : List Stmt → Env × Bool
  | [] => (ρ, false)
  | s :: ss => if (s.exec ρ).2 then (s.exec ρ) else execAll (s.exec ρ).1 ss

structure Methods where
  init : List Stmt
  enter : List Stmt
  exit : List Stmt
  deriving DecidableEq, Repr

structure ClassDesc where
  id : Nat
  /-- class fields with their initial values -/
  fields : List (Nat × Val)
  /-- constructor parameters (ids) with defaults (`none` here means "no default": required) -/
  params : List (Nat × Option Val)
  m : Methods
  deriving DecidableEq, Repr

/-! ### Programs -/

inductive Prog where
  | skip
  | probe                                   -- observe the whole store
  | raise                                   -- user code raises
  | seq (p q : Prog)
  | withC (d : ClassDesc) (args : Frame) (body : Prog)

structure Res where
  store : Store
  raised : Bool
  trace : List Store     -- stores seen by `probe`, most recent first

/-- `with d(args): body` — Python protocol: evaluate `d(args)` (may raise: nothing is entered), call
`__enter__` (may raise: `__exit__` is not called), run the body, call `__exit__` on every exit path of
the body; all generated `__exit__`s return False (the translator rejects anything else), so an exception
raised in the body propagates after `__exit__` has run. -/
def Prog.run (strict : Bool) : Prog → Store → List Store → Res
  | .skip, σ, tr => ⟨σ, false, tr⟩
  | .probe, σ, tr => ⟨σ, false, σ :: tr⟩
  | .raise, σ, tr => ⟨σ, true, tr⟩
  | .seq p q, σ, tr =>
      let r := p.run strict σ tr
      if r.raised then r else q.run strict r.store r.trace
  | .withC d args body, σ, tr =>
      let r0 := execAll ⟨σ, fun _ => none, args, strict⟩ d.m.init
      if r0.2 then ⟨r0.1.store, true, tr⟩ else
      let r1 := execAll r0.1 d.m.enter
      if r1.2 then ⟨r1.1.store, true, tr⟩ else
      let r := body.run strict r1.1.store tr
      let r2 := execAll { r1.1 with store := r.store } d.m.exit
      ⟨r2.1.store, r2.2 || r.raised, r.trace⟩

/-- The store seen inside the block (after `__enter__`), if construction and entry succeed. -/
def enteredStore (d : ClassDesc) (args : Frame) (σ : Store) (strict : Bool := false) : Option Store :=
  let r0 := execAll ⟨σ, fun _ => none, args, strict⟩ d.m.init
  if r0.2 then none else
  let r1 := execAll r0.1 d.m.enter
  if r1.2 then none else some r1.1.store

/-- A class restores: construction does not touch the store (whether or not it raises); if `__enter__`
raises (a warning escalated to an error) it has not changed the store — Python does not call `__exit__`
then; otherwise `__exit__`, run on the instance `__enter__` left behind with the store as it was after
`__enter__`, does not raise and gives back the store from before the block — every field of every class.
For every store, all arguments, with and without escalated warnings. -/
def Restores (d : ClassDesc) : Prop := ∀ (σ : Store) (args : Frame) (strict : Bool),
  (execAll ⟨σ, fun _ => none, args, strict⟩ d.m.init).1.store = σ ∧
  ((execAll ⟨σ, fun _ => none, args, strict⟩ d.m.init).2 = false →
    ((execAll (execAll ⟨σ, fun _ => none, args, strict⟩ d.m.init).1 d.m.enter).2 = true →
      (execAll (execAll ⟨σ, fun _ => none, args, strict⟩ d.m.init).1 d.m.enter).1.store = σ) ∧
    ((execAll (execAll ⟨σ, fun _ => none, args, strict⟩ d.m.init).1 d.m.enter).2 = false →
      (execAll (execAll (execAll ⟨σ, fun _ => none, args, strict⟩ d.m.init).1 d.m.enter).1 d.m.exit).2 = false ∧
      (execAll (execAll (execAll ⟨σ, fun _ => none, args, strict⟩ d.m.init).1 d.m.enter).1 d.m.exit).1.store = σ))

def Prog.classes : Prog → List ClassDesc
  | .skip | .probe | .raise => []
  | .seq p q => p.classes ++ q.classes
  | .withC d _ body => d :: body.classes

def initialStore (cs : List ClassDesc) : Store :=
  fun c f => match cs.find? (·.id = c) with
    | none => none
    | some d => match d.fields.find? (·.1 = f) with
      | none => none
      | some (_, v) => v

end Settings

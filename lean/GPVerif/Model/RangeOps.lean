/-
Index-style list operations used by the axis-aware generated kernel terms (`Gen/KernelAxes.lean`, written by
`harness/translate/g5_axes.py`): finite sums / products over `k < n`, tabulated rows, element access with default 0,
and the peeled loop `for p in range(n)` (iteration 0 = `init`, iterations `1 … n-1` = `step p acc`).

Polymorphic in the scalar (`Model/Scalar.lean`): executed at `Float` by `drivers/C05.lean`, proved about at `ℝ`
(`Bridge/GenAxes.lean`, `Props/C05.lean`).  Core Lean only.
-/
import GPVerif.Model.Scalar

namespace Scalar

variable {α : Type} [Add α] [Sub α] [Mul α] [Div α] [Neg α] [Scalar α]

/-- `[f 0, …, f (n-1)]` -/
def tab (n : Nat) (f : Nat → α) : List α := (List.range n).map f
/-- `Σ_{k<n} f k` -/
def sumR (n : Nat) (f : Nat → α) : α := Scalar.sum (tab n f)
/-- `Π_{k<n} f k` -/
def prodR (n : Nat) (f : Nat → α) : α := Scalar.prod (tab n f)
/-- element `k` of a row (0 outside) -/
def nth (a : List α) (k : Nat) : α := a.getD k (lit 0)
/-- element `(q, l)` of a list of rows (0 outside) -/
def nth2 (A : List (List α)) (q l : Nat) : α := nth (A.getD q []) l
/-- `acc = init; for p in 1 … n-1: acc = step p acc` -/
def loopFrom1 (n : Nat) (init : α) (step : Nat → α → α) : α :=
  (List.range (n - 1)).foldl (fun acc k => step (k + 1) acc) init

/-- a list of rows stored `[q][l]` (module layout `[mixture][dimension]`) read as `[l][q]`, `l < d`, `q < Q` -/
def transposeL (d Q : Nat) (M : List (List α)) : List (List α) :=
  (List.range d).map fun l => tab Q fun q => nth2 M q l

end Scalar

/-
C14 — executable model of gpytorch's variational strategies and variational distributions.

Every function mirrors one code path of `/repo/gpytorch/variational/*.py`; the places where the code calls
a linear_operator primitive (Cholesky factor, triangular solve, `solve`, `root_decomposition`) take the
primitive's *result* as an argument (`Li` = inverse of the Cholesky factor, `Ki` = inverse of the jittered
inducing covariance, `R` = root of the variational covariance) and the theorems of `Props/C14.lean` carry the
primitive's contract (`L Lᵀ = Kzz + εI`, `Ki = K̃⁻¹`, `R Rᵀ = S`) as hypotheses.  The `?`-variants used by the
driver obtain `Li`/`Ki` from the certified `DMat.inv?`.

Executed over `ℚ` by `drivers/C14.lean`; the theorems hold over every field.
-/
import GPVerif.Model.LDL

namespace Variational
open DMat

variable {α : Type} [Field α] [DecidableEq α] {M n r T Q : Nat}

/-- `A.add_jitter(ε)` -/
def addJitter (A : DMat n n α) (ε : α) : DMat n n α := A.add ((one : DMat n n α).smul ε)

/-- predictive distribution `q(f)`: mean (column) and covariance -/
structure QF (n : Nat) (α : Type) where
  mean : DMat n 1 α
  cov : DMat n n α

/-! ### Variational distributions: stored parameters ↦ (mean, covariance) -/

/-- `chol_variational_covar.mul(lower_mask)`: the upper triangle of the stored parameter is masked out. -/
def tril (P : DMat n n α) : DMat n n α := ofMatrix <| Matrix.of fun i j => if j ≤ i then P.toMatrix i j else 0

/-- `CholeskyVariationalDistribution.forward`: `S = tril(P) tril(P)ᵀ`. -/
def cholCov (P : DMat M M α) : DMat M M α := (tril P).mul (tril P).transpose

/-- `MeanFieldVariationalDistribution.forward`: `S = diag(std²)`. -/
def meanFieldCov (s : DMat M 1 α) : DMat M M α := diagonal fun i => s.toMatrix i 0 * s.toMatrix i 0

/-- `DeltaVariationalDistribution`: a point mass; no covariance (the strategies receive `None`, i.e. `S = 0`). -/
def deltaCov : DMat M M α := zero

/-- `_NaturalToMuVarSqrt._forward`: `Σ = (−2η₂)⁻¹` (computed in the code as `LᵀL`, `L = chol(−2η₂)⁻¹`), `μ = Σ η₁`.
`X` is the inverse of `−2η₂`. -/
def naturalOfInv (X : DMat M M α) (η₁ : DMat M 1 α) : DMat M 1 α × DMat M M α := (X.mul η₁, X)

def natural? (η₁ : DMat M 1 α) (η₂ : DMat M M α) : Option (DMat M 1 α × DMat M M α) :=
  (inv? (η₂.smul (-2))).map fun X => naturalOfInv X η₁

/-- back map `(μ, Σ) ↦ (Σ⁻¹μ, −½Σ⁻¹)`; `P` is the inverse of `Σ`. -/
def toNaturalOfInv (P : DMat M M α) (μ : DMat M 1 α) : DMat M 1 α × DMat M M α := (P.mul μ, P.smul (-(1/2)))

/-- `_TrilNaturalToMuVarSqrt._forward`: `L = T⁻¹` (lower-triangular solve: only the lower triangle of `T` is
read), `μ = L (Lᵀ η₁)`, `Σ = L Lᵀ`. `Lt` is the inverse of `tril T`. -/
def trilNaturalOfInv (Lt : DMat M M α) (η₁ : DMat M 1 α) : DMat M 1 α × DMat M M α :=
  (Lt.mul (Lt.transpose.mul η₁), Lt.mul Lt.transpose)

def trilNatural? (η₁ : DMat M 1 α) (Tm : DMat M M α) : Option (DMat M 1 α × DMat M M α) :=
  (inv? (tril Tm)).map fun Lt => trilNaturalOfInv Lt η₁

/-! ### Whitened strategy (`VariationalStrategy.forward`) -/

/-- `interp_term = L⁻¹ Kzx`, `mean = mX + interp_termᵀ m_w`,
`cov = (Kxx + εₓ I) + interp_termᵀ (S_w − I) interp_term`.  The code passes `εₓ = ε` (`jitter_val`). -/
def whitenedFwd (Kzx : DMat M n α) (Kxx : DMat n n α) (mX : DMat n 1 α) (εx : α) (Li : DMat M M α)
    (mw : DMat M 1 α) (Sw : DMat M M α) : QF n α :=
  let B := Li.mul Kzx
  { mean := (B.transpose.mul mw).add mX
    cov := (addJitter Kxx εx).add (B.transpose.mul ((Sw.sub one).mul B)) }

def whitenedFwd? (L : DMat M M α) (Kzx : DMat M n α) (Kxx : DMat n n α) (mX : DMat n 1 α) (εx : α)
    (mw : DMat M 1 α) (Sw : DMat M M α) : Option (QF n α) :=
  (inv? L).map fun Li => whitenedFwd Kzx Kxx mX εx Li mw Sw

/-- The property's closed form: `mX + Kxz K̃⁻¹ (m − m_z)`, `K̃xx − Kxz K̃⁻¹ (K̃ − S) K̃⁻¹ Kzx`
(`Ki = K̃⁻¹`, `Kt = K̃`, `d = m − m_z`, `Kxz = Kzxᵀ`). -/
def closedForm (Kzx : DMat M n α) (Kxxt : DMat n n α) (mX : DMat n 1 α) (Kt Ki : DMat M M α)
    (d : DMat M 1 α) (S : DMat M M α) : QF n α :=
  let A := Ki.mul Kzx
  { mean := (Kzx.transpose.mul (Ki.mul d)).add mX
    cov := Kxxt.sub (Kzx.transpose.mul (Ki.mul ((Kt.sub S).mul A))) }

/-- unwhitened description of the whitened `q(u)`: `m − m_z = L m_w`, `S = L S_w Lᵀ`. -/
def unwhiten (L : DMat M M α) (mw : DMat M 1 α) (Sw : DMat M M α) : DMat M 1 α × DMat M M α :=
  (L.mul mw, L.mul (Sw.mul L.transpose))

/-! ### Unwhitened strategy (`UnwhitenedVariationalStrategy.forward`) -/

/-- eval mode: `inv_products = [d | R]ᵀ K̃⁻¹ Kzx`; `mean = mX + row₀`;
`cov = rowsᵀ rows + (Kxx − Kxz K̃⁻¹ Kzx)` (no jitter is added to `Kxx`; `εx` is kept as a parameter so that
the whitened/unwhitened agreement can be stated). -/
def unwhitenedFwd (Kzx : DMat M n α) (Kxx : DMat n n α) (mX : DMat n 1 α) (εx : α) (Ki : DMat M M α)
    (d : DMat M 1 α) (R : DMat M r α) : QF n α :=
  let A := Ki.mul Kzx
  let W := R.transpose.mul A
  { mean := ((d.transpose.mul A).transpose).add mX
    cov := (W.transpose.mul W).add ((addJitter Kxx εx).add ((Kzx.transpose.neg).mul A)) }

def unwhitenedFwd? (Kt : DMat M M α) (Kzx : DMat M n α) (Kxx : DMat n n α) (mX : DMat n 1 α) (εx : α)
    (d : DMat M 1 α) (R : DMat M r α) : Option (QF n α) :=
  (inv? Kt).map fun Ki => unwhitenedFwd Kzx Kxx mX εx Ki d R

/-- training mode: only variances; `diag(Kxx) − diag(Kxz K̃⁻¹ Kzx)` is clamped at `0`, then the root term is added. -/
def unwhitenedTrainVar [LinearOrder α] (Kzx : DMat M n α) (Kxx : DMat n n α) (Ki : DMat M M α) (R : DMat M r α) :
    Fin n → α :=
  let A := Ki.mul Kzx
  let W := R.transpose.mul A
  fun i => (W.transpose.mul W).toMatrix i i + max 0 (Kxx.toMatrix i i - (Kzx.transpose.mul A).toMatrix i i)

/-! ### vector-valued helpers of the generated training-mode branch (wave 3; used by `Gen.VariationalAlgebra`) -/

/-- `A.inv_quad_logdet(X, logdet=False, reduce_inv_quad=False)[0]`: the per-column quadratic forms `diag(Xᵀ A⁻¹ X)`
(`Ki = A⁻¹`). -/
def invQuadDiag (Ki : DMat M M α) (X : DMat M n α) : Fin n → α :=
  fun i => (X.transpose.mul (Ki.mul X)).toMatrix i i

/-- `v.clamp(0, math.inf)` -/
def clamp0 [LinearOrder α] (v : Fin n → α) : Fin n → α := fun i => max 0 (v i)

/-! ### KL(q(u) ‖ p(u)) — rational part and determinants

`KL(N(m,S) ‖ N(μ,P)) = ½ [ tr(P⁻¹S) + (m−μ)ᵀP⁻¹(m−μ) − M − log(det S / det P) ]`.
The driver reports `klRat` and the two determinants exactly; the logarithm is taken by the harness. -/

def quadForm (Pi : DMat M M α) (d : DMat M 1 α) : α := ((d.transpose.mul (Pi.mul d)).toMatrix 0 0)

def klRat (Pi : DMat M M α) (S : DMat M M α) (d : DMat M 1 α) : α :=
  (Pi.mul S).trace + quadForm Pi d - (M : α)

/-- whitened prior `N(0, I)`. -/
def klRatWhitened (mw : DMat M 1 α) (Sw : DMat M M α) : α := klRat (one : DMat M M α) Sw mw

/-- certified determinant of a symmetric matrix. -/
def det? (A : DMat n n α) : Option α := (ldl? A).map fun p => ∏ i, p.2 i

/-! ### Grid interpolation: `q(f) = N(W m, W S Wᵀ)` -/

def interpFwd (W : DMat n M α) (m : DMat M 1 α) (S : DMat M M α) : QF n α :=
  { mean := W.mul m, cov := W.mul (S.mul W.transpose) }

/-! ### Orthogonally decoupled: base `q(f)` at `[x; Z_mean]` = `(μ, Σ)`, point mass `m` at `Z_mean` -/

def orthFwd (μx : DMat n 1 α) (Cxx : DMat n n α) (Cxz : DMat n M α) (m : DMat M 1 α) : QF n α :=
  { mean := (Cxz.mul m).add μx, cov := Cxx }

/-- extra KL term `½ mᵀ (Σzz + εI) m` (returned without the ½). -/
def orthKLExtra (Czz : DMat M M α) (ε : α) (m : DMat M 1 α) : α := quadForm (addJitter Czz ε) m

/-! ### Multitask mixing -/

/-- LMC: `f_t(x) = Σ_q A[q,t] g_q(x)`.  Interleaved layout (index `i·T + t`).
`mean[i,t] = Σ_q μ_q[i] A[q,t]`, `cov[(i,t),(j,s)] = Σ_q Σ_q[i,j] A[q,t] A[q,s] + ε δ`. -/
def lmcMean (μ : Fin Q → DMat n 1 α) (A : DMat Q T α) : DMat n T α :=
  ofMatrix <| Matrix.of fun i t => ∑ q, (μ q).toMatrix i 0 * A.toMatrix q t

def lmcCov (C : Fin Q → DMat n n α) (A : DMat Q T α) (ε : α) : DMat (n * T) (n * T) α :=
  ofMatrix <| Matrix.of fun a b =>
    let ia := finProdFinEquiv.symm a
    let ib := finProdFinEquiv.symm b
    (∑ q, (C q).toMatrix ia.1 ib.1 * (A.toMatrix q ia.2 * A.toMatrix q ib.2)) + if a = b then ε else 0

/-- LMC with one task per input (`task_indices`): `mean[i] = Σ_q μ_q[i] A[q,τ i]`,
`cov[i,j] = Σ_q Σ_q[i,j] A[q,τ i] A[q,τ j] + ε δ`. -/
def lmcMeanIdx (μ : Fin Q → DMat n 1 α) (A : DMat Q T α) (τ : Fin n → Fin T) : DMat n 1 α :=
  ofMatrix <| Matrix.of fun i _ => ∑ q, (μ q).toMatrix i 0 * A.toMatrix q (τ i)

def lmcCovIdx (C : Fin Q → DMat n n α) (A : DMat Q T α) (τ : Fin n → Fin T) (ε : α) : DMat n n α :=
  ofMatrix <| Matrix.of fun i j => (∑ q, (C q).toMatrix i j * (A.toMatrix q (τ i) * A.toMatrix q (τ j))) + if i = j then ε else 0

/-- Independent multitask: task `t` is latent `t` (`A = I`, no jitter). -/
def indepMean (μ : Fin T → DMat n 1 α) : DMat n T α := ofMatrix <| Matrix.of fun i t => (μ t).toMatrix i 0

def indepCov (C : Fin T → DMat n n α) : DMat (n * T) (n * T) α :=
  ofMatrix <| Matrix.of fun a b =>
    let ia := finProdFinEquiv.symm a
    let ib := finProdFinEquiv.symm b
    if ia.2 = ib.2 then (C ia.2).toMatrix ia.1 ib.1 else 0

end Variational

/-
C10, shape / index layer added in wave 3 (core Lean only; imported by `Gen/MVN.lean` and `drivers/C10.lean`).

1. `permute` / `transpose` as index maps for every rank (`PermReads`, `swapAt`) — meaning of the generated `permute`
   argument lists of `rsample(base_samples)`.
2. Meaning of a generated covariance selection (`CovSel`) in the two situations that are recorded as known findings:
   paired advanced indices (an index list on a batch dimension together with an index list on the event dimension) and
   a second ellipsis (`rest_idx = (..., x)`, `last_idx = ...`).
3. `MultivariateNormal.__init__` (lazy branch): shapes after the mean / covariance batch broadcast, through `Model/Bcast`.
-/
import GPVerif.Model.MVN
import GPVerif.Model.Bcast

namespace MVN

/-! ## 1. permutations of axes -/

/-- `t.permute(perm)`: output multi-index `o` reads input multi-index `inp` iff axis `perm[j]` of the input is axis `j` of
the output, for every `j` (multi-indices in torch order, outermost first). -/
def PermReads (perm o inp : List Nat) : Prop :=
  inp.length = perm.length ∧ o.length = perm.length ∧ ∀ j, j < perm.length → inp.getD (perm.getD j 0) 0 = o.getD j 0

instance (perm o inp : List Nat) : Decidable (PermReads perm o inp) := by
  unfold PermReads
  exact inferInstanceAs (Decidable (_ ∧ _ ∧ ∀ j, j < perm.length → _))

/-- The list with the entries at positions `a` and `b` exchanged.  `t.permute(p).transpose(a, b) = t.permute(swapAt p a b)`
(in particular `t.transpose(a, b) = t.permute(swapAt (range rank) a b)`). -/
def swapAt (l : List Nat) (a b : Nat) : List Nat :=
  (l.set a (l.getD b 0)).set b (l.getD a 0)

/-- Input multi-index read by output multi-index `o` under `permute(perm)`, computed (for executable checks). -/
def permuteIdx (perm o : List Nat) : List Nat :=
  (List.range perm.length).map fun a => o.getD (perm.idxOf a) 0

/-! ## 2. covariance selections under the two recorded index patterns -/

/-- How one matrix axis of `cov[(*rest_idx, r, c)]` is read when `rest_idx` carries an index list on the batch dimension:
an index list in that position is *paired* elementwise with the batch list (torch / linear_operator advanced indexing),
a full slice stays a free axis. -/
inductive AxisRead where
  | paired | free
  deriving Repr, DecidableEq

def tokAxis : Tok → Option AxisRead
  | .last => some .paired        -- `last_idx` is the event index list
  | .full => some .free
  | _ => none

/-- Entry `(i, j)` of the matrix a covariance selection produces when `rest_idx` is an index list `bs` on the (one) batch
dimension and `last_idx` is the index list `es` of the same length; `cov b r c` is entry `(r, c)` of batch member `b`.
`cov[(bs, es, :)]` pairs `bs` with `es` — row `i` is `cov[bs_i, es_i, :]` — and the following `[..., es]` selects columns;
with the slice between the two lists the paired axis moves to the front in the same way.  `none`: the selection does not
produce a `k × k` matrix per paired row (three paired lists give a vector) or is not of this form. -/
def covSelPaired {α : Type} (cov : Nat → Nat → Nat → α) (bs es : List Nat) : CovSel → Option (Nat → Nat → α)
  | .indexThen [.rest, r, c] [.ell, .last] =>
      match tokAxis r, tokAxis c with
      | some .paired, some .free => some fun i j => cov (bs.getD i 0) (es.getD i 0) (es.getD j 0)
      | some .free, some .paired => some fun i j => cov (bs.getD i 0) (es.getD j 0) (es.getD i 0)
      | _, _ => none
  | _ => none

/-- The specification for the same index: the selected components are `(batch member bs_i, component es_i)`; batch members
are independent, so their covariance is `Σ_{bs_i}[es_i, es_j]` when `bs_i = bs_j` and `0` otherwise. -/
def pairedMarginal {α : Type} [OfNat α 0] (cov : Nat → Nat → Nat → α) (bs es : List Nat) : Nat → Nat → α :=
  fun i j => if bs.getD i 0 = bs.getD j 0 then cov (bs.getD i 0) (es.getD i 0) (es.getD j 0) else 0

/-- `(rows, columns)` of `Σ` read by a covariance selection when `rest_idx = (..., x)` — the index was `(..., x, ...)`,
its second ellipsis became `last_idx`.  In `cov[rest_idx]` the ellipsis absorbs every axis but the last one, so `x` indexes
the COLUMN axis of `Σ` and the row axis is kept whole (whereas `mean[..., x, ...] = mean[..., x]` selects the event
positions of `x`). -/
def covSelPositionsRestEllipsis (n : Nat) (x : Idx) : CovSel → Option (Sel × Sel)
  | .index [.rest] => (normDim n x).map fun cs => (Sel.keep (List.range n), cs)
  | _ => none

/-! ## 3. `__init__`: batch broadcast of mean and covariance -/

/-- `torch.broadcast_shapes` (shapes in torch order); `none` = the shapes do not broadcast (RuntimeError). -/
def broadcastShapes (s t : List Nat) : Option (List Nat) := Bcast.broadcastShapes s t

/-- Specification of the shapes `MultivariateNormal.__init__` must store: mean `batch ++ [n]`, covariance
`batch ++ [n1, n2]` with `batch = broadcast(mean batch, covariance batch)`. -/
def initShapesSpec (ms cs : List Nat) : Option (List Nat × List Nat) :=
  (broadcastShapes (ms.take (ms.length - 1)) (cs.take (cs.length - 2))).map fun bs =>
    (bs ++ ms.drop (ms.length - 1), bs ++ cs.drop (cs.length - 2))

end MVN

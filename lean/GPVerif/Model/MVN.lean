/-
C10 — executable model of `gpytorch.distributions.MultivariateNormal` (multivariate_normal.py, delta.py).

Two layers, both executed by `drivers/C10.lean` and both the subject of `Props/C10.lean`:

* index normalisation of `__getitem__` — core Lean `Nat`/`Int` functions (Python `slice.indices`
  semantics, negative ints, ellipsis expansion, index lists) and the repeat factors of `log_prob`;
* exact linear algebra over an arbitrary field (run at `ℚ`): quadratic form through the certified inverse,
  determinant through the certified LDLᵀ, the KL divergence in the code's form (`inv_quad` of the columns
  `[Δμ | R]`) and in closed form, `rsample = μ + L ε`, affine laws, marginals.
-/
import GPVerif.Model.LDL

namespace MVN

/-! ## 1. Index normalisation (core Lean only) -/

/-- One entry of an index tuple. -/
inductive Idx where
  | int (i : Int)
  | slice (start stop : Option Int) (step : Int)
  | ellipsis
  | list (is : List Int)
  deriving Repr, DecidableEq

/-- What one dimension of the indexed tensor keeps: a single position (dimension dropped) or a list of
positions (dimension kept, in this order). -/
inductive Sel where
  | drop (p : Nat)
  | keep (ps : List Nat)
  deriving Repr, DecidableEq

/-- Python integer index: `i` if `0 ≤ i < n`, `i + n` if `-n ≤ i < 0`, otherwise an `IndexError`. -/
def normInt (n : Nat) (i : Int) : Option Nat :=
  let j := if i < 0 then i + n else i
  if 0 ≤ j ∧ j < n then some j.toNat else none

/-- CPython `PySlice_AdjustIndices`, one bound, positive step. -/
def clampPos (n : Nat) (b : Int) : Int :=
  if b < 0 then (if b + n < 0 then 0 else b + n) else (if b ≥ n then n else b)

/-- CPython `PySlice_AdjustIndices`, one bound, negative step. -/
def clampNeg (n : Nat) (b : Int) : Int :=
  if b < 0 then (if b + n < 0 then -1 else b + n) else (if b ≥ n then (n : Int) - 1 else b)

/-- `slice(start, stop, step).indices(n)` (step ≠ 0). -/
def sliceIndices (n : Nat) (start stop : Option Int) (step : Int) : Int × Int :=
  if step > 0 then
    ((start.map (clampPos n)).getD 0, (stop.map (clampPos n)).getD n)
  else
    ((start.map (clampNeg n)).getD ((n : Int) - 1), (stop.map (clampNeg n)).getD (-1))

/-- `len(range(lo, hi, step))`. -/
def rangeLen (lo hi step : Int) : Nat :=
  if step > 0 then (if lo < hi then ((hi - lo - 1) / step + 1).toNat else 0)
  else if step < 0 then (if hi < lo then ((lo - hi - 1) / (-step) + 1).toNat else 0)
  else 0

/-- `list(range(*slice(start, stop, step).indices(n)))`. -/
def slicePositions (n : Nat) (start stop : Option Int) (step : Int) : List Nat :=
  let lh := sliceIndices n start stop step
  (List.range (rangeLen lh.1 lh.2 step)).map fun (j : Nat) => (lh.1 + (j : Int) * step).toNat

/-- Replace the (single) ellipsis by full slices and pad with full slices at the end, so that the result
has exactly one entry per dimension.  `none`: too many indices or more than one ellipsis. -/
def expandEllipsis (ndim : Nat) (idx : List Idx) : Option (List Idx) :=
  let full := Idx.slice none none 1
  let k := (idx.filter (· ≠ Idx.ellipsis)).length
  let e := idx.length - k
  if k > ndim ∨ e > 1 then none
  else
    let fill := List.replicate (ndim - k) full
    if e = 0 then some (idx ++ fill)
    else some (idx.flatMap fun i => if i = Idx.ellipsis then fill else [i])

/-- Normalise one entry against a dimension of size `n`.  Negative steps are rejected (torch does). -/
def normDim (n : Nat) : Idx → Option Sel
  | .int i => (normInt n i).map Sel.drop
  | .slice s e st => if st > 0 then some (Sel.keep (slicePositions n s e st)) else none
  | .ellipsis => none
  | .list is => (is.mapM (normInt n)).map Sel.keep

/-- Normalise a whole index tuple against a shape: one `Sel` per dimension. -/
def normIndex (shape : List Nat) (idx : List Idx) : Option (List Sel) :=
  (expandEllipsis shape.length idx).bind fun full =>
    (List.zip shape full).mapM fun p => normDim p.1 p.2

/-- Shape of `t[idx]` for basic indexing plus at most one index list. -/
def selShape (sels : List Sel) : List Nat :=
  sels.filterMap fun | .drop _ => none | .keep ps => some ps.length

/-! ### `log_prob`: reconciliation of the batch shape of `value - mean` with the covariance batch shape
(multivariate_normal.py:237-246) -/

/-- `(*(1 for _ in range(diff.dim() + 1 - covar.dim())), *covar.batch_shape)` -/
def padBatch (k : Nat) (cs : List Nat) : List Nat := List.replicate (k - cs.length) 1 ++ cs

/-- `diff_size // covar_size` per batch dimension. -/
def repeatFactors (ds cs : List Nat) : List Nat :=
  List.zipWith (· / ·) ds (padBatch ds.length cs)

/-- `covar.repeat(f)[i]` reads `covar[i % c]` (per dimension). -/
def repeatSource (c i : Nat) : Nat := i % c

/-- Broadcasting reads position 0 of a size-1 dimension and position `i` otherwise. -/
def broadcastSource (c i : Nat) : Nat := if c = 1 then 0 else i

/-! ## 2. Exact linear algebra -/

variable {n m a b : Nat} {α : Type}

/-- `[A | B]` (`torch.cat([A, B], -1)`). -/
def hcat (A : DMat n a α) (B : DMat n b α) : DMat n (a + b) α :=
  DMat.ofMatrix fun i j => Fin.addCases (fun j => A.toMatrix i j) (fun j => B.toMatrix i j) j

/-- Column vector from a function. -/
def colVec (v : Fin n → α) : DMat n 1 α := DMat.ofMatrix fun i _ => v i

/-- Select positions `ps` (all `< n`). -/
def selFn (ps : List Nat) (h : ∀ p ∈ ps, p < n) : Fin ps.length → Fin n :=
  fun i => ⟨ps[i.1], h _ (List.getElem_mem _)⟩

/-- Marginal mean `μ[idx]`. -/
def margMean? (mu : DMat n 1 α) (ps : List Nat) : Option (DMat ps.length 1 α) :=
  if h : ∀ p ∈ ps, p < n then some (mu.submatrix (selFn ps h) id) else none

/-- Marginal covariance `Σ[idx, idx]`. -/
def margCov? (S : DMat n n α) (ps : List Nat) : Option (DMat ps.length ps.length α) :=
  if h : ∀ p ∈ ps, p < n then some (S.submatrix (selFn ps h) (selFn ps h)) else none

section field
variable [Field α] [DecidableEq α]

/-- `rᵀ Σ⁻¹ r` through the certified inverse. -/
def quadForm? (S : DMat n n α) (r : DMat n 1 α) : Option α :=
  (DMat.inv? S).map fun X => (r.transpose.mul (X.mul r)).toMatrix 0 0

/-- `det Σ` through the certified `L D Lᵀ`. -/
def det? (S : DMat n n α) : Option α :=
  (DMat.ldl? S).map fun Ld => ∏ i, Ld.2 i

/-- linear_operator's `inv_quad` with a matrix right-hand side: `Σ_c cᵀ S⁻¹ c` over the columns `c` of `M`,
i.e. `tr(Mᵀ S⁻¹ M)`. -/
def invQuadCols? (S : DMat n n α) (M : DMat n m α) : Option α :=
  (DMat.inv? S).map fun X => (M.transpose.mul (X.mul M)).trace

/-- The pieces of `log_prob`: `(quad, det)` for `r = v − μ`. -/
def logProbParts? (S : DMat n n α) (mu v : DMat n 1 α) : Option (α × α) := do
  let q ← quadForm? S (v.sub mu)
  let d ← det? S
  some (q, d)

/-- `-0.5 * sum([inv_quad, logdet, k * log(2π)])` (multivariate_normal.py:252). -/
def logProbAssemble (quad logdet klog2pi : α) : α := -(1 / 2) * (quad + logdet + klog2pi)

/-- `kl_mvn_mvn(p, q)`, the part the code obtains from one `inv_quad` call:
`inv_quad(Σq, [μp − μq | R])` with `R` the root of `Σp` (multivariate_normal.py:466-475). -/
def klCode? (Sq : DMat n n α) (mup muq : DMat n 1 α) (R : DMat n m α) : Option α :=
  invQuadCols? Sq (hcat (mup.sub muq) R)

/-- Closed form of `KL(p‖q)`, rational parts: `(tr(Σq⁻¹Σp), ΔμᵀΣq⁻¹Δμ, det Σq / det Σp)`. -/
def klClosedParts? (Sp Sq : DMat n n α) (mup muq : DMat n 1 α) : Option (α × α × α) := do
  let X ← DMat.inv? Sq
  let dp ← det? Sp
  let dq ← det? Sq
  let dmu := mup.sub muq
  some ((X.mul Sp).trace, (dmu.transpose.mul (X.mul dmu)).toMatrix 0 0, dq / dp)

/-- `0.5 * sum([logdet_q, -logdet_p, trace_plus_inv_quad_form, -k])` (multivariate_normal.py:478). -/
def klAssemble (logdetq logdetp tracePlusQuad k : α) : α :=
  (1 / 2) * (logdetq + -logdetp + tracePlusQuad + -k)

/-- `rsample(base_samples = ε) = μ + L ε`. -/
def rsample (mu : DMat n 1 α) (L : DMat n m α) (eps : DMat m 1 α) : DMat n 1 α := mu.add (L.mul eps)

/-- `d * a` : mean `a μ`, covariance `a² Σ` (multivariate_normal.py:442). -/
def scaleMean (c : α) (mu : DMat n 1 α) : DMat n 1 α := mu.smul c
def scaleCov (c : α) (S : DMat n n α) : DMat n n α := S.smul (c * c)
/-- `d + b` : mean `μ + b`, covariance unchanged. -/
def shiftMean (c : α) (mu : DMat n 1 α) : DMat n 1 α := mu.add (colVec fun _ => c)
/-- `d1 + d2` (independent): means add, covariances add. -/
def sumMean (mu1 mu2 : DMat n 1 α) : DMat n 1 α := mu1.add mu2
def sumCov (S1 S2 : DMat n n α) : DMat n n α := S1.add S2
/-- `add_jitter(ε)` : covariance `Σ + ε I`. -/
def jitterCov (e : α) (S : DMat n n α) : DMat n n α := S.add ((DMat.one : DMat n n α).smul e)

/-- `variance = diag Σ`. -/
def variance (S : DMat n n α) : Fin n → α := S.diag

/-- `confidence_region = (μ − 2σ, μ + 2σ)` for a given vector of standard deviations. -/
def confidenceRegion (mu sd : Fin n → α) : (Fin n → α) × (Fin n → α) :=
  (fun i => mu i - 2 * sd i, fun i => mu i + 2 * sd i)

end field

/-! ## 3. Symbolic layer for the regenerated definitions (`Gen/MVN.lean`, translator G7)

The translator emits, from the Python source, (i) the dispatch of `__getitem__` and, per branch, *which
sub-index of the covariance operator* builds the new covariance, as values of the types below; (ii) scalar
formulas; (iii) shape / permutation expressions.  The functions here give those values their meaning. -/

/-- Which operand of `kl_mvn_mvn(p_dist, q_dist)` an expression refers to. -/
inductive Side where
  | p | q
  deriving Repr, DecidableEq

/-- Branches of `MultivariateNormal.__getitem__` (multivariate_normal.py:417-434). -/
inductive Br where
  | batchOnly | tooMany | int | slice | ellipsis | advanced
  deriving Repr, DecidableEq

/-- One entry of the tuple the covariance operator is indexed with. -/
inductive Tok where
  | whole                 -- the whole `idx` tuple (splat)
  | rest                  -- `*rest_idx`
  | last                  -- `last_idx`
  | lastPlus (k : Int)    -- `last_idx + k` (only meaningful for an int)
  | full                  -- `slice(None, None, None)`
  | ell                   -- `...`
  deriving Repr, DecidableEq

/-- How a branch reads the new covariance out of `self.lazy_covariance_matrix`. -/
inductive CovSel where
  | index (pre : List Tok)                 -- `cov[pre]`
  | indexThen (pre post : List Tok)        -- `cov[pre][post]`
  | diagOf (pre : List Tok)                -- `DiagLinearOperator(cov.diagonal(dim1=-1, dim2=-2)[pre])`
  | raise                                  -- the branch raises
  deriving Repr, DecidableEq

def Idx.isInt : Idx → Bool
  | .int _ => true
  | _ => false
def Idx.isSlice : Idx → Bool
  | .slice _ _ _ => true
  | _ => false
def Idx.isEllipsis : Idx → Bool
  | .ellipsis => true
  | _ => false

/-- Specification of the dispatch: batch-only when the index is shorter than the mean's rank and the prefix has
no ellipsis; too many indices raise; otherwise by the kind of the last entry. -/
def dispatchSpec (lenIdx meanDim : Nat) (ellInRest : Bool) (last : Idx) : Br :=
  if lenIdx + 1 ≤ meanDim ∧ ellInRest = false then .batchOnly
  else if lenIdx > meanDim then .tooMany
  else match last with
    | .int _ => .int
    | .slice _ _ _ => .slice
    | .ellipsis => .ellipsis
    | .list _ => .advanced

/-- Event positions denoted by a token, for an event dimension of size `n` and the given `last_idx`. -/
def tokSel (n : Nat) (last : Idx) : Tok → Option Sel
  | .last => normDim n last
  | .lastPlus k => match last with
    | .int i => normDim n (.int (i + k))
    | _ => none
  | .full => some (.keep (List.range n))
  | _ => none

/-- `(rows, columns)` of `Σ` read by a covariance selection (event level; `rest_idx` only touches batch
dimensions).  `none`: the selection does not denote a sub-matrix of `Σ` (or raises). -/
def covSelPositions (n : Nat) (last : Idx) : CovSel → Option (Sel × Sel)
  | .index [.rest] => some (.keep (List.range n), .keep (List.range n))
  | .index [.rest, r, c] => do
      let rs ← tokSel n last r
      let cs ← tokSel n last c
      some (rs, cs)
  | .indexThen [.rest, r, c] [.ell, p] => do
      let rs ← tokSel n last r
      let cs ← tokSel n last c
      match cs with
      | .keep cl => do
          let ps ← tokSel cl.length last p
          match ps with
          | .keep js => some (rs, .keep (js.map fun j => cl.getD j 0))
          | .drop _ => none
      | .drop _ => none
  | .diagOf [.rest, t] => do
      let ps ← tokSel n last t
      match ps with
      | .drop q => some (.drop q, .drop q)
      | .keep _ => none
  | _ => none

/-- Positions as a list (a dropped dimension is the single position). -/
def Sel.positions : Sel → List Nat
  | .drop q => [q]
  | .keep ps => ps

/-- Sub-matrix `S[rows, cols]`. -/
def subMat? {α : Type} {n : Nat} (S : DMat n n α) (rows cols : List Nat) : Option (DMat rows.length cols.length α) :=
  if h : (∀ q ∈ rows, q < n) ∧ ∀ q ∈ cols, q < n then some (S.submatrix (selFn rows h.1) (selFn cols h.2)) else none

/-- `variance.clamp_min(min_variance)`, elementwise. -/
def varianceClamped {α : Type} [Max α] {n : Nat} (floor : α) (v : Fin n → α) : Fin n → α := fun i => max (v i) floor

/-- Source axis of output axis `j` under `t.permute(perm)`. -/
def permSource (perm : List Nat) (j : Nat) : Nat := perm.getD j 0

/-- `sample_shape + batch_shape + base_sample_shape`. -/
def extendedShape (ss bs ks : List Nat) : List Nat := ss ++ bs ++ ks

/-- `unsqueeze(dim)` on a batch shape of rank `nb`: accepted range and the non-negative equivalent. -/
def unsqueezeDimSpec (nb : Nat) (dim : Int) : Option Int :=
  if dim > nb ∨ dim < -(nb : Int) - 1 then none else some (if dim < 0 then nb + dim + 1 else dim)

end MVN

/-
Batch-aware model for C11 (MultitaskMultivariateNormal.__getitem__ on a distribution with batch shape `bs`,
`n` points, `t` tasks) — core Lean only, hand-written, executable.

* index expressions as the user writes them: a bare component or a tuple of components, a component being an
  int / slice / 1-d integer index tensor (`Idx`) or `Ellipsis` (`BIdx`, `IdxExpr`);
* torch's reading of such an expression on a tensor of a given rank (`specExpand`: the ellipsis stands for the
  missing dimensions, missing trailing dimensions are full slices, two ellipses / too many indices are errors);
* torch's gather semantics of `x[idx]` for ints (basic: the dimension is selected first), slices and 1-d index
  tensors (all index tensors broadcast against each other and are zipped; their common dimension stays in place
  when they are adjacent once the int dimensions are gone, and moves to the front otherwise): `gather`;
* SPEC `specGetitemB`: `d[idx]` is the distribution whose mean is `mean[idx]` and whose covariance holds, between
  two entries of `mean[idx]` of the same result batch member, the source covariance of the two (batch element,
  point, task) triples when they belong to the same source batch element and 0 otherwise (batch members are
  independent replicas);
* the meaning of the covariance selections the code performs (`CovSel`, a model of indexing a
  `LinearOperator` of shape `bs × N × N`: `cov[batch]`, `cov[batch + (s, s)]`, `cov[batch + (i,)][..., i]`,
  `DiagLinearOperator(cov.diagonal()[batch + (e,)])`), by the same gather semantics.

The code of `__getitem__` (tuple normalisation, ellipsis expansion, batch-only branch, dispatch) is NOT here: it is
regenerated into `Gen/MTIndex.lean`.  This file is validated against torch / linear_operator on every cell of the
correspondence (tagged tensors, exact).
-/
import GPVerif.Model.MTIndex

namespace MTIndex

/-! ## index expressions -/

/-- one component of an index tuple -/
inductive BIdx where
  | comp (x : Idx)
  | ellipsis
deriving DecidableEq, Repr

/-- what stands between the brackets: `d[x]` or `d[x1, …, xk]` -/
inductive IdxExpr where
  | bare (x : BIdx)
  | tuple (l : List BIdx)
deriving DecidableEq, Repr

def BIdx.comp? : BIdx → Option Idx
  | .comp x => some x
  | .ellipsis => none

def BIdx.isEllipsis : BIdx → Bool
  | .ellipsis => true
  | .comp _ => false

/-- the full slice as a tuple component -/
def BIdx.full : BIdx := .comp (.slice PySlice.full)

/-- a tuple without `Ellipsis`, as plain components (`none` if one is left) -/
def BIdx.comps? : List BIdx → Option (List Idx)
  | [] => some []
  | .comp x :: r => (BIdx.comps? r).map (x :: ·)
  | .ellipsis :: _ => none

/-- the components as a Python tuple (`idx if isinstance(idx, tuple) else (idx,)`) -/
def IdxExpr.toList : IdxExpr → List BIdx
  | .bare x => [x]
  | .tuple l => l

/-- `isinstance(idx, tuple)` -/
def IdxExpr.isTuple : IdxExpr → Bool
  | .bare _ => false
  | .tuple _ => true

/-- Python `seq[i]` for a possibly negative `i` (`IndexError` = `none`) -/
def pyGet? {α : Type} (l : List α) (i : Int) : Option α :=
  if 0 ≤ i then l[i.toNat]? else if -(l.length : Int) ≤ i then l[(i + l.length).toNat]? else none

/-- Python `seq[a:]`, `seq[:b]` for integers (negative values count from the end, clamped) -/
def pyDrop {α : Type} (l : List α) (a : Int) : List α :=
  if 0 ≤ a then l.drop a.toNat else l.drop ((a + l.length).toNat)
def pyTake {α : Type} (l : List α) (b : Int) : List α :=
  if 0 ≤ b then l.take b.toNat else l.take ((b + l.length).toNat)

/-- Python `tup * k` (empty for `k ≤ 0`) -/
def pyRepeat {α : Type} (l : List α) (k : Int) : List α := (List.replicate k.toNat l).flatten

/-- `tup.index(x)` (`ValueError` = `none`) -/
def pyIndexOf? {α : Type} [DecidableEq α] (l : List α) (x : α) : Option Int :=
  if x ∈ l then some (l.idxOf x : Nat) else none

/-- torch's reading of an index tuple on a tensor of rank `rank`: one component per dimension. -/
def specExpand (rank : Nat) (l : List BIdx) : Option (List Idx) :=
  let comps := l.filterMap BIdx.comp?
  if 1 < l.length - comps.length ∨ rank < comps.length then none
  else
    let pre := (l.takeWhile (fun x => !x.isEllipsis)).filterMap BIdx.comp?
    let post := ((l.dropWhile (fun x => !x.isEllipsis)).drop 1).filterMap BIdx.comp?
    some (pre ++ List.replicate (rank - comps.length) (.slice PySlice.full) ++ post)

/-! ## gather semantics -/

/-- an index component resolved against the length of its dimension -/
inductive RItem where
  | pick (p : Int)          -- int: the dimension disappears
  | keep (l : List Int)     -- slice: the dimension stays, with these positions
  | adv (l : List Int)      -- 1-d index tensor (entries already wrapped)
deriving DecidableEq, Repr

def Idx.toRItem (len : Int) : Idx → Option RItem
  | .int i => (wrap len i).map .pick
  | .slice s => if s.stepOk then some (.keep (applyPySlice len s)) else none
  | .list l => (indexTensor len l).map .adv

/-- one item per dimension; `none` if a component is invalid for its dimension or the counts differ -/
def resolveAll : List Int → List Idx → Option (List RItem)
  | [], [] => some []
  | d :: ds, x :: xs =>
    match x.toRItem d, resolveAll ds xs with
    | some a, some r => some (a :: r)
    | _, _ => none
  | _, _ => none

def RItem.isAdv : RItem → Bool
  | .adv _ => true
  | _ => false

/-- broadcasting two lengths of 1-d index tensors -/
def bcastLen (a b : Nat) : Option Nat :=
  if a = b then some a else if a = 1 then some b else if b = 1 then some a else none

/-- common length of the index tensors: `none` = they do not broadcast, `some none` = there is none -/
def advLen : List RItem → Option (Option Nat)
  | [] => some none
  | .adv l :: r =>
    match advLen r with
    | none => none
    | some none => some (some l.length)
    | some (some L) => (bcastLen l.length L).map some
  | .pick _ :: r => advLen r
  | .keep _ :: r => advLen r

/-- entry `j` of an index tensor broadcast to the common length -/
def advAt (l : List Int) (j : Nat) : Int := if l.length = 1 then l.getD 0 0 else l.getD j 0

/-- all index tensors read at coordinate `j`; `pre` is the reversed source multi-index so far -/
def gFix {α : Type} (j : Nat) (leaf : List Int → List α) : List RItem → List Int → List α
  | [], pre => leaf pre
  | .pick p :: r, pre => gFix j leaf r (p :: pre)
  | .keep l :: r, pre => l.flatMap fun p => gFix j leaf r (p :: pre)
  | .adv l :: r, pre => gFix j leaf r (advAt l j :: pre)

/-- row-major enumeration when the common dimension of the index tensors (length `L`) stays in place: it is
opened at the first index tensor -/
def gIn {α : Type} (L : Nat) (leaf : List Int → List α) : List RItem → List Int → List α
  | [], pre => leaf pre
  | .pick p :: r, pre => gIn L leaf r (p :: pre)
  | .keep l :: r, pre => l.flatMap fun p => gIn L leaf r (p :: pre)
  | .adv l :: r, pre => (List.range L).flatMap fun j => gFix j leaf r (advAt l j :: pre)

/-- lengths of the kept (slice) dimensions, in order -/
def keepDims : List RItem → List Nat
  | [] => []
  | .keep l :: r => l.length :: keepDims r
  | _ :: r => keepDims r

/-- result shape when the index-tensor dimension stays in place -/
def shapeIn (L : Nat) : List RItem → List Nat
  | [] => []
  | .pick _ :: r => shapeIn L r
  | .keep l :: r => l.length :: shapeIn L r
  | .adv _ :: r => L :: keepDims r

/-- adjacency of the index tensors once the int dimensions are removed: `st` = 0 before the run of index
tensors, 1 inside it, 2 after it -/
def adjacentFrom : Nat → List RItem → Bool
  | _, [] => true
  | st, .pick _ :: r => adjacentFrom st r
  | 0, .keep _ :: r => adjacentFrom 0 r
  | _ + 1, .keep _ :: r => adjacentFrom 2 r
  | 0, .adv _ :: r => adjacentFrom 1 r
  | 1, .adv _ :: r => adjacentFrom 1 r
  | _ + 2, .adv _ :: _ => false

def adjacent (items : List RItem) : Bool := adjacentFrom 0 items

/-- a gathered tensor: shape and row-major data -/
structure Gathered (α : Type) where
  shape : List Nat
  data : List α
deriving Repr

instance {α : Type} [DecidableEq α] : DecidableEq (Gathered α) := fun a b =>
  if h : a.shape = b.shape ∧ a.data = b.data then isTrue (by cases a; cases b; simp_all)
  else isFalse (by intro e; subst e; simp at h)

/-- `x[items]` below the (reversed) source multi-index `pre0`, for resolved items: `leaf pre` are the entries under
the (reversed) source multi-index `pre` -/
def gatherFrom {α : Type} (leaf : List Int → List α) (items : List RItem) (pre0 : List Int) : Option (Gathered α) :=
  match advLen items with
  | none => none
  | some none => some ⟨keepDims items, gIn 0 leaf items pre0⟩
  | some (some L) =>
    if adjacent items then some ⟨shapeIn L items, gIn L leaf items pre0⟩
    else some ⟨L :: keepDims items, (List.range L).flatMap fun j => gFix j leaf items pre0⟩

/-- `x[items]` -/
def gather {α : Type} (leaf : List Int → List α) (items : List RItem) : Option (Gathered α) :=
  gatherFrom leaf items []

/-! ## the specification -/

/-- (source batch element, point, task) -/
abbrev Triple := List Int × Int × Int

/-- one entry of a result covariance: the source covariance entry `(batch element, row, column)` or `none` = 0 -/
abbrev Entry := Option (List Int × Int × Int)

/-- the triple denoted by a reversed multi-index `a :: i :: β.reverse` of the mean -/
def tripleOf (pre : List Int) : Triple :=
  match pre with
  | a :: i :: b => (b.reverse, i, a)
  | _ => ([], 0, 0)

/-- covariance between two variables of the source distribution: batch elements are independent replicas -/
def entryOf (inter : Bool) (n t : Int) (x y : Triple) : Entry :=
  if x.1 = y.1 then some (x.1, flat inter n t x.2.1 x.2.2, flat inter n t y.2.1 y.2.2) else none

/-- covariance matrix of a list of variables -/
def gram (inter : Bool) (n t : Int) (xs : List Triple) : List (List Entry) :=
  xs.map fun x => xs.map fun y => entryOf inter n t x y

/-- `cnt` consecutive blocks of length `m` -/
def chunks {α : Type} : Nat → Nat → List α → List (List α)
  | 0, _, _ => []
  | c + 1, m, l => l.take m :: chunks c m (l.drop m)

def prodNat (l : List Nat) : Nat := l.foldr (· * ·) 1

/-- a row-major `r × c` block read column by column (`M.transpose(-1, -2).reshape(-1)`) -/
def colMajor {α : Type} (r c : Nat) (blk : List α) : List α :=
  (List.range c).flatMap fun a => (List.range r).filterMap fun i => blk[i * c + a]?

/-- a batch of covariance matrices: batch shape and, per batch member in row-major order, the matrix -/
structure CovRes where
  batch : List Nat
  blocks : List (List (List Entry))
deriving DecidableEq, Repr

/-- The covariance of the distribution whose mean is the gathered tensor `g` of triples, read the way the
result class reads its mean: a `MultivariateNormal` takes the last dimension as the event (a 0-d mean is a
single variable), a multitask distribution the last two, flattened in its own layout. -/
def specCovOfMean (inter : Bool) (n t : Int) (kind : OutKind) (g : Gathered Triple) : Option CovRes :=
  match kind, g.shape.reverse with
  | .mvn, [] => some ⟨[], [gram inter n t g.data]⟩
  | .mvn, m :: b => some ⟨b.reverse, (chunks (prodNat b.reverse) m g.data).map (gram inter n t)⟩
  | .mt inter', t' :: n' :: b =>
    some ⟨b.reverse, (chunks (prodNat b.reverse) (n' * t') g.data).map fun blk =>
      gram inter n t (if inter' then blk else colMajor n' t' blk)⟩
  | .mt _, _ => none

/-- dimensions of the mean of a distribution with batch shape `bs` -/
def meanDims (bs : List Nat) (n t : Nat) : List Int := bs.map (fun (b : Nat) => (b : Int)) ++ [(n : Int), (t : Int)]

/-- the mean indexed with one component per dimension: kind of the result and its covariance -/
def specOfFull (inter : Bool) (bs : List Nat) (n t : Nat) (idx : List Idx) : Option (OutKind × CovRes) :=
  (resolveAll (meanDims bs n t) idx).bind fun items =>
  (gather (fun pre => [tripleOf pre]) items).bind fun g =>
  (pyGet? idx (-2)).bind fun r =>
  (pyGet? idx (-1)).bind fun c =>
  (specCovOfMean inter n t (specKind inter r c) g).map fun cov => (specKind inter r c, cov)

/-- **SPEC** of `d[e]` for batch shape `bs`, `n` points, `t` tasks: the result kind (2-d event iff a slice and no
int on the two event dimensions) and the covariance of `mean[e]` (torch semantics).  `none` = the index is invalid
for the mean. -/
def specGetitemB (inter : Bool) (bs : List Nat) (n t : Nat) (e : IdxExpr) : Option (OutKind × CovRes) :=
  (specExpand (bs.length + 2) e.toList).bind (specOfFull inter bs n t)

/-! ## covariance selections performed by the code -/

/-- what is selected in the two event dimensions of the covariance -/
inductive EvSel where
  | full                    -- nothing: `cov[batch]`
  | slice2 (s : NSlice)     -- `cov[batch + (s, s)]`
  | tensor (ind : List Int) -- `cov[batch + (ind,)][..., ind]`
  | diag (e : Int)          -- `DiagLinearOperator(cov.diagonal()[batch + (e,)])`
deriving DecidableEq, Repr

/-- a covariance selection: the components applied to the leading (batch) dimensions and the event selection -/
structure CovSel where
  batch : List Idx
  ev : EvSel
deriving DecidableEq, Repr

/-- the flat event positions an event selection picks (rows = columns) -/
def EvSel.positions (N : Int) : EvSel → Option (List Int)
  | .full => some (applyPySlice N PySlice.full)
  | .slice2 s => some (applySlice N s)
  | .tensor ind => indexTensor N ind
  | .diag e => indexInt N e

/-- `0, 1, …, b-1` -/
def rangeInt (b : Nat) : List Int := (List.range b).map fun (k : Nat) => (k : Int)

/-- the batch components resolved against the leading batch dimensions; the remaining ones are kept whole -/
def resolveBatch (bs : List Nat) (batch : List Idx) : Option (List RItem) :=
  if bs.length < batch.length then none
  else (resolveAll ((bs.take batch.length).map fun (b : Nat) => (b : Int)) batch).map fun items =>
    items ++ (bs.drop batch.length).map fun b => RItem.keep (rangeInt b)

/-- batch element of a reversed multi-index with `k` trailing event coordinates removed -/
def batchOf (pre : List Int) : List Int := pre.reverse

/-- `DiagLinearOperator(v)`: the vector on the diagonal, zeros elsewhere -/
def diagEmbed (v : List (List Int × Int)) : List (List Entry) :=
  (List.range v.length).map fun i => (List.range v.length).map fun j =>
    if i = j then (v[i]?).map (fun x => (x.1, x.2, x.2)) else none

/-- **model of linear_operator indexing**: the batch of matrices a covariance selection yields on a covariance
of shape `bs × N × N` whose entry `(β, p, q)` is tagged `some (β, p, q)`. -/
def CovSel.eval (bs : List Nat) (N : Int) (sel : CovSel) : Option CovRes := do
  let items ← resolveBatch bs sel.batch
  match sel.ev with
  | .full =>
    let P := applyPySlice N PySlice.full
    let g ← gather (fun pre => [P.map fun p => P.map fun q => (some (batchOf pre, p, q) : Entry)]) items
    pure ⟨g.shape, g.data⟩
  | .slice2 s =>
    let P := applySlice N s
    let g ← gather (fun pre => [P.map fun p => P.map fun q => (some (batchOf pre, p, q) : Entry)]) items
    pure ⟨g.shape, g.data⟩
  | .tensor ind =>
    let P ← indexTensor N ind
    let g ← gather (fun pre => [(batchOf (pre.drop 1), pre.headD 0)]) (items ++ [.adv P])
    match g.shape.reverse with
    | [] => none
    | m :: b =>
      pure ⟨b.reverse, (chunks (prodNat b.reverse) m g.data).map fun rows =>
        rows.map fun x => P.map fun q => (some (x.1, x.2, q) : Entry)⟩
  | .diag e =>
    let p ← wrap N e
    let g ← gather (fun pre => [(batchOf (pre.drop 1), pre.headD 0)]) (items ++ [.pick p])
    match g.shape.reverse with
    | [] => pure ⟨[], [diagEmbed g.data]⟩
    | m :: b => pure ⟨b.reverse, (chunks (prodNat b.reverse) m g.data).map diagEmbed⟩

/-- the result of `__getitem__` as a distribution: result class and covariance -/
def evalResult (bs : List Nat) (N : Int) (r : Option (OutKind × CovSel)) : Option (OutKind × CovRes) :=
  r.bind fun (k, sel) => (sel.eval bs N).map fun c => (k, c)

/-- the index has no index tensor on a batch dimension -/
def batchBasic (k : Nat) (e : IdxExpr) : Bool :=
  match specExpand (k + 2) e.toList with
  | none => true
  | some idx => (idx.take k).all fun x => !x.isList

/-- the two event components select a BLOCK of the covariance without index arithmetic on tensors: int × slice,
slice × int, or both full slices (which includes every index that addresses batch dimensions only) -/
def eventBlock (k : Nat) (e : IdxExpr) : Bool :=
  match specExpand (k + 2) e.toList with
  | none => true
  | some idx =>
    match idx.drop k with
    | [r, c] => (r.isInt && c.isSlice) || (r.isSlice && c.isInt) || (r.isFull && c.isFull)
    | _ => false

end MTIndex

/-
L3 kernel formulas for C05 / C19.

`…Spec` = the covariance function *as documented* (class docstring), for ONE pair of rows `a b : List α`.
`…Impl` = the route the code takes where it differs (quadratic-expansion `sq_dist` after centering, clamp,
          diagonal zero-fill, sin/cos feature products, Newton–Girard recursion).
`Kern`  = kernel expressions (leaves, `scale`, `add`, `mul`, structure wrappers) with `Kern.eval`.
Gradient kernels: entry formulas + the per-point interleaved layout `(i,k) ↦ i·(d+1)+k`.

Polymorphic in the scalar (`Model/Scalar.lean`): executed at `Float`/`Rat` by `drivers/C05.lean`,
proved about at `ℝ` in `Props/C05.lean`, `Props/C19.lean`.   Core Lean only.
-/
import GPVerif.Model.Scalar

namespace Kernels
open Scalar

variable {α : Type} [Add α] [Sub α] [Mul α] [Div α] [Neg α] [Scalar α]

/-! ### distances -/

/-- `(a−b)ᵀ Θ⁻² (a−b) = Σ (aᵢ−bᵢ)²/ℓᵢ²` — the scaled squared distance of the docstrings -/
def sqDistArd : (ls a b : List α) → α
  | l :: ls, x :: a, y :: b => sq (x - y) / sq l + sqDistArd ls a b
  | _, _, _ => lit 0

/-- lengthscale list for `d` input dimensions: a single lengthscale is broadcast (non-ARD) -/
def bcast (ls : List α) (d : Nat) : List α :=
  match ls with
  | [l] => List.replicate d l
  | _ => ls

/-- `sq_dist` of kernel.py for one pair: quadratic expansion after subtracting the centre `c`
(`x1.mean(-2)`), as the dot product of the concatenations `[-2·x1, |x1|², 1]·[x2, 1, |x2|²]`, clamped at 0. -/
def sqDistImpl (c a b : List α) : α :=
  let a' := rowSub a c
  let b' := rowSub b c
  let na := sum (a'.map sq)
  let nb := sum (b'.map sq)
  Scalar.max (dot (rowMulS a' (lit (-2)) ++ [na, lit 1]) (b' ++ [lit 1, nb])) (lit 0)

/-- the same without the clamp (what the matmul produces) -/
def sqDistExpansion (c a b : List α) : α :=
  let a' := rowSub a c
  let b' := rowSub b c
  sum (a'.map sq) - lit 2 * dot a' b' + sum (b'.map sq)

/-- `dist` of kernel.py when `x1 is x2`: `sqrt(clamp(sq_dist, 1e-30))` -/
def distImplSame (c a b : List α) : α := sqrt (Scalar.max (sqDistImpl c a b) (lit (1 / 10 ^ 30)))
/-- `dist` of kernel.py otherwise: `cdist.clamp_min(1e-15)` -/
def distImplCdist (a b : List α) : α := Scalar.max (dist a b) (lit (1 / 10 ^ 15))

/-! ### stationary kernels -/

def rbfSpec (ls a b : List α) : α := exp (-(lit (1 / 2) * sqDistArd ls a b))

/-- generic (autograd) path of `RBFKernel.forward`: `postprocess_rbf(sq_dist(x1/ℓ, x2/ℓ))` -/
def rbfImpl (ls c a b : List α) : α := exp (sqDistImpl c (rowDiv a ls) (rowDiv b ls) / lit (-2))

/-- Matérn closed forms in the scaled distance `r`; `nu2 = 2ν ∈ {1,3,5}` -/
def maternOfDist (nu2 : Nat) (r : α) : α :=
  match nu2 with
  | 1 => exp (-r)
  | 3 => (lit 1 + sqrt (lit 3) * r) * exp (-(sqrt (lit 3) * r))
  | 5 => (lit 1 + sqrt (lit 5) * r + lit (5 / 3) * sq r) * exp (-(sqrt (lit 5) * r))
  | _ => lit 0

def maternSpec (nu2 : Nat) (ls a b : List α) : α := maternOfDist nu2 (sqrt (sqDistArd ls a b))

/-- generic path of `MaternKernel.forward`: centre, scale, `dist`, closed form -/
def maternImpl (nu2 : Nat) (ls c a b : List α) : α :=
  maternOfDist nu2 (dist (rowDiv (rowSub a c) ls) (rowDiv (rowSub b c) ls))

def rqSpec (ls : List α) (alpha : α) (a b : List α) : α :=
  rpow (lit 1 + sqDistArd ls a b / (lit 2 * alpha)) (-alpha)

/-- `exp(−2 Σᵢ sin²(π (aᵢ−bᵢ)/pᵢ) / λᵢ)` -/
def periodicSum : (ls ps a b : List α) → α
  | l :: ls, p :: ps, x :: a, y :: b => sq (sin (pi * (x - y) / p)) / l + periodicSum ls ps a b
  | _, _, _, _ => lit 0
def periodicSpec (ls ps a b : List α) : α := exp (-(lit 2 * periodicSum ls ps a b))

def cosineSpec (p : α) (a b : List α) : α := cos (pi * dist a b / p)

/-! ### dot-product kernels -/

/-- `v·x1ᵀx2` (ARD variance: `Σ vᵢ aᵢ bᵢ`) -/
def linearSpec (v a b : List α) : α := dot v (rowMul a b)
def polySpec (c : α) (p : Nat) (a b : List α) : α := npow (dot a b + c) p

/-! ### piecewise polynomial (Rasmussen & Williams eq. 4.21, as in the class docstring) -/

def ppJ (D q : Nat) : Nat := D / 2 + q + 1

/-- the polynomial factor, coefficients as documented -/
def ppCovSpec (q : Nat) (j : Nat) (r : α) : α :=
  let J : α := lit (j : Rat)
  match q with
  | 0 => lit 1
  | 1 => (J + lit 1) * r + lit 1
  | 2 => lit 1 + (J + lit 2) * r + (sq J + lit 4 * J + lit 3) / lit 3 * sq r
  | 3 => lit 1 + (J + lit 3) * r + (lit 6 * sq J + lit 36 * J + lit 45) / lit 15 * sq r
          + (npow J 3 + lit 9 * sq J + lit 23 * J + lit 15) / lit 15 * npow r 3
  | _ => lit 0

def ppOfDist (q j : Nat) (r : α) : α := npow (Scalar.max (lit 0) (lit 1 - r)) (j + q) * ppCovSpec q j r
def ppSpec (q : Nat) (ls a b : List α) : α := ppOfDist q (ppJ a.length q) (sqrt (sqDistArd ls a b))

/-! ### spectral kernels -/

/-- one input dimension `l` of the spectral mixture: `Σ_q w_q exp(−2π² τ² σ_{q,l}²) cos(2π τ μ_{q,l})` -/
def smDim (tau : α) : (w : List α) → (mu sc : List α) → α
  | w :: ws, m :: ms, s :: ss =>
      w * (exp (-(lit 2 * sq pi * sq tau * sq s)) * cos (lit 2 * pi * tau * m)) + smDim tau ws ms ss
  | _, _, _ => lit 0

/-- product over input dimensions of 1-d mixtures; `mus`/`scs` are indexed `[dimension][mixture]` -/
def smSpec (w : List α) : (mus scs : List (List α)) → (a b : List α) → α
  | mu :: mus, sc :: scs, x :: a, y :: b => smDim (x - y) w mu sc * smSpec w mus scs a b
  | _, _, _, _ => lit 1

/-- `mean_j cos(2π z_j·((a−b)/ℓ))` — what the sin/cos feature product of `SpectralDeltaKernel` means -/
def cosFeatureMean (scale : α) (Z : List (List α)) (t : List α) : α :=
  sum (Z.map fun z => cos (scale * dot z t)) / lit (Z.length : Rat)

/-- the feature product the code forms: `Σ_j (cos u_j cos v_j + sin u_j sin v_j) / S` -/
def cosFeatureImpl (scale : α) (Z : List (List α)) (a b : List α) : α :=
  sum (Z.map fun z => cos (scale * dot z a) * cos (scale * dot z b) + sin (scale * dot z a) * sin (scale * dot z b))
    / lit (Z.length : Rat)

def spectralDeltaSpec (ls : List α) (Z : List (List α)) (a b : List α) : α :=
  cosFeatureMean (lit 2 * pi) Z (rowDiv (rowSub a b) ls)
/-- RFF with the frequencies fixed: `(1/D) Σ cos(ωᵢᵀ(x−x'))`, `ωᵢ = wᵢ/ℓ` -/
def rffSpec (ls : List α) (W : List (List α)) (a b : List α) : α :=
  cosFeatureMean (lit 1) W (rowDiv (rowSub a b) ls)

/-! ### other leaf kernels -/

/-- Hamming distance of two flattened one-hot sequences of `T = len/vocab` tokens: `T − ⟨a,b⟩` -/
def hammingDist (vocab : Nat) (a b : List α) : α := lit ((a.length / vocab : Nat) : Rat) - dot a b
def hammingSpec (vocab : Nat) (alpha beta : α) (a b : List α) : α :=
  rpow ((lit 1 + alpha) / (alpha + hammingDist vocab a b)) beta

/-- symmetrised KL of two diagonal Gaussians given as `[means ++ log-variances]`, jitter `1e-8` on the
variances (log-ratio terms cancel in the sum) -/
def symKL : (m1 v1 m2 v2 : List α) → α
  | x :: m1, lv1 :: v1, y :: m2, lv2 :: v2 =>
      let s1 := lit (1 / 10 ^ 8) + exp lv1
      let s2 := lit (1 / 10 ^ 8) + exp lv2
      (lit (1 / 2) * (s1 / s2 + sq (x - y) / s2 - lit 1) + lit (1 / 2) * (s2 / s1 + sq (x - y) / s1 - lit 1))
        + symKL m1 v1 m2 v2
  | _, _, _, _ => lit 0
def gsklSpec (ls : α) (a b : List α) : α :=
  let d := a.length / 2
  exp (-(symKL (a.take d) (a.drop d) (b.take d) (b.drop d)) / ls)

/-- `symKL` with the variance jitter as a parameter (the code's `eps=1e-8` is the float64 nearest to `10⁻⁸`) -/
def symKLe (eps : α) : (m1 v1 m2 v2 : List α) → α
  | x :: m1, lv1 :: v1, y :: m2, lv2 :: v2 =>
      let s1 := eps + exp lv1
      let s2 := eps + exp lv2
      (lit (1 / 2) * (s1 / s2 + sq (x - y) / s2 - lit 1) + lit (1 / 2) * (s2 / s1 + sq (x - y) / s1 - lit 1))
        + symKLe eps m1 v1 m2 v2
  | _, _, _, _ => lit 0
def gsklSpecE (eps ls : α) (a b : List α) : α :=
  let d := a.length / 2
  exp (-(symKLe eps (a.take d) (a.drop d) (b.take d) (b.drop d)) / ls)

/-- ArcKernel's cylindrical embedding `[r sin(πρ x/ℓ)] ++ [r cos(πρ x/ℓ)]` -/
def arcEmbed (ls angle radius x : List α) : List α :=
  let u := rowMul angle (rowDiv x ls)
  rowMul radius (u.map fun t => sin (pi * t)) ++ rowMul radius (u.map fun t => cos (pi * t))

/-- the embedding with the activity indicator `δᵢ(x)` of the docstring: inactive dimensions embed to `[0, 0]`.
`mask` holds `δᵢ(x)` as 0/1. -/
def arcEmbedMasked (ls angle radius x mask : List α) : List α :=
  rowMul (arcEmbed ls angle radius x) (mask ++ mask)

def norm (x : List α) : α := sqrt (sum (x.map sq))
/-- Kumaraswamy warping of the radius, with the documented stabiliser `eps` -/
def kuma (alpha beta eps r : α) : α := lit 1 - rpow (lit 1 - rpow r alpha + eps) beta
/-- angular part `Σ_p w_p (âᵀb̂)^p` -/
def angular (g : α) : (w : List α) → Nat → α
  | [], _ => lit 0
  | w :: ws, p => w * npow g p + angular g ws (p + 1)

/-- `(BBᵀ + diag v)_{ij}` -/
def indexSpec (B : List (List α)) (v : List α) (i j : Nat) : α :=
  dot (B.getD i []) (B.getD j []) + (if i = j then v.getD i (lit 0) else lit 0)

/-! ### elementary symmetric polynomials (Newton–Girard additive kernel) -/

/-- `e_k(z₁…z_D)` by the defining recursion `e_k(z::zs) = e_k(zs) + z·e_{k−1}(zs)` -/
def esymm : List α → Nat → α
  | _, 0 => lit 1
  | [], _ + 1 => lit 0
  | z :: zs, k + 1 => esymm zs (k + 1) + z * esymm zs k

/-- power sum `p_k = Σ zᵢᵏ` -/
def psum (zs : List α) (k : Nat) : α := sum (zs.map fun z => npow z k)

/-- Newton–Girard recursion as coded: `e_n = (1/n) Σ_{k=1..n} (−1)^{k−1} e_{n−k} p_k`; returns `[e_0,…,e_n]`
reversed (`head = e_n`). -/
def ngTable (zs : List α) : Nat → List α
  | 0 => [lit 1]
  | n + 1 =>
      let prev := ngTable zs n          -- [e_n, e_{n-1}, …, e_0]
      let rec go : List α → Nat → α      -- Σ_{k≥k0} (−1)^{k−1} e_{n+1−k} p_k over the remaining table
        | [], _ => lit 0
        | e :: es, k => (if k % 2 = 1 then e * psum zs k else -(e * psum zs k)) + go es (k + 1)
      (go prev 1 / lit ((n + 1 : Nat) : Rat)) :: prev

def esymmNG (zs : List α) (n : Nat) : α := (ngTable zs n).headD (lit 0)

/-- `Σ_{k=1..R} s_k e_k(z)` -/
def weightedEsymm (e : Nat → α) : (s : List α) → Nat → α
  | [], _ => lit 0
  | s :: ss, k => s * e k + weightedEsymm e ss (k + 1)

/-! ### kernel expressions -/

inductive Kern (α : Type) where
  | rbf (ls : List α)
  | matern (nu2 : Nat) (ls : List α)
  | rq (ls : List α) (alpha : α)
  | periodic (ls ps : List α)
  | cosine (p : α)
  | linear (v : List α)
  | poly (c : α) (p : Nat)
  | pp (q : Nat) (ls : List α)
  | const (c : α)
  | sm (w : List α) (mus scs : List (List α))
  | sdelta (ls : List α) (Z : List (List α))
  | rff (ls : List α) (W : List (List α))
  | hamming (vocab : Nat) (alpha beta : α)
  | gskl (ls : α)
  | arc (base : Kern α) (ls angle radius : List α)
  /-- ArcKernel with a custom `delta_func`: rows are `x ++ δ(x)` (coordinates, then the 0/1 activity flags) -/
  | arcm (base : Kern α) (ls angle radius : List α)
  | cyl (radial : Kern α) (w : List α) (alpha beta eps : α)
  | scale (s : α) (k : Kern α)
  | add (k₁ k₂ : Kern α)
  | mul (k₁ k₂ : Kern α)
  | active (dims : List Nat) (k : Kern α)
  /-- `AdditiveStructureKernel`: `Σ_l k'(a_l, b_l)`; the per-dimension kernel of dimension `l` is `ks[l]` -/
  | addStruct (ks : List (Kern α))
  | prodStruct (ks : List (Kern α))
  /-- `NewtonGirardAdditiveKernel`: `Σ_k s_k e_k(k'(a_1,b_1),…,k'(a_D,b_D))` -/
  | newtonGirard (ks : List (Kern α)) (s : List α)

def select (dims : List Nat) (x : List α) : List α := dims.map fun i => x.getD i (lit 0)

mutual
  def Kern.eval : Kern α → List α → List α → α
    | .rbf ls, a, b => rbfSpec (bcast ls a.length) a b
    | .matern nu2 ls, a, b => maternSpec nu2 (bcast ls a.length) a b
    | .rq ls al, a, b => rqSpec (bcast ls a.length) al a b
    | .periodic ls ps, a, b => periodicSpec (bcast ls a.length) (bcast ps a.length) a b
    | .cosine p, a, b => cosineSpec p a b
    | .linear v, a, b => linearSpec (bcast v a.length) a b
    | .poly c p, a, b => polySpec c p a b
    | .pp q ls, a, b => ppSpec q (bcast ls a.length) a b
    | .const c, _, _ => c
    | .sm w mus scs, a, b => smSpec w mus scs a b
    | .sdelta ls Z, a, b => spectralDeltaSpec (bcast ls a.length) Z a b
    | .rff ls W, a, b => rffSpec (bcast ls a.length) W a b
    | .hamming v al be, a, b => hammingSpec v al be a b
    | .gskl l, a, b => gsklSpec l a b
    | .arc base ls an ra, a, b =>
        base.eval (arcEmbed (bcast ls a.length) (bcast an a.length) (bcast ra a.length) a)
                  (arcEmbed (bcast ls a.length) (bcast an a.length) (bcast ra a.length) b)
    | .arcm base ls an ra, a, b =>
        let d := a.length / 2
        base.eval (arcEmbedMasked (bcast ls d) (bcast an d) (bcast ra d) (a.take d) (a.drop d))
                  (arcEmbedMasked (bcast ls d) (bcast an d) (bcast ra d) (b.take d) (b.drop d))
    | .cyl radial w al be eps, a, b =>
        radial.eval [kuma al be eps (norm a)] [kuma al be eps (norm b)]
          * angular (dot (rowDivS a (norm a)) (rowDivS b (norm b))) w 0
    | .scale s k, a, b => s * k.eval a b
    | .add k₁ k₂, a, b => k₁.eval a b + k₂.eval a b
    | .mul k₁ k₂, a, b => k₁.eval a b * k₂.eval a b
    | .active dims k, a, b => k.eval (select dims a) (select dims b)
    | .addStruct ks, a, b => sum (Kern.evalDims ks a b)
    | .prodStruct ks, a, b => prod (Kern.evalDims ks a b)
    | .newtonGirard ks s, a, b => weightedEsymm (esymm (Kern.evalDims ks a b)) s 1
  /-- `[k₀(a₀,b₀), k₁(a₁,b₁), …]` — the one-dimensional kernels of a structure wrapper -/
  def Kern.evalDims : List (Kern α) → List α → List α → List α
    | k :: ks, x :: a, y :: b => k.eval [x] [y] :: Kern.evalDims ks a b
    | _, _, _ => []
end

/-- the same kernel with `NewtonGirard` evaluated through the coded recursion (power sums) -/
def newtonGirardImpl (z : List α) (s : List α) : α := weightedEsymm (esymmNG z) s 1

/-! ### gradient kernels: entries and layout -/

/-- position of `(point i, component k)` in the per-point interleaved layout with `m` components per point -/
def gradIdx (m i k : Nat) : Nat := i * m + k
/-- position before the perfect shuffle (block layout: component-major) -/
def blockIdx (n i k : Nat) : Nat := k * n + i
/-- `pi = arange(n·m).view(m, n).t().reshape(n·m)`: output position `p` reads block position `pi p` -/
def shuffle (n m p : Nat) : Nat := (p % m) * n + p / m

def delta (k l : Nat) (x : α) : α := if k = l then x else lit 0

/-- `(a_k − b_k)/ℓ_k²` -/
def gradOuter (ls a b : List α) (k : Nat) : α :=
  (a.getD k (lit 0) - b.getD k (lit 0)) / sq (ls.getD k (lit 1))

/-- RBFKernelGrad: `cov(∂ᵏf(a), ∂ˡf(b))`, component 0 = value, component `k+1` = `∂/∂x_k` -/
def rbfGradEntry (ls a b : List α) (k l : Nat) : α :=
  let K := rbfSpec ls a b
  match k, l with
  | 0, 0 => K
  | 0, l + 1 => gradOuter ls a b l * K
  | k + 1, 0 => -(gradOuter ls a b k) * K
  | k + 1, l + 1 => (delta k l (lit 1 / sq (ls.getD k (lit 1))) - gradOuter ls a b k * gradOuter ls a b l) * K

/-- Matern52KernelGrad, formulas of the class docstring -/
def matern52GradEntry (ls a b : List α) (k l : Nat) : α :=
  let r := sqrt (sqDistArd ls a b)
  let s5 := sqrt (lit 5)
  let e := exp (-(s5 * r))
  match k, l with
  | 0, 0 => maternOfDist 5 r
  | 0, l + 1 => lit (5 / 3) * (lit 1 + s5 * r) * e * gradOuter ls a b l
  | k + 1, 0 => -(lit (5 / 3) * (lit 1 + s5 * r) * e * gradOuter ls a b k)
  | k + 1, l + 1 => -(lit (5 / 3)) * e * (lit 5 * gradOuter ls a b k * gradOuter ls a b l
                        - delta k l (lit 1 / sq (ls.getD k (lit 1))) * (lit 1 + s5 * r))

/-- PolynomialKernelGrad: partial derivatives of `(aᵀb + c)^p` (`p ≥ 1`; `p·(p−1)·s^(p−2)` is dropped for `p = 1`) -/
def polyGradEntry (c : α) (p : Nat) (a b : List α) (k l : Nat) : α :=
  let s := dot a b + c
  let P : α := lit (p : Rat)
  match k, l with
  | 0, 0 => npow s p
  | 0, l + 1 => P * npow s (p - 1) * a.getD l (lit 0)
  | k + 1, 0 => P * npow s (p - 1) * b.getD k (lit 0)
  | k + 1, l + 1 =>
      (if p ≤ 1 then lit 0 else P * (P - lit 1) * npow s (p - 2) * (b.getD k (lit 0) * a.getD l (lit 0)))
        + delta k l (P * npow s (p - 1))

/-- `h_n(t,ℓ)` with `dⁿ/dtⁿ exp(−t²/2ℓ²) = h_n · exp(−t²/2ℓ²)`, `n ≤ 4` -/
def gaussHermite (n : Nat) (t l : α) : α :=
  let i2 := lit 1 / sq l          -- 1/ℓ²
  match n with
  | 0 => lit 1
  | 1 => -(t * i2)
  | 2 => sq t * sq i2 - i2
  | 3 => lit 3 * t * sq i2 - npow t 3 * npow i2 3
  | 4 => lit 3 * sq i2 - lit 6 * sq t * npow i2 3 + npow t 4 * npow i2 4
  | _ => lit 0

/-- derivative order that component `k` (of `2d+1`) applies to input dimension `m` -/
def ggOrder (d k m : Nat) : Nat :=
  if k = 0 then 0 else if k ≤ d then (if k - 1 = m then 1 else 0) else (if k - d - 1 = m then 2 else 0)

/-- `(−1)^n · x` -/
def sgn (n : Nat) (x : α) : α := if n % 2 = 1 then -x else x

/-- product over the input dimensions (index `m`, starting at the given offset) of the signed Hermite factors;
`oa m` / `ob m` = derivative order applied to dimension `m` in the first / second argument -/
def ggProd (oa ob : Nat → Nat) : List α → List α → List α → Nat → α
  | lm :: ls, x :: a, y :: b, m =>
      sgn (ob m) (gaussHermite (oa m + ob m) (x - y) lm) * ggProd oa ob ls a b (m + 1)
  | _, _, _, _ => lit 1

/-- RBFKernelGradGrad: components `0` value, `1..d` first, `d+1..2d` second (non-mixed) derivatives.
The RBF kernel is the product over dimensions of `g(a_m − b_m)`; differentiating in `a_m` is `d/dt`, in
`b_m` is `−d/dt`. -/
def rbfGradGradEntry (ls a b : List α) (k l : Nat) : α :=
  ggProd (ggOrder a.length k) (ggOrder a.length l) ls a b 0 * rbfSpec ls a b

/-- full matrix of a kernel with `m` components per point in the interleaved layout -/
def gradMatrix (entry : List α → List α → Nat → Nat → α) (m : Nat) (X1 X2 : List (List α)) : List (List α) :=
  X1.flatMap fun a => (List.range m).map fun k =>
    X2.flatMap fun b => (List.range m).map fun l => entry a b k l

/-- plain kernel matrix -/
def kernMatrix (f : List α → List α → α) (X1 X2 : List (List α)) : List (List α) :=
  X1.map fun a => X2.map fun b => f a b

end Kernels

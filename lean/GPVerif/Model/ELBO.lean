/-
C15 — executable model of the variational objectives.

* `elbo` / `pll`: `_ApproximateMarginalLogLikelihood.forward` with the scaling expressions **generated from the
  source** (`GPVerif.Gen.ElboScaling`, translator `harness/translate/g4_elbo_scaling.py`); per-point Gaussian
  terms `expected_log_prob` / `log_marginal` in closed form.
* collapsed (Titsias) bound, exact log marginal, optimal `q*`, natural-gradient step.

Logarithms are *arguments* (`logs = log σ²`, `log2pi = log 2π`, …): the driver receives them as rationals computed
by mpmath at 60 digits, the theorems instantiate them with `Real.log`.  Everything else is exact over ℚ.
-/
import GPVerif.Model.Variational
import GPVerif.Gen.ElboScaling

namespace ELBO
open DMat Variational

variable {α : Type} [Field α] [DecidableEq α] {M n : Nat}

/-! ### per-point Gaussian likelihood terms (`gaussian_likelihood.py`) -/

/-- `expected_log_prob`: `E_{N(μ,v)} log N(y; f, s) = −½ [ ((y−μ)² + v)/s + log s + log 2π ]`. -/
def gaussExpected (y μ v s logs log2pi : α) : α := (-(1 / 2)) * (((y - μ) * (y - μ) + v) / s + logs + log2pi)

/-- `log_marginal`: `log E_{N(μ,v)} N(y; f, s) = log N(y; μ, v+s) = −½ [ (y−μ)²/(v+s) + log(v+s) + log 2π ]`. -/
def gaussLogMarginal (y μ v s logvs log2pi : α) : α := (-(1 / 2)) * ((y - μ) * (y - μ) / (v + s) + logvs + log2pi)

/-! ### objectives -/

/-- `VariationalELBO.forward` / `PredictiveLogLikelihood.forward`: per-point terms are summed (`.sum(-1)`), then the
generated scaling is applied. -/
def objective (terms : List α) (numBatch kl numData beta : α) (lps losses : List α) : α :=
  Gen.ElboScaling.forward terms.sum numBatch kl numData beta lps losses

/-- The property's definition: `(1/B) Σᵢ termᵢ − (β/N) KL + (1/N) Σ logprior − Σ addedLoss`. -/
def objectiveSpec (terms : List α) (B kl N β : α) (lps losses : List α) : α :=
  (1 / B) * terms.sum - (β / N) * kl + (1 / N) * lps.sum - losses.sum

/-! ### Gaussian likelihood: collapsed bound, exact marginal, optimal q -/

/-- `Q = Kxz K̃⁻¹ Kzx` -/
def nystrom (Kzx : DMat M n α) (Ki : DMat M M α) : DMat n n α := Kzx.transpose.mul (Ki.mul Kzx)

/-- `log N(r; 0, A) = −½ [ rᵀA⁻¹r + log det A + n log 2π ]` from its pieces. -/
def gaussLogDensity (quad logdet nlog2pi : α) : α := (-(1 / 2)) * (quad + logdet + nlog2pi)

/-- Titsias' collapsed bound `log N(y; m, Q+σ²I) − tr(K̃xx − Q)/(2σ²)`. -/
def collapsed (quadA logdetA nlog2pi trDiff s : α) : α := gaussLogDensity quadA logdetA nlog2pi - trDiff / (2 * s)

/-- rational pieces of the collapsed bound and of the exact marginal, from the dense blocks:
`(rᵀ(Q+sI)⁻¹r, Q+sI, tr(K̃xx − Q), rᵀ(K̃xx+sI)⁻¹r, K̃xx+sI)`. -/
def boundPieces? (Kt : DMat M M α) (Kzx : DMat M n α) (Kxxt : DMat n n α) (r : DMat n 1 α) (s : α) :
    Option (α × DMat n n α × α × α × DMat n n α) := do
  let Ki ← inv? Kt
  let Qm := nystrom Kzx Ki
  let A := addJitter Qm s
  let Cm := addJitter Kxxt s
  let Ai ← inv? A
  let Ci ← inv? Cm
  pure (quadForm Ai r, A, (Kxxt.sub Qm).trace, quadForm Ci r, Cm)

/-- whitened coordinates, `B = L⁻¹ Kzx`: precision of `q*` is `P = I + σ⁻² B Bᵀ`. -/
def optPrec (B : DMat M n α) (s : α) : DMat M M α := (one : DMat M M α).add ((B.mul B.transpose).smul (1 / s))

/-- natural parameters of `q*` (whitened): `η₁* = σ⁻² B r`, `η₂* = −½ P`. -/
def optNatural (B : DMat M n α) (r : DMat n 1 α) (s : α) : DMat M 1 α × DMat M M α :=
  ((B.mul r).smul (1 / s), (optPrec B s).smul (-(1 / 2)))

/-- `(m_w*, S_w*)` through the natural map of C14. -/
def optWhitened? (B : DMat M n α) (r : DMat n 1 α) (s : α) : Option (DMat M 1 α × DMat M M α) :=
  natural? (optNatural B r s).1 (optNatural B r s).2

/-! ### natural-gradient step (`optim/ngd.py`, generated update expression) -/

def ngdStepMat {a b : Nat} (p g : DMat a b α) (lr numData : α) : DMat a b α :=
  ofMatrix <| Matrix.of fun i j => Gen.ElboScaling.ngdStep (p.toMatrix i j) (g.toMatrix i j) lr numData

/-- Gradient of the loss `−ELBO` (full batch, `B = N`, `β = 1`) with respect to the *expectation* parameters at the
natural parameters `(η₁, η₂)` — what `_NaturalToMuVarSqrt.backward` hands to the optimiser:
`−(1/N) (η* − η)`. -/
def lossGradExpectation (B : DMat M n α) (r : DMat n 1 α) (s N : α) (η₁ : DMat M 1 α) (η₂ : DMat M M α) :
    DMat M 1 α × DMat M M α :=
  ((((optNatural B r s).1.sub η₁).smul (-(1 / N))), (((optNatural B r s).2.sub η₂).smul (-(1 / N))))

end ELBO

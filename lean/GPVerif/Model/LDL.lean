/-
Certified determinant of a symmetric matrix through an `L·D·Lᵀ` certificate:
raw elimination produces `(L, d)`; `ldl?` returns them only after checking exactly that `L` is unit lower
triangular and `L · diag d · Lᵀ = A`.  Then `det A = ∏ d`.
-/
import GPVerif.Model.DMat
import Mathlib.LinearAlgebra.Matrix.Block

open Matrix

namespace DMat
variable {n : Nat} {α : Type} [Field α] [DecidableEq α]

/-- Raw LDLᵀ (no pivoting).  Unverified; only used behind the certificate check of `ldl?`. -/
def rawLDL (n : Nat) (A : Array (Array α)) : Array (Array α) × Array α := Id.run do
  let g (M : Array (Array α)) (i j : Nat) : α := (M[i]?.getD #[])[j]?.getD 0
  let mut L : Array (Array α) := Array.ofFn fun (i : Fin n) => Array.ofFn fun (j : Fin n) => if i = j then 1 else 0
  let mut d : Array α := Array.replicate n 0
  for j in [0:n] do
    let mut s := g A j j
    for k in [0:j] do
      s := s - g L j k * g L j k * (d[k]?.getD 0)
    d := d.setIfInBounds j s
    for i in [j+1:n] do
      let mut t := g A i j
      for k in [0:j] do
        t := t - g L i k * g L j k * (d[k]?.getD 0)
      L := L.setIfInBounds i ((L[i]?.getD #[]).setIfInBounds j (t / s))
  return (L, d)

def isUnitLower (L : DMat n n α) : Prop :=
  (∀ i j : Fin n, i < j → L.toMatrix i j = 0) ∧ ∀ i : Fin n, L.toMatrix i i = 1

def isUnitLowerB (L : DMat n n α) : Bool :=
  (List.finRange n).all fun i => decide (L.toMatrix i i = 1) &&
    (List.finRange n).all fun j => decide (i < j → L.toMatrix i j = 0)

omit [DecidableEq α] in
theorem isUnitLowerB_iff [DecidableEq α] (L : DMat n n α) : isUnitLowerB L = true ↔ isUnitLower L := by
  simp only [isUnitLowerB, isUnitLower, List.all_eq_true, List.mem_finRange, Bool.and_eq_true,
    decide_eq_true_eq, forall_const]
  constructor
  · intro h; exact ⟨fun i j hij => (h i).2 j hij, fun i => (h i).1⟩
  · intro h i; exact ⟨h.2 i, fun j hij => h.1 i j hij⟩

def ldl? (A : DMat n n α) : Option (DMat n n α × (Fin n → α)) :=
  let r := rawLDL n A.arr
  let L : DMat n n α := ofRaw r.1
  let d : Fin n → α := fun i => r.2[i.1]?.getD 0
  if isUnitLowerB L = true ∧ ((L.mul (diagonal d)).mul L.transpose).arr = A.arr then some (L, d) else none

theorem ldl?_spec {A L : DMat n n α} {d : Fin n → α} (h : ldl? A = some (L, d)) :
    isUnitLower L ∧ L.toMatrix * Matrix.diagonal d * L.toMatrixᵀ = A.toMatrix := by
  unfold ldl? at h
  simp only at h
  split at h
  · rename_i hc
    obtain ⟨h1, h2⟩ := hc
    have hL : L = ofRaw (rawLDL n A.arr).1 := by
      have := congrArg Prod.fst (Option.some.inj h); exact this.symm
    have hd : d = fun i => (rawLDL n A.arr).2[i.1]?.getD 0 := by
      have := congrArg Prod.snd (Option.some.inj h); exact this.symm
    subst hL hd
    refine ⟨(isUnitLowerB_iff _).1 h1, ?_⟩
    have := congrArg toMatrix (ext_arr h2)
    simpa using this
  · exact absurd h (by simp)

omit [DecidableEq α] in
theorem det_of_isUnitLower {L : DMat n n α} (h : isUnitLower L) : L.toMatrix.det = 1 := by
  have ht : L.toMatrix.BlockTriangular OrderDual.toDual := by
    intro i j hij
    exact h.1 i j (by simpa using hij)
  rw [Matrix.det_of_isLowerTriangular _ ht]
  simp [h.2]

/-- The certificate pins the determinant. -/
theorem ldl?_det {A L : DMat n n α} {d : Fin n → α} (h : ldl? A = some (L, d)) :
    A.toMatrix.det = ∏ i, d i := by
  obtain ⟨hl, hm⟩ := ldl?_spec h
  rw [← hm, Matrix.det_mul, Matrix.det_mul, Matrix.det_transpose, det_of_isUnitLower hl, Matrix.det_diagonal]
  simp

end DMat

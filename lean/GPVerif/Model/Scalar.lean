/-
L3 scalar layer: the record of non-field operations that kernel formulas need, and list ("row") helpers.

Definitions in `Model/Kernels.lean` and `Gen/Formulas.lean` are written once, polymorphic in a scalar type
`α` with `[Add α] [Sub α] [Mul α] [Div α] [Neg α] [Scalar α]`.  They are *executed* at `α = Float`
(IEEE double, C libm — instance below) or `α = Rat` (polynomial kernels only) by the drivers and *proved
about* at `α = ℝ` (instance in `GPVerif/Bridge/ScalarReal.lean`).  The field operations are deliberately
not part of the class so that at `ℝ` they are Mathlib's own instances (no instance-defeq friction for
`ring` / `field_simp`).

Core Lean only.
-/

/-- Non-field operations of the scalar layer. -/
class Scalar (α : Type) where
  ofRat : Rat → α
  exp : α → α
  sqrt : α → α
  sin : α → α
  cos : α → α
  /-- real power `x ^ y` (only ever used with a positive base) -/
  rpow : α → α → α
  max : α → α → α
  pi : α

namespace Scalar

variable {α : Type} [Add α] [Sub α] [Mul α] [Div α] [Neg α] [Scalar α]

/-- numeric literal -/
abbrev lit (q : Rat) : α := Scalar.ofRat q

/-- natural power by repeated multiplication (`x.pow(n)` / `x ** n` with an integer exponent) -/
def npow (x : α) : Nat → α
  | 0 => ofRat 1
  | n + 1 => x * npow x n

/-- sum of a list (right fold, `0` at the end) -/
def sum : List α → α
  | [] => ofRat 0
  | x :: xs => x + sum xs

/-- product of a list -/
def prod : List α → α
  | [] => ofRat 1
  | x :: xs => x * prod xs

/-- elementwise binary operation on two rows (stops at the shorter) -/
def zip (f : α → α → α) : List α → List α → List α
  | a :: as, b :: bs => f a b :: zip f as bs
  | _, _ => []

def rowSub (a b : List α) : List α := zip (· - ·) a b
def rowMul (a b : List α) : List α := zip (· * ·) a b
def rowDiv (a b : List α) : List α := zip (· / ·) a b
/-- row divided by one scalar (`x.div(lengthscale)` with a single lengthscale) -/
def rowDivS (a : List α) (s : α) : List α := a.map (· / s)
def rowMulS (a : List α) (s : α) : List α := a.map (· * s)

def dot (a b : List α) : α := sum (rowMul a b)
def sq (x : α) : α := x * x
/-- `Σ (aᵢ − bᵢ)²` — the squared Euclidean distance of the documentation -/
def sqDist (a b : List α) : α := sum ((rowSub a b).map sq)
/-- Euclidean distance -/
def dist (a b : List α) : α := sqrt (sqDist a b)

end Scalar

/-! ### Executable instances -/

namespace Scalar

/-- exact for dyadic rationals (every float64 shipped by the harness), correctly rounded quotient of two
exactly representable integers otherwise (e.g. `5/3`, matching Python's `5.0 / 3.0`). -/
def floatOfRat (q : Rat) : Float :=
  let d := q.den
  if d &&& (d - 1) == 0 then (Float.ofInt q.num).scaleB (-(Int.ofNat d.log2))
  else Float.ofInt q.num / Float.ofNat d

instance : Scalar Float where
  ofRat := floatOfRat
  exp := Float.exp
  sqrt := Float.sqrt
  sin := Float.sin
  cos := Float.cos
  rpow := Float.pow
  max := fun a b => if a < b then b else a
  pi := 3.141592653589793

/-- `Rat` carries the polynomial kernels only: transcendental fields are never evaluated by the driver
on this instance (they return 0 so that a misuse is visible as a wrong value, not as a crash). -/
instance : Scalar Rat where
  ofRat := id
  exp := fun _ => 0
  sqrt := fun _ => 0
  sin := fun _ => 0
  cos := fun _ => 0
  rpow := fun _ _ => 0
  max := fun a b => if a < b then b else a
  pi := 0

end Scalar

/-
Primitive operations that the regenerated matrix expressions (`GPVerif/Gen/ExactAlgebra.lean`, written by
`harness/translate/g7_exact_algebra.py`) are built from, beyond the `DMat` algebra and the masking operations of
`GPVerif/Model/ExactGP.lean`:

* `slice A r0 c0 : DMat r' c'` — the Python slice `A[..., r0 : r0 + r', c0 : c0 + c']`; the result shape is given by the
  expected type (the translator's shape inference writes it out).  Total: out-of-range reads give 0, so a source
  whose shapes do not fit still yields a definition (about which the property theorems are then unprovable).
-/
import GPVerif.Model.DMat

namespace GenOps
variable {r c r' c' : Nat} {α : Type}

def slice [Zero α] (A : DMat r c α) (r0 c0 : Nat) : DMat r' c' α :=
  DMat.ofMatrix (Matrix.of fun (i : Fin r') (j : Fin c') =>
    if h : r0 + i.1 < r ∧ c0 + j.1 < c then A.toMatrix ⟨r0 + i.1, h.1⟩ ⟨c0 + j.1, h.2⟩ else 0)

theorem toMatrix_slice_apply [Zero α] (A : DMat r c α) (r0 c0 : Nat) (i : Fin r') (j : Fin c')
    (h1 : r0 + i.1 < r) (h2 : c0 + j.1 < c) :
    (slice A r0 c0 : DMat r' c' α).toMatrix i j = A.toMatrix ⟨r0 + i.1, h1⟩ ⟨c0 + j.1, h2⟩ := by
  simp [slice, h1, h2]

/-- `ZeroLinearOperator(*shape)`. -/
def zeros [Zero α] : DMat r c α := DMat.zero

@[simp] theorem toMatrix_zeros [Zero α] : (zeros : DMat r c α).toMatrix = 0 := by simp [zeros]

end GenOps

/-
L3 log-density formulas of the scalar prior classes of `gpytorch.priors` (on their support), written once
over the scalar record: run at `Float` by `drivers/C17.lean` against `prior.log_prob`, and at `ℝ` the Normal
one is identified with Mathlib's `gaussianPDFReal` (`Props/C17.lean :: prior_density_partial`).

`NormalPrior`, `HalfNormalPrior`, `LogNormalPrior`, `UniformPrior`, `HalfCauchyPrior`, `GammaPrior` inherit
`log_prob` from torch.distributions (outside /repo: modelled from their documented densities);
`SmoothedBoxPrior` and `HorseshoePrior` are /repo code: their log densities are regenerated from the source
(`Gen/Priors.lean`, translator `harness/translate/g6_priors.py`), with `normalLogProb` below for the box's tails.
Core Lean only.
-/
import GPVerif.Model.ScalarFn

namespace Priors

variable {α : Type} [Add α] [Sub α] [Mul α] [Div α] [Neg α] [NatCast α] [TransFn α]

/-- `Normal(μ, σ).log_prob(x) = −(x−μ)²/(2σ²) − log σ − log √(2π)` -/
def normalLogProb (μ σ x : α) : α :=
  -((x - μ) * (x - μ)) / (((2 : Nat) : α) * (σ * σ)) - TransFn.log σ
    - TransFn.log (TransFn.sqrt (((2 : Nat) : α) * TransFn.pi))

/-- `HalfNormal(σ).log_prob(x)` for `x ≥ 0` -/
def halfNormalLogProb (σ x : α) : α := normalLogProb ((0 : Nat) : α) σ x + TransFn.log ((2 : Nat) : α)

/-- `LogNormal(μ, σ).log_prob(x)` for `x > 0` -/
def logNormalLogProb (μ σ x : α) : α := normalLogProb μ σ (TransFn.log x) - TransFn.log x

/-- `Uniform(a, b).log_prob(x)` for `a ≤ x < b` -/
def uniformLogProb (a b : α) : α := -TransFn.log (b - a)

/-- `HalfCauchy(s).log_prob(x)` for `x ≥ 0`: `log 2 − log π − log s − log(1 + (x/s)²)` -/
def halfCauchyLogProb (s x : α) : α :=
  TransFn.log ((2 : Nat) : α) - TransFn.log TransFn.pi - TransFn.log s - TransFn.log1p ((x / s) * (x / s))

/-- `Gamma(a, b).log_prob(x)` for `x > 0`; `lgammaA = log Γ(a)` is supplied by the caller. -/
def gammaLogProb (a b lgammaA x : α) : α :=
  a * TransFn.log b + (a - ((1 : Nat) : α)) * TransFn.log x - b * x - lgammaA

end Priors

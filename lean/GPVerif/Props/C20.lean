/-
C20 — global settings are scoped: restored on exit (normal or exceptional), innermost block wins,
documented defaults outside all blocks.

The class table (`Gen.Settings.classes`) and the per-class theorems `Gen.Settings.restores_*`,
`Gen.Settings.entered_*` are regenerated from the source on every run (translator G1); the theorems here
lift them to all well-nested programs.
-/
import GPVerif.Gen.SettingsThms
import GPVerif.Bridge.SettingsExt

namespace C20
open Settings Gen.Settings

/-- A program over restoring classes leaves the store exactly as it found it — on every exit path
(`raised` or not), for every store, every argument, every nesting depth, with or without warnings
escalated to exceptions. -/
theorem scoped_of_restores (strict : Bool) (p : Prog) (hp : ∀ d ∈ p.classes, Restores d) :
    ∀ (σ : Store) (tr : List Store), (p.run strict σ tr).store = σ := by
  induction p with
  | skip => intro σ tr; rfl
  | probe => intro σ tr; rfl
  | raise => intro σ tr; rfl
  | seq p q ihp ihq =>
    intro σ tr
    have hp' : ∀ d ∈ p.classes, Restores d := fun d hd => hp d (by simp [Prog.classes, hd])
    have hq' : ∀ d ∈ q.classes, Restores d := fun d hd => hp d (by simp [Prog.classes, hd])
    simp only [Prog.run]
    split
    · exact ihp hp' σ tr
    · rw [ihq hq', ihp hp']
  | withC d args body ih =>
    intro σ tr
    have hd : Restores d := hp d (by simp [Prog.classes])
    have hb : ∀ d' ∈ body.classes, Restores d' := fun d' h => hp d' (by simp [Prog.classes, h])
    obtain ⟨h0, h1⟩ := hd σ args strict
    simp only [Prog.run]
    split
    · exact h0
    · rename_i hr0
      obtain ⟨he, hx⟩ := h1 (by simpa using hr0)
      split
      · rename_i hr1
        exact he hr1
      · rename_i hr1
        obtain ⟨_, hs⟩ := hx (by simpa using hr1)
        rw [ih hb]
        exact hs

/-- **scoped** (the property's first clause) — for every well-nested program over the generated class table
(minus the classes listed in `partialIds`, which live outside /repo), every initial store and every exit path. -/
theorem scoped_generated (strict : Bool) (p : Prog) (hp : ∀ d ∈ p.classes, d ∈ classes ∧ d.id ∉ partialIds)
    (σ : Store) (tr : List Store) : (p.run strict σ tr).store = σ :=
  scoped_of_restores strict p (fun d hd => restores_all d (hp d hd).1 (hp d hd).2) σ tr

/-- An exception raised in the body still propagates (no generated `__exit__` swallows it). -/
theorem raise_propagates (strict : Bool) (d : ClassDesc) (args : Frame) (σ : Store) (tr : List Store) (q : Prog)
    (hq : (q.run strict ((execAll (execAll ⟨σ, fun _ => none, args, strict⟩ d.m.init).1 d.m.enter).1.store) tr).raised
      = true) :
    ((Prog.withC d args q).run strict σ tr).raised = true := by
  simp only [Prog.run]
  split
  · rfl
  · split
    · rfl
    · simp [hq]

/-- **innermost wins** — inside `with d(args): q; probe`, whatever well-nested program `q` ran before
(without raising), the probe sees exactly the store `__enter__` produced; together with the generated
`entered_*` theorems (observer = argument) this is "the innermost active block determines the value". -/
theorem innermost_visible (strict : Bool) (d : ClassDesc) (args : Frame) (q : Prog) (σ σ' : Store)
    (hq : ∀ d' ∈ q.classes, Restores d') (he : enteredStore d args σ strict = some σ')
    (hn : (q.run strict σ' []).raised = false) :
    ((Prog.withC d args (.seq q .probe)).run strict σ []).trace.head? = some σ' := by
  simp only [enteredStore] at he
  simp only [Prog.run]
  split at he
  · exact absurd he (by simp)
  · split at he
    · exact absurd he (by simp)
    · rename_i h0 h1
      have hs : (execAll (execAll ⟨σ, fun _ => none, args, strict⟩ d.m.init).1 d.m.enter).1.store = σ' := by
        simpa using he
      simp only [h0, h1, ↓reduceIte, hs, hn, Bool.false_eq_true]
      simp [scoped_of_restores strict q hq σ' []]

/-- Outside all blocks every setting reports its documented default: the defaults parsed from the class
docstrings equal the initial values of the class fields (finite table, kernel-evaluated). -/
theorem defaults_documented :
    ∀ e ∈ docDefaults, initialStore classes e.1 e.2.1 = e.2.2 := by decide +kernel

/-- Constructor defaults are the documented ones: for every entry of the (hand-written) documented table the
generated class declares that parameter with exactly that default, so `with C():` means the documented value
inside the block whatever the enclosing blocks set (per-dtype settings excepted: there `None` = keep). -/
theorem ctor_defaults_documented :
    ∀ e ∈ documentedCtorDefaults, ∃ d ∈ classes, d.id = e.1 ∧ (e.2.1, some e.2.2) ∈ d.params := by
  decide +kernel

/-- linear_operator's `cholesky_jitter` (outside /repo): restoration holds only when none of its three
fields is `None` before the block.  Full statement `Restores c_cholesky_jitter` is FALSE
(`cholesky_jitter_not_restores`). -/
theorem cholesky_jitter_restores_partial (σ : Store) (args : Frame)
    (h4 : (σ cid_cholesky_jitter fid__global_float_value).isSome)
    (h5 : (σ cid_cholesky_jitter fid__global_double_value).isSome)
    (h6 : (σ cid_cholesky_jitter fid__global_half_value).isSome) :
    (Prog.run false (.withC c_cholesky_jitter args .skip) σ []).store = σ := by
  simp only [Prog.run, c_cholesky_jitter, execAll, Stmt.exec, Expr.eval, Cond.eval, setF_apply, Nat.reduceEqDiff, ↓reduceIte,
    if_true, if_false, ite_fst, ite_snd, ite_env_store, ite_env_self, ite_env_args, ite_env_strict, ite_self, ite_fun_apply,
    Bool.false_eq_true]
  apply store_ext; intro c f
  simp only [setS_apply, ite_fun_apply]
  dsimp only [cid_cholesky_jitter, fid__global_float_value, fid__global_double_value, fid__global_half_value] at h4 h5 h6
  grind

/-- Concrete witness (the known finding): from the initial store, `with cholesky_jitter(half_value=a): pass`
leaves the half field set although it was `None` before. -/
theorem cholesky_jitter_not_restores :
    (Prog.run false (.withC c_cholesky_jitter (fun p => if p = fid_half_value then some 2 else none) .skip)
      (initialStore classes) []).store cid_cholesky_jitter fid__global_half_value
      ≠ initialStore classes cid_cholesky_jitter fid__global_half_value := by decide +kernel

/-! ### Non-vacuity: the hypotheses are met by concrete non-trivial programs -/

/-- nested blocks of two classes with a raise in the inner body -/
def demo : Prog :=
  .withC c_fast_pred_var (fun p => if p = fid_state then some 7 else if p = fid_num_probe_vectors then some 5 else none)
    (.seq .probe (.withC c_min_variance (fun p => if p = fid_half_value then some 8 else none) (.seq .probe .raise)))

example : ∀ d ∈ demo.classes, d ∈ classes ∧ d.id ∉ partialIds := by decide +kernel
example : (demo.run true (initialStore classes) []).raised = true := by decide +kernel
example : ((demo.run true (initialStore classes) []).trace.map fun s => s cid_min_variance fid__global_half_value)
    = [some 8, some 17] := by decide +kernel

/-! ## Wave 3

### A. Fields a block does not name

For the per-dtype settings (`keepParams`) an omitted argument / `None` means "keep": the generated `kept_*` theorems
(`Gen/SettingsThms.lean`, one per class and dtype) state that such a field shows, inside the block, the value it had
where the block was entered — for the class description translated from the source, whose constructor's defaulting
expression (`x if x is not None else <captured value>`) is translated, not assumed.  Here: the declared defaults, and
the lifting to nested blocks (an inner block that does not name a field shows the value of the enclosing block). -/

def halfArg (k : Nat) : Frame := fun p => if p = fid_half_value then some k else none
def dblArg (k : Nat) : Frame := fun p => if p = fid_double_value then some k else none

/-- Every "keep" parameter (per-dtype settings) is declared with default `None` in the generated class table, so an
omitted argument reaches the constructor as `None` and the `kept_*` theorems apply to it. -/
theorem keep_params_default_none :
    ∀ e ∈ keepParams, ∃ d ∈ classes, d.id = e.1 ∧ (e.2, some none) ∈ d.params := by decide +kernel

/-- **an un-named field inherits the enclosing block** — in `with d₁(a₁): with d₂(a₂): probe`, an observer `e` that the
outer block sets to `v` (`hv`, from a generated `entered_*`) and that the inner block keeps (`hk`, from a generated
`kept_*`) shows `v` at the probe.  Any two classes, any store, with or without escalated warnings. -/
theorem unnamed_inherits (strict : Bool) (d1 d2 : ClassDesc) (a1 a2 : Frame) (σ σ1 σ2 : Store) (e : Expr) (v : Val)
    (h1 : enteredStore d1 a1 σ strict = some σ1) (h2 : enteredStore d2 a2 σ1 strict = some σ2)
    (hv : e.eval ⟨σ1, fun _ => none, fun _ => none, false⟩ = v)
    (hk : e.eval ⟨σ2, fun _ => none, fun _ => none, false⟩ = e.eval ⟨σ1, fun _ => none, fun _ => none, false⟩) :
    ((Prog.withC d1 a1 (.withC d2 a2 .probe)).run strict σ []).trace.head?.map
      (fun s => e.eval ⟨s, fun _ => none, fun _ => none, false⟩) = some v := by
  simp only [enteredStore] at h1 h2
  split at h1
  · exact absurd h1 (by simp)
  · split at h1
    · exact absurd h1 (by simp)
    · rename_i a0 a1'
      have hs1 : (execAll (execAll ⟨σ, fun _ => none, a1, strict⟩ d1.m.init).1 d1.m.enter).1.store = σ1 := by
        simpa using h1
      split at h2
      · exact absurd h2 (by simp)
      · split at h2
        · exact absurd h2 (by simp)
        · rename_i b0 b1
          have hs2 : (execAll (execAll ⟨σ1, fun _ => none, a2, strict⟩ d2.m.init).1 d2.m.enter).1.store = σ2 := by
            simpa using h2
          simp only [Prog.run, a0, a1', hs1, b0, b1, hs2, ↓reduceIte, Bool.false_eq_true, List.head?_cons, Option.map_some,
            hk, hv]

/-- Instance for `min_variance` and the double field (the shape of seeded change C20-9): the outer block names
`double_value`, the inner block does not (it may name `float_value` / `half_value`): the probe shows the outer block's
double value.  All stores, all other arguments. -/
theorem min_variance_inner_inherits_outer_double (σ : Store) (a1 a2 : Frame) (h1 : (a1 fid_double_value).isSome = true)
    (h2 : a2 fid_double_value = none) :
    ((Prog.withC c_min_variance a1 (.withC c_min_variance a2 .probe)).run false σ []).trace.head?.map
      (fun s => s cid_min_variance fid__global_double_value) = some (a1 fid_double_value) := by
  have e1 := entered_min_variance_value_torch_double σ a1 h1
  cases hσ1 : enteredStore c_min_variance a1 σ with
  | none => rw [hσ1] at e1; simp at e1
  | some σ1 =>
    rw [hσ1] at e1
    have k2 := kept_min_variance_value_torch_double σ1 a2 h2
    cases hσ2 : enteredStore c_min_variance a2 σ1 with
    | none => rw [hσ2] at k2; simp at k2
    | some σ2 =>
      rw [hσ2] at k2
      simp only [Option.map_some, Option.some.injEq] at e1 k2
      exact unnamed_inherits false c_min_variance c_min_variance a1 a2 σ σ1 σ2
        (.cls cid_min_variance fid__global_double_value) _ hσ1 hσ2 e1 k2

/-- non-vacuity: the hypotheses of `unnamed_inherits` / `kept_*` are met — outer `double_value`, inner `half_value` only:
float keeps the default (atom 3), double shows the outer value, half the inner one. -/
example : ((Prog.withC c_min_variance (dblArg 8) (.withC c_min_variance (halfArg 9) .probe)).run false
    (initialStore classes) []).trace.map (fun s => (s cid_min_variance fid__global_float_value,
      s cid_min_variance fid__global_double_value, s cid_min_variance fid__global_half_value))
    = [(some 3, some 8, some 9)] := by decide +kernel
example : (dblArg 8) fid_double_value = some 8 ∧ (halfArg 9) fid_double_value = none := by decide

/-! ### B. Multi-manager `with`, `contextlib.ExitStack`, threads (`Model/SettingsExt.lean`)

The settings classes are plain classes with `__enter__`/`__exit__` (no `contextlib.ContextDecorator`): they cannot be
used as decorators; the correspondence checks that on every run (cell `decorator`). -/

/-- `XProg` is a conservative extension: a single-manager program run as an `XProg` gives exactly `Prog.run`. -/
theorem ofProg_run (strict : Bool) (p : Prog) : ∀ (σ : Store) (pd : List Entered) (tr : List Store),
    (XProg.ofProg p).run strict σ pd tr =
      ⟨(p.run strict σ tr).store, (p.run strict σ tr).raised, (p.run strict σ tr).trace, pd⟩ := by
  induction p with
  | skip => intro σ pd tr; rfl
  | probe => intro σ pd tr; rfl
  | raise => intro σ pd tr; rfl
  | seq p q ihp ihq =>
    intro σ pd tr
    simp only [XProg.ofProg, XProg.run, Prog.run, ihp]
    split
    · rfl
    · rw [ihq]
  | withC d a body ih =>
    intro σ pd tr
    simp only [XProg.ofProg, XProg.run, Prog.run, enter1_eq]
    by_cases h0 : (execAll ⟨σ, fun _ => none, a, strict⟩ d.m.init).2 = true
    · simp only [h0, ↓reduceIte]
    · by_cases h1 : (execAll (execAll ⟨σ, fun _ => none, a, strict⟩ d.m.init).1 d.m.enter).2 = true
      · simp only [h0, h1, ↓reduceIte, Bool.false_eq_true]
      · simp only [h0, h1, ↓reduceIte, Bool.false_eq_true, ih, unwind, Bool.or_false]

/-- **multi-manager `with`** — `with d₁(a₁), d₂(a₂), …: body` (operational definition: enter left to right, unwind what
was entered in reverse order, also when a later `__init__`/`__enter__` raises) behaves exactly like the nested
single-manager blocks `with d₁(a₁): with d₂(a₂): …: body` — same store, same exception status, same probes, for every
class table (no restoration hypothesis), every store and every body. -/
theorem withMany_eq_nested (strict : Bool) (items : List (ClassDesc × Frame)) (body : XProg) (σ : Store)
    (pd : List Entered) (tr : List Store) :
    (XProg.withMany items body).run strict σ pd tr = (XProg.nest items body).run strict σ pd tr := by
  have := withMany_aux strict body pd tr items σ []
  simp only [unwind, Bool.false_or] at this
  simp only [XProg.run]
  exact this

/-- **scoped, extended** — every well-formed program with multi-manager `with` statements and `ExitStack`s over restoring
classes leaves the store (and the enclosing `ExitStack`) exactly as it found it, on every exit path. -/
theorem xscoped_of_restores (strict : Bool) (p : XProg) (hw : p.wf false = true)
    (hp : ∀ d ∈ p.classes, Restores d) (σ : Store) (pd : List Entered) (tr : List Store) :
    (p.run strict σ pd tr).store = σ ∧ (p.run strict σ pd tr).pend = pd := by
  obtain ⟨n, e, g, z⟩ := run_good strict p false hw hp σ pd tr
  have hn := z rfl; subst hn
  exact ⟨g.nil_eq, e⟩

/-- … for the generated class table (minus `partialIds`). -/
theorem xscoped_generated (strict : Bool) (p : XProg) (hw : p.wf false = true)
    (hp : ∀ d ∈ p.classes, d ∈ classes ∧ d.id ∉ partialIds) (σ : Store) (pd : List Entered) (tr : List Store) :
    (p.run strict σ pd tr).store = σ :=
  (xscoped_of_restores strict p hw (fun d hd => restores_all d (hp d hd).1 (hp d hd).2) σ pd tr).1

/-- **a later manager fails to enter** — in `with d₁(a₁), d₂(a₂): body`, if `d₁` enters and the constructor or `__enter__`
of `d₂` raises, then `d₁.__exit__` has run (the store is the original one), the exception propagates and the body
never ran (no probe recorded). -/
theorem with2_later_enter_raises (strict : Bool) (d1 d2 : ClassDesc) (a1 a2 : Frame) (body : XProg)
    (σ σ1 : Store) (pd : List Entered) (tr : List Store) (h1 : Restores d1) (h2 : Restores d2)
    (he : enteredStore d1 a1 σ strict = some σ1) (hr : enteredStore d2 a2 σ1 strict = none) :
    ((XProg.withMany [(d1, a1), (d2, a2)] body).run strict σ pd tr).store = σ ∧
    ((XProg.withMany [(d1, a1), (d2, a2)] body).run strict σ pd tr).raised = true ∧
    ((XProg.withMany [(d1, a1), (d2, a2)] body).run strict σ pd tr).trace = tr := by
  rw [enteredStore_eq_enter1] at he hr
  cases e1 : enter1 strict d1 a1 σ with
  | mk s1 o1 =>
    rw [e1] at he
    cases o1 with
    | none => simp at he
    | some ρ1 =>
      simp only [Option.map_some, Option.some.injEq] at he
      subst he
      cases e2 : enter1 strict d2 a2 s1 with
      | mk s2 o2 =>
        rw [e2] at hr
        cases o2 with
        | some ρ2 => simp at hr
        | none =>
          have hs2 := enter1_none_store h2 e2
          subst hs2
          have hu := unwind_good (Good.cons h1 e1 (Good.nil σ))
          simp only [XProg.run, enterMany, e1, e2, hu, and_self]

/-- What well-formedness excludes is really not scoped: `es.enter_context(…)` inside a `with` block nested in the
`with ExitStack()` body lets the registered manager outlive that block; the store is left changed (kernel-evaluated
witness over the generated `min_variance`). -/
def escape : XProg :=
  .stack (.seq (.withC c_min_variance (halfArg 8) (.enterCtx c_min_variance (halfArg 9))) .probe)

theorem exitstack_escape_not_scoped :
    (escape.run false (initialStore classes) [] []).store cid_min_variance fid__global_half_value
      ≠ initialStore classes cid_min_variance fid__global_half_value := by decide +kernel

example : escape.wf false = false := by decide
example : ∀ d ∈ escape.classes, d ∈ classes ∧ d.id ∉ partialIds := by decide +kernel

/-! #### Threads: the store is process-global — cross-thread isolation is NOT claimed -/

/-- **documented behaviour, not a violation** — a block entered by thread `tA` is visible to a probe of any thread `tB`:
the settings are class attributes, one store for the whole process. -/
theorem thread_block_visible_in_other_thread (strict : Bool) (tA tB : Nat) (d : ClassDesc) (args : Frame)
    (σ σ' : Store) (he : enteredStore d args σ strict = some σ') :
    (runThreads strict [.enter tA d args, .probe tB] σ).trace = [σ'] := by
  rw [enteredStore_eq_enter1] at he
  cases e1 : enter1 strict d args σ with
  | mk s1 o1 =>
    rw [e1] at he
    cases o1 with
    | none => simp at he
    | some ρ1 =>
      simp only [Option.map_some, Option.some.injEq] at he
      subst he
      simp only [runThreads, List.foldl, TEv.step, e1]

/-- If the blocks of two threads happen to be globally well nested (B enters after A and leaves before A), both are
restored and A sees B's block while it is open. -/
theorem threads_lifo_scoped (strict : Bool) (tA tB : Nat) (dA dB : ClassDesc) (aA aB : Frame) (σ σ1 σ2 : Store)
    (hne : tA ≠ tB) (hA : Restores dA) (hB : Restores dB)
    (h1 : enteredStore dA aA σ strict = some σ1) (h2 : enteredStore dB aB σ1 strict = some σ2) :
    (runThreads strict [.enter tA dA aA, .enter tB dB aB, .probe tA, .exit tB, .exit tA] σ).store = σ ∧
    (runThreads strict [.enter tA dA aA, .enter tB dB aB, .probe tA, .exit tB, .exit tA] σ).trace = [σ2] := by
  rw [enteredStore_eq_enter1] at h1 h2
  cases e1 : enter1 strict dA aA σ with
  | mk s1 o1 =>
    rw [e1] at h1
    cases o1 with
    | none => simp at h1
    | some ρ1 =>
      simp only [Option.map_some, Option.some.injEq] at h1
      subst h1
      cases e2 : enter1 strict dB aB s1 with
      | mk s2 o2 =>
        rw [e2] at h2
        cases o2 with
        | none => simp at h2
        | some ρ2 =>
          simp only [Option.map_some, Option.some.injEq] at h2
          subst h2
          obtain ⟨_, hx2⟩ := exit_after_enter1 hB e2
          obtain ⟨_, hy2⟩ := exit_after_enter1 hA e1
          have hne' : ¬ tB = tA := fun h => hne h.symm
          simp [runThreads, List.foldl, TEv.step, e1, e2, hne, hne', hx2, hy2]

/-- … and when they interleave otherwise (A enters, B enters, A leaves, B leaves) the store is NOT restored: B's
`__exit__` writes back what B captured, which was A's value (kernel-evaluated witness).  This is why the property
is claimed per thread of control only. -/
theorem threads_interleaved_not_scoped :
    (runThreads false [.enter 0 c_min_variance (halfArg 8), .enter 1 c_min_variance (halfArg 9), .exit 0, .exit 1]
      (initialStore classes)).store cid_min_variance fid__global_half_value
      ≠ initialStore classes cid_min_variance fid__global_half_value := by decide +kernel

/-- The driver runs every program from `ofTable (tabOf 64 (initialStore classes)) (initialStore classes)` (a table
computed once instead of a search of the class list on every lookup): that is the same store. -/
theorem ofTable_tabOf (n : Nat) (σ : Store) : ofTable (tabOf n σ) σ = σ := by
  funext c f
  simp only [ofTable, tabOf, Array.getElem?_map, Array.getElem?_range]
  by_cases hc : c < n
  · by_cases hf : f < n
    · simp [hc, hf]
    · simp [hc, hf]
  · simp [hc]

/-! #### Non-vacuity of the extended theorems -/

/-- `with fast_pred_var(..), min_variance(half): probe; with ExitStack() as es: es.enter_context(min_variance(double));
probe; es.enter_context(debug(False)); probe; raise` -/
def xdemo : XProg :=
  .withMany [(c_fast_pred_var, fun p => if p = fid_state then some 7 else if p = fid_num_probe_vectors then some 5 else none),
             (c_min_variance, halfArg 8)]
    (.seq .probe (.stack (.seq (.enterCtx c_min_variance (dblArg 9)) (.seq .probe
      (.seq (.enterCtx c_debug (fun p => if p = fid_state then some 6 else none)) (.seq .probe .raise))))))

example : xdemo.wf false = true := by decide
example : ∀ d ∈ xdemo.classes, d ∈ classes ∧ d.id ∉ partialIds := by decide +kernel
example : (xdemo.run false (initialStore classes) [] []).raised = true := by decide +kernel
example : ((xdemo.run false (initialStore classes) [] []).trace.map fun s =>
    (s cid_min_variance fid__global_double_value, s cid_min_variance fid__global_half_value, s cid_debug fid__state))
    = [(some 9, some 8, some 6), (some 9, some 8, none), (some 16, some 8, none)] := by decide +kernel
example : (enteredStore c_min_variance (halfArg 8) (initialStore classes) false).isSome = true ∧
    (enteredStore c_debug (fun p => if p = fid_state then some 6 else none)
      ((enteredStore c_min_variance (halfArg 8) (initialStore classes) false).getD (initialStore classes)) false).isSome = true ∧
    (0 : Nat) ≠ 1 := by decide +kernel
/-- `with2_later_enter_raises`: `with min_variance(half=…), checkpoint_kernel(5):` under `-W error` — the second
`__enter__` raises (DeprecationWarning escalated), and so does `observation_nan_policy("bogus")` in its constructor. -/
example : (enteredStore c_min_variance (halfArg 8) (initialStore classes) true).isSome = true ∧
    enteredStore c_checkpoint_kernel (fun p => if p = fid_value then some 5 else none)
      (((enteredStore c_min_variance (halfArg 8) (initialStore classes) true).getD (initialStore classes))) true = none ∧
    enteredStore c_observation_nan_policy (fun p => if p = fid_value then some 5 else none)
      (initialStore classes) false = none := by decide +kernel

end C20

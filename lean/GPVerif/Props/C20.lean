/-
C20 — global settings are scoped: restored on exit (normal or exceptional), innermost block wins,
documented defaults outside all blocks.

The class table (`Gen.Settings.classes`) and the per-class theorems `Gen.Settings.restores_*`,
`Gen.Settings.entered_*` are regenerated from the source on every run (translator G1); the theorems here
lift them to all well-nested programs.
-/
import GPVerif.Gen.SettingsThms

namespace C20
open Settings Gen.Settings

/-- A program over restoring classes leaves the store exactly as it found it — on every exit path
(`raised` or not), for every store, every argument, every nesting depth, with or without warnings
escalated to exceptions. -/
theorem scoped_of_restores (strict : Bool) (p : Prog) (hp : ∀ d ∈ p.classes, Restores d) :
    ∀ (σ : Store) (tr : List Store), (p.run strict σ tr).store = σ := by
  induction p with
  | skip => intro σ tr; rfl
  | probe => intro σ tr; rfl
  | raise => intro σ tr; rfl
  | seq p q ihp ihq =>
    intro σ tr
    have hp' : ∀ d ∈ p.classes, Restores d := fun d hd => hp d (by simp [Prog.classes, hd])
    have hq' : ∀ d ∈ q.classes, Restores d := fun d hd => hp d (by simp [Prog.classes, hd])
    simp only [Prog.run]
    split
    · exact ihp hp' σ tr
    · rw [ihq hq', ihp hp']
  | withC d args body ih =>
    intro σ tr
    have hd : Restores d := hp d (by simp [Prog.classes])
    have hb : ∀ d' ∈ body.classes, Restores d' := fun d' h => hp d' (by simp [Prog.classes, h])
    obtain ⟨h0, h1⟩ := hd σ args strict
    simp only [Prog.run]
    split
    · exact h0
    · rename_i hr0
      obtain ⟨he, hx⟩ := h1 (by simpa using hr0)
      split
      · rename_i hr1
        exact he hr1
      · rename_i hr1
        obtain ⟨_, hs⟩ := hx (by simpa using hr1)
        rw [ih hb]
        exact hs

/-- **scoped** (the property's first clause) — for every well-nested program over the generated class table
(minus the classes listed in `partialIds`, which live outside /repo), every initial store and every exit path. -/
theorem scoped_generated (strict : Bool) (p : Prog) (hp : ∀ d ∈ p.classes, d ∈ classes ∧ d.id ∉ partialIds)
    (σ : Store) (tr : List Store) : (p.run strict σ tr).store = σ :=
  scoped_of_restores strict p (fun d hd => restores_all d (hp d hd).1 (hp d hd).2) σ tr

/-- An exception raised in the body still propagates (no generated `__exit__` swallows it). -/
theorem raise_propagates (strict : Bool) (d : ClassDesc) (args : Frame) (σ : Store) (tr : List Store) (q : Prog)
    (hq : (q.run strict ((execAll (execAll ⟨σ, fun _ => none, args, strict⟩ d.m.init).1 d.m.enter).1.store) tr).raised
      = true) :
    ((Prog.withC d args q).run strict σ tr).raised = true := by
  simp only [Prog.run]
  split
  · rfl
  · split
    · rfl
    · simp [hq]

/-- **innermost wins** — inside `with d(args): q; probe`, whatever well-nested program `q` ran before
(without raising), the probe sees exactly the store `__enter__` produced; together with the generated
`entered_*` theorems (observer = argument) this is "the innermost active block determines the value". -/
theorem innermost_visible (strict : Bool) (d : ClassDesc) (args : Frame) (q : Prog) (σ σ' : Store)
    (hq : ∀ d' ∈ q.classes, Restores d') (he : enteredStore d args σ strict = some σ')
    (hn : (q.run strict σ' []).raised = false) :
    ((Prog.withC d args (.seq q .probe)).run strict σ []).trace.head? = some σ' := by
  simp only [enteredStore] at he
  simp only [Prog.run]
  split at he
  · exact absurd he (by simp)
  · split at he
    · exact absurd he (by simp)
    · rename_i h0 h1
      have hs : (execAll (execAll ⟨σ, fun _ => none, args, strict⟩ d.m.init).1 d.m.enter).1.store = σ' := by
        simpa using he
      simp only [h0, h1, ↓reduceIte, hs, hn, Bool.false_eq_true]
      simp [scoped_of_restores strict q hq σ' []]

/-- Outside all blocks every setting reports its documented default: the defaults parsed from the class
docstrings equal the initial values of the class fields (finite table, kernel-evaluated). -/
theorem defaults_documented :
    ∀ e ∈ docDefaults, initialStore classes e.1 e.2.1 = e.2.2 := by decide +kernel

/-- Constructor defaults are the documented ones: for every entry of the (hand-written) documented table the
generated class declares that parameter with exactly that default, so `with C():` means the documented value
inside the block whatever the enclosing blocks set (per-dtype settings excepted: there `None` = keep). -/
theorem ctor_defaults_documented :
    ∀ e ∈ documentedCtorDefaults, ∃ d ∈ classes, d.id = e.1 ∧ (e.2.1, some e.2.2) ∈ d.params := by
  decide +kernel

/-- linear_operator's `cholesky_jitter` (outside /repo): restoration holds only when none of its three
fields is `None` before the block.  Full statement `Restores c_cholesky_jitter` is FALSE
(`cholesky_jitter_not_restores`). -/
theorem cholesky_jitter_restores_partial (σ : Store) (args : Frame)
    (h4 : (σ cid_cholesky_jitter fid__global_float_value).isSome)
    (h5 : (σ cid_cholesky_jitter fid__global_double_value).isSome)
    (h6 : (σ cid_cholesky_jitter fid__global_half_value).isSome) :
    (Prog.run false (.withC c_cholesky_jitter args .skip) σ []).store = σ := by
  simp only [Prog.run, c_cholesky_jitter, execAll, Stmt.exec, Expr.eval, Cond.eval, setF_apply, Nat.reduceEqDiff, ↓reduceIte,
    if_true, if_false, ite_fst, ite_snd, ite_env_store, ite_env_self, ite_env_args, ite_env_strict, ite_self, ite_fun_apply,
    Bool.false_eq_true]
  apply store_ext; intro c f
  simp only [setS_apply, ite_fun_apply]
  dsimp only [cid_cholesky_jitter, fid__global_float_value, fid__global_double_value, fid__global_half_value] at h4 h5 h6
  grind

/-- Concrete witness (the known finding): from the initial store, `with cholesky_jitter(half_value=a): pass`
leaves the half field set although it was `None` before. -/
theorem cholesky_jitter_not_restores :
    (Prog.run false (.withC c_cholesky_jitter (fun p => if p = fid_half_value then some 2 else none) .skip)
      (initialStore classes) []).store cid_cholesky_jitter fid__global_half_value
      ≠ initialStore classes cid_cholesky_jitter fid__global_half_value := by decide +kernel

/-! ### Non-vacuity: the hypotheses are met by concrete non-trivial programs -/

/-- nested blocks of two classes with a raise in the inner body -/
def demo : Prog :=
  .withC c_fast_pred_var (fun p => if p = fid_state then some 7 else if p = fid_num_probe_vectors then some 5 else none)
    (.seq .probe (.withC c_min_variance (fun p => if p = fid_half_value then some 8 else none) (.seq .probe .raise)))

example : ∀ d ∈ demo.classes, d ∈ classes ∧ d.id ∉ partialIds := by decide +kernel
example : (demo.run true (initialStore classes) []).raised = true := by decide +kernel
example : ((demo.run true (initialStore classes) []).trace.map fun s => s cid_min_variance fid__global_half_value)
    = [some 8, some 17] := by decide +kernel

end C20

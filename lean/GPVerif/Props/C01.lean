/-
C01 — the exact GP posterior returned on every computational path is the closed-form Gaussian conditional
`μ* = m* + K*x (Kxx+S)⁻¹ (y − mx)`, `Σ* = K** − K*x (Kxx+S)⁻¹ Kx*`, and the likelihood adds the noise once.

All statements are about the executable definitions of `GPVerif/Model/ExactGP.lean` (the ones
`drivers/C01.lean` runs at `ℚ`), read through `DMat.toMatrix`, over an arbitrary field and for all sizes.
The contracts of the linear_operator primitives (`solve` returns `A⁻¹b`, `L Lᵀ = A`, `R Rᵀ = A⁻¹`) are
hypotheses.
-/
import GPVerif.Model.ExactGP
import GPVerif.Bridge.GenAlgebra
import GPVerif.Gen.ExactCall
import GPVerif.Bridge.ExactCall
import Mathlib.LinearAlgebra.Matrix.SchurComplement
import Mathlib.Data.Matrix.ColumnRowPartitioned
import Mathlib.Tactic.Abel
import Mathlib.Tactic.NoncommRing

open Matrix

namespace C01
open ExactGP

variable {n s k p : Nat} {α : Type} [Field α]

/-! ### The split of the joint prior at `num_train` -/

omit [Field α] in
/-- Eager (rows, then columns) and lazy (block) slicing of the joint covariance give the same blocks. -/
theorem split_eager_eq_split_lazy (J : DMat (n + s) (n + s) α) : splitEager J = splitLazy J := by
  simp only [splitEager, splitLazy, Prod.mk.injEq]
  constructor <;> apply DMat.toMatrix_injective <;> ext i j <;> simp

omit [Field α] in
/-- The split returns exactly the blocks of the joint covariance `[[Kxx, Kxt],[Ktx, Ktt]]` and of the joint
mean `[mx; mt]` on `[train; test]` (`finSumFinEquiv` is the concatenation order). -/
theorem split_fromBlocks (Kxx : Matrix (Fin n) (Fin n) α) (Kxt : Matrix (Fin n) (Fin s) α)
    (Ktx : Matrix (Fin s) (Fin n) α) (Ktt : Matrix (Fin s) (Fin s) α)
    (mx : Matrix (Fin n) (Fin 1) α) (mt : Matrix (Fin s) (Fin 1) α)
    (J : DMat (n + s) (n + s) α) (mj : DMat (n + s) 1 α)
    (hJ : J.toMatrix = (fromBlocks Kxx Kxt Ktx Ktt).submatrix finSumFinEquiv.symm finSumFinEquiv.symm)
    (hm : mj.toMatrix = (fromRows mx mt).submatrix finSumFinEquiv.symm id) :
    (trainBlock J).toMatrix = Kxx ∧ (splitLazy J).1.toMatrix = Ktx ∧ (splitLazy J).2.toMatrix = Ktt ∧
      (splitMean mj).1.toMatrix = mx ∧ (splitMean mj).2.toMatrix = mt := by
  refine ⟨?_, ?_, ?_, ?_, ?_⟩ <;> ext i j <;>
    simp [trainBlock, splitLazy, splitMean, hJ, hm, Matrix.submatrix_apply, finSumFinEquiv_symm_apply_castAdd,
      finSumFinEquiv_symm_apply_natAdd]

/-! ### Mean -/

/-- The prediction from the mean cache is the conditional mean. -/
theorem predMean_eq_conditional [DecidableEq α] (A : DMat n n α) (r : DMat n 1 α) (a : DMat n 1 α)
    (mt : DMat s 1 α) (Kts : DMat s n α) (h : meanCache A r = some a) :
    (predMean mt Kts a).toMatrix = mt.toMatrix + Kts.toMatrix * A.toMatrix⁻¹ * r.toMatrix := by
  simp only [meanCache, Option.map_eq_some_iff] at h
  obtain ⟨X, hX, rfl⟩ := h
  simp [predMean, meanCacheOf, DMat.inv?_correct hX, Matrix.mul_assoc]

/-- Contract form (any solver): if `a` solves `A a = r` and `A` is invertible, the prediction is the
conditional mean — this is the gpytorch-side algebra given the primitive's output. -/
theorem predMean_of_solve_contract (A : Matrix (Fin n) (Fin n) α) (hA : IsUnit A.det) (r : DMat n 1 α)
    (a : DMat n 1 α) (mt : DMat s 1 α) (Kts : DMat s n α) (h : A * a.toMatrix = r.toMatrix) :
    (predMean mt Kts a).toMatrix = mt.toMatrix + Kts.toMatrix * A⁻¹ * r.toMatrix := by
  have : a.toMatrix = A⁻¹ * r.toMatrix := by rw [← h, Matrix.nonsing_inv_mul_cancel_left _ _ hA]
  simp [predMean, this, Matrix.mul_assoc]

/-- Two triangular solves with a Cholesky factor are a solve with `A`. -/
theorem chol_solve_eq (A L : Matrix (Fin n) (Fin n) α) (r : Matrix (Fin n) (Fin p) α)
    (h : L * Lᵀ = A) : (Lᵀ)⁻¹ * (L⁻¹ * r) = A⁻¹ * r := by
  rw [← h, Matrix.mul_inv_rev, Matrix.mul_assoc]

/-- …and for the executable `cholSolve` (certified triangular inverses). -/
theorem cholSolve_eq [DecidableEq α] (A L : DMat n n α) (r x : DMat n p α)
    (h : L.toMatrix * L.toMatrixᵀ = A.toMatrix) (hx : cholSolve L r = some x) :
    x.toMatrix = A.toMatrix⁻¹ * r.toMatrix := by
  unfold cholSolve at hx
  split at hx
  · rename_i Li Lti h1 h2
    have hx' : x = Lti.mul (Li.mul r) := by simpa using hx.symm
    rw [hx']
    simp only [DMat.toMatrix_mul, DMat.inv?_correct h1, DMat.inv?_correct h2, DMat.toMatrix_transpose]
    exact chol_solve_eq _ _ _ h
  · exact absurd hx (by simp)

/-! ### Covariance, non-fast path -/

/-- `fast_pred_var` off: the model's value is the conditional covariance. -/
theorem predCovarSolve_eq_conditional [DecidableEq α] (Ktt : DMat s s α) (Kts : DMat s n α) (A : DMat n n α)
    (C : DMat s s α) (h : predCovarSolve Ktt Kts A = some C) :
    C.toMatrix = Ktt.toMatrix - Kts.toMatrix * A.toMatrix⁻¹ * Kts.toMatrixᵀ := by
  simp only [predCovarSolve, solve?, Option.map_eq_some_iff] at h
  obtain ⟨_, ⟨X, hX, rfl⟩, rfl⟩ := h
  simp [predCovarOfSolve, DMat.inv?_correct hX, Matrix.mul_assoc]

/-- Contract form: for any `X` with `A X = Kxt` (what `train_train_covar.solve` promises), both code shapes
(`addmm(…, alpha=-1)` and `+ … @ rhs.mul(-1)`) give the conditional covariance. -/
theorem predCovar_of_solve_contract (A : Matrix (Fin n) (Fin n) α) (hA : IsUnit A.det) (Ktt : DMat s s α)
    (Kts : DMat s n α) (X : DMat n s α) (h : A * X.toMatrix = Kts.toMatrixᵀ) :
    (predCovarOfSolve Ktt Kts X).toMatrix = Ktt.toMatrix - Kts.toMatrix * A⁻¹ * Kts.toMatrixᵀ ∧
      (predCovarOfSolveNeg Ktt Kts X).toMatrix = Ktt.toMatrix - Kts.toMatrix * A⁻¹ * Kts.toMatrixᵀ := by
  have hX : X.toMatrix = A⁻¹ * Kts.toMatrixᵀ := by rw [← h, Matrix.nonsing_inv_mul_cancel_left _ _ hA]
  constructor
  · simp [predCovarOfSolve, hX, Matrix.mul_assoc]
  · simp [predCovarOfSolveNeg, hX, Matrix.mul_assoc, sub_eq_add_neg]

/-! ### Covariance, fast path (`fast_pred_var`, cached root of the inverse) -/

/-- If the cached `R` is a root of the inverse (`R Rᵀ = A⁻¹`, any number of columns) the fast path returns
the conditional covariance. -/
theorem predCovarRoot_eq_conditional (Ktt : DMat s s α) (Kts : DMat s n α) (A : Matrix (Fin n) (Fin n) α)
    (R : DMat n k α) (hR : R.toMatrix * R.toMatrixᵀ = A⁻¹) :
    (predCovarRoot Ktt Kts R).toMatrix = Ktt.toMatrix - Kts.toMatrix * A⁻¹ * Kts.toMatrixᵀ := by
  simp only [predCovarRoot, DMat.toMatrix_sub, DMat.toMatrix_mul, DMat.toMatrix_transpose,
    Matrix.transpose_mul]
  rw [← hR]
  simp only [Matrix.mul_assoc]

/-- The fast path depends on `R` only through `R Rᵀ` (exact form used for the assume/guarantee comparison:
the driver recomputes the fast-path value from the *observed* cache). -/
theorem predCovarRoot_eq_of_gram (Ktt : DMat s s α) (Kts : DMat s n α) (R : DMat n k α) :
    (predCovarRoot Ktt Kts R).toMatrix = Ktt.toMatrix - Kts.toMatrix * (rootGram R).toMatrix * Kts.toMatrixᵀ := by
  simp [predCovarRoot, rootGram, Matrix.transpose_mul, Matrix.mul_assoc]

/-- `skip_posterior_variances` returns the zero matrix (documented: variances are not computed). -/
theorem predCovarSkip_eq_zero : (predCovarSkip : DMat s s α).toMatrix = 0 := by
  simp [predCovarSkip]

/-! ### Why this formula is *the* Gaussian conditional -/

/-- For the joint covariance `J = [[A, B],[Bᵀ, D]]` (`A` symmetric and invertible, Schur complement
`S = D − BᵀA⁻¹B` invertible): the quadratic form of `J⁻¹` at `(u, v)` splits into the quadratic form of
`A⁻¹` at `u` plus the quadratic form of `S⁻¹` at `v − BᵀA⁻¹u`, and `det J = det A · det S`.  Hence the joint
Gaussian density factorises as `N(u; 0, A) · N(v; BᵀA⁻¹u, S)`: mean map `BᵀA⁻¹` and covariance `S` — exactly
`predMean` / `predCovarSolve` — are the parameters of the conditional law. -/
theorem conditional_is_gaussian_conditional {m l : Type} [Fintype m] [Fintype l] [DecidableEq m] [DecidableEq l]
    (A : Matrix m m α) (B : Matrix m l α) (D : Matrix l l α) (hAs : Aᵀ = A)
    (hA : IsUnit A.det) (hS : IsUnit (D - Bᵀ * A⁻¹ * B).det)
    (u : Matrix m (Fin 1) α) (v : Matrix l (Fin 1) α) :
    (fromRows u v)ᵀ * (fromBlocks A B Bᵀ D)⁻¹ * fromRows u v
        = uᵀ * A⁻¹ * u + (v - Bᵀ * A⁻¹ * u)ᵀ * (D - Bᵀ * A⁻¹ * B)⁻¹ * (v - Bᵀ * A⁻¹ * u)
      ∧ (fromBlocks A B Bᵀ D).det = A.det * (D - Bᵀ * A⁻¹ * B).det := by
  let iA : Invertible A := Matrix.invertibleOfIsUnitDet A hA
  have e1 : ⅟A = A⁻¹ := Matrix.invOf_eq_nonsing_inv A
  have hS' : IsUnit (D - Bᵀ * ⅟A * B).det := by rw [e1]; exact hS
  let iS : Invertible (D - Bᵀ * ⅟A * B) := Matrix.invertibleOfIsUnitDet _ hS'
  let iJ : Invertible (fromBlocks A B Bᵀ D) := Matrix.fromBlocks₁₁Invertible A B Bᵀ D
  have e2 : ⅟(D - Bᵀ * ⅟A * B) = (D - Bᵀ * A⁻¹ * B)⁻¹ := by
    rw [Matrix.invOf_eq_nonsing_inv, e1]
  have hAi : (A⁻¹)ᵀ = A⁻¹ := by rw [Matrix.transpose_nonsing_inv, hAs]
  constructor
  · rw [← Matrix.invOf_eq_nonsing_inv (fromBlocks A B Bᵀ D), Matrix.invOf_fromBlocks₁₁_eq, e2, e1]
    set P := A⁻¹ with hP
    set Q := (D - Bᵀ * P * B)⁻¹ with hQ
    rw [Matrix.mul_assoc, Matrix.fromBlocks_mul_fromRows, Matrix.transpose_fromRows,
      Matrix.fromCols_mul_fromRows]
    simp only [Matrix.transpose_sub, Matrix.transpose_mul, Matrix.transpose_transpose, hAi]
    simp only [Matrix.mul_add, Matrix.add_mul, Matrix.mul_sub, Matrix.sub_mul, Matrix.mul_neg, Matrix.neg_mul,
      Matrix.mul_assoc]
    abel
  · rw [Matrix.det_fromBlocks₁₁, e1]

/-! ### Likelihood -/

/-- Passing a covariance through the likelihood adds the noise operator exactly once; for the posterior this is
the conditional covariance of `y* = f* + ε` (the closed form with `K**` replaced by `K** + S*`). -/
theorem marginal_adds_noise_once [DecidableEq α] (Ktt St : DMat s s α) (Kts : DMat s n α) (A : DMat n n α)
    (C : DMat s s α) (h : predCovarSolve Ktt Kts A = some C) :
    (marginal C St).toMatrix = C.toMatrix + St.toMatrix ∧
      predCovarSolve (marginal Ktt St) Kts A = some (marginal C St) := by
  refine ⟨by simp [marginal], ?_⟩
  simp only [predCovarSolve, solve?, Option.map_eq_some_iff] at h ⊢
  obtain ⟨_, ⟨X, hX, rfl⟩, rfl⟩ := h
  refine ⟨_, ⟨X, hX, rfl⟩, ?_⟩
  apply DMat.toMatrix_injective
  simp only [predCovarOfSolve, marginal, DMat.toMatrix_sub, DMat.toMatrix_add, DMat.toMatrix_mul]
  abel

/-! ### The driver -/

/-- What `drivers/C01.lean` returns (through the certified `inv?`) is the closed form, with `A = Kxx + S` read
off the joint prior exactly as `ExactGP.__call__` does. -/
theorem driver_conditional_correct [DecidableEq α] (J : DMat (n + s) (n + s) α) (mj : DMat (n + s) 1 α)
    (S : DMat n n α) (y : DMat n 1 α) (St : DMat s s α) (P : Posterior n s α)
    (h : posterior J mj S y St = some P) :
    let A := (trainBlock J).toMatrix + S.toMatrix
    let Kts := (splitLazy J).1.toMatrix
    let Ktt := (splitLazy J).2.toMatrix
    IsUnit A.det ∧ P.A.toMatrix = A ∧ P.Ainv.toMatrix = A⁻¹ ∧
      P.alpha.toMatrix = A⁻¹ * (y.toMatrix - (splitMean mj).1.toMatrix) ∧
      P.mean.toMatrix = (splitMean mj).2.toMatrix + Kts * A⁻¹ * (y.toMatrix - (splitMean mj).1.toMatrix) ∧
      P.covar.toMatrix = Ktt - Kts * A⁻¹ * Ktsᵀ ∧
      P.covarNoisy.toMatrix = Ktt - Kts * A⁻¹ * Ktsᵀ + St.toMatrix := by
  simp only [posterior] at h
  split at h
  · exact absurd h (by simp)
  · rename_i X hX
    have hP := (Option.some.inj h).symm
    have hi := DMat.inv?_correct hX
    have hu := DMat.inv?_isUnit hX
    simp only [marginal, DMat.toMatrix_add] at hi hu
    subst hP
    refine ⟨hu, ?_⟩
    simp [marginal, predMean, meanCacheOf, predCovarOfInv, predCovarOfSolve, residual, hi, Matrix.mul_assoc]

/-! ### The regenerated code (`GPVerif/Gen/ExactAlgebra.lean`, translator G7) is the closed form

These are about the expressions that `harness/translate/g7_exact_algebra.py` extracts from the Python AST of
`DefaultPredictionStrategy` on every run (and that `drivers/C01.lean` executes).  They are short corollaries of
the theorems above; when the source changes (a dropped `mul(-1)`, a missing transpose, swapped `alpha`/`beta`, a
wrong slice bound) the regenerated definitions change and these proofs no longer build. -/

section generated
open Gen.ExactAlgebra
variable [DecidableEq α]

omit [DecidableEq α] in
/-- The generated split of the joint at `num_train` — eager *and* lazy slicing — is the block split of the model:
`(test_mean, test_train, test_test, test_train)`. -/
theorem gen_split_eq (cfg : Cfg) (J : DMat (n + s) (n + s) α) (mj : DMat (n + s) 1 α) :
    split cfg J mj = ((splitMean mj).2, (splitLazy J).1, (splitLazy J).2, (splitLazy J).1) := by
  unfold split
  split_ifs <;>
    simp only [slice_mean_test, slice_test_train, slice_test_test, slice_rows_then_train, slice_rows_then_test]

/-- Generated `exact_predictive_mean` (policy `ignore`) = conditional mean. -/
theorem gen_predMean_eq_conditional (cfg : Cfg) (hp : cfg.policy = Policy.ignore) (mt : DMat s 1 α)
    (Kts : DMat s n α) (A : DMat n n α) (mx y : DMat n 1 α) (obs : Fin n → Bool) (c : α) (m : DMat s 1 α)
    (h : exact_predictive_mean cfg mt Kts A mx y obs c = some m) :
    m.toMatrix = mt.toMatrix + Kts.toMatrix * A.toMatrix⁻¹ * (y.toMatrix - mx.toMatrix) := by
  simp only [exact_predictive_mean, hp, if_true, Option.bind_eq_bind, Option.bind_eq_some_iff,
    Option.pure_def] at h
  obtain ⟨x, hx, hm⟩ := h
  obtain ⟨hx, -⟩ := solve?_eq_some hx
  rw [← Option.some.inj hm]
  simp [hx, Matrix.mul_assoc, add_comm]

/-- Generated `exact_predictive_covar`, `fast_pred_var` off, in all three code shapes (`addmm(beta=1, alpha=-1)`,
`+ … @ rhs.mul(-1)`, `+ MatmulLinearOperator(…, rhs.mul(-1))`) = conditional covariance. -/
theorem gen_predCovar_eq_conditional (cfg : Cfg) (hp : cfg.policy = Policy.ignore) (hs : cfg.skip = false)
    (hf : cfg.fast = false) (Ktt : DMat s s α) (Kts : DMat s n α) (A : DMat n n α) (R : DMat n k α)
    (obs : Fin n → Bool) (C : DMat s s α) (h : exact_predictive_covar cfg Ktt Kts A R obs = some C) :
    C.toMatrix = Ktt.toMatrix - Kts.toMatrix * A.toMatrix⁻¹ * Kts.toMatrixᵀ := by
  simp only [exact_predictive_covar, hp, hs, hf, if_true, Bool.false_eq_true, if_false] at h
  split_ifs at h <;>
  · simp only [Option.bind_eq_bind, Option.bind_eq_some_iff, Option.pure_def] at h
    obtain ⟨x, hx, hC⟩ := h
    obtain ⟨hx, -⟩ := solve?_eq_some hx
    rw [← Option.some.inj hC]
    simp [hx, Matrix.mul_assoc, sub_eq_add_neg]

/-- Generated `exact_predictive_covar`, `fast_pred_var` on, both code shapes: if the cached `R` is a root of the
inverse it is the conditional covariance. -/
theorem gen_predCovarRoot_eq_conditional (cfg : Cfg) (hp : cfg.policy = Policy.ignore) (hs : cfg.skip = false)
    (hf : cfg.fast = true) (Ktt : DMat s s α) (Kts : DMat s n α) (A : DMat n n α) (R : DMat n k α)
    (obs : Fin n → Bool) (hR : R.toMatrix * R.toMatrixᵀ = A.toMatrix⁻¹) (C : DMat s s α)
    (h : exact_predictive_covar cfg Ktt Kts A R obs = some C) :
    C.toMatrix = Ktt.toMatrix - Kts.toMatrix * A.toMatrix⁻¹ * Kts.toMatrixᵀ := by
  simp only [exact_predictive_covar, hp, hs, hf, if_true, Bool.false_eq_true, if_false] at h
  split_ifs at h <;>
  · simp only [Option.pure_def, Option.some.injEq] at h
    rw [← h, ← hR]
    simp [Matrix.transpose_mul, Matrix.mul_assoc, sub_eq_add_neg]

/-- Generated `exact_predictive_covar` under `skip_posterior_variances`: the zero operator, on every branch. -/
theorem gen_predCovar_skip (cfg : Cfg) (hs : cfg.skip = true) (Ktt : DMat s s α) (Kts : DMat s n α)
    (A : DMat n n α) (R : DMat n k α) (obs : Fin n → Bool) :
    exact_predictive_covar cfg Ktt Kts A R obs = some GenOps.zeros := by
  simp only [exact_predictive_covar, hs, if_true]
  split_ifs <;> rfl

/-- The generated `exact_prediction` (what the driver runs) is the generated split followed by the generated mean
and covariance functions, with `torch.is_tensor(test_test_covar)` decided by the eager flag. -/
theorem gen_exact_prediction_eq (cfg : Cfg) (J : DMat (n + s) (n + s) α) (mj : DMat (n + s) 1 α) (A : DMat n n α)
    (mx y : DMat n 1 α) (R : DMat n k α) (obs : Fin n → Bool) (c : α) :
    exact_prediction cfg J mj A mx y R obs c =
      (exact_predictive_mean cfg (split cfg J mj).1 (split cfg J mj).2.1 A mx y obs c).bind fun m =>
        (exact_predictive_covar { cfg with ttIsTensor := cfg.eager } (split cfg J mj).2.2.1 (split cfg J mj).2.2.2
          A R obs).bind fun C => some (m, C) := by
  unfold exact_prediction exact_predictive_mean exact_predictive_covar split
  split_ifs <;> simp_all [Option.bind_eq_bind, Option.pure_def, Option.bind_assoc]

/-- Structural facts of `ExactGP.__call__` read off its AST: the joint is `torch.cat([train_input, input], dim=-2)`,
`exact_prediction(full_mean, full_covar)` is called once, inside `cg_tolerance(eval_cg_tolerance.value())`; and the
translated source is shape-consistent (no re-sizing had to be inserted). -/
theorem gen_call_facts : catTrainFirst = true ∧ catDimPoints = true ∧ evalTolInForce = true ∧
    predictsFromJoint = true ∧ shapeMismatches = 0 := by decide

end generated

/-! ### The regenerated call structure (`GPVerif/Gen/ExactCall.lean`, translator `g7_exact_call.py`)

What `ExactGP.__call__` and `DefaultPredictionStrategy` do around the algebra above: which branch runs, how the joint
inputs `[train; test]` are built under batch broadcasting, how a multitask event is flattened / reshaped, what is
detached under `detach_test_caches`.  The statements are about the definitions the translator extracts from the Python
AST on every run (and `drivers/C01.lean` executes); the specifications are in `GPVerif/Model/ExactCall.lean`. -/

section callgen
open Bcast Bcast.T ExactCall Gen.ExactCall

/-- The generated decision tree of `ExactGP.__call__` is the documented behaviour, for all 128 flag combinations. -/
theorem gen_call_modes_eq_model (c : CallCfg) : callMode c = callSpec c := by
  rcases c with ⟨a, b, c, d, e, f, g⟩
  cases a <;> cases b <;> cases c <;> cases d <;> cases e <;> cases f <;> cases g <;> rfl

/-- The posterior branch — the one the closed form of this file is about — runs exactly in evaluation mode with
training inputs and targets present and `prior_mode` off (and, under `settings.debug`, a `MultivariateNormal` prior). -/
theorem gen_posterior_branch_iff (c : CallCfg) :
    (∃ w, callMode c = Outcome.posterior w) ↔
      (c.training = false ∧ c.priorMode = false ∧ c.hasInputs = true ∧ c.hasTargets = true ∧
        (c.debug = true → c.outputIsMVN = true)) := by
  rcases c with ⟨a, b, c, d, e, f, g⟩
  cases a <;> cases b <;> cases c <;> cases d <;> cases e <;> cases f <;> cases g <;> simp [callMode]

/-- Training mode returns the prior at the call inputs; under `settings.debug` only when they are the training inputs. -/
theorem gen_training_branch (c : CallCfg) (h : c.training = true) (hi : c.hasInputs = true)
    (hd : c.debug = true → c.inputsEqual = true) : callMode c = Outcome.priorAtInputs := by
  rcases c with ⟨a, b, c, d, e, f, g⟩
  cases a <;> cases b <;> cases c <;> cases d <;> cases e <;> cases f <;> cases g <;> simp_all [callMode]

/-- Evaluation mode under `prior_mode`, or without training inputs / targets, returns the prior at the arguments. -/
theorem gen_prior_branch (c : CallCfg) (h : c.training = false)
    (hp : c.priorMode = true ∨ c.hasInputs = false ∨ c.hasTargets = false)
    (hd : c.debug = true → c.outputIsMVN = true) : callMode c = Outcome.priorAtArgs := by
  rcases c with ⟨a, b, c, d, e, f, g⟩
  cases a <;> cases b <;> cases c <;> cases d <;> cases e <;> cases f <;> cases g <;> simp_all [callMode]

/-- The generated loop that builds `full_inputs` is the joint input `[train; test]` of the specification: it is defined
iff the two batch shapes broadcast, has the broadcast batch shape, and batch element `b` holds the train rows of the
train batch element that `b` broadcasts to, followed by the test rows (all batch ranks, all sizes). -/
theorem gen_concat_eq_model {α : Type} (tr te : T α) (n s : Nat) (bt bi : RShape)
    (htr : tr.shape = n :: bt) (hte : te.shape = s :: bi) :
    match catInputs tr te, concatSpec tr te with
    | some g, some m => TEq g m
    | none, none => True
    | _, _ => False := by
  by_cases h : bt = bi
  · subst h
    have hg : catInputs tr te = some (catRows tr te) := by
      simp [catInputs, htr, hte]
    rw [hg]
    simp only [concatSpec, htr, hte, List.tail_cons, bcastR_self, Option.map_some]
    refine ⟨by simp [catRows, htr, hte], ?_⟩
    intro idx hidx
    match idx, hidx with
    | i :: b, hidx =>
      obtain ⟨_, hb⟩ := hidx
      simp [catRows, htr, hte, bidxR_of_inRange hb]
  · cases hB : bcastR bt bi with
    | none =>
      have hg : catInputs tr te = none := by
        simp [catInputs, htr, hte, h, hB]
      simp [hg, concatSpec, htr, hte, hB]
    | some B =>
      have hg : catInputs tr te = some (catRows (tr.expand (n :: B)) (te.expand (s :: B))) := by
        simp [catInputs, htr, hte, h, hB, T.expand]
      rw [hg]
      simp only [concatSpec, htr, hte, List.tail_cons, hB, Option.map_some]
      refine ⟨by simp [catRows, T.expand], ?_⟩
      intro idx hidx
      match idx, hidx with
      | i :: b, hidx =>
        obtain ⟨hi, hb⟩ := hidx
        simp only [List.headD_cons] at hi
        by_cases hin : i < n
        · have : (if n = 1 then 0 else i) = i := by split <;> omega
          simp [catRows, T.expand, htr, hte, bidxR, hin, this]
        · have : (if s = 1 then 0 else i - n) = i - n := by split <;> omega
          simp [catRows, T.expand, htr, hte, bidxR, hin, this]

/-- Multitask models (`t` tasks, `n` train and `s` test points): the generated `num_train` is `n·t`; `test_shape` is
`(s, t)`; slicing the interleaved joint mean at `num_train` and viewing it as `test_shape` puts at `(p, τ)` the joint
entry of (test point `p`, task `τ`), i.e. flat index `(n + p)·t + τ`; a flat index lies below `num_train` iff it belongs
to a TRAIN point; and the flattened train labels are in the same interleaved layout (`y[i, τ]` at `i·t + τ`), so the
residual `y − m` pairs every label with the prior mean of its own (point, task). -/
theorem gen_multitask_reshape_eq_model {α : Type} (n s t : Nat) (f g : Nat → Nat → α) :
    numTrain [n, t] = n * t ∧ testShape [n + s, t] [n, t] = [s, t] ∧
    (∀ p τ, p < s → τ < t →
      (viewPredMean (testMean (interleaved f (n + s) t) [n, t]) [n + s, t] [n, t]).get [τ, p] = f (n + p) τ) ∧
    (∀ k, 0 < t → (k < numTrain [n, t] ↔ k / t < n)) ∧
    (∀ i τ, i < n → τ < t → (flattenLabels (table g n t) [n, t]).get [i * t + τ] = g i τ) := by
  refine ⟨by simp [numTrain], by simp [testShape], ?_, ?_, ?_⟩
  · intro p τ hp hτ
    have hlt := flat_lt_mul s t p τ hp hτ
    have hsz : (n + s) * t - n * t = s * t := by rw [Nat.add_mul]; omega
    obtain ⟨h1, h2⟩ := interleaved_div_mod n p t τ hτ
    simp [viewPredMean, testMean, testShape, numTrain, dropFirst, interleaved, T.view, ofTorch, flat, unflat, hsz,
      Nat.mod_eq_of_lt hlt, h1, Nat.mod_eq_of_lt hτ]
  · intro k ht
    simp only [numTrain, List.foldl_cons, List.foldl_nil, one_mul]
    rw [Nat.div_lt_iff_lt_mul ht]
  · intro i τ hi hτ
    have ht : 0 < t := by omega
    have e1 : (i * t + τ) % t = τ := by rw [Nat.add_comm, Nat.add_mul_mod_self_right, Nat.mod_eq_of_lt hτ]
    have e2 : (i * t + τ) / t = i := by
      rw [Nat.add_comm, Nat.add_mul_div_right _ _ ht, Nat.div_eq_of_lt hτ]; omega
    simp [flattenLabels, table, T.view, ofTorch, flat, unflat, e1, e2, Nat.mod_eq_of_lt hi]

/-- Single-output models: `num_train = n`, `test_shape = (s)`, and the view is the identity on the test part. -/
theorem gen_single_task_reshape {α : Type} (n s : Nat) (v : T α) (hv : v.shape = [n + s]) :
    numTrain [n] = n ∧ testShape [n + s] [n] = [s] ∧
    (∀ p, p < s → (viewPredMean (testMean v [n]) [n + s] [n]).get [p] = v.get [n + p]) := by
  refine ⟨by simp [numTrain], by simp [testShape], ?_⟩
  intro p hp
  simp [viewPredMean, testMean, testShape, numTrain, dropFirst, T.view, ofTorch, flat, unflat, hv,
    Nat.mod_eq_of_lt hp, Nat.add_comm]

/-- `settings.detach_test_caches`: the mean cache (under every NaN policy), the covariance cache and the operator of
the non-fast covariance solve are `.detach()`ed iff the setting is on. -/
theorem gen_detach_follows_setting (p : ExactGP.Policy) (on : Bool) :
    meanCacheDetached p on = detachSpec on ∧ covarCacheDetached on = detachSpec on ∧
      solveOperandDetached on = detachSpec on := by
  cases p <;> cases on <;> simp [meanCacheDetached, covarCacheDetached, solveOperandDetached, detachSpec]

/-- … and detaching changes no VALUE: the generated caches and the generated `exact_prediction` are the same function
of their inputs whatever `cfg.detach` is. -/
theorem gen_detach_value_invariant [DecidableEq α] (cfg : Gen.ExactAlgebra.Cfg)
    (b : Bool) (J : DMat (n + s) (n + s) α) (mj : DMat (n + s) 1 α) (A : DMat n n α) (mx y : DMat n 1 α)
    (R : DMat n k α) (obs : Fin n → Bool) (c : α) :
    Gen.ExactAlgebra.mean_cache_ignore { cfg with detach := b } A mx y = Gen.ExactAlgebra.mean_cache_ignore cfg A mx y ∧
    Gen.ExactAlgebra.mean_cache_mask { cfg with detach := b } A mx y obs = Gen.ExactAlgebra.mean_cache_mask cfg A mx y obs ∧
    Gen.ExactAlgebra.mean_cache_fill { cfg with detach := b } A mx y obs c =
      Gen.ExactAlgebra.mean_cache_fill cfg A mx y obs c ∧
    Gen.ExactAlgebra.exact_prediction { cfg with detach := b } J mj A mx y R obs c =
      Gen.ExactAlgebra.exact_prediction cfg J mj A mx y R obs c := by
  refine ⟨rfl, rfl, rfl, rfl⟩

end callgen

/-! ### The hypotheses are satisfiable (non-vacuity) -/

/-- A concrete 2-train / 1-test instance over `ℚ`: the driver's `posterior` returns a value. -/
example : (posterior (n := 2) (s := 1)
    (DMat.ofMatrix !![2, 1, 1; 1, 2, 1; 1, 1, 2]) (DMat.ofMatrix !![0; 0; 1])
    (DMat.ofMatrix !![1, 0; 0, 1]) (DMat.ofMatrix !![1; 2]) (DMat.ofMatrix !![(1 : ℚ)])).isSome = true := by
  decide +kernel

/-- `R Rᵀ = A⁻¹` is satisfiable with a non-trivial, non-square-root-free instance: `A = [[4,0],[0,1/4]]`,
`R = [[1/2,0],[0,2]]`; the certified inverse of `A` is exactly `rootGram R`. -/
example : (DMat.inv? (DMat.ofMatrix !![(4 : ℚ), 0; 0, 1 / 4])).map (·.arr)
    = some (rootGram (DMat.ofMatrix !![(1 / 2 : ℚ), 0; 0, 2])).arr := by
  decide +kernel

/-- `gen_concat_eq_model` is not vacuous: train rows `(3, 2, ·)` (batch `[3]`, `n = 2`) with an unbatched test row give the
batch shape `[3]` and `3` rows; the flat positions read are train batch element `b`, rows 0–1, then test row 0. -/
example : (Gen.ExactCall.catInputs (Bcast.T.arange [2, 3]) (Bcast.T.arange [1])).map (fun r => (r.shape, r.toFlat))
    = some ([3, 3], [0, 1, 0, 2, 3, 0, 4, 5, 0]) := by decide

/-- … and batch shapes that do not broadcast (`[3]` against `[2]`) give `none` on both sides. -/
example : (Gen.ExactCall.catInputs (Bcast.T.arange [2, 3]) (Bcast.T.arange [1, 2])).isNone = true ∧
    (ExactCall.concatSpec (Bcast.T.arange [2, 3]) (Bcast.T.arange [1, 2])).isNone = true := by decide

/-- The hypotheses of `gen_posterior_branch_iff` / `gen_training_branch` / `gen_prior_branch` are satisfiable. -/
example : Gen.ExactCall.callMode ⟨false, true, true, true, false, true, true⟩ = ExactCall.Outcome.posterior true ∧
    Gen.ExactCall.callMode ⟨true, true, true, true, false, false, true⟩ = ExactCall.Outcome.raiseMustTrainOnTrainInputs ∧
    Gen.ExactCall.callMode ⟨false, true, true, false, true, false, true⟩ = ExactCall.Outcome.priorAtArgs := by decide

end C01

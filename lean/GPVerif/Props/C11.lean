/-
C11 — MultitaskMultivariateNormal: one joint distribution regardless of layout, constructor or index.

All statements about `__getitem__`, `_normalize_*`, the `to_data_independent_dist` index grids and the
constructors are about the definitions in `GPVerif.Gen.MTIndex`, which the translator
`harness/translate/g3_mtmvn_index.py` regenerates from the Python source on every run; the specification
side (`MTIndex.specGetitem`, `flat`, Python slice semantics) is hand-written in `GPVerif.Model.MTIndex`.
-/
import GPVerif.Gen.MTIndex
import GPVerif.Bridge.MTIndex

namespace C11
open MTIndex Gen.MTIndex

/-! ## the generated helpers -/

/-- generated `_normalize_index` = torch's wrap-around of a valid integer index -/
theorem normalizeIndex_spec {len i p : Int} (h : wrap len i = some p) : normalizeIndex i len = p := by
  unfold normalizeIndex
  exact wrap_eq_norm' h

/-- generated `_normalize_slice` = Python's `slice.indices` (wrap negative bounds, clamp into `[0, len]`) -/
theorem normalizeSlice_spec (s : PySlice) (len : Int) : normalizeSlice s len = s.indices len := by
  unfold normalizeSlice
  rfl

/-- generated `_normalize_index_tensor` on an int paired with an index tensor -/
theorem normalizeIndexTensor_int {len i p : Int} (h : wrap len i = some p) :
    normalizeIndexTensor (.int i) len = some (.scalar p) := by
  simp [normalizeIndexTensor, Idx.toTVal?, TVal.map, wrap_eq_norm h]

/-- generated `_normalize_index_tensor` on an index tensor: every entry wraps like a torch index -/
theorem normalizeIndexTensor_list {len : Int} {l L : List Int} (h : indexTensor len l = some L) :
    normalizeIndexTensor (.list l) len = some (.vec L) := by
  simp [normalizeIndexTensor, Idx.toTVal?, TVal.map, indexTensor_eq_map h]

/-! ## the dispatch branches, in (row, col) coordinates -/

/-- int × int: the single diagonal position `r·nc + c` -/
theorem branch_intInt_correct (inter : Bool) {nr nc i j p q : Int}
    (hi : wrap nr i = some p) (hj : wrap nc j = some q) :
    branch_intInt inter (nr * nc) nr nc i j = some (.mvn, rowMajor nc [p] [q]) := by
  have hp := wrap_bounds hi
  have hq := wrap_bounds hj
  have hb := flat_bound hp.1 hp.2 hq.1 hq.2
  simp [branch_intInt, normalizeIndex_spec hi, normalizeIndex_spec hj, indexInt, wrap_of_valid hb.1 hb.2, rowMajor]

/-- int × slice: a contiguous-stride block inside row `r` -/
theorem branch_intSlice_correct (inter : Bool) {nr nc i p : Int} (s : PySlice) (hnc : 0 ≤ nc)
    (hi : wrap nr i = some p) :
    branch_intSlice inter (nr * nc) nr nc i s = some (.mvn, rowMajor nc [p] (applyPySlice nc s)) := by
  have hp := wrap_bounds hi
  have hb := indices_bounds s hnc
  have hN : 0 ≤ nr * nc := Int.mul_nonneg (by omega) hnc
  have hpn : 0 ≤ p * nc := Int.mul_nonneg hp.1 hnc
  simp only [branch_intSlice, normalizeIndex_spec hi, normalizeSlice_spec, Option.bind_some]
  rw [applySlice_of_lt _ hN (by simp only; omega) (by simp only; omega)]
  · rw [toList_shift, rowMajor_single_row]
    simp only [applyPySlice, Option.some.injEq, Prod.mk.injEq, true_and]
    apply List.map_congr_left
    intro c _
    omega
  · intro x hx
    rw [toList_shift] at hx
    obtain ⟨c, hc, rfl⟩ := List.mem_map.mp hx
    have hcb := toList_bounds (q := s.indices nc) hb.1 hc
    have := (flat_bound hp.1 hp.2 hcb.1 (by omega : c < nc)).2
    omega

/-- slice × int: stride `nc` through column `c` -/
theorem branch_sliceInt_correct (inter : Bool) {nr nc j q : Int} (s : PySlice) (hnr : 0 ≤ nr)
    (hj : wrap nc j = some q) :
    branch_sliceInt inter (nr * nc) nr nc s j = some (.mvn, rowMajor nc (applyPySlice nr s) [q]) := by
  have hq := wrap_bounds hj
  have hb := indices_bounds s hnr
  have hnc : 0 < nc := by omega
  have hN : 0 ≤ nr * nc := Int.mul_nonneg hnr (by omega)
  have h1 : 0 ≤ (s.indices nr).start * nc := Int.mul_nonneg hb.1 (by omega)
  have h2 : 0 ≤ (s.indices nr).stop * nc := Int.mul_nonneg hb.2.2.1 (by omega)
  simp only [branch_sliceInt, normalizeIndex_spec hj, normalizeSlice_spec, Option.bind_some]
  rw [applySlice_of_lt _ hN (by simp only; omega) (by simp only; omega)]
  · rw [toList_scale _ _ _ _ _ hnc, rowMajor_single_col]
    rfl
  · intro x hx
    rw [toList_scale _ _ _ _ _ hnc] at hx
    obtain ⟨r, hr, rfl⟩ := List.mem_map.mp hx
    have hrb := toList_bounds (q := s.indices nr) hb.1 hr
    exact (flat_bound hrb.1 (by omega : r < nr) hq.1 hq.2).2

/-- `[:, :]`: the whole covariance, which is the row-major grid -/
theorem branch_fullSlices_correct (inter : Bool) (nr nc : Nat) (r c : PySlice) :
    branch_fullSlices inter ((nr : Int) * nc) nr nc r c
      = some (.mt inter, rowMajor nc (applyPySlice nr PySlice.full) (applyPySlice nc PySlice.full)) := by
  have : ((nr : Int) * nc) = ((nr * nc : Nat) : Int) := by push_cast; rfl
  simp only [branch_fullSlices, Option.bind_some, this, applyPySlice_full, rowMajor_full]

/-- slice × slice, tensor × slice, slice × tensor: the grid rows × cols in row-major order -/
theorem branch_mesh_correct (inter : Bool) {nr nc : Int} (hnr : 0 ≤ nr) (hnc : 0 ≤ nc) {r c : Idx} {R C : List Int}
    (hr : r.resolve nr = some R) (hc : c.resolve nc = some C) (hri : r.isInt = false) (hci : c.isInt = false) :
    branch_mesh inter (nr * nc) nr nc r c = some (.mt inter, rowMajor nc R C) := by
  have hb := rowMajor_bounds (resolve_bounds hnr hr) (resolve_bounds hnc hc)
  have e : meshFlat (fun row_grid col_grid => row_grid * nc + col_grid) (TVal.vec R) (TVal.vec C) = rowMajor nc R C := rfl
  cases r with
  | int i => simp [Idx.isInt] at hri
  | slice s =>
    have := resolve_slice hr; subst this
    cases c with
    | int j => simp [Idx.isInt] at hci
    | slice s' =>
      have := resolve_slice hc; subst this
      simp only [branch_mesh, Option.bind_some, e, indexTensor_of_valid hb]
    | list l' =>
      simp only [branch_mesh, normalizeIndexTensor_list (resolve_list hc), Option.bind_some, e, indexTensor_of_valid hb]
  | list l =>
    cases c with
    | int j => simp [Idx.isInt] at hci
    | slice s' =>
      have := resolve_slice hc; subst this
      simp only [branch_mesh, normalizeIndexTensor_list (resolve_list hr), Option.bind_some, e, indexTensor_of_valid hb]
    | list l' =>
      simp only [branch_mesh, normalizeIndexTensor_list (resolve_list hr), normalizeIndexTensor_list (resolve_list hc),
        Option.bind_some, e, indexTensor_of_valid hb]

/-- tensor value of a non-slice index component after `_normalize_index_tensor` -/
theorem pairs_component {len : Int} {x : Idx} {L : List Int} (hx : x.resolve len = some L) (hs : x.isSlice = false) :
    ∃ v, normalizeIndexTensor x len = some v ∧ v.toList = L ∧ (x.isList = true → v = .vec L) ∧
      (x.isList = false → ∃ p, v = .scalar p ∧ L = [p]) := by
  cases x with
  | slice s => simp [Idx.isSlice] at hs
  | int i =>
    simp only [Idx.resolve, indexInt, Option.map_eq_some_iff] at hx
    obtain ⟨p, hp, rfl⟩ := hx
    exact ⟨.scalar p, normalizeIndexTensor_int hp, rfl, by simp [Idx.isList], fun _ => ⟨p, rfl, rfl⟩⟩
  | list l =>
    simp only [Idx.resolve] at hx
    exact ⟨.vec L, normalizeIndexTensor_list hx, rfl, fun _ => rfl, by simp [Idx.isList]⟩

/-- tensor × tensor (elementwise pairs, with broadcasting), int × tensor, tensor × int -/
theorem branch_pairs_correct (inter : Bool) {nr nc : Int} (hnr : 0 ≤ nr) (hnc : 0 ≤ nc) {r c : Idx} {R C L : List Int}
    (hr : r.resolve nr = some R) (hc : c.resolve nc = some C) (hrs : r.isSlice = false) (hcs : c.isSlice = false)
    (hL : rcPositions nc (r.isList && c.isList) R C = some L) :
    branch_pairs inter (nr * nc) nr nc r c = some (.mvn, L) := by
  obtain ⟨vr, hvr, hlr, hvecr, hscr⟩ := pairs_component hr hrs
  obtain ⟨vc, hvc, hlc, hvecc, hscc⟩ := pairs_component hc hcs
  have hRb := resolve_bounds hnr hr
  have hCb := resolve_bounds hnc hc
  -- every position is r·nc + c for valid r, c
  have hmem : ∀ p ∈ L, 0 ≤ p ∧ p < nr * nc := by
    intro p hp
    unfold rcPositions at hL
    split at hL
    · obtain ⟨x, hx, y, hy, rfl⟩ := bcast_mem hL p hp
      exact flat_bound (hRb x hx).1 (hRb x hx).2 (hCb y hy).1 (hCb y hy).2
    · cases hL
      exact rowMajor_bounds hRb hCb p hp
  -- the broadcast arithmetic produces L
  have hz : ∃ w, TVal.zip (fun row_idx col_idx => row_idx * nc + col_idx) vr vc = some w ∧ w.toList = L := by
    cases hrl : r.isList <;> cases hcl : c.isList
    · obtain ⟨p, rfl, rfl⟩ := hscr hrl
      obtain ⟨q, rfl, rfl⟩ := hscc hcl
      simp [rcPositions, hrl, hcl, rowMajor] at hL
      exact ⟨_, rfl, by simp [TVal.toList, hL]⟩
    · obtain ⟨p, rfl, rfl⟩ := hscr hrl
      have := hvecc hcl; subst this
      simp only [rcPositions, hrl, hcl, Bool.false_and, Bool.false_eq_true, if_false, Option.some.injEq,
        rowMajor_single_row] at hL
      exact ⟨_, rfl, by simp [TVal.toList, hL]⟩
    · have := hvecr hrl; subst this
      obtain ⟨q, rfl, rfl⟩ := hscc hcl
      simp only [rcPositions, hrl, hcl, Bool.and_false, Bool.false_eq_true, if_false, Option.some.injEq,
        rowMajor_single_col] at hL
      exact ⟨_, rfl, by simp [TVal.toList, hL]⟩
    · have := hvecr hrl; subst this
      have := hvecc hcl; subst this
      simp only [rcPositions, hrl, hcl, Bool.and_self, if_true] at hL
      exact ⟨.vec L, by simp [TVal.zip, hL], rfl⟩
  obtain ⟨w, hw, hwl⟩ := hz
  simp only [branch_pairs, hvr, hvc, Option.bind_some, hw, hwl, indexTensor_of_valid hmem]

/-- The generated dispatch selects, for every pair of valid index components, exactly the positions
`r·nc + c` of the selected (row, col) pairs — as a row-major grid, or elementwise for two index tensors. -/
theorem getitemRC_correct (inter : Bool) (nr nc : Nat) (r c : Idx) {R C L : List Int}
    (hr : r.resolve nr = some R) (hc : c.resolve nc = some C)
    (hL : rcPositions nc (r.isList && c.isList) R C = some L) :
    getitemRC inter ((nr : Int) * nc) nr nc r c = some (specKind inter r c, L) := by
  have hnr : (0 : Int) ≤ nr := Int.natCast_nonneg nr
  have hnc : (0 : Int) ≤ nc := Int.natCast_nonneg nc
  cases r with
  | int i =>
    have hr' := hr
    simp only [Idx.resolve, indexInt, Option.map_eq_some_iff] at hr'
    obtain ⟨p, hp, rfl⟩ := hr'
    cases c with
    | int j =>
      have hc' := hc
      simp only [Idx.resolve, indexInt, Option.map_eq_some_iff] at hc'
      obtain ⟨q, hq, rfl⟩ := hc'
      simp only [rcPositions, Idx.isList, Bool.false_and, Bool.false_eq_true, if_false, Option.some.injEq] at hL
      subst hL
      simp [getitemRC, Idx.isInt, specKind, Idx.isSlice, branch_intInt_correct inter hp hq]
    | slice s =>
      have hc' := hc
      simp only [Idx.resolve] at hc'
      split at hc'
      · cases hc'
        simp only [rcPositions, Idx.isList, Bool.false_and, Bool.false_eq_true, if_false, Option.some.injEq] at hL
        subst hL
        simp [getitemRC, Idx.isInt, specKind, Idx.isSlice, branch_intSlice_correct inter s hnc hp]
      · cases hc'
    | list l =>
      simp [getitemRC, Idx.isInt, specKind, Idx.isSlice,
        branch_pairs_correct inter hnr hnc hr hc (by rfl) (by rfl) hL]
  | slice s =>
    have hr' := hr
    simp only [Idx.resolve] at hr'
    split at hr'
    case isFalse => cases hr'
    cases hr'
    cases c with
    | int j =>
      have hc' := hc
      simp only [Idx.resolve, indexInt, Option.map_eq_some_iff] at hc'
      obtain ⟨q, hq, rfl⟩ := hc'
      simp only [rcPositions, Idx.isList, Bool.false_and, Bool.false_eq_true, if_false, Option.some.injEq] at hL
      subst hL
      simp [getitemRC, Idx.isInt, specKind, Idx.isSlice, branch_sliceInt_correct inter s hnr hq]
    | slice s' =>
      have hc' := hc
      simp only [Idx.resolve] at hc'
      split at hc'
      case isFalse => cases hc'
      cases hc'
      simp only [rcPositions, Idx.isList, Bool.false_and, Bool.false_eq_true, if_false, Option.some.injEq] at hL
      subst hL
      by_cases hf : (Idx.slice s).isFull = true ∧ (Idx.slice s').isFull = true
      · have h1 : s = PySlice.full := by simpa [Idx.isFull] using hf.1
        have h2 : s' = PySlice.full := by simpa [Idx.isFull] using hf.2
        subst h1 h2
        simp [getitemRC, Idx.isInt, specKind, Idx.isSlice, Idx.isFull, branch_fullSlices_correct]
      · have := branch_mesh_correct inter hnr hnc hr hc (by rfl) (by rfl)
        simp [getitemRC, Idx.isInt, specKind, Idx.isSlice, hf, this]
    | list l =>
      simp only [rcPositions, Idx.isList, Bool.false_and, Bool.false_eq_true, if_false, Option.some.injEq] at hL
      subst hL
      have := branch_mesh_correct inter hnr hnc hr hc (by rfl) (by rfl)
      simp [getitemRC, Idx.isInt, specKind, Idx.isSlice, Idx.isFull, this]
  | list l =>
    cases c with
    | int j =>
      simp [getitemRC, Idx.isInt, specKind, Idx.isSlice,
        branch_pairs_correct inter hnr hnc hr hc (by rfl) (by rfl) hL]
    | slice s' =>
      have hc' := hc
      simp only [Idx.resolve] at hc'
      split at hc'
      case isFalse => cases hc'
      simp only [rcPositions, Idx.isList, Bool.and_false, Bool.false_eq_true, if_false, Option.some.injEq] at hL
      subst hL
      have := branch_mesh_correct inter hnr hnc hr hc (by rfl) (by rfl)
      simp [getitemRC, Idx.isInt, specKind, Idx.isSlice, Idx.isFull, this]
    | list l' =>
      simp [getitemRC, Idx.isInt, specKind, Idx.isSlice,
        branch_pairs_correct inter hnr hnc hr hc (by rfl) (by rfl) hL]

/-! ## the property: `d[idx]` selects exactly the covariance of the selected (point, task) pairs -/

/-- **getitem_selects_pairs** — for all `n`, `t`, both layouts, every int (negative or not), every slice
(any start / stop incl. `None`, negative and out of range; any step torch accepts, i.e. ≥ 1) and every index
tensor valid for a mean of shape `n × t`: the flat covariance positions the generated `__getitem__` uses are
exactly `[flat(i, a) | i ∈ rows, a ∈ cols]` in the order in which the result flattens `mean[idx]`
(elementwise pairs for two index tensors), and the result kind matches the dimension of `mean[idx]`. -/
theorem getitem_selects_pairs (inter : Bool) (n t : Nat) (pointIdx taskIdx : Idx) {rows cols pos : List Int}
    (hr : pointIdx.resolve n = some rows) (hc : taskIdx.resolve t = some cols)
    (hp : specPositions inter n t (pointIdx.isList && taskIdx.isList) rows cols = some pos) :
    getitem inter n t pointIdx taskIdx = some (specKind inter pointIdx taskIdx, pos) := by
  cases inter with
  | true =>
    rw [specPositions_inter] at hp
    simp only [getitem, layout_num_rows, layout_num_cols, layout_row_idx, layout_col_idx, if_true]
    exact getitemRC_correct true n t pointIdx taskIdx hr hc hp
  | false =>
    rw [specPositions_noninter, Bool.and_comm] at hp
    simp only [getitem, layout_num_rows, layout_num_cols, layout_row_idx, layout_col_idx, Bool.false_eq_true, if_false]
    have := getitemRC_correct false t n taskIdx pointIdx hc hr hp
    rw [Int.mul_comm] at this
    rw [this]
    simp [specKind, Bool.or_comm]

/-- the same as an equation between the generated code and the specification -/
theorem getitem_eq_spec (inter : Bool) (n t : Nat) (pointIdx taskIdx : Idx) (res : OutKind × List Int)
    (h : specGetitem inter n t pointIdx taskIdx = some res) :
    getitem inter n t pointIdx taskIdx = some res := by
  simp only [specGetitem, Option.bind_eq_bind, Option.bind_eq_some_iff, Option.pure_def, Option.some.injEq] at h
  obtain ⟨rows, hr, cols, hc, pos, hp, rfl⟩ := h
  exact getitem_selects_pairs inter n t pointIdx taskIdx hr hc hp

/-! ## the flattening conventions: a bijection (point, task) ↔ flat position, for both layouts -/

/-- `unflat` inverts `flat` on valid pairs -/
theorem unflat_flat (inter : Bool) {n t i a : Int} (hi0 : 0 ≤ i) (hi1 : i < n) (ha0 : 0 ≤ a) (ha1 : a < t) :
    unflat inter n t (flat inter n t i a) = (i, a) := by
  cases inter
  · simp [unflat, flat, flat_div hi0 hi1, flat_mod hi0 hi1]
  · simp [unflat, flat, flat_div ha0 ha1, flat_mod ha0 ha1]

/-- `flat` inverts `unflat` on valid positions, and `unflat` lands in `[0,n) × [0,t)` -/
theorem flat_unflat (inter : Bool) {n t p : Int} (hn : 0 ≤ n) (ht : 0 ≤ t) (hp0 : 0 ≤ p) (hp1 : p < n * t) :
    flat inter n t (unflat inter n t p).1 (unflat inter n t p).2 = p ∧
    0 ≤ (unflat inter n t p).1 ∧ (unflat inter n t p).1 < n ∧
    0 ≤ (unflat inter n t p).2 ∧ (unflat inter n t p).2 < t := by
  have hn' : 0 < n := by
    by_contra h
    have : n = 0 := by omega
    subst this; simp at hp1; omega
  have ht' : 0 < t := by
    by_contra h
    have : t = 0 := by omega
    subst this; simp at hp1; omega
  cases inter
  · simp only [unflat, flat, Bool.false_eq_true, if_false]
    have hp1' : p < t * n := by rw [Int.mul_comm]; exact hp1
    refine ⟨?_, Int.emod_nonneg _ (by omega), Int.emod_lt_of_pos _ hn', Int.ediv_nonneg hp0 hn, div_lt_of_lt_mul hp1' hn'⟩
    have := Int.mul_ediv_add_emod p n
    rw [Int.mul_comm] at this
    omega
  · simp only [unflat, flat, if_true]
    refine ⟨?_, Int.ediv_nonneg hp0 ht, div_lt_of_lt_mul hp1 ht', Int.emod_nonneg _ (by omega), Int.emod_lt_of_pos _ ht'⟩
    have := Int.mul_ediv_add_emod p t
    rw [Int.mul_comm] at this
    exact this

/-- **flat_injective** — distinct (point, task) pairs occupy distinct flat positions (both layouts) -/
theorem flat_injective (inter : Bool) {n t i a i' a' : Int}
    (hi0 : 0 ≤ i) (hi1 : i < n) (ha0 : 0 ≤ a) (ha1 : a < t)
    (hi0' : 0 ≤ i') (hi1' : i' < n) (ha0' : 0 ≤ a') (ha1' : a' < t)
    (h : flat inter n t i a = flat inter n t i' a') : i = i' ∧ a = a' := by
  have e1 := unflat_flat inter hi0 hi1 ha0 ha1
  have e2 := unflat_flat inter hi0' hi1' ha0' ha1'
  rw [h, e2] at e1
  exact ⟨(Prod.mk.inj e1).1.symm, (Prod.mk.inj e1).2.symm⟩

/-- valid pairs land on valid positions -/
theorem flat_range (inter : Bool) {n t i a : Int} (hi0 : 0 ≤ i) (hi1 : i < n) (ha0 : 0 ≤ a) (ha1 : a < t) :
    0 ≤ flat inter n t i a ∧ flat inter n t i a < n * t := by
  cases inter
  · simp only [flat, Bool.false_eq_true, if_false]
    have := flat_bound ha0 ha1 hi0 hi1
    rw [Int.mul_comm n t]
    exact this
  · simp only [flat, if_true]
    exact flat_bound hi0 hi1 ha0 ha1

/-- **view_transpose_roundtrip** (positions) — converting the interleaved position of a pair to the
non-interleaved one maps the position of `(i, a)` to the position of `(i, a)` … -/
theorem toNonInterleaved_flat {n t i a : Int} (_hi0 : 0 ≤ i) (_hi1 : i < n) (ha0 : 0 ≤ a) (ha1 : a < t) :
    toNonInterleaved n t (flat true n t i a) = flat false n t i a := by
  simp [toNonInterleaved, flat, flat_div ha0 ha1, flat_mod ha0 ha1]

/-- … and back … -/
theorem toInterleaved_flat {n t i a : Int} (hi0 : 0 ≤ i) (hi1 : i < n) (_ha0 : 0 ≤ a) (_ha1 : a < t) :
    toInterleaved n t (flat false n t i a) = flat true n t i a := by
  simp [toInterleaved, flat, flat_div hi0 hi1, flat_mod hi0 hi1]

/-- … and the two conversions are mutually inverse on `[0, n·t)`. -/
theorem view_transpose_roundtrip {n t p : Int} (hn : 0 ≤ n) (ht : 0 ≤ t) (hp0 : 0 ≤ p) (hp1 : p < n * t) :
    toInterleaved n t (toNonInterleaved n t p) = p ∧ toNonInterleaved n t (toInterleaved n t p) = p := by
  obtain ⟨e1, b1, b2, b3, b4⟩ := flat_unflat true hn ht hp0 hp1
  obtain ⟨e2, c1, c2, c3, c4⟩ := flat_unflat false hn ht hp0 hp1
  simp only [unflat, if_true] at e1 b1 b2 b3 b4
  simp only [unflat, Bool.false_eq_true, if_false] at e2 c1 c2 c3 c4
  constructor
  · show toInterleaved n t (flat false n t (p / t) (p % t)) = p
    rw [toInterleaved_flat b1 b2 b3 b4]; exact e1
  · show toNonInterleaved n t (flat true n t (p % n) (p / n)) = p
    rw [toNonInterleaved_flat c1 c2 c3 c4]; exact e2

/-- the matrix views of `mean`, `variance`, `rsample` (result) and `get_base_samples` all read position
`flat(i, a)` of the stored flat vector — in both layouts, for all `n`, `t` -/
theorem views_read_flat {α : Type} (inter : Bool) (n t i a : Int) (loc : Int → α) :
    meanView inter n t loc i a = loc (flat inter n t i a) ∧
    varianceView inter n t loc i a = loc (flat inter n t i a) ∧
    rsampleView inter n t loc i a = loc (flat inter n t i a) ∧
    baseSamplesView inter n t loc i a = loc (flat inter n t i a) := by
  cases inter <;> exact ⟨rfl, rfl, rfl, rfl⟩

/-- the flat vector the constructor stores holds entry `(i, a)` of the mean matrix at `flat(i, a)` -/
theorem ctorLoc_spec {α : Type} (inter : Bool) {n t i a : Int} (mean : Int → Int → α)
    (hi0 : 0 ≤ i) (hi1 : i < n) (ha0 : 0 ≤ a) (ha1 : a < t) :
    ctorLoc inter n t mean (flat inter n t i a) = mean i a := by
  cases inter
  · simp [ctorLoc, transpose2, reshapeFlat, flat, flat_div hi0 hi1, flat_mod hi0 hi1]
  · simp [ctorLoc, reshapeFlat, flat, flat_div ha0 ha1, flat_mod ha0 ha1]

/-- **log_prob** evaluates the flat density at the vector that holds `value[i, a]` at `flat(i, a)` -/
theorem logProbArg_spec {α : Type} (inter : Bool) {n t i a : Int} (value : Int → Int → α)
    (hi0 : 0 ≤ i) (hi1 : i < n) (ha0 : 0 ≤ a) (ha1 : a < t) :
    logProbArg inter n t value (flat inter n t i a) = value i a := by
  cases inter
  · simp [logProbArg, transpose2, reshapeFlat, flat, flat_div hi0 hi1, flat_mod hi0 hi1]
  · simp [logProbArg, reshapeFlat, flat, flat_div ha0 ha1, flat_mod ha0 ha1]

/-- **view_transpose_roundtrip** (values) — both layouts denote the same `(i, a) ↦ value` function: what the
constructor stores, read back through the `mean` view, is the original matrix. -/
theorem view_transpose_roundtrip_values {α : Type} (inter : Bool) {n t i a : Int} (mean : Int → Int → α)
    (hi0 : 0 ≤ i) (hi1 : i < n) (ha0 : 0 ≤ a) (ha1 : a < t) :
    meanView inter n t (ctorLoc inter n t mean) i a = mean i a := by
  rw [(views_read_flat inter n t i a _).1]
  exact ctorLoc_spec inter mean hi0 hi1 ha0 ha1

/-- `log_prob(self.mean)` hands exactly the stored vector `loc` to the flat density (so the mode of the joint is
the mean, in both layouts, also for `n ≠ t`). -/
theorem log_prob_of_mean_is_loc {α : Type} (inter : Bool) {n t p : Int} (loc : Int → α)
    (hn : 0 ≤ n) (ht : 0 ≤ t) (hp0 : 0 ≤ p) (hp1 : p < n * t) :
    logProbArg inter n t (meanView inter n t loc) p = loc p := by
  obtain ⟨e, b1, b2, b3, b4⟩ := flat_unflat inter hn ht hp0 hp1
  have h := logProbArg_spec inter (meanView inter n t loc) b1 b2 b3 b4
  rw [e] at h
  rw [h, (views_read_flat inter n t _ _ loc).1, e]

/-! ## constructors: independent tasks, block structure in the constructor's own layout -/

/-- block operator + layout flag ⇒ entry between `(i, a)` and `(j, b)` is `K a i j` for `a = b`, else zero -/
theorem blockEntry_flat {α : Type} [OfNat α 0] (K : Int → Int → Int → α) {n t i a j b : Int}
    (hi0 : 0 ≤ i) (hi1 : i < n) (ha0 : 0 ≤ a) (ha1 : a < t)
    (hj0 : 0 ≤ j) (hj1 : j < n) (hb0 : 0 ≤ b) (hb1 : b < t) :
    blockEntry .interleavedBlocks n t K (flat true n t i a) (flat true n t j b) = (if a = b then K a i j else 0) ∧
    blockEntry .diagBlocks n t K (flat false n t i a) (flat false n t j b) = (if a = b then K a i j else 0) := by
  constructor
  · simp [blockEntry, flat, flat_div ha0 ha1, flat_mod ha0 ha1, flat_div hb0 hb1, flat_mod hb0 hb1]
  · simp [blockEntry, flat, flat_div hi0 hi1, flat_mod hi0 hi1, flat_div hj0 hj1, flat_mod hj0 hj1]

/-- **from_batch_mvn_entry** — with the block operator and layout flag the generated `from_batch_mvn` uses, the
covariance between outputs `(i, a)` and `(j, b)` is `K_a[i, j]` when `a = b` and `0` otherwise. -/
theorem from_batch_mvn_entry {α : Type} [OfNat α 0] (K : Int → Int → Int → α) {n t i a j b : Int}
    (hi0 : 0 ≤ i) (hi1 : i < n) (ha0 : 0 ≤ a) (ha1 : a < t)
    (hj0 : 0 ≤ j) (hj1 : j < n) (hb0 : 0 ≤ b) (hb1 : b < t) :
    blockEntry fromBatchMvn.1 n t K (flat fromBatchMvn.2 n t i a) (flat fromBatchMvn.2 n t j b)
      = (if a = b then K a i j else 0) :=
  (blockEntry_flat K hi0 hi1 ha0 ha1 hj0 hj1 hb0 hb1).1

/-- **from_independent_entry** — same for `from_independent_mvns` (block-diagonal operator, non-interleaved). -/
theorem from_independent_entry {α : Type} [OfNat α 0] (K : Int → Int → Int → α) {n t i a j b : Int}
    (hi0 : 0 ≤ i) (hi1 : i < n) (ha0 : 0 ≤ a) (ha1 : a < t)
    (hj0 : 0 ≤ j) (hj1 : j < n) (hb0 : 0 ≤ b) (hb1 : b < t) :
    blockEntry fromIndependentMvns.1 n t K (flat fromIndependentMvns.2 n t i a) (flat fromIndependentMvns.2 n t j b)
      = (if a = b then K a i j else 0) :=
  (blockEntry_flat K hi0 hi1 ha0 ha1 hj0 hj1 hb0 hb1).2

/-- **from_repeated_entry** — `from_repeated_mvn` (all tasks share `K`): `K[i, j]` within a task, `0` across. -/
theorem from_repeated_entry {α : Type} [OfNat α 0] (K : Int → Int → α) {n t i a j b : Int}
    (hi0 : 0 ≤ i) (hi1 : i < n) (ha0 : 0 ≤ a) (ha1 : a < t)
    (hj0 : 0 ≤ j) (hj1 : j < n) (hb0 : 0 ≤ b) (hb1 : b < t) :
    blockEntry fromRepeatedMvn.1 n t (fun _ => K) (flat fromRepeatedMvn.2 n t i a) (flat fromRepeatedMvn.2 n t j b)
      = (if a = b then K i j else 0) :=
  (blockEntry_flat (fun _ => K) hi0 hi1 ha0 ha1 hj0 hj1 hb0 hb1).1

/-! ## `to_data_independent_dist`: the generated index grids address the task block of each point -/

/-- **data_independent_blocks** — `data_indices[i] + task_indices[a] = flat(i, a)` for both layouts, so the
selected entry `(i, a, b)` is the covariance between outputs `(i, a)` and `(i, b)`. -/
theorem data_independent_blocks (inter : Bool) (n t : Nat) (hn : 0 < n) (ht : 0 < t) :
    dataIndices inter n t = (List.range n).map (fun (i : Nat) => flat inter n t i 0) ∧
    taskIndices inter n t = (List.range t).map (fun (a : Nat) => flat inter n t 0 a) ∧
    ∀ i a : Int, flat inter n t i 0 + flat inter n t 0 a = flat inter n t i a := by
  have hn' : (0 : Int) < n := by omega
  have ht' : (0 : Int) < t := by omega
  have cnt1 : ∀ m : Nat, 0 < m → (NSlice.mk 0 (m : Int) 1).count = m := by
    intro m hm
    have : (0 : Int) < m := by omega
    simp only [NSlice.count, this, Int.zero_lt_one, and_self, if_true]
    simp
  have cnt2 : ∀ (m k : Nat), 0 < m → 0 < k → (NSlice.mk 0 ((m : Int) * k) k).count = m := by
    intro m k hm hk
    have hm' : (0 : Int) < m := by omega
    have hk' : (0 : Int) < k := by omega
    have hpos : (0 : Int) < (m : Int) * k := Int.mul_pos hm' hk'
    have hd : ((m : Int) * k - 0 - 1) / k = m - 1 := by
      have := scaled_count_div (d := m) (s := 1) (m := k) (by omega) (by decide) hk'
      simpa using this
    simp only [NSlice.count, hk', hpos, and_self, if_true, hd]
    omega
  cases inter
  · refine ⟨?_, ?_, ?_⟩
    · simp [dataIndices, arange, NSlice.toList, cnt1 n hn, flat]
    · have := cnt2 t n ht hn
      rw [Int.mul_comm] at this
      simp [taskIndices, arange, NSlice.toList, this, flat]
    · intro i a; simp only [flat, Bool.false_eq_true, if_false]; omega
  · refine ⟨?_, ?_, ?_⟩
    · simp [dataIndices, arange, NSlice.toList, cnt2 n t hn ht, flat]
    · simp [taskIndices, arange, NSlice.toList, cnt1 t ht, flat]
    · intro i a; simp [flat]

/-! ## non-vacuity: the hypotheses are satisfiable, the statements say something on concrete inputs -/

-- n = 3, t = 2, interleaved `d[1:, 0]` (the reported defect): positions 2, 4
example : getitem true 3 2 (.slice ⟨some 1, none, none⟩) (.int 0) = some (.mvn, [2, 4]) :=
  getitem_eq_spec true 3 2 _ _ _ (by decide)
-- `d[0, :10]` interleaved: stop clamped to t
example : getitem true 3 2 (.int 0) (.slice ⟨none, some 10, none⟩) = some (.mvn, [0, 1]) :=
  getitem_eq_spec true 3 2 _ _ _ (by decide)
-- non-interleaved `d[1, 1:]` and `d[-5:, 0]`
example : getitem false 3 2 (.int 1) (.slice ⟨some 1, none, none⟩) = some (.mvn, [4]) :=
  getitem_eq_spec false 3 2 _ _ _ (by decide)
example : getitem false 3 2 (.slice ⟨some (-5), none, none⟩) (.int 0) = some (.mvn, [0, 1, 2]) :=
  getitem_eq_spec false 3 2 _ _ _ (by decide)
-- negative entries of index tensors, strided slice × tensor, tensor pairs
example : getitem true 3 2 (.slice ⟨none, none, some 2⟩) (.list [-1]) = some (.mt true, [1, 5]) :=
  getitem_eq_spec true 3 2 _ _ _ (by decide)
example : getitem false 3 2 (.list [1, 0]) (.int (-1)) = some (.mvn, [4, 3]) :=
  getitem_eq_spec false 3 2 _ _ _ (by decide)
example : getitem false 4 3 (.list [3, -4, 1]) (.list [-1, 0, 1]) = some (.mvn, [11, 0, 5]) :=
  getitem_eq_spec false 4 3 _ _ _ (by decide)
-- hypotheses of getitem_selects_pairs instantiated
example : (Idx.slice ⟨some (-7), some 9, some 3⟩).resolve 5 = some [0, 3] := by decide
example : specPositions false 5 3 false [0, 3] [2] = some [10, 13] := by decide
example : flat true 3 2 2 1 = 5 ∧ flat false 3 2 2 1 = 5 ∧ flat true 3 2 1 1 = 3 ∧ flat false 3 2 1 1 = 4 := by decide
example : toNonInterleaved 3 2 3 = 4 ∧ toInterleaved 3 2 4 = 3 := by decide
example : dataIndices true 3 2 = [0, 2, 4] ∧ taskIndices false 3 2 = [0, 3] := by decide
-- n = 2, t = 3, non-interleaved: value[1, 0] sits at flat position 1 of the vector log_prob evaluates
example : logProbArg false 2 3 (fun i a => 10 * i + a) 1 = 10 ∧ flat false 2 3 1 0 = 1 := by decide

end C11

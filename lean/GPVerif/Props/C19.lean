/-
C19 — hand-written derivatives are the true derivatives.

Kernel part: the forward terms and the saved `d_output_d_input` terms are the G5-generated definitions of
`Gen/Formulas.lean` (regenerated from `gpytorch/functions/{rbf,matern}_covariance.py` on every run), with
the distance callback instantiated by the Euclidean (squared) distance of `Model/Scalar.lean`.  Each theorem
says: for every pair of rows, every centre `m`, every upstream factor `go`, every `ℓ ≠ 0` — including
coincident rows (distance 0) — the map `ℓ ↦ go · forward(ℓ)` has derivative `backward(go, saved(ℓ))`.

Linear-algebra part: `_NaturalToMuVarSqrt._backward` returns the gradient w.r.t. the expectation parameters
(`natural_adjoint_identity`), and the data terms of `_NgdInterpTerms.backward`.

`*_partial` items (see docs/C19.md): Cholesky-backward adjoint (core lemma only), CIQ terms (data terms
only, KL term by correspondence), LogNormalCDF (chain-rule form only; rational approximations by
correspondence).
-/
import Mathlib.Analysis.SpecialFunctions.Log.Deriv
import Mathlib.LinearAlgebra.Matrix.Trace
import GPVerif.Bridge.KernelCalc
import GPVerif.Gen.Formulas
import GPVerif.Model.Kernels
import GPVerif.Model.NaturalGrad
import GPVerif.Bridge.FastPath


namespace C19
open Scalar Gen.Formulas

/-! ### RBFCovariance / MaternCovariance -/

theorem rbf_backward_hasDerivAt (x1 x2 : List ℝ) (go ℓ : ℝ) (hℓ : ℓ ≠ 0) :
    HasDerivAt (fun l : ℝ => go * rbfFwdGradOut sqDist x1 x2 l)
      (rbfBwd go (rbfFwdGradSaved sqDist x1 x2 ℓ)) ℓ := by
  simp only [rbfFwdGradOut, rbfFwdGradSaved, rbfBwd, sqDist_rowDivS, exp_real, lit_real]
  set D := sqDist x1 x2
  have hp : HasDerivAt (fun l : ℝ => l ^ 2) (2 * ℓ) ℓ :=
    (hasDerivAt_pow (n := 2) ℓ).congr_deriv (by norm_num)
  have hinv : HasDerivAt (fun l : ℝ => (l ^ 2)⁻¹) (-(2 * ℓ) / (ℓ ^ 2) ^ 2) ℓ := hp.inv (pow_ne_zero 2 hℓ)
  have h1 : HasDerivAt (fun l : ℝ => D / l ^ 2 / ((-2 : ℚ) : ℝ)) ((D / ℓ ^ 2) / ℓ) ℓ := by
    have h := ((hinv.const_mul D)).div_const (((-2 : ℚ)) : ℝ)
    have e : (fun l : ℝ => D / l ^ 2 / ((-2 : ℚ) : ℝ)) = fun l => (D * (l ^ 2)⁻¹) / ((-2 : ℚ) : ℝ) := by
      funext l; rw [div_eq_mul_inv D]
    rw [e]
    refine h.congr_deriv ?_
    push_cast; field_simp
  exact (h1.exp.const_mul go).congr_deriv (by ring)

theorem matern12_backward_hasDerivAt (x1 x2 m : List ℝ) (go ℓ : ℝ) (hℓ : ℓ ≠ 0) :
    HasDerivAt (fun l : ℝ => go * matern12FwdGradOut dist x1 x2 m l)
      (maternBwd go (matern12FwdGradSaved dist x1 x2 m ℓ)) ℓ := by
  simp only [matern12FwdGradOut, matern12FwdGradSaved, maternBwd, exp_real]
  have hs := hasDerivAt_scaledDist x1 x2 m (sqrt (lit (1 : ℚ))) ℓ hℓ
  exact (hs.neg.exp.const_mul go).congr_deriv (by simp only [Pi.neg_apply]; ring)

theorem matern32_backward_hasDerivAt (x1 x2 m : List ℝ) (go ℓ : ℝ) (hℓ : ℓ ≠ 0) :
    HasDerivAt (fun l : ℝ => go * matern32FwdGradOut dist x1 x2 m l)
      (maternBwd go (matern32FwdGradSaved dist x1 x2 m ℓ)) ℓ := by
  simp only [matern32FwdGradOut, matern32FwdGradSaved, maternBwd, exp_real, npow_real]
  have hs := hasDerivAt_scaledDist x1 x2 m (sqrt (lit (3 : ℚ))) ℓ hℓ
  exact (((hs.add_const _).mul hs.neg.exp).const_mul go).congr_deriv
    (by simp only [Pi.neg_apply, lit_real]; push_cast; ring)

theorem matern52_backward_hasDerivAt (x1 x2 m : List ℝ) (go ℓ : ℝ) (hℓ : ℓ ≠ 0) :
    HasDerivAt (fun l : ℝ => go * matern52FwdGradOut dist x1 x2 m l)
      (maternBwd go (matern52FwdGradSaved dist x1 x2 m ℓ)) ℓ := by
  simp only [matern52FwdGradOut, matern52FwdGradSaved, maternBwd, exp_real, npow_real]
  have hs := hasDerivAt_scaledDist x1 x2 m (sqrt (lit (5 : ℚ))) ℓ hℓ
  exact ((((hs.add_const _).add ((hs.pow 2).div_const _)).mul hs.neg.exp).const_mul go).congr_deriv
    (by simp only [Pi.neg_apply, Pi.add_apply, Pi.pow_apply, lit_real]; push_cast; ring)

/-! ### fast path and generic path: same value, hence same hyperparameter gradient -/

/-- RBF: generated fast-path term = generic-path `Impl` (both are the documented `Spec`, C05) -/
theorem fast_eq_generic_value_rbf (a b c : List ℝ) (l : ℝ) (hb : b.length = a.length) (hc : c.length = a.length) :
    rbfFwdGradOut sqDist a b l
      = Kernels.rbfImpl (List.replicate a.length l) (rowDiv c (List.replicate a.length l)) a b := by
  rw [(FastPath.rbf_fast_eq_spec a b l).1, FastPath.rbf_generic_eq_spec _ c a b (by simp) (by simp [hb]) (by simp [hc])]

/-- Matérn (ν = 1/2, 3/2, 5/2): generated fast-path term = generic-path `Impl` -/
theorem fast_eq_generic_value_matern (a b m c : List ℝ) (l : ℝ)
    (ha : a.length = m.length) (hb : b.length = m.length) (hac : a.length = c.length) (hbc : b.length = c.length) :
    matern12FwdGradOut Scalar.dist a b m l = Kernels.maternImpl 1 (List.replicate a.length l) c a b ∧
    matern32FwdGradOut Scalar.dist a b m l = Kernels.maternImpl 3 (List.replicate a.length l) c a b ∧
    matern52FwdGradOut Scalar.dist a b m l = Kernels.maternImpl 5 (List.replicate a.length l) c a b := by
  refine ⟨?_, ?_, ?_⟩
  · rw [(FastPath.matern12_fast_eq_spec a b m l ha hb).1, FastPath.matern_generic_eq_spec 1 _ c a b hac hbc]
  · rw [(FastPath.matern32_fast_eq_spec a b m l ha hb).1, FastPath.matern_generic_eq_spec 3 _ c a b hac hbc]
  · rw [(FastPath.matern52_fast_eq_spec a b m l ha hb).1, FastPath.matern_generic_eq_spec 5 _ c a b hac hbc]

/-- …hence the generic path, differentiated in the lengthscale, has the derivative the fast path's backward
delivers (stated for RBF; autograd differentiates the generic path, the theorem says what it must find). -/
theorem fast_generic_equal_gradients_rbf (a b c : List ℝ) (go ℓ : ℝ) (hℓ : ℓ ≠ 0)
    (hb : b.length = a.length) (hc : c.length = a.length) :
    HasDerivAt (fun l : ℝ => go * Kernels.rbfImpl (List.replicate a.length l) (rowDiv c (List.replicate a.length l)) a b)
      (rbfBwd go (rbfFwdGradSaved sqDist a b ℓ)) ℓ := by
  have e : (fun l : ℝ => go * Kernels.rbfImpl (List.replicate a.length l) (rowDiv c (List.replicate a.length l)) a b)
      = fun l : ℝ => go * rbfFwdGradOut sqDist a b l := by
    funext l; rw [fast_eq_generic_value_rbf a b c l hb hc]
  rw [e]
  exact rbf_backward_hasDerivAt a b go ℓ hℓ

theorem fast_generic_equal_gradients_matern52 (a b m c : List ℝ) (go ℓ : ℝ) (hℓ : ℓ ≠ 0)
    (ha : a.length = m.length) (hb : b.length = m.length) (hac : a.length = c.length) (hbc : b.length = c.length) :
    HasDerivAt (fun l : ℝ => go * Kernels.maternImpl 5 (List.replicate a.length l) c a b)
      (maternBwd go (matern52FwdGradSaved Scalar.dist a b m ℓ)) ℓ := by
  have e : (fun l : ℝ => go * Kernels.maternImpl 5 (List.replicate a.length l) c a b)
      = fun l : ℝ => go * matern52FwdGradOut Scalar.dist a b m l := by
    funext l; rw [(fast_eq_generic_value_matern a b m c l ha hb hac hbc).2.2]
  rw [e]
  exact matern52_backward_hasDerivAt a b m go ℓ hℓ

/-! ### natural parameterisation: the returned pair is the gradient w.r.t. the expectation parameters -/

open Matrix

/-- **Adjoint identity.**  Expectation parameters `(η₁, η₂) = (μ, Σ + μμᵀ)`, i.e. `(μ, Σ) = (η₁, η₂ − η₁η₁ᵀ)`,
whose differential in direction `(δ₁, δ₂)` is `(δμ, δΣ) = (δ₁, δ₂ − δ₁μᵀ − μδ₁ᵀ)`.  For the pair returned by
`_NaturalToMuVarSqrt._backward` (model: `NaturalGrad.naturalBackward`), every symmetric `g_Σ`, every direction:
`⟨g_μ, δμ⟩ + ⟨g_Σ, δΣ⟩ = ⟨dout_deta1, δ₁⟩ + ⟨dout_deta2, δ₂⟩` (`⟨A,B⟩ = tr(AᵀB)`). -/
theorem natural_adjoint_identity {n : ℕ} (gMu mu : DMat n 1 ℝ) (gSigma : DMat n n ℝ)
    (d1 : Matrix (Fin n) (Fin 1) ℝ) (d2 : Matrix (Fin n) (Fin n) ℝ) (hs : gSigma.toMatrixᵀ = gSigma.toMatrix) :
    (gMu.toMatrixᵀ * d1).trace
        + (gSigma.toMatrixᵀ * (d2 - d1 * mu.toMatrixᵀ - mu.toMatrix * d1ᵀ)).trace
      = ((NaturalGrad.naturalBackward gMu gSigma mu).1.toMatrixᵀ * d1).trace
        + ((NaturalGrad.naturalBackward gMu gSigma mu).2.toMatrixᵀ * d2).trace := by
  simp only [NaturalGrad.naturalBackward, DMat.toMatrix_sub, DMat.toMatrix_smul, DMat.toMatrix_mul,
    Matrix.transpose_sub, Matrix.transpose_smul, Matrix.transpose_mul, Matrix.sub_mul, Matrix.mul_sub,
    Matrix.trace_sub, Matrix.smul_mul, Matrix.trace_smul, hs]
  have h1 : (gSigma.toMatrix * (d1 * mu.toMatrixᵀ)).trace = (mu.toMatrixᵀ * gSigma.toMatrix * d1).trace := by
    rw [← Matrix.mul_assoc, Matrix.trace_mul_comm, ← Matrix.mul_assoc]
  have h2 : (gSigma.toMatrix * (mu.toMatrix * d1ᵀ)).trace = (mu.toMatrixᵀ * gSigma.toMatrix * d1).trace := by
    rw [← Matrix.trace_transpose, Matrix.transpose_mul, Matrix.transpose_mul, Matrix.transpose_transpose, hs,
      Matrix.mul_assoc, Matrix.trace_mul_comm, Matrix.mul_assoc]
  rw [h1, h2]
  simp only [smul_eq_mul]
  ring

/-! ### `_cholesky_backward` is the adjoint of `L ↦ LLᵀ` on lower-triangular directions -/

/-- core of the Φ-formula: against a lower-triangular `M`, `Φ(A) + Φ(A)ᵀ` acts like `A` -/
theorem phi_sym_pairing {n : ℕ} (A : DMat n n ℝ) (M : Matrix (Fin n) (Fin n) ℝ) (hM : ∀ i j, i < j → M i j = 0) :
    (((NaturalGrad.phi A).toMatrix + (NaturalGrad.phi A).toMatrixᵀ)ᵀ * M).trace = (A.toMatrixᵀ * M).trace := by
  have hphi : ∀ i j : Fin n, (NaturalGrad.phi A).toMatrix i j
      = if j.1 < i.1 then A.toMatrix i j else if i = j then A.toMatrix i j / 2 else 0 := by
    intro i j; unfold NaturalGrad.phi; exact congrFun (congrFun (DMat.toMatrix_ofMatrix _) i) j
  simp only [Matrix.trace, Matrix.diag, Matrix.mul_apply, Matrix.transpose_apply, Matrix.add_apply]
  apply Finset.sum_congr rfl
  intro j _
  apply Finset.sum_congr rfl
  intro i _
  rcases lt_trichotomy i j with h | h | h
  · rw [hM i j h, mul_zero, mul_zero]
  · subst h
    rw [hphi i i]
    simp only [lt_self_iff_false, if_false, if_true]
    ring
  · have h1 : ¬ (i.1 < j.1) := by simpa using le_of_lt h
    have h2 : (j.1 < i.1) := h
    have h3 : j ≠ i := ne_of_lt h
    rw [hphi i j, hphi j i]
    simp only [h1, h2, h3, if_true, if_false, add_zero]

/-- **`_cholesky_backward` adjoint identity** (full strength): for lower-triangular `L` with two-sided inverse
`L⁻¹` (lower-triangular), every upstream `dout_dL` and every lower-triangular direction `δL`:
`⟨choleskyBackward, δ(LLᵀ)⟩ = ⟨dout_dL, δL⟩` with `δ(LLᵀ) = δL·Lᵀ + L·δLᵀ`. -/
theorem cholesky_backward_adjoint {n : ℕ} (dout L Linv : DMat n n ℝ) (dL : Matrix (Fin n) (Fin n) ℝ)
    (h1 : Linv.toMatrix * L.toMatrix = 1) (h2 : L.toMatrix * Linv.toMatrix = 1)
    (hLinv : ∀ i j, i < j → Linv.toMatrix i j = 0) (hdL : ∀ i j, i < j → dL i j = 0) :
    ((NaturalGrad.choleskyBackward dout L Linv).toMatrixᵀ * (dL * L.toMatrixᵀ + L.toMatrix * dLᵀ)).trace
      = (dout.toMatrixᵀ * dL).trace := by
  set Lm := L.toMatrix
  set Li := Linv.toMatrix
  set P := (NaturalGrad.phi (L.transpose.mul dout)).toMatrix with hP
  -- M = L⁻¹ δL is lower triangular
  have hM : ∀ i j, i < j → (Li * dL) i j = 0 := by
    intro i j hij
    rw [Matrix.mul_apply]
    apply Finset.sum_eq_zero
    intro k _
    by_cases hk : i < k
    · rw [hLinv i k hk, zero_mul]
    · have : k < j := lt_of_le_of_lt (not_lt.mp hk) hij
      rw [hdL k j this, mul_zero]
  have hcore := phi_sym_pairing (L.transpose.mul dout) (Li * dL) hM
  have hG : (NaturalGrad.choleskyBackward dout L Linv).toMatrix
      = (1 / 2 : ℝ) • (Liᵀ * P * Li + (Liᵀ * P * Li)ᵀ) := by
    simp [NaturalGrad.choleskyBackward, hP, Li]
  have hLT : Lmᵀ * Liᵀ = 1 := by rw [← Matrix.transpose_mul, h1, Matrix.transpose_one]
  -- both halves of δ(LLᵀ) give the same pairing with the symmetric G
  have hsymm : ((Liᵀ * P * Li + (Liᵀ * P * Li)ᵀ)ᵀ * (Lm * dLᵀ)).trace
      = ((Liᵀ * P * Li + (Liᵀ * P * Li)ᵀ)ᵀ * (dL * Lmᵀ)).trace := by
    rw [← Matrix.trace_transpose]
    simp only [Matrix.transpose_mul, Matrix.transpose_add, Matrix.transpose_transpose]
    rw [Matrix.trace_mul_comm]
    congr 1
    rw [add_comm]
  have hX : Lmᵀ * (Liᵀ * P * Li) = P * Li := by
    rw [← Matrix.mul_assoc, ← Matrix.mul_assoc, hLT, Matrix.one_mul]
  have hXt : Lmᵀ * (Liᵀ * P * Li)ᵀ = Pᵀ * Li := by
    rw [Matrix.transpose_mul, Matrix.transpose_mul, Matrix.transpose_transpose, ← Matrix.mul_assoc, hLT,
      Matrix.one_mul]
  have hS : (Liᵀ * P * Li + (Liᵀ * P * Li)ᵀ)ᵀ = Liᵀ * P * Li + (Liᵀ * P * Li)ᵀ := by
    rw [Matrix.transpose_add, Matrix.transpose_transpose, add_comm]
  have hmain : ((Liᵀ * P * Li + (Liᵀ * P * Li)ᵀ)ᵀ * (dL * Lmᵀ)).trace = ((P + Pᵀ)ᵀ * (Li * dL)).trace := by
    calc ((Liᵀ * P * Li + (Liᵀ * P * Li)ᵀ)ᵀ * (dL * Lmᵀ)).trace
        = ((Liᵀ * P * Li + (Liᵀ * P * Li)ᵀ) * dL * Lmᵀ).trace := by
          rw [hS]; exact congrArg Matrix.trace (Matrix.mul_assoc _ _ _).symm
      _ = (Lmᵀ * ((Liᵀ * P * Li + (Liᵀ * P * Li)ᵀ) * dL)).trace := by rw [Matrix.trace_mul_comm]
      _ = ((P * Li + Pᵀ * Li) * dL).trace := by rw [← Matrix.mul_assoc, Matrix.mul_add, hX, hXt]
      _ = ((P + Pᵀ)ᵀ * (Li * dL)).trace := by
          rw [Matrix.transpose_add, Matrix.transpose_transpose, Matrix.add_mul, Matrix.add_mul, Matrix.mul_assoc,
            Matrix.mul_assoc, add_comm]
  rw [hG, Matrix.transpose_smul, Matrix.smul_mul, Matrix.trace_smul, Matrix.mul_add, Matrix.trace_add,
    hsymm, hmain, hcore]
  simp only [DMat.toMatrix_mul, DMat.toMatrix_transpose, Matrix.transpose_mul, Matrix.transpose_transpose, smul_eq_mul]
  rw [Matrix.mul_assoc, ← Matrix.mul_assoc Lm, h2, Matrix.one_mul]
  ring

/-! ### CIQ natural-gradient terms -/

/- Full statement (NOT proved): the triple returned by `_NgdInterpTerms.backward` is the gradient of
   `gm·interp_mean + gv·interp_var + gk·KL` w.r.t. `(interp_term, expec_vec, expec_mat)`.  The KL term needs
   `d log det`, which Mathlib does not provide; it and the `interp_term` gradient are decided by the
   correspondence (autograd of the explicit dense map, finite differences).
   Proved: for the two data terms the returned `(expec_vec_grad, expec_mat_grad)` is the exact first-order part
   of the change — the remainder `−gv (kᵀδm)²` is second order — for all directions `(δm, δE)`. -/
theorem ngd_interp_terms_partial {n : ℕ} (k m dm : DMat n 1 ℝ) (E dE : DMat n n ℝ) (gm gv : ℝ) :
    gm * NaturalGrad.interpMean k (m.add dm) + gv * NaturalGrad.interpVar k (m.add dm) (E.add dE)
      = gm * NaturalGrad.interpMean k m + gv * NaturalGrad.interpVar k m E
        + ((NaturalGrad.ngdExpecGrads k m gm gv).1.toMatrixᵀ * dm.toMatrix).trace
        + ((NaturalGrad.ngdExpecGrads k m gm gv).2.toMatrixᵀ * dE.toMatrix).trace
        - gv * (NaturalGrad.interpMean k dm) ^ 2 := by
  simp only [NaturalGrad.interpMean, NaturalGrad.interpVar, NaturalGrad.ngdExpecGrads, DMat.trace,
    DMat.toMatrix_mul, DMat.toMatrix_add, DMat.toMatrix_transpose, DMat.toMatrix_smul, Matrix.mul_add, Matrix.add_mul,
    Matrix.trace_add, Matrix.transpose_add, Matrix.transpose_smul, Matrix.smul_mul, Matrix.trace_smul,
    Matrix.transpose_mul, Matrix.transpose_transpose, smul_eq_mul]
  have hc : (k.toMatrix * k.toMatrixᵀ * dE.toMatrix).trace = (k.toMatrixᵀ * (dE.toMatrix * k.toMatrix)).trace := by
    rw [Matrix.mul_assoc, Matrix.trace_mul_comm, Matrix.mul_assoc]
  rw [hc]
  ring

/-- **adjoint identity for the `interp_term` gradient**: for symmetric `S`, every direction `δk`,
`gm·(k+δk)ᵀm + gv·(k+δk)ᵀS(k+δk) = gm·kᵀm + gv·kᵀSk + ⟨2gv·Sk + gm·m, δk⟩ + gv·δkᵀSδk` — the returned
`interp_term_grad` is the exact first-order part.  (That `s_times_interp_term = S k`, `expec_vec = m` is the
contract of `linear_cg`; the KL term does not depend on `interp_term`.) -/
theorem ngd_interp_term_adjoint {n : ℕ} (S : DMat n n ℝ) (k dk m : DMat n 1 ℝ) (gm gv : ℝ)
    (hS : S.toMatrixᵀ = S.toMatrix) :
    gm * NaturalGrad.interpMean (k.add dk) m + gv * NaturalGrad.interpVarS S (k.add dk)
      = gm * NaturalGrad.interpMean k m + gv * NaturalGrad.interpVarS S k
        + ((NaturalGrad.ngdInterpTermGrad S k m gm gv).toMatrixᵀ * dk.toMatrix).trace
        + gv * NaturalGrad.interpVarS S dk := by
  simp only [NaturalGrad.interpMean, NaturalGrad.interpVarS, NaturalGrad.ngdInterpTermGrad, DMat.trace,
    DMat.toMatrix_mul, DMat.toMatrix_add, DMat.toMatrix_transpose, DMat.toMatrix_smul, Matrix.mul_add, Matrix.add_mul,
    Matrix.trace_add, Matrix.transpose_add, Matrix.transpose_smul, Matrix.smul_mul, Matrix.trace_smul,
    Matrix.transpose_mul, hS, smul_eq_mul]
  have h1 : (dk.toMatrixᵀ * (S.toMatrix * k.toMatrix)).trace = (k.toMatrixᵀ * (S.toMatrix * dk.toMatrix)).trace := by
    rw [← Matrix.trace_transpose, Matrix.transpose_mul, Matrix.transpose_mul, Matrix.transpose_transpose, hS,
      Matrix.mul_assoc]
  have h2 : (m.toMatrixᵀ * dk.toMatrix).trace = (dk.toMatrixᵀ * m.toMatrix).trace := by
    rw [← Matrix.trace_transpose, Matrix.transpose_mul, Matrix.transpose_transpose]
  have h3 : (k.toMatrixᵀ * S.toMatrix * dk.toMatrix).trace = (k.toMatrixᵀ * (S.toMatrix * dk.toMatrix)).trace := by
    rw [Matrix.mul_assoc]
  rw [h1, h2, h3]
  ring

/-! ### LogNormalCDF -/

/- Full statement (NOT proved): `LogNormalCDF.backward` is the derivative of the function `forward` computes,
   on all three branches.  The forward uses rational / polynomial approximations of `log Φ` whose accuracy
   (and hence the relation of their exact derivative to `φ/Φ`) is outside Mathlib; decided by the correspondence
   against mpmath (relative 2e-3 as the property says).
   Proved: on the `z ≥ −1` branch the backward expression `exp(−z²/2 − log Φ(z) + log ½)·√(2/π)` is the
   derivative of `log ∘ Φ` for ANY differentiable `Φ > 0` with `Φ' = φ` (standard normal density). -/
theorem lncdf_backward_partial (Φ : ℝ → ℝ) (z : ℝ)
    (hΦ : HasDerivAt Φ (Real.exp (-(z ^ 2) / 2) / Real.sqrt (2 * Real.pi)) z) (hpos : 0 < Φ z) :
    HasDerivAt (fun x => Real.log (Φ x))
      (Real.exp (-(z ^ 2) / 2 - Real.log (Φ z) + Real.log (1 / 2)) * Real.sqrt (2 / Real.pi)) z := by
  refine (hΦ.log (ne_of_gt hpos)).congr_deriv ?_
  rw [Real.exp_add, Real.exp_sub, Real.exp_log hpos, Real.exp_log (by norm_num : (0 : ℝ) < 1 / 2)]
  have hpi : 0 < Real.pi := Real.pi_pos
  have h2 : Real.sqrt (2 * Real.pi) = Real.sqrt 2 * Real.sqrt Real.pi := Real.sqrt_mul (by norm_num) _
  have h3 : Real.sqrt (2 / Real.pi) = Real.sqrt 2 / Real.sqrt Real.pi := Real.sqrt_div (by norm_num) _
  have h4 : Real.sqrt 2 * Real.sqrt 2 = 2 := Real.mul_self_sqrt (by norm_num)
  have hs2 : 0 < Real.sqrt 2 := Real.sqrt_pos.mpr (by norm_num)
  have hsp : 0 < Real.sqrt Real.pi := Real.sqrt_pos.mpr hpi
  rw [h2, h3]
  field_simp
  rw [pow_two, h4]

/-- the `z < −1` branch in the same (ideal) sense: if `Φ(z) = ½·e·exp(−z²/2)` with `e > 0` — `e` is what the
rational approximation `numerator/denominator` stands for — then the backward expression `|1/e|·√(2/π)`
(`|denominator/numerator|·√(2/π)`) is the derivative of `log ∘ Φ`.
NOT provable (it is false): that this equals the derivative of the *computed* term `log(N(z)/D(z)/2) − z²/2`,
which is `N'/N − D'/D − z`; the two differ by the approximation error (measured 1e-4 relative at z = −2, 8e-4 at
−1.5, 7e-3 next to −1; see docs/C19.md). -/
theorem lncdf_backward_small_branch_partial (Φ : ℝ → ℝ) (z e : ℝ) (he : 0 < e)
    (hval : Φ z = e / 2 * Real.exp (-(z ^ 2) / 2))
    (hΦ : HasDerivAt Φ (Real.exp (-(z ^ 2) / 2) / Real.sqrt (2 * Real.pi)) z) :
    HasDerivAt (fun x => Real.log (Φ x)) (|1 / e| * Real.sqrt (2 / Real.pi)) z := by
  have hpos : 0 < Φ z := by rw [hval]; positivity
  refine (hΦ.log (ne_of_gt hpos)).congr_deriv ?_
  rw [hval, abs_of_pos (by positivity)]
  have hpi : 0 < Real.pi := Real.pi_pos
  have h2 : Real.sqrt (2 * Real.pi) = Real.sqrt 2 * Real.sqrt Real.pi := Real.sqrt_mul (by norm_num) _
  have h3 : Real.sqrt (2 / Real.pi) = Real.sqrt 2 / Real.sqrt Real.pi := Real.sqrt_div (by norm_num) _
  have h4 : Real.sqrt 2 * Real.sqrt 2 = 2 := Real.mul_self_sqrt (by norm_num)
  have hs2 : 0 < Real.sqrt 2 := Real.sqrt_pos.mpr (by norm_num)
  have hsp : 0 < Real.sqrt Real.pi := Real.sqrt_pos.mpr hpi
  have hex : 0 < Real.exp (-(z ^ 2) / 2) := Real.exp_pos _
  rw [h2, h3]
  field_simp
  rw [pow_two, h4]

/-! ### non-vacuity -/

example : ∃ ℓ : ℝ, ℓ ≠ 0 ∧ HasDerivAt (fun l : ℝ => (2 : ℝ) * rbfFwdGradOut sqDist [0, 1] [0, 1] l)
    (rbfBwd 2 (rbfFwdGradSaved sqDist [0, 1] [0, 1] ℓ)) ℓ :=
  ⟨-3, by norm_num, rbf_backward_hasDerivAt [0, 1] [0, 1] 2 (-3) (by norm_num)⟩   -- coincident rows, ℓ < 0

example : ∃ (L Li : DMat 1 1 ℝ), Li.toMatrix * L.toMatrix = 1 ∧ L.toMatrix * Li.toMatrix = 1 :=
  ⟨DMat.ofMatrix !![2], DMat.ofMatrix !![1 / 2], by ext i j; fin_cases i; fin_cases j; simp [Matrix.mul_apply],
    by ext i j; fin_cases i; fin_cases j; simp [Matrix.mul_apply]⟩

end C19

/-
C19 — hand-written derivatives are the true derivatives.

Kernel part: the forward terms and the saved `d_output_d_input` terms are the G5-generated definitions of
`Gen/Formulas.lean` (regenerated from `gpytorch/functions/{rbf,matern}_covariance.py` on every run), with
the distance callback instantiated by the Euclidean (squared) distance of `Model/Scalar.lean`.  Each theorem
says: for every pair of rows, every centre `m`, every upstream factor `go`, every `ℓ ≠ 0` — including
coincident rows (distance 0) — the map `ℓ ↦ go · forward(ℓ)` has derivative `backward(go, saved(ℓ))`.

Linear-algebra part: `_NaturalToMuVarSqrt._backward` returns the gradient w.r.t. the expectation parameters
(`natural_adjoint_identity`, `cholesky_backward_adjoint`, chained in `natural_backward_expectation_gradient`), the
second output of `_TrilNaturalToMuVarSqrt.backward` is the tangent of `θ ↦ C` (`tril_backward_tangent`,
`tril_backward_is_derivative`), and all three outputs of `_NgdInterpTerms.backward` — the KL terms included, through
Jacobi's formula of `Bridge/NgdMatrix.lean` — are the derivatives of the objective the forward stands for
(`ngd_backward_expec_hasDerivAt`, `ngd_backward_interp_hasDerivAt`, `ngd_backward_kl_hasDerivAt`).  Since wave 3 these
statements are about the definitions REGENERATED from the Python source (`Gen/NaturalGrad.lean`, translator
`g5_natgrad`), tied to the hand-written model by the `gen_*` theorems.

`*_partial` items (see docs/C19.md): `ngd_interp_terms_partial` (kept: exact second-order expansion of the two data
terms for one data point; superseded by the full-strength theorems above), LogNormalCDF (chain-rule form only; the
rational approximations by correspondence).
-/
import Mathlib.Analysis.SpecialFunctions.Log.Deriv
import Mathlib.LinearAlgebra.Matrix.Trace
import GPVerif.Bridge.KernelCalc
import GPVerif.Gen.Formulas
import GPVerif.Model.Kernels
import GPVerif.Model.NaturalGrad
import GPVerif.Bridge.FastPath
import GPVerif.Gen.NaturalGrad
import GPVerif.Bridge.NatGradGen
import GPVerif.Bridge.NgdKL
import GPVerif.Bridge.TrilTangent
import GPVerif.Bridge.GradKernels


namespace C19
open Scalar Gen.Formulas

/-! ### RBFCovariance / MaternCovariance -/

theorem rbf_backward_hasDerivAt (x1 x2 : List ℝ) (go ℓ : ℝ) (hℓ : ℓ ≠ 0) :
    HasDerivAt (fun l : ℝ => go * rbfFwdGradOut sqDist x1 x2 l)
      (rbfBwd go (rbfFwdGradSaved sqDist x1 x2 ℓ)) ℓ := by
  simp only [rbfFwdGradOut, rbfFwdGradSaved, rbfBwd, sqDist_rowDivS, exp_real, lit_real]
  set D := sqDist x1 x2
  have hp : HasDerivAt (fun l : ℝ => l ^ 2) (2 * ℓ) ℓ :=
    (hasDerivAt_pow (n := 2) ℓ).congr_deriv (by norm_num)
  have hinv : HasDerivAt (fun l : ℝ => (l ^ 2)⁻¹) (-(2 * ℓ) / (ℓ ^ 2) ^ 2) ℓ := hp.inv (pow_ne_zero 2 hℓ)
  have h1 : HasDerivAt (fun l : ℝ => D / l ^ 2 / ((-2 : ℚ) : ℝ)) ((D / ℓ ^ 2) / ℓ) ℓ := by
    have h := ((hinv.const_mul D)).div_const (((-2 : ℚ)) : ℝ)
    have e : (fun l : ℝ => D / l ^ 2 / ((-2 : ℚ) : ℝ)) = fun l => (D * (l ^ 2)⁻¹) / ((-2 : ℚ) : ℝ) := by
      funext l; rw [div_eq_mul_inv D]
    rw [e]
    refine h.congr_deriv ?_
    push_cast; field_simp
  exact (h1.exp.const_mul go).congr_deriv (by ring)

theorem matern12_backward_hasDerivAt (x1 x2 m : List ℝ) (go ℓ : ℝ) (hℓ : ℓ ≠ 0) :
    HasDerivAt (fun l : ℝ => go * matern12FwdGradOut dist x1 x2 m l)
      (maternBwd go (matern12FwdGradSaved dist x1 x2 m ℓ)) ℓ := by
  simp only [matern12FwdGradOut, matern12FwdGradSaved, maternBwd, exp_real]
  have hs := hasDerivAt_scaledDist x1 x2 m (sqrt (lit (1 : ℚ))) ℓ hℓ
  exact (hs.neg.exp.const_mul go).congr_deriv (by simp only [Pi.neg_apply]; ring)

theorem matern32_backward_hasDerivAt (x1 x2 m : List ℝ) (go ℓ : ℝ) (hℓ : ℓ ≠ 0) :
    HasDerivAt (fun l : ℝ => go * matern32FwdGradOut dist x1 x2 m l)
      (maternBwd go (matern32FwdGradSaved dist x1 x2 m ℓ)) ℓ := by
  simp only [matern32FwdGradOut, matern32FwdGradSaved, maternBwd, exp_real, npow_real]
  have hs := hasDerivAt_scaledDist x1 x2 m (sqrt (lit (3 : ℚ))) ℓ hℓ
  exact (((hs.add_const _).mul hs.neg.exp).const_mul go).congr_deriv
    (by simp only [Pi.neg_apply, lit_real]; push_cast; ring)

theorem matern52_backward_hasDerivAt (x1 x2 m : List ℝ) (go ℓ : ℝ) (hℓ : ℓ ≠ 0) :
    HasDerivAt (fun l : ℝ => go * matern52FwdGradOut dist x1 x2 m l)
      (maternBwd go (matern52FwdGradSaved dist x1 x2 m ℓ)) ℓ := by
  simp only [matern52FwdGradOut, matern52FwdGradSaved, maternBwd, exp_real, npow_real]
  have hs := hasDerivAt_scaledDist x1 x2 m (sqrt (lit (5 : ℚ))) ℓ hℓ
  exact ((((hs.add_const _).add ((hs.pow 2).div_const _)).mul hs.neg.exp).const_mul go).congr_deriv
    (by simp only [Pi.neg_apply, Pi.add_apply, Pi.pow_apply, lit_real]; push_cast; ring)

/-! ### fast path and generic path: same value, hence same hyperparameter gradient -/

/-- RBF: generated fast-path term = generic-path `Impl` (both are the documented `Spec`, C05) -/
theorem fast_eq_generic_value_rbf (a b c : List ℝ) (l : ℝ) (hb : b.length = a.length) (hc : c.length = a.length) :
    rbfFwdGradOut sqDist a b l
      = Kernels.rbfImpl (List.replicate a.length l) (rowDiv c (List.replicate a.length l)) a b := by
  rw [(FastPath.rbf_fast_eq_spec a b l).1, FastPath.rbf_generic_eq_spec _ c a b (by simp) (by simp [hb]) (by simp [hc])]

/-- Matérn (ν = 1/2, 3/2, 5/2): generated fast-path term = generic-path `Impl` -/
theorem fast_eq_generic_value_matern (a b m c : List ℝ) (l : ℝ)
    (ha : a.length = m.length) (hb : b.length = m.length) (hac : a.length = c.length) (hbc : b.length = c.length) :
    matern12FwdGradOut Scalar.dist a b m l = Kernels.maternImpl 1 (List.replicate a.length l) c a b ∧
    matern32FwdGradOut Scalar.dist a b m l = Kernels.maternImpl 3 (List.replicate a.length l) c a b ∧
    matern52FwdGradOut Scalar.dist a b m l = Kernels.maternImpl 5 (List.replicate a.length l) c a b := by
  refine ⟨?_, ?_, ?_⟩
  · rw [(FastPath.matern12_fast_eq_spec a b m l ha hb).1, FastPath.matern_generic_eq_spec 1 _ c a b hac hbc]
  · rw [(FastPath.matern32_fast_eq_spec a b m l ha hb).1, FastPath.matern_generic_eq_spec 3 _ c a b hac hbc]
  · rw [(FastPath.matern52_fast_eq_spec a b m l ha hb).1, FastPath.matern_generic_eq_spec 5 _ c a b hac hbc]

/-- …hence the generic path, differentiated in the lengthscale, has the derivative the fast path's backward
delivers (stated for RBF; autograd differentiates the generic path, the theorem says what it must find). -/
theorem fast_generic_equal_gradients_rbf (a b c : List ℝ) (go ℓ : ℝ) (hℓ : ℓ ≠ 0)
    (hb : b.length = a.length) (hc : c.length = a.length) :
    HasDerivAt (fun l : ℝ => go * Kernels.rbfImpl (List.replicate a.length l) (rowDiv c (List.replicate a.length l)) a b)
      (rbfBwd go (rbfFwdGradSaved sqDist a b ℓ)) ℓ := by
  have e : (fun l : ℝ => go * Kernels.rbfImpl (List.replicate a.length l) (rowDiv c (List.replicate a.length l)) a b)
      = fun l : ℝ => go * rbfFwdGradOut sqDist a b l := by
    funext l; rw [fast_eq_generic_value_rbf a b c l hb hc]
  rw [e]
  exact rbf_backward_hasDerivAt a b go ℓ hℓ

theorem fast_generic_equal_gradients_matern52 (a b m c : List ℝ) (go ℓ : ℝ) (hℓ : ℓ ≠ 0)
    (ha : a.length = m.length) (hb : b.length = m.length) (hac : a.length = c.length) (hbc : b.length = c.length) :
    HasDerivAt (fun l : ℝ => go * Kernels.maternImpl 5 (List.replicate a.length l) c a b)
      (maternBwd go (matern52FwdGradSaved Scalar.dist a b m ℓ)) ℓ := by
  have e : (fun l : ℝ => go * Kernels.maternImpl 5 (List.replicate a.length l) c a b)
      = fun l : ℝ => go * matern52FwdGradOut Scalar.dist a b m l := by
    funext l; rw [(fast_eq_generic_value_matern a b m c l ha hb hac hbc).2.2]
  rw [e]
  exact matern52_backward_hasDerivAt a b m go ℓ hℓ

/-! ### natural parameterisation: the returned pair is the gradient w.r.t. the expectation parameters -/

open Matrix

/-- **Adjoint identity.**  Expectation parameters `(η₁, η₂) = (μ, Σ + μμᵀ)`, i.e. `(μ, Σ) = (η₁, η₂ − η₁η₁ᵀ)`,
whose differential in direction `(δ₁, δ₂)` is `(δμ, δΣ) = (δ₁, δ₂ − δ₁μᵀ − μδ₁ᵀ)`.  For the pair returned by
`_NaturalToMuVarSqrt._backward` (model: `NaturalGrad.naturalBackward`), every symmetric `g_Σ`, every direction:
`⟨g_μ, δμ⟩ + ⟨g_Σ, δΣ⟩ = ⟨dout_deta1, δ₁⟩ + ⟨dout_deta2, δ₂⟩` (`⟨A,B⟩ = tr(AᵀB)`). -/
theorem natural_adjoint_identity {n : ℕ} (gMu mu : DMat n 1 ℝ) (gSigma : DMat n n ℝ)
    (d1 : Matrix (Fin n) (Fin 1) ℝ) (d2 : Matrix (Fin n) (Fin n) ℝ) (hs : gSigma.toMatrixᵀ = gSigma.toMatrix) :
    (gMu.toMatrixᵀ * d1).trace
        + (gSigma.toMatrixᵀ * (d2 - d1 * mu.toMatrixᵀ - mu.toMatrix * d1ᵀ)).trace
      = ((NaturalGrad.naturalBackward gMu gSigma mu).1.toMatrixᵀ * d1).trace
        + ((NaturalGrad.naturalBackward gMu gSigma mu).2.toMatrixᵀ * d2).trace := by
  simp only [NaturalGrad.naturalBackward, DMat.toMatrix_sub, DMat.toMatrix_smul, DMat.toMatrix_mul,
    Matrix.transpose_sub, Matrix.transpose_smul, Matrix.transpose_mul, Matrix.sub_mul, Matrix.mul_sub,
    Matrix.trace_sub, Matrix.smul_mul, Matrix.trace_smul, hs]
  have h1 : (gSigma.toMatrix * (d1 * mu.toMatrixᵀ)).trace = (mu.toMatrixᵀ * gSigma.toMatrix * d1).trace := by
    rw [← Matrix.mul_assoc, Matrix.trace_mul_comm, ← Matrix.mul_assoc]
  have h2 : (gSigma.toMatrix * (mu.toMatrix * d1ᵀ)).trace = (mu.toMatrixᵀ * gSigma.toMatrix * d1).trace := by
    rw [← Matrix.trace_transpose, Matrix.transpose_mul, Matrix.transpose_mul, Matrix.transpose_transpose, hs,
      Matrix.mul_assoc, Matrix.trace_mul_comm, Matrix.mul_assoc]
  rw [h1, h2]
  simp only [smul_eq_mul]
  ring

/-! ### `_cholesky_backward` is the adjoint of `L ↦ LLᵀ` on lower-triangular directions -/

/-- core of the Φ-formula: against a lower-triangular `M`, `Φ(A) + Φ(A)ᵀ` acts like `A` -/
theorem phi_sym_pairing {n : ℕ} (A : DMat n n ℝ) (M : Matrix (Fin n) (Fin n) ℝ) (hM : ∀ i j, i < j → M i j = 0) :
    (((NaturalGrad.phi A).toMatrix + (NaturalGrad.phi A).toMatrixᵀ)ᵀ * M).trace = (A.toMatrixᵀ * M).trace := by
  have hphi : ∀ i j : Fin n, (NaturalGrad.phi A).toMatrix i j
      = if j.1 < i.1 then A.toMatrix i j else if i = j then A.toMatrix i j / 2 else 0 := by
    intro i j; unfold NaturalGrad.phi; exact congrFun (congrFun (DMat.toMatrix_ofMatrix _) i) j
  simp only [Matrix.trace, Matrix.diag, Matrix.mul_apply, Matrix.transpose_apply, Matrix.add_apply]
  apply Finset.sum_congr rfl
  intro j _
  apply Finset.sum_congr rfl
  intro i _
  rcases lt_trichotomy i j with h | h | h
  · rw [hM i j h, mul_zero, mul_zero]
  · subst h
    rw [hphi i i]
    simp only [lt_self_iff_false, if_false, if_true]
    ring
  · have h1 : ¬ (i.1 < j.1) := by simpa using le_of_lt h
    have h2 : (j.1 < i.1) := h
    have h3 : j ≠ i := ne_of_lt h
    rw [hphi i j, hphi j i]
    simp only [h1, h2, h3, if_true, if_false, add_zero]

/-- **`_cholesky_backward` adjoint identity** (full strength): for lower-triangular `L` with two-sided inverse
`L⁻¹` (lower-triangular), every upstream `dout_dL` and every lower-triangular direction `δL`:
`⟨choleskyBackward, δ(LLᵀ)⟩ = ⟨dout_dL, δL⟩` with `δ(LLᵀ) = δL·Lᵀ + L·δLᵀ`. -/
theorem cholesky_backward_adjoint {n : ℕ} (dout L Linv : DMat n n ℝ) (dL : Matrix (Fin n) (Fin n) ℝ)
    (h1 : Linv.toMatrix * L.toMatrix = 1) (h2 : L.toMatrix * Linv.toMatrix = 1)
    (hLinv : ∀ i j, i < j → Linv.toMatrix i j = 0) (hdL : ∀ i j, i < j → dL i j = 0) :
    ((NaturalGrad.choleskyBackward dout L Linv).toMatrixᵀ * (dL * L.toMatrixᵀ + L.toMatrix * dLᵀ)).trace
      = (dout.toMatrixᵀ * dL).trace := by
  set Lm := L.toMatrix
  set Li := Linv.toMatrix
  set P := (NaturalGrad.phi (L.transpose.mul dout)).toMatrix with hP
  -- M = L⁻¹ δL is lower triangular
  have hM : ∀ i j, i < j → (Li * dL) i j = 0 := by
    intro i j hij
    rw [Matrix.mul_apply]
    apply Finset.sum_eq_zero
    intro k _
    by_cases hk : i < k
    · rw [hLinv i k hk, zero_mul]
    · have : k < j := lt_of_le_of_lt (not_lt.mp hk) hij
      rw [hdL k j this, mul_zero]
  have hcore := phi_sym_pairing (L.transpose.mul dout) (Li * dL) hM
  have hG : (NaturalGrad.choleskyBackward dout L Linv).toMatrix
      = (1 / 2 : ℝ) • (Liᵀ * P * Li + (Liᵀ * P * Li)ᵀ) := by
    simp [NaturalGrad.choleskyBackward, hP, Li]
  have hLT : Lmᵀ * Liᵀ = 1 := by rw [← Matrix.transpose_mul, h1, Matrix.transpose_one]
  -- both halves of δ(LLᵀ) give the same pairing with the symmetric G
  have hsymm : ((Liᵀ * P * Li + (Liᵀ * P * Li)ᵀ)ᵀ * (Lm * dLᵀ)).trace
      = ((Liᵀ * P * Li + (Liᵀ * P * Li)ᵀ)ᵀ * (dL * Lmᵀ)).trace := by
    rw [← Matrix.trace_transpose]
    simp only [Matrix.transpose_mul, Matrix.transpose_add, Matrix.transpose_transpose]
    rw [Matrix.trace_mul_comm]
    congr 1
    rw [add_comm]
  have hX : Lmᵀ * (Liᵀ * P * Li) = P * Li := by
    rw [← Matrix.mul_assoc, ← Matrix.mul_assoc, hLT, Matrix.one_mul]
  have hXt : Lmᵀ * (Liᵀ * P * Li)ᵀ = Pᵀ * Li := by
    rw [Matrix.transpose_mul, Matrix.transpose_mul, Matrix.transpose_transpose, ← Matrix.mul_assoc, hLT,
      Matrix.one_mul]
  have hS : (Liᵀ * P * Li + (Liᵀ * P * Li)ᵀ)ᵀ = Liᵀ * P * Li + (Liᵀ * P * Li)ᵀ := by
    rw [Matrix.transpose_add, Matrix.transpose_transpose, add_comm]
  have hmain : ((Liᵀ * P * Li + (Liᵀ * P * Li)ᵀ)ᵀ * (dL * Lmᵀ)).trace = ((P + Pᵀ)ᵀ * (Li * dL)).trace := by
    calc ((Liᵀ * P * Li + (Liᵀ * P * Li)ᵀ)ᵀ * (dL * Lmᵀ)).trace
        = ((Liᵀ * P * Li + (Liᵀ * P * Li)ᵀ) * dL * Lmᵀ).trace := by
          rw [hS]; exact congrArg Matrix.trace (Matrix.mul_assoc _ _ _).symm
      _ = (Lmᵀ * ((Liᵀ * P * Li + (Liᵀ * P * Li)ᵀ) * dL)).trace := by rw [Matrix.trace_mul_comm]
      _ = ((P * Li + Pᵀ * Li) * dL).trace := by rw [← Matrix.mul_assoc, Matrix.mul_add, hX, hXt]
      _ = ((P + Pᵀ)ᵀ * (Li * dL)).trace := by
          rw [Matrix.transpose_add, Matrix.transpose_transpose, Matrix.add_mul, Matrix.add_mul, Matrix.mul_assoc,
            Matrix.mul_assoc, add_comm]
  rw [hG, Matrix.transpose_smul, Matrix.smul_mul, Matrix.trace_smul, Matrix.mul_add, Matrix.trace_add,
    hsymm, hmain, hcore]
  simp only [DMat.toMatrix_mul, DMat.toMatrix_transpose, Matrix.transpose_mul, Matrix.transpose_transpose, smul_eq_mul]
  rw [Matrix.mul_assoc, ← Matrix.mul_assoc Lm, h2, Matrix.one_mul]
  ring

/-! ### CIQ natural-gradient terms -/

/- Wave-2 form, kept: for ONE data point and the two data terms the returned `(expec_vec_grad, expec_mat_grad)` is the
   exact first-order part of the change — the remainder `−gv (kᵀδm)²` is second order — for all directions `(δm, δE)`.
   The full statement (all data points, all three outputs, the KL term `½(−log det(E − mmᵀ) + tr E − n)` through
   Jacobi's formula) is proved below about the regenerated code: `ngd_backward_expec_hasDerivAt`,
   `ngd_backward_interp_hasDerivAt`, `ngd_backward_kl_hasDerivAt`; this theorem is the `d = 1`, `gk = 0` data part of
   the first, with the explicit remainder. -/
theorem ngd_interp_terms_partial {n : ℕ} (k m dm : DMat n 1 ℝ) (E dE : DMat n n ℝ) (gm gv : ℝ) :
    gm * NaturalGrad.interpMean k (m.add dm) + gv * NaturalGrad.interpVar k (m.add dm) (E.add dE)
      = gm * NaturalGrad.interpMean k m + gv * NaturalGrad.interpVar k m E
        + ((NaturalGrad.ngdExpecGrads k m gm gv).1.toMatrixᵀ * dm.toMatrix).trace
        + ((NaturalGrad.ngdExpecGrads k m gm gv).2.toMatrixᵀ * dE.toMatrix).trace
        - gv * (NaturalGrad.interpMean k dm) ^ 2 := by
  simp only [NaturalGrad.interpMean, NaturalGrad.interpVar, NaturalGrad.ngdExpecGrads, DMat.trace,
    DMat.toMatrix_mul, DMat.toMatrix_add, DMat.toMatrix_transpose, DMat.toMatrix_smul, Matrix.mul_add, Matrix.add_mul,
    Matrix.trace_add, Matrix.transpose_add, Matrix.transpose_smul, Matrix.smul_mul, Matrix.trace_smul,
    Matrix.transpose_mul, Matrix.transpose_transpose, smul_eq_mul]
  have hc : (k.toMatrix * k.toMatrixᵀ * dE.toMatrix).trace = (k.toMatrixᵀ * (dE.toMatrix * k.toMatrix)).trace := by
    rw [Matrix.mul_assoc, Matrix.trace_mul_comm, Matrix.mul_assoc]
  rw [hc]
  ring

/-- **adjoint identity for the `interp_term` gradient**: for symmetric `S`, every direction `δk`,
`gm·(k+δk)ᵀm + gv·(k+δk)ᵀS(k+δk) = gm·kᵀm + gv·kᵀSk + ⟨2gv·Sk + gm·m, δk⟩ + gv·δkᵀSδk` — the returned
`interp_term_grad` is the exact first-order part.  (That `s_times_interp_term = S k`, `expec_vec = m` is the
contract of `linear_cg`; the KL term does not depend on `interp_term`.) -/
theorem ngd_interp_term_adjoint {n : ℕ} (S : DMat n n ℝ) (k dk m : DMat n 1 ℝ) (gm gv : ℝ)
    (hS : S.toMatrixᵀ = S.toMatrix) :
    gm * NaturalGrad.interpMean (k.add dk) m + gv * NaturalGrad.interpVarS S (k.add dk)
      = gm * NaturalGrad.interpMean k m + gv * NaturalGrad.interpVarS S k
        + ((NaturalGrad.ngdInterpTermGrad S k m gm gv).toMatrixᵀ * dk.toMatrix).trace
        + gv * NaturalGrad.interpVarS S dk := by
  simp only [NaturalGrad.interpMean, NaturalGrad.interpVarS, NaturalGrad.ngdInterpTermGrad, DMat.trace,
    DMat.toMatrix_mul, DMat.toMatrix_add, DMat.toMatrix_transpose, DMat.toMatrix_smul, Matrix.mul_add, Matrix.add_mul,
    Matrix.trace_add, Matrix.transpose_add, Matrix.transpose_smul, Matrix.smul_mul, Matrix.trace_smul,
    Matrix.transpose_mul, hS, smul_eq_mul]
  have h1 : (dk.toMatrixᵀ * (S.toMatrix * k.toMatrix)).trace = (k.toMatrixᵀ * (S.toMatrix * dk.toMatrix)).trace := by
    rw [← Matrix.trace_transpose, Matrix.transpose_mul, Matrix.transpose_mul, Matrix.transpose_transpose, hS,
      Matrix.mul_assoc]
  have h2 : (m.toMatrixᵀ * dk.toMatrix).trace = (dk.toMatrixᵀ * m.toMatrix).trace := by
    rw [← Matrix.trace_transpose, Matrix.transpose_mul, Matrix.transpose_transpose]
  have h3 : (k.toMatrixᵀ * S.toMatrix * dk.toMatrix).trace = (k.toMatrixᵀ * (S.toMatrix * dk.toMatrix)).trace := by
    rw [Matrix.mul_assoc]
  rw [h1, h2, h3]
  ring

/-! ### LogNormalCDF -/

/- Full statement (NOT proved): `LogNormalCDF.backward` is the derivative of the function `forward` computes,
   on all three branches.  The forward uses rational / polynomial approximations of `log Φ` whose accuracy
   (and hence the relation of their exact derivative to `φ/Φ`) is outside Mathlib; decided by the correspondence
   against mpmath (relative 2e-3 as the property says).
   Proved: on the `z ≥ −1` branch the backward expression `exp(−z²/2 − log Φ(z) + log ½)·√(2/π)` is the
   derivative of `log ∘ Φ` for ANY differentiable `Φ > 0` with `Φ' = φ` (standard normal density). -/
theorem lncdf_backward_partial (Φ : ℝ → ℝ) (z : ℝ)
    (hΦ : HasDerivAt Φ (Real.exp (-(z ^ 2) / 2) / Real.sqrt (2 * Real.pi)) z) (hpos : 0 < Φ z) :
    HasDerivAt (fun x => Real.log (Φ x))
      (Real.exp (-(z ^ 2) / 2 - Real.log (Φ z) + Real.log (1 / 2)) * Real.sqrt (2 / Real.pi)) z := by
  refine (hΦ.log (ne_of_gt hpos)).congr_deriv ?_
  rw [Real.exp_add, Real.exp_sub, Real.exp_log hpos, Real.exp_log (by norm_num : (0 : ℝ) < 1 / 2)]
  have hpi : 0 < Real.pi := Real.pi_pos
  have h2 : Real.sqrt (2 * Real.pi) = Real.sqrt 2 * Real.sqrt Real.pi := Real.sqrt_mul (by norm_num) _
  have h3 : Real.sqrt (2 / Real.pi) = Real.sqrt 2 / Real.sqrt Real.pi := Real.sqrt_div (by norm_num) _
  have h4 : Real.sqrt 2 * Real.sqrt 2 = 2 := Real.mul_self_sqrt (by norm_num)
  have hs2 : 0 < Real.sqrt 2 := Real.sqrt_pos.mpr (by norm_num)
  have hsp : 0 < Real.sqrt Real.pi := Real.sqrt_pos.mpr hpi
  rw [h2, h3]
  field_simp
  rw [pow_two, h4]

/-- the `z < −1` branch in the same (ideal) sense: if `Φ(z) = ½·e·exp(−z²/2)` with `e > 0` — `e` is what the
rational approximation `numerator/denominator` stands for — then the backward expression `|1/e|·√(2/π)`
(`|denominator/numerator|·√(2/π)`) is the derivative of `log ∘ Φ`.
NOT provable (it is false): that this equals the derivative of the *computed* term `log(N(z)/D(z)/2) − z²/2`,
which is `N'/N − D'/D − z`; the two differ by the approximation error (measured 1e-4 relative at z = −2, 8e-4 at
−1.5, 7e-3 next to −1; see docs/C19.md). -/
theorem lncdf_backward_small_branch_partial (Φ : ℝ → ℝ) (z e : ℝ) (he : 0 < e)
    (hval : Φ z = e / 2 * Real.exp (-(z ^ 2) / 2))
    (hΦ : HasDerivAt Φ (Real.exp (-(z ^ 2) / 2) / Real.sqrt (2 * Real.pi)) z) :
    HasDerivAt (fun x => Real.log (Φ x)) (|1 / e| * Real.sqrt (2 / Real.pi)) z := by
  have hpos : 0 < Φ z := by rw [hval]; positivity
  refine (hΦ.log (ne_of_gt hpos)).congr_deriv ?_
  rw [hval, abs_of_pos (by positivity)]
  have hpi : 0 < Real.pi := Real.pi_pos
  have h2 : Real.sqrt (2 * Real.pi) = Real.sqrt 2 * Real.sqrt Real.pi := Real.sqrt_mul (by norm_num) _
  have h3 : Real.sqrt (2 / Real.pi) = Real.sqrt 2 / Real.sqrt Real.pi := Real.sqrt_div (by norm_num) _
  have h4 : Real.sqrt 2 * Real.sqrt 2 = 2 := Real.mul_self_sqrt (by norm_num)
  have hs2 : 0 < Real.sqrt 2 := Real.sqrt_pos.mpr (by norm_num)
  have hsp : 0 < Real.sqrt Real.pi := Real.sqrt_pos.mpr hpi
  have hex : 0 < Real.exp (-(z ^ 2) / 2) := Real.exp_pos _
  rw [h2, h3]
  field_simp
  rw [pow_two, h4]

/-! ### wave 3: the regenerated matrix backward passes (`Gen/NaturalGrad.lean`) equal the hand-written model -/

section gen
variable {n d : ℕ} {α : Type} [Field α]

/-- generated `_phi_for_cholesky_` (in-place `tril_` + scaling of the diagonal view) = `Φ` -/
theorem gen_phi_eq_model (A : DMat n n α) : Gen.NaturalGrad.phiForCholesky A = NaturalGrad.phi A := by
  simp only [Gen.NaturalGrad.phiForCholesky, NatGradGen.scaleDiag_tril_eq_phi]

/-- generated `_cholesky_backward` = model `sym(L⁻ᵀ Φ(Lᵀ dout) L⁻¹)` -/
theorem gen_cholesky_backward_eq_model (dout L Linv : DMat n n α) :
    Gen.NaturalGrad.choleskyBackward dout L Linv = NaturalGrad.choleskyBackward dout L Linv := by
  simp only [Gen.NaturalGrad.choleskyBackward, NatGradGen.scaleDiag_tril_eq_phi, NaturalGrad.choleskyBackward]

/-- generated `_NaturalToMuVarSqrt._backward` = model `naturalBackward` after model `choleskyBackward` -/
theorem gen_natural_backward_eq_model (gMu mu : DMat n 1 α) (gL L C : DMat n n α) :
    Gen.NaturalGrad.naturalBackward gMu gL mu L C
      = NaturalGrad.naturalBackward gMu (NaturalGrad.choleskyBackward gL L C) mu := by
  simp only [Gen.NaturalGrad.naturalBackward, NatGradGen.scaleDiag_tril_eq_phi, NaturalGrad.choleskyBackward,
    NaturalGrad.naturalBackward]

/-- generated `_NaturalToMuVarSqrt.backward` (the autograd entry point): `_backward` with `C = triInv L` -/
theorem gen_natural_function_backward_eq (triInv : DMat n n α → DMat n n α) (gMu mu : DMat n 1 α) (gL L : DMat n n α) :
    Gen.NaturalGrad.naturalFunctionBackward triInv gMu gL mu L
      = Gen.NaturalGrad.naturalBackward gMu gL mu L (triInv L) := rfl

/-- generated `_TrilNaturalToMuVarSqrt.backward` = (first output of the natural backward, model `trilTangent`) -/
theorem gen_tril_backward_eq_model (gMu mu : DMat n 1 α) (gL L C : DMat n n α) :
    Gen.NaturalGrad.trilBackward gMu gL mu L C
      = ((NaturalGrad.naturalBackward gMu (NaturalGrad.choleskyBackward gL L C) mu).1,
         NaturalGrad.trilTangent (NaturalGrad.choleskyBackward gL L C) L C) := by
  simp only [Gen.NaturalGrad.trilBackward, NatGradGen.scaleDiag_tril_eq_phi, NaturalGrad.choleskyBackward,
    NaturalGrad.naturalBackward, NaturalGrad.trilTangent]

/-- generated `_TrilNaturalToMuVarSqrt.forward`: returns `(L Lᵀ η, L)` with `L = triInv C` and saves `(mu, L, C)` —
exactly the triple `backward` unpacks -/
theorem gen_tril_forward_eq (triInv : DMat n n α → DMat n n α) (η : DMat n 1 α) (C : DMat n n α) :
    Gen.NaturalGrad.trilForward triInv η C
      = ((triInv C).mul ((triInv C).transpose.mul η), triInv C,
         (triInv C).mul ((triInv C).transpose.mul η), triInv C, C) := rfl

/-- generated `_NgdInterpTerms.forward`, under the contract of `linear_cg` (`cgSolve P rhs = S·rhs` for the precision
`P = −2·natural_mat`; `S` symmetric): `interp_mean = Kᵀm`, `interp_var = diag(KᵀSK)` with `m = S·natural_vec`,
`kl_div = 0` (not computed in the forward pass), and the six saved tensors `(K, SK, Kᵀm, natural_vec, m, P)` -/
theorem gen_ngd_forward_eq_model (cgSolve : DMat n n α → DMat n (1 + d) α → DMat n (1 + d) α)
    (K : DMat n d α) (nv : DMat n 1 α) (Θ S : DMat n n α)
    (hcg : ∀ R, cgSolve (Θ.smul (-2)) R = S.mul R) (hS : S.toMatrixᵀ = S.toMatrix) :
    Gen.NaturalGrad.ngdForward cgSolve K nv Θ
      = (NaturalGrad.interpMeanM K (S.mul nv), NaturalGrad.interpVarM K S, 0,
         K, S.mul K, NaturalGrad.interpMeanM K (S.mul nv), nv, S.mul nv, Θ.smul (-2)) := by
  have hmean : ((S.mul K).transpose.mul nv) = NaturalGrad.interpMeanM K (S.mul nv) := by
    apply DMat.toMatrix_injective
    simp only [NaturalGrad.interpMeanM, DMat.toMatrix_mul, DMat.toMatrix_transpose, Matrix.transpose_mul, hS,
      Matrix.mul_assoc]
  have hvar : (((NaturalGrad.ones : DMat 1 n α).mul ((S.mul K).hadamard K)).transpose) = NaturalGrad.interpVarM K S := by
    apply DMat.toMatrix_injective
    ext j k
    simp only [NaturalGrad.interpVarM, DMat.toMatrix_mul, DMat.toMatrix_transpose, DMat.toMatrix_hadamard,
      DMat.toMatrix_ofMatrix, NatGradGen.toMatrix_ones, Matrix.transpose_apply, Matrix.mul_apply, Matrix.of_apply,
      Matrix.hadamard_apply, one_mul]
    apply Finset.sum_congr rfl
    intro i _
    rw [mul_comm]
  simp only [Gen.NaturalGrad.ngdForward, hcg, NatGradGen.cols_zero_mul_hcat, NatGradGen.cols_one_mul_hcat, hmean, hvar]

/-- generated `_NgdInterpTerms.backward` on the saved tensors `(K, SK, Kᵀm, natural_vec, m, prec)` = the three model
gradients (data terms and KL terms) -/
theorem gen_ngd_backward_eq_model (S prec : DMat n n α) (K : DMat n d α) (m nv : DMat n 1 α) (gm gv : DMat d 1 α) (gk : α) :
    Gen.NaturalGrad.ngdBackward gm gv gk K (S.mul K) (NaturalGrad.interpMeanM K m) nv m prec
      = (NaturalGrad.ngdInterpTermGradM S K m gm.transpose gv.transpose,
         NaturalGrad.ngdExpecVecGradM K m nv gm.transpose gv.transpose gk,
         NaturalGrad.ngdExpecMatGradM K prec gv.transpose gk) := by
  refine Prod.ext ?_ (Prod.ext ?_ ?_)
  · apply DMat.toMatrix_injective
    simp only [Gen.NaturalGrad.ngdBackward, NaturalGrad.ngdInterpTermGradM, DMat.toMatrix_add, DMat.toMatrix_smul]
    rw [NatGradGen.bcast_outer, NatGradGen.bcast_row_hadamard]
    simp only [NaturalGrad.rowDiag, DMat.toMatrix_mul, DMat.toMatrix_diagonal]
  · apply DMat.toMatrix_injective
    simp only [Gen.NaturalGrad.ngdBackward, NaturalGrad.ngdExpecVecGradM, DMat.toMatrix_add, DMat.toMatrix_smul]
    rw [DMat.toMatrix_mul, DMat.toMatrix_mul, NatGradGen.bcast_row_hadamard, NatGradGen.bcast_row_hadamard]
    simp only [NatGradGen.toMatrix_ones, NatGradGen.mul_diagonal_mul_ones]
    simp only [NaturalGrad.rowDiag, NaturalGrad.interpMeanM, DMat.toMatrix_mul, DMat.toMatrix_diagonal,
      DMat.toMatrix_transpose, DMat.toMatrix_hadamard, DMat.toMatrix_add, DMat.toMatrix_smul]
    rw [NatGradGen.diagonal_mul_eq_of]
    ext i k
    have hk : k = 0 := Subsingleton.elim _ _
    subst hk
    simp only [Matrix.add_apply, Matrix.smul_apply, Matrix.mul_apply, Matrix.of_apply, Matrix.hadamard_apply,
      Matrix.transpose_apply, smul_eq_mul, Finset.mul_sum, mul_add]
    congr 1
    rw [← Finset.sum_add_distrib]
    apply Finset.sum_congr rfl
    intro j _
    congr 1
    apply Finset.sum_congr rfl
    intro l _
    ring
  · apply DMat.toMatrix_injective
    simp only [Gen.NaturalGrad.ngdBackward, NaturalGrad.ngdExpecMatGradM, DMat.toMatrix_add, DMat.toMatrix_smul]
    rw [DMat.toMatrix_mul, NatGradGen.bcast_row_hadamard]
    simp only [NaturalGrad.rowDiag, DMat.toMatrix_mul, DMat.toMatrix_diagonal, DMat.toMatrix_transpose,
      DMat.toMatrix_sub, DMat.toMatrix_one]

end gen
/-! ### wave 3: `_NgdInterpTerms.backward` — all three outputs, KL term included (full strength) -/

section ngd
variable {n d : ℕ}

/-- the objective the three upstream gradients `(gm, gv, gk)` define, as a function of `interp_term = K` and the
expectation parameters `(m, E)` (`S = E − m mᵀ`): `Σ_j gm_j·(Kᵀm)_j + Σ_j gv_j·(KᵀSK)_jj + gk·½(−log det S + tr E − n)`
— the three quantities `_NgdInterpTerms.forward` stands for (`gen_ngd_forward_eq_model`, `ngd_objective_eq_forward`;
the KL value itself is "not bothered with" in the forward pass, its formula is the comment there). -/
noncomputable def ngdObjective (gm gv : DMat d 1 ℝ) (gk : ℝ) (K : Matrix (Fin n) (Fin d) ℝ)
    (m : Matrix (Fin n) (Fin 1) ℝ) (E : Matrix (Fin n) (Fin n) ℝ) : ℝ :=
  NgdKL.dataObj gm.toMatrixᵀ (Matrix.diagonal fun j => gv.toMatrix j 0) K m E + gk * NgdKL.kl m E

/-- the data part of `ngdObjective` is the pairing of `(gm, gv)` with the forward's `(interp_mean, interp_var)` -/
theorem ngd_objective_eq_forward (gm gv : DMat d 1 ℝ) (gk : ℝ) (K : DMat n d ℝ) (m : DMat n 1 ℝ) (S : DMat n n ℝ) :
    ngdObjective gm gv gk K.toMatrix m.toMatrix (S.toMatrix + m.toMatrix * m.toMatrixᵀ)
      = (gm.toMatrixᵀ * (NaturalGrad.interpMeanM K m).toMatrix).trace
        + (gv.toMatrixᵀ * (NaturalGrad.interpVarM K S).toMatrix).trace
        + gk * NgdKL.kl m.toMatrix (S.toMatrix + m.toMatrix * m.toMatrixᵀ) := by
  unfold ngdObjective NgdKL.dataObj
  rw [add_sub_cancel_right]
  congr 1
  congr 1
  · simp [NaturalGrad.interpMeanM]
  · rw [NatGradGen.diagonal_mul_eq_of]
    simp only [NaturalGrad.interpVarM, DMat.toMatrix_ofMatrix, DMat.toMatrix_mul, DMat.toMatrix_transpose,
      Matrix.trace, Matrix.diag_apply, Matrix.of_apply, Finset.univ_unique, Finset.sum_singleton,
      Fin.default_eq_zero]
    rw [Matrix.mul_apply]
    simp only [Matrix.transpose_apply, Matrix.of_apply]

/-- **`_NgdInterpTerms.backward`, outputs 2 and 3 (full strength, KL term included).**  Saved tensors as the forward
leaves them (`gen_ngd_forward_eq_model`): `(K, S K, Kᵀm, natural_vec, m, prec)` with `S` symmetric, `det S > 0`,
`prec·S = 1`, `natural_vec = prec·m`.  Along EVERY line `(m + t·δm, E + t·δE)` of expectation parameters through
`(m, E = S + m mᵀ)` the objective has derivative `⟨expec_vec_grad, δm⟩ + ⟨expec_mat_grad, δE⟩` for the pair the
GENERATED backward returns. -/
theorem ngd_backward_expec_hasDerivAt (S prec : DMat n n ℝ) (K : DMat n d ℝ) (m nv : DMat n 1 ℝ) (gm gv : DMat d 1 ℝ)
    (gk : ℝ) (dm : Matrix (Fin n) (Fin 1) ℝ) (dE : Matrix (Fin n) (Fin n) ℝ)
    (hS : S.toMatrixᵀ = S.toMatrix) (hpos : 0 < S.toMatrix.det) (hP : prec.toMatrix * S.toMatrix = 1)
    (hnv : nv = prec.mul m) :
    HasDerivAt (fun t : ℝ => ngdObjective gm gv gk K.toMatrix (m.toMatrix + t • dm)
        (S.toMatrix + m.toMatrix * m.toMatrixᵀ + t • dE))
      (((Gen.NaturalGrad.ngdBackward gm gv gk K (S.mul K) (NaturalGrad.interpMeanM K m) nv m prec).2.1.toMatrixᵀ * dm).trace
        + ((Gen.NaturalGrad.ngdBackward gm gv gk K (S.mul K) (NaturalGrad.interpMeanM K m) nv m prec).2.2.toMatrixᵀ * dE).trace)
      0 := by
  rw [gen_ngd_backward_eq_model]
  have hE : S.toMatrix + m.toMatrix * m.toMatrixᵀ - m.toMatrix * m.toMatrixᵀ = S.toMatrix := add_sub_cancel_right _ _
  have h := NgdKL.hasDerivAt_expec gm.toMatrixᵀ (Matrix.diagonal fun j => gv.toMatrix j 0) gk K.toMatrix m.toMatrix dm
    (S.toMatrix + m.toMatrix * m.toMatrixᵀ) dE prec.toMatrix (Matrix.diagonal_transpose _)
    (by rw [hE]; exact hS) (by rw [hE]; exact hpos) (by rw [hE]; exact hP)
  refine h.congr_deriv ?_
  subst hnv
  simp only [NaturalGrad.ngdExpecVecGradM, NaturalGrad.ngdExpecMatGradM, NaturalGrad.rowDiag, DMat.toMatrix_add,
    DMat.toMatrix_mul, DMat.toMatrix_smul, DMat.toMatrix_transpose, DMat.toMatrix_diagonal, DMat.toMatrix_sub,
    DMat.toMatrix_one, Matrix.transpose_apply, Matrix.transpose_transpose]

/-- **`_NgdInterpTerms.backward`, output 1 (full strength).**  For symmetric `S` and every direction `δK`: the
derivative of the objective along `K + t·δK` is `⟨interp_term_grad, δK⟩` for the GENERATED backward (the KL term
does not depend on `interp_term`). -/
theorem ngd_backward_interp_hasDerivAt (S prec : DMat n n ℝ) (K : DMat n d ℝ) (m nv : DMat n 1 ℝ) (gm gv : DMat d 1 ℝ)
    (gk : ℝ) (dK : Matrix (Fin n) (Fin d) ℝ) (hS : S.toMatrixᵀ = S.toMatrix) :
    HasDerivAt (fun t : ℝ => ngdObjective gm gv gk (K.toMatrix + t • dK) m.toMatrix
        (S.toMatrix + m.toMatrix * m.toMatrixᵀ))
      (((Gen.NaturalGrad.ngdBackward gm gv gk K (S.mul K) (NaturalGrad.interpMeanM K m) nv m prec).1.toMatrixᵀ * dK).trace)
      0 := by
  rw [gen_ngd_backward_eq_model]
  have hE : S.toMatrix + m.toMatrix * m.toMatrixᵀ - m.toMatrix * m.toMatrixᵀ = S.toMatrix := add_sub_cancel_right _ _
  have h := NgdKL.hasDerivAt_interp gm.toMatrixᵀ (Matrix.diagonal fun j => gv.toMatrix j 0) gk K.toMatrix dK m.toMatrix
    (S.toMatrix + m.toMatrix * m.toMatrixᵀ) (Matrix.diagonal_transpose _) (by rw [hE]; exact hS)
  refine h.congr_deriv ?_
  rw [hE]
  simp only [NaturalGrad.ngdInterpTermGradM, NaturalGrad.rowDiag, DMat.toMatrix_add, DMat.toMatrix_mul,
    DMat.toMatrix_smul, DMat.toMatrix_transpose, DMat.toMatrix_diagonal, Matrix.transpose_apply]

/-- the KL term alone (what the wave-2 `ngd_interp_terms_partial` left to the correspondence): for zero data
gradients the generated backward returns `(0, gk·natural_vec, gk·½(1 − prec))`, and that is the gradient of
`gk·KL` w.r.t. the expectation parameters. -/
theorem ngd_backward_kl_hasDerivAt (S prec : DMat n n ℝ) (K : DMat n d ℝ) (m nv : DMat n 1 ℝ) (gk : ℝ)
    (dm : Matrix (Fin n) (Fin 1) ℝ) (dE : Matrix (Fin n) (Fin n) ℝ)
    (hS : S.toMatrixᵀ = S.toMatrix) (hpos : 0 < S.toMatrix.det) (hP : prec.toMatrix * S.toMatrix = 1)
    (hnv : nv = prec.mul m) :
    HasDerivAt (fun t : ℝ => gk * NgdKL.kl (m.toMatrix + t • dm) (S.toMatrix + m.toMatrix * m.toMatrixᵀ + t • dE))
      (((Gen.NaturalGrad.ngdBackward DMat.zero DMat.zero gk K (S.mul K) (NaturalGrad.interpMeanM K m) nv m prec).2.1.toMatrixᵀ * dm).trace
        + ((Gen.NaturalGrad.ngdBackward DMat.zero DMat.zero gk K (S.mul K) (NaturalGrad.interpMeanM K m) nv m prec).2.2.toMatrixᵀ * dE).trace)
      0 := by
  have h := ngd_backward_expec_hasDerivAt S prec K m nv DMat.zero DMat.zero gk dm dE hS hpos hP hnv
  refine h.congr_of_eventuallyEq (Filter.Eventually.of_forall fun t => ?_)
  simp [ngdObjective, NgdKL.dataObj]

end ngd

/-! ### wave 3: natural / tril-natural backward, statements about the GENERATED code -/

section tril
variable {n : ℕ}

/-- `_cholesky_backward` returns a symmetric matrix (it symmetrises explicitly) -/
theorem cholesky_backward_symm (dout L Linv : DMat n n ℝ) :
    (NaturalGrad.choleskyBackward dout L Linv).toMatrixᵀ = (NaturalGrad.choleskyBackward dout L Linv).toMatrix := by
  simp only [NaturalGrad.choleskyBackward, DMat.toMatrix_smul, DMat.toMatrix_add, DMat.toMatrix_transpose,
    Matrix.transpose_smul, Matrix.transpose_add, Matrix.transpose_transpose]
  rw [add_comm]

/-- **`_NaturalToMuVarSqrt._backward` (generated) returns the gradient w.r.t. the expectation parameters** — the chain
of `cholesky_backward_adjoint` and `natural_adjoint_identity`.  `(η₁, η₂) ↦ (μ, L) = (η₁, chol(η₂ − η₁η₁ᵀ))`; a direction
`(δ₁, δ₂)` is pushed forward to `(δ₁, δL)` with `δL` lower triangular and `δL·Lᵀ + L·δLᵀ = δ₂ − δ₁μᵀ − μδ₁ᵀ` (the
differential of `Σ = LLᵀ`).  Then `⟨dout_dmu, δ₁⟩ + ⟨dout_dL, δL⟩ = ⟨dout_deta1, δ₁⟩ + ⟨dout_deta2, δ₂⟩`. -/
theorem natural_backward_expectation_gradient (gMu mu : DMat n 1 ℝ) (gL L C : DMat n n ℝ)
    (d1 : Matrix (Fin n) (Fin 1) ℝ) (d2 dL : Matrix (Fin n) (Fin n) ℝ)
    (h1 : C.toMatrix * L.toMatrix = 1) (h2 : L.toMatrix * C.toMatrix = 1)
    (hC : ∀ i j, i < j → C.toMatrix i j = 0) (hdL : ∀ i j, i < j → dL i j = 0)
    (hpush : dL * L.toMatrixᵀ + L.toMatrix * dLᵀ = d2 - d1 * mu.toMatrixᵀ - mu.toMatrix * d1ᵀ) :
    (gMu.toMatrixᵀ * d1).trace + (gL.toMatrixᵀ * dL).trace
      = ((Gen.NaturalGrad.naturalBackward gMu gL mu L C).1.toMatrixᵀ * d1).trace
        + ((Gen.NaturalGrad.naturalBackward gMu gL mu L C).2.toMatrixᵀ * d2).trace := by
  rw [gen_natural_backward_eq_model]
  rw [← natural_adjoint_identity gMu mu (NaturalGrad.choleskyBackward gL L C) d1 d2 (cholesky_backward_symm gL L C),
    ← hpush, cholesky_backward_adjoint gL L C dL h1 h2 hC hdL]

/-- first output of the generated `_TrilNaturalToMuVarSqrt.backward` = first output of the generated natural backward
(so `natural_backward_expectation_gradient` applies to it verbatim) -/
theorem tril_backward_first_output (gMu mu : DMat n 1 ℝ) (gL L C : DMat n n ℝ) :
    (Gen.NaturalGrad.trilBackward gMu gL mu L C).1 = (Gen.NaturalGrad.naturalBackward gMu gL mu L C).1 := by
  rw [gen_tril_backward_eq_model, gen_natural_backward_eq_model]

/-- **second output of the generated `_TrilNaturalToMuVarSqrt.backward`** (wave 2: correspondence only).  With
`G = dout_dnat2` (second output of the natural backward: the direction in which the natural matrix `θ` moves),
`C = natural_tril_mat` lower triangular, `L·C = 1`: the returned `Ċ` is lower triangular and satisfies the
differential of the constraint `CᵀC = −2θ`:  `ĊᵀC + CᵀĊ = −2G`. -/
theorem tril_backward_tangent (gMu mu : DMat n 1 ℝ) (gL L C : DMat n n ℝ)
    (hC : ∀ i j, i < j → C.toMatrix i j = 0) (hLC : L.toMatrix * C.toMatrix = 1) :
    (∀ i j, i < j → (Gen.NaturalGrad.trilBackward gMu gL mu L C).2.toMatrix i j = 0) ∧
    (Gen.NaturalGrad.trilBackward gMu gL mu L C).2.toMatrixᵀ * C.toMatrix
        + C.toMatrixᵀ * (Gen.NaturalGrad.trilBackward gMu gL mu L C).2.toMatrix
      = (-2 : ℝ) • (Gen.NaturalGrad.naturalBackward gMu gL mu L C).2.toMatrix := by
  rw [gen_tril_backward_eq_model, gen_natural_backward_eq_model]
  exact ⟨TrilTangent.tangent_lower _ L C hC,
    TrilTangent.tangent_solves _ L C (cholesky_backward_symm gL L C) hLC⟩

/-- …and it is the ONLY lower-triangular solution, hence **the derivative at 0 of every differentiable curve
`t ↦ C(t)` of lower-triangular factors of `−2(θ + t·G)` through `C`** — the forward-mode sensitivity the docstring of
`backward` derives.  (`L` lower triangular, two-sided inverse of `C`.) -/
theorem tril_backward_is_derivative (gMu mu : DMat n 1 ℝ) (gL L C : DMat n n ℝ)
    (θ : Matrix (Fin n) (Fin n) ℝ) (Cc : ℝ → Matrix (Fin n) (Fin n) ℝ) (D : Matrix (Fin n) (Fin n) ℝ)
    (h0 : Cc 0 = C.toMatrix) (hder : ∀ i j, HasDerivAt (fun t => Cc t i j) (D i j) 0)
    (hlow : ∀ᶠ t in nhds (0 : ℝ), ∀ i j, i < j → Cc t i j = 0)
    (hcon : ∀ᶠ t in nhds (0 : ℝ),
      (Cc t)ᵀ * Cc t = (-2 : ℝ) • (θ + t • (Gen.NaturalGrad.naturalBackward gMu gL mu L C).2.toMatrix))
    (hL : ∀ i j, i < j → L.toMatrix i j = 0)
    (hLC : L.toMatrix * C.toMatrix = 1) (hCL : C.toMatrix * L.toMatrix = 1) :
    D = (Gen.NaturalGrad.trilBackward gMu gL mu L C).2.toMatrix := by
  rw [gen_tril_backward_eq_model]
  rw [gen_natural_backward_eq_model] at hcon
  exact TrilTangent.tangent_is_derivative _ L C θ Cc D h0 hder hlow hcon hL hLC hCL

end tril


section inputgrad
open Kernels
/-! ### wave 3: gradients of a kernel value w.r.t. the (test) inputs -/

/-- RBF, documented formula with ARD lengthscales, as a function of coordinate `k` of the first input:
`∂k/∂a_k = −(a_k − b_k)/ℓ_k² · k` — for every pair of rows, coincident or not. -/
theorem rbf_spec_input_gradient (ls a b : List ℝ) (k : ℕ) (hka : k < a.length) (hkb : k < b.length)
    (hkl : k < ls.length) (x : ℝ) :
    HasDerivAt (fun x => rbfSpec ls (a.set k x) b)
      (-((x - b.getD k 0) / (ls.getD k 1) ^ 2) * rbfSpec ls (a.set k x) b) x := by
  have hA := fun x => sqDistArd_set_left ls a b k x hka hkb hkl
  have hfun : (fun x => rbfSpec ls (a.set k x) b) = fun x : ℝ =>
      Real.exp (-((((1 / 2 : ℚ)) : ℝ) * (sqDistArd ls (a.set k (b.getD k 0)) b + (x - b.getD k 0) ^ 2 / (ls.getD k 1) ^ 2))) := by
    funext x
    simp only [rbfSpec, hA x, exp_real, lit_real]
  rw [hfun, rbfSpec, hA x]
  simp only [exp_real, lit_real]
  have hu : HasDerivAt (fun x : ℝ => sqDistArd ls (a.set k (b.getD k 0)) b + (x - b.getD k 0) ^ 2 / (ls.getD k 1) ^ 2)
      (2 * (x - b.getD k 0) / (ls.getD k 1) ^ 2) x := by
    have := ((((hasDerivAt_id x).sub_const (b.getD k 0)).pow 2).div_const ((ls.getD k 1) ^ 2)).const_add
      (sqDistArd ls (a.set k (b.getD k 0)) b)
    exact this.congr_deriv (by simp)
  refine ((hu.const_mul (((1 / 2 : ℚ)) : ℝ)).neg.exp).congr_deriv ?_
  simp only [Pi.neg_apply]
  push_cast
  ring

/-- …hence for the GENERATED fast-path term of `RBFCovariance.forward` (single lengthscale) and for the generic
(autograd) path `rbfImpl` the derivative autograd must find w.r.t. a coordinate of `x1` is `−(x − b_k)/ℓ²·k`. -/
theorem rbf_generated_input_gradient (a b : List ℝ) (ℓ : ℝ) (k : ℕ) (hka : k < a.length) (hkb : k < b.length) (x : ℝ) :
    HasDerivAt (fun x => rbfFwdGradOut sqDist (a.set k x) b ℓ)
      (-((x - b.getD k 0) / ℓ ^ 2) * rbfFwdGradOut sqDist (a.set k x) b ℓ) x := by
  have e : ∀ x, rbfFwdGradOut sqDist (a.set k x) b ℓ = rbfSpec (List.replicate a.length ℓ) (a.set k x) b := by
    intro x
    have := (FastPath.rbf_fast_eq_spec (a.set k x) b ℓ).1
    rwa [List.length_set] at this
  have hl : (List.replicate a.length ℓ).getD k 1 = ℓ := by
    simp [List.getD_eq_getElem?_getD, hka]
  have h := rbf_spec_input_gradient (List.replicate a.length ℓ) a b k hka hkb (by simpa using hka) x
  rw [hl] at h
  simpa only [e] using h

/-- radial profiles of Matérn 3/2 and 5/2: `m'(r) = r·G(r)` (so the chain rule through `√` survives `r = 0`) -/
theorem matern32_profile (r : ℝ) :
    HasDerivAt (fun r : ℝ => (1 + Real.sqrt 3 * r) * Real.exp (-(Real.sqrt 3 * r)))
      (r * (-(3 * Real.exp (-(Real.sqrt 3 * r))))) r := by
  have h3 : Real.sqrt 3 ^ 2 = 3 := Real.sq_sqrt (by norm_num)
  have hid := hasDerivAt_id r
  have hpoly := (hid.const_mul (Real.sqrt 3)).const_add 1
  have hexp := (hid.const_mul (Real.sqrt 3)).neg.exp
  refine (hpoly.mul hexp).congr_deriv ?_
  simp only [Pi.neg_apply, id]
  ring_nf
  rw [h3]
  ring

theorem matern52_profile (r : ℝ) :
    HasDerivAt (fun r : ℝ => (1 + Real.sqrt 5 * r + 5 / 3 * r ^ 2) * Real.exp (-(Real.sqrt 5 * r)))
      (r * (-(5 / 3 * (1 + Real.sqrt 5 * r) * Real.exp (-(Real.sqrt 5 * r))))) r := by
  have h5 : Real.sqrt 5 ^ 2 = 5 := Real.sq_sqrt (by norm_num)
  have hid := hasDerivAt_id r
  have hpoly := ((hid.const_mul (Real.sqrt 5)).const_add 1).add ((hid.pow 2).const_mul (5 / 3))
  have hexp := (hid.const_mul (Real.sqrt 5)).neg.exp
  refine (hpoly.mul hexp).congr_deriv ?_
  simp only [Pi.neg_apply, Pi.pow_apply, Pi.add_apply, id]
  ring_nf
  rw [h5]
  ring

/-- Matérn 3/2 and 5/2 (ARD), coordinate `k` of the first input, EVERY pair of rows (the chain rule through the
distance is replaced by `hasDerivAt_radial` at coincident points):
`∂k/∂a_k = −3·e^{−√3 r}·(a_k − b_k)/ℓ_k²` resp. `−(5/3)(1 + √5 r)e^{−√5 r}·(a_k − b_k)/ℓ_k²`, `r` the scaled distance. -/
theorem matern_spec_input_gradient (ls a b : List ℝ) (k : ℕ) (hka : k < a.length) (hkb : k < b.length)
    (hkl : k < ls.length) (hk0 : ls.getD k 1 ≠ 0) (x : ℝ) :
    HasDerivAt (fun x => maternSpec 3 ls (a.set k x) b)
      (-(3 * Real.exp (-(Real.sqrt 3 * Real.sqrt (sqDistArd ls (a.set k x) b))))
        * ((x - b.getD k 0) / (ls.getD k 1) ^ 2)) x ∧
    HasDerivAt (fun x => maternSpec 5 ls (a.set k x) b)
      (-(5 / 3 * (1 + Real.sqrt 5 * Real.sqrt (sqDistArd ls (a.set k x) b))
          * Real.exp (-(Real.sqrt 5 * Real.sqrt (sqDistArd ls (a.set k x) b))))
        * ((x - b.getD k 0) / (ls.getD k 1) ^ 2)) x := by
  have hA := fun x => sqDistArd_set_left ls a b k x hka hkb hkl
  have hC : 0 ≤ sqDistArd ls (a.set k (b.getD k 0)) b := sqDistArd_nonneg _ _ _
  constructor
  · have hrad := hasDerivAt_radial _ _ matern32_profile (sqDistArd ls (a.set k (b.getD k 0)) b) (b.getD k 0)
      (ls.getD k 1) x hC hk0
    have hfun : (fun x => maternSpec 3 ls (a.set k x) b) = fun x : ℝ =>
        (fun r : ℝ => (1 + Real.sqrt 3 * r) * Real.exp (-(Real.sqrt 3 * r)))
          (Real.sqrt (sqDistArd ls (a.set k (b.getD k 0)) b + (x - b.getD k 0) ^ 2 / (ls.getD k 1) ^ 2)) := by
      funext x
      simp only [maternSpec, maternOfDist, hA x, sqrt_real, exp_real, lit_real]
      push_cast; rfl
    rw [hfun, hA x]
    exact hrad
  · have hrad := hasDerivAt_radial _ _ matern52_profile (sqDistArd ls (a.set k (b.getD k 0)) b) (b.getD k 0)
      (ls.getD k 1) x hC hk0
    have hfun : (fun x => maternSpec 5 ls (a.set k x) b) = fun x : ℝ =>
        (fun r : ℝ => (1 + Real.sqrt 5 * r + 5 / 3 * r ^ 2) * Real.exp (-(Real.sqrt 5 * r)))
          (Real.sqrt (sqDistArd ls (a.set k (b.getD k 0)) b + (x - b.getD k 0) ^ 2 / (ls.getD k 1) ^ 2)) := by
      funext x
      simp only [maternSpec, maternOfDist, hA x, sqrt_real, exp_real, lit_real, sq_real]
      push_cast; rfl
    rw [hfun, hA x]
    exact hrad

/-- …and for the GENERATED fast-path Matérn terms (single lengthscale), whatever the centring row `m` is — it may be
recomputed from the moving input (`x1.mean(-2)`), the value does not depend on it. -/
theorem matern_generated_input_gradient (a b : List ℝ) (mf : ℝ → List ℝ) (ℓ : ℝ) (k : ℕ) (hka : k < a.length)
    (hkb : k < b.length) (hm : ∀ x, (mf x).length = a.length) (hb : b.length = a.length) (hℓ : ℓ ≠ 0) (x : ℝ) :
    HasDerivAt (fun x => matern32FwdGradOut Scalar.dist (a.set k x) b (mf x) ℓ)
      (-(3 * Real.exp (-(Real.sqrt 3 * Real.sqrt (sqDistArd (List.replicate a.length ℓ) (a.set k x) b))))
        * ((x - b.getD k 0) / ℓ ^ 2)) x ∧
    HasDerivAt (fun x => matern52FwdGradOut Scalar.dist (a.set k x) b (mf x) ℓ)
      (-(5 / 3 * (1 + Real.sqrt 5 * Real.sqrt (sqDistArd (List.replicate a.length ℓ) (a.set k x) b))
          * Real.exp (-(Real.sqrt 5 * Real.sqrt (sqDistArd (List.replicate a.length ℓ) (a.set k x) b))))
        * ((x - b.getD k 0) / ℓ ^ 2)) x := by
  have hl : (List.replicate a.length ℓ).getD k 1 = ℓ := by
    simp [List.getD_eq_getElem?_getD, hka]
  have e3 : ∀ x, matern32FwdGradOut Scalar.dist (a.set k x) b (mf x) ℓ
      = maternSpec 3 (List.replicate a.length ℓ) (a.set k x) b := by
    intro x
    have := (FastPath.matern32_fast_eq_spec (a.set k x) b (mf x) ℓ (by rw [List.length_set, hm x]) (by rw [hb, hm x])).1
    rwa [List.length_set] at this
  have e5 : ∀ x, matern52FwdGradOut Scalar.dist (a.set k x) b (mf x) ℓ
      = maternSpec 5 (List.replicate a.length ℓ) (a.set k x) b := by
    intro x
    have := (FastPath.matern52_fast_eq_spec (a.set k x) b (mf x) ℓ (by rw [List.length_set, hm x]) (by rw [hb, hm x])).1
    rwa [List.length_set] at this
  have h := matern_spec_input_gradient (List.replicate a.length ℓ) a b k hka hkb (by simpa using hka) (by rwa [hl]) x
  rw [hl] at h
  exact ⟨by simpa only [e3] using h.1, by simpa only [e5] using h.2⟩

end inputgrad

/-! ### non-vacuity -/

example : ∃ ℓ : ℝ, ℓ ≠ 0 ∧ HasDerivAt (fun l : ℝ => (2 : ℝ) * rbfFwdGradOut sqDist [0, 1] [0, 1] l)
    (rbfBwd 2 (rbfFwdGradSaved sqDist [0, 1] [0, 1] ℓ)) ℓ :=
  ⟨-3, by norm_num, rbf_backward_hasDerivAt [0, 1] [0, 1] 2 (-3) (by norm_num)⟩   -- coincident rows, ℓ < 0

example : ∃ (L Li : DMat 1 1 ℝ), Li.toMatrix * L.toMatrix = 1 ∧ L.toMatrix * Li.toMatrix = 1 :=
  ⟨DMat.ofMatrix !![2], DMat.ofMatrix !![1 / 2], by ext i j; fin_cases i; fin_cases j; simp [Matrix.mul_apply],
    by ext i j; fin_cases i; fin_cases j; simp [Matrix.mul_apply]⟩

/-- hypotheses of `ngd_backward_expec_hasDerivAt` / `ngd_backward_kl_hasDerivAt` (symmetric `S`, `det S > 0`,
`prec·S = 1`, `natural_vec = prec·m`) -/
example : ∃ (S prec : DMat 1 1 ℝ) (m nv : DMat 1 1 ℝ), S.toMatrixᵀ = S.toMatrix ∧ 0 < S.toMatrix.det ∧
    prec.toMatrix * S.toMatrix = 1 ∧ nv = prec.mul m :=
  ⟨DMat.ofMatrix !![2], DMat.ofMatrix !![1 / 2], DMat.ofMatrix !![3], (DMat.ofMatrix !![1 / 2]).mul (DMat.ofMatrix !![3]),
    by ext i j; fin_cases i; fin_cases j; simp, by simp,
    by ext i j; fin_cases i; fin_cases j; simp [Matrix.mul_apply], rfl⟩

/-- hypotheses of `gen_ngd_forward_eq_model` (a solver that returns `S·rhs`) -/
example (S : DMat 2 2 ℝ) : ∃ cg : DMat 2 2 ℝ → DMat 2 (1 + 3) ℝ → DMat 2 (1 + 3) ℝ, ∀ P R, cg P R = S.mul R :=
  ⟨fun _ R => S.mul R, fun _ _ => rfl⟩

/-- hypotheses of `natural_backward_expectation_gradient`: `L = 2`, `C = ½`, `μ = 0`, direction `δ₂ = 4`, `δL = 1` -/
example : ∃ (mu : DMat 1 1 ℝ) (L C : DMat 1 1 ℝ) (d1 : Matrix (Fin 1) (Fin 1) ℝ) (d2 dL : Matrix (Fin 1) (Fin 1) ℝ),
    C.toMatrix * L.toMatrix = 1 ∧ L.toMatrix * C.toMatrix = 1 ∧ (∀ i j, i < j → C.toMatrix i j = 0) ∧
    (∀ i j, i < j → dL i j = 0) ∧
    dL * L.toMatrixᵀ + L.toMatrix * dLᵀ = d2 - d1 * mu.toMatrixᵀ - mu.toMatrix * d1ᵀ :=
  ⟨DMat.ofMatrix !![0], DMat.ofMatrix !![2], DMat.ofMatrix !![1 / 2], !![0], !![4], !![1],
    by ext i j; fin_cases i; fin_cases j; simp [Matrix.mul_apply],
    by ext i j; fin_cases i; fin_cases j; simp [Matrix.mul_apply],
    by intro i j h; fin_cases i; fin_cases j; simp at h,
    by intro i j h; fin_cases i; fin_cases j; simp at h,
    by ext i j; fin_cases i; fin_cases j; simp [Matrix.vecMul, Matrix.vecHead, dotProduct]; norm_num⟩

/-- hypotheses of `tril_backward_is_derivative` are satisfiable: `n = 1`, `C = L = 1`, `θ = −½`, zero
upstream gradient (so the direction `G` is `0`) and the constant curve; the derivative is `0 = Φ(0)·C`. -/
example : ∃ (C L : DMat 1 1 ℝ) (θ : Matrix (Fin 1) (Fin 1) ℝ) (Cc : ℝ → Matrix (Fin 1) (Fin 1) ℝ)
    (D : Matrix (Fin 1) (Fin 1) ℝ),
    Cc 0 = C.toMatrix ∧ (∀ i j, HasDerivAt (fun t => Cc t i j) (D i j) 0) ∧
    (∀ᶠ t in nhds (0 : ℝ), ∀ i j, i < j → Cc t i j = 0) ∧
    (∀ᶠ t in nhds (0 : ℝ), (Cc t)ᵀ * Cc t = (-2 : ℝ) • (θ + t • (0 : Matrix (Fin 1) (Fin 1) ℝ))) ∧
    L.toMatrix * C.toMatrix = 1 ∧ C.toMatrix * L.toMatrix = 1 :=
  ⟨DMat.ofMatrix 1, DMat.ofMatrix 1, !![-1 / 2], fun _ => 1, 0, by simp,
    fun i j => by simpa using hasDerivAt_const (0 : ℝ) ((1 : Matrix (Fin 1) (Fin 1) ℝ) i j),
    Filter.Eventually.of_forall fun t i j h => by fin_cases i; fin_cases j; simp at h,
    Filter.Eventually.of_forall fun t => by ext i j; fin_cases i; fin_cases j; simp; norm_num,
    by simp, by simp⟩

/-- hypotheses of the input-gradient theorems: coincident rows, coordinate 1 -/
example : HasDerivAt (fun x => rbfFwdGradOut sqDist (([0, 1] : List ℝ).set 1 x) [0, 1] 2)
    (-((1 - ([0, 1] : List ℝ).getD 1 0) / 2 ^ 2) * rbfFwdGradOut sqDist (([0, 1] : List ℝ).set 1 1) [0, 1] 2) 1 :=
  rbf_generated_input_gradient [0, 1] [0, 1] 2 1 (by simp) (by simp) 1

/-- Matérn input gradients at coincident rows, the centring row moving with the input (`x1.mean(-2)` of a one-row `x1`) -/
example : ∃ g : ℝ, HasDerivAt (fun x => matern52FwdGradOut Scalar.dist (([0, 1] : List ℝ).set 1 x) [0, 1] [0, x] 3) g 1 :=
  ⟨_, (matern_generated_input_gradient [0, 1] [0, 1] (fun x => [0, x]) 3 1 (by simp) (by simp) (fun _ => by simp) (by simp)
    (by norm_num) 1).2⟩

end C19

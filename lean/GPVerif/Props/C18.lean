/-
C18 — persistence round trips (state_dict → fresh model, pickle, deepcopy) reproduce the model exactly;
loading never leaves caches of the previous state in effect; no prediction-relevant state lives outside what
these mechanisms carry.

Two kinds of theorems:

* about the executable module-tree model `Persist.Tree` (`GPVerif/Model/Persist.lean`, the object that
  `drivers/C18.lean` runs against the real `state_dict()` / `load_state_dict()`): for every tree, every name and
  value type — by structural induction;
* about the class table `Gen.Persistence` that translator G2p regenerates from the Python source on every run
  (`decide +kernel` over the whole table): every attribute written outside `__init__` is in the audited
  allow-list below, every cache is cleared on load and guarded on copy, every lazy registration and every
  persistence hook override is audited.  A new mutable attribute / hook / unguarded cache in the source breaks
  these proofs.
-/
import GPVerif.Bridge.Persist
import GPVerif.Gen.Persistence

namespace C18
open Persist

variable {N V : Type}

/-! ## 1. The flattening -/

/-- **No collisions**: with distinct entry names inside every module, no key occurs twice in the state dict
(so the real `OrderedDict` loses nothing). -/
theorem stateDict_keys_nodup [DecidableEq N] (T : Tree N V) (h : T.wf = true) :
    (T.stateDict.map (·.1)).Nodup :=
  ((stateDict_perm_entries T).map _).nodup_iff.mpr (entries_keys_nodup T h)

/-- **Prefix-free**: no key is a proper prefix of another one (`a.b` is never both a tensor and a sub-module),
which is what makes the dotted rendering and torch's `startswith(prefix)` bookkeeping unambiguous. -/
theorem stateDict_keys_prefix_free [DecidableEq N] (T : Tree N V) (h : T.wf = true) :
    ∀ e ∈ T.stateDict, ∀ e' ∈ T.stateDict, e.1 <+: e'.1 → e.1 = e'.1 := by
  intro e he e' he'
  exact entries_prefix_free T h e ((mem_stateDict_iff T e).mp he) e' ((mem_stateDict_iff T e').mp he')

/-- The key list (and its order) is a function of the architecture alone: a freshly constructed model of the
same architecture has exactly the keys of the saved one. -/
theorem stateDict_keys_arch {V' : Type} (T : Tree N V) (U : Tree N V') (h : U.arch = T.arch) :
    U.stateDict.map (·.1) = T.stateDict.map (·.1) := by
  simp only [Tree.stateDict, List.map_append, own_keys_arch _ T U h, subs_keys_arch T U h]

/-! ## 2. load ∘ stateDict -/

/-- Core of the round trip, with torch's prefix: if the dictionary holds, under `pfx ++ k`, the value that `T`
stores under `k` — for every persisted field of `T` — then loading it into ANY tree of the same architecture
yields exactly `T`'s state dict. -/
theorem load_agrees [DecidableEq N] (cc : Bool) (T U : Tree N V) (d : Dict N V) (pfx : Key N)
    (harch : U.arch = T.arch) (H : ∀ k v, (k, v) ∈ T.stateDict → lookup (pfx ++ k) d = some v) :
    (U.load cc d pfx).stateDict = T.stateDict := by
  have H' : ∀ k v, (k, v) ∈ T.own Kind.isParam ++ T.own Kind.isPBuf ++ T.subs → lookup (pfx ++ k) d = some v := H
  simp only [Tree.stateDict]
  rw [load_own cc Kind.isParam (fun _ => isParam_persisted) d pfx T U harch (fun k v hm => H' k v (by simp [hm])),
      load_own cc Kind.isPBuf (fun _ => isPBuf_persisted) d pfx T U harch (fun k v hm => H' k v (by simp [hm])),
      load_subs cc d T U pfx harch (fun k v hm => H' k v (by simp [hm]))]

/-- **load_stateDict_roundtrip**: `load (fresh arch) (stateDict T)` has every persisted field equal to `T`'s —
whatever values (different random initialisation, different default bounds) and whatever caches the freshly
constructed tree `U` held. -/
theorem load_stateDict_roundtrip [DecidableEq N] (cc : Bool) (T U : Tree N V) (harch : U.arch = T.arch)
    (hwf : T.wf = true) : (U.load cc T.stateDict []).stateDict = T.stateDict :=
  load_agrees cc T U T.stateDict [] harch
    (fun k v hm => by simpa using lookup_of_mem T.stateDict (stateDict_keys_nodup T hwf) k v hm)

/-- **stateDict_injective_on_trees**: two trees of the same architecture whose state dicts agree *as
dictionaries* (same value under every key) have the same persisted fields, entry for entry.  Distinct names are
needed: see `shadowed_key_not_injective`. -/
theorem stateDict_injective_on_trees [DecidableEq N] (T U : Tree N V) (harch : U.arch = T.arch)
    (hwf : T.wf = true) (hmap : ∀ k, lookup k T.stateDict = lookup k U.stateDict) :
    T.stateDict = U.stateDict := by
  have hwfU : U.wf = true := by rw [wf_of_arch_eq T U harch]; exact hwf
  calc T.stateDict = (T.load true T.stateDict []).stateDict := (load_stateDict_roundtrip true T T rfl hwf).symm
    _ = (T.load true U.stateDict []).stateDict := by rw [load_congr true _ _ hmap T []]
    _ = U.stateDict := load_stateDict_roundtrip true U T harch.symm hwfU

/-- Without distinct names the flattening is *not* injective on dictionaries: the second `a` is shadowed. -/
theorem shadowed_key_not_injective :
    let T : Tree Nat Int := .field .param 0 1 (.field .param 0 2 .leaf)
    let U : Tree Nat Int := .field .param 0 1 (.field .param 0 3 .leaf)
    U.arch = T.arch ∧ (∀ k, lookup k T.stateDict = lookup k U.stateDict) ∧ T.stateDict ≠ U.stateDict := by
  refine ⟨rfl, ?_, by decide⟩
  intro k
  by_cases h : [0] = k <;> simp [Tree.stateDict, Tree.own, Tree.subs, Kind.isParam, Kind.isPBuf, lookup, h]

/-! ## 3. Caches, plain attributes -/

/-- **load_clears_caches**: when `Module._load_from_state_dict` calls `_clear_cache()` (`cc = true`) and every
cache of the target is cleared by its owner's `_clear_cache`, no cache of the previous state survives a load —
whatever the dictionary. -/
theorem load_clears_caches [DecidableEq N] (d : Dict N V) (U : Tree N V)
    (h : U.allTags (·.clearOnLoad) = true) : ∀ pfx, (U.load true d pfx).liveCaches = [] := by
  induction U with
  | leaf => intro; rfl
  | field k n v r ih => intro pfx; simpa [Tree.load, Tree.liveCaches] using ih (by simpa [Tree.allTags] using h) pfx
  | cache t n v r ih =>
    intro pfx
    simp only [Tree.allTags, Bool.and_eq_true] at h
    simp only [Tree.load, h.1, Bool.and_self, if_true, Tree.liveCaches]
    exact ih h.2 pfx
  | child n s r ihs ihr =>
    intro pfx
    simp only [Tree.allTags, Bool.and_eq_true] at h
    simp [Tree.load, Tree.liveCaches, ihs h.1, ihr h.2]

/-- … and the call is necessary: without it (`cc = false`, the self-test mutation "remove `_clear_cache()` from
`_load_from_state_dict`") a populated cache survives the load. -/
theorem load_without_clear_keeps_cache :
    let U : Tree Nat Int := .cache ⟨true, true, true⟩ 7 (some 42) (.field .param 0 1 .leaf)
    (U.load false [([0], 5)] []).liveCaches = [([7], 42)] ∧ (U.load false [([0], 5)] []).stateDict = [([0], 5)] := by
  decide

/-- Loading touches nothing but persisted fields and caches: architecture and every plain attribute
(constructor-determined or mutable) of the target stay what they were. -/
theorem load_preserves_rest [DecidableEq N] (cc : Bool) (d : Dict N V) (U : Tree N V) (pfx : Key N) :
    (U.load cc d pfx).arch = U.arch ∧ (U.load cc d pfx).plainAttrs = U.plainAttrs ∧
    (U.load cc d pfx).ctorAttrs = U.ctorAttrs :=
  ⟨load_arch cc d U pfx, load_attrs cc d _ U pfx, load_attrs cc d _ U pfx⟩

/-- **copy_preserves_persisted**: pickle / deepcopy (with the code's overrides: caches may be dropped) keep the
architecture, every persisted field AND every plain attribute — mutable ones included (this is what distinguishes
them from the state-dict route). -/
theorem copy_preserves_persisted (m : Mech) (T : Tree N V) :
    (T.copy m).arch = T.arch ∧ (T.copy m).stateDict = T.stateDict ∧ (T.copy m).plainAttrs = T.plainAttrs := by
  refine ⟨copy_arch m T, ?_, copy_attrs m _ T⟩
  simp only [Tree.stateDict, copy_own, copy_subs]

/-- A copy never invents a cache: every populated cache of the copy is the original's entry (so a copy of a
model whose caches are valid has valid caches), and the caches tagged for the mechanism are gone. -/
theorem copy_caches_sound (m : Mech) (T : Tree N V) : ∀ e ∈ (T.copy m).liveCaches, e ∈ T.liveCaches := by
  induction T with
  | leaf => intro e he; simp [Tree.copy, Tree.liveCaches] at he
  | field k n v r ih => intro e he; exact ih e (by simpa [Tree.copy, Tree.liveCaches] using he)
  | cache t n v r ih =>
    intro e he
    cases v with
    | none => exact ih e (by simpa [Tree.copy, Tree.liveCaches] using he)
    | some x =>
      simp only [Tree.copy] at he
      split at he
      · simp only [Tree.liveCaches] at he ⊢
        exact List.mem_cons_of_mem _ (ih e he)
      · simp only [Tree.liveCaches, List.mem_cons] at he ⊢
        exact he.imp id (ih e)
  | child n s r ihs ihr =>
    intro e he
    simp only [Tree.copy, Tree.liveCaches, List.mem_append, List.mem_map] at he ⊢
    rcases he with ⟨a, ha, rfl⟩ | he
    · exact Or.inl ⟨a, ihs a ha, rfl⟩
    · exact Or.inr (ihr e he)

theorem copy_drops_tagged (m : Mech) (T : Tree N V) (h : T.allTags (·.dropOn m) = true) :
    (T.copy m).liveCaches = [] := by
  induction T with
  | leaf => rfl
  | field k n v r ih => simpa [Tree.copy, Tree.liveCaches] using ih (by simpa [Tree.allTags] using h)
  | cache t n v r ih =>
    simp only [Tree.allTags, Bool.and_eq_true] at h
    simp only [Tree.copy, h.1, if_true, Tree.liveCaches]
    exact ih h.2
  | child n s r ihs ihr =>
    simp only [Tree.allTags, Bool.and_eq_true] at h
    simp [Tree.copy, Tree.liveCaches, ihs h.1, ihr h.2]

/-! ## 4. Non-interference -/

/-- **predict_depends_only_on** (the abstract non-interference statement).  Let `predict` be any observation of
a model (prior, posterior, objective) that depends only on the architecture, the persisted fields, the
constructor-determined attributes and the *populated caches* — i.e. NOT on mutable plain attributes.  Then a
model restored from `T`'s state dict into any freshly constructed tree `U` of the same architecture and the same
constructor arguments — whatever `U`'s parameter values, mutable attributes and (possibly stale, already
populated) caches were — predicts exactly like `T` with its caches emptied. -/
theorem predict_depends_only_on [DecidableEq N] {Out : Type} (predict : Tree N V → Out)
    (hdep : ∀ t u : Tree N V, t.view = u.view → t.liveCaches = u.liveCaches → predict t = predict u)
    (T U : Tree N V) (harch : U.arch = T.arch) (hctor : U.ctorAttrs = T.ctorAttrs) (hwf : T.wf = true)
    (hclr : U.allTags (·.clearOnLoad) = true) :
    predict (U.load true T.stateDict []) = predict T.clearCaches := by
  apply hdep
  · simp only [Tree.view, Tree.stateDict, Tree.ctorAttrs, clearCaches_arch, clearCaches_own, clearCaches_subs,
      clearCaches_attrs]
    have h1 := load_stateDict_roundtrip true T U harch hwf
    simp only [Tree.stateDict] at h1
    rw [load_arch, h1, load_attrs, harch]
    simp only [Tree.ctorAttrs] at hctor
    rw [hctor]
  · rw [load_clears_caches _ U hclr, clearCaches_live]

/-- The same for copies: a pickled / deep-copied model has the view of the original (plus all its plain
attributes), and only caches of the original. -/
theorem copy_view (m : Mech) (T : Tree N V) : (T.copy m).view = T.view := by
  obtain ⟨h1, h2, _⟩ := copy_preserves_persisted m T
  simp only [Tree.view, h1, h2, Tree.ctorAttrs, copy_attrs]

/-
`persistence_completeness` (full strength, NOT a theorem here):
    for every gpytorch Module class C and every instance reachable by a train/eval/predict history,
    `forward`/`__call__`/the objective read only persisted fields, constructor-determined attributes and caches that
    are valid for the current persisted state.
This is a fact about attribute *use* in ~150 Python classes, not about the abstract tree; it is the hypothesis
`hdep` above.  What is proved instead is the finite audit below: every attribute that is *written* outside
`__init__` is classified, caches are cleared on load and guarded on copy (section 5), `config` attributes are
written by setters only and settings are not snapshotted during use (5b), and every attribute that any method
*reads* from `self` is persisted / constructor-determined / audited / code (5c, from the regenerated read table,
cross-checked against a `__getattribute__` spy on real instances).  The remainder (see
`persistence_completeness_partial`) is ENUMERATED dynamically by harness/props/c18.py (diff of every non-persisted
`__dict__` entry + prediction equality over all model families, save points, settings environments and
argument-sharing pairs), not proved.
-/

/-! ## 5. The audit of the generated class table -/

open Gen.Persistence

inductive Tag where
  /-- eval-mode memo of a parameter-dependent computation: must be cleared by load, guarded on copy -/
  | cache
  /-- tag of a cache (under which setting it was built): read only while that cache is populated, so it may be
  dropped / be stale whenever the cache itself is dropped (`cacheTagOf` names the cache) -/
  | cacheTag
  /-- written and consumed within one call / keyed by the inputs only: carries nothing across calls -/
  | scratch
  /-- set through a public setter / API by the user, never by train / eval / predict -/
  | config
  /-- training data or constructor-supplied tensors (re-assignable through `set_train_data` / `_apply`) -/
  | data
  /-- recomputed from the inputs or from persisted state whenever it is used -/
  | derived
  /-- position of the internal mini-batch iterator (like a DataLoader position) -/
  | cursor
  deriving DecidableEq, Repr

inductive Guard where
  | none
  /-- the effective `__getstate__` pops the attribute (pickle and deepcopy leave it out) -/
  | getstateDrops
  /-- the owner defines `__deepcopy__` and re-attaches the cache by reference -/
  | customDeepcopy
  /-- the cached *value* is a prediction strategy, whose `__deepcopy__` returns None -/
  | valueDeepcopyNone
  deriving DecidableEq, Repr

structure Allowed where
  cls : Nat
  attr : Nat
  tag : Tag
  guard : Guard
  why : String

/-- The audited allow-list: every attribute that some method other than `__init__` writes on `self` in a Module
class of the package, with the reason why it is not prediction-relevant state that persistence would lose. -/
def allowList : List Allowed := [
  -- memo tables of the variational strategies (`@cached`, `add_to_cache`): cleared by `_clear_cache()` =
  -- `clear_cache_hook(self)` on train()/load, popped by `_VariationalStrategy.__getstate__` on copy
  ⟨cid__VariationalStrategy, aid__memoize_cache, .cache, .getstateDrops, "memo of prior/variational distribution"⟩,
  ⟨cid_VariationalStrategy, aid__memoize_cache, .cache, .getstateDrops, "memo: cholesky_factor, pseudo points"⟩,
  ⟨cid_UnwhitenedVariationalStrategy, aid__memoize_cache, .cache, .getstateDrops, "memo: cholesky_factor, pseudo points"⟩,
  ⟨cid_BatchDecoupledVariationalStrategy, aid__memoize_cache, .cache, .getstateDrops, "memo: prior distribution"⟩,
  ⟨cid_CiqVariationalStrategy, aid__memoize_cache, .cache, .getstateDrops, "memo: prior distribution"⟩,
  ⟨cid_GridInterpolationVariationalStrategy, aid__memoize_cache, .cache, .getstateDrops, "memo: prior distribution"⟩,
  ⟨cid_OrthogonallyDecoupledVariationalStrategy, aid__memoize_cache, .cache, .getstateDrops, "memo: prior distribution"⟩,
  ⟨cid_NNVariationalStrategy, aid__memoize_cache, .cache, .getstateDrops, "memo: prior distribution, kl"⟩,
  -- eval-mode kernel caches
  ⟨cid_GridKernel, aid__cached_kernel_mat, .cache, .getstateDrops, "eval-mode Toeplitz/Kronecker grid covariance"⟩,
  ⟨cid_InducingPointKernel, aid__cached_kernel_mat, .cache, .customDeepcopy, "eval-mode K_uu"⟩,
  ⟨cid_InducingPointKernel, aid__cached_kernel_inv_root, .cache, .customDeepcopy, "eval-mode K_uu^{-1/2}"⟩,
  ⟨cid_ExactGP, aid_prediction_strategy, .cache, .valueDeepcopyNone, "eval-mode prediction caches"⟩,
  ⟨cid_ExactGP, aid__strategy_lazily_evaluated, .cacheTag, .none,
    "the lazily_evaluate_kernels setting under which prediction_strategy was built (C03 fix b06885c); only consulted as `prediction_strategy is None or tag != current`, rebuilt together with the strategy on the next prediction"⟩,
  -- scratch
  ⟨cid_UnwhitenedVariationalStrategy, aid__mean_cache, .scratch, .none,
    "written and read inside one forward call (skip_posterior_variances path), detached"⟩,
  ⟨cid_Kernel, aid_distance_module, .scratch, .none, "always None (legacy JIT slot, reset by __getstate__)"⟩,
  ⟨cid_MultiDeviceKernel, aid__MultiDeviceKernel__cached_x1, .scratch, .none, "input-identity key of the scatter cache"⟩,
  ⟨cid_MultiDeviceKernel, aid__MultiDeviceKernel__cached_x2, .scratch, .none, "input-identity key of the scatter cache"⟩,
  ⟨cid_MultiDeviceKernel, aid__kwargs, .scratch, .none, "scattered copies of the inputs"⟩,
  ⟨cid_MultiDeviceKernel, aid__x1_scattered, .scratch, .none, "scattered copies of the inputs"⟩,
  ⟨cid_MultiDeviceKernel, aid__x2_subs, .scratch, .none, "scattered copies of the inputs"⟩,
  -- configuration through public setters
  ⟨cid_Module, aid_STAR, .config, .none,
    "initialize(**{name: value}) forwards non-parameter names to setattr (property setters)"⟩,
  ⟨cid_Kernel, aid__batch_shape, .config, .none, "batch_shape setter"⟩,
  ⟨cid__VariationalStrategy, aid__jitter_val, .config, .none, "jitter_val setter (constructor argument otherwise)"⟩,
  ⟨cid_Likelihood, aid__name_prefix, .config, .none, "pyro integration: name_prefix setter"⟩,
  ⟨cid_Likelihood, aid__num_data, .config, .none, "pyro integration: num_data setter"⟩,
  -- data
  ⟨cid_ExactGP, aid_train_inputs, .data, .none, "training inputs: constructor argument / set_train_data / _apply"⟩,
  ⟨cid_ExactGP, aid__train_targets, .data, .none, "training targets: constructor argument / set_train_data / _apply"⟩,
  ⟨cid_FixedGaussianNoise, aid_noise, .data, .none, "fixed observation noise: constructor argument, moved by _apply"⟩,
  ⟨cid_GaussHermiteQuadrature1D, aid_locations, .data, .none, "quadrature nodes: constants, moved by _apply"⟩,
  ⟨cid_GaussHermiteQuadrature1D, aid_weights, .data, .none, "quadrature weights: constants, moved by _apply"⟩,
  -- derived
  ⟨cid_GridInterpolationKernel, aid_grid_bounds, .derived, .none,
    "with a dynamic grid recomputed from the inputs at every forward (has_initialized_grid is never set); constant otherwise"⟩,
  ⟨cid_NNUtil, aid_index, .derived, .none, "nearest-neighbour index rebuilt by set_nn_idx from the inducing points"⟩,
  ⟨cid_NNUtil, aid_res, .derived, .none, "faiss GPU resources handle"⟩,
  ⟨cid_NNUtil, aid_train_n, .derived, .none, "size of the indexed point set"⟩,
  ⟨cid_NNUtil, aid_train_neighbors, .derived, .none, "sklearn index rebuilt by set_nn_idx"⟩,
  ⟨cid_NNVariationalStrategy, aid_nn_xinduce_idx, .derived, .none,
    "neighbour structure computed from the inducing points by _compute_nn (constructor)"⟩,
  -- cursor
  ⟨cid_NNVariationalStrategy, aid__total_training_batches, .cursor, .none, "number of mini-batches"⟩,
  ⟨cid_NNVariationalStrategy, aid__training_indices_iter, .cursor, .none, "mini-batch position"⟩,
  ⟨cid_NNVariationalStrategy, aid__training_indices_iterator, .cursor, .none, "shuffled mini-batch index sets"⟩,
  ⟨cid_NNVariationalStrategy, aid_current_training_indices, .cursor, .none, "current mini-batch"⟩
]

def rowOf (c : Nat) : Option ClassRow := classes.find? (·.id = c)

/-- `(class, tag attribute, cache attribute)`: the cache each `cacheTag` entry belongs to -/
def cacheTagOf : List (Nat × Nat × Nat) := [(cid_ExactGP, aid__strategy_lazily_evaluated, aid_prediction_strategy)]

/-- **Every attribute assigned outside `__init__` in a Module class is in the audited allow-list.** -/
theorem mutable_attrs_audited :
    ∀ c ∈ classes, ∀ a ∈ c.mutAttrs, (allowList.any fun e => e.cls == c.id && e.attr == a) = true := by
  decide +kernel

/-- … and the allow-list has no stale entries (each names an attribute the source really writes). -/
theorem allowList_not_stale :
    ∀ e ∈ allowList, (classes.any fun c => c.id == e.cls && c.mutAttrs.contains e.attr) = true := by
  decide +kernel

/-- **Every cache is cleared on load**: its owner derives from `gpytorch.Module`, whose `_load_from_state_dict`
calls `_clear_cache()` before delegating to torch, and the owner's effective `_clear_cache` clears it.  (Hypothesis
`hclr` of `predict_depends_only_on` / `load_clears_caches` for the real class table.) -/
theorem caches_cleared_on_load :
    loadCallsClear = true ∧ loadDelegates = true ∧ trainCallsClear = true ∧
    ∀ e ∈ allowList, e.tag = .cache →
      ((rowOf e.cls).any fun r => r.gp && r.clears.contains e.attr) = true := by
  decide +kernel

/-- Every `cacheTag` entry names its cache, which is an audited `cache` entry of the same class (hence cleared on
load and guarded on copy by the two theorems above): whenever the tag is not carried, the cache it describes is
dropped too and both are rebuilt by the next prediction. -/
theorem cache_tags_follow_cache :
    ∀ e ∈ allowList, e.tag = .cacheTag →
      (cacheTagOf.any fun t => t.1 == e.cls && t.2.1 == e.attr &&
        allowList.any fun c => c.cls == e.cls && c.attr == t.2.2 && decide (c.tag = .cache)) = true := by
  decide +kernel

/-- Cache holders recorded as known findings instead of being repaired (none at present): exempt from the guard
obligation below.  Entries are `(class id, attribute id)`. -/
def knownUnguarded : List (Nat × Nat) := []

/-- **Every cache is guarded on copy** (caches may hold non-leaf tensors, which `copy.deepcopy` refuses): the
effective `__getstate__` pops it, or the owner has a custom `__deepcopy__`, or the cached value deep-copies to
None.  On the pristine tree this fails for `GridKernel._cached_kernel_mat` and for the variational strategies'
`_memoize_cache` — the C18 defects. -/
theorem caches_guarded_on_copy :
    ∀ e ∈ allowList, e.tag = .cache → (e.cls, e.attr) ∉ knownUnguarded →
      (match e.guard with
       | .getstateDrops => (rowOf e.cls).any fun r => r.copyDrops.contains e.attr
       | .customDeepcopy => (rowOf e.cls).any fun r => r.hooks.contains hid___deepcopy__
       | .valueDeepcopyNone => strategyDeepcopyNone
       | .none => false) = true := by
  decide +kernel

/-- `Kernel.__getstate__` returns the live `__dict__` (drops nothing) after resetting exactly `distance_module`,
and `__setstate__` installs the dictionary: kernels are copied field for field. -/
theorem kernel_getstate_drops_nothing :
    kernelGetstateReturnsDict = true ∧ kernelSetstateAssignsDict = true ∧
    kernelGetstateResets = [aid_distance_module] := by
  decide +kernel

/-- Persisted names registered outside `__init__` (a fresh model does not have them before its first forward):
only `RFFKernel.randn_weights` (registered in `__init__` when `num_dims` is given); the registrar API of
`Module` itself (`register_prior` / `register_constraint` → `add_module(name, …)`) is the only other entry. -/
theorem lazy_registrations_audited :
    ∀ c ∈ classes, ∀ r ∈ c.regs, r.2.2 = false →
      ((c.id, r.2.1) = (cid_RFFKernel, aid_randn_weights) ∨ (c.id, r.2.1) = (cid_Module, aid_STAR)) := by
  decide +kernel

/-- The complete list of persistence-hook overrides in Module classes (`__getstate__`, `__setstate__`,
`__deepcopy__`, `__copy__`, `__reduce__`, `__reduce_ex__`, `_load_from_state_dict`, `load_state_dict`,
`state_dict`, `_save_to_state_dict`, `__setattr__`, `__getattr__`, `__delattr__`): a new override must be audited. -/
def persistenceHooks : List Nat :=
  [hid___getstate__, hid___setstate__, hid___deepcopy__, hid___copy__, hid___reduce__, hid___reduce_ex__,
   hid__load_from_state_dict, hid_load_state_dict, hid_state_dict, hid__save_to_state_dict,
   hid___setattr__, hid___getattr__, hid___delattr__]

def auditedOverrides : List (Nat × Nat) := [
  (cid_Module, hid__load_from_state_dict),          -- clear caches, then torch
  (cid_Interval, hid__load_from_state_dict),        -- strict=False for the bound buffers (older state dicts)
  (cid_Prior, hid_load_state_dict),                 -- re-seats `_transformed_*` buffers on the base distribution
  (cid_Prior, hid__load_from_state_dict),           -- the same when loaded through a parent module (fix c28e560): super() first, then re-tie
  (cid_MultivariateNormalPrior, hid__load_from_state_dict),  -- super() first, then drops torch's lazy properties derived from the old buffers (fix c50236c)
  (cid_Prior, hid___setattr__),                     -- keeps `_transformed_*` buffers and base_dist in sync
  (cid_Kernel, hid___getstate__), (cid_Kernel, hid___setstate__),
  (cid_GridKernel, hid___getstate__),               -- pops the eval cache
  (cid__VariationalStrategy, hid___getstate__),     -- pops the memo table
  (cid_InducingPointKernel, hid___deepcopy__)
]

theorem hook_overrides_audited :
    ∀ c ∈ classes, ∀ h ∈ c.hooks, h ∈ persistenceHooks → (c.id, h) ∈ auditedOverrides := by
  decide +kernel

/-- Load pre-hooks (legacy-key translation) are registered by exactly these classes: `Module` (shape-relaxed loading
when `load_strict_shapes(False)`), `VariationalStrategy` (inserts a missing `updated_strategy` flag) and `ConstantMean`
(renames the legacy `constant` key); no class registers state-dict save hooks or load post-hooks. -/
theorem load_hooks_audited :
    ∀ c ∈ classes, ∀ h ∈ c.hooks,
      h ∈ [hid__register_load_state_dict_pre_hook, hid_register_load_state_dict_post_hook,
           hid__register_state_dict_hook, hid_register_state_dict_pre_hook, hid__register_load_state_dict_post_hook] →
      h = hid__register_load_state_dict_pre_hook ∧ c.id ∈ [cid_Module, cid_VariationalStrategy, cid_ConstantMean] := by
  decide +kernel

/-! ### The two declined repairs: explicit, named exceptions (known findings, see docs/C18.md) -/

/-- KNOWN FINDING `not-persisted:UniformPrior.*`, `not-persisted:LKJ*Prior.concentration`: the prior classes whose
distribution parameters are plain attributes instead of buffers, so that a state dict does not carry them. -/
def knownUnbufferedPriors : List Nat :=
  [cid_UniformPrior, cid_LKJCholeskyFactorPrior, cid_LKJPrior, cid_LKJCovariancePrior]

/-- some class of the MRO registers a buffer (registration kinds 1 = buffer, 2 = non-persistent buffer) -/
def registersBuffer (c : ClassRow) : Bool :=
  c.mro.any fun b => (rowOf b).any fun r => r.regs.any fun g => g.1 == 1 || g.1 == 2

/-- **Prior parameters are buffers** — for every prior class of the package EXCEPT the named known findings
`knownUnbufferedPriors`; and the exception list is exact (none of those registers a buffer). -/
theorem prior_parameters_are_buffers_except_known :
    (∀ c ∈ classes, cid_Prior ∈ c.mro → c.id ≠ cid_Prior → c.id ∉ knownUnbufferedPriors → registersBuffer c = true) ∧
    (∀ c ∈ classes, c.id ∈ knownUnbufferedPriors → cid_Prior ∈ c.mro ∧ registersBuffer c = false) := by
  decide +kernel

/-- KNOWN FINDING `pickle-closure:*`: the classes that pass a lambda to `register_prior` (a module carrying such a
prior cannot be pickled) … -/
def knownLambdaPriorClosures : List Nat :=
  [cid_ArcKernel, cid_BetaLikelihood, cid_ConstantKernel, cid_CosineKernel, cid_CylindricalKernel, cid_IndexKernel,
   cid_LaplaceLikelihood, cid_LinearKernel, cid_MultitaskGaussianLikelihood, cid_PeriodicKernel__kernels_periodic_kernel,
   cid_PolynomialKernel, cid_StudentTLikelihood, cid__MultitaskGaussianLikelihoodBase]

/-- … and `Module.register_prior(name, prior, "param")`, which builds its closures as local functions. -/
def knownRegisterPriorLocalClosures : Bool := true

/-- **Prior closures are picklable** (methods / partials, no lambdas or local functions) — in every Module class
EXCEPT the named known findings; the exception list is exact. -/
theorem prior_closures_picklable_except_known :
    (∀ c ∈ classes, c.id ∉ knownLambdaPriorClosures → c.lambdaPriors = []) ∧
    (∀ c ∈ classes, c.id ∈ knownLambdaPriorClosures → c.lambdaPriors ≠ []) ∧
    registerPriorLocalClosures = knownRegisterPriorLocalClosures := by
  decide +kernel

/-! ## 5b. Who writes the mutable attributes; snapshots of global settings (wave 3)

The allow-list classifies attributes; these theorems tie the classification to WHO writes them.  A `config` entry is
"set by the user through a public setter, never by train / eval / predict": then every write site must be a property
setter (or `Module.initialize`).  A getter that memoises into the attribute (`self._x = <default>` on first access)
breaks `config_attrs_written_only_by_setters`; an attribute that keeps a snapshot of a global setting outside
`__init__` must be the tag of a cache (`settings_snapshots_audited`). -/

/-- public configuration API other than property setters: `Module.initialize(**{name: value})` forwards unknown
names to `setattr`.  Entries `(class, attribute, method)`. -/
def configApiWriters : List (Nat × Nat × Nat) := [(cid_Module, aid_STAR, aid_initialize)]

/-- **Every write site of a `config` attribute is a property setter** (or the audited `initialize` API): no getter,
`forward`, `__call__` or other method assigns it — so it cannot change as a side effect of using the object. -/
theorem config_attrs_written_only_by_setters :
    ∀ e ∈ allowList, e.tag = .config → ∀ w ∈ attrWriters, w.1 = e.cls → w.2.1 = e.attr →
      (w.2.2.2 = wk_setter ∨ (w.1, w.2.1, w.2.2.1) ∈ configApiWriters) := by
  decide +kernel

/-- `data` attributes (training data, fixed noise, quadrature nodes) are re-assigned only by explicit API
(`set_train_data`, `_apply`, setters, fantasy / sample loading) — never by `forward`, `__call__` or a property getter. -/
theorem data_attrs_not_written_by_use :
    ∀ e ∈ allowList, e.tag = .data → ∀ w ∈ attrWriters, w.1 = e.cls → w.2.1 = e.attr →
      (w.2.2.2 ≠ wk_getter ∧ w.2.2.1 ≠ aid_forward ∧ w.2.2.1 ≠ aid___call__) := by
  decide +kernel

/-- Attributes assigned in `__init__` from a global setting (the value in force at CONSTRUCTION is kept for the
object's life; a fresh model constructed under other settings differs — "constructor arguments are supplied again"
covers them only if the construction-time settings are supplied again, too).  Entries `(class, attribute, setting)`. -/
def ctorSettingsSnapshots : List (Nat × Nat × Nat) := [
  -- the given noise tensor is clamped ONCE to the floor in force at construction
  (cid_FixedGaussianNoise, aid_noise, sid_min_fixed_noise),
  -- default number of quadrature nodes when `num_locs` is not given
  (cid_GaussHermiteQuadrature1D, aid_num_locs, sid_num_gauss_hermite_locs),
  (cid_GaussHermiteQuadrature1D, aid_locations, sid_num_gauss_hermite_locs),
  (cid_GaussHermiteQuadrature1D, aid_weights, sid_num_gauss_hermite_locs),
  -- unlike `_VariationalStrategy.jitter_val` (resolved at every access) LMC freezes the jitter at construction
  (cid_LMCVariationalStrategy, aid_jitter_val, sid_variational_cholesky_jitter)]

/-- **No attribute keeps a snapshot of a global setting taken while the object is USED**, except the audited tags of
caches (`ExactGP._strategy_lazily_evaluated`, dropped / rebuilt together with its cache); snapshots taken in
`__init__` are exactly the audited list above. -/
theorem settings_snapshots_audited :
    (∀ s ∈ settingsStores, s.2.2.2 = false →
      (allowList.any fun e => e.cls == s.1 && e.attr == s.2.1 &&
        (decide (e.tag = .cacheTag) || decide (e.tag = .cache))) = true) ∧
    (∀ s ∈ settingsStores, s.2.2.2 = true → (s.1, s.2.1, s.2.2.1) ∈ ctorSettingsSnapshots) ∧
    (∀ t ∈ ctorSettingsSnapshots, (t.1, t.2.1, t.2.2, true) ∈ settingsStores) := by
  decide +kernel

/-- Parameters / buffers that `__init__` registers from an expression that may still BE the caller's tensor (no
`.clone()` between the constructor argument and the registration; table `ctorArgAliases`, a flow-sensitive may-alias
pass of translator G2p).  `load_state_dict` copies into parameters and buffers IN PLACE, so such a registration
couples every model built from the same tensor (and the caller's tensor itself) — the defect class of the seeded
change C18-9.  Audited entries: -/
def auditedCtorArgAliases : List (Nat × Nat × String) := [
  (cid_PointLatentVariable, aid_X, "by design: `X_init` IS the nn.Parameter the caller creates (documented GPLVM usage)"),
  (cid_MAPLatentVariable, aid_X, "by design: `X_init` IS the nn.Parameter the caller creates"),
  (cid_VariationalLatentVariable, aid_q_mu, "by design: nn.Parameter(X_init) of the caller's initialisation"),
  -- KNOWN FINDING `argument-mutated:*` / `coupled:*:shared-args:*` on /repo HEAD c50236c; repaired by
  -- fixes/C18-clone-constructor-tensors.patch (these entries are then unused: the statement is an inclusion)
  (cid_Interval, aid_lower_bound, "DEFECT: torch.as_tensor(lower_bound).to(dtype) is the caller's tensor when it already has that dtype"),
  (cid_Interval, aid_upper_bound, "DEFECT: the same"),
  (cid_HorseshoePrior, aid_scale, "DEFECT: the caller's `scale` tensor is registered as the buffer"),
  (cid_SmoothedBoxPrior, aid_a, "DEFECT: broadcast_all returns views of the caller's tensors"),
  (cid_SmoothedBoxPrior, aid_b, "DEFECT: the same"),
  (cid_WishartPrior, aid_nu, "DEFECT: the caller's `nu` tensor is registered as the buffer"),
  (cid_InverseWishartPrior, aid_nu, "DEFECT: the same"),
  (cid_InverseWishartPrior, aid_K, "DEFECT: the caller's `K` tensor is registered as the buffer"),
  (cid_Kernel, aid_active_dims, "DEFECT: a tensor-valued `active_dims` is registered as the buffer without a copy")]

/-- **Every parameter / buffer registered in a constructor owns its storage** (is cloned / newly computed on every
path from the constructor arguments) — except the audited entries above. -/
theorem ctor_args_not_aliased :
    ∀ p ∈ ctorArgAliases, (auditedCtorArgAliases.any fun e => e.1 == p.1 && e.2.1 == p.2) = true := by
  decide +kernel

/-- Module-level constants that are ONE `torch.nn.Module` / tensor per process and are used by methods of Module
classes (table `ctorGlobalDefaults`): anything registered from such a constant is shared by every instance in the
process, and `load_state_dict` into one instance rewrites all of them (the defect class of seeded change C18-12).
Audited entries `(class, global, why)`: -/
def auditedGlobalDefaults : List (Nat × Nat × String) := [
  (cid_GreaterThan, aid_softplus, "torch.nn.Softplus(): the default `transform`; has no parameters, buffers or mutable state, stored as the plain attribute `_transform`, never registered"),
  (cid_LessThan, aid_softplus, "the same"),
  (cid_Positive, aid_softplus, "the same")]

/-- **No persisted state lives in a process-global object**: every module-level Module / tensor constant that a
method of a Module class uses is one of the audited state-less ones. -/
theorem ctor_global_defaults_audited :
    ∀ g ∈ ctorGlobalDefaults, (auditedGlobalDefaults.any fun e => e.1 == g.1 && e.2.1 == g.2.1) = true := by
  decide +kernel

/-- Attribute NAMES that some method assigns on ANOTHER object (`new_kernel.batch_shape = …`): every one audited. -/
def auditedForeignWrites : List (Nat × String) := [
  (aid_STAR, "setattr(mod, <name>, …): Module pyro sample loading / to_random_module on the (copied) sub-module; priors.utils re-tying base_dist"),
  (aid__batch_shape, "Kernel.__getitem__ / expand_batch: on the NEW kernel they return"),
  (aid__cached_kernel_inv_root, "InducingPointKernel.__deepcopy__: re-attaches the cache to the copy"),
  (aid__cached_kernel_mat, "InducingPointKernel.__deepcopy__: re-attaches the cache to the copy"),
  (aid__load_strict_shapes, "Module.load_strict_shapes(value): applied to every sub-module; only affects loading"),
  (aid__memoize_cache, "utils/memoize: the memo table of the object passed in; _VariationalStrategy.amortized_exact_gp on the strategy it builds"),
  (aid_batch_shape, "Kernel.expand_batch: on the deep-copied kernel it returns"),
  (aid_distance_module, "MultiDeviceKernel: legacy slot of the replicas, set to None"),
  (aid_likelihood, "ExactGP.get_fantasy_model: on the deep-copied model it returns"),
  (aid_mean_init_std, "VariationalStrategy.__call__: set to 0 and restored around the legacy (un-whitened) conversion"),
  (aid_name_prefix, "PyroGP.__init__: through the likelihood's setter"),
  (aid_num_data, "PyroGP.__init__: through the likelihood's setter"),
  (aid_prediction_strategy, "ExactGP.get_fantasy_model / _VariationalStrategy.get_fantasy_model: on the new model they return"),
  (aid_targets, "DirichletClassificationLikelihood.get_fantasy_likelihood: on the copy it returns"),
  (aid_train_inputs, "ExactGP.get_fantasy_model: on the deep-copied model it returns"),
  (aid_transformed_targets, "DirichletClassificationLikelihood.get_fantasy_likelihood: on the copy it returns (fix 875f682)")]

theorem foreign_writes_audited : ∀ a ∈ foreignWrites, a ∈ auditedForeignWrites.map (·.1) := by
  decide +kernel

/-! ## 5c. What the methods READ (wave 3)

`ownReads` (translator G2p) lists, per class, every `self.<attr>` load in every method other than `__init__` —
`forward`, `__call__`, properties, helpers, hooks: a superset of what is reachable from `forward` / the objective, so
no call graph has to be trusted.  Theorem `reads_classified`: for every Module class, every attribute that any method
of its MRO can read from `self` is

* (a) **persisted** — a parameter, persistent buffer, prior, constraint or child module registered by a class of the
  MRO (the state dict / the module tree carries it),
* (b) **constructor-determined** — assigned by a class of the MRO in `__init__` and by none of them anywhere else,
* (c) an **audited mutable** — in the allow-list above (cache cleared on load and guarded on copy, scratch, config …),
* (d) **code** — a method / property (whose own reads are in the table again) / class-level constant of the MRO, or
  part of `torch.nn.Module`'s own API,
* or one of the exact, reasoned exceptions `readExceptions`.

This is hypothesis `hdep` of `predict_depends_only_on` for the real classes as far as `self.<attr>` reads go; reads
of OTHER objects' attributes are reads of those objects' classes (same table), global settings are covered by
`settings_snapshots_audited` + the settings phase of the correspondence, and the static read sets are cross-checked
against a `__getattribute__` spy on real instances (dynamic ⊆ static) on every run. -/

def rowAt (i : Nat) : Option ClassRow := classes[i]?

/-- every attribute some method (other than `__init__`) of the classes `m` loads from `self` -/
def readsL (m : List Nat) : List Nat := m.flatMap fun i => ownReads.getD i []
def readsOf (c : ClassRow) : List Nat := readsL c.mro

/-- registration kinds that persist: parameter (0), persistent buffer (1), prior (3), constraint (4), child (5);
NOT non-persistent buffers (2) and added-loss-term slots (6) -/
def persistedKinds : List Nat := [0, 1, 3, 4, 5]

/-- names registered (persisting kinds) by the classes `m` -/
def regNames (m : List Nat) : List Nat :=
  (m.filterMap rowAt).flatMap fun r => (r.regs.filter fun g => persistedKinds.contains g.1).map (·.2.1)

/-- (a) persisted: registered by a class of the MRO `m` (possibly through a name pattern, `covers`) -/
def persistedRead (m : List Nat) (a : Nat) : Bool :=
  (regNames m).contains a || covers.any fun p => (regNames m).contains p.1 && p.2 == a

def initRead (m : List Nat) (a : Nat) : Bool := (m.filterMap rowAt).any (·.initAttrs.contains a)
def mutRead (m : List Nat) (a : Nat) : Bool := (m.filterMap rowAt).any (·.mutAttrs.contains a)

/-- (b) constructor-determined: assigned in `__init__` by a class of the MRO and nowhere else by any of them -/
def ctorRead (m : List Nat) (a : Nat) : Bool := initRead m a && !mutRead m a

/-- (c) audited mutable: an allow-list entry of a class of the MRO -/
def auditedRead (m : List Nat) (a : Nat) : Bool := allowList.any fun e => m.contains e.cls && e.attr == a

/-- `torch.nn.Module` / Python object protocol names read by package methods: the persisted stores themselves
(`_parameters`, `_buffers`, `_modules`), API methods, and `training` (the mode: re-established by the caller,
see ASSUMPTIONS).  The harness checks that each is an attribute of a plain `torch.nn.Module()` instance. -/
def torchModuleNames : List Nat :=
  [aid___class__, aid___dict__, aid___getattr__, aid__buffers, aid__modules, aid__parameters, aid__get_name,
   aid_add_module, aid_apply, aid_named_buffers, aid_named_modules, aid_named_parameters, aid_parameters,
   aid_register_buffer, aid_training]

/-- (d) code: method / property / class-level name of a class of the MRO, or torch's own Module API -/
def memberRead (m : List Nat) (a : Nat) : Bool :=
  (m.flatMap fun i => ownMembers.getD i []).contains a || torchModuleNames.contains a

structure ReadException where
  cls : Nat
  attr : Nat
  why : String

/-- Reads that are none of (a)–(d), each with its reason; inherited by subclasses of `cls`. -/
def readExceptions : List ReadException := [
  ⟨cid_Kernel, aid_kernels, "Kernel.__add__/__mul__ read it only under `isinstance(self, AdditiveKernel / ProductKernel)`, where it is a registered ModuleList"⟩,
  ⟨cid_Prior, aid_base_dist, "torch TransformedDistribution state; its parameters are mirrored in the `_transformed_*` buffers and re-tied on load (Prior._load_from_state_dict)"⟩,
  ⟨cid_Prior, aid__transform, "torch TransformedDistribution: constructor-determined transform list"⟩,
  ⟨cid_Prior, aid__islazy, "property `islazy` of the mix-in gpytorch.distributions.Distribution; only MultivariateNormal assigns / uses it"⟩,
  ⟨cid_MultivariateNormalPrior, aid_event_shape, "torch Distribution: constructor-determined shape"⟩,
  ⟨cid_MultivariateNormalPrior, aid_scale_tril, "torch MultivariateNormal lazy property of the bufferized `_unbroadcasted_scale_tril`"⟩,
  ⟨cid_SmoothedBoxPrior, aid__extended_shape, "torch Distribution method"⟩,
  ⟨cid_UniformPrior, aid_high, "KNOWN FINDING not-persisted:UniformPrior.*: plain attribute of torch Uniform, not a buffer"⟩,
  ⟨cid_UniformPrior, aid_low, "KNOWN FINDING not-persisted:UniformPrior.*: plain attribute of torch Uniform, not a buffer"⟩,
  ⟨cid_MultiDeviceKernel, aid_device_ids, "torch DataParallel: constructor-determined"⟩,
  ⟨cid_MultiDeviceKernel, aid_dim, "torch DataParallel: constructor-determined"⟩,
  ⟨cid_MultiDeviceKernel, aid_module, "torch DataParallel: the wrapped base kernel (a registered child)"⟩,
  ⟨cid_MultiDeviceKernel, aid_parallel_apply, "torch DataParallel method"⟩,
  ⟨cid_MultiDeviceKernel, aid_replicate, "torch DataParallel method"⟩,
  ⟨cid_MultiDeviceKernel, aid_scatter, "torch DataParallel method"⟩,
  ⟨cid__MultitaskGaussianLikelihoodBase, aid_has_global_noise, "abstract base: assigned in __init__ of the concrete MultitaskGaussianLikelihood"⟩,
  ⟨cid__MultitaskGaussianLikelihoodBase, aid_has_task_noise, "abstract base: assigned in __init__ of the concrete MultitaskGaussianLikelihood"⟩,
  ⟨cid__MultitaskGaussianLikelihoodBase, aid_noise, "abstract base: property of the concrete MultitaskGaussianLikelihood"⟩,
  ⟨cid__MultitaskGaussianLikelihoodBase, aid_raw_task_noises, "abstract base: parameter registered by the concrete MultitaskGaussianLikelihood"⟩,
  ⟨cid__MultitaskGaussianLikelihoodBase, aid_raw_task_noises_constraint, "abstract base: constraint registered by the concrete MultitaskGaussianLikelihood"⟩,
  ⟨cid__MultitaskGaussianLikelihoodBase, aid_task_noise_covar_factor, "abstract base: parameter registered by the concrete MultitaskGaussianLikelihood"⟩
]

def exceptedRead (m : List Nat) (a : Nat) : Bool := readExceptions.any fun e => m.contains e.cls && e.attr == a

/-- (a) ∨ (b) ∨ (c) ∨ (d) -/
def classifiedRead (m : List Nat) (a : Nat) : Bool :=
  persistedRead m a || ctorRead m a || auditedRead m a || memberRead m a

/-- the table is indexed by class id (justifies `rowAt`), one read / member row per class -/
theorem class_table_indexed :
    (classes.map (·.id)) = List.range classes.length ∧ ownReads.length = classes.length ∧
    ownMembers.length = classes.length := by
  decide +kernel

/-- the MRO of every class of an MRO is contained in it (the class graph is closed), and every MRO entry is a row -/
theorem mro_closed :
    ∀ c ∈ classes, ∀ b ∈ c.mro, ((rowAt b).any fun r => r.mro.all c.mro.contains) = true := by
  decide +kernel

/-- The finite core (`decide +kernel` over the regenerated table): every attribute a class's OWN methods read is
classified relative to that class's MRO, or excepted. -/
theorem own_reads_classified :
    ∀ c ∈ classes, ∀ a ∈ ownReads.getD c.id [], (classifiedRead c.mro a || exceptedRead c.mro a) = true := by
  decide +kernel

/-- The classification is monotone in the MRO: what is classified for a base class stays classified for every
subclass — a subclass that starts mutating a constructor-determined attribute of its base moves it to (c) by
`mutable_attrs_audited`. -/
theorem classified_mono {m m' : List Nat} (a : Nat) (hsub : ∀ i ∈ m, i ∈ m')
    (h : (classifiedRead m a || exceptedRead m a) = true) :
    (classifiedRead m' a || exceptedRead m' a) = true := by
  simp only [classifiedRead, Bool.or_eq_true] at h ⊢
  rcases h with (((hp | hc) | ha) | hm) | he
  · -- (a)
    refine Or.inl (Or.inl (Or.inl (Or.inl ?_)))
    simp only [persistedRead, Bool.or_eq_true] at hp ⊢
    rcases hp with hp | hp
    · exact Or.inl (contains_flatMap_filterMap_mono rowAt _ a hsub hp)
    · refine Or.inr ?_
      simp only [List.any_eq_true, Bool.and_eq_true] at hp ⊢
      obtain ⟨p, hpm, hreg, hpa⟩ := hp
      exact ⟨p, hpm, contains_flatMap_filterMap_mono rowAt _ p.1 hsub hreg, hpa⟩
  · -- (b): still constructor-determined, or some class of the larger MRO mutates it — then it is audited
    simp only [ctorRead, Bool.and_eq_true] at hc
    have hinit : initRead m' a = true := any_filterMap_mono rowAt _ hsub hc.1
    by_cases hmut : mutRead m' a = true
    · refine Or.inl (Or.inl (Or.inr ?_))
      simp only [mutRead, List.any_eq_true, List.mem_filterMap] at hmut
      obtain ⟨r, ⟨i, hi, hri⟩, hra⟩ := hmut
      have hrmem : r ∈ classes := List.mem_of_getElem? hri
      have hid : r.id = i := by
        have h1 : (classes.map (·.id))[i]? = some r.id := by
          rw [List.getElem?_map]; simp only [rowAt] at hri; rw [hri]; rfl
        rw [class_table_indexed.1] at h1
        have h2 := List.getElem?_range (n := classes.length) (i := i)
        by_cases hlt : i < classes.length
        · rw [List.getElem?_range hlt] at h1; exact (Option.some.inj h1).symm
        · rw [List.getElem?_eq_none (by simpa using Nat.le_of_not_lt hlt)] at h1; cases h1
      have haud := mutable_attrs_audited r hrmem a (by simpa using hra)
      simp only [auditedRead, List.any_eq_true, Bool.and_eq_true, beq_iff_eq] at haud ⊢
      obtain ⟨e, he, hcls, hattr⟩ := haud
      exact ⟨e, he, by simpa [hcls, hid] using hi, hattr⟩
    · refine Or.inl (Or.inl (Or.inl (Or.inr ?_)))
      simp only [ctorRead, hinit, Bool.true_and, Bool.not_eq_true'] 
      simpa using hmut
  · -- (c)
    exact Or.inl (Or.inl (Or.inr (any_contains_mono allowList (·.cls) (fun e => e.attr == a) hsub ha)))
  · -- (d)
    refine Or.inl (Or.inr ?_)
    simp only [memberRead, Bool.or_eq_true] at hm ⊢
    exact hm.imp (contains_flatMap_mono _ a hsub) id
  · exact Or.inr (any_contains_mono readExceptions (·.cls) (fun e => e.attr == a) hsub he)

/-- **Every attribute any method of a Module class reads from `self` is persisted, constructor-determined, an
audited mutable, or code** — with the exact exceptions of `readExceptions`; for every class of the table and every
method of every class of its MRO. -/
theorem reads_classified :
    ∀ c ∈ classes, ∀ a ∈ readsOf c, (classifiedRead c.mro a || exceptedRead c.mro a) = true := by
  intro c hc a ha
  simp only [readsOf, readsL, List.mem_flatMap] at ha
  obtain ⟨b, hb, hab⟩ := ha
  have hcl := mro_closed c hc b hb
  cases hrb : rowAt b with
  | none => rw [hrb] at hcl; simp at hcl
  | some r =>
    have hrmem : r ∈ classes := List.mem_of_getElem? hrb
    have hsub : ∀ i ∈ r.mro, i ∈ c.mro := by
      rw [hrb] at hcl
      simpa using hcl
    have hid : r.id = b := by
      have h1 : (classes.map (·.id))[b]? = some r.id := by
        rw [List.getElem?_map]; simp only [rowAt] at hrb; rw [hrb]; rfl
      rw [class_table_indexed.1] at h1
      by_cases hlt : b < classes.length
      · rw [List.getElem?_range hlt] at h1; exact (Option.some.inj h1).symm
      · rw [List.getElem?_eq_none (by simpa using Nat.le_of_not_lt hlt)] at h1; cases h1
    exact classified_mono a hsub (own_reads_classified r hrmem a (by rw [hid]; exact hab))

/-- … and the exception list is exact: each entry is really read by its class and is none of (a)–(d) there. -/
theorem readExceptions_exact :
    ∀ e ∈ readExceptions, ((rowAt e.cls).any fun c =>
      (ownReads.getD e.cls []).contains e.attr && !classifiedRead c.mro e.attr) = true := by
  decide +kernel

/-- Non-vacuity of the read-side statements on the current tree: the tables are populated, every category is
inhabited, and `classified_mono` is applied to a real base-class / subclass pair (what `Kernel`'s methods read is
classified for `Kernel` alone and hence inside the longer MRO of `RBFKernel`). -/
example : ((classes.map fun c => (readsOf c).length).sum ≥ 100 ∧ attrWriters ≠ [] ∧ settingsStores ≠ [] ∧
    settingsReads ≠ []) ∧
    (persistedRead [cid_Kernel, cid_Module] aid_raw_lengthscale = true ∧
     ctorRead [cid_Kernel, cid_Module] aid_ard_num_dims = true ∧
     auditedRead [cid_Kernel, cid_Module] aid__batch_shape = true ∧
     memberRead [cid_Kernel, cid_Module] aid_forward = true ∧
     exceptedRead [cid_Kernel, cid_Module] aid_kernels = true ∧
     classifiedRead [cid_Kernel, cid_Module] aid_kernels = false) := by
  decide +kernel

example : (classifiedRead [cid_RBFKernel__kernels_rbf_kernel, cid_Kernel, cid_Module] aid_kernels ||
    exceptedRead [cid_RBFKernel__kernels_rbf_kernel, cid_Kernel, cid_Module] aid_kernels) = true :=
  classified_mono (m := [cid_Kernel, cid_Module]) aid_kernels (by decide) (by decide +kernel)

/-- Methods that read `self` under a COMPUTED name (no static read set): audited, exact.  The dynamic cross-check
exempts exactly these frames. -/
def auditedDynReads : List (Nat × Nat) := [
  (cid_GridKernel, aid_grid),                    -- getattr(self, f"grid_{i}"): the registered `grid_#` buffers
  (cid_Kernel, aid___getitem__),                 -- copies every parameter / buffer of the kernel by name
  (cid_Kernel, aid_expand_batch),                -- the same
  (cid_Module, aid__get_module_and_name),        -- dotted-name resolution for initialize / constraints
  (cid_Module, aid_constraint_for_parameter_name), -- walks `a.b.c` down the module tree (`base_module = self; …__getattr__(name)`)
  (cid_Module, aid_initialize),                  -- the public setter API
  (cid_Module, aid_register_prior),              -- hasattr(self, <param name>) check at registration
  (cid_Prior, aid___setattr__),                  -- hasattr(self, name) for the `_transformed_*` mirror
  (cid__VariationalStrategy, aid___getstate__)   -- self.__dict__.copy()
]

theorem dynamic_reads_audited : dynReads = auditedDynReads := by
  decide +kernel

/-- **persistence_completeness_partial** — the proved part of `persistence_completeness` (stated in the comment
above): (1) every attribute that any Module class *writes* outside `__init__` is classified in the audited allow-list,
(2) every one classified as a cache is cleared by `load_state_dict` and (3) guarded on copy; since wave 3 also the
READ side — (4) every attribute that any method of a Module class loads from `self` is persisted,
constructor-determined, an audited mutable or code (`reads_classified`, section 5c; exceptions exact), (5) `config`
attributes are written by setters only and (6) no attribute keeps a snapshot of a global setting taken during use.
Still NOT proved (hence `_partial`): that the Python AST is the behaviour (computed `getattr` in the audited
`dynReads` methods, C extensions), that constructor-determined values derive from the constructor ARGUMENTS only
(`ctorSettingsSnapshots` lists the known counter-examples), reads of state held by non-Module helper objects
(prediction strategies, distributions — reachable only through audited cache attributes) and of process-global
state other than `gpytorch.settings`; these stay with the dynamic enumeration of harness/props/c18.py. -/
theorem persistence_completeness_partial :
    (∀ c ∈ classes, ∀ a ∈ c.mutAttrs, (allowList.any fun e => e.cls == c.id && e.attr == a) = true) ∧
    (∀ e ∈ allowList, e.tag = .cache → ((rowOf e.cls).any fun r => r.gp && r.clears.contains e.attr) = true) ∧
    (∀ e ∈ allowList, e.tag = .cache → (e.cls, e.attr) ∉ knownUnguarded → e.guard ≠ .none) ∧
    (∀ c ∈ classes, ∀ a ∈ readsOf c, (classifiedRead c.mro a || exceptedRead c.mro a) = true) ∧
    (∀ e ∈ allowList, e.tag = .config → ∀ w ∈ attrWriters, w.1 = e.cls → w.2.1 = e.attr →
      (w.2.2.2 = wk_setter ∨ (w.1, w.2.1, w.2.2.1) ∈ configApiWriters)) ∧
    (∀ s ∈ settingsStores, s.2.2.2 = false →
      (allowList.any fun e => e.cls == s.1 && e.attr == s.2.1 &&
        (decide (e.tag = .cacheTag) || decide (e.tag = .cache))) = true) :=
  ⟨mutable_attrs_audited, caches_cleared_on_load.2.2.2, by decide +kernel, reads_classified,
   config_attrs_written_only_by_setters, settings_snapshots_audited.1⟩

/-! ## 6. Non-vacuity: a KISS-GP-shaped tree, a different fresh initialisation, stale caches -/

/-- names: 0 likelihood 1 noise_covar 2 raw_noise 3 raw_noise_constraint 4 lower_bound 5 upper_bound
6 covar_module 7 base_kernel 8 raw_lengthscale 9 grid_0 10 has_initialized_grid 11 _cached_kernel_mat
12 prediction_strategy 13 grid_sizes 14 grid_bounds 15 training -/
def kiss (noise lb ub ls g0 : Int) (flag : Int) (kc ps : Option Int) (gb : Int) : Tree Nat Int :=
  .child 0 (.child 1 (.field .param 2 noise (.child 3 (.field (.buffer true) 4 lb (.field (.buffer true) 5 ub .leaf)) .leaf)) .leaf)
  (.child 6 (.field (.attr true) 13 8 (.field (.attr false) 14 gb (.child 7 (.field .param 8 ls .leaf)
      (.field (.buffer true) 9 g0 (.field (.buffer true) 10 flag
        (.cache ⟨true, true, true⟩ 11 kc .leaf))))))
  (.cache ⟨true, true, false⟩ 12 ps (.field (.attr false) 15 0 .leaf)))

def trained : Tree Nat Int := kiss 3 1 100 7 11 0 (some 70) (some 71) 5
def fresh : Tree Nat Int := kiss (-9) 2 50 0 11 0 (some 99) (some 98) 6

example : fresh.arch = trained.arch ∧ fresh.ctorAttrs = trained.ctorAttrs ∧ trained.wf = true ∧
    fresh.allTags (·.clearOnLoad) = true := by decide
/-- torch's order: a module's own buffers (`grid_0`, `has_initialized_grid`) come before its children's entries -/
example : trained.stateDict = [([0, 1, 2], 3), ([0, 1, 3, 4], 1), ([0, 1, 3, 5], 100), ([6, 9], 11),
    ([6, 10], 0), ([6, 7, 8], 7)] := by decide
example : (fresh.load true trained.stateDict []).stateDict = trained.stateDict ∧
    (fresh.load true trained.stateDict []).liveCaches = [] ∧
    (fresh.load false trained.stateDict []).liveCaches = [([6, 11], 99), ([12], 98)] := by decide
example : (trained.copy .deepcopy).liveCaches = [] ∧ (trained.copy .pickle).liveCaches = [([12], 71)] ∧
    (trained.copy .pickle).plainAttrs = trained.plainAttrs := by decide
/-- a `predict` satisfying `hdep` that really reads parameters, bounds and caches -/
example : ∃ predict : Tree Nat Int → Int,
    (∀ t u : Tree Nat Int, t.view = u.view → t.liveCaches = u.liveCaches → predict t = predict u) ∧
    predict trained ≠ predict fresh ∧ predict (fresh.load true trained.stateDict []) = predict trained.clearCaches :=
  ⟨fun t => (t.stateDict.map (·.2)).sum + 1000 * (t.liveCaches.map (·.2)).sum,
   fun t u hv hc => by simp only [Tree.view, Prod.mk.injEq] at hv; simp only [hv.2.1, hc], by decide, by decide⟩

end C18

/-
C10 — MultivariateNormal is the distribution it claims to be.

Every theorem is about the definitions of `GPVerif.Model.MVN` that `drivers/C10.lean` executes at `α = ℚ`
(they are polymorphic in the field, or shared through `DMat.toMatrix`); sizes, matrices, roots, indices are
universally quantified.  Real-analysis statements (`Real.log`, Gaussian measure) are over `ℝ`.
-/
import GPVerif.Bridge.MVN
import GPVerif.Gen.MVN
import Mathlib.Analysis.SpecialFunctions.Log.Basic
import Mathlib.Analysis.SpecialFunctions.Pow.Real
import Mathlib.Analysis.SpecialFunctions.Sqrt
import Mathlib.Probability.Distributions.Gaussian.Multivariate
import Mathlib.Tactic.FieldSimp

set_option linter.unusedSectionVars false

namespace C10
open Matrix MVN

variable {n m k : Nat} {α : Type} [Field α] [DecidableEq α]

/-! ## log_prob: the exact pieces -/

/-- The driver's certified quadratic form is `rᵀ Σ⁻¹ r` (and it is only produced for invertible `Σ`). -/
theorem quadForm_inv_correct (S : DMat n n α) (r : DMat n 1 α) (q : α) (h : quadForm? S r = some q) :
    q = (r.toMatrixᵀ * S.toMatrix⁻¹ * r.toMatrix) 0 0 ∧ IsUnit S.toMatrix.det := by
  unfold quadForm? at h
  cases hX : DMat.inv? S with
  | none => simp [hX] at h
  | some X =>
    simp only [hX, Option.map_some, Option.some.injEq] at h
    refine ⟨?_, DMat.inv?_isUnit hX⟩
    rw [← h, ← DMat.inv?_correct hX]
    simp [Matrix.mul_assoc]

/-- Same statement in vector notation: `q = r ⬝ Σ⁻¹ r`. -/
theorem quadForm_inv_correct_vec (S : DMat n n α) (r : DMat n 1 α) (q : α) (h : quadForm? S r = some q) :
    q = (fun i => r.toMatrix i 0) ⬝ᵥ (S.toMatrix⁻¹ *ᵥ fun i => r.toMatrix i 0) := by
  rw [(quadForm_inv_correct S r q h).1]
  simp only [Matrix.mul_apply, transpose_apply, dotProduct, mulVec]
  simp_rw [Finset.sum_mul, Finset.mul_sum]
  rw [Finset.sum_comm]
  apply Finset.sum_congr rfl; intro i _
  apply Finset.sum_congr rfl; intro j _
  ring

/-- The driver's certified determinant is the determinant. -/
theorem det_correct (S : DMat n n α) (d : α) (h : det? S = some d) : d = S.toMatrix.det := by
  unfold det? at h
  cases hL : DMat.ldl? S with
  | none => simp [hL] at h
  | some Ld =>
    obtain ⟨L, dd⟩ := Ld
    simp only [hL, Option.map_some, Option.some.injEq] at h
    rw [← h, DMat.ldl?_det hL]

/-- `logProbParts?` returns exactly `((v−μ)ᵀ Σ⁻¹ (v−μ), det Σ)`. -/
theorem logprob_parts_correct (S : DMat n n α) (mu v : DMat n 1 α) (q d : α)
    (h : logProbParts? S mu v = some (q, d)) :
    q = ((v.toMatrix - mu.toMatrix)ᵀ * S.toMatrix⁻¹ * (v.toMatrix - mu.toMatrix)) 0 0 ∧
      d = S.toMatrix.det := by
  unfold logProbParts? at h
  cases hq : quadForm? S (v.sub mu) with
  | none => simp [hq] at h
  | some q' =>
    cases hd : det? S with
    | none => simp [hq, hd] at h
    | some d' =>
      simp only [hq, hd, Option.bind_eq_bind, Option.bind_some, Option.some.injEq, Prod.mk.injEq] at h
      obtain ⟨rfl, rfl⟩ := h
      refine ⟨?_, det_correct S _ hd⟩
      have := (quadForm_inv_correct S (v.sub mu) _ hq).1
      simpa using this

/-- Gaussian density of `N(μ, Σ)` at a point with squared Mahalanobis distance `quad`, `k` dimensions. -/
noncomputable def gaussianDensity (k : Nat) (det quad : ℝ) : ℝ :=
  Real.exp (-(1 / 2) * quad) / Real.sqrt ((2 * Real.pi) ^ k * det)

/-- **log_prob is assembled from exactly these pieces**: for `det Σ > 0`,
`log N(v; μ, Σ) = −½ (quad + log det Σ + k log 2π)`, the expression of multivariate_normal.py:252. -/
theorem logprob_split (k : Nat) (det quad : ℝ) (hdet : 0 < det) :
    Real.log (gaussianDensity k det quad) =
      logProbAssemble quad (Real.log det) (k * Real.log (2 * Real.pi)) := by
  unfold gaussianDensity logProbAssemble
  have h2pi : (0 : ℝ) < 2 * Real.pi := by positivity
  have hpow : (0 : ℝ) < (2 * Real.pi) ^ k := pow_pos h2pi k
  have hprod : (0 : ℝ) < (2 * Real.pi) ^ k * det := mul_pos hpow hdet
  rw [Real.log_div (Real.exp_pos _).ne' (Real.sqrt_pos.mpr hprod).ne', Real.log_exp, Real.log_sqrt hprod.le,
    Real.log_mul hpow.ne' hdet.ne', Real.log_pow]
  ring

/-- The density is the textbook one: `(2π)^{-k/2} (det Σ)^{-1/2} exp(−½ quad)`. -/
theorem gaussianDensity_eq (k : Nat) (det quad : ℝ) (hdet : 0 < det) :
    gaussianDensity k det quad =
      (2 * Real.pi) ^ (-(k : ℝ) / 2) * det ^ (-(1 : ℝ) / 2) * Real.exp (-(1 / 2) * quad) := by
  unfold gaussianDensity
  have h2pi : (0 : ℝ) < 2 * Real.pi := by positivity
  have hpow : (0 : ℝ) < (2 * Real.pi) ^ k := pow_pos h2pi k
  rw [Real.sqrt_eq_rpow, Real.mul_rpow hpow.le hdet.le, ← Real.rpow_natCast (2 * Real.pi) k,
    ← Real.rpow_mul h2pi.le, div_eq_mul_inv, mul_inv, ← Real.rpow_neg h2pi.le, ← Real.rpow_neg hdet.le]
  have e1 : -((k : ℝ) * (1 / 2)) = -(k : ℝ) / 2 := by ring
  have e2 : -((1 : ℝ) / 2) = -(1 : ℝ) / 2 := by ring
  rw [e1, e2]; ring

/-- The exact rational pieces of the driver are the real ones: casting `ℚ → ℝ` commutes with `det`. -/
theorem det_cast (S : Matrix (Fin n) (Fin n) ℚ) :
    ((S.det : ℚ) : ℝ) = (S.map ((↑) : ℚ → ℝ)).det := by
  have := (RingHom.map_det (Rat.castHom ℝ) S)
  simpa [RingHom.mapMatrix_apply] using this

/-! ## log_prob: which covariance batch element each value row meets -/

/-- If every (padded) covariance batch dimension `c` equals the corresponding dimension `d` of `value − mean`
or is `1`, the repeat factor `d / c` reproduces the dimension, and `covar.repeat(...)` reads at every
position what broadcasting reads.  (This is the hypothesis the code needs: `value − mean` must already have
the full broadcast batch shape.) -/
theorem logprob_repeat_is_broadcast (d c : Nat) (hc : c = d ∨ c = 1) (hd : 0 < d) :
    (d / c) * c = d ∧ ∀ i < d, repeatSource c i = broadcastSource c i := by
  unfold repeatSource broadcastSource
  rcases hc with h | h
  · subst h
    refine ⟨by rw [Nat.div_self hd, Nat.one_mul], ?_⟩
    intro i hi
    by_cases h1 : c = 1
    · subst h1; simp [Nat.mod_one]
    · simp [h1, Nat.mod_eq_of_lt hi]
  · subst h
    exact ⟨by simp, fun i _ => by simp [Nat.mod_one]⟩

/-- … and when the hypothesis fails (`value − mean` has a size-1 batch dimension where the covariance has
`c > 1`) the factor is `0`: the repeated covariance is empty.  This is the broadcast defect reported as
`logprob:lazy-broadcast`. -/
theorem logprob_repeat_factor_zero (c : Nat) (hc : 1 < c) : repeatFactors [1] [c] = [0] := by
  simp [repeatFactors, padBatch, Nat.div_eq_of_lt hc]

theorem repeatFactors_length (ds cs : List Nat) (h : cs.length ≤ ds.length) :
    (repeatFactors ds cs).length = ds.length := by
  simp [repeatFactors, padBatch]; omega

/-! ## KL divergence -/

theorem invQuadCols_correct (S : DMat n n α) (M : DMat n m α) (v : α) (h : invQuadCols? S M = some v) :
    v = trace (M.toMatrixᵀ * S.toMatrix⁻¹ * M.toMatrix) ∧
    v = ∑ c, (fun i => M.toMatrix i c) ⬝ᵥ (S.toMatrix⁻¹ *ᵥ fun i => M.toMatrix i c) := by
  unfold invQuadCols? at h
  cases hX : DMat.inv? S with
  | none => simp [hX] at h
  | some X =>
    simp only [hX, Option.map_some, Option.some.injEq] at h
    have h1 : v = trace (M.toMatrixᵀ * S.toMatrix⁻¹ * M.toMatrix) := by
      rw [← h, ← DMat.inv?_correct hX]
      simp [DMat.trace, Matrix.mul_assoc]
    exact ⟨h1, by rw [h1, trace_quad_eq_sum_cols]⟩

theorem klClosedParts_correct (Sp Sq : DMat n n α) (mup muq : DMat n 1 α) (tr quad ratio : α)
    (h : klClosedParts? Sp Sq mup muq = some (tr, quad, ratio)) :
    tr = trace (Sq.toMatrix⁻¹ * Sp.toMatrix) ∧
    quad = ((mup.toMatrix - muq.toMatrix)ᵀ * Sq.toMatrix⁻¹ * (mup.toMatrix - muq.toMatrix)) 0 0 ∧
    ratio = Sq.toMatrix.det / Sp.toMatrix.det ∧ IsUnit Sq.toMatrix.det := by
  unfold klClosedParts? at h
  cases hX : DMat.inv? Sq with
  | none => simp [hX] at h
  | some X =>
    cases hp : det? Sp with
    | none => simp [hX, hp] at h
    | some dp =>
      cases hq : det? Sq with
      | none => simp [hX, hp, hq] at h
      | some dq =>
        simp only [hX, hp, hq, Option.bind_eq_bind, Option.bind_some, Option.some.injEq, Prod.mk.injEq] at h
        obtain ⟨rfl, rfl, rfl⟩ := h
        rw [det_correct Sp dp hp, det_correct Sq dq hq, ← DMat.inv?_correct hX]
        refine ⟨by simp [DMat.trace], by simp [Matrix.mul_assoc], rfl, DMat.inv?_isUnit hX⟩

/-- **The code's form of the KL equals the closed form** (trace cyclicity): the single
`inv_quad(Σq, [μp − μq | R])` call returns `Σ_c cᵀ Σq⁻¹ c = ΔμᵀΣq⁻¹Δμ + tr(Σq⁻¹ Σp)` for every root `R`
(any number of columns) with `R Rᵀ = Σp`. -/
theorem kl_code_form_eq_closed_form (Sp Sq : DMat n n α) (mup muq : DMat n 1 α) (R : DMat n m α)
    (hR : R.toMatrix * R.toMatrixᵀ = Sp.toMatrix) (code tr quad ratio : α)
    (hc : klCode? Sq mup muq R = some code)
    (hk : klClosedParts? Sp Sq mup muq = some (tr, quad, ratio)) :
    code = quad + tr := by
  obtain ⟨htr, hquad, -, -⟩ := klClosedParts_correct Sp Sq mup muq tr quad ratio hk
  unfold klCode? at hc
  rw [(invQuadCols_correct Sq _ code hc).1, toMatrix_hcat, trace_hcat_quad, trace_col_quad, trace_root_quad,
    hR, htr, hquad]
  simp

/-- Pure matrix form, any commutative ring: `Σ_cols cᵀ X c = Δμᵀ X Δμ + tr(X · R Rᵀ)`. -/
theorem kl_trace_cyclicity {R : Type*} [CommRing R] (X : Matrix (Fin n) (Fin n) R)
    (dmu : Matrix (Fin n) (Fin 1) R) (Rt : Matrix (Fin n) (Fin m) R) :
    (∑ c, (fun i => hcatM dmu Rt i c) ⬝ᵥ (X *ᵥ fun i => hcatM dmu Rt i c)) =
      (dmuᵀ * X * dmu) 0 0 + trace (X * (Rt * Rtᵀ)) := by
  rw [← trace_quad_eq_sum_cols, trace_hcat_quad, trace_col_quad, trace_root_quad]

/-- With the log-determinants supplied, the code's assembly is the textbook
`KL(p‖q) = ½ [tr(Σq⁻¹Σp) + ΔμᵀΣq⁻¹Δμ − k + log det Σq − log det Σp]`. -/
theorem kl_assemble_closed_form (tr quad ldq ldp kk : ℝ) :
    klAssemble ldq ldp (quad + tr) kk = (1 / 2) * (tr + quad - kk + ldq - ldp) := by
  unfold klAssemble; ring

/-- **KL vanishes for identical arguments**, rational part: trace term `= k`, `Δμ`-term `= 0`,
determinant ratio `= 1`. -/
theorem kl_self_zero (S : DMat n n α) (mu : DMat n 1 α) (tr quad ratio : α)
    (h : klClosedParts? S S mu mu = some (tr, quad, ratio)) :
    tr = (n : α) ∧ quad = 0 ∧ ratio = 1 := by
  obtain ⟨htr, hquad, hratio, hu⟩ := klClosedParts_correct S S mu mu tr quad ratio h
  refine ⟨?_, ?_, ?_⟩
  · rw [htr, Matrix.nonsing_inv_mul _ hu]; simp
  · rw [hquad]; simp
  · rw [hratio]; exact div_self hu.ne_zero

/-- … hence the assembled value is `0` (the two log-determinants are the same number). -/
theorem kl_self_zero_assembled (ld : ℝ) (k : Nat) : klAssemble ld ld ((0 : ℝ) + (k : ℝ)) (k : ℝ) = 0 := by
  unfold klAssemble; ring

/-- The code path itself: `inv_quad(Σ, [0 | R])` with `R Rᵀ = Σ` returns `k`. -/
theorem kl_self_code_form (S : DMat n n α) (mu : DMat n 1 α) (R : DMat n m α)
    (hR : R.toMatrix * R.toMatrixᵀ = S.toMatrix) (code : α) (hc : klCode? S mu mu R = some code) :
    code = (n : α) := by
  unfold klCode? at hc
  have hX : ∃ X, DMat.inv? S = some X := by
    unfold invQuadCols? at hc
    cases hX : DMat.inv? S with
    | none => simp [hX] at hc
    | some X => exact ⟨X, rfl⟩
  obtain ⟨X, hX⟩ := hX
  rw [(invQuadCols_correct S _ code hc).1, toMatrix_hcat, trace_hcat_quad, trace_col_quad, trace_root_quad, hR,
    Matrix.nonsing_inv_mul _ (DMat.inv?_isUnit hX)]
  simp

/-- The KL of two positive-definite Gaussians only needs `log` of the determinant *ratio*. -/
theorem kl_logdet_ratio (dq dp : ℝ) (hq : 0 < dq) (hp : 0 < dp) :
    Real.log (dq / dp) = Real.log dq - Real.log dp := Real.log_div hq.ne' hp.ne'

/-! ## rsample -/

/-- **Second moment of `μ + L ε`**: `L Lᵀ = Σ ⇒ L·I·Lᵀ = Σ`, and summing `(L eᵢ)(L eᵢ)ᵀ` over the unit
vectors gives `Σ`. -/
theorem rsample_second_moment {R : Type*} [CommRing R] (L : Matrix (Fin n) (Fin m) R)
    (S : Matrix (Fin n) (Fin n) R) (h : L * Lᵀ = S) :
    L * (1 : Matrix (Fin m) (Fin m) R) * Lᵀ = S ∧
    ∑ i, vecMulVec (L *ᵥ Pi.single i 1) (L *ᵥ Pi.single i 1) = S := by
  refine ⟨by rw [Matrix.mul_one, h], ?_⟩
  rw [← h]
  ext a b
  simp [Matrix.sum_apply, vecMulVec_apply, Matrix.mul_apply]

/-- … and over any full orthonormal set (the columns of `Q`, `Q Qᵀ = 1`). -/
theorem rsample_second_moment_orthonormal {R : Type*} [CommRing R] (L : Matrix (Fin n) (Fin m) R)
    (Q : Matrix (Fin m) (Fin m) R) (S : Matrix (Fin n) (Fin n) R) (h : L * Lᵀ = S) (hQ : Q * Qᵀ = 1) :
    ∑ i, vecMulVec (L *ᵥ fun j => Q j i) (L *ᵥ fun j => Q j i) = S := by
  have : ∑ i, vecMulVec (L *ᵥ fun j => Q j i) (L *ᵥ fun j => Q j i) = (L * Q) * (L * Q)ᵀ := by
    ext a b
    simp only [Matrix.sum_apply, vecMulVec_apply, Matrix.mul_apply, mulVec, dotProduct, transpose_apply]
  rw [this, Matrix.transpose_mul, Matrix.mul_assoc, ← Matrix.mul_assoc Q, hQ, Matrix.one_mul, h]

/-- The model's `rsample` at the `j`-th unit vector, minus the mean, is the `j`-th column of `L`: stacking
these outputs recovers the root that was used, whichever it is. -/
theorem rsample_unit_column (mu : DMat n 1 α) (L : DMat n m α) (j : Fin m) (i : Fin n) :
    (rsample mu L (colVec (Pi.single j 1))).toMatrix i 0 - mu.toMatrix i 0 = L.toMatrix i j := by
  have hc : (colVec (Pi.single j (1 : α))).toMatrix =
      Matrix.of fun i (_ : Fin 1) => (Pi.single j (1 : α) : Fin m → α) i := DMat.toMatrix_ofMatrix _
  simp only [rsample, DMat.toMatrix_add, DMat.toMatrix_mul, hc, Matrix.add_apply, add_sub_cancel_left]
  rw [Matrix.mul_apply]
  simp [Matrix.of_apply, Pi.single_apply]

/-- `rsample` is affine in the base sample. -/
theorem rsample_affine (mu : DMat n 1 α) (L : DMat n m α) (e1 e2 : DMat m 1 α) (c1 c2 : α) :
    (rsample mu L ((e1.smul c1).add (e2.smul c2))).toMatrix - mu.toMatrix =
      c1 • ((rsample mu L e1).toMatrix - mu.toMatrix) + c2 • ((rsample mu L e2).toMatrix - mu.toMatrix) := by
  simp [rsample, Matrix.mul_add]

/-- What the harness observes determines the sampler: a map `f` with `f e − μ` linear in `e` whose
unit-vector images are stacked as the columns of `X` is `e ↦ μ + X e`; so `X Xᵀ = Σ` is exactly
"`rsample(e) = μ + L e` for a root `L` of `Σ`". -/
theorem rsample_determined_by_units {R : Type*} [CommRing R] (g : (Fin m → R) →ₗ[R] (Fin n → R))
    (e : Fin m → R) : g e = (Matrix.of fun i j => g (Pi.single j 1) i) *ᵥ e := by
  have he : e = ∑ j, e j • (Pi.single j (1 : R) : Fin m → R) := by
    ext a; simp [Finset.sum_apply, Pi.single_apply]
  conv_lhs => rw [he]
  rw [map_sum]
  ext i
  simp [mulVec, dotProduct, Finset.sum_apply, mul_comm]

/-! ## variance, confidence region -/

theorem variance_is_diag (S : DMat n n α) (i : Fin n) : variance S i = S.toMatrix i i := rfl

/-- `confidence_region = μ ∓ 2σ`: symmetric around the mean with half-width `2σ`, `σ² = Σᵢᵢ`. -/
theorem confidence_region (mu sd : Fin n → ℝ) (S : Matrix (Fin n) (Fin n) ℝ) (hsd : ∀ i, sd i = Real.sqrt (S i i))
    (hS : ∀ i, 0 ≤ S i i) (i : Fin n) :
    (confidenceRegion mu sd).1 i + (confidenceRegion mu sd).2 i = 2 * mu i ∧
    (((confidenceRegion mu sd).2 i - mu i) / 2) ^ 2 = S i i ∧
    (confidenceRegion mu sd).1 i ≤ mu i ∧ mu i ≤ (confidenceRegion mu sd).2 i := by
  have h0 : 0 ≤ sd i := by rw [hsd]; exact Real.sqrt_nonneg _
  simp only [confidenceRegion]
  refine ⟨by ring, ?_, by linarith, by linarith⟩
  have : (mu i + 2 * sd i - mu i) / 2 = sd i := by ring
  rw [this, hsd, Real.sq_sqrt (hS i)]

/-! ## affine laws -/

/-- **`aX + b`**: with `X = μ + L ε`, `aX + b = (aμ + b) + (aL) ε`, and `(aL)(aL)ᵀ = a² Σ` — the model's
`scaleMean/shiftMean/scaleCov` are exactly these. -/
theorem affine_laws (c d : α) (mu : DMat n 1 α) (L : DMat n m α) (S : DMat n n α) (eps : DMat m 1 α)
    (hL : L.toMatrix * L.toMatrixᵀ = S.toMatrix) :
    (c • (rsample mu L eps).toMatrix + (colVec fun _ => d).toMatrix
        = (rsample (shiftMean d (scaleMean c mu)) (L.smul c) eps).toMatrix) ∧
    (L.smul c).toMatrix * (L.smul c).toMatrixᵀ = (scaleCov c S).toMatrix := by
  constructor
  · simp only [rsample, shiftMean, scaleMean, DMat.toMatrix_add, DMat.toMatrix_mul, DMat.toMatrix_smul,
      smul_add, Matrix.smul_mul]
    abel
  · simp only [scaleCov, DMat.toMatrix_smul, ← hL, Matrix.transpose_smul, Matrix.smul_mul, Matrix.mul_smul,
      smul_smul]

/-- Division by a scalar is multiplication by its inverse (multivariate_normal.py:450). -/
theorem affine_div (c : α) (S : DMat n n α) :
    (scaleCov (1 / c) S).toMatrix = (1 / (c * c)) • S.toMatrix := by
  simp only [scaleCov, DMat.toMatrix_smul]
  congr 1
  by_cases hc : c = 0
  · simp [hc]
  · field_simp

/-- **Sum of independents**: `X₁ + X₂ = (μ₁ + μ₂) + [L₁ | L₂] (ε₁; ε₂)` and `[L₁|L₂][L₁|L₂]ᵀ = Σ₁ + Σ₂`:
means add, covariances add. -/
theorem affine_sum_independent {a b : Nat} (mu1 mu2 : DMat n 1 α) (L1 : DMat n a α) (L2 : DMat n b α)
    (S1 S2 : DMat n n α) (h1 : L1.toMatrix * L1.toMatrixᵀ = S1.toMatrix)
    (h2 : L2.toMatrix * L2.toMatrixᵀ = S2.toMatrix) (e1 : DMat a 1 α) (e2 : DMat b 1 α) :
    (hcat L1 L2).toMatrix * (hcat L1 L2).toMatrixᵀ = (sumCov S1 S2).toMatrix ∧
    (rsample mu1 L1 e1).toMatrix + (rsample mu2 L2 e2).toMatrix =
      (sumMean mu1 mu2).toMatrix + (L1.toMatrix * e1.toMatrix + L2.toMatrix * e2.toMatrix) := by
  constructor
  · rw [toMatrix_hcat, sumCov, DMat.toMatrix_add, ← h1, ← h2]
    ext i j
    simp only [Matrix.mul_apply, transpose_apply, hcatM, Matrix.add_apply]
    rw [Fin.sum_univ_add]
    simp
  · simp only [rsample, sumMean, DMat.toMatrix_add, DMat.toMatrix_mul]
    abel

/-- `add_jitter(ε)`: covariance `Σ + ε I`, i.e. the sum with an independent `N(0, ε I)`. -/
theorem add_jitter_cov (e : α) (S : DMat n n α) :
    (jitterCov e S).toMatrix = S.toMatrix + e • (1 : Matrix (Fin n) (Fin n) α) := by
  simp [jitterCov]

/-! ## indexing = marginal -/

/-- `margMean?`/`margCov?` read exactly the selected positions. -/
theorem marg_entries (S : DMat n n α) (mu : DMat n 1 α) (ps : List Nat) (h : ∀ p ∈ ps, p < n) :
    ∃ (C : DMat ps.length ps.length α) (mm : DMat ps.length 1 α),
      margCov? S ps = some C ∧ margMean? mu ps = some mm ∧
      (∀ i j, C.toMatrix i j = S.toMatrix (selFn ps h i) (selFn ps h j)) ∧
      (∀ i, mm.toMatrix i 0 = mu.toMatrix (selFn ps h i) 0) := by
  refine ⟨S.submatrix (selFn ps h) (selFn ps h), mu.submatrix (selFn ps h) id, ?_, ?_, ?_, ?_⟩
  · unfold margCov?; rw [dif_pos h]
  · unfold margMean?; rw [dif_pos h]
  · intro i j; simp
  · intro i; simp

/-- **Indexing is the marginal of the selected components**: for `X = μ + L ε` with `L Lᵀ = Σ` and any
index function (repetitions and any order allowed), the selected sub-vector `P X` is `μ[idx] + (P L) ε`
and `(P L)(P L)ᵀ = Σ[idx, idx]`. -/
theorem getitem_is_marginal {R : Type*} [CommRing R] (idx : Fin k → Fin n) (mu : Matrix (Fin n) (Fin 1) R)
    (L : Matrix (Fin n) (Fin m) R) (S : Matrix (Fin n) (Fin n) R) (hL : L * Lᵀ = S)
    (eps : Matrix (Fin m) (Fin 1) R) :
    selM R idx * (mu + L * eps) = mu.submatrix idx id + (selM R idx * L) * eps ∧
    (selM R idx * L) * (selM R idx * L)ᵀ = S.submatrix idx idx ∧
    selM R idx * S * (selM R idx)ᵀ = S.submatrix idx idx := by
  refine ⟨by rw [Matrix.mul_add, selM_mul, Matrix.mul_assoc], ?_, ?_⟩
  · rw [Matrix.transpose_mul, Matrix.mul_assoc, ← Matrix.mul_assoc L, hL, mul_selM_transpose, selM_mul]
    rfl
  · rw [Matrix.mul_assoc, mul_selM_transpose, selM_mul]; rfl

/-- The model's marginal (`margMean?`, `margCov?`) is that marginal. -/
theorem getitem_is_marginal_model (S : DMat n n α) (mu : DMat n 1 α) (ps : List Nat) (h : ∀ p ∈ ps, p < n)
    (C : DMat ps.length ps.length α) (mm : DMat ps.length 1 α)
    (hC : margCov? S ps = some C) (hm : margMean? mu ps = some mm) :
    C.toMatrix = selM α (selFn ps h) * S.toMatrix * (selM α (selFn ps h))ᵀ ∧
    mm.toMatrix = selM α (selFn ps h) * mu.toMatrix := by
  unfold margCov? at hC
  unfold margMean? at hm
  rw [dif_pos h] at hC hm
  have hC' := Option.some.inj hC
  have hm' := Option.some.inj hm
  subst hC' hm'
  constructor
  · rw [Matrix.mul_assoc, mul_selM_transpose, selM_mul]; simp
  · rw [selM_mul]; simp

/-- Measure-theoretic reading over `ℝ`: under the Gaussian measure `N(μ, Σ)` (Mathlib's
`multivariateGaussian`), the selected coordinates have means `μ[idx]` and covariances `Σ[idx, idx]`. -/
theorem getitem_is_marginal_measure (mu : EuclideanSpace ℝ (Fin n)) (S : Matrix (Fin n) (Fin n) ℝ)
    (hS : S.PosSemidef) (idx : Fin k → Fin n) (a b : Fin k) :
    ProbabilityTheory.covariance (fun x : EuclideanSpace ℝ (Fin n) => x (idx a)) (fun x => x (idx b))
        (ProbabilityTheory.multivariateGaussian mu S) = S.submatrix idx idx a b ∧
    ProbabilityTheory.variance (fun x : EuclideanSpace ℝ (Fin n) => x (idx a))
        (ProbabilityTheory.multivariateGaussian mu S) = S (idx a) (idx a) :=
  ⟨ProbabilityTheory.covariance_eval_multivariateGaussian hS _ _,
   ProbabilityTheory.variance_eval_multivariateGaussian hS _⟩

/-! ### index normalisation, all sizes -/

/-- Negative and non-negative integer indices (`-n ≤ i < n`) normalise to `i mod n`; everything else is
rejected. -/
theorem getitem_int_normalised (n : Nat) (i : Int) :
    (∀ p, normInt n i = some p → p < n ∧ (p : Int) = i % n) ∧
    (normInt n i = none ↔ (i < -(n : Int) ∨ (n : Int) ≤ i)) := by
  refine ⟨?_, normInt_eq_none_iff n i⟩
  intro p hp
  have hlt := normInt_lt hp
  rw [normInt_eq_some_iff] at hp
  refine ⟨hlt, ?_⟩
  rcases hp with ⟨h0, h1, h2⟩ | ⟨h0, h1, h2⟩
  · rw [h2, Int.emod_eq_of_lt h0 h1]
  · have : i % n = (i + n) % n := by simp
    rw [this, Int.emod_eq_of_lt (by omega) (by omega), h2]

/-- Slices (Python `slice.indices` semantics; any start/stop incl. `None`, negative, out of range; any
step ≥ 1): the selected positions are exactly `{p | lo ≤ p < hi, step ∣ p − lo}` in increasing order
`lo + j·step`, all `< n`. -/
theorem getitem_slice_normalised (n : Nat) (s e : Option Int) (st : Int) (hst : 0 < st) :
    (∀ p, p ∈ slicePositions n s e st ↔
      (sliceIndices n s e st).1 ≤ p ∧ (p : Int) < (sliceIndices n s e st).2 ∧
        st ∣ ((p : Int) - (sliceIndices n s e st).1)) ∧
    (∀ p ∈ slicePositions n s e st, p < n) ∧
    (∀ j (hj : j < (slicePositions n s e st).length),
      ((slicePositions n s e st)[j] : Int) = (sliceIndices n s e st).1 + j * st) ∧
    0 ≤ (sliceIndices n s e st).1 ∧ (sliceIndices n s e st).2 ≤ n := by
  obtain ⟨b1, b2, b3, b4⟩ := sliceIndices_pos_bounds n s e hst
  refine ⟨mem_slicePositions_pos n s e hst, slicePositions_lt n s e (ne_of_gt hst), ?_, b1, b4⟩
  intro j hj
  rw [slicePositions_getElem]
  have : 0 ≤ (j : Int) * st := Int.mul_nonneg (by omega) (by omega)
  exact Int.toNat_of_nonneg (by omega)

/-- Negative steps (Python semantics; torch rejects them) also stay in range. -/
theorem getitem_slice_any_step_in_range (n : Nat) (s e : Option Int) (st : Int) (hst : st ≠ 0) :
    ∀ p ∈ slicePositions n s e st, p < n := slicePositions_lt n s e hst

/-- Every index entry the model accepts for a dimension of size `n` selects positions `< n` — so the
marginal `margCov?` of a normalised index is always defined. -/
theorem normDim_in_range (n : Nat) (i : Idx) (sel : Sel) (h : normDim n i = some sel) :
    match sel with
    | .drop p => p < n
    | .keep ps => ∀ p ∈ ps, p < n := by
  cases i with
  | int i =>
    simp only [normDim, Option.map_eq_some_iff] at h
    obtain ⟨p, hp, rfl⟩ := h
    exact normInt_lt hp
  | slice s e st =>
    simp only [normDim] at h
    split at h
    · rename_i hst
      have := Option.some.inj h; subst this
      exact slicePositions_lt n s e (ne_of_gt hst)
    · exact absurd h (by simp)
  | ellipsis => simp [normDim] at h
  | list is =>
    simp only [normDim, Option.map_eq_some_iff] at h
    obtain ⟨ps, hps, rfl⟩ := h
    exact mapM_option_forall (P := fun p => p < n) (fun a b hab => normInt_lt hab) is ps hps

/-- A normalised index has one selector per dimension (ellipsis expanded, trailing dimensions filled). -/
theorem normIndex_length (shape : List Nat) (idx : List Idx) (sels : List Sel)
    (h : normIndex shape idx = some sels) : sels.length = shape.length := by
  unfold normIndex at h
  cases hf : expandEllipsis shape.length idx with
  | none => simp [hf] at h
  | some full =>
    simp only [hf, Option.bind_some] at h
    have hl := expandEllipsis_length hf
    rw [mapM_option_length _ _ h]
    simp [hl]

/-- **Indexing the event dimension with any accepted index expression yields the marginal**: the selected
positions are in range, hence `margMean?`/`margCov?` return `μ[idx]` and `Σ[idx, idx]` entrywise. -/
theorem getitem_event_marginal (S : DMat n n α) (mu : DMat n 1 α) (i : Idx) (ps : List Nat)
    (h : normDim n i = some (Sel.keep ps)) :
    ∃ (hb : ∀ p ∈ ps, p < n) (C : DMat ps.length ps.length α) (mm : DMat ps.length 1 α),
      margCov? S ps = some C ∧ margMean? mu ps = some mm ∧
      (∀ a b, C.toMatrix a b = S.toMatrix (selFn ps hb a) (selFn ps hb b)) ∧
      (∀ a, mm.toMatrix a 0 = mu.toMatrix (selFn ps hb a) 0) := by
  have hb : ∀ p ∈ ps, p < n := normDim_in_range n i _ h
  obtain ⟨C, mm, h1, h2, h3, h4⟩ := marg_entries S mu ps hb
  exact ⟨hb, C, mm, h1, h2, h3, h4⟩

/-! ## hypotheses are satisfiable (non-vacuity) -/

example : quadForm? (DMat.ofMatrix !![(2 : ℚ), 1; 1, 2]) (DMat.ofMatrix !![(1 : ℚ); 1 / 2]) = some (1 / 2) := by
  decide +kernel

example : det? (DMat.ofMatrix !![(2 : ℚ), 1; 1, 2]) = some 3 := by decide +kernel

example : normDim 5 (Idx.slice (some (-4)) none 2) = some (Sel.keep [1, 3]) := by decide +kernel
example : normDim 5 (Idx.int (-1)) = some (Sel.drop 4) := by decide +kernel
example : normIndex [2, 3, 4] [Idx.ellipsis, Idx.list [2, -4]] =
    some [Sel.keep [0, 1], Sel.keep [0, 1, 2], Sel.keep [2, 0]] := by decide +kernel

/-- a root with `R Rᵀ = Σp`, and both sides of `kl_code_form_eq_closed_form` defined -/
example : ∃ (code tr quad ratio : ℚ),
    klCode? (DMat.ofMatrix !![(3 : ℚ), 0; 0, 3]) (DMat.ofMatrix !![(1 : ℚ); 1]) (DMat.ofMatrix !![(0 : ℚ); 0])
      (DMat.ofMatrix !![(1 : ℚ), 1; 1, -1]) = some code ∧
    klClosedParts? (DMat.ofMatrix !![(2 : ℚ), 0; 0, 2]) (DMat.ofMatrix !![(3 : ℚ), 0; 0, 3])
      (DMat.ofMatrix !![(1 : ℚ); 1]) (DMat.ofMatrix !![(0 : ℚ); 0]) = some (tr, quad, ratio) ∧
    code = quad + tr := ⟨2, 4 / 3, 2 / 3, 9 / 4, by decide +kernel, by decide +kernel, by norm_num⟩

example : (DMat.ofMatrix !![(1 : ℚ), 1; 1, -1]).toMatrix * (DMat.ofMatrix !![(1 : ℚ), 1; 1, -1]).toMatrixᵀ =
    (DMat.ofMatrix !![(2 : ℚ), 0; 0, 2]).toMatrix := by
  simp only [DMat.toMatrix_ofMatrix]
  ext i j; fin_cases i <;> fin_cases j <;> simp [Matrix.mul_apply, Fin.sum_univ_two] <;> norm_num

example : ∃ tr quad ratio : ℚ, klClosedParts? (DMat.ofMatrix !![(2 : ℚ), 1; 1, 2]) (DMat.ofMatrix !![(2 : ℚ), 1; 1, 2])
    (DMat.ofMatrix !![(1 : ℚ); 1]) (DMat.ofMatrix !![(1 : ℚ); 1]) = some (tr, quad, ratio) :=
  ⟨2, 0, 1, by decide +kernel⟩

/-! ## The regenerated definitions (`Gen/MVN.lean`, translator G7, rebuilt from the Python source on every run)
equal the specifications -/

section gen
open GenMVN

/-! ### (a) kl_mvn_mvn -/

/-- The generated `inv_quad` call is the model's code form: `Σq` is solved, the root of `Σp` is stacked after the
column `μp − μq`. -/
theorem gen_kl_code_form (covar : Side → DMat n n α) (mup muq : DMat n 1 α) (R : DMat n m α) :
    klTracePlusInvQuadForm? covar mup muq R = klCode? (covar Side.q) mup muq R ∧
    klSolveSide = Side.q ∧ klRootSide = Side.p := ⟨rfl, rfl, rfl⟩

/-- The generated scalar assembly is the model's (`½`, both log-determinants with their signs, the `−k`). -/
theorem gen_kl_assembly (ld : Side → α) (tpq k : α) :
    klRes ld tpq k = klAssemble (ld Side.q) (ld Side.p) tpq k := by
  unfold klRes klAssemble; ring

/-- **Generated KL = closed form**: for every root `R` of the covariance of the operand the code takes the
root of, the generated expression is `½[tr(Σq⁻¹Σp) + ΔμᵀΣq⁻¹Δμ − k + ld q − ld p]`. -/
theorem gen_kl_eq_closed_form (covar : Side → DMat n n α) (mup muq : DMat n 1 α) (R : DMat n m α)
    (hR : R.toMatrix * R.toMatrixᵀ = (covar klRootSide).toMatrix) (ld : Side → α) (k code tr quad ratio : α)
    (hc : klTracePlusInvQuadForm? covar mup muq R = some code)
    (hk : klClosedParts? (covar Side.p) (covar Side.q) mup muq = some (tr, quad, ratio)) :
    klRes ld code k = (1 / 2) * (tr + quad - k + ld Side.q - ld Side.p) := by
  have h := kl_code_form_eq_closed_form (covar Side.p) (covar Side.q) mup muq R hR code tr quad ratio
    ((gen_kl_code_form covar mup muq R).1 ▸ hc) hk
  rw [gen_kl_assembly, h]; unfold klAssemble; ring

/-! ### (b) log_prob -/

/-- The generated assembly is the model's, the generated solve is the certified quadratic form of `value − mean`. -/
theorem gen_logprob_assembly (q ld k l : α) (S : DMat n n α) (v mu : DMat n 1 α) :
    logProbRes q ld k l = logProbAssemble q ld (k * l) ∧
    logProbInvQuad? S v mu = quadForm? S (v.sub mu) ∧
    (∀ qq d, logProbParts? S mu v = some (qq, d) → logProbInvQuad? S v mu = some qq) := by
  refine ⟨by unfold logProbRes logProbAssemble; ring, rfl, ?_⟩
  intro qq d h
  unfold logProbParts? at h
  show quadForm? S (v.sub mu) = some qq
  cases hq : quadForm? S (v.sub mu) with
  | none => simp [hq] at h
  | some q' =>
    cases hd : det? S with
    | none => simp [hq, hd] at h
    | some d' =>
      simp only [hq, hd, Option.bind_eq_bind, Option.bind_some, Option.some.injEq, Prod.mk.injEq] at h
      rw [h.1]

/-- The generated `padded_batch_shape` and repeat factors are the model's (all ranks, all shapes). -/
theorem gen_logprob_repeat (ds cs : List Nat) :
    logProbPadded ds cs = padBatch ds.length cs ∧ logProbRepeat ds cs = repeatFactors ds cs ++ [1, 1] ∧
    logProbBranch ds cs = (if ds = cs then 0 else if ds.length < cs.length then 1 else 2) := by
  have hp : logProbPadded ds cs = padBatch ds.length cs := by
    unfold logProbPadded padBatch
    have : ds.length + 1 + 1 - (cs.length + 2) = ds.length - cs.length := by omega
    rw [this]
  refine ⟨hp, ?_, ?_⟩
  · unfold logProbRepeat repeatFactors; rw [hp]
  · unfold logProbBranch; by_cases h : ds = cs <;> simp [h]

/-! ### (c) __getitem__ -/

/-- The generated if/elif chain is the specified dispatch. -/
theorem gen_getitem_dispatch (l d : Nat) (e : Bool) (last : Idx) :
    getitemDispatch l d e last = dispatchSpec l d e last := by
  unfold getitemDispatch dispatchSpec
  have h1 : (((l : Int) ≤ (d : Int) - 1) ∧ e = false) ↔ (l + 1 ≤ d ∧ e = false) := by
    constructor <;> rintro ⟨a, b⟩ <;> exact ⟨by omega, b⟩
  have h2 : ((l : Int) > (d : Int)) ↔ l > d := by omega
  simp only [h1, h2]
  cases last <;> simp [Idx.isInt, Idx.isSlice, Idx.isEllipsis]

/-- The ellipsis pre-pass: untouched unless the index is longer than the mean's rank and contains an ellipsis;
then the ellipses are dropped and a too-short remainder is an IndexError. -/
theorem gen_getitem_pre (l d ne : Nat) (hne : ne ≤ l) :
    getitemPre l d ne = if l > d ∧ 0 < ne then (if l - ne < d then none else some (l - ne)) else some l := by
  unfold getitemPre
  have h1 : ((l : Int) > (d : Int) ∧ ne > 0) ↔ (l > d ∧ 0 < ne) := by omega
  have h2 : ((l : Int) - (ne : Int) < (d : Int)) ↔ l - ne < d := by omega
  simp only [h1, h2]

theorem range_getD (n j : Nat) (h : j < n) : (List.range n).getD j 0 = j := by
  simp [List.getD_eq_getElem?_getD, h]

theorem map_range_getD (n : Nat) (ps : List Nat) (h : ∀ p ∈ ps, p < n) :
    ps.map (fun j => (List.range n).getD j 0) = ps := by
  induction ps with
  | nil => rfl
  | cons a t ih =>
    simp only [List.map_cons]
    rw [range_getD n a (h a (by simp)), ih (fun p hp => h p (by simp [hp]))]

/-- **Every event-indexing branch of the generated `__getitem__` reads the marginal**: for all sizes `n`, all
index/rank configurations that reach an event branch, every accepted last index (int, slice, index list), the
tuple the branch indexes the covariance operator with denotes rows = columns = the normalised positions of
`last_idx`. -/
theorem gen_getitem_is_marginal (n l d : Nat) (e : Bool) (last : Idx) (sel : Sel)
    (h1 : ¬ (l + 1 ≤ d ∧ e = false)) (h2 : ¬ l > d) (hs : normDim n last = some sel) :
    covSelPositions n last (getitemCov (getitemDispatch l d e last)) = some (sel, sel) := by
  rw [gen_getitem_dispatch]
  unfold dispatchSpec
  rw [if_neg h1, if_neg h2]
  cases last with
  | int i => simp [getitemCov, covSelPositions, tokSel, hs]; cases sel <;> simp_all [normDim]
  | slice s t st => simp [getitemCov, covSelPositions, tokSel, hs]
  | ellipsis => simp [normDim] at hs
  | list is =>
    have hk : ∃ ps, sel = Sel.keep ps := by
      simp only [normDim, Option.map_eq_some_iff] at hs
      obtain ⟨ps, _, rfl⟩ := hs; exact ⟨ps, rfl⟩
    obtain ⟨ps, rfl⟩ := hk
    have hb : ∀ p ∈ ps, p < n := normDim_in_range n _ _ hs
    have hm : ps.map (fun j => (List.range n)[j]?.getD 0) = ps := by
      conv_rhs => rw [← List.map_id ps]
      apply List.map_congr_left
      intro a ha; simp [hb a ha]
    simp [getitemCov, covSelPositions, tokSel, hs, hm]

/-- The ellipsis branch keeps the whole covariance. -/
theorem gen_getitem_ellipsis (n l d : Nat) (e : Bool) (h1 : ¬ (l + 1 ≤ d ∧ e = false)) (h2 : ¬ l > d) :
    covSelPositions n Idx.ellipsis (getitemCov (getitemDispatch l d e Idx.ellipsis)) =
      some (Sel.keep (List.range n), Sel.keep (List.range n)) := by
  rw [gen_getitem_dispatch]; unfold dispatchSpec; rw [if_neg h1, if_neg h2]; rfl

/-- Batch-only and too-many-indices branches: the whole index goes to the operator / the branch raises. -/
theorem gen_getitem_other_branches :
    getitemCov Br.batchOnly = CovSel.index [Tok.whole] ∧ getitemCov Br.tooMany = CovSel.raise := ⟨rfl, rfl⟩

/-- Sub-matrix at equal row and column positions is the marginal covariance of the model. -/
theorem subMat_eq_margCov (S : DMat n n α) (ps : List Nat) : subMat? S ps ps = margCov? S ps := by
  unfold subMat? margCov?
  by_cases h : ∀ p ∈ ps, p < n
  · rw [dif_pos ⟨h, h⟩, dif_pos h]
  · rw [dif_neg (fun hh => h hh.1), dif_neg h]

/-! ### (d) affine operations, variance clamp, confidence region, shapes -/

/-- The generated `__mul__` / `__truediv__` / `__add__` / `__radd__` / `add_jitter` formulas are the model's
(`a·μ`, `a²·Σ`, `1/a`, sums, `μ + b`, `Σ` unchanged, `Σ + εI`) — with `affine_laws` these are the laws of the
random vector. -/
theorem gen_affine_laws (c : α) (mu mu2 : DMat n 1 α) (S S2 : DMat n n α) :
    mulMean c mu = scaleMean c mu ∧ mulCov c S = scaleCov c S ∧ divFactor c = 1 / c ∧
    addMean mu mu2 = sumMean mu mu2 ∧ addCov S S2 = sumCov S S2 ∧
    addScalarMean c mu = shiftMean c mu ∧ addScalarCov S = S ∧ addJitterCov c S = jitterCov c S ∧
    (mulIdentity : α) = 1 ∧ (raddIdentity : α) = 0 := by
  refine ⟨rfl, ?_, rfl, rfl, rfl, rfl, rfl, rfl, rfl, rfl⟩
  unfold mulCov scaleCov; rw [pow_two]

/-- The shortcuts `d * 1 → d` and `0 + d → d` agree with the formulas. -/
theorem gen_affine_identity_sound (mu : DMat n 1 α) (S : DMat n n α) :
    (scaleMean (mulIdentity : α) mu).toMatrix = mu.toMatrix ∧ (scaleCov (mulIdentity : α) S).toMatrix = S.toMatrix ∧
    (shiftMean (raddIdentity : α) mu).toMatrix = mu.toMatrix := by
  refine ⟨by simp [scaleMean, mulIdentity], by simp [scaleCov, mulIdentity], ?_⟩
  have hc : (colVec (fun _ => (0 : α)) : DMat n 1 α).toMatrix = Matrix.of fun _ _ => (0 : α) :=
    DMat.toMatrix_ofMatrix _
  simp only [shiftMean, raddIdentity, DMat.toMatrix_add, hc]
  ext i j
  simp

/-- The generated clamp is `max(·, min_variance)` elementwise; the lazy branch reads the diagonal. -/
theorem gen_variance_clamp {β : Type} [Field β] [LinearOrder β] (floor : β) (v : Fin n → β) (S : DMat n n β) :
    varianceClamp floor v = varianceClamped floor v ∧ varianceLazy S = variance S := by
  refine ⟨?_, rfl⟩
  unfold varianceClamp varianceClamped
  by_cases h : ∃ i, v i < floor
  · rw [if_pos h]
  · rw [if_neg h]
    funext i
    have : floor ≤ v i := not_lt.mp (fun hh => h ⟨i, hh⟩)
    exact (max_eq_left this).symm

/-- The generated confidence region is `μ ∓ 2σ`. -/
theorem gen_confidence_region (mu sd : Fin n → α) :
    GenMVN.confidenceRegion mu sd = MVN.confidenceRegion mu sd := by
  unfold GenMVN.confidenceRegion MVN.confidenceRegion
  refine Prod.ext ?_ ?_ <;> funext i <;> simp only <;> ring

/-- `expand` targets `batch_size + (event dims of the operand)`; `unsqueeze` accepts `−nb−1 ≤ dim ≤ nb` and
normalises negatives; `get_base_samples` has shape `sample + batch + base`. -/
theorem gen_shape_ops (bs b ss ks : List Nat) (k k' nb : Nat) (dim : Int) :
    expandLocShape bs (b ++ [k]) = bs ++ [k] ∧ expandCovShape bs (b ++ [k, k']) = bs ++ [k, k'] ∧
    unsqueezeDim nb dim = unsqueezeDimSpec nb dim ∧ GenMVN.extendedShape ss bs ks = MVN.extendedShape ss bs ks := by
  exact ⟨by simp [expandLocShape], by simp [expandCovShape], rfl, rfl⟩

theorem unsqueezeDim_in_range (nb : Nat) (dim r : Int) (h : unsqueezeDim nb dim = some r) : 0 ≤ r ∧ r ≤ nb := by
  rw [(gen_shape_ops [] [] [] [] 0 0 nb dim).2.2.1] at h
  unfold unsqueezeDimSpec at h
  split at h
  · simp at h
  · have := Option.some.inj h
    split at this <;> omega

/-! ### (e) rsample -/

/-- **The two `permute`s of `rsample` are inverse to each other** (all ranks): output axis `j` of the result reads,
through both permutations, axis `j` of the viewed base samples — so entry `(s, b, i)` of the result is
`loc[b,i] + Σ_j root[b,i,j]·eps[s,b,j]`; the core is the model's `μ + L ε`; `sample_shape` is recovered and the final
view restores `sample_shape + loc.shape`. -/
theorem gen_rsample_index_map (d : Nat) :
    (∀ j, j ≤ d → permSource (rsamplePermIn d) (permSource (rsamplePermOut d) j) = j) ∧
    (rsamplePermIn d).length = d + 1 ∧ (rsamplePermOut d).length = d + 1 := by
  refine ⟨?_, by simp [rsamplePermIn], by simp [rsamplePermOut]⟩
  intro j hj
  unfold permSource rsamplePermIn rsamplePermOut
  cases j with
  | zero =>
    simp [List.getD_eq_getElem?_getD]
  | succ i =>
    have hi : i < d := by omega
    simp [List.getD_eq_getElem?_getD, List.getElem?_append, hi]
    omega

theorem gen_rsample_core (mu : DMat n 1 α) (L : DMat n m α) (eps : DMat m 1 α) (ss loc bs : List Nat) (k : Nat) :
    (rsampleCore mu L eps).toMatrix = (rsample mu L eps).toMatrix ∧
    rsampleSampleShape (ss ++ loc) loc.length = ss ∧ rsampleOutShape ss loc = ss ++ loc ∧
    rsampleViewBatch (bs ++ [k]) = bs := by
  refine ⟨by simp [rsampleCore, rsample, add_comm], by simp [rsampleSampleShape], rfl, by simp [rsampleViewBatch]⟩

/-- **Index map of the two generated `permute`s, for every batch rank** (`b` = multi-index over the batch dimensions, any
length): the permuted base samples at `(b, j, s)` are the viewed base samples at `(s, b, j)`, and the permuted result at
`(s, b, i)` is the un-permuted result `root @ eps + loc` at `(b, i, s)`.  With `gen_rsample_core` (one batch element, one
sample): entry `(s, b, i)` of `rsample(base_samples)` is `loc[b, i] + Σ_j root[b, i, j] · eps[s, b, j]`, whatever the number
of batch dimensions.  (Two `transpose`s instead of the second `permute` agree with it for ≤ 1 batch dimension only.) -/
theorem gen_rsample_entry_map (b : List Nat) (s : Nat) :
    (∀ j, PermReads (rsamplePermIn (b.length + 1)) (b ++ [j, s]) (s :: (b ++ [j]))) ∧
    (∀ i, PermReads (rsamplePermOut (b.length + 1)) (s :: (b ++ [i])) (b ++ [i, s])) := by
  constructor
  · intro j
    refine ⟨by simp [rsamplePermIn], by simp [rsamplePermIn], ?_⟩
    intro a ha
    have hlen : (rsamplePermIn (b.length + 1)).length = b.length + 2 := by simp [rsamplePermIn]
    rw [hlen] at ha
    unfold rsamplePermIn
    by_cases hlast : a = b.length + 1
    · subst hlast
      simp [List.getD_eq_getElem?_getD]
    · have ha' : a < b.length + 1 := by omega
      have h1 : ((List.range' 1 (b.length + 1 + 1 - 1)) ++ [0]).getD a 0 = a + 1 := by
        simp [List.getD_eq_getElem?_getD, List.getElem?_append, ha']
        omega
      rw [h1]
      rw [List.getD_cons_succ, getD_append_two_left b j s a (by omega)]
  · intro i
    refine ⟨by simp [rsamplePermOut], by simp [rsamplePermOut], ?_⟩
    intro a ha
    have hlen : (rsamplePermOut (b.length + 1)).length = b.length + 2 := by simp [rsamplePermOut]
    rw [hlen] at ha
    unfold rsamplePermOut
    cases a with
    | zero => simp [List.getD_eq_getElem?_getD]
    | succ c =>
      have hc : c < b.length + 1 := by omega
      have h1 : ([(b.length + 1 + 1) - 1] ++ (List.range' 0 (b.length + 1 - 0))).getD (c + 1) 0 = c := by
        simp [List.getD_eq_getElem?_getD, hc]
      rw [h1, List.getD_cons_succ, getD_append_two_left b i s c (by omega)]

/-- Both generated argument lists hit every axis `0 … d`, for every rank … -/
theorem gen_rsample_perms_onto (d a : Nat) (ha : a < d + 1) :
    (∃ j, j < (rsamplePermIn d).length ∧ (rsamplePermIn d).getD j 0 = a) ∧
    (∃ j, j < (rsamplePermOut d).length ∧ (rsamplePermOut d).getD j 0 = a) := by
  constructor
  · unfold rsamplePermIn
    cases a with
    | zero => exact ⟨d, by simp, by simp [List.getD_eq_getElem?_getD]⟩
    | succ c =>
      refine ⟨c, by simp; omega, ?_⟩
      have hc : c < d := by omega
      simp [List.getD_eq_getElem?_getD, List.getElem?_append, hc]
      omega
  · unfold rsamplePermOut
    by_cases h : a = d
    · subst h; exact ⟨0, by simp, by simp [List.getD_eq_getElem?_getD]⟩
    · have hlt : a < d := by omega
      exact ⟨a + 1, by simp; omega, by simp [List.getD_eq_getElem?_getD, hlt]⟩

/-- … so `PermReads` determines the multi-index that is read: the index map of `gen_rsample_entry_map` is the only one. -/
theorem permReads_unique (perm o inp inp' : List Nat)
    (hp : ∀ a, a < perm.length → ∃ j, j < perm.length ∧ perm.getD j 0 = a)
    (h : PermReads perm o inp) (h' : PermReads perm o inp') : inp = inp' := by
  obtain ⟨l1, _, r1⟩ := h
  obtain ⟨l2, _, r2⟩ := h'
  apply List.ext_getElem (by omega)
  intro a ha ha'
  obtain ⟨j, hj, hja⟩ := hp a (by omega)
  have e1 := r1 j hj
  have e2 := r2 j hj
  rw [hja] at e1 e2
  simp only [List.getD_eq_getElem?_getD, List.getElem?_eq_getElem ha, List.getElem?_eq_getElem ha', Option.getD_some] at e1 e2
  rw [e1, e2]

/-- two batch dimensions, sample index 7: result entry `(7, 1, 2, 5)` reads `(root @ eps + loc)[1, 2, 5, 7]` -/
example : PermReads (rsamplePermOut 3) [7, 1, 2, 5] [1, 2, 5, 7] := by decide
example : permuteIdx (rsamplePermOut 3) [7, 1, 2, 5] = [1, 2, 5, 7] := by decide

/-! ### (f) `__init__`: batch broadcast of mean and covariance (LinearOperator branch) -/

/-- **`__init__` stores mean and covariance with the broadcast batch shape**: for every pair of batch shapes that
broadcasts (any ranks, size-1 dimensions anywhere — `Bcast.broadcastShapes` is torch's right-aligned rule) the generated
conditional `expand`s leave `self.loc` with shape `broadcast ++ [n]` and `self._covar` with shape `broadcast ++ [n1, n2]`, and
the batch shape handed to `Distribution.__init__` is the same `broadcast`. -/
theorem gen_init_broadcast (mb cb bs : List Nat) (n n1 n2 : Nat) (hb : broadcastShapes mb cb = some bs) :
    initBatchShape (mb ++ [n]) (cb ++ [n1, n2]) = some bs ∧
    initShapes (mb ++ [n]) (cb ++ [n1, n2]) = some (bs ++ [n], bs ++ [n1, n2]) ∧
    initShapes (mb ++ [n]) (cb ++ [n1, n2]) = initShapesSpec (mb ++ [n]) (cb ++ [n1, n2]) ∧
    initDistBatch (mb ++ [n]) (cb ++ [n1, n2]) bs = bs := by
  have hB : initBatchShape (mb ++ [n]) (cb ++ [n1, n2]) = some bs := by
    unfold initBatchShape; rw [take_append_one, take_append_two, hb]
  have hS : initShapes (mb ++ [n]) (cb ++ [n1, n2]) = some (bs ++ [n], bs ++ [n1, n2]) := by
    unfold initShapes; rw [hB]
    simp only [Option.map_some, Option.some.injEq, Prod.mk.injEq]
    constructor
    · unfold initLocShape initEventShape
      rw [take_append_one, drop_append_one]
      by_cases h : mb = bs
      · subst h; simp
      · simp [h]
    · unfold initCovShape
      rw [take_append_two, drop_append_two]
      by_cases h : cb = bs
      · subst h; simp
      · simp [h]
  refine ⟨hB, hS, ?_, rfl⟩
  rw [hS]; unfold initShapesSpec
  rw [take_append_one, take_append_two, drop_append_one, drop_append_two, hb]; rfl

/-- When the batch shapes do not broadcast, nothing is stored (`torch.broadcast_shapes` raises). -/
theorem gen_init_reject (mb cb : List Nat) (n n1 n2 : Nat) (hb : broadcastShapes mb cb = none) :
    initShapes (mb ++ [n]) (cb ++ [n1, n2]) = none := by
  unfold initShapes initBatchShape; rw [take_append_one, take_append_two, hb]; rfl

example : broadcastShapes [3] [1] = some [3] := by decide
example : broadcastShapes [2, 3] [2, 1] = some [2, 3] := by decide
example : broadcastShapes [1, 3] [2, 1] = some [2, 3] := by decide
example : broadcastShapes [2] [3] = none := by decide
example : initShapes [3, 4] [1, 4, 4] = some ([3, 4], [3, 4, 4]) := by decide

/-! ### (g) the two recorded defects of `__getitem__`, as theorems about the generated code

Both statements stop building when the source is repaired (the generated `getitemCov Br.advanced` / `getitemPre` change), so
the known-finding entries cannot outlive the defect. -/

/-- **Known finding `getitem:advanced-batch-event-pairing`**: with an index list `bs` on the batch dimension and an index
list `es` on the event dimension the generated advanced branch `cov[(*rest_idx, last_idx, :)][..., last_idx]` returns the
matrix `f i j = Σ_{bs_i}[es_i, es_j]`; it is the covariance of the selected components `(bs_i, es_i)` — independent batch
members — exactly at the entries whose two rows come from the same batch member or where that entry of `Σ_{bs_i}` vanishes. -/
theorem gen_getitem_paired_advanced_except_known {β : Type} [OfNat β 0] (cov : Nat → Nat → Nat → β) (bs es : List Nat) :
    ∃ f, covSelPaired cov bs es (getitemCov Br.advanced) = some f ∧
      (∀ i j, f i j = cov (bs.getD i 0) (es.getD i 0) (es.getD j 0)) ∧
      (∀ i j, f i j = pairedMarginal cov bs es i j ↔
        (bs.getD i 0 = bs.getD j 0 ∨ cov (bs.getD i 0) (es.getD i 0) (es.getD j 0) = 0)) := by
  refine ⟨fun i j => cov (bs.getD i 0) (es.getD i 0) (es.getD j 0), rfl, fun _ _ => rfl, ?_⟩
  intro i j
  unfold pairedMarginal
  by_cases h : bs.getD i 0 = bs.getD j 0
  · rw [if_pos h]; exact ⟨fun _ => Or.inl h, fun _ => rfl⟩
  · rw [if_neg h]; exact ⟨fun hh => Or.inr hh, fun hh => hh.resolve_left h⟩

/-- … and a kernel-checked counterexample: two batch members with symmetric covariances, `d[[0, 1], [1, 0]]`: the returned
matrix is not symmetric and differs from the covariance of the selected components. -/
theorem gen_getitem_paired_advanced_counterexample :
    ∃ (cov : Nat → Nat → Nat → ℚ) (bs es : List Nat) (f : Nat → Nat → ℚ),
      (∀ b r c, cov b r c = cov b c r) ∧ bs.length = es.length ∧
      covSelPaired cov bs es (getitemCov Br.advanced) = some f ∧
      f 0 1 ≠ f 1 0 ∧ f 0 1 ≠ pairedMarginal cov bs es 0 1 := by
  refine ⟨fun b r c => if r = c then 2 else (b + 1 : ℚ), [0, 1], [1, 0], _, ?_, rfl, rfl, ?_, ?_⟩
  · intro b r c
    by_cases h : r = c
    · simp [h]
    · have h' : ¬ c = r := fun hh => h hh.symm
      simp [h, h']
  · norm_num
  · norm_num [pairedMarginal]

/-- **Known finding `getitem:multiple-ellipsis`**: an index with a second ellipsis, `(..., x, ...)`, of length `≤ mean.dim()`
is not rejected by the generated pre-pass (for any number `ne` of ellipses), is dispatched to the ellipsis branch, and that
branch `cov[rest_idx]` with `rest_idx = (..., x)` reads all rows but only the columns selected by `x` — the marginal
(`mean[..., x, ...] = mean[..., x]`) needs rows = columns = the positions of `x`; they agree only when `x` selects everything. -/
theorem gen_getitem_multiple_ellipsis_except_known (n l d ne : Nat) (x : Idx) (sel : Sel) (hl : l ≤ d)
    (hx : normDim n x = some sel) :
    getitemPre l d ne = some l ∧
    getitemDispatch l d true Idx.ellipsis = Br.ellipsis ∧
    covSelPositionsRestEllipsis n x (getitemCov (getitemDispatch l d true Idx.ellipsis)) =
      some (Sel.keep (List.range n), sel) ∧
    ((Sel.keep (List.range n), sel) = (sel, sel) ↔ sel = Sel.keep (List.range n)) := by
  have hd : getitemDispatch l d true Idx.ellipsis = Br.ellipsis := by
    unfold getitemDispatch
    have h2 : ¬ ((l : Int) > (d : Int)) := by omega
    simp [h2, Idx.isInt, Idx.isSlice, Idx.isEllipsis]
  refine ⟨?_, hd, ?_, ?_⟩
  · unfold getitemPre
    have : ¬ (((l : Int) > (d : Int)) ∧ (ne > 0)) := by omega
    rw [if_neg this]
  · rw [hd]
    simp [getitemCov, covSelPositionsRestEllipsis, hx]
  · constructor
    · intro h; exact (Prod.mk.inj h).1.symm
    · intro h; rw [h]

/-- `d[..., 1:, ...]` on a distribution with two batch dimensions and `n = 4`: 4 rows, 3 columns. -/
example : normDim 4 (Idx.slice (some 1) none 1) = some (Sel.keep [1, 2, 3]) := by decide +kernel
example : covSelPositionsRestEllipsis 4 (Idx.slice (some 1) none 1) (getitemCov (getitemDispatch 3 3 true Idx.ellipsis)) =
    some (Sel.keep [0, 1, 2, 3], Sel.keep [1, 2, 3]) := by decide +kernel

end gen

end C10

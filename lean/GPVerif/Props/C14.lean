/-
C14 — variational predictive q(f) and KL equal their closed forms for every strategy.

All statements are about the functions of `GPVerif.Model.Variational` that `drivers/C14.lean` executes, read
through `DMat.toMatrix`, over an arbitrary field `α` (hence for the executed `ℚ` instance and for `ℝ`), for all
sizes `M n r T Q`, and for a general jitter `ε` (the property's formula is the `ε = 0` instance).

Contracts of the linear_operator primitives enter as hypotheses:
`hL : L Lᵀ = Kzz + εI` (Cholesky), `Li = L⁻¹` (triangular solve), `Ki = K̃⁻¹` (`solve`), `R Rᵀ = S` (root).
-/
import GPVerif.Model.Variational
import GPVerif.Bridge.Whitening
import GPVerif.Gen.VariationalAlgebra

namespace C14
open Matrix DMat Variational

set_option linter.unusedSectionVars false

variable {α : Type} [Field α] [DecidableEq α] {M n r T Q : Nat}

/-! ### bridge facts about the model's building blocks -/

theorem toMatrix_addJitter (A : DMat n n α) (ε : α) :
    (addJitter A ε).toMatrix = A.toMatrix + ε • (1 : Matrix (Fin n) (Fin n) α) := by
  simp [addJitter]

/-- **whitened_eq_closed_form.**  With `u = m_z + L e` (so `m − m_z = L m_w`, `S = L S_w Lᵀ`) and
`L Lᵀ = K̃ = Kzz + εI`, the mean and covariance computed by `VariationalStrategy.forward` are
`mX + Kxz K̃⁻¹ (m − m_z)` and `K̃xx − Kxz K̃⁻¹ (K̃ − S) K̃⁻¹ Kzx` (`K̃xx = Kxx + εₓ I`). -/
theorem whitened_eq_closed_form (Kzz : DMat M M α) (Kzx : DMat M n α) (Kxx : DMat n n α) (mX : DMat n 1 α)
    (ε εx : α) (L Li Ki : DMat M M α) (mw : DMat M 1 α) (Sw : DMat M M α)
    (hL : L.toMatrix * L.toMatrixᵀ = (addJitter Kzz ε).toMatrix)
    (hdet : IsUnit L.toMatrix.det)
    (hLi : Li.toMatrix = L.toMatrix⁻¹) (hKi : Ki.toMatrix = (addJitter Kzz ε).toMatrix⁻¹) :
    whitenedFwd Kzx Kxx mX εx Li mw Sw
      = closedForm Kzx (addJitter Kxx εx) mX (addJitter Kzz ε) Ki (unwhiten L mw Sw).1 (unwhiten L mw Sw).2 := by
  have hm := Whitening.mean_core L.toMatrix hdet Kzx.toMatrix mw.toMatrix
  have hc := Whitening.cov_core L.toMatrix hdet Sw.toMatrix Kzx.toMatrix
  simp only [whitenedFwd, closedForm, unwhiten, QF.mk.injEq]
  constructor
  · apply toMatrix_injective
    simp only [toMatrix_add, toMatrix_mul, toMatrix_transpose, hLi, hKi, ← hL]
    rw [hm]
  · apply toMatrix_injective
    simp only [toMatrix_add, toMatrix_sub, toMatrix_mul, toMatrix_transpose, toMatrix_one, hLi, hKi, ← hL]
    rw [hc, Matrix.transpose_mul, Matrix.mul_assoc]
    have e : Sw.toMatrix - 1 = -(1 - Sw.toMatrix) := by abel
    rw [e]
    simp only [Matrix.neg_mul, Matrix.mul_neg, sub_eq_add_neg]

/-- The same statement for what the driver actually runs (`whitenedFwd?`, certified inverses). -/
theorem whitened_run_eq_closed_form (Kzz : DMat M M α) (Kzx : DMat M n α) (Kxx : DMat n n α) (mX : DMat n 1 α)
    (ε εx : α) (L Ki : DMat M M α) (mw : DMat M 1 α) (Sw : DMat M M α) (q : QF n α)
    (hL : L.toMatrix * L.toMatrixᵀ = (addJitter Kzz ε).toMatrix)
    (hrun : whitenedFwd? L Kzx Kxx mX εx mw Sw = some q) (hKi : inv? (addJitter Kzz ε) = some Ki) :
    q = closedForm Kzx (addJitter Kxx εx) mX (addJitter Kzz ε) Ki (unwhiten L mw Sw).1 (unwhiten L mw Sw).2 := by
  unfold whitenedFwd? at hrun
  cases hi : inv? L with
  | none => simp [hi] at hrun
  | some Li =>
    simp only [hi, Option.map_some, Option.some.injEq] at hrun
    rw [← hrun]
    exact whitened_eq_closed_form Kzz Kzx Kxx mX ε εx L Li Ki mw Sw hL (inv?_isUnit hi) (inv?_correct hi)
      (inv?_correct hKi)

/-- **unwhitened_eq_closed_form.**  `UnwhitenedVariationalStrategy.forward` (eval mode) with a root `R Rᵀ = S`,
`Ki = K̃⁻¹`, `K̃` symmetric: mean `mX + Kxz K̃⁻¹ (m − m_z)`, covariance `K̃xx − Kxz K̃⁻¹ (K̃ − S) K̃⁻¹ Kzx`. -/
theorem unwhitened_eq_closed_form (Kt : DMat M M α) (Kzx : DMat M n α) (Kxx : DMat n n α) (mX : DMat n 1 α)
    (εx : α) (Ki : DMat M M α) (d : DMat M 1 α) (R : DMat M r α) (S : DMat M M α)
    (hdet : IsUnit Kt.toMatrix.det) (hsym : Kt.toMatrixᵀ = Kt.toMatrix)
    (hKi : Ki.toMatrix = Kt.toMatrix⁻¹) (hR : R.toMatrix * R.toMatrixᵀ = S.toMatrix) :
    unwhitenedFwd Kzx Kxx mX εx Ki d R = closedForm Kzx (addJitter Kxx εx) mX Kt Ki d S := by
  have hinvT : (Kt.toMatrix⁻¹)ᵀ = Kt.toMatrix⁻¹ := by rw [Matrix.transpose_nonsing_inv, hsym]
  have hc := Whitening.unwhitened_cov_core Kt.toMatrix hdet hsym Kzx.toMatrix (addJitter Kxx εx).toMatrix R.toMatrix
  simp only [unwhitenedFwd, closedForm, QF.mk.injEq]
  constructor
  · apply toMatrix_injective
    simp only [toMatrix_add, toMatrix_mul, toMatrix_transpose, hKi]
    rw [Matrix.transpose_mul, Matrix.transpose_mul, Matrix.transpose_transpose, hinvT, Matrix.mul_assoc]
  · apply toMatrix_injective
    simp only [toMatrix_add, toMatrix_sub, toMatrix_mul, toMatrix_transpose, toMatrix_neg, hKi, ← hR]
    exact hc

/-- **whitened_unwhitened_agree.**  A whitened and an unwhitened strategy that describe the same `q(u)`
(`m − m_z = L m_w`, `S = L S_w Lᵀ = R Rᵀ`) and use the same `K̃`, `K̃xx` return the same `q(f)`. -/
theorem whitened_unwhitened_agree (Kzz : DMat M M α) (Kzx : DMat M n α) (Kxx : DMat n n α) (mX : DMat n 1 α)
    (ε εx : α) (L Li Ki : DMat M M α) (mw : DMat M 1 α) (Sw : DMat M M α) (R : DMat M r α)
    (hL : L.toMatrix * L.toMatrixᵀ = (addJitter Kzz ε).toMatrix) (hdet : IsUnit L.toMatrix.det)
    (hLi : Li.toMatrix = L.toMatrix⁻¹) (hKi : Ki.toMatrix = (addJitter Kzz ε).toMatrix⁻¹)
    (hR : R.toMatrix * R.toMatrixᵀ = (unwhiten L mw Sw).2.toMatrix) :
    whitenedFwd Kzx Kxx mX εx Li mw Sw = unwhitenedFwd Kzx Kxx mX εx Ki (unwhiten L mw Sw).1 R := by
  have hKdet : IsUnit (addJitter Kzz ε).toMatrix.det := by
    rw [← hL, Matrix.det_mul, Matrix.det_transpose]; exact hdet.mul hdet
  have hsym : (addJitter Kzz ε).toMatrixᵀ = (addJitter Kzz ε).toMatrix := by
    rw [← hL, Matrix.transpose_mul, Matrix.transpose_transpose]
  rw [whitened_eq_closed_form Kzz Kzx Kxx mX ε εx L Li Ki mw Sw hL hdet hLi hKi,
    unwhitened_eq_closed_form (addJitter Kzz ε) Kzx Kxx mX εx Ki _ R _ hKdet hsym hKi hR]

/-- **q_eq_p_gives_prior.**  `q(u) = p(u)` (`m_w = 0`, `S_w = I`) ⇒ `q(f)` is the prior `N(mX, Kxx + εₓI)`. -/
theorem q_eq_p_gives_prior (Kzx : DMat M n α) (Kxx : DMat n n α) (mX : DMat n 1 α) (εx : α) (Li : DMat M M α) :
    whitenedFwd Kzx Kxx mX εx Li zero one = { mean := mX, cov := addJitter Kxx εx } := by
  simp only [whitenedFwd, QF.mk.injEq]
  constructor <;> apply toMatrix_injective <;> simp

/-- **kl_zero** (rational part): `q = p` ⇒ `tr + quad − M = 0` and the determinant ratio is `1`, so
`KL = ½(0 − log 1) = 0`. Whitened prior `N(0, I)`. -/
theorem kl_zero_whitened : klRatWhitened (zero : DMat M 1 α) (one : DMat M M α) = 0
    ∧ (one : DMat M M α).toMatrix.det = 1 := by
  refine ⟨?_, by simp⟩
  simp [klRatWhitened, klRat, quadForm, DMat.trace, Matrix.trace_one]

/-- **kl_zero**, unwhitened: `S = P`, `m = μ`. -/
theorem kl_zero_unwhitened (Pm Pi : DMat M M α) (hdet : IsUnit Pm.toMatrix.det)
    (hPi : Pi.toMatrix = Pm.toMatrix⁻¹) : klRat Pi Pm (zero : DMat M 1 α) = 0 := by
  simp [klRat, quadForm, DMat.trace, hPi, Matrix.nonsing_inv_mul _ hdet, Matrix.trace_one]

/-- **kl_whitened_eq_kl_unwhitened.**  Under `u = m_z + L e` the trace and quadratic terms of
`KL(q(u)‖p(u))` are those of `KL(N(m_w,S_w)‖N(0,I))`, and `det S / det K̃ = det S_w`. -/
theorem kl_whitened_eq_kl_unwhitened (Kt L Ki : DMat M M α) (mw : DMat M 1 α) (Sw : DMat M M α)
    (hL : L.toMatrix * L.toMatrixᵀ = Kt.toMatrix) (hdet : IsUnit L.toMatrix.det)
    (hKi : Ki.toMatrix = Kt.toMatrix⁻¹) :
    klRat Ki (unwhiten L mw Sw).2 (unwhiten L mw Sw).1 = klRatWhitened mw Sw
      ∧ (unwhiten L mw Sw).2.toMatrix.det = Kt.toMatrix.det * Sw.toMatrix.det := by
  constructor
  · have ht := Whitening.trace_core L.toMatrix hdet Sw.toMatrix
    have hq := Whitening.quad_core L.toMatrix hdet mw.toMatrix
    simp only [klRat, klRatWhitened, quadForm, unwhiten, DMat.trace, toMatrix_mul, toMatrix_transpose,
      toMatrix_one, hKi, ← hL, ht, hq, Matrix.one_mul]
  · simp only [unwhiten, toMatrix_mul, toMatrix_transpose, ← hL]
    exact Whitening.det_core _ _

/-! ### variational distributions -/

/-- `natural ↦ (μ, Σ)` is the documented map `μ = −½ η₂⁻¹ η₁`, `Σ = −½ η₂⁻¹`. -/
theorem natural_closed_form (h2 : (2 : α) ≠ 0) (η₁ μ : DMat M 1 α) (η₂ S : DMat M M α)
    (h : natural? η₁ η₂ = some (μ, S)) :
    S.toMatrix = (-(1 / 2 : α)) • η₂.toMatrix⁻¹ ∧ μ.toMatrix = (-(1 / 2 : α)) • (η₂.toMatrix⁻¹ * η₁.toMatrix) := by
  unfold natural? at h
  cases hi : inv? (η₂.smul (-2)) with
  | none => simp [hi] at h
  | some X =>
    simp only [hi, Option.map_some, Option.some.injEq, naturalOfInv, Prod.mk.injEq] at h
    have hX := inv?_correct hi
    have hu := inv?_isUnit hi
    simp only [toMatrix_smul] at hX hu
    have hX' : X.toMatrix = (-(1 / 2 : α)) • η₂.toMatrix⁻¹ := by
      rw [hX]
      have hne : (-2 : α) ≠ 0 := neg_ne_zero.mpr h2
      have hη : IsUnit η₂.toMatrix.det := by
        rw [Matrix.det_smul] at hu
        exact (IsUnit.mul_iff.mp hu).2
      apply Matrix.inv_eq_right_inv
      rw [Matrix.smul_mul, Matrix.mul_smul, smul_smul, Matrix.mul_nonsing_inv _ hη]
      have : (-2 : α) * (-(1 / 2)) = 1 := by field_simp
      rw [this, one_smul]
    refine ⟨by rw [← h.2, hX'], ?_⟩
    rw [← h.1, toMatrix_mul, hX', Matrix.smul_mul]

/-- **natural_roundtrip.**  `(η₁, η₂) ↦ (μ, Σ) ↦ (Σ⁻¹ μ, −½ Σ⁻¹) = (η₁, η₂)`. -/
theorem natural_roundtrip (h2 : (2 : α) ≠ 0) (η₁ μ : DMat M 1 α) (η₂ S Pm : DMat M M α)
    (h : natural? η₁ η₂ = some (μ, S)) (hP : inv? S = some Pm) :
    toNaturalOfInv Pm μ = (η₁, η₂) := by
  unfold natural? at h
  cases hi : inv? (η₂.smul (-2)) with
  | none => simp [hi] at h
  | some X =>
    simp only [hi, Option.map_some, Option.some.injEq, naturalOfInv, Prod.mk.injEq] at h
    obtain ⟨hμ, hS⟩ := h
    subst hS
    have hX := inv?_correct hi
    have hXu := inv?_isUnit hi
    have hPm := inv?_correct hP
    -- Pm = X⁻¹ = −2 η₂
    have hPm' : Pm.toMatrix = (η₂.smul (-2)).toMatrix := by
      rw [hPm, hX, Matrix.nonsing_inv_nonsing_inv _ hXu]
    have hXdet : IsUnit X.toMatrix.det := inv?_isUnit hP
    simp only [toNaturalOfInv, Prod.mk.injEq]
    constructor
    · apply toMatrix_injective
      rw [← hμ, toMatrix_mul, toMatrix_mul, hPm, Matrix.nonsing_inv_mul_cancel_left _ _ hXdet]
    · apply toMatrix_injective
      rw [toMatrix_smul, hPm', toMatrix_smul, smul_smul]
      have : (-(1 / 2 : α)) * (-2) = 1 := by field_simp
      rw [this, one_smul]

/-- tril-natural: `Σ = (TᵀT)⁻¹` (i.e. `η₂ = −½ TᵀT`), `μ = Σ η₁`; only the lower triangle of the parameter is read. -/
theorem tril_natural_closed_form (η₁ μ : DMat M 1 α) (Tm S : DMat M M α) (h : trilNatural? η₁ Tm = some (μ, S)) :
    S.toMatrix = ((tril Tm).toMatrixᵀ * (tril Tm).toMatrix)⁻¹ ∧ μ.toMatrix = S.toMatrix * η₁.toMatrix := by
  unfold trilNatural? at h
  cases hi : inv? (tril Tm) with
  | none => simp [hi] at h
  | some Lt =>
    simp only [hi, Option.map_some, Option.some.injEq, trilNaturalOfInv, Prod.mk.injEq] at h
    obtain ⟨hμ, hS⟩ := h
    have hX := inv?_correct hi
    have hS' : S.toMatrix = ((tril Tm).toMatrixᵀ * (tril Tm).toMatrix)⁻¹ := by
      rw [← hS, toMatrix_mul, toMatrix_transpose, hX, Matrix.mul_inv_rev, Matrix.transpose_nonsing_inv]
    refine ⟨hS', ?_⟩
    rw [← hμ, ← hS]
    simp only [toMatrix_mul, toMatrix_transpose, Matrix.mul_assoc]

/-- **tril_natural_roundtrip**: the natural matrix encoded by `T` is recovered: `−½ Σ⁻¹ = −½ TᵀT`. -/
theorem tril_natural_roundtrip (η₁ μ : DMat M 1 α) (Tm S : DMat M M α) (h : trilNatural? η₁ Tm = some (μ, S)) :
    (-(1 / 2 : α)) • S.toMatrix⁻¹ = (-(1 / 2 : α)) • ((tril Tm).toMatrixᵀ * (tril Tm).toMatrix)
      ∧ S.toMatrix⁻¹ * μ.toMatrix = η₁.toMatrix := by
  obtain ⟨hS, hμ⟩ := tril_natural_closed_form η₁ μ Tm S h
  unfold trilNatural? at h
  cases hi : inv? (tril Tm) with
  | none => simp [hi] at h
  | some Lt =>
    have hu := inv?_isUnit hi
    have hTT : IsUnit ((tril Tm).toMatrixᵀ * (tril Tm).toMatrix).det := by
      rw [Matrix.det_mul, Matrix.det_transpose]; exact hu.mul hu
    have hSi : S.toMatrix⁻¹ = (tril Tm).toMatrixᵀ * (tril Tm).toMatrix := by
      rw [hS, Matrix.nonsing_inv_nonsing_inv _ hTT]
    refine ⟨by rw [hSi], ?_⟩
    have hSdet : IsUnit S.toMatrix.det := by
      rw [hS]; exact (Matrix.isUnit_nonsing_inv_det_iff).mpr hTT
    rw [hμ, Matrix.nonsing_inv_mul_cancel_left _ _ hSdet]

/-- **meanfield_cov_diag.**  The mean-field covariance is `diag(std²)`: zero off the diagonal, `sᵢ²` on it. -/
theorem meanfield_cov_diag (s : DMat M 1 α) (i j : Fin M) :
    (meanFieldCov s).toMatrix i j = if i = j then s.toMatrix i 0 ^ 2 else 0 := by
  simp only [meanFieldCov, toMatrix_diagonal, Matrix.diagonal_apply, pow_two]

theorem tril_apply (Pm : DMat M M α) (i j : Fin M) :
    (tril Pm).toMatrix i j = if j ≤ i then Pm.toMatrix i j else 0 := by
  simp [tril]

/-- Cholesky distribution: `S = tril(P) tril(P)ᵀ`, and the masked upper triangle of the stored parameter does not
influence it. -/
theorem chol_cov_masked (Pm Pm' : DMat M M α)
    (h : ∀ i j : Fin M, j ≤ i → Pm.toMatrix i j = Pm'.toMatrix i j) : cholCov Pm = cholCov Pm' := by
  have : tril Pm = tril Pm' := by
    apply toMatrix_injective
    funext i j
    rw [tril_apply, tril_apply]
    split
    · rename_i hij; exact h i j hij
    · rfl
  simp only [cholCov, this]

theorem tril_lower (Pm : DMat M M α) (i j : Fin M) (hij : i < j) : (tril Pm).toMatrix i j = 0 := by
  rw [tril_apply, if_neg (not_le.mpr hij)]

/-- **delta_is_point.**  A point mass has `S = 0`: the unwhitened description of a whitened delta is
`(L m_w, 0)`, so `q(f)` is the prior conditional evaluated at the point (covariance `K̃xx − Kxz K̃⁻¹ Kzx`). -/
theorem delta_is_point (L : DMat M M α) (mw : DMat M 1 α) :
    (unwhiten L mw deltaCov).2 = (zero : DMat M M α) := by
  apply toMatrix_injective
  simp [unwhiten, deltaCov]

theorem delta_cov_closed_form (Kzx : DMat M n α) (Kxxt : DMat n n α) (mX : DMat n 1 α) (Kt Ki : DMat M M α)
    (d : DMat M 1 α) (hdet : IsUnit Kt.toMatrix.det) (hKi : Ki.toMatrix = Kt.toMatrix⁻¹) :
    (closedForm Kzx Kxxt mX Kt Ki d zero).cov.toMatrix
      = Kxxt.toMatrix - Kzx.toMatrixᵀ * (Kt.toMatrix⁻¹ * Kzx.toMatrix) := by
  simp only [closedForm, toMatrix_sub, toMatrix_mul, toMatrix_transpose, toMatrix_zero, sub_zero, hKi,
    Matrix.mul_nonsing_inv_cancel_left _ _ hdet]

/-- The `torch.equal(x, Z)` shortcut of the unwhitened strategy (`q(f) = q(u)`) is the closed form at `x = Z`
with `ε = 0`. -/
theorem unwhitened_at_inducing (Kt Ki : DMat M M α) (mZ d : DMat M 1 α) (S : DMat M M α)
    (hdet : IsUnit Kt.toMatrix.det) (hsym : Kt.toMatrixᵀ = Kt.toMatrix) (hKi : Ki.toMatrix = Kt.toMatrix⁻¹) :
    closedForm Kt Kt mZ Kt Ki d S = { mean := d.add mZ, cov := S } := by
  simp only [closedForm, QF.mk.injEq]
  constructor
  · apply toMatrix_injective
    simp only [toMatrix_add, toMatrix_mul, toMatrix_transpose, hKi, hsym,
      Matrix.mul_nonsing_inv_cancel_left _ _ hdet]
  · apply toMatrix_injective
    simp only [toMatrix_sub, toMatrix_mul, toMatrix_transpose, hKi, hsym, Matrix.nonsing_inv_mul _ hdet,
      Matrix.mul_one, Matrix.mul_nonsing_inv_cancel_left _ _ hdet]
    abel

/-- training-mode variances of the unwhitened strategy are the diagonal of the eval-mode covariance whenever
the clamped quantity `diag(Kxx − Kxz K̃⁻¹ Kzx)` is non-negative (it is, for a PSD joint prior). -/
theorem unwhitened_train_var [LinearOrder α] (Kzx : DMat M n α) (Kxx : DMat n n α) (mX : DMat n 1 α)
    (Ki : DMat M M α) (d : DMat M 1 α) (R : DMat M r α) (i : Fin n)
    (hpos : 0 ≤ Kxx.toMatrix i i - (Kzx.transpose.mul (Ki.mul Kzx)).toMatrix i i) :
    unwhitenedTrainVar Kzx Kxx Ki R i = (unwhitenedFwd Kzx Kxx mX 0 Ki d R).cov.toMatrix i i := by
  simp only [unwhitenedTrainVar, unwhitenedFwd, max_eq_right hpos]
  simp [addJitter, Matrix.add_apply, Matrix.neg_mul, sub_eq_add_neg]

/-! ### decoupled strategies -/

/-- **batch_decoupled_formulas.**  In `whitenedFwd` the mean depends only on the mean inducing set's terms
`(Kzx, mX, L⁻¹, m_w)` and the covariance only on the variance set's `(Kzx, Kxx, εₓ, L⁻¹, S_w)`; this is what lets
`BatchDecoupledVariationalStrategy` take the mean from one inducing set / kernel and the covariance from another. -/
theorem batch_decoupled_formulas (Kzx : DMat M n α) (Kxx Kxx' : DMat n n α) (mX mX' : DMat n 1 α) (εx εx' : α)
    (Li : DMat M M α) (mw mw' : DMat M 1 α) (Sw Sw' : DMat M M α) :
    (whitenedFwd Kzx Kxx mX εx Li mw Sw).mean = (whitenedFwd Kzx Kxx' mX εx' Li mw Sw').mean
      ∧ (whitenedFwd Kzx Kxx mX εx Li mw Sw).cov = (whitenedFwd Kzx Kxx mX' εx Li mw' Sw).cov := ⟨rfl, rfl⟩

/-- **orth_decoupled_formulas.**  With the base strategy's `q(f)` at `[x; Z_mean]` having mean `(μx, ·)` and covariance
blocks `Cxx, Cxz`, the orthogonally decoupled output is `N(μx + Cxz m, Cxx)`; the additional KL term is `mᵀ(Czz+εI)m`
(halved by the harness). -/
theorem orth_decoupled_formulas (μx : DMat n 1 α) (Cxx : DMat n n α) (Cxz : DMat n M α) (Czz : DMat M M α)
    (ε : α) (m : DMat M 1 α) :
    (orthFwd μx Cxx Cxz m).mean.toMatrix = Cxz.toMatrix * m.toMatrix + μx.toMatrix
      ∧ (orthFwd μx Cxx Cxz m).cov = Cxx
      ∧ orthKLExtra Czz ε m
        = (m.toMatrixᵀ * ((Czz.toMatrix + ε • (1 : Matrix (Fin M) (Fin M) α)) * m.toMatrix) : Matrix (Fin 1) (Fin 1) α) 0 0 := by
  refine ⟨by simp [orthFwd], rfl, ?_⟩
  simp [orthKLExtra, quadForm, addJitter]

/-- grid interpolation: `q(f) = N(W m, W S Wᵀ)`. -/
theorem interp_formulas (W : DMat n M α) (m : DMat M 1 α) (S : DMat M M α) :
    (interpFwd W m S).mean.toMatrix = W.toMatrix * m.toMatrix
      ∧ (interpFwd W m S).cov.toMatrix = W.toMatrix * S.toMatrix * W.toMatrixᵀ := by
  simp [interpFwd, Matrix.mul_assoc]

/-! ### multitask mixing -/

/-- **lmc_mixing** (mean): task `t` at input `i` has mean `Σ_q A[q,t] μ_q[i]`. -/
theorem lmc_mixing_mean (μ : Fin Q → DMat n 1 α) (A : DMat Q T α) (i : Fin n) (t : Fin T) :
    (lmcMean μ A).toMatrix i t = ∑ q, A.toMatrix q t * (μ q).toMatrix i 0 := by
  simp [lmcMean, mul_comm]

/-- **lmc_mixing** (covariance): the code's `Σ_q C_q ⊗ (a_q a_qᵀ) + εI` in the interleaved layout (`i·T + t`) is
`Cov(f_t(x_i), f_s(x_j)) = Σ_q A[q,t] A[q,s] C_q[i,j]` (+ jitter on the diagonal). -/
theorem lmc_mixing_cov (C : Fin Q → DMat n n α) (A : DMat Q T α) (ε : α) :
    (lmcCov C A ε).toMatrix
      = Matrix.reindex finProdFinEquiv finProdFinEquiv
          (∑ q, Matrix.kroneckerMap (· * ·) (C q).toMatrix
            ((A.toMatrix.submatrix (fun _ : Fin 1 => q) id)ᵀ * (A.toMatrix.submatrix (fun _ : Fin 1 => q) id)))
        + ε • (1 : Matrix (Fin (n * T)) (Fin (n * T)) α) := by
  funext a b
  simp only [lmcCov, toMatrix_ofMatrix, Matrix.of_apply, Matrix.add_apply, Matrix.reindex_apply, Matrix.submatrix_apply,
    Matrix.sum_apply, Matrix.kroneckerMap_apply, Matrix.smul_apply, Matrix.one_apply, smul_eq_mul, mul_ite,
    mul_one, mul_zero, Matrix.mul_apply, Matrix.transpose_apply, Finset.univ_unique, Finset.sum_singleton, id]

/-- **independent_mixing**: the independent-multitask wrapper is LMC with `A = I` and no jitter. -/
theorem independent_mixing (μ : Fin T → DMat n 1 α) (C : Fin T → DMat n n α) :
    indepMean μ = lmcMean μ (one : DMat T T α) ∧ indepCov C = lmcCov C (one : DMat T T α) 0 := by
  constructor
  · apply toMatrix_injective
    funext i t
    simp [indepMean, lmcMean, Matrix.one_apply, Finset.sum_ite_eq']
  · apply toMatrix_injective
    funext a b
    simp only [indepCov, lmcCov, toMatrix_ofMatrix, Matrix.of_apply, toMatrix_one, Matrix.one_apply, ite_self, add_zero]
    generalize finProdFinEquiv.symm a = p
    generalize finProdFinEquiv.symm b = p'
    rw [Finset.sum_eq_single p.2]
    · by_cases h : p.2 = p'.2 <;> simp [h]
    · intro q _ hq; simp [hq]
    · intro h; exact absurd (Finset.mem_univ _) h

/-- LMC with per-input task indices is the corresponding sub-block of the all-tasks covariance. -/
theorem lmc_idx_is_subblock (μ : Fin Q → DMat n 1 α) (C : Fin Q → DMat n n α) (A : DMat Q T α) (τ : Fin n → Fin T)
    (i j : Fin n) :
    (lmcMeanIdx μ A τ).toMatrix i 0 = (lmcMean μ A).toMatrix i (τ i)
      ∧ ((lmcCovIdx C A τ 0).toMatrix i j = (lmcCov C A 0).toMatrix (finProdFinEquiv (i, τ i)) (finProdFinEquiv (j, τ j))) := by
  constructor
  · simp [lmcMeanIdx, lmcMean]
  · simp only [lmcCovIdx, lmcCov, toMatrix_ofMatrix, Matrix.of_apply, Equiv.symm_apply_apply, ite_self]

/-! ### the GENERATED expressions (translator G7, regenerated from the source on every run)

`Gen.VariationalAlgebra` holds the matrix expressions `VariationalStrategy.forward`,
`UnwhitenedVariationalStrategy.forward` / `.prior_distribution` and `_VariationalStrategy.kl_divergence` evaluate, as the
code writes them.  The theorems below are re-checked against what the code says now: a changed source expression changes
the generated term and breaks the proof. -/

section Generated
open Gen.VariationalAlgebra

/-- The generated whitened expressions are the hand-written model `whitenedFwd` (with `εₓ = ε = jitter_val`), and the
generated Cholesky argument is `Kzz + εI`. -/
theorem gen_whitened_eq_model (e : Env M n r α) :
    ({ mean := wMean e, cov := wCov e } : QF n α) = whitenedFwd e.Kzx e.Kxx e.mX e.ε e.Li e.m e.S
      ∧ ({ mean := wMeanDelta e, cov := wCovDelta e } : QF n α) = whitenedFwd e.Kzx e.Kxx e.mX e.ε e.Li e.m deltaCov
      ∧ wCholArg e = addJitter e.Kzz e.ε ∧ wInterp e = e.Li.mul e.Kzx ∧ wPriorCov e = (DMat.one : DMat M M α) := by
  refine ⟨?_, ?_, rfl, rfl, rfl⟩
  · simp only [whitenedFwd, wMean, wCov, QF.mk.injEq]
    refine ⟨True.intro, ?_⟩
    apply toMatrix_injective; simp [sub_eq_add_neg]
  · simp only [whitenedFwd, wMeanDelta, wCovDelta, deltaCov, QF.mk.injEq]
    refine ⟨True.intro, ?_⟩
    apply toMatrix_injective; simp [sub_eq_add_neg]

/-- The `settings.trace_mode` branch of `VariationalStrategy.forward` (dense arithmetic) computes the same mean and
covariance as the default lazy branch. -/
theorem gen_whitened_trace_eq (e : Env M n r α) :
    wMeanTrace e = wMean e ∧ wCovTrace e = wCov e ∧ wCovTraceDelta e = wCovDelta e := by
  refine ⟨rfl, ?_, ?_⟩ <;>
  · apply toMatrix_injective
    simp [wCovTrace, wCov, wCovTraceDelta, wCovDelta, Matrix.mul_assoc]

/-- **gen_whitened_eq_closed_form.**  The mean and covariance that the code of `VariationalStrategy.forward` computes
(generated expressions), under the contracts of its primitives (`L Lᵀ` = the generated Cholesky argument, `Li = L⁻¹`),
equal the property's closed form `mX + Kxz K̃⁻¹(m − m_z)`, `K̃xx − Kxz K̃⁻¹(K̃ − S)K̃⁻¹Kzx` for `u = m_z + L e`. -/
theorem gen_whitened_eq_closed_form (e : Env M n r α)
    (hL : e.L.toMatrix * e.L.toMatrixᵀ = (wCholArg e).toMatrix) (hdet : IsUnit e.L.toMatrix.det)
    (hLi : e.Li.toMatrix = e.L.toMatrix⁻¹) (hKi : e.Ki.toMatrix = (wCholArg e).toMatrix⁻¹) :
    ({ mean := wMean e, cov := wCov e } : QF n α)
      = closedForm e.Kzx (addJitter e.Kxx e.ε) e.mX (wCholArg e) e.Ki (unwhiten e.L e.m e.S).1 (unwhiten e.L e.m e.S).2 := by
  rw [(gen_whitened_eq_model e).1]
  exact whitened_eq_closed_form e.Kzz e.Kzx e.Kxx e.mX e.ε e.ε e.L e.Li e.Ki e.m e.S hL hdet hLi hKi

/-- The generated unwhitened expressions (eval mode, Gaussian `q(u)`) are the hand-written model `unwhitenedFwd` with
no jitter on `Kxx`; the operator solved with is `L Lᵀ`, `L` the Cholesky factor of `Kzz + εI`; the shortcut returns
`(m, S)`. -/
theorem gen_unwhitened_eq_model (e : Env M n r α) :
    ({ mean := uMean e, cov := uCov e } : QF n α) = unwhitenedFwd e.Kzx e.Kxx e.mX 0 e.Ki (e.m.sub e.mZ) e.R
      ∧ uCholArg e = addJitter e.Kzz e.ε ∧ uSolveMat e = e.L.mul e.L.transpose
      ∧ uShortcutMean e = e.m ∧ uShortcutCov e = e.S := by
  refine ⟨?_, rfl, rfl, rfl, rfl⟩
  simp only [unwhitenedFwd, uMean, uCov, QF.mk.injEq]
  constructor
  · apply toMatrix_injective
    simp [add_comm]
  · apply toMatrix_injective
    simp [addJitter]

/-- **gen_unwhitened_eq_closed_form.**  What `UnwhitenedVariationalStrategy.forward` computes (generated expressions),
under the contracts `L Lᵀ` = generated Cholesky argument `K̃ = Kzz + εI`, `Ki = (L Lᵀ)⁻¹`, `R Rᵀ = S`, is the closed form
with `K̃xx = Kxx`. -/
theorem gen_unwhitened_eq_closed_form (e : Env M n r α)
    (hL : e.L.toMatrix * e.L.toMatrixᵀ = (uCholArg e).toMatrix) (hdet : IsUnit e.L.toMatrix.det)
    (hKi : e.Ki.toMatrix = (uSolveMat e).toMatrix⁻¹) (hR : e.R.toMatrix * e.R.toMatrixᵀ = e.S.toMatrix) :
    ({ mean := uMean e, cov := uCov e } : QF n α)
      = closedForm e.Kzx (addJitter e.Kxx 0) e.mX (uCholArg e) e.Ki (e.m.sub e.mZ) e.S := by
  rw [(gen_unwhitened_eq_model e).1]
  have hKdet : IsUnit (uCholArg e).toMatrix.det := by
    rw [← hL, Matrix.det_mul, Matrix.det_transpose]; exact hdet.mul hdet
  have hsym : (uCholArg e).toMatrixᵀ = (uCholArg e).toMatrix := by
    rw [← hL, Matrix.transpose_mul, Matrix.transpose_transpose]
  have hKi' : e.Ki.toMatrix = (uCholArg e).toMatrix⁻¹ := by
    rw [hKi, ← hL]; simp [uSolveMat]
  exact unwhitened_eq_closed_form (uCholArg e) e.Kzx e.Kxx e.mX 0 e.Ki _ e.R e.S hKdet hsym hKi' hR

/-- **gen_unwhitened_prior_jitter_ne_forward_jitter** — the recorded defect as a theorem about the generated code:
`prior_distribution` adds the `add_jitter()` default `εd` to `Kzz`, `forward` adds `jitter_val = ε`, so whenever
`εd ≠ ε` the prior used by `kl_divergence()` in eval mode is not the matrix the predictive is built from (they differ by
`(εd − ε) I`), while the prior cached by the training-mode forward is the operator solved with (`L Lᵀ = Kzz + εI`). -/
theorem gen_unwhitened_prior_jitter_ne_forward_jitter (e : Env M n r α) (h : e.εd ≠ e.ε) :
    uPriorJitter e ≠ uForwardJitter e
      ∧ (uPriorCov e).toMatrix - (uCholArg e).toMatrix = (e.εd - e.ε) • (1 : Matrix (Fin M) (Fin M) α)
      ∧ uTrainPriorCov e = uSolveMat e ∧ uPriorMean e = e.mZ := by
  refine ⟨h, ?_, rfl, rfl⟩
  simp only [uPriorCov, uCholArg, toMatrix_addJitter, sub_smul]
  abel

/-- `kl_divergence()` is `KL(q(u) ‖ p(u))` — variational distribution first, prior second. -/
theorem gen_kl_order {β γ : Type} (KL : β → β → γ) (q p : β) : klDivergence KL q p = KL q p := rfl

/-! #### wave 3: training-mode branch of the unwhitened strategy, batch-decoupled / orthogonally-decoupled / grid -/

/-- **gen_unwhitened_train_eq_model.**  The TRAINING-mode branch of `UnwhitenedVariationalStrategy.forward` as the source
writes it (`inv_quad_logdet(…, reduce_inv_quad=False)`, `diagonal`, `clamp(0, ∞)`, `DiagLinearOperator`, root term):
the mean is the evaluation-mode mean, and every diagonal entry of the returned covariance — the training-mode
variance — is the hand-written `unwhitenedTrainVar`. -/
theorem gen_unwhitened_train_eq_model [LinearOrder α] (e : Env M n r α) :
    uTrainMean e = uMean e
      ∧ ∀ i : Fin n, (uTrainCov e).toMatrix i i = unwhitenedTrainVar e.Kzx e.Kxx e.Ki e.R i := by
  refine ⟨rfl, fun i => ?_⟩
  simp [uTrainCov, unwhitenedTrainVar, invQuadDiag, clamp0, DMat.diag, Matrix.add_apply]

/-- **gen_unwhitened_train_var_eq_closed_form.**  Under the contracts of the primitives, wherever the clamped quantity
`Kxx[i,i] − (Kxz K̃⁻¹ Kzx)[i,i]` is non-negative (it is for a PSD joint prior), the training-mode variance computed by the
generated branch is the diagonal entry of the property's closed-form covariance. -/
theorem gen_unwhitened_train_var_eq_closed_form [LinearOrder α] (e : Env M n r α)
    (hL : e.L.toMatrix * e.L.toMatrixᵀ = (uCholArg e).toMatrix) (hdet : IsUnit e.L.toMatrix.det)
    (hKi : e.Ki.toMatrix = (uSolveMat e).toMatrix⁻¹) (hR : e.R.toMatrix * e.R.toMatrixᵀ = e.S.toMatrix)
    (i : Fin n) (hpos : 0 ≤ e.Kxx.toMatrix i i - (e.Kzx.transpose.mul (e.Ki.mul e.Kzx)).toMatrix i i) :
    (uTrainCov e).toMatrix i i
      = (closedForm e.Kzx (addJitter e.Kxx 0) e.mX (uCholArg e) e.Ki (e.m.sub e.mZ) e.S).cov.toMatrix i i := by
  have h := (gen_unwhitened_eq_model e).1.symm.trans (gen_unwhitened_eq_closed_form e hL hdet hKi hR)
  rw [(gen_unwhitened_train_eq_model e).2 i,
    unwhitened_train_var e.Kzx e.Kxx e.mX e.Ki (e.m.sub e.mZ) e.R i hpos, h]

/-- **gen_batch_decoupled_eq_model.**  `BatchDecoupledVariationalStrategy.forward` as the source writes it: the mean is
the whitened mean of the MEAN inducing set (slice `0` of the stacked dimension), the covariance the whitened covariance of
the VARIANCE set (slice `1`), both with `εₓ = ε = jitter_val`; each slice of the Cholesky argument is `Kzzₖ + εI`. -/
theorem gen_batch_decoupled_eq_model (e : EnvBD M n α) :
    bdMean e = (whitenedFwd e.Kzx0 e.Kxx0 e.mX0 e.ε e.Li0 e.m e.S).mean
      ∧ bdCov e = (whitenedFwd e.Kzx1 e.Kxx1 e.mX1 e.ε e.Li1 e.m e.S).cov
      ∧ bdCholArg0 e = addJitter e.Kzz0 e.ε ∧ bdCholArg1 e = addJitter e.Kzz1 e.ε := by
  refine ⟨rfl, ?_, rfl, rfl⟩
  simp only [whitenedFwd, bdCov]
  apply toMatrix_injective; simp [sub_eq_add_neg]

/-- **gen_batch_decoupled_eq_closed_form.**  Under the contracts of the two Cholesky factors, the generated mean is the
closed-form mean for the mean inducing set and the generated covariance the closed-form covariance for the variance set
(`q(u)` described by the same whitened `(m, S)` in both). -/
theorem gen_batch_decoupled_eq_closed_form (e : EnvBD M n α) (Ki0 Ki1 : DMat M M α)
    (hL0 : e.L0.toMatrix * e.L0.toMatrixᵀ = (bdCholArg0 e).toMatrix) (hdet0 : IsUnit e.L0.toMatrix.det)
    (hLi0 : e.Li0.toMatrix = e.L0.toMatrix⁻¹) (hKi0 : Ki0.toMatrix = (bdCholArg0 e).toMatrix⁻¹)
    (hL1 : e.L1.toMatrix * e.L1.toMatrixᵀ = (bdCholArg1 e).toMatrix) (hdet1 : IsUnit e.L1.toMatrix.det)
    (hLi1 : e.Li1.toMatrix = e.L1.toMatrix⁻¹) (hKi1 : Ki1.toMatrix = (bdCholArg1 e).toMatrix⁻¹) :
    bdMean e = (closedForm e.Kzx0 (addJitter e.Kxx0 e.ε) e.mX0 (bdCholArg0 e) Ki0
                  (unwhiten e.L0 e.m e.S).1 (unwhiten e.L0 e.m e.S).2).mean
      ∧ bdCov e = (closedForm e.Kzx1 (addJitter e.Kxx1 e.ε) e.mX1 (bdCholArg1 e) Ki1
                  (unwhiten e.L1 e.m e.S).1 (unwhiten e.L1 e.m e.S).2).cov := by
  obtain ⟨hm, hc, _, _⟩ := gen_batch_decoupled_eq_model e
  rw [hm, hc]
  exact ⟨congrArg QF.mean (whitened_eq_closed_form e.Kzz0 e.Kzx0 e.Kxx0 e.mX0 e.ε e.ε e.L0 e.Li0 Ki0 e.m e.S
      hL0 hdet0 hLi0 hKi0),
    congrArg QF.cov (whitened_eq_closed_form e.Kzz1 e.Kzx1 e.Kxx1 e.mX1 e.ε e.ε e.L1 e.Li1 Ki1 e.m e.S
      hL1 hdet1 hLi1 hKi1)⟩

/-- **gen_orth_eq_model.**  `OrthogonallyDecoupledVariationalStrategy.forward / .prior_distribution / .kl_divergence` as
the source writes them: `q(f) = orthFwd` (mean `Cxz m + μx`, covariance `Cxx`, joint ordered `[x; Z]`); the evaluation-mode
prior of the mean inducing values is `N(μz, Czz + εI)`, the prior cached by a training-mode forward `N(μz, Czz)`; and
`kl_divergence()` = base KL + `½ mᵀ P m` with that prior covariance `P` (`orthKLExtra` is the term without the `½`). -/
theorem gen_orth_eq_model (e : EnvOrth M n α) (kb : α) :
    ({ mean := oMean e, cov := oCov e } : QF n α) = orthFwd e.μx e.Cxx e.Cxz e.m
      ∧ oPriorMean e = e.μz ∧ oPriorCov e = addJitter e.Czz e.ε ∧ oTrainPriorCov e = e.Czz
      ∧ oKLEval e kb = kb + (1 / 2) * orthKLExtra e.Czz e.ε e.m
      ∧ oKLTrain e kb = kb + (1 / 2) * orthKLExtra e.Czz 0 e.m := by
  have hdot : ∀ (P : DMat M M α) (v : DMat M 1 α),
      (((P.mul v).transpose.mul v).toMatrix 0 0) = quadForm P v := by
    intro P v
    simp [quadForm, Matrix.mul_apply, mul_comm]
  have hj0 : addJitter e.Czz 0 = e.Czz := by
    apply toMatrix_injective; simp [addJitter]
  refine ⟨rfl, rfl, rfl, rfl, ?_, ?_⟩
  · simp only [oKLEval, orthKLExtra, hdot]
  · simp only [oKLTrain, orthKLExtra, hdot, hj0]

/-- **gen_grid_eq_model.**  `GridInterpolationVariationalStrategy.forward` as the source writes it
(`left_interp(i, v, ·) = W ·`, `InterpolatedLinearOperator(S, i, v, i, v) = W S Wᵀ`) is `interpFwd`; its prior is
`N(mZ, Kzz + cI)` with `c` the literal jitter of the source. -/
theorem gen_grid_eq_model (e : EnvGrid M n α) :
    ({ mean := gMean e, cov := gCov e } : QF n α) = interpFwd e.W e.m e.S
      ∧ gPriorMean e = e.mZ ∧ gPriorCov e = addJitter e.Kzz (gPriorJitter e) := by
  refine ⟨?_, rfl, rfl⟩
  simp only [interpFwd, gMean, gCov, QF.mk.injEq]
  refine ⟨True.intro, ?_⟩
  apply toMatrix_injective; simp [Matrix.mul_assoc]

end Generated

/-! ### the hypotheses are satisfiable (non-vacuity) -/

/-- a Cholesky factor with `L Lᵀ = Kzz + εI`, invertible. -/
example : ∃ (L Kzz : Matrix (Fin 2) (Fin 2) ℚ) (ε : ℚ),
    L * Lᵀ = Kzz + ε • 1 ∧ IsUnit L.det ∧ ε ≠ 0 := by
  refine ⟨!![1, 0; 1, 1], !![1/2, 1; 1, 3/2], 1/2, ?_, ?_, by norm_num⟩
  · ext i j; fin_cases i <;> fin_cases j <;> norm_num [Matrix.mul_apply, Fin.sum_univ_two, Matrix.one_apply]
  · norm_num [Matrix.det_fin_two]

/-- the executable model returns `some` on a concrete instance (so the `…?`-theorems are not vacuous). -/
example : (natural? (DMat.ofMatrix !![(1 : ℚ); 2]) (DMat.ofMatrix !![(-1 : ℚ), 1/4; 1/4, -1])).isSome = true := by
  decide +kernel

/-- the hypotheses of `gen_unwhitened_train_var_eq_closed_form` are satisfiable (1×1 instance: `Kzz = 4`, `L = 2`,
`Ki = 1/4`, `R Rᵀ = S = 1`, clamped quantity `1 − 1/4 ≥ 0`). -/
example : ∃ e : Gen.VariationalAlgebra.Env 1 1 1 ℚ,
    e.L.toMatrix * e.L.toMatrixᵀ = (Gen.VariationalAlgebra.uCholArg e).toMatrix ∧ IsUnit e.L.toMatrix.det
    ∧ e.Ki.toMatrix = (Gen.VariationalAlgebra.uSolveMat e).toMatrix⁻¹ ∧ e.R.toMatrix * e.R.toMatrixᵀ = e.S.toMatrix
    ∧ 0 ≤ e.Kxx.toMatrix 0 0 - (e.Kzx.transpose.mul (e.Ki.mul e.Kzx)).toMatrix 0 0 := by
  let c : ℚ → DMat 1 1 ℚ := fun q => DMat.ofMatrix !![q]
  refine ⟨{ Kzz := c 4, Kzx := c 1, Kxx := c 1, mX := c 0, mZ := c 0, m := c 1, S := c 1, R := c 1,
            L := c 2, Li := c (1/2), Ki := c (1/4), ε := 0, εd := 0 }, ?_, ?_, ?_, ?_, ?_⟩
  · ext i j; fin_cases i; fin_cases j
    norm_num [c, Gen.VariationalAlgebra.uCholArg, addJitter, Matrix.mul_apply]
  · simp [c]
  · symm; apply Matrix.inv_eq_right_inv; ext i j; fin_cases i; fin_cases j
    norm_num [c, Gen.VariationalAlgebra.uSolveMat, Matrix.mul_apply, Matrix.vecMul, dotProduct]
  · ext i j; fin_cases i; fin_cases j; norm_num [c, Matrix.mul_apply]
  · norm_num [c, Matrix.mul_apply]

/-- the hypotheses of `gen_batch_decoupled_eq_closed_form` are satisfiable (two 1×1 inducing sets, `Kzz₀ = 4`, `Kzz₁ = 9`). -/
example : ∃ (e : Gen.VariationalAlgebra.EnvBD 1 1 ℚ) (Ki0 Ki1 : DMat 1 1 ℚ),
    e.L0.toMatrix * e.L0.toMatrixᵀ = (Gen.VariationalAlgebra.bdCholArg0 e).toMatrix ∧ IsUnit e.L0.toMatrix.det
    ∧ e.Li0.toMatrix = e.L0.toMatrix⁻¹ ∧ Ki0.toMatrix = (Gen.VariationalAlgebra.bdCholArg0 e).toMatrix⁻¹
    ∧ e.L1.toMatrix * e.L1.toMatrixᵀ = (Gen.VariationalAlgebra.bdCholArg1 e).toMatrix ∧ IsUnit e.L1.toMatrix.det
    ∧ e.Li1.toMatrix = e.L1.toMatrix⁻¹ ∧ Ki1.toMatrix = (Gen.VariationalAlgebra.bdCholArg1 e).toMatrix⁻¹ := by
  let c : ℚ → DMat 1 1 ℚ := fun q => DMat.ofMatrix !![q]
  refine ⟨{ Kzz0 := c 4, Kzz1 := c 9, Kzx0 := c 1, Kzx1 := c 1, Kxx0 := c 1, Kxx1 := c 1, mX0 := c 0, mX1 := c 0,
            L0 := c 2, L1 := c 3, Li0 := c (1/2), Li1 := c (1/3), m := c 1, S := c 1, ε := 0 }, c (1/4), c (1/9),
          ?_, ?_, ?_, ?_, ?_, ?_, ?_, ?_⟩
  · ext i j; fin_cases i; fin_cases j
    norm_num [c, Gen.VariationalAlgebra.bdCholArg0, addJitter, Matrix.mul_apply]
  · simp [c]
  · symm; apply Matrix.inv_eq_right_inv; ext i j; fin_cases i; fin_cases j; norm_num [c, Matrix.mul_apply]
  · symm; apply Matrix.inv_eq_right_inv; ext i j; fin_cases i; fin_cases j
    norm_num [c, Gen.VariationalAlgebra.bdCholArg0, addJitter, Matrix.mul_apply]
  · ext i j; fin_cases i; fin_cases j
    norm_num [c, Gen.VariationalAlgebra.bdCholArg1, addJitter, Matrix.mul_apply]
  · simp [c]
  · symm; apply Matrix.inv_eq_right_inv; ext i j; fin_cases i; fin_cases j; norm_num [c, Matrix.mul_apply]
  · symm; apply Matrix.inv_eq_right_inv; ext i j; fin_cases i; fin_cases j
    norm_num [c, Gen.VariationalAlgebra.bdCholArg1, addJitter, Matrix.mul_apply]

end C14

/-
C08 — the COMPOSITION: whole-model `output[b]` = replica `b`, proved at the model level.

`Model/BatchPipeline.lean` evaluates a model as an expression tree over batched tensors in two ways: `BExpr.eval`, the
batched way (generated choreographies of `Gen/BatchChoreo.lean` + torch's batched primitives on whole tensors), and
`BExpr.evalAt b`, the replica way `fun b => pipeline (kernel b) (mean b) (noise b) (data b)` (every input read at its own
slice `bidxR batch b`, only non-batched operations).

* `*_perElement` lift the per-operation `gen_*_elementwise` theorems of `Props/C08.lean` to "element `idx` of the result of
  the generated choreography is THE SAME generated choreography run on the operands' elements" — for every batch rank and
  every broadcastable pair of batch shapes;
* `batched_eval_per_element` is the structural induction over the tree: if every node acts per batch element, then for
  every batch index `b` of the broadcast batch shape `elem (eval e) b = evalAt b e` — the slices compose
  (`bidxR s (bidxR m b) = bidxR s b`);
* `exactGP_posterior_mean_per_element` / `exactGP_log_marginal_per_element` instantiate it with the exact-GP pipeline.  What
  remains ASSUMED is exactly the named hypothesis `TorchPrims.ActPerBatchElement`: torch's batched matmul / Cholesky / solve
  act per batch element.
-/
import GPVerif.Props.C08
import GPVerif.Bridge.BatchPipelineLemmas

namespace C08
open Bcast BatchOps Choreo Gen.BatchChoreo Pipeline

variable {α : Type} [Inhabited α] [Add α] [OfNat α 0]

/-! ### every generated choreography acts per batch element -/

/-- `x.div(self.lengthscale)` (ARD `(*kb, 1, d)` and non-ARD `(*kb, 1, 1)` lengthscales) -/
theorem lsDiv_perElement (f : α → α → α) : (lsDivOp f).PerElement := by
  refine Spec2.perElement (lsDivSpec f) ⟨?_, ?_⟩
  · rintro a b ea eb ba bb bs - - hsa hsb ⟨d, n, rfl, hℓ⟩ hbc
    rcases hℓ with rfl | rfl
    · obtain ⟨t, ht, hts, hget⟩ := gen_lengthscale_div_elementwise f a b (by simpa using hsa) (by simpa using hsb) hbc
      refine ⟨t, ht, by simpa [lsDivSpec] using hts, fun e idx he hidx => ?_⟩
      obtain ⟨c, i, rfl, hc, hi⟩ := inRange_two he
      have := hget c i idx hc hi hidx
      simp only [lsDivSpec, List.cons_append, List.nil_append, bidxR] at this ⊢
      rw [this]
      by_cases hd : d = 1
      · subst hd; have : c = 0 := by omega
        subst this; simp
      · simp [hd]
    · obtain ⟨t, ht, hts, hget⟩ := lengthscaleDiv_elementwise_noARD f a b (by simpa using hsa) (by simpa using hsb) hbc
      have e : runBinary lengthscaleDivOps f a b [] [] = lengthscaleDiv f a b := by
        simp [runBinary, lengthscaleDivOps, runOps, lengthscaleDiv]
      refine ⟨t, by simpa [lsDivSpec, e] using ht, by simpa [lsDivSpec] using hts, fun e' idx he hidx => ?_⟩
      obtain ⟨c, i, rfl, hc, hi⟩ := inRange_two he
      have := hget c i idx hc hi hidx
      simp only [lsDivSpec, List.cons_append, List.nil_append, bidxR] at this ⊢
      rw [this]; simp
  · rintro ea eb e u u' v v' - - ⟨d, n, rfl, hℓ⟩ he hu hv
    obtain ⟨c, i, rfl, hc, hi⟩ := inRange_two he
    simp only [lsDivSpec]
    rw [hu _ he]
    congr 1
    apply hv
    rcases hℓ with rfl | rfl
    · by_cases hd : d = 1
      · simp [bidxR, InRange, hd]
      · simp [bidxR, InRange, hd, hc]
    · simp [bidxR, InRange]

/-- `ScaleKernel.forward` (full matrix) -/
theorem scale_perElement (f : α → α → α) : (scaleOp f).PerElement := by
  refine Spec2.perElement (scaleSpec f) ⟨?_, ?_⟩
  · rintro a b ea eb ba bb bs hka hkb hsa hsb - hbc
    obtain ⟨m, n, rfl⟩ := length_two hka
    have hb0 : eb = [] := List.eq_nil_of_length_eq_zero hkb
    subst hb0
    obtain ⟨t, ht, hts, hget⟩ := gen_scale_kernel_elementwise f a b (by simpa using hsa) (by simpa using hsb) hbc
    refine ⟨t, ht, by simpa [scaleSpec] using hts, fun e idx he hidx => ?_⟩
    obtain ⟨j, i, rfl, hj, hi⟩ := inRange_two he
    simpa [scaleSpec] using hget j i idx hj hi hidx
  · rintro ea eb e u u' v v' - hkb - he hu hv
    have hb0 : eb = [] := List.eq_nil_of_length_eq_zero hkb
    subst hb0
    simp only [scaleSpec]
    rw [hu _ he, hv [] trivial]

/-- `ScaleKernel.forward(diag=True)` -/
theorem scaleDiag_perElement (f : α → α → α) : (scaleDiagOp f).PerElement := by
  refine Spec2.perElement (scaleDiagSpec f) ⟨?_, ?_⟩
  · rintro a b ea eb ba bb bs hka hkb hsa hsb - hbc
    obtain ⟨n, rfl⟩ := length_one hka
    have hb0 : eb = [] := List.eq_nil_of_length_eq_zero hkb
    subst hb0
    obtain ⟨t, ht, hts, hget⟩ := gen_scale_kernel_diag_elementwise f a b (by simpa using hsa) (by simpa using hsb) hbc
    refine ⟨t, ht, by simpa [scaleDiagSpec] using hts, fun e idx he hidx => ?_⟩
    obtain ⟨i, rfl, hi⟩ := inRange_one he
    simpa [scaleDiagSpec] using hget i idx hi hidx
  · rintro ea eb e u u' v v' - hkb - he hu hv
    have hb0 : eb = [] := List.eq_nil_of_length_eq_zero hkb
    subst hb0
    simp only [scaleDiagSpec]
    rw [hu _ he, hv [] trivial]

/-- `RQKernel.forward` (full matrix): the `alpha` alignment, for every value of the rank arguments -/
theorem rq_perElement (f : α → α → α) (distRank kbRank : Nat) : (rqOp f distRank kbRank).PerElement := by
  refine Spec2.perElement (rqSpec f distRank kbRank) ⟨?_, ?_⟩
  · rintro a b ea eb ba bb bs hka - hsa hsb hpre hbc
    obtain ⟨m, n, rfl⟩ := length_two hka
    have hb0 : eb = [1] := hpre
    subst hb0
    obtain ⟨t, ht, hts, hget⟩ :=
      gen_rq_alpha_elementwise f a b distRank kbRank (by simpa using hsa) (by simpa using hsb) hbc
    refine ⟨t, ht, by simpa [rqSpec] using hts, fun e idx he hidx => ?_⟩
    obtain ⟨j, i, rfl, hj, hi⟩ := inRange_two he
    simpa [rqSpec] using hget j i idx hj hi hidx
  · rintro ea eb e u u' v v' - - hpre he hu hv
    have hb0 : eb = [1] := hpre
    subst hb0
    simp only [rqSpec]
    rw [hu _ he, hv [0] (by simp [InRange])]

/-- `RQKernel.forward(diag=True)` -/
theorem rqDiag_perElement (f : α → α → α) (distRank kbRank : Nat) : (rqDiagOp f distRank kbRank).PerElement := by
  refine Spec2.perElement (rqDiagSpec f distRank kbRank) ⟨?_, ?_⟩
  · rintro a b ea eb ba bb bs hka - hsa hsb hpre hbc
    obtain ⟨n, rfl⟩ := length_one hka
    have hb0 : eb = [1] := hpre
    subst hb0
    obtain ⟨t, ht, hts, hget⟩ :=
      gen_rq_alpha_diag_elementwise f a b distRank kbRank (by simpa using hsa) (by simpa using hsb) hbc
    refine ⟨t, ht, by simpa [rqDiagSpec] using hts, fun e idx he hidx => ?_⟩
    obtain ⟨i, rfl, hi⟩ := inRange_one he
    simpa [rqDiagSpec] using hget i idx hi hidx
  · rintro ea eb e u u' v v' - - hpre he hu hv
    have hb0 : eb = [1] := hpre
    subst hb0
    simp only [rqDiagSpec]
    rw [hu _ he, hv [0] (by simp [InRange])]

/-- `_HomoskedasticNoiseBase.forward` (`num_tasks = 1`): the second operand only supplies the shape `(*xb, n)` -/
theorem noise_perElement (zero : α) : (noiseOp zero).PerElement := by
  refine Spec2.perElement (noiseSpec zero) ⟨?_, ?_⟩
  · rintro a b ea eb ba bb bs - hkb hsa hsb hpre hbc
    have ha0 : ea = [1] := hpre
    subst ha0
    obtain ⟨n, rfl⟩ := length_one hkb
    obtain ⟨t, ht, hts, hget⟩ := gen_noise_elementwise zero a (xb := bb) n (by simpa using hsa) hbc
    refine ⟨t, by simpa [noiseSpec, hsb] using ht, by simpa [noiseSpec] using hts, fun e idx he hidx => ?_⟩
    have he' : InRange e [n, n] := by simpa [noiseSpec] using he
    obtain ⟨j, i, rfl, -, -⟩ := inRange_two he'
    simpa [noiseSpec] using hget j i idx hidx
  · rintro ea eb e u u' v v' - - hpre he hu hv
    have ha0 : ea = [1] := hpre
    subst ha0
    simp only [noiseSpec]
    rw [hu [0] (by simp [InRange])]

/-- `ConstantMean.forward`: the second operand (the input `x`) only supplies the shape `(*xb, n)` -/
theorem constMean_perElement : (constMeanOp : BOp2 α).PerElement := by
  refine Spec2.perElement constMeanSpec ⟨?_, ?_⟩
  · rintro a b ea eb ba bb bs hka hkb hsa hsb - hbc
    have ha0 : ea = [] := List.eq_nil_of_length_eq_zero hka
    subst ha0
    obtain ⟨d, n, rfl⟩ := length_two hkb
    obtain ⟨t, ht, hts, hget⟩ := gen_constant_mean_elementwise a (n := n) (xb := bb) (by simpa using hsa) hbc
    refine ⟨t, by simpa [constMeanSpec, hsb] using ht, by simpa [constMeanSpec] using hts, fun e idx he hidx => ?_⟩
    have he' : InRange e [n] := by simpa [constMeanSpec] using he
    obtain ⟨i, rfl, hi⟩ := inRange_one he'
    simpa [constMeanSpec] using hget i idx hi hidx
  · rintro ea eb e u u' v v' hka - - he hu hv
    have ha0 : ea = [] := List.eq_nil_of_length_eq_zero hka
    subst ha0
    simp only [constMeanSpec]
    rw [hu [] trivial]

/-- the per-batch prior reduction `view(*shape[:n], -1).sum(-1)` of `ExactMarginalLogLikelihood._add_other_terms` on a prior
term with `k` non-batch dimensions: element `idx` of the result is the sum over the entries of element `idx` -/
theorem priorReduce_perElement (k : Nat) : (priorReduceOp k : BOp1 α).PerElement := by
  refine Spec1.perElement (priorReduceSpec k) ⟨?_, ?_⟩
  · rintro a ea ba hk0 hsa -
    have hk : ea.length = k := hk0
    have hlen : a.shape.length - (a.shape.length - k) = k := by rw [hsa]; simp; omega
    have e : runParam exactPriorOps a [] [a.shape.length - k] = some (priorReduce a k) := by
      have := (show runParam exactPriorOps a [] [a.shape.length - k]
          = some (priorReduce a (a.shape.length - (a.shape.length - k))) by
        simp [runParam, exactPriorOps, runOps, UOp.run, priorReduce, T.viewSumLast, sumLastT, T.view])
      rw [this, hlen]
    have hd : a.shape.drop k = ba := by rw [hsa, ← hk, List.drop_left]
    refine ⟨priorReduce a k, e, by simpa [priorReduceSpec, priorReduce, T.viewSumLast] using hd, fun e' idx he hidx => ?_⟩
    have he0 : e' = [] := inRange_nil (by simpa [priorReduceSpec] using he)
    subst he0
    have ht : a.shape.take k = ea := by rw [hsa, ← hk, List.take_left]
    have := priorReduce_per_batch a k idx (by rw [hd]; exact hidx)
    simpa [priorReduceSpec, T.sumInner, ht] using this
  · rintro ea e u u' - - - hu
    simp only [priorReduceSpec]
    congr 1
    exact List.map_congr_left fun x hx => hu x (mem_allIdx_inRange hx)

/-- … and of `_ApproximateMarginalLogLikelihood.forward` (ELBO, predictive log likelihood, γ-robust ELBO) -/
theorem approxPriorReduce_perElement (k : Nat) : (approxPriorReduceOp k : BOp1 α).PerElement := by
  refine Spec1.perElement (approxPriorReduceSpec k) ⟨?_, ?_⟩
  · rintro a ea ba hk0 hsa -
    have hk : ea.length = k := hk0
    have hlen : a.shape.length - (a.shape.length - k) = k := by rw [hsa]; simp; omega
    have e : runParam approxPriorOps a [] [a.shape.length - k] = some (priorReduce a k) := by
      have := (show runParam approxPriorOps a [] [a.shape.length - k]
          = some (priorReduce a (a.shape.length - (a.shape.length - k))) by
        simp [runParam, approxPriorOps, runOps, UOp.run, priorReduce, T.viewSumLast, sumLastT, T.view])
      rw [this, hlen]
    have hd : a.shape.drop k = ba := by rw [hsa, ← hk, List.drop_left]
    refine ⟨priorReduce a k, e, by simpa [approxPriorReduceSpec, priorReduce, T.viewSumLast] using hd, fun e' idx he hidx => ?_⟩
    have he0 : e' = [] := inRange_nil (by simpa [approxPriorReduceSpec] using he)
    subst he0
    have ht : a.shape.take k = ea := by rw [hsa, ← hk, List.take_left]
    have := priorReduce_per_batch a k idx (by rw [hd]; exact hidx)
    simpa [approxPriorReduceSpec, T.sumInner, ht] using this
  · rintro ea e u u' - - - hu
    simp only [approxPriorReduceSpec]
    congr 1
    exact List.map_congr_left fun x hx => hu x (mem_allIdx_inRange hx)

omit [Add α] [OfNat α 0] in
/-- a broadcasting elementwise torch operation on operands with the same event shape (`K + noise`, `y - mean`): PROVED to
act per batch element (it is `T.map2`), so it needs no assumption -/
theorem ew_perElement (k : Nat) (f : α → α → α) : (ewOp k f).PerElement := by
  refine Spec2.perElement (ewSpec k f) ⟨?_, ?_⟩
  · rintro a b ea eb ba bb bs - - hsa hsb hpre hbc
    have hee : ea = eb := hpre
    subst hee
    have hs : bcastR a.shape b.shape = some (ea ++ bs) := by
      rw [hsa, hsb]; exact bcastR_append rfl (bcastR_self ea) hbc
    obtain ⟨t, ht, hts, hget⟩ := map2_elementwise f a b hs
    refine ⟨t, ht, hts, fun e idx he hidx => ?_⟩
    have he' : InRange e ea := he
    have hl : e.length = ea.length := inRange_length he'
    rw [hget, hsa, hsb, bidxR_append ba idx hl, bidxR_append bb idx hl, bidxR_self he']
    rfl
  · rintro ea eb e u u' v v' - - hpre he hu hv
    have hee : ea = eb := hpre
    subst hee
    simp only [ewSpec]
    rw [hu _ he, hv _ he]

omit [Add α] [OfNat α 0] in
/-- … and with broadcasting event shapes as well (any `a.op(b)` on operands with `k` event dimensions each) -/
theorem map2_perElement (k : Nat) (f : α → α → α) : (map2Op k f).PerElement := by
  refine Spec2.perElement (map2Spec k f) ⟨?_, ?_⟩
  · rintro a b ea eb ba bb bs hka hkb hsa hsb hpre hbc
    obtain ⟨eo, heo⟩ := Option.isSome_iff_exists.mp hpre
    have hl0 : ea.length = eb.length := by rw [hka, hkb]; rfl
    have hs : bcastR a.shape b.shape = some (eo ++ bs) := by
      rw [hsa, hsb]; exact bcastR_append hl0 heo hbc
    obtain ⟨t, ht, hts, hget⟩ := map2_elementwise f a b hs
    refine ⟨t, ht, by simpa [map2Spec, heo] using hts, fun e idx he hidx => ?_⟩
    have he' : InRange e eo := by simpa [map2Spec, heo] using he
    have hl : e.length = ea.length := by rw [inRange_length he', bcastR_length_eq hl0 heo]
    rw [hget, hsa, hsb, bidxR_append ba idx hl, bidxR_append bb idx (hl.trans hl0)]
    rfl
  · rintro ea eb e u u' v v' - - hpre he hu hv
    obtain ⟨eo, heo⟩ := Option.isSome_iff_exists.mp hpre
    have he' : InRange e eo := by simpa [map2Spec, heo] using he
    have := bidxR_inRange heo he'
    simp only [map2Spec]
    rw [hu _ this.1, hv _ this.2]

/-! ### the composition -/

omit [Add α] [OfNat α 0] in
/-- **whole-tree statement**: if every node of the expression tree acts per batch element, the batched evaluation has the
broadcast batch shape and its element `b` is the replica evaluation at `b` — every input read at its own slice
`bidxR (its batch shape) b`, only non-batched operations applied.  For every tree, every batch rank, every family of
broadcastable batch shapes (`HasType`). -/
theorem batched_eval_per_element {e : BExpr α} {ev bs : RShape} (ht : e.HasType ev bs) (hops : e.OpsPerElement) :
    ∃ t, e.eval = some t ∧ t.shape = ev ++ bs ∧ ∀ b, InRange b bs → elem ev.length t b = e.evalAt b := by
  induction ht with
  | @leaf t k ev bs hk hs =>
    refine ⟨t, rfl, hs, fun b hb => ?_⟩
    have hd : t.shape.drop k = bs := by rw [hs, ← hk, List.drop_left]
    simp only [BExpr.evalAt, hd, bidxR_self hb, hk]
  | @un op x ea ba hx hk hpre ih =>
    obtain ⟨tx, hex, hsx, hgx⟩ := ih hops.2
    obtain ⟨t, hrun, hst, hgt⟩ := hops.1 tx ea ba hk hsx hpre
    refine ⟨t, by simp [BExpr.eval, hex, hrun], hst, fun b hb => ?_⟩
    rw [hgt b hb, ← hk, hgx b hb]
    rfl
  | @bin op x y ea eb ba bb bs hx hy hka hkb hpre hbc ihx ihy =>
    obtain ⟨tx, hex, hsx, hgx⟩ := ihx hops.2.1
    obtain ⟨ty, hey, hsy, hgy⟩ := ihy hops.2.2
    obtain ⟨t, hrun, hst, hgt⟩ := hops.1 tx ty ea eb ba bb bs hka hkb hsx hsy hpre hbc
    refine ⟨t, by simp [BExpr.eval, hex, hey, hrun], hst, fun b hb => ?_⟩
    have hI := into_of_bcast hbc
    have hr := bidxR_inRange hbc hb
    rw [hgt b hb, ← hka, ← hkb, hgx _ hr.1, hgy _ hr.2, BExpr.evalAt_bidxR hx hI.1 hb, BExpr.evalAt_bidxR hy hI.2 hb]
    rfl

/-! ### the assumption about torch is satisfiable: a batched primitive DEFINED by acting per batch element has it -/

omit [Add α] [OfNat α 0] in
theorem liftB_perElement (ka kb : Nat) (evOut : RShape → RShape → RShape) (pre : RShape → RShape → Prop)
    (single : T α → T α → T α)
    (hS : ∀ A B : T α, A.shape.length = ka → B.shape.length = kb → pre A.shape B.shape →
      single A B = canon (evOut A.shape B.shape) (single A B).get) :
    (⟨ka, kb, evOut, pre, liftB ka kb evOut single, single⟩ : BOp2 α).PerElement := by
  intro a b ea eb ba bb bs hka hkb hsa hsb hpre hbc
  have hka' : ea.length = ka := hka
  have hkb' : eb.length = kb := hkb
  have da : a.shape.drop ka = ba := by rw [hsa, ← hka', List.drop_left]
  have db' : b.shape.drop kb = bb := by rw [hsb, ← hkb', List.drop_left]
  have ta : a.shape.take ka = ea := by rw [hsa, ← hka', List.take_left]
  have tb : b.shape.take kb = eb := by rw [hsb, ← hkb', List.take_left]
  refine ⟨_, by simp only [liftB, da, db', ta, tb, hbc, Option.map_some]; rfl, rfl, fun idx hidx => ?_⟩
  have hA : (elem ka a (bidxR ba idx)).shape = ea := elem_shape_of _ hka' hsa
  have hB : (elem kb b (bidxR bb idx)).shape = eb := elem_shape_of _ hkb' hsb
  have h1 := hS (elem ka a (bidxR ba idx)) (elem kb b (bidxR bb idx)) (by rw [hA]; exact hka') (by rw [hB]; exact hkb')
    (by rw [hA, hB]; exact hpre)
  rw [hA, hB] at h1
  show elem (evOut ea eb).length _ idx = single (elem ka a (bidxR ba idx)) (elem kb b (bidxR bb idx))
  rw [h1, elem_eq_canon idx rfl rfl]
  apply canon_ext
  intro e he
  have hl : e.length = (evOut ea eb).length := inRange_length he
  simp only [← hl, List.drop_left, List.take_left]

/-! ### the exact-GP pipeline -/

section ExactGP
variable (P : TorchPrims α) (S : ScalarOps α) (I : GPInputs α) {d n m : Nat} {eℓ pb db bs : RShape}

theorem priorMeanE_hasType {x : T α} {n' : Nat} (hx : x.shape = [d, n'] ++ db) (hc : I.c.shape = pb)
    (bc : bcastR pb db = some bs) : (priorMeanE I x).HasType [n'] bs :=
  BExpr.HasType.bin (op := constMeanOp) (ea := []) (eb := [d, n']) (.leaf rfl (by simpa using hc)) (.leaf rfl hx) rfl rfl trivial bc

theorem kernelE_hasType {x1 x2 : T α} {n1 n2 : Nat} (h1 : x1.shape = [d, n1] ++ db) (h2 : x2.shape = [d, n2] ++ db)
    (hs : GPShapes I d n m eℓ pb db bs) : (kernelE P S I x1 x2).HasType [n2, n1] bs := by
  have bc' : bcastR db pb = some bs := by rw [bcastR_comm]; exact hs.bc
  have hI := into_of_bcast hs.bc
  have hbp : bcastR bs pb = some bs := by rw [bcastR_comm]; exact bcastR_of_into hI.1
  have l1 : (BExpr.bin (lsDivOp S.div) (.leaf x1 2) (.leaf I.ℓ 2)).HasType [d, n1] bs :=
    BExpr.HasType.bin (op := lsDivOp S.div) (ea := [d, n1]) (eb := eℓ) (.leaf rfl h1)
      (.leaf (by rcases hs.hℓ with h | h <;> simp [h]) hs.ℓ) rfl (by rcases hs.hℓ with h | h <;> simp [h, lsDivOp, choreo2])
      ⟨d, n1, rfl, hs.hℓ⟩ bc'
  have l2 : (BExpr.bin (lsDivOp S.div) (.leaf x2 2) (.leaf I.ℓ 2)).HasType [d, n2] bs :=
    BExpr.HasType.bin (op := lsDivOp S.div) (ea := [d, n2]) (eb := eℓ) (.leaf rfl h2)
      (.leaf (by rcases hs.hℓ with h | h <;> simp [h]) hs.ℓ) rfl (by rcases hs.hℓ with h | h <;> simp [h, lsDivOp, choreo2])
      ⟨d, n2, rfl, hs.hℓ⟩ bc'
  have k0 := BExpr.HasType.bin (op := P.kern) l1 l2 rfl rfl rfl (bcastR_self bs)
  exact BExpr.HasType.bin (op := scaleOp S.mul) (eb := []) k0 (.leaf rfl (by simpa using hs.os)) rfl rfl trivial hbp

theorem noisyCovE_hasType (hs : GPShapes I d n m eℓ pb db bs) : (noisyCovE P S I).HasType [n, n] bs := by
  have hI := into_of_bcast hs.bc
  have hpb : bcastR pb bs = some bs := bcastR_of_into hI.1
  have hn := BExpr.HasType.bin (op := noiseOp S.zero) (ea := [1]) (.leaf rfl hs.σ) (priorMeanE_hasType I hs.x hs.c hs.bc)
    rfl rfl rfl hpb
  exact BExpr.HasType.bin (op := ewOp 2 S.add) (kernelE_hasType P S I hs.x hs.x hs) hn rfl rfl rfl (bcastR_self bs)

theorem residE_hasType (hs : GPShapes I d n m eℓ pb db bs) : (residE S I).HasType [n] bs :=
  BExpr.HasType.bin (op := ewOp 1 S.sub) (ea := [n]) (.leaf rfl hs.y) (priorMeanE_hasType I hs.x hs.c hs.bc) rfl rfl rfl
    (bcastR_self bs)

theorem posteriorMeanE_hasType (hs : GPShapes I d n m eℓ pb db bs) : (posteriorMeanE P S I).HasType [m] bs := by
  have hsol := BExpr.HasType.bin (op := P.solve) (noisyCovE_hasType P S I hs) (residE_hasType S I hs) rfl rfl rfl (bcastR_self bs)
  have hmv := BExpr.HasType.bin (op := P.matvec) (kernelE_hasType P S I hs.xs hs.x hs) hsol rfl rfl rfl (bcastR_self bs)
  exact BExpr.HasType.bin (op := ewOp 1 S.add) (priorMeanE_hasType I hs.xs hs.c hs.bc) hmv rfl rfl rfl (bcastR_self bs)

theorem logMarginalE_hasType (hs : GPShapes I d n m eℓ pb db bs) : (logMarginalE P S I).HasType [] bs :=
  BExpr.HasType.bin (op := P.logProb) (noisyCovE_hasType P S I hs) (residE_hasType S I hs) rfl rfl rfl (bcastR_self bs)

theorem exactGP_ops_perElement (hTorch : P.ActPerBatchElement) :
    (posteriorMeanE P S I).OpsPerElement ∧ (logMarginalE P S I).OpsPerElement := by
  obtain ⟨hk, hso, hmv, hlp⟩ := hTorch
  have hpm : ∀ x : T α, (priorMeanE I x).OpsPerElement := fun x => ⟨constMean_perElement, trivial, trivial⟩
  have hls : ∀ x : T α, (BExpr.bin (lsDivOp S.div) (.leaf x 2) (.leaf I.ℓ 2)).OpsPerElement :=
    fun x => ⟨lsDiv_perElement S.div, trivial, trivial⟩
  have hke : ∀ x1 x2 : T α, (kernelE P S I x1 x2).OpsPerElement :=
    fun x1 x2 => ⟨scale_perElement S.mul, ⟨hk, hls x1, hls x2⟩, trivial⟩
  have hnc : (noisyCovE P S I).OpsPerElement :=
    ⟨ew_perElement 2 S.add, hke _ _, ⟨noise_perElement S.zero, trivial, hpm _⟩⟩
  have hre : (residE S I).OpsPerElement := ⟨ew_perElement 1 S.sub, trivial, hpm _⟩
  exact ⟨⟨ew_perElement 1 S.add, hpm _, ⟨hmv, hke _ _, ⟨hso, hnc, hre⟩⟩⟩, ⟨hlp, hnc, hre⟩⟩

/-- **exact-GP posterior mean, batched = replicas.**  For every batch rank and every broadcastable pair (parameter batch `pb`,
data batch `db`): the batched pipeline (generated lengthscale / outputscale / mean / noise choreographies + torch's batched
kernel evaluation, Cholesky solve and matmul) has the broadcast batch shape, and its element `b` is the NON-batched pipeline
applied to the slices `I.slice b` — `fun b => pipeline (kernel b) (mean b) (noise b) (data b)`.  The only assumption is
`hTorch`: torch's batched primitives act per batch element. -/
theorem exactGP_posterior_mean_per_element (hTorch : P.ActPerBatchElement) (hs : GPShapes I d n m eℓ pb db bs) :
    ∃ t, (posteriorMeanE P S I).eval = some t ∧ t.shape = [m] ++ bs ∧
      ∀ b, InRange b bs → elem 1 t b = posteriorMeanR P S (I.slice b) := by
  obtain ⟨t, he, hsh, hg⟩ :=
    batched_eval_per_element (posteriorMeanE_hasType P S I hs) (exactGP_ops_perElement P S I hTorch).1
  exact ⟨t, he, hsh, fun b hb => (hg b hb).trans rfl⟩

/-- **exact-GP log marginal likelihood (before the normaliser), batched = replicas** -/
theorem exactGP_log_marginal_per_element (hTorch : P.ActPerBatchElement) (hs : GPShapes I d n m eℓ pb db bs) :
    ∃ t, (logMarginalE P S I).eval = some t ∧ t.shape = bs ∧
      ∀ b, InRange b bs → elem 0 t b = logMarginalR P S (I.slice b) := by
  obtain ⟨t, he, hsh, hg⟩ :=
    batched_eval_per_element (logMarginalE_hasType P S I hs) (exactGP_ops_perElement P S I hTorch).2
  exact ⟨t, he, by simpa using hsh, fun b hb => (hg b hb).trans rfl⟩

end ExactGP

/-! ### non-vacuity: the hypotheses are satisfiable -/

section NonVacuity

/-- torch primitives that act per batch element exist (any element-level function, lifted) … -/
example : ∃ P : TorchPrims Nat, P.ActPerBatchElement := by
  let mk (evOut : RShape → RShape → RShape) (g : T Nat → T Nat → RIdx → Nat) : T Nat → T Nat → T Nat :=
    fun A B => canon (evOut A.shape B.shape) (g A B)
  have hS : ∀ evOut g A B, mk evOut g A B = canon (evOut A.shape B.shape) (mk evOut g A B).get := by
    intro evOut g A B
    exact canon_ext fun e he => (canon_get he).symm
  let eK : RShape → RShape → RShape := fun ea eb => [eb.getD 1 0, ea.getD 1 0]
  let eS : RShape → RShape → RShape := fun _ eb => eb
  let eM : RShape → RShape → RShape := fun ea _ => [ea.getD 1 0]
  let eL : RShape → RShape → RShape := fun _ _ => []
  -- e.g. a linear "kernel" entry x1[0, i] * x2[0, j], a diagonal "solve", a row-0 "matvec", the trace as "log-density"
  let gK : T Nat → T Nat → RIdx → Nat := fun A B e => A.get [0, e.getD 1 0] * B.get [0, e.getD 0 0]
  let gS : T Nat → T Nat → RIdx → Nat := fun A B e => B.get e * A.get [e.getD 0 0, e.getD 0 0]
  let gM : T Nat → T Nat → RIdx → Nat := fun A B e => A.get [0, e.getD 0 0] * B.get [0]
  let gL : T Nat → T Nat → RIdx → Nat := fun A B _ => A.get [0, 0] + B.get [0]
  refine ⟨⟨liftB 2 2 eK (mk eK gK), mk eK gK, liftB 2 1 eS (mk eS gS), mk eS gS, liftB 2 1 eM (mk eM gM), mk eM gM,
           liftB 2 1 eL (mk eL gL), mk eL gL⟩, ?_, ?_, ?_, ?_⟩
  · exact liftB_perElement 2 2 eK _ (mk eK gK) fun A B _ _ _ => hS eK gK A B
  · exact liftB_perElement 2 1 eS _ (mk eS gS) fun A B _ _ _ => hS eS gS A B
  · exact liftB_perElement 2 1 eM _ (mk eM gM) fun A B _ _ _ => hS eM gM A B
  · exact liftB_perElement 2 1 eL _ (mk eL gL) fun A B _ _ _ => hS eL gL A B

/-- … and the shape hypotheses hold for, e.g., `d = 2, n = 3, m = 2`, ARD lengthscale, parameter batch `(2,)`, data batch
`(3, 1)` (broadcast `(3, 2)`; shapes innermost-first) -/
example : GPShapes (⟨⟨[2, 3, 1, 3], fun _ => 0⟩, ⟨[3, 2, 3], fun _ => 0⟩, ⟨[2, 2, 1, 3], fun _ => 0⟩, ⟨[2, 1, 2], fun _ => 0⟩,
    ⟨[2], fun _ => 0⟩, ⟨[2], fun _ => 0⟩, ⟨[1, 2], fun _ => 0⟩⟩ : GPInputs Nat) 2 3 2 [2, 1] [2] [1, 3] [2, 3] :=
  ⟨rfl, rfl, rfl, rfl, Or.inl rfl, rfl, rfl, rfl, by decide⟩

example : (scaleOp (· * ·) : BOp2 Nat).PerElement := scale_perElement _
example : Into [1, 3] [2, 3] := ⟨Or.inr rfl, Or.inl rfl, trivial⟩

end NonVacuity

end C08

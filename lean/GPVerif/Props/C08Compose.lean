/-
C08 — the COMPOSITION: whole-model `output[b]` = replica `b`, proved at the model level.

`Model/BatchPipeline.lean` evaluates a model as an expression tree over batched tensors in two ways: `BExpr.eval`, the
batched way (generated choreographies of `Gen/BatchChoreo.lean` + torch's batched primitives on whole tensors), and
`BExpr.evalAt b`, the replica way `fun b => pipeline (kernel b) (mean b) (noise b) (data b)` (every input read at its own
slice `bidxR batch b`, only non-batched operations).

* `*_perElement` lift the per-operation `gen_*_elementwise` theorems of `Props/C08.lean` to "element `idx` of the result of
  the generated choreography is THE SAME generated choreography run on the operands' elements" — for every batch rank and
  every broadcastable pair of batch shapes;
* `batched_eval_per_element` is the structural induction over the tree: if every node acts per batch element, then for
  every batch index `b` of the broadcast batch shape `elem (eval e) b = evalAt b e` — the slices compose
  (`bidxR s (bidxR m b) = bidxR s b`);
* `exactGP_posterior_mean_per_element` / `exactGP_log_marginal_per_element` instantiate it with the exact-GP pipeline.  What
  remains ASSUMED is exactly the named hypothesis `TorchPrims.ActPerBatchElement`: torch's batched matmul / Cholesky / solve
  act per batch element.
-/
import GPVerif.Props.C08
import GPVerif.Bridge.BatchPipelineLemmas

namespace C08
open Bcast BatchOps Choreo Gen.BatchChoreo Pipeline

variable {α : Type} [Inhabited α] [Add α] [OfNat α 0]

/-! ### every generated choreography acts per batch element -/

/-- `x.div(self.lengthscale)` (ARD `(*kb, 1, d)` and non-ARD `(*kb, 1, 1)` lengthscales) -/
theorem lsDiv_perElement (f : α → α → α) : (lsDivOp f).PerElement := by
  refine Spec2.perElement (lsDivSpec f) ⟨?_, ?_⟩
  · rintro a b ea eb ba bb bs - - hsa hsb ⟨d, n, rfl, hℓ⟩ hbc
    rcases hℓ with rfl | rfl
    · obtain ⟨t, ht, hts, hget⟩ := gen_lengthscale_div_elementwise f a b (by simpa using hsa) (by simpa using hsb) hbc
      refine ⟨t, ht, by simpa [lsDivSpec] using hts, fun e idx he hidx => ?_⟩
      obtain ⟨c, i, rfl, hc, hi⟩ := inRange_two he
      have := hget c i idx hc hi hidx
      simp only [lsDivSpec, List.cons_append, List.nil_append, bidxR] at this ⊢
      rw [this]
      by_cases hd : d = 1
      · subst hd; have : c = 0 := by omega
        subst this; simp
      · simp [hd]
    · obtain ⟨t, ht, hts, hget⟩ := lengthscaleDiv_elementwise_noARD f a b (by simpa using hsa) (by simpa using hsb) hbc
      have e : runBinary lengthscaleDivOps f a b [] [] = lengthscaleDiv f a b := by
        simp [runBinary, lengthscaleDivOps, runOps, lengthscaleDiv]
      refine ⟨t, by simpa [lsDivSpec, e] using ht, by simpa [lsDivSpec] using hts, fun e' idx he hidx => ?_⟩
      obtain ⟨c, i, rfl, hc, hi⟩ := inRange_two he
      have := hget c i idx hc hi hidx
      simp only [lsDivSpec, List.cons_append, List.nil_append, bidxR] at this ⊢
      rw [this]; simp
  · rintro ea eb e u u' v v' - - ⟨d, n, rfl, hℓ⟩ he hu hv
    obtain ⟨c, i, rfl, hc, hi⟩ := inRange_two he
    simp only [lsDivSpec]
    rw [hu _ he]
    congr 1
    apply hv
    rcases hℓ with rfl | rfl
    · by_cases hd : d = 1
      · simp [bidxR, InRange, hd]
      · simp [bidxR, InRange, hd, hc]
    · simp [bidxR, InRange]

/-- `ScaleKernel.forward` (full matrix) -/
theorem scale_perElement (f : α → α → α) : (scaleOp f).PerElement := by
  refine Spec2.perElement (scaleSpec f) ⟨?_, ?_⟩
  · rintro a b ea eb ba bb bs hka hkb hsa hsb - hbc
    obtain ⟨m, n, rfl⟩ := length_two hka
    have hb0 : eb = [] := List.eq_nil_of_length_eq_zero hkb
    subst hb0
    obtain ⟨t, ht, hts, hget⟩ := gen_scale_kernel_elementwise f a b (by simpa using hsa) (by simpa using hsb) hbc
    refine ⟨t, ht, by simpa [scaleSpec] using hts, fun e idx he hidx => ?_⟩
    obtain ⟨j, i, rfl, hj, hi⟩ := inRange_two he
    simpa [scaleSpec] using hget j i idx hj hi hidx
  · rintro ea eb e u u' v v' - hkb - he hu hv
    have hb0 : eb = [] := List.eq_nil_of_length_eq_zero hkb
    subst hb0
    simp only [scaleSpec]
    rw [hu _ he, hv [] trivial]

/-- `ScaleKernel.forward(diag=True)` -/
theorem scaleDiag_perElement (f : α → α → α) : (scaleDiagOp f).PerElement := by
  refine Spec2.perElement (scaleDiagSpec f) ⟨?_, ?_⟩
  · rintro a b ea eb ba bb bs hka hkb hsa hsb - hbc
    obtain ⟨n, rfl⟩ := length_one hka
    have hb0 : eb = [] := List.eq_nil_of_length_eq_zero hkb
    subst hb0
    obtain ⟨t, ht, hts, hget⟩ := gen_scale_kernel_diag_elementwise f a b (by simpa using hsa) (by simpa using hsb) hbc
    refine ⟨t, ht, by simpa [scaleDiagSpec] using hts, fun e idx he hidx => ?_⟩
    obtain ⟨i, rfl, hi⟩ := inRange_one he
    simpa [scaleDiagSpec] using hget i idx hi hidx
  · rintro ea eb e u u' v v' - hkb - he hu hv
    have hb0 : eb = [] := List.eq_nil_of_length_eq_zero hkb
    subst hb0
    simp only [scaleDiagSpec]
    rw [hu _ he, hv [] trivial]

/-- `RQKernel.forward` (full matrix): the `alpha` alignment, for every value of the rank arguments -/
theorem rq_perElement (f : α → α → α) (distRank kbRank : Nat) : (rqOp f distRank kbRank).PerElement := by
  refine Spec2.perElement (rqSpec f distRank kbRank) ⟨?_, ?_⟩
  · rintro a b ea eb ba bb bs hka - hsa hsb hpre hbc
    obtain ⟨m, n, rfl⟩ := length_two hka
    have hb0 : eb = [1] := hpre
    subst hb0
    obtain ⟨t, ht, hts, hget⟩ :=
      gen_rq_alpha_elementwise f a b distRank kbRank (by simpa using hsa) (by simpa using hsb) hbc
    refine ⟨t, ht, by simpa [rqSpec] using hts, fun e idx he hidx => ?_⟩
    obtain ⟨j, i, rfl, hj, hi⟩ := inRange_two he
    simpa [rqSpec] using hget j i idx hj hi hidx
  · rintro ea eb e u u' v v' - - hpre he hu hv
    have hb0 : eb = [1] := hpre
    subst hb0
    simp only [rqSpec]
    rw [hu _ he, hv [0] (by simp [InRange])]

/-- `RQKernel.forward(diag=True)` -/
theorem rqDiag_perElement (f : α → α → α) (distRank kbRank : Nat) : (rqDiagOp f distRank kbRank).PerElement := by
  refine Spec2.perElement (rqDiagSpec f distRank kbRank) ⟨?_, ?_⟩
  · rintro a b ea eb ba bb bs hka - hsa hsb hpre hbc
    obtain ⟨n, rfl⟩ := length_one hka
    have hb0 : eb = [1] := hpre
    subst hb0
    obtain ⟨t, ht, hts, hget⟩ :=
      gen_rq_alpha_diag_elementwise f a b distRank kbRank (by simpa using hsa) (by simpa using hsb) hbc
    refine ⟨t, ht, by simpa [rqDiagSpec] using hts, fun e idx he hidx => ?_⟩
    obtain ⟨i, rfl, hi⟩ := inRange_one he
    simpa [rqDiagSpec] using hget i idx hi hidx
  · rintro ea eb e u u' v v' - - hpre he hu hv
    have hb0 : eb = [1] := hpre
    subst hb0
    simp only [rqDiagSpec]
    rw [hu _ he, hv [0] (by simp [InRange])]

/-- `_HomoskedasticNoiseBase.forward` (`num_tasks = 1`): the second operand only supplies the shape `(*xb, n)` -/
theorem noise_perElement (zero : α) : (noiseOp zero).PerElement := by
  refine Spec2.perElement (noiseSpec zero) ⟨?_, ?_⟩
  · rintro a b ea eb ba bb bs - hkb hsa hsb hpre hbc
    have ha0 : ea = [1] := hpre
    subst ha0
    obtain ⟨n, rfl⟩ := length_one hkb
    obtain ⟨t, ht, hts, hget⟩ := gen_noise_elementwise zero a (xb := bb) n (by simpa using hsa) hbc
    refine ⟨t, by simpa [noiseSpec, hsb] using ht, by simpa [noiseSpec] using hts, fun e idx he hidx => ?_⟩
    have he' : InRange e [n, n] := by simpa [noiseSpec] using he
    obtain ⟨j, i, rfl, -, -⟩ := inRange_two he'
    simpa [noiseSpec] using hget j i idx hidx
  · rintro ea eb e u u' v v' - - hpre he hu hv
    have ha0 : ea = [1] := hpre
    subst ha0
    simp only [noiseSpec]
    rw [hu [0] (by simp [InRange])]

/-- `ConstantMean.forward`: the second operand (the input `x`) only supplies the shape `(*xb, n)` -/
theorem constMean_perElement : (constMeanOp : BOp2 α).PerElement := by
  refine Spec2.perElement constMeanSpec ⟨?_, ?_⟩
  · rintro a b ea eb ba bb bs hka hkb hsa hsb - hbc
    have ha0 : ea = [] := List.eq_nil_of_length_eq_zero hka
    subst ha0
    obtain ⟨d, n, rfl⟩ := length_two hkb
    obtain ⟨t, ht, hts, hget⟩ := gen_constant_mean_elementwise a (n := n) (xb := bb) (by simpa using hsa) hbc
    refine ⟨t, by simpa [constMeanSpec, hsb] using ht, by simpa [constMeanSpec] using hts, fun e idx he hidx => ?_⟩
    have he' : InRange e [n] := by simpa [constMeanSpec] using he
    obtain ⟨i, rfl, hi⟩ := inRange_one he'
    simpa [constMeanSpec] using hget i idx hi hidx
  · rintro ea eb e u u' v v' hka - - he hu hv
    have ha0 : ea = [] := List.eq_nil_of_length_eq_zero hka
    subst ha0
    simp only [constMeanSpec]
    rw [hu [] trivial]

/-- the per-batch prior reduction `view(*shape[:n], -1).sum(-1)` of `ExactMarginalLogLikelihood._add_other_terms` on a prior
term with `k` non-batch dimensions: element `idx` of the result is the sum over the entries of element `idx` -/
theorem priorReduce_perElement (k : Nat) : (priorReduceOp k : BOp1 α).PerElement := by
  refine Spec1.perElement (priorReduceSpec k) ⟨?_, ?_⟩
  · rintro a ea ba hk0 hsa -
    have hk : ea.length = k := hk0
    have hlen : a.shape.length - (a.shape.length - k) = k := by rw [hsa]; simp; omega
    have e : runParam exactPriorOps a [] [a.shape.length - k] = some (priorReduce a k) := by
      have := (show runParam exactPriorOps a [] [a.shape.length - k]
          = some (priorReduce a (a.shape.length - (a.shape.length - k))) by
        simp [runParam, exactPriorOps, runOps, UOp.run, priorReduce, T.viewSumLast, sumLastT, T.view])
      rw [this, hlen]
    have hd : a.shape.drop k = ba := by rw [hsa, ← hk, List.drop_left]
    refine ⟨priorReduce a k, e, by simpa [priorReduceSpec, priorReduce, T.viewSumLast] using hd, fun e' idx he hidx => ?_⟩
    have he0 : e' = [] := inRange_nil (by simpa [priorReduceSpec] using he)
    subst he0
    have ht : a.shape.take k = ea := by rw [hsa, ← hk, List.take_left]
    have := priorReduce_per_batch a k idx (by rw [hd]; exact hidx)
    simpa [priorReduceSpec, T.sumInner, ht] using this
  · rintro ea e u u' - - - hu
    simp only [priorReduceSpec]
    congr 1
    exact List.map_congr_left fun x hx => hu x (mem_allIdx_inRange hx)

/-- … and of `_ApproximateMarginalLogLikelihood.forward` (ELBO, predictive log likelihood, γ-robust ELBO) -/
theorem approxPriorReduce_perElement (k : Nat) : (approxPriorReduceOp k : BOp1 α).PerElement := by
  refine Spec1.perElement (approxPriorReduceSpec k) ⟨?_, ?_⟩
  · rintro a ea ba hk0 hsa -
    have hk : ea.length = k := hk0
    have hlen : a.shape.length - (a.shape.length - k) = k := by rw [hsa]; simp; omega
    have e : runParam approxPriorOps a [] [a.shape.length - k] = some (priorReduce a k) := by
      have := (show runParam approxPriorOps a [] [a.shape.length - k]
          = some (priorReduce a (a.shape.length - (a.shape.length - k))) by
        simp [runParam, approxPriorOps, runOps, UOp.run, priorReduce, T.viewSumLast, sumLastT, T.view])
      rw [this, hlen]
    have hd : a.shape.drop k = ba := by rw [hsa, ← hk, List.drop_left]
    refine ⟨priorReduce a k, e, by simpa [approxPriorReduceSpec, priorReduce, T.viewSumLast] using hd, fun e' idx he hidx => ?_⟩
    have he0 : e' = [] := inRange_nil (by simpa [approxPriorReduceSpec] using he)
    subst he0
    have ht : a.shape.take k = ea := by rw [hsa, ← hk, List.take_left]
    have := priorReduce_per_batch a k idx (by rw [hd]; exact hidx)
    simpa [approxPriorReduceSpec, T.sumInner, ht] using this
  · rintro ea e u u' - - - hu
    simp only [approxPriorReduceSpec]
    congr 1
    exact List.map_congr_left fun x hx => hu x (mem_allIdx_inRange hx)

/-- a broadcasting elementwise torch operation on operands with the same event shape (`K + noise`, `y - mean`): PROVED to
act per batch element (it is `T.map2`), so it needs no assumption -/
theorem ew_perElement (k : Nat) (f : α → α → α) : (ewOp k f).PerElement := by
  refine Spec2.perElement (ewSpec k f) ⟨?_, ?_⟩
  · rintro a b ea eb ba bb bs - - hsa hsb hpre hbc
    have hee : ea = eb := hpre
    subst hee
    have hs : bcastR a.shape b.shape = some (ea ++ bs) := by
      rw [hsa, hsb]; exact bcastR_append rfl (bcastR_self ea) hbc
    obtain ⟨t, ht, hts, hget⟩ := map2_elementwise f a b hs
    refine ⟨t, ht, hts, fun e idx he hidx => ?_⟩
    have he' : InRange e ea := he
    have hl : e.length = ea.length := inRange_length he'
    rw [hget, hsa, hsb, bidxR_append ba idx hl, bidxR_append bb idx hl, bidxR_self he']
    rfl
  · rintro ea eb e u u' v v' - - hpre he hu hv
    have hee : ea = eb := hpre
    subst hee
    simp only [ewSpec]
    rw [hu _ he, hv _ he]

/-- … and with broadcasting event shapes as well (any `a.op(b)` on operands with `k` event dimensions each) -/
theorem map2_perElement (k : Nat) (f : α → α → α) : (map2Op k f).PerElement := by
  refine Spec2.perElement (map2Spec k f) ⟨?_, ?_⟩
  · rintro a b ea eb ba bb bs hka hkb hsa hsb hpre hbc
    obtain ⟨eo, heo⟩ := Option.isSome_iff_exists.mp hpre
    have hl0 : ea.length = eb.length := by rw [hka, hkb]; rfl
    have hs : bcastR a.shape b.shape = some (eo ++ bs) := by
      rw [hsa, hsb]; exact bcastR_append hl0 heo hbc
    obtain ⟨t, ht, hts, hget⟩ := map2_elementwise f a b hs
    refine ⟨t, ht, by simpa [map2Spec, heo] using hts, fun e idx he hidx => ?_⟩
    have he' : InRange e eo := by simpa [map2Spec, heo] using he
    have hl : e.length = ea.length := by rw [inRange_length he', bcastR_length_eq hl0 heo]
    rw [hget, hsa, hsb, bidxR_append ba idx hl, bidxR_append bb idx (hl.trans hl0)]
    rfl
  · rintro ea eb e u u' v v' - - hpre he hu hv
    obtain ⟨eo, heo⟩ := Option.isSome_iff_exists.mp hpre
    have he' : InRange e eo := by simpa [map2Spec, heo] using he
    have := bidxR_inRange heo he'
    simp only [map2Spec]
    rw [hu _ this.1, hv _ this.2]

end C08

/-
C15 — variational objectives equal their definition; the ELBO is a lower bound; the collapsed bound is attained
at q*; one natural-gradient step of size one reaches it.

Part 1 (any field): assembly / scaling of `_ApproximateMarginalLogLikelihood.forward` — about the expressions
*generated from the source* (`Gen.ElboScaling`) — minibatch unbiasedness, the NGD update.
Part 2 (ℝ): the per-point Gaussian expectation, `log det X ≤ tr X − n`, Gaussian KL ≥ 0, completion of squares
`N·ELBO(q) = L_collapsed − KL(q‖q*)`, hence `N·ELBO ≤ L_collapsed`, equality at `q*`, `L_collapsed ≤ log N(y; m, K+σ²I)`.
-/
import GPVerif.Model.ELBO
import GPVerif.Bridge.Whitening
import GPVerif.Bridge.ElboGlue
import GPVerif.Bridge.GaussExpect
import GPVerif.Bridge.NgdScalar
import GPVerif.Bridge.NgdMatrix
import GPVerif.Bridge.NgdBackward
import GPVerif.Bridge.NgdBackwardGen
import GPVerif.Gen.StrategyEnv
import Mathlib.Algebra.BigOperators.Field
import Mathlib.Data.Finset.Powerset
import Mathlib.Tactic.FieldSimp
import Mathlib.Tactic.Ring
import Mathlib.Tactic.Linarith
import Mathlib.Tactic.LinearCombination
import Mathlib.Tactic.FinCases
import Mathlib.Tactic.NormNum

namespace C15
open ELBO DMat Variational

set_option linter.unusedSectionVars false
set_option linter.unusedVariables false

variable {α : Type} [Field α] [DecidableEq α] {M n : Nat}

/-! ## Part 1 — assembly and scaling (generated expressions) -/

theorem foldl_add_div (l : List α) (t B kl N β acc : α) :
    l.foldl (fun a lp => a + Gen.ElboScaling.logPriorItem lp t B kl N β) acc = acc + l.sum / N := by
  induction l generalizing acc with
  | nil => simp
  | cons x xs ih =>
    simp only [List.foldl_cons, List.sum_cons]
    rw [ih]
    simp only [Gen.ElboScaling.logPriorItem]
    ring

theorem foldl_add_loss (l : List α) (t B kl N β acc : α) :
    l.foldl (fun a x => a + Gen.ElboScaling.addedLossItem x t B kl N β) acc = acc + l.sum := by
  induction l generalizing acc with
  | nil => simp
  | cons x xs ih =>
    simp only [List.foldl_cons, List.sum_cons]
    rw [ih]
    simp only [Gen.ElboScaling.addedLossItem]
    ring

/-- **elbo_assembly / pll_assembly.**  The value computed by `_ApproximateMarginalLogLikelihood.forward` (generated
expressions: `.div(num_batch)`, `.div(num_data / beta)`, `.div(num_data)` per prior, plain sum of added losses) is
`(1/B) Σᵢ termᵢ − (β/N) KL + (1/N) Σ logprior − Σ addedLoss`, for any per-point terms (`expected_log_prob` for the
ELBO, `log_marginal` for the predictive log likelihood), any number of priors and added losses.
(`hB hN hβ`: the values for which the Python expression is defined.) -/
theorem objective_assembly (terms : List α) (B kl N β : α) (lps losses : List α)
    (hB : B ≠ 0) (hN : N ≠ 0) (hβ : β ≠ 0) :
    objective terms B kl N β lps losses = objectiveSpec terms B kl N β lps losses := by
  simp only [objective, objectiveSpec, Gen.ElboScaling.forward, Gen.ElboScaling.combine,
    Gen.ElboScaling.logLikelihood, Gen.ElboScaling.klTerm, foldl_add_div, foldl_add_loss]
  field_simp
  ring

/-- **uncombined_terms** (`combine_terms=False`): each separately returned term is the corresponding term of the
definition — in particular the returned KL term carries `β/N` (the translator checks that the returned tuple consists
of exactly these variables). -/
theorem uncombined_terms (t B kl N β lp l : α) (hB : B ≠ 0) (hN : N ≠ 0) (hβ : β ≠ 0) :
    Gen.ElboScaling.logLikelihood t B kl N β = (1 / B) * t
      ∧ Gen.ElboScaling.klTerm t B kl N β = (β / N) * kl
      ∧ Gen.ElboScaling.logPriorItem lp t B kl N β = (1 / N) * lp
      ∧ Gen.ElboScaling.addedLossItem l t B kl N β = l := by
  refine ⟨?_, ?_, ?_, rfl⟩ <;>
  · simp only [Gen.ElboScaling.logLikelihood, Gen.ElboScaling.klTerm, Gen.ElboScaling.logPriorItem]
    field_simp

/-- **elbo_assembly**: `VariationalELBO` with Gaussian likelihood — per-point terms are the closed-form
`E_q log p(yᵢ|fᵢ)`. -/
theorem elbo_assembly (pts : List (α × α × α)) (s logs log2pi B kl N β : α) (lps losses : List α)
    (hB : B ≠ 0) (hN : N ≠ 0) (hβ : β ≠ 0) :
    objective (pts.map fun p => gaussExpected p.1 p.2.1 p.2.2 s logs log2pi) B kl N β lps losses
      = (1 / B) * (pts.map fun p => gaussExpected p.1 p.2.1 p.2.2 s logs log2pi).sum
        - (β / N) * kl + (1 / N) * lps.sum - losses.sum :=
  objective_assembly _ B kl N β lps losses hB hN hβ

/-- **pll_assembly**: `PredictiveLogLikelihood` — per-point terms are `log E_q p(yᵢ|fᵢ) = log N(yᵢ; μᵢ, vᵢ+σ²)`. -/
theorem pll_assembly (pts : List (α × α × α × α)) (s log2pi B kl N β : α) (lps losses : List α)
    (hB : B ≠ 0) (hN : N ≠ 0) (hβ : β ≠ 0) :
    objective (pts.map fun p => gaussLogMarginal p.1 p.2.1 p.2.2.1 s p.2.2.2 log2pi) B kl N β lps losses
      = (1 / B) * (pts.map fun p => gaussLogMarginal p.1 p.2.1 p.2.2.1 s p.2.2.2 log2pi).sum
        - (β / N) * kl + (1 / N) * lps.sum - losses.sum :=
  objective_assembly _ B kl N β lps losses hB hN hβ

/-- The likelihood term scales with the minibatch size `B`, the KL with the declared data size `N` — and nothing
else: doubling the minibatch with the same per-point average leaves the value unchanged. -/
theorem objective_scaling (terms : List α) (B kl N β : α) (h2 : (2 : α) ≠ 0) (hB : B ≠ 0) :
    objective (terms ++ terms) (2 * B) kl N β [] [] = objective terms B kl N β [] [] := by
  simp only [objective, Gen.ElboScaling.forward, Gen.ElboScaling.combine, Gen.ElboScaling.logLikelihood,
    Gen.ElboScaling.klTerm, List.foldl_nil, List.sum_append]
  field_simp
  ring

/-! ### minibatch unbiasedness -/

/-- **minibatch_scaling** (single-index sampling): drawing one index uniformly from `N` points, the expected value of
the minibatch likelihood term `t_i / 1` is the full-batch term `(1/N) Σ t_i`. -/
theorem minibatch_unbiased_single {N : Nat} (hN : (N : α) ≠ 0) (t : Fin N → α) :
    (1 / (N : α)) * ∑ i, Gen.ElboScaling.logLikelihood (t i) 1 0 (N : α) 1
      = Gen.ElboScaling.logLikelihood (∑ i, t i) (N : α) 0 (N : α) 1 := by
  simp only [Gen.ElboScaling.logLikelihood, div_one]
  field_simp

/-- number of size-`(b+1)` subsets of `Fin N` that contain a given index. -/
theorem card_powersetCard_mem {N : Nat} (b : Nat) (i : Fin N) :
    ((Finset.powersetCard (b + 1) (Finset.univ : Finset (Fin N))).filter (fun s => i ∈ s)).card
      = (N - 1).choose b := by
  classical
  have hcard : ((Finset.univ : Finset (Fin N)).erase i).card = N - 1 := by
    simp [Finset.card_erase_of_mem]
  rw [← hcard, ← Finset.card_powersetCard]
  refine Finset.card_bij' (fun s _ => s.erase i) (fun s _ => insert i s) ?_ ?_ ?_ ?_
  · intro s hs
    simp only [Finset.mem_filter, Finset.mem_powersetCard] at hs
    simp only [Finset.mem_powersetCard]
    refine ⟨fun x hx => ?_, ?_⟩
    · simp only [Finset.mem_erase] at hx ⊢
      exact ⟨hx.1, Finset.mem_univ _⟩
    · rw [Finset.card_erase_of_mem hs.2, hs.1.2]; rfl
  · intro s hs
    simp only [Finset.mem_powersetCard] at hs
    have hi : i ∉ s := fun h => by simpa using hs.1 h
    simp only [Finset.mem_filter, Finset.mem_powersetCard, Finset.subset_univ, true_and, Finset.mem_insert,
      true_or, and_true]
    rw [Finset.card_insert_of_notMem hi, hs.2]
  · intro s hs
    simp only [Finset.mem_filter] at hs
    exact Finset.insert_erase hs.2
  · intro s hs
    simp only [Finset.mem_powersetCard] at hs
    have hi : i ∉ s := fun h => by simpa using hs.1 h
    exact Finset.erase_insert hi

/-- sum over all size-`(b+1)` subsets of the minibatch sums: every index is counted `C(N−1, b)` times. -/
theorem sum_powersetCard_sum {N : Nat} (b : Nat) (t : Fin N → α) :
    ∑ s ∈ Finset.powersetCard (b + 1) (Finset.univ : Finset (Fin N)), ∑ i ∈ s, t i
      = ((N - 1).choose b : α) * ∑ i, t i := by
  classical
  have h1 : ∀ s ∈ Finset.powersetCard (b + 1) (Finset.univ : Finset (Fin N)),
      ∑ i ∈ s, t i = ∑ i, if i ∈ s then t i else 0 := by
    intro s _
    rw [Finset.sum_ite_mem, Finset.univ_inter]
  rw [Finset.sum_congr rfl h1, Finset.sum_comm, Finset.mul_sum]
  apply Finset.sum_congr rfl
  intro i _
  rw [← Finset.sum_filter, Finset.sum_const, card_powersetCard_mem, nsmul_eq_mul]

/-- **minibatch_scaling**: the average over *all* size-`B` minibatches (`B = b+1 ≤ N`) of the code's minibatch
likelihood term `(Σ_{i∈batch} t_i).div(B)` equals the full-batch term `(Σ_i t_i).div(N)`. -/
theorem minibatch_scaling {N : Nat} (b : Nat) (hb : b + 1 ≤ N) (t : Fin N → α) (hchar : ∀ k : Nat, 0 < k → (k : α) ≠ 0) :
    (1 / ((N.choose (b + 1) : Nat) : α))
        * ∑ s ∈ Finset.powersetCard (b + 1) (Finset.univ : Finset (Fin N)),
            Gen.ElboScaling.logLikelihood (∑ i ∈ s, t i) ((b + 1 : Nat) : α) 0 (N : α) 1
      = Gen.ElboScaling.logLikelihood (∑ i, t i) (N : α) 0 (N : α) 1 := by
  simp only [Gen.ElboScaling.logLikelihood]
  rw [← Finset.sum_div, sum_powersetCard_sum]
  have hNpos : 0 < N := by omega
  have hN : (N : α) ≠ 0 := hchar N hNpos
  have hb1 : ((b + 1 : Nat) : α) ≠ 0 := hchar (b + 1) (by omega)
  have hch : ((N.choose (b + 1) : Nat) : α) ≠ 0 := hchar _ (Nat.choose_pos hb)
  -- N * C(N-1, b) = C(N, b+1) * (b+1)
  have hid : N * (N - 1).choose b = N.choose (b + 1) * (b + 1) := by
    obtain ⟨k, rfl⟩ : ∃ k, N = k + 1 := ⟨N - 1, by omega⟩
    simpa using Nat.add_one_mul_choose_eq k b
  have hidα : (N : α) * ((N - 1).choose b : α) = (N.choose (b + 1) : α) * ((b + 1 : Nat) : α) := by
    exact_mod_cast congrArg (Nat.cast (R := α)) hid
  field_simp
  linear_combination (∑ i, t i) * hidα

theorem toMatrix_addJitter_smul {k : Nat} (A : DMat k k α) (ε : α) :
    (addJitter A ε).toMatrix = A.toMatrix + ε • (1 : Matrix (Fin k) (Fin k) α) := by
  simp [addJitter]

/-! ### natural-gradient step -/

/-- **ngd_one_step_opt** (the algebraic core).  For the conjugate (Gaussian-likelihood) model the gradient of the loss
`−ELBO` with respect to the expectation parameters is the affine map `−(1/N)(η* − η)` (`lossGradExpectation`; that
the code's `backward` returns this is observed by the correspondence, and proved in the scalar case below), so the
generated update `p + (−lr·N)·grad` with `lr = 1` lands on `η* = (σ⁻² B r, −½(I + σ⁻² B Bᵀ))` from *any* start. -/
theorem ngd_one_step_opt (B : DMat M n α) (r : DMat n 1 α) (s N : α) (hN : N ≠ 0)
    (η₁ : DMat M 1 α) (η₂ : DMat M M α) :
    ngdStepMat η₁ (lossGradExpectation B r s N η₁ η₂).1 1 N = (optNatural B r s).1
      ∧ ngdStepMat η₂ (lossGradExpectation B r s N η₁ η₂).2 1 N = (optNatural B r s).2 := by
  constructor <;>
  · apply toMatrix_injective
    funext i j
    simp only [ngdStepMat, lossGradExpectation, toMatrix_ofMatrix, Matrix.of_apply, Gen.ElboScaling.ngdStep,
      toMatrix_smul, toMatrix_sub, Matrix.smul_apply, Matrix.sub_apply, smul_eq_mul]
    field_simp
    ring

/-- a step of size `lr` moves the natural parameters the fraction `lr` of the way to `η*` (so `lr ≠ 1` does not
reach it in one step unless already there). -/
theorem ngd_step_fraction (B : DMat M n α) (r : DMat n 1 α) (s N lr : α) (hN : N ≠ 0)
    (η₁ : DMat M 1 α) (η₂ : DMat M M α) (i j : Fin M) :
    (ngdStepMat η₂ (lossGradExpectation B r s N η₁ η₂).2 lr N).toMatrix i j
      = η₂.toMatrix i j + lr * ((optNatural B r s).2.toMatrix i j - η₂.toMatrix i j) := by
  simp only [ngdStepMat, lossGradExpectation, toMatrix_ofMatrix, Matrix.of_apply, Gen.ElboScaling.ngdStep,
    toMatrix_smul, toMatrix_sub, Matrix.smul_apply, Matrix.sub_apply, smul_eq_mul]
  field_simp

/-- `q*` read through the natural map of C14: precision `P = I + σ⁻² B Bᵀ`, mean `σ⁻² P⁻¹ B r`. -/
theorem opt_is_natural_of_eta (h2 : (2 : α) ≠ 0) (B : DMat M n α) (r : DMat n 1 α) (s : α)
    (mw : DMat M 1 α) (Sw : DMat M M α) (h : optWhitened? B r s = some (mw, Sw)) :
    Sw.toMatrix = (optPrec B s).toMatrix⁻¹
      ∧ mw.toMatrix = (optPrec B s).toMatrix⁻¹ * ((1 / s) • (B.toMatrix * r.toMatrix)) := by
  unfold optWhitened? natural? at h
  cases hi : inv? ((optNatural B r s).2.smul (-2)) with
  | none => simp [hi] at h
  | some X =>
    simp only [hi, Option.map_some, Option.some.injEq, naturalOfInv, Prod.mk.injEq] at h
    have hX := inv?_correct hi
    have e : ((optNatural B r s).2.smul (-2)).toMatrix = (optPrec B s).toMatrix := by
      simp only [optNatural, toMatrix_smul, smul_smul]
      have : (-2 : α) * (-(1 / 2)) = 1 := by field_simp
      rw [this, one_smul]
    rw [e] at hX
    refine ⟨by rw [← h.2, hX], ?_⟩
    rw [← h.1, toMatrix_mul, hX]
    simp [optNatural]

/-! ## Part 2 — the bound chain over ℝ (Gaussian likelihood) -/

section Bound
open Matrix ElboGlue

/-- **logdet_le_trace_sub**: `log det X ≤ tr X − n` for symmetric positive definite `X`. -/
theorem logdet_le_trace_sub (X : DMat n n ℝ) (hX : X.toMatrix.PosDef) :
    Real.log X.toMatrix.det ≤ X.trace - (n : ℝ) := by
  have := LogDet.logdet_le_trace_sub X.toMatrix hX
  simpa [DMat.trace] using this

/-- **logdet_pair_le**: `log det B − log det A ≤ tr(A⁻¹B) − n` for `A = L Lᵀ` (`L` invertible — the factor the code
has), `B` positive definite. -/
theorem logdet_pair_le (L Bm Ai : DMat n n ℝ) (hL : IsUnit L.toMatrix.det) (hB : Bm.toMatrix.PosDef)
    (hAi : Ai.toMatrix = (L.toMatrix * L.toMatrixᵀ)⁻¹) :
    Real.log Bm.toMatrix.det - Real.log (L.mul L.transpose).toMatrix.det ≤ (Ai.mul Bm).trace - (n : ℝ) := by
  have := LogDet.logdet_pair_le L.toMatrix Bm.toMatrix hL hB
  simpa [DMat.trace, hAi] using this

/-- **gaussian_kl_nonneg**: `KL(N(m,S) ‖ N(μ,P)) = ½ [klRat − (log det S − log det P)] ≥ 0`, `S`, `P` positive definite
(`klRat` is the rational part the driver reports). -/
theorem gaussian_kl_nonneg (Pm Pi S : DMat n n ℝ) (d : DMat n 1 ℝ) (hP : Pm.toMatrix.PosDef) (hS : S.toMatrix.PosDef)
    (hPi : Pi.toMatrix = Pm.toMatrix⁻¹) :
    0 ≤ (1 / 2 : ℝ) * (klRat Pi S d - (Real.log S.toMatrix.det - Real.log Pm.toMatrix.det)) := by
  have := LogDet.gaussian_kl_nonneg_posDef Pm.toMatrix S.toMatrix (colVec d) hP hS
  simp only [klRat, quadForm_eq, DMat.trace, toMatrix_mul, hPi]
  simpa using this

/-- The model's `N·ELBO` (generated scaling, per-point Gaussian terms, whitened `q(f)` and KL of C14) is the
matrix expression `Collapsed.elboN` in whitened coordinates `B = L⁻¹Kzx`, `r = y − mX`. -/
theorem modelElboN_eq (hn : n ≠ 0) (Kzx : DMat M n ℝ) (Kxx : DMat n n ℝ) (mX y : DMat n 1 ℝ) (εx s : ℝ)
    (Li : DMat M M ℝ) (mw : DMat M 1 ℝ) (Sw : DMat M M ℝ) :
    modelElboN Kzx Kxx mX y εx s Li mw Sw
      = Collapsed.elboN (Li.mul Kzx).toMatrix (resid y mX) s (addJitter Kxx εx).toMatrix.trace (colVec mw) Sw.toMatrix := by
  have hN : (n : ℝ) ≠ 0 := Nat.cast_ne_zero.mpr hn
  unfold modelElboN
  rw [objective_assembly _ _ _ _ _ _ _ hN hN one_ne_zero]
  simp only [objectiveSpec, List.sum_ofFn, List.sum_nil, gaussExpected]
  rw [klRatWhitened_eq]
  have hsum : ∑ i : Fin n, (-(1 / 2 : ℝ)) *
        (((y.toMatrix i 0 - (whitenedFwd Kzx Kxx mX εx Li mw Sw).mean.toMatrix i 0)
            * (y.toMatrix i 0 - (whitenedFwd Kzx Kxx mX εx Li mw Sw).mean.toMatrix i 0)
            + (whitenedFwd Kzx Kxx mX εx Li mw Sw).cov.toMatrix i i) / s + Real.log s + Real.log (2 * Real.pi))
      = -(1 / 2) * (s⁻¹ * ((resid y mX - ((Li.mul Kzx).toMatrix)ᵀ *ᵥ colVec mw) ⬝ᵥ
              (resid y mX - ((Li.mul Kzx).toMatrix)ᵀ *ᵥ colVec mw)
            + ((addJitter Kxx εx).toMatrix.trace - (((Li.mul Kzx).toMatrix)ᵀ * (Li.mul Kzx).toMatrix).trace
              + (((Li.mul Kzx).toMatrix)ᵀ * Sw.toMatrix * (Li.mul Kzx).toMatrix).trace))
          + (n : ℝ) * Real.log s + (n : ℝ) * Real.log (2 * Real.pi)) := by
    rw [← whitened_var_sum Kzx Kxx mX εx Li mw Sw]
    simp only [dotProduct, Pi.sub_apply, resid, whitened_mean_apply]
    rw [← Finset.mul_sum]
    congr 1
    simp only [div_eq_inv_mul, Finset.sum_add_distrib, Finset.mul_sum, Finset.sum_const, Finset.card_univ,
      Fintype.card_fin, nsmul_eq_mul, mul_add]
    congr 1
    congr 1
    congr 1
    apply Finset.sum_congr rfl
    intro i _
    ring
  rw [hsum]
  unfold Collapsed.elboN
  simp only [Fintype.card_fin]
  field_simp
  ring

/-- **elbo_eq_collapsed_minus_kl_to_opt** (completion of squares): for every `q(u)` (whitened mean `m_w`, covariance
`S_w`), `N·ELBO(q) = L_collapsed − KL(q ‖ q*)`. -/
theorem elbo_eq_collapsed_minus_kl_to_opt (hn : n ≠ 0) (Kzx : DMat M n ℝ) (Kxx : DMat n n ℝ) (mX y : DMat n 1 ℝ)
    (εx s : ℝ) (hs : 0 < s) (Li : DMat M M ℝ) (mw : DMat M 1 ℝ) (Sw : DMat M M ℝ) (hS : Sw.toMatrix.PosDef) :
    modelElboN Kzx Kxx mX y εx s Li mw Sw
      = Collapsed.collapsedBound (Li.mul Kzx).toMatrix (resid y mX) s (addJitter Kxx εx).toMatrix.trace
        - Collapsed.klToOpt (Li.mul Kzx).toMatrix (resid y mX) s (colVec mw) Sw.toMatrix := by
  rw [modelElboN_eq hn]
  exact Collapsed.elbo_eq_collapsed_sub_kl _ _ s _ hs _ _ hS

/-- **elbo_le_collapsed**: `N·ELBO(q) ≤ L_collapsed` for every `q(u)`. -/
theorem elbo_le_collapsed (hn : n ≠ 0) (Kzx : DMat M n ℝ) (Kxx : DMat n n ℝ) (mX y : DMat n 1 ℝ)
    (εx s : ℝ) (hs : 0 < s) (Li : DMat M M ℝ) (mw : DMat M 1 ℝ) (Sw : DMat M M ℝ) (hS : Sw.toMatrix.PosDef) :
    modelElboN Kzx Kxx mX y εx s Li mw Sw
      ≤ Collapsed.collapsedBound (Li.mul Kzx).toMatrix (resid y mX) s (addJitter Kxx εx).toMatrix.trace := by
  rw [modelElboN_eq hn]
  exact Collapsed.elbo_le_collapsed _ _ s _ hs _ _ hS

/-- **elbo_opt_attained**: at the `q*` the model computes (`optWhitened?`, i.e. natural parameters
`(σ⁻² B r, −½(I + σ⁻² B Bᵀ))`) the bound is attained. -/
theorem elbo_opt_attained (hn : n ≠ 0) (Kzx : DMat M n ℝ) (Kxx : DMat n n ℝ) (mX y r : DMat n 1 ℝ)
    (εx s : ℝ) (hs : 0 < s) (Li : DMat M M ℝ) (mw : DMat M 1 ℝ) (Sw : DMat M M ℝ)
    (hr : r = y.sub mX) (hopt : optWhitened? (Li.mul Kzx) r s = some (mw, Sw)) :
    modelElboN Kzx Kxx mX y εx s Li mw Sw
      = Collapsed.collapsedBound (Li.mul Kzx).toMatrix (resid y mX) s (addJitter Kxx εx).toMatrix.trace := by
  obtain ⟨hSw, hmw⟩ := opt_is_natural_of_eta (by norm_num) (Li.mul Kzx) r s mw Sw hopt
  have hprec : (optPrec (Li.mul Kzx) s).toMatrix = Collapsed.prec (Li.mul Kzx).toMatrix s := by
    simp [optPrec, Collapsed.prec, add_comm]
  have hrv : colVec r = resid y mX := by
    funext i; simp [colVec, resid, hr]
  have hμ : colVec mw = Collapsed.muOpt (Li.mul Kzx).toMatrix (resid y mX) s := by
    funext i
    have e1 : ∀ (A : Matrix (Fin M) (Fin M) ℝ) (X : Matrix (Fin M) (Fin 1) ℝ),
        (A * X) i 0 = (A *ᵥ fun j => X j 0) i := by
      intro A X; simp [Matrix.mul_apply, Matrix.mulVec, dotProduct]
    have e2 : (fun j => ((Li.mul Kzx).toMatrix * r.toMatrix) j 0) = (Li.mul Kzx).toMatrix *ᵥ resid y mX := by
      funext j; rw [← hrv]; simp [Matrix.mul_apply, Matrix.mulVec, dotProduct, colVec]
    simp only [colVec, hmw, hprec, Collapsed.muOpt, Pi.smul_apply, smul_eq_mul, Matrix.mul_smul,
      Matrix.smul_apply, one_div]
    rw [e1, e2]
  rw [modelElboN_eq hn, hμ, hSw, hprec]
  exact Collapsed.elbo_at_opt _ _ s _ hs

/-- The model's collapsed bound (pieces from `boundPieces?`, logs of the exact determinants) is the matrix expression
`Collapsed.collapsedBound` when `K̃ = L Lᵀ`. -/
theorem collapsed_model_eq (Kt L Li : DMat M M ℝ) (Kzx : DMat M n ℝ) (Kxxt : DMat n n ℝ) (r : DMat n 1 ℝ) (s : ℝ)
    (qA trD qC : ℝ) (A Cm : DMat n n ℝ)
    (hL : L.toMatrix * L.toMatrixᵀ = Kt.toMatrix) (hLdet : IsUnit L.toMatrix.det) (hLi : Li.toMatrix = L.toMatrix⁻¹)
    (h : boundPieces? Kt Kzx Kxxt r s = some (qA, A, trD, qC, Cm)) :
    collapsed qA (Real.log A.toMatrix.det) ((n : ℝ) * Real.log (2 * Real.pi)) trD s
        = Collapsed.collapsedBound (Li.mul Kzx).toMatrix (colVec r) s Kxxt.toMatrix.trace
      ∧ gaussLogDensity qC (Real.log Cm.toMatrix.det) ((n : ℝ) * Real.log (2 * Real.pi))
        = -(1 / 2) * (colVec r ⬝ᵥ ((Kxxt.toMatrix + s • 1)⁻¹ *ᵥ colVec r) + Real.log (Kxxt.toMatrix + s • 1).det
            + (n : ℝ) * Real.log (2 * Real.pi)) := by
  unfold boundPieces? at h
  cases hKi : inv? Kt with
  | none => simp [hKi] at h
  | some Ki =>
    cases hAi : inv? (addJitter (nystrom Kzx Ki) s) with
    | none => simp [hKi, hAi] at h
    | some Ai =>
      cases hCi : inv? (addJitter Kxxt s) with
      | none => simp [hKi, hAi, hCi] at h
      | some Ci =>
        simp only [hKi, hAi, hCi, Option.bind_eq_bind, Option.bind_some, Option.pure_def, Option.some.injEq,
          Prod.mk.injEq] at h
        obtain ⟨hqA, hA, htrD, hqC, hCm⟩ := h
        have hKiM := inv?_correct hKi
        have hQ : (nystrom Kzx Ki).toMatrix = ((Li.mul Kzx).toMatrix)ᵀ * (Li.mul Kzx).toMatrix := by
          simp only [nystrom, toMatrix_mul, toMatrix_transpose, hKiM, ← hL, hLi, Whitening.inv_LLt,
            Matrix.transpose_mul, Matrix.mul_assoc]
        have hAM : A.toMatrix = ((Li.mul Kzx).toMatrix)ᵀ * (Li.mul Kzx).toMatrix + s • 1 := by
          rw [← hA, toMatrix_addJitter_smul, hQ]
        have hCM : Cm.toMatrix = Kxxt.toMatrix + s • 1 := by rw [← hCm, toMatrix_addJitter_smul]
        constructor
        · unfold collapsed gaussLogDensity Collapsed.collapsedBound
          rw [← hqA, quadForm_eq, inv?_correct hAi, ← htrD, hAM]
          simp only [DMat.trace, toMatrix_sub, Matrix.trace_sub, hQ, ← hAM, hA, Fintype.card_fin]
        · unfold gaussLogDensity
          rw [← hqC, quadForm_eq, inv?_correct hCi, hCM, toMatrix_addJitter_smul]

/-- **collapsed_le_exact**: `L_collapsed ≤ log N(y; m, K̃xx + σ²I)` whenever the Schur complement `K̃xx − Kxz K̃⁻¹ Kzx`
of the joint prior is positive semidefinite (it is, for a PSD joint covariance). -/
theorem collapsed_le_exact (Li : DMat M M ℝ) (Kzx : DMat M n ℝ) (Kxxt : DMat n n ℝ) (r : DMat n 1 ℝ) (s : ℝ)
    (hs : 0 < s) (hsym : Kxxt.toMatrix.IsHermitian)
    (hschur : (Kxxt.toMatrix - ((Li.mul Kzx).toMatrix)ᵀ * (Li.mul Kzx).toMatrix).PosSemidef) :
    Collapsed.collapsedBound (Li.mul Kzx).toMatrix (colVec r) s Kxxt.toMatrix.trace
      ≤ -(1 / 2) * (colVec r ⬝ᵥ ((Kxxt.toMatrix + s • 1)⁻¹ *ᵥ colVec r) + Real.log (Kxxt.toMatrix + s • 1).det
          + (n : ℝ) * Real.log (2 * Real.pi)) := by
  have := Collapsed.collapsed_le_exact (Li.mul Kzx).toMatrix Kxxt.toMatrix (colVec r) s hs hsym hschur
  simpa using this

/-- **elbo_le_exact**: `N·ELBO(q) ≤ log N(y; m, K̃xx + σ²I)` for every `q(u)`. -/
theorem elbo_le_exact (hn : n ≠ 0) (Kzx : DMat M n ℝ) (Kxx : DMat n n ℝ) (mX y r : DMat n 1 ℝ)
    (εx s : ℝ) (hs : 0 < s) (Li : DMat M M ℝ) (mw : DMat M 1 ℝ) (Sw : DMat M M ℝ) (hS : Sw.toMatrix.PosDef)
    (hr : r = y.sub mX) (hsym : (addJitter Kxx εx).toMatrix.IsHermitian)
    (hschur : ((addJitter Kxx εx).toMatrix - ((Li.mul Kzx).toMatrix)ᵀ * (Li.mul Kzx).toMatrix).PosSemidef) :
    modelElboN Kzx Kxx mX y εx s Li mw Sw
      ≤ -(1 / 2) * (colVec r ⬝ᵥ (((addJitter Kxx εx).toMatrix + s • 1)⁻¹ *ᵥ colVec r)
          + Real.log ((addJitter Kxx εx).toMatrix + s • 1).det + (n : ℝ) * Real.log (2 * Real.pi)) := by
  have hrv : colVec r = resid y mX := by
    funext i; simp [colVec, resid, hr]
  have h1 := elbo_le_collapsed hn Kzx Kxx mX y εx s hs Li mw Sw hS
  have h2 := collapsed_le_exact Li Kzx (addJitter Kxx εx) r s hs hsym hschur
  rw [hrv] at h2 ⊢
  exact le_trans h1 h2

end Bound

/-! ## Part 3 — the per-point terms are the stated Gaussian integrals; the NGD gradient in the scalar case -/

section Integrals
open MeasureTheory ProbabilityTheory
open scoped NNReal

/-- The model's (and gpytorch's) closed form `expected_log_prob` **is** `E_{q(fᵢ)} log p(yᵢ | fᵢ)` for
`q(fᵢ) = N(μ, v)`, `p(y|f) = N(y; f, σ²)`. -/
theorem gaussExpected_is_expectation (y μ : ℝ) (v s : ℝ≥0) (hs : s ≠ 0) :
    gaussExpected y μ (v : ℝ) (s : ℝ) (Real.log s) (Real.log (2 * Real.pi))
      = ∫ f, Real.log (gaussianPDFReal f s y) ∂(gaussianReal μ v) := by
  rw [GaussExpect.expected_log_gaussian y μ v s hs]
  simp only [gaussExpected]

/-- The closed form `log_marginal` **is** `log E_{q(fᵢ)} p(yᵢ | fᵢ)` (the term `PredictiveLogLikelihood` sums). -/
theorem gaussLogMarginal_is_log_expectation (y μ : ℝ) (v s : ℝ≥0) (hs : s ≠ 0) :
    gaussLogMarginal y μ (v : ℝ) (s : ℝ) (Real.log ((v : ℝ) + s)) (Real.log (2 * Real.pi))
      = Real.log (∫ f, gaussianPDFReal f s y ∂(gaussianReal μ v)) := by
  rw [GaussExpect.log_expected_gaussian y μ v s hs]
  simp only [gaussLogMarginal]

/-- **ngd_gradient_affine_scalar**: for one inducing point the derivative of `N·ELBO` with respect to the expectation
parameters `(ξ₁, ξ₂) = (μ, S + μ²)` is `η* − η` (`η = (μ/S, −1/(2S))`, `η* = (a/σ², −½(1 + c/σ²))`) — the hypothesis
of `ngd_one_step_opt`, proved as a `HasDerivAt` in the scalar case; in general it is observed by the correspondence
(autograd gradient vs `lossGradExpectation`). -/
theorem ngd_gradient_affine_scalar (a c s R tK nlog ξ₁ ξ₂ : ℝ) (hS : 0 < ξ₂ - ξ₁ ^ 2) :
    HasDerivAt (fun x => NgdScalar.F a c s R tK nlog x ξ₂) (a / s - ξ₁ / (ξ₂ - ξ₁ ^ 2)) ξ₁
      ∧ HasDerivAt (fun x => NgdScalar.F a c s R tK nlog ξ₁ x)
          (-(1 / 2) * (1 + c / s) - (-1 / (2 * (ξ₂ - ξ₁ ^ 2)))) ξ₂ :=
  ⟨NgdScalar.hasDerivAt_xi1 a c s R tK nlog ξ₁ ξ₂ hS, NgdScalar.hasDerivAt_xi2 a c s R tK nlog ξ₁ ξ₂ hS⟩

open Matrix in
/-- **ngd_gradient_affine** (general number `M` of inducing points).  `N·ELBO` of the conjugate model as a function of the
expectation parameters `(ξ₁, ξ₂) = (μ, Σ + μμᵀ)` (`NgdMatrix.F`, with `a = B r`, `C = B Bᵀ` from the model's whitened
blocks) has, at every point with `Σ = ξ₂ − ξ₁ξ₁ᵀ` positive definite, directional derivatives
`(η₁* − η₁)·h` and `tr((η₂* − η₂) H)` with `η = (Σ⁻¹μ, −½Σ⁻¹)` the natural parameters of `q` and
`η* = optNatural B r s` — i.e. the gradient with respect to the expectation parameters is `η* − η`, the hypothesis of
`ngd_one_step_opt`.  Jacobi's formula is not assumed: the derivative of `log det` along the (quadratic) curve is proved
from the polynomial expansion of the determinant (`Bridge/NgdMatrix.lean`). -/
theorem ngd_gradient_affine (B : DMat M n ℝ) (r : DMat n 1 ℝ) (s R tK nlog : ℝ) (ξ₁ h : Fin M → ℝ)
    (ξ₂ H : Matrix (Fin M) (Fin M) ℝ) (hSig : (ξ₂ - Matrix.vecMulVec ξ₁ ξ₁).PosDef) :
    HasDerivAt (fun t : ℝ => NgdMatrix.F (ElboGlue.colVec (B.mul r)) (B.mul B.transpose).toMatrix s R tK nlog (ξ₁ + t • h) ξ₂)
        ((ElboGlue.colVec (optNatural B r s).1 - (ξ₂ - Matrix.vecMulVec ξ₁ ξ₁)⁻¹ *ᵥ ξ₁) ⬝ᵥ h) 0
      ∧ HasDerivAt (fun t : ℝ => NgdMatrix.F (ElboGlue.colVec (B.mul r)) (B.mul B.transpose).toMatrix s R tK nlog ξ₁ (ξ₂ + t • H))
        ((((optNatural B r s).2.toMatrix - (-(1 / 2 : ℝ)) • (ξ₂ - Matrix.vecMulVec ξ₁ ξ₁)⁻¹) * H).trace) 0 := by
  constructor
  · refine (NgdMatrix.hasDerivAt_xi1 _ _ s R tK nlog ξ₁ h ξ₂ hSig).congr_deriv ?_
    congr 2
    funext i
    simp [optNatural, ElboGlue.colVec, one_div]
  · refine (NgdMatrix.hasDerivAt_xi2 _ _ s R tK nlog ξ₁ ξ₂ H hSig).congr_deriv ?_
    congr 3
    simp [optNatural, optPrec, one_div]

end Integrals

/-! ## Part 4 — from the code's `backward` to the natural-gradient step

`NaturalVariationalDistribution.forward` (generated: `Gen.NaturalForward`) maps the natural parameters `(θ₁, θ₂)` to
`(μ, L)`; the objective is evaluated from `(μ, L)`; torch autograd delivers `(dout_dmu, dout_dL)`;
`_NaturalToMuVarSqrt._backward` (generated: `Gen.NaturalGrad.naturalBackward`, translator `g5_natgrad`) turns that pair
into the "gradient" handed to `NGD`.  Chain proved here:

  generated forward + primitive contracts  ⟹  `(θ₁, θ₂)` are the natural parameters of `N(μ, LLᵀ)`   (`natural_forward_contract`)
  the loss `−(1/N)·modelElboN` as a function of `(μ, L)` has gradient `(b + 2Aμ, 2AL)`, `(b, A) = lossGradExpectation`  (`elbo_grad_mu_chol`)
  generated backward of that pair = `(b, A)` = `−(1/N)(η* − η)`                                         (`natural_backward_elbo_gradient`)
  generated `NGD.step` with `lr = 1` on it = `η*`                                                        (`ngd_backward_one_step_opt`)

Still observed, not proved: that torch autograd returns the true gradient of the upstream graph (the harness compares the
`(dout_dmu, dout_dL)` torch delivers with the pair of `elbo_grad_mu_chol`), and the contracts of `psd_safe_cholesky` /
`solve_triangular`. -/

section NaturalBackward
open Matrix
variable {k : Nat}

/-- **natural_backward_adjoint** — `_NaturalToMuVarSqrt._backward` returns the gradient with respect to the expectation
parameters, for ANY loss: for arbitrary upstream gradients `(g_μ, g_L)`, every direction `(δ₁, δ₂)` of the expectation
parameters `(ξ₁, ξ₂) = (μ, Σ + μμᵀ)` and the direction `(δμ, δL) = (δ₁, δL)` it induces on `(μ, L)`
(`δL` lower triangular with `δL·Lᵀ + L·δLᵀ = δΣ = δ₂ − δ₁μᵀ − μδ₁ᵀ`):
`⟨g_μ, δμ⟩ + ⟨g_L, δL⟩ = ⟨out₁, δ₁⟩ + ⟨out₂, δ₂⟩` (`⟨A,B⟩ = tr(AᵀB)`; `C = L⁻¹`, lower triangular).  About the generated code. -/
theorem natural_backward_adjoint (h2 : (2 : α) ≠ 0) (gMu mu : DMat k 1 α) (gL L C : DMat k k α)
    (d1 : Matrix (Fin k) (Fin 1) α) (d2 dL : Matrix (Fin k) (Fin k) α)
    (hC : C.toMatrix * L.toMatrix = 1) (hClow : ∀ i j, i < j → C.toMatrix i j = 0)
    (hdL : ∀ i j, i < j → dL i j = 0)
    (hdir : dL * L.toMatrixᵀ + L.toMatrix * dLᵀ = d2 - d1 * mu.toMatrixᵀ - mu.toMatrix * d1ᵀ) :
    (gMu.toMatrixᵀ * d1).trace + (gL.toMatrixᵀ * dL).trace
      = ((Gen.NaturalGrad.naturalBackward gMu gL mu L C).1.toMatrixᵀ * d1).trace
        + ((Gen.NaturalGrad.naturalBackward gMu gL mu L C).2.toMatrixᵀ * d2).trace := by
  rw [NgdBackward.gen_naturalBackward_eq,
    ← NgdBackward.naturalBackward_adjoint gMu mu (NaturalGrad.choleskyBackward gL L C) d1 d2
      (NgdBackward.choleskyBackward_symm gL L C),
    ← hdir, NgdBackward.choleskyBackward_adjoint h2 gL L C dL hC hClow hdL]

/-- **natural_backward_is_expectation_gradient** — if the loss has gradient `(b, A)` (`A` symmetric) with respect to the
expectation parameters, its chain-rule gradient in `(μ, L)` is `(b + 2Aμ, 2AL)`; the generated `_backward` applied to that
pair returns `(b, A)` — also when only the lower triangle of `dout_dL` agrees with `2AL` (masked upstream graph).
`L` lower triangular, `C` its inverse. -/
theorem natural_backward_is_expectation_gradient (h2 : (2 : α) ≠ 0) (A L C gL : DMat k k α) (b mu gMu : DMat k 1 α)
    (hA : A.toMatrixᵀ = A.toMatrix) (hL : ∀ i j : Fin k, i < j → L.toMatrix i j = 0)
    (hinv : L.toMatrix * C.toMatrix = 1)
    (hgMu : gMu.toMatrix = b.toMatrix + (2 : α) • (A.toMatrix * mu.toMatrix))
    (hgL : ∀ i j : Fin k, j ≤ i → gL.toMatrix i j = ((2 : α) • (A.toMatrix * L.toMatrix)) i j) :
    Gen.NaturalGrad.naturalBackward gMu gL mu L C = (b, A) := by
  rw [NgdBackward.gen_naturalBackward_eq]
  exact NgdBackward.naturalBackward_of_chain h2 A L C gL b mu gMu hA hL hinv hgMu hgL

/-- the same about `_NaturalToMuVarSqrt.backward` (which computes `C = _triangular_inverse(L)` itself; contract of the
primitive: `L · triInv L = 1`) -/
theorem natural_function_backward_is_expectation_gradient (h2 : (2 : α) ≠ 0) (triInv : DMat k k α → DMat k k α)
    (A L gL : DMat k k α) (b mu gMu : DMat k 1 α)
    (hA : A.toMatrixᵀ = A.toMatrix) (hL : ∀ i j : Fin k, i < j → L.toMatrix i j = 0)
    (hinv : L.toMatrix * (triInv L).toMatrix = 1)
    (hgMu : gMu.toMatrix = b.toMatrix + (2 : α) • (A.toMatrix * mu.toMatrix))
    (hgL : ∀ i j : Fin k, j ≤ i → gL.toMatrix i j = ((2 : α) • (A.toMatrix * L.toMatrix)) i j) :
    Gen.NaturalGrad.naturalFunctionBackward triInv gMu gL mu L = (b, A) := by
  rw [NgdBackward.gen_naturalFunctionBackward_eq]
  exact natural_backward_is_expectation_gradient h2 A L (triInv L) gL b mu gMu hA hL hinv hgMu hgL

/-- **natural_forward_contract** — the generated `_NaturalToMuVarSqrt._forward`, given the contracts of its two
primitives on the arguments it passes them (`chol X · (chol X)ᵀ = X`, `triInv Y · Y = 1`), returns `(μ, L)` with
`Σ = L Lᵀ = (−2θ₂)⁻¹` and `μ = Σ θ₁`: the inputs `(θ₁, θ₂)` are the natural parameters `(Σ⁻¹μ, −½Σ⁻¹)` of the Gaussian
`NaturalVariationalDistribution.forward` returns (`distForward` = `(μ, L Lᵀ)`); the autograd `Function` saves exactly the
returned pair and `backward` reads it back in that order. -/
theorem natural_forward_contract (chol triInv : DMat k k α → DMat k k α) (θ₁ : DMat k 1 α) (θ₂ : DMat k k α)
    (hchol₁ : (chol (θ₂.smul (-2))).toMatrix * (chol (θ₂.smul (-2))).toMatrixᵀ = (-2 : α) • θ₂.toMatrix)
    (htri : (triInv (chol (θ₂.smul (-2)))).toMatrix * (chol (θ₂.smul (-2))).toMatrix = 1)
    (hchol₂ : (chol ((triInv (chol (θ₂.smul (-2)))).transpose.mul (triInv (chol (θ₂.smul (-2)))))).toMatrix
        * (chol ((triInv (chol (θ₂.smul (-2)))).transpose.mul (triInv (chol (θ₂.smul (-2)))))).toMatrixᵀ
      = (triInv (chol (θ₂.smul (-2)))).toMatrixᵀ * (triInv (chol (θ₂.smul (-2)))).toMatrix) :
    let out := Gen.NaturalForward.naturalForward chol triInv θ₁ θ₂
    (out.2.toMatrix * out.2.toMatrixᵀ) * ((-2 : α) • θ₂.toMatrix) = 1
      ∧ out.1.toMatrix = (out.2.toMatrix * out.2.toMatrixᵀ) * θ₁.toMatrix
      ∧ Gen.NaturalForward.distForward chol triInv θ₁ θ₂ = (out.1, out.2.mul out.2.transpose)
      ∧ Gen.NaturalForward.savedAreOutputs = true ∧ Gen.NaturalForward.backwardReadsSaved = true := by
  intro out
  set Linv := chol (θ₂.smul (-2)) with hLinv
  set L' := triInv Linv with hL'
  have hcomm : Linv.toMatrix * L'.toMatrix = 1 := mul_eq_one_comm.mp htri
  have hS : out.2.toMatrix * out.2.toMatrixᵀ = L'.toMatrixᵀ * L'.toMatrix := by
    simpa [out, Gen.NaturalForward.naturalForward] using hchol₂
  refine ⟨?_, ?_, rfl, rfl, rfl⟩
  · rw [hS, ← hchol₁, Matrix.mul_assoc, ← Matrix.mul_assoc L'.toMatrix, htri, Matrix.one_mul,
      ← Matrix.transpose_mul, hcomm, Matrix.transpose_one]
  · rw [hS]
    simp only [out, Gen.NaturalForward.naturalForward, toMatrix_mul, toMatrix_transpose]
    rfl

/-- **natural_backward_elbo_gradient** — for the loss `−ELBO` of the conjugate model at the natural parameters
`(θ₁, θ₂)`: when the upstream pair is the chain-rule gradient `(b + 2Aμ, 2AL)` with `(b, A) = lossGradExpectation`
(that it is, is `elbo_grad_mu_chol`), the generated `_backward` returns exactly `lossGradExpectation = −(1/N)(η* − η)` —
the hypothesis under which `ngd_one_step_opt` was stated. -/
theorem natural_backward_elbo_gradient (h2 : (2 : α) ≠ 0) (B : DMat M n α) (r : DMat n 1 α) (s N : α)
    (θ₁ mu gMu : DMat M 1 α) (θ₂ L C gL : DMat M M α)
    (hθ₂ : θ₂.toMatrixᵀ = θ₂.toMatrix) (hL : ∀ i j : Fin M, i < j → L.toMatrix i j = 0)
    (hinv : L.toMatrix * C.toMatrix = 1)
    (hgMu : gMu.toMatrix = (lossGradExpectation B r s N θ₁ θ₂).1.toMatrix
        + (2 : α) • ((lossGradExpectation B r s N θ₁ θ₂).2.toMatrix * mu.toMatrix))
    (hgL : ∀ i j : Fin M, j ≤ i →
        gL.toMatrix i j = ((2 : α) • ((lossGradExpectation B r s N θ₁ θ₂).2.toMatrix * L.toMatrix)) i j) :
    Gen.NaturalGrad.naturalBackward gMu gL mu L C = lossGradExpectation B r s N θ₁ θ₂ := by
  have hA : (lossGradExpectation B r s N θ₁ θ₂).2.toMatrixᵀ = (lossGradExpectation B r s N θ₁ θ₂).2.toMatrix := by
    simp only [lossGradExpectation, optNatural, optPrec, toMatrix_smul, toMatrix_sub, toMatrix_add, toMatrix_one,
      toMatrix_mul, toMatrix_transpose, Matrix.transpose_smul, Matrix.transpose_sub, Matrix.transpose_add,
      Matrix.transpose_one, Matrix.transpose_mul, Matrix.transpose_transpose, hθ₂]
  exact natural_backward_is_expectation_gradient h2 _ L C gL _ mu gMu hA hL hinv hgMu hgL

/-- **ngd_backward_one_step_opt** — the chain from the code's `backward` to the optimum: the generated `NGD.step` with
`lr = 1`, applied to what the generated `_NaturalToMuVarSqrt._backward` makes of the chain-rule gradient of `−ELBO` in
`(μ, L)`, lands on `η* = optNatural` (the natural parameters of `q*`, `elbo_opt_attained`) from any start `(θ₁, θ₂)`. -/
theorem ngd_backward_one_step_opt (h2 : (2 : α) ≠ 0) (B : DMat M n α) (r : DMat n 1 α) (s N : α) (hN : N ≠ 0)
    (θ₁ mu gMu : DMat M 1 α) (θ₂ L C gL : DMat M M α)
    (hθ₂ : θ₂.toMatrixᵀ = θ₂.toMatrix) (hL : ∀ i j : Fin M, i < j → L.toMatrix i j = 0)
    (hinv : L.toMatrix * C.toMatrix = 1)
    (hgMu : gMu.toMatrix = (lossGradExpectation B r s N θ₁ θ₂).1.toMatrix
        + (2 : α) • ((lossGradExpectation B r s N θ₁ θ₂).2.toMatrix * mu.toMatrix))
    (hgL : ∀ i j : Fin M, j ≤ i →
        gL.toMatrix i j = ((2 : α) • ((lossGradExpectation B r s N θ₁ θ₂).2.toMatrix * L.toMatrix)) i j) :
    ngdStepMat θ₁ (Gen.NaturalGrad.naturalBackward gMu gL mu L C).1 1 N = (optNatural B r s).1
      ∧ ngdStepMat θ₂ (Gen.NaturalGrad.naturalBackward gMu gL mu L C).2 1 N = (optNatural B r s).2 := by
  rw [natural_backward_elbo_gradient h2 B r s N θ₁ mu gMu θ₂ L C gL hθ₂ hL hinv hgMu hgL]
  exact ngd_one_step_opt B r s N hN θ₁ θ₂

end NaturalBackward

section NaturalBackwardReal
open Matrix ElboGlue

/-- **elbo_grad_mu_chol** — what torch autograd must deliver to `_NaturalToMuVarSqrt.backward`.  The loss
`−(1/N)·modelElboN` (the model's `VariationalELBO`: generated scaling ∘ per-point Gaussian terms ∘ `whitenedFwd` ∘ KL), as a
function of the outputs `(μ, L)` of `NaturalVariationalDistribution.forward` (`S_w = L Lᵀ`), has at every `(μ, L)` with `L`
invertible the directional derivatives `⟨b + 2Aμ, δμ⟩` and `⟨2AL, δL⟩`, where `(b, A) = lossGradExpectation B r s N θ₁ θ₂`
`= −(1/N)(η* − η)` and `(θ₁, θ₂) = (Σ⁻¹μ, −½Σ⁻¹)` are the natural parameters (`natural_forward_contract`): exactly the
upstream pair assumed by `natural_backward_elbo_gradient` / `ngd_backward_one_step_opt`.  (`log det` along the quadratic
curve `(L+tK)(L+tK)ᵀ` by `NgdMatrix.hasDerivAt_logdet_quad`; no Jacobi formula assumed.) -/
theorem elbo_grad_mu_chol (hn : n ≠ 0) (Kzx : DMat M n ℝ) (Kxx : DMat n n ℝ) (mX y r : DMat n 1 ℝ) (εx s N : ℝ)
    (Li : DMat M M ℝ) (mw dm θ₁ : DMat M 1 ℝ) (L K θ₂ : DMat M M ℝ) (hr : r = y.sub mX)
    (hL : IsUnit L.toMatrix.det)
    (hθ₁ : θ₁.toMatrix = (L.toMatrix * L.toMatrixᵀ)⁻¹ * mw.toMatrix)
    (hθ₂ : θ₂.toMatrix = (-(1 / 2 : ℝ)) • (L.toMatrix * L.toMatrixᵀ)⁻¹) :
    HasDerivAt (fun t : ℝ => -(1 / N) * modelElboN Kzx Kxx mX y εx s Li (mw.add (dm.smul t)) (L.mul L.transpose))
        ((((lossGradExpectation (Li.mul Kzx) r s N θ₁ θ₂).1.add
            (((lossGradExpectation (Li.mul Kzx) r s N θ₁ θ₂).2.mul mw).smul 2)).toMatrixᵀ * dm.toMatrix).trace) 0
      ∧ HasDerivAt (fun t : ℝ => -(1 / N) * modelElboN Kzx Kxx mX y εx s Li mw
            ((L.add (K.smul t)).mul (L.add (K.smul t)).transpose))
        (((((lossGradExpectation (Li.mul Kzx) r s N θ₁ θ₂).2.mul L).smul 2).toMatrixᵀ * K.toMatrix).trace) 0 := by
  set B : Matrix (Fin M) (Fin n) ℝ := (Li.mul Kzx).toMatrix with hB
  set Cm : Matrix (Fin M) (Fin M) ℝ := B * Bᵀ with hCm
  set Lm := L.toMatrix with hLm
  set Sg : Matrix (Fin M) (Fin M) ℝ := Lm * Lmᵀ with hSg
  have hC : Cmᵀ = Cm := by rw [hCm, Matrix.transpose_mul, Matrix.transpose_transpose]
  have hrv : colVec r = resid y mX := by
    funext i; simp [colVec, resid, hr]
  -- the second component of `lossGradExpectation` is `−(1/N)·gradXi2`
  have hg2 : (lossGradExpectation (Li.mul Kzx) r s N θ₁ θ₂).2.toMatrix
      = (-(1 / N)) • NgdBackward.gradXi2 Cm s Sg := by
    simp only [lossGradExpectation, optNatural, optPrec, toMatrix_smul, toMatrix_sub, toMatrix_add, toMatrix_one,
      toMatrix_mul, toMatrix_transpose, hθ₂, NgdBackward.gradXi2, one_div, hCm, hB]
  have hg1 : colVec (lossGradExpectation (Li.mul Kzx) r s N θ₁ θ₂).1
      = (-(1 / N)) • (s⁻¹ • (B *ᵥ resid y mX) - Sg⁻¹ *ᵥ colVec mw) := by
    funext i
    simp only [colVec, lossGradExpectation, optNatural, toMatrix_smul, toMatrix_sub, toMatrix_mul, hθ₁,
      Matrix.smul_apply, Matrix.sub_apply, Pi.smul_apply, Pi.sub_apply, smul_eq_mul, one_div, ← hrv]
    simp only [Matrix.mul_apply, Matrix.mulVec, dotProduct, colVec, hB, toMatrix_mul]
  constructor
  · have hfun : (fun t : ℝ => -(1 / N) * modelElboN Kzx Kxx mX y εx s Li (mw.add (dm.smul t)) (L.mul L.transpose))
        = fun t : ℝ => -(1 / N) * NgdBackward.G (B *ᵥ resid y mX) Cm s (resid y mX ⬝ᵥ resid y mX)
            (addJitter Kxx εx).toMatrix.trace ((Fintype.card (Fin n) : ℝ) / 2 * (Real.log s + Real.log (2 * Real.pi)))
            (colVec mw + t • colVec dm) Lm := by
      funext t
      rw [modelElboN_eq hn, NgdBackward.elboN_eq_F]
      unfold NgdBackward.G
      have e1 : colVec (mw.add (dm.smul t)) = colVec mw + t • colVec dm := by
        funext i; simp [colVec]
      rw [e1]
      simp only [toMatrix_mul, toMatrix_transpose, hCm, hB, hLm]
    rw [hfun]
    refine ((NgdBackward.hasDerivAt_G_mu _ Cm hC s _ _ _ (colVec mw) (colVec dm) Lm).const_mul (-(1 / N))).congr_deriv ?_
    rw [NgdBackward.grad_mu_eq _ Cm Sg s (colVec mw), NgdBackward.trace_col_pairing]
    have hv : (fun i => ((lossGradExpectation (Li.mul Kzx) r s N θ₁ θ₂).1.add
          (((lossGradExpectation (Li.mul Kzx) r s N θ₁ θ₂).2.mul mw).smul 2)).toMatrix i 0)
        = (-(1 / N)) • ((s⁻¹ • (B *ᵥ resid y mX) - Sg⁻¹ *ᵥ colVec mw)
            + (2 : ℝ) • (NgdBackward.gradXi2 Cm s Sg *ᵥ colVec mw)) := by
      funext i
      have h1 := congrFun hg1 i
      simp only [colVec] at h1
      simp only [toMatrix_add, toMatrix_smul, toMatrix_mul, Matrix.add_apply, Matrix.smul_apply, hg2, h1,
        Matrix.smul_mul, Pi.smul_apply, Pi.add_apply, smul_eq_mul]
      simp only [Matrix.mul_apply, Matrix.mulVec, dotProduct, colVec, Pi.sub_apply, Pi.smul_apply, smul_eq_mul]
      ring
    rw [hv, smul_dotProduct, smul_eq_mul]
    rfl
  · have hfun : (fun t : ℝ => -(1 / N) * modelElboN Kzx Kxx mX y εx s Li mw
            ((L.add (K.smul t)).mul (L.add (K.smul t)).transpose))
        = fun t : ℝ => -(1 / N) * NgdBackward.G (B *ᵥ resid y mX) Cm s (resid y mX ⬝ᵥ resid y mX)
            (addJitter Kxx εx).toMatrix.trace ((Fintype.card (Fin n) : ℝ) / 2 * (Real.log s + Real.log (2 * Real.pi)))
            (colVec mw) (Lm + t • K.toMatrix) := by
      funext t
      rw [modelElboN_eq hn, NgdBackward.elboN_eq_F]
      unfold NgdBackward.G
      simp only [toMatrix_mul, toMatrix_transpose, toMatrix_add, toMatrix_smul, hCm, hB, hLm]
    rw [hfun]
    refine ((NgdBackward.hasDerivAt_G_L _ Cm hC s _ _ _ (colVec mw) Lm K.toMatrix hL).const_mul (-(1 / N))).congr_deriv ?_
    simp only [toMatrix_smul, toMatrix_mul, hg2, Matrix.smul_mul, Matrix.transpose_smul, Matrix.trace_smul, smul_eq_mul]
    ring

end NaturalBackwardReal

/-! ## Part 5 — which `K_ZZ^{-1/2}` an evaluation is built from (generated from `_VariationalStrategy`) -/

/-- **jitter_is_setting_in_force** — with the default constructor argument (`jitter_val=None`) the strategy uses the
`variational_cholesky_jitter` setting in force *when the objective is evaluated*, for the dtype the inducing points have
*then* — whatever the setting / dtype was at construction (`settingAtCtor`); an explicit constructor argument or a value
assigned through the property wins. -/
theorem jitter_is_setting_in_force {β : Type} (settingAtCtor settingAtUse v : β) :
    Gen.StrategyEnv.jitterVal (Gen.StrategyEnv.storedJitter none settingAtCtor) settingAtUse = settingAtUse
      ∧ Gen.StrategyEnv.jitterVal (Gen.StrategyEnv.storedJitter (some v) settingAtCtor) settingAtUse = v
      ∧ Gen.StrategyEnv.jitterVal (Gen.StrategyEnv.jitterSetter v) settingAtUse = v
      ∧ Gen.StrategyEnv.settingReadAtCurrentDtype = true :=
  ⟨rfl, rfl, rfl, rfl⟩

/-- **training_call_starts_from_empty_memo** — a training-mode call of `VariationalStrategy` /
`UnwhitenedVariationalStrategy` first empties the whole memo table (`if self.training: self._clear_cache()`,
`_clear_cache = clear_cache_hook(self)`, `clear_cache_hook = (module._memoize_cache = {})`, no override in the two
strategies): no Cholesky factor, prior or `q(u)` of an earlier call survives into the objective. -/
theorem training_call_starts_from_empty_memo : Gen.StrategyEnv.trainingCallClearsMemo = true := by decide

/-- **prior_call_leaves_memo** — `model(x*, prior=True)` returns the prior before the strategy's memo table is touched (in
every mode): issued between `output = model(x)` and `mll(output, y)` it leaves the `p(u)` cached by the forward pass — the one
`q(f)` was built from — in place for `kl_divergence()`. -/
theorem prior_call_leaves_memo : Gen.StrategyEnv.priorCallLeavesMemo = true := by decide

/-! ## the hypotheses are satisfiable (non-vacuity) -/

/-- the model returns a `q*` on a concrete instance -/
example : (optWhitened? (DMat.ofMatrix !![(1 : ℚ), 2; 0, 1]) (DMat.ofMatrix !![(1 : ℚ); -1]) (1 / 2)).isSome = true := by
  decide +kernel

/-- and `boundPieces?` returns the pieces of both bounds -/
example : (boundPieces? (DMat.ofMatrix !![(2 : ℚ), 1; 1, 2]) (DMat.ofMatrix !![(1 : ℚ), 0; 1, 1])
    (DMat.ofMatrix !![(3 : ℚ), 1; 1, 3]) (DMat.ofMatrix !![(1 : ℚ); -1]) (1 / 2)).isSome = true := by
  decide +kernel

/-- a positive definite `S_w`, a positive noise and a PSD Schur complement exist (hypotheses of `elbo_le_exact`);
see also the examples at the end of `Bridge/Collapsed.lean`. -/
example : (1 : Matrix (Fin 2) (Fin 2) ℝ).PosDef ∧ (0 : ℝ) < 1 / 2 := ⟨Matrix.PosDef.one, by norm_num⟩

section Part4Examples
open Matrix

/-- Part 4: the hypotheses of `natural_backward_is_expectation_gradient` hold on a concrete instance (with junk in the
strictly upper triangle of `dout_dL`): the generated `_backward` returns `(b, A)` -/
example :
    Gen.NaturalGrad.naturalBackward (DMat.ofMatrix !![(1 : ℚ); 2]) (DMat.ofMatrix !![(8 : ℚ), 99; 14, 6])
        (DMat.ofMatrix !![(1 : ℚ); -1]) (DMat.ofMatrix !![(2 : ℚ), 0; 1, 1]) (DMat.ofMatrix !![(1 / 2 : ℚ), 0; -1 / 2, 1])
      = (DMat.ofMatrix !![(3 : ℚ); 4], DMat.ofMatrix !![(1 : ℚ), 2; 2, 3]) :=
  natural_backward_is_expectation_gradient (by norm_num) _ _ _ _ _ _ _
    (by decide +kernel)
    (by intro i j h; fin_cases i <;> fin_cases j <;> first | exact absurd h (by decide) | decide +kernel)
    (by decide +kernel) (by decide +kernel)
    (by intro i j h; fin_cases i <;> fin_cases j <;> first | exact absurd h (by decide) | decide +kernel)

/-- a direction satisfying the hypotheses of `natural_backward_adjoint` (same `L`, `μ`) -/
example : ∃ (d1 : Matrix (Fin 2) (Fin 1) ℚ) (d2 dL : Matrix (Fin 2) (Fin 2) ℚ),
    (∀ i j, i < j → dL i j = 0) ∧
    dL * (DMat.ofMatrix !![(2 : ℚ), 0; 1, 1]).toMatrixᵀ + (DMat.ofMatrix !![(2 : ℚ), 0; 1, 1]).toMatrix * dLᵀ
      = d2 - d1 * (DMat.ofMatrix !![(1 : ℚ); -1]).toMatrixᵀ - (DMat.ofMatrix !![(1 : ℚ); -1]).toMatrix * d1ᵀ :=
  ⟨!![1; 2], !![6, 8; 8, 0], !![1, 0; 3, -1],
    by intro i j h; fin_cases i <;> fin_cases j <;> first | exact absurd h (by decide) | decide +kernel,
    by decide +kernel⟩

/-- the contracts assumed by `natural_forward_contract` are satisfiable (`θ₂ = −½·I`, both primitives the identity on `I`) -/
example (θ₁ : DMat 2 1 ℚ) :
    let out := Gen.NaturalForward.naturalForward (fun X => X) (fun X => X) θ₁ ((DMat.one : DMat 2 2 ℚ).smul (-(1 / 2)))
    out.1.toMatrix = (out.2.toMatrix * out.2.toMatrixᵀ) * θ₁.toMatrix :=
  (natural_forward_contract (fun X => X) (fun X => X) θ₁ ((DMat.one : DMat 2 2 ℚ).smul (-(1 / 2)))
    (by decide +kernel) (by decide +kernel) (by decide +kernel)).2.1

/-- `ngd_backward_one_step_opt` (hence `natural_backward_elbo_gradient`) at `L = C = I`, `θ₂ = −½·I`, with the upstream pair
*defined* as the chain-rule gradient of `elbo_grad_mu_chol`: all hypotheses hold, for every `B`, `r`, `θ₁`, `μ`. -/
example (B : DMat 2 3 ℚ) (r : DMat 3 1 ℚ) (s N : ℚ) (hN : N ≠ 0) (θ₁ mu : DMat 2 1 ℚ) :
    let θ₂ : DMat 2 2 ℚ := (DMat.one : DMat 2 2 ℚ).smul (-(1 / 2))
    let g := lossGradExpectation B r s N θ₁ θ₂
    ngdStepMat θ₁ (Gen.NaturalGrad.naturalBackward (g.1.add ((g.2.mul mu).smul 2)) ((g.2.mul DMat.one).smul 2) mu
        DMat.one DMat.one).1 1 N = (optNatural B r s).1 := by
  intro θ₂ g
  refine (ngd_backward_one_step_opt (by norm_num) B r s N hN θ₁ mu _ θ₂ DMat.one DMat.one _ ?_ ?_ ?_ ?_ ?_).1
  · simp [θ₂]
  · intro i j h; simp [(ne_of_lt h)]
  · simp
  · simp [g]
  · intro i j _; simp [g]

/-- an invertible `L` (hypothesis of `elbo_grad_mu_chol`; `θ₁`, `θ₂` there are *defined* by their equations) -/
example : IsUnit (DMat.one : DMat 2 2 ℝ).toMatrix.det := by simp

end Part4Examples

end C15

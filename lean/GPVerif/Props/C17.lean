/-
C17 — constraints, parameter setters and priors: bounds, bijection, round trips.

All theorems are about the definitions regenerated from gpytorch/constraints/constraints.py,
gpytorch/utils/transforms.py and Module.initialize (`Gen.Constraints`), instantiated at `ℝ`
(`Real.exp`, `Real.log`), and about the store model `ParamStore` built on them — the same terms the
driver `drivers/C17.lean` runs at `Float`.
-/
import GPVerif.Bridge.Constraints
import GPVerif.Model.ParamStore
import GPVerif.Gen.Priors
import GPVerif.Bridge.PriorNorm
import Mathlib.Probability.Distributions.Gaussian.Real
import Mathlib.Tactic.NormNum
import Mathlib.Tactic.Push

namespace C17
open ScalarFn ScalarFnReal Gen.Constraints ParamStore Real

/-! ### Interval (sigmoid) -/

/-- every real raw value lands strictly inside `(l, u)` -/
theorem interval_transform_mem {l u : ℝ} (h : l < u) (x : ℝ) :
    l < intervalTransform l u x ∧ intervalTransform l u x < u := by
  have hp := sigmoid_pos x
  have h1 := sigmoid_lt_one x
  have hd : 0 < u - l := by linarith
  constructor
  · simp only [intervalTransform]; nlinarith
  · simp only [intervalTransform]; nlinarith

theorem interval_transform_strictMono {l u : ℝ} (h : l < u) : StrictMono (intervalTransform l u) := by
  intro a b hab
  have := sigmoid_strictMono hab
  have hd : 0 < u - l := by linarith
  simp only [intervalTransform]
  nlinarith

/-- `inverse_transform ∘ transform = id` on all of ℝ -/
theorem interval_left_inv {l u : ℝ} (h : l < u) (x : ℝ) :
    intervalInverse l u (intervalTransform l u x) = x := by
  have hd : (u - l) ≠ 0 := by linarith
  simp only [intervalInverse, intervalTransform]
  rw [show (sigmoid x * (u - l) + l - l) / (u - l) = sigmoid x by field_simp; ring]
  exact invSigmoid_sigmoid x

/-- `transform ∘ inverse_transform = id` on the open interval -/
theorem interval_right_inv {l u y : ℝ} (h : l < u) (hl : l < y) (hu : y < u) :
    intervalTransform l u (intervalInverse l u y) = y := by
  have hd : 0 < u - l := sub_pos.mpr h
  simp only [intervalInverse, intervalTransform]
  rw [sigmoid_invSigmoid (div_pos (by linarith) hd) ((div_lt_one hd).mpr (by linarith))]
  field_simp
  ring

/-! ### GreaterThan / Positive / LessThan (softplus) -/

theorem greaterThan_transform_mem (l x : ℝ) : l < greaterThanTransform l x := by
  have := softplus_pos x
  simp only [greaterThanTransform]; linarith

theorem greaterThan_transform_strictMono (l : ℝ) : StrictMono (greaterThanTransform l) := by
  intro a b hab
  have := softplus_strictMono hab
  simp only [greaterThanTransform]; linarith

theorem greaterThan_left_inv (l x : ℝ) : greaterThanInverse l (greaterThanTransform l x) = x := by
  simp only [greaterThanInverse, greaterThanTransform, add_sub_cancel_right]
  exact invSoftplus_softplus x

theorem greaterThan_right_inv {l y : ℝ} (h : l < y) :
    greaterThanTransform l (greaterThanInverse l y) = y := by
  simp only [greaterThanInverse, greaterThanTransform]
  rw [softplus_invSoftplus (by linarith)]; ring

theorem positive_transform_mem (x : ℝ) : 0 < positiveTransform x := softplus_pos x

theorem positive_transform_strictMono : StrictMono (positiveTransform : ℝ → ℝ) := softplus_strictMono

theorem positive_left_inv (x : ℝ) : positiveInverse (positiveTransform x) = x := invSoftplus_softplus x

theorem positive_right_inv {y : ℝ} (h : 0 < y) : positiveTransform (positiveInverse y) = y :=
  softplus_invSoftplus h

theorem lessThan_transform_mem (u x : ℝ) : lessThanTransform u x < u := by
  have := softplus_pos (-x)
  simp only [lessThanTransform]; linarith

theorem lessThan_transform_strictMono (u : ℝ) : StrictMono (lessThanTransform u) := by
  intro a b hab
  have := softplus_strictMono (neg_lt_neg hab)
  simp only [lessThanTransform]; linarith

theorem lessThan_left_inv (u x : ℝ) : lessThanInverse u (lessThanTransform u x) = x := by
  simp only [lessThanInverse, lessThanTransform]
  rw [show -(-softplus (-x) + u - u) = softplus (-x) by ring, invSoftplus_softplus]; ring

theorem lessThan_right_inv {u y : ℝ} (h : y < u) : lessThanTransform u (lessThanInverse u y) = y := by
  simp only [lessThanInverse, lessThanTransform, neg_neg]
  rw [softplus_invSoftplus (by linarith)]; ring

/-- the algebraic form of `inv_softplus` in the source, `y + log(−expm1(−y))`, is `log(eʸ − 1)` -/
theorem inv_softplus_identity {y : ℝ} (hy : 0 < y) : invSoftplus y = Real.log (Real.exp y - 1) :=
  invSoftplus_eq_log_exp_sub_one hy

/-! ### the store: kinds, validity, interior -/

/-- a constraint object that its constructor accepted -/
def Valid (k : Kind ℝ) : Prop := ¬ k.InitRejects

/-- open feasible set of a kind -/
def Interior : Kind ℝ → ℝ → Prop
  | .interval l u, v => l < v ∧ v < u
  | .greaterThan l, v => l < v
  | .positive, v => 0 < v
  | .lessThan u, v => v < u

/-- outside the closed feasible set -/
def Outside : Kind ℝ → ℝ → Prop
  | .interval l u, v => v < l ∨ u < v
  | .greaterThan l, v => v < l
  | .positive, v => v < 0
  | .lessThan u, v => u < v

theorem valid_interval {l u : ℝ} : Valid (.interval l u) ↔ l < u := by
  simp [Valid, Kind.InitRejects, intervalInitRejects]

/-- all four transforms land in the open feasible set, for every real raw value -/
theorem transform_interior (k : Kind ℝ) (hk : Valid k) (x : ℝ) : Interior k (k.transform x) := by
  cases k with
  | interval l u => exact interval_transform_mem (valid_interval.mp hk) x
  | greaterThan l => exact greaterThan_transform_mem l x
  | positive => exact positive_transform_mem x
  | lessThan u => exact lessThan_transform_mem u x

theorem transform_strictMono (k : Kind ℝ) (hk : Valid k) : StrictMono k.transform := by
  cases k with
  | interval l u => exact interval_transform_strictMono (valid_interval.mp hk)
  | greaterThan l => exact greaterThan_transform_strictMono l
  | positive => exact positive_transform_strictMono
  | lessThan u => exact lessThan_transform_strictMono u

theorem interior_check (k : Kind ℝ) {v : ℝ} (h : Interior k v) : k.Check v := by
  cases k <;> simp only [Interior] at h <;>
    simp only [Kind.Check, intervalCheck, greaterThanCheck, positiveCheck, lessThanCheck, Nat.cast_zero]
  · exact ⟨h.2.le, h.1.le⟩
  · exact h.le
  · exact h.le
  · exact h.le

/-- `check_raw` accepts every real raw value (so `initialize(raw = r)` never raises for finite `r`) -/
theorem checkRaw_always (k : Kind ℝ) (hk : Valid k) (x : ℝ) : k.CheckRaw x := by
  have h := interior_check k (transform_interior k hk x)
  cases k <;> exact h

theorem transform_inverse (k : Kind ℝ) (hk : Valid k) {v : ℝ} (h : Interior k v) :
    k.transform (k.inverse v) = v := by
  cases k with
  | interval l u => exact interval_right_inv (valid_interval.mp hk) h.1 h.2
  | greaterThan l => exact greaterThan_right_inv h
  | positive => exact positive_right_inv h
  | lessThan u => exact lessThan_right_inv h

theorem inverse_transform (k : Kind ℝ) (hk : Valid k) (x : ℝ) : k.inverse (k.transform x) = x := by
  cases k with
  | interval l u => exact interval_left_inv (valid_interval.mp hk) x
  | greaterThan l => exact greaterThan_left_inv l x
  | positive => exact positive_left_inv x
  | lessThan u => exact lessThan_left_inv u x

/-- on the interior every `log` of the inverse transform has a positive argument -/
theorem interior_inverseDefined (k : Kind ℝ) (hk : Valid k) {v : ℝ} (h : Interior k v) :
    k.InverseDefined v := by
  intro a ha
  cases k with
  | interval l u =>
    have hlu := valid_interval.mp hk
    have hd : 0 < u - l := by linarith
    simp only [Kind.inverseLogArgs, intervalInverseLogArgs, List.mem_cons, List.not_mem_nil, or_false] at ha
    have h1 : 0 < (v - l) / (u - l) := div_pos (by linarith [h.1]) hd
    have h2 : (v - l) / (u - l) < 1 := (div_lt_one hd).mpr (by linarith [h.2])
    rcases ha with rfl | rfl <;> simp only [Nat.cast_zero, Nat.cast_one] <;> linarith
  | greaterThan l =>
    simp only [Kind.inverseLogArgs, greaterThanInverseLogArgs, List.mem_cons, List.not_mem_nil, or_false,
      tf_expm1] at ha
    subst ha
    have : 0 < v - l := by simpa [Interior] using sub_pos.mpr h
    simpa using (one_sub_exp_neg_pos this).le
  | positive =>
    simp only [Kind.inverseLogArgs, positiveInverseLogArgs, List.mem_cons, List.not_mem_nil, or_false,
      tf_expm1] at ha
    subst ha
    simpa using (one_sub_exp_neg_pos h).le
  | lessThan u =>
    simp only [Kind.inverseLogArgs, lessThanInverseLogArgs, List.mem_cons, List.not_mem_nil, or_false,
      tf_expm1] at ha
    subst ha
    have : 0 < -(v - u) := by simp only [Interior] at h; linarith
    simpa using (one_sub_exp_neg_pos this).le

/-- **setter_reads_back** — `module.p = v` (= `initialize(raw_p = inverse_transform(v))`) does not raise
for an interior `v`, and reading `p` afterwards gives `v`; other parameters are untouched. -/
theorem setter_reads_back (s : Store ℝ) (p : Nat) (hk : Valid (s.kind p)) {v : ℝ}
    (hv : Interior (s.kind p) v) :
    (s.apply (.set p v)).2 = false ∧ (s.apply (.set p v)).1.read p = v ∧
      ∀ q, q ≠ p → (s.apply (.set p v)).1.read q = s.read q := by
  have hdef := interior_inverseDefined _ hk hv
  have hraw := checkRaw_always _ hk ((s.kind p).inverse v)
  simp only [Store.apply, hdef, ↓reduceIte, Store.initRaw, initTensorRaises, hraw, decide_true,
    Bool.not_true, Bool.and_false, Bool.false_eq_true]
  refine ⟨trivial, ?_, ?_⟩
  · simp only [Store.read, Store.setRaw, ↓reduceIte]
    exact transform_inverse _ hk hv
  · intro q hq
    simp only [Store.read, Store.setRaw, hq, ↓reduceIte]

/-- **oob_rejected** — for a requested value outside the closed bounds (i) `constraint.check(v)` fails and
(ii) some `log` inside `inverse_transform(v)` has a negative argument (IEEE: NaN, which fails `check_raw`),
so the setter raises and the store is unchanged. -/
theorem oob_rejected (s : Store ℝ) (p : Nat) (hk : Valid (s.kind p)) {v : ℝ}
    (hv : Outside (s.kind p) v) :
    ¬ (s.kind p).Check v ∧ (∃ a ∈ (s.kind p).inverseLogArgs v, a < 0) ∧ s.apply (.set p v) = (s, true) := by
  have key : ¬ (s.kind p).Check v ∧ (∃ a ∈ (s.kind p).inverseLogArgs v, a < 0) := by
    generalize s.kind p = k at hk hv
    cases k with
    | interval l u =>
      have hlu := valid_interval.mp hk
      have hd : 0 < u - l := by linarith
      simp only [Outside] at hv
      refine ⟨?_, ?_⟩
      · simp only [Kind.Check, intervalCheck]; rintro ⟨h1, h2⟩; rcases hv with h | h <;> linarith
      · simp only [Kind.inverseLogArgs, intervalInverseLogArgs, List.mem_cons, List.not_mem_nil, or_false,
          exists_eq_or_imp, exists_eq_left, Nat.cast_one]
        rcases hv with h | h
        · left; exact div_neg_of_neg_of_pos (by linarith) hd
        · right
          have : 1 < (v - l) / (u - l) := (one_lt_div hd).mpr (by linarith)
          linarith
    | greaterThan l =>
      simp only [Outside] at hv
      refine ⟨by simp only [Kind.Check, greaterThanCheck]; intro h; linarith, ?_⟩
      simp only [Kind.inverseLogArgs, greaterThanInverseLogArgs, List.mem_cons, List.not_mem_nil, or_false,
        exists_eq_left, tf_expm1]
      exact one_sub_exp_neg_neg (by linarith)
    | positive =>
      simp only [Outside] at hv
      refine ⟨by simp only [Kind.Check, positiveCheck, Nat.cast_zero]; intro h; linarith, ?_⟩
      simp only [Kind.inverseLogArgs, positiveInverseLogArgs, List.mem_cons, List.not_mem_nil, or_false,
        exists_eq_left, tf_expm1]
      exact one_sub_exp_neg_neg hv
    | lessThan u =>
      simp only [Outside] at hv
      refine ⟨by simp only [Kind.Check, lessThanCheck]; intro h; linarith, ?_⟩
      simp only [Kind.inverseLogArgs, lessThanInverseLogArgs, List.mem_cons, List.not_mem_nil, or_false,
        exists_eq_left, tf_expm1]
      exact one_sub_exp_neg_neg (by linarith)
  refine ⟨key.1, key.2, ?_⟩
  obtain ⟨a, ha, hneg⟩ := key.2
  have : ¬ (s.kind p).InverseDefined v := by
    intro h
    have := h a ha
    simp only [Nat.cast_zero] at this
    linarith
  simp only [Store.apply, this, ↓reduceIte]

/-- validity of all registered constraints is preserved by every operation -/
theorem apply_valid (s : Store ℝ) (hs : ∀ q, Valid (s.kind q)) (op : Op ℝ) :
    ∀ q, Valid ((s.apply op).1.kind q) := by
  intro q
  cases op with
  | set p v =>
    simp only [Store.apply, Store.initRaw]
    split
    · split <;> simp [Store.setRaw, hs q]
    · exact hs q
  | initRaw p r => simp only [Store.apply, Store.initRaw]; split <;> simp [Store.setRaw, hs q]
  | step p δ => simp [Store.apply, Store.setRaw, hs q]
  | assignRaw p r => simp [Store.apply, Store.setRaw, hs q]
  | register p k =>
    simp only [Store.apply]
    split
    · exact hs q
    · rename_i hk
      by_cases hq : q = p
      · simp [hq, Valid, hk]
      · simp [hq, hs q]

/-- **reads_in_bounds_always** — from any store whose constraints were accepted by their constructors,
after *every* history of `set / initialize / step / raw assignment / register_constraint` operations with
arbitrary real arguments, every parameter reads strictly inside its bounds. -/
theorem reads_in_bounds_always (ops : List (Op ℝ)) :
    ∀ (s : Store ℝ), (∀ q, Valid (s.kind q)) →
      ∀ p, Interior ((s.run ops).kind p) ((s.run ops).read p) := by
  induction ops with
  | nil => intro s hs p; exact transform_interior _ (hs p) _
  | cons op ops ih => intro s hs p; exact ih _ (apply_valid s hs op) p

/-- the closed-interval reading of the same fact (the form the float implementation can satisfy) -/
theorem reads_check_always (ops : List (Op ℝ)) (s : Store ℝ) (hs : ∀ q, Valid (s.kind q)) (p : Nat) :
    ((s.run ops).kind p).Check ((s.run ops).read p) :=
  interior_check _ (reads_in_bounds_always ops s hs p)

/-- **intersect_bounds** — `Interval.intersect` returns exactly the intersection of the closed intervals -/
theorem intersect_bounds (l₁ u₁ l₂ u₂ x : ℝ) :
    intervalCheck (intersectLower l₁ l₂) (intersectUpper u₁ u₂) x ↔
      intervalCheck l₁ u₁ x ∧ intervalCheck l₂ u₂ x := by
  simp only [intervalCheck, intersectLower, intersectUpper, le_min_iff, ge_iff_le, max_le_iff]
  tauto

/-- the bound check of `Module.initialize` raises exactly when a constraint is present, enforced and
`check_raw` fails (Tensor values); for float values `enforced` is not consulted. -/
theorem initialize_guard (c e r : Bool) :
    (initTensorRaises c e r = true ↔ (c = true ∧ e = true ∧ r = false)) ∧
    (initFloatRaises c e r = true ↔ (c = true ∧ r = false)) := by
  cases c <;> cases e <;> cases r <;> simp [initTensorRaises, initFloatRaises]

/-! ### priors -/

open ProbabilityTheory MeasureTheory in
/-- the Normal prior's modelled log density is Mathlib's Gaussian density -/
theorem normal_prior_density (μ σ : ℝ) (hσ : 0 < σ) (x : ℝ) :
    Real.exp (Priors.normalLogProb μ σ x) = gaussianPDFReal μ (Real.toNNReal (σ ^ 2)) x := by
  rw [PriorNorm.exp_normalLogProb μ σ x hσ, gaussianPDFReal, Real.coe_toNNReal _ (sq_nonneg σ)]
  have hs : √(2 * π * σ ^ 2) = √(2 * π) * σ := by
    rw [Real.sqrt_mul (by positivity), Real.sqrt_sq hσ.le]
  rw [hs, mul_comm σ]

open ProbabilityTheory MeasureTheory Set in
/-- **prior_normalised** — every scalar prior family that claims to be a probability density integrates to one
over its support: Normal, HalfNormal, LogNormal, Uniform, HalfCauchy, Gamma (densities of torch.distributions,
modelled in `Model/Priors.lean`) and SmoothedBox (density regenerated from smoothed_box_prior.py, including its
normaliser `_M`). -/
theorem prior_normalised :
    (∀ μ σ : ℝ, 0 < σ → ∫ x, Real.exp (Priors.normalLogProb μ σ x) = 1) ∧
    (∀ σ : ℝ, 0 < σ → ∫ x in Ioi (0 : ℝ), Real.exp (Priors.halfNormalLogProb σ x) = 1) ∧
    (∀ μ σ : ℝ, 0 < σ → ∫ x in Ioi (0 : ℝ), Real.exp (Priors.logNormalLogProb μ σ x) = 1) ∧
    (∀ a b : ℝ, a < b → ∫ _x in Ico a b, Real.exp (Priors.uniformLogProb a b) = 1) ∧
    (∀ s : ℝ, 0 < s → ∫ x in Ioi (0 : ℝ), Real.exp (Priors.halfCauchyLogProb s x) = 1) ∧
    (∀ a b : ℝ, 0 < a → 0 < b →
      ∫ x in Ioi (0 : ℝ), Real.exp (Priors.gammaLogProb a b (Real.log (Real.Gamma a)) x) = 1) ∧
    (∀ a b σ : ℝ, a < b → 0 < σ → ∫ x, Real.exp (Gen.Priors.smoothedBoxLogProb a b σ x) = 1) := by
  refine ⟨fun μ σ hσ => ?_, PriorNorm.halfNormal_normalised, PriorNorm.logNormal_normalised,
    PriorNorm.uniform_normalised, PriorNorm.halfCauchy_normalised, PriorNorm.gamma_normalised,
    PriorNorm.smoothedBox_normalised⟩
  simp_rw [normal_prior_density μ σ hσ]
  exact integral_gaussianPDFReal_eq_one μ (by
    intro h0
    have : σ ^ 2 ≤ 0 := Real.toNNReal_eq_zero.mp h0
    exact absurd this (not_le.mpr (pow_pos hσ 2)))

/-- **prior_density_partial** — what remains unproved about prior densities: the matrix-valued families
(`MultivariateNormalPrior`, `LKJPrior`, `LKJCholeskyFactorPrior`, `LKJCovariancePrior`) are compared with reference
densities and (LKJ, n = 2) integrated numerically only; `HorseshoePrior` is documented as an unnormalised
approximation (`pdf(x) ∼ (lb(x) + ub(x))/2`), so there is nothing to normalise.  Proved about the generated horseshoe
expression: it is an even function of `x`. -/
theorem prior_density_partial (s x : ℝ) :
    Gen.Priors.horseshoeLogProb s (-x) = Gen.Priors.horseshoeLogProb s x := by
  simp only [Gen.Priors.horseshoeLogProb, div_neg, neg_mul_neg]

/-- inside the box the smoothed-box density is the constant `1 / (√(2π)·σ + (b − a))` -/
theorem smoothed_box_plateau {a b σ x : ℝ} (hσ : 0 < σ) (hab : a < b) (hx : a ≤ x ∧ x ≤ b) :
    Real.exp (Gen.Priors.smoothedBoxLogProb a b σ x) = 1 / (√(2 * π) * σ + (b - a)) := by
  have h2 : (0 : ℝ) < √(2 * π) := by positivity
  have hX : max (|x - (a + b) / 2| - (b - a) / 2) 0 = 0 := by
    apply max_eq_right
    have : |x - (a + b) / 2| ≤ (b - a) / 2 := by rw [abs_le]; constructor <;> linarith [hx.1, hx.2]
    linarith
  simp only [Gen.Priors.smoothedBoxLogProb, Priors.normalLogProb, tf_log, tf_sqrt, tf_pi, tf_abs,
    Nat.cast_ofNat, Nat.cast_zero, Nat.cast_one, hX]
  have h3 : 0 < 1 + (b - a) / (√(2 * π) * σ) := by
    have : 0 < (b - a) / (√(2 * π) * σ) := div_pos (by linarith) (by positivity)
    linarith
  rw [Real.exp_sub, Real.exp_sub, Real.exp_sub, Real.exp_log hσ, Real.exp_log h2, Real.exp_log h3]
  simp only [sub_zero, mul_zero, neg_zero, zero_div, Real.exp_zero]
  field_simp

/-! ### the hypotheses are satisfiable -/

example : Valid (.interval (1 / 10 : ℝ) 2) := valid_interval.mpr (by norm_num)
example : Interior (.interval (1 / 10 : ℝ) 2) 1 := ⟨by norm_num, by norm_num⟩
example : Outside (.interval (1 / 10 : ℝ) 2) 3 := Or.inr (by norm_num)
example : Outside (.greaterThan (1 / 10000 : ℝ)) 0 := by simp only [Outside]; norm_num
example : ∃ s : Store ℝ, ∀ q, Valid (s.kind q) :=
  ⟨⟨fun _ => .positive, fun _ => 0⟩, fun _ => by simp [Valid, Kind.InitRejects]⟩

end C17

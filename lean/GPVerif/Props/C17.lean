/-
C17 — constraints, parameter setters and priors: bounds, bijection, round trips.

All theorems are about the definitions regenerated from gpytorch/constraints/constraints.py,
gpytorch/utils/transforms.py and Module.initialize (`Gen.Constraints`), instantiated at `ℝ`
(`Real.exp`, `Real.log`), and about the store model `ParamStore` built on them — the same terms the
driver `drivers/C17.lean` runs at `Float`.
-/
import GPVerif.Bridge.Constraints
import GPVerif.Model.ParamStore
import GPVerif.Gen.Priors
import GPVerif.Bridge.PriorNorm
import GPVerif.Bridge.InitDispatch
import GPVerif.Bridge.MatrixPriors
import Mathlib.Probability.Distributions.Gaussian.Real
import Mathlib.Tactic.NormNum
import Mathlib.MeasureTheory.Integral.Pi
import Mathlib.Tactic.Push

namespace C17
open ScalarFn ScalarFnReal Gen.Constraints ParamStore Real

/-! ### Interval (sigmoid) -/

/-- every real raw value lands strictly inside `(l, u)` -/
theorem interval_transform_mem {l u : ℝ} (h : l < u) (x : ℝ) :
    l < intervalTransform l u x ∧ intervalTransform l u x < u := by
  have hp := sigmoid_pos x
  have h1 := sigmoid_lt_one x
  have hd : 0 < u - l := by linarith
  constructor
  · simp only [intervalTransform]; nlinarith
  · simp only [intervalTransform]; nlinarith

theorem interval_transform_strictMono {l u : ℝ} (h : l < u) : StrictMono (intervalTransform l u) := by
  intro a b hab
  have := sigmoid_strictMono hab
  have hd : 0 < u - l := by linarith
  simp only [intervalTransform]
  nlinarith

/-- `inverse_transform ∘ transform = id` on all of ℝ -/
theorem interval_left_inv {l u : ℝ} (h : l < u) (x : ℝ) :
    intervalInverse l u (intervalTransform l u x) = x := by
  have hd : (u - l) ≠ 0 := by linarith
  simp only [intervalInverse, intervalTransform]
  rw [show (sigmoid x * (u - l) + l - l) / (u - l) = sigmoid x by field_simp; ring]
  exact invSigmoid_sigmoid x

/-- `transform ∘ inverse_transform = id` on the open interval -/
theorem interval_right_inv {l u y : ℝ} (h : l < u) (hl : l < y) (hu : y < u) :
    intervalTransform l u (intervalInverse l u y) = y := by
  have hd : 0 < u - l := sub_pos.mpr h
  simp only [intervalInverse, intervalTransform]
  rw [sigmoid_invSigmoid (div_pos (by linarith) hd) ((div_lt_one hd).mpr (by linarith))]
  field_simp
  ring

/-! ### GreaterThan / Positive / LessThan (softplus) -/

theorem greaterThan_transform_mem (l x : ℝ) : l < greaterThanTransform l x := by
  have := softplus_pos x
  simp only [greaterThanTransform]; linarith

theorem greaterThan_transform_strictMono (l : ℝ) : StrictMono (greaterThanTransform l) := by
  intro a b hab
  have := softplus_strictMono hab
  simp only [greaterThanTransform]; linarith

theorem greaterThan_left_inv (l x : ℝ) : greaterThanInverse l (greaterThanTransform l x) = x := by
  simp only [greaterThanInverse, greaterThanTransform, add_sub_cancel_right]
  exact invSoftplus_softplus x

theorem greaterThan_right_inv {l y : ℝ} (h : l < y) :
    greaterThanTransform l (greaterThanInverse l y) = y := by
  simp only [greaterThanInverse, greaterThanTransform]
  rw [softplus_invSoftplus (by linarith)]; ring

theorem positive_transform_mem (x : ℝ) : 0 < positiveTransform x := softplus_pos x

theorem positive_transform_strictMono : StrictMono (positiveTransform : ℝ → ℝ) := softplus_strictMono

theorem positive_left_inv (x : ℝ) : positiveInverse (positiveTransform x) = x := invSoftplus_softplus x

theorem positive_right_inv {y : ℝ} (h : 0 < y) : positiveTransform (positiveInverse y) = y :=
  softplus_invSoftplus h

theorem lessThan_transform_mem (u x : ℝ) : lessThanTransform u x < u := by
  have := softplus_pos (-x)
  simp only [lessThanTransform]; linarith

theorem lessThan_transform_strictMono (u : ℝ) : StrictMono (lessThanTransform u) := by
  intro a b hab
  have := softplus_strictMono (neg_lt_neg hab)
  simp only [lessThanTransform]; linarith

theorem lessThan_left_inv (u x : ℝ) : lessThanInverse u (lessThanTransform u x) = x := by
  simp only [lessThanInverse, lessThanTransform]
  rw [show -(-softplus (-x) + u - u) = softplus (-x) by ring, invSoftplus_softplus]; ring

theorem lessThan_right_inv {u y : ℝ} (h : y < u) : lessThanTransform u (lessThanInverse u y) = y := by
  simp only [lessThanInverse, lessThanTransform, neg_neg]
  rw [softplus_invSoftplus (by linarith)]; ring

/-- the algebraic form of `inv_softplus` in the source, `y + log(−expm1(−y))`, is `log(eʸ − 1)` -/
theorem inv_softplus_identity {y : ℝ} (hy : 0 < y) : invSoftplus y = Real.log (Real.exp y - 1) :=
  invSoftplus_eq_log_exp_sub_one hy

/-! ### the store: kinds, validity, interior -/

/-- a constraint object that its constructor accepted -/
def Valid (k : Kind ℝ) : Prop := ¬ k.InitRejects

/-- open feasible set of a kind -/
def Interior : Kind ℝ → ℝ → Prop
  | .interval l u, v => l < v ∧ v < u
  | .greaterThan l, v => l < v
  | .positive, v => 0 < v
  | .lessThan u, v => v < u

/-- outside the closed feasible set -/
def Outside : Kind ℝ → ℝ → Prop
  | .interval l u, v => v < l ∨ u < v
  | .greaterThan l, v => v < l
  | .positive, v => v < 0
  | .lessThan u, v => u < v

theorem valid_interval {l u : ℝ} : Valid (.interval l u) ↔ l < u := by
  simp [Valid, Kind.InitRejects, intervalInitRejects]

/-- all four transforms land in the open feasible set, for every real raw value -/
theorem transform_interior (k : Kind ℝ) (hk : Valid k) (x : ℝ) : Interior k (k.transform x) := by
  cases k with
  | interval l u => exact interval_transform_mem (valid_interval.mp hk) x
  | greaterThan l => exact greaterThan_transform_mem l x
  | positive => exact positive_transform_mem x
  | lessThan u => exact lessThan_transform_mem u x

theorem transform_strictMono (k : Kind ℝ) (hk : Valid k) : StrictMono k.transform := by
  cases k with
  | interval l u => exact interval_transform_strictMono (valid_interval.mp hk)
  | greaterThan l => exact greaterThan_transform_strictMono l
  | positive => exact positive_transform_strictMono
  | lessThan u => exact lessThan_transform_strictMono u

theorem interior_check (k : Kind ℝ) {v : ℝ} (h : Interior k v) : k.Check v := by
  cases k <;> simp only [Interior] at h <;>
    simp only [Kind.Check, intervalCheck, greaterThanCheck, positiveCheck, lessThanCheck, Nat.cast_zero]
  · exact ⟨h.2.le, h.1.le⟩
  · exact h.le
  · exact h.le
  · exact h.le

/-- `check_raw` accepts every real raw value (so `initialize(raw = r)` never raises for finite `r`) -/
theorem checkRaw_always (k : Kind ℝ) (hk : Valid k) (x : ℝ) : k.CheckRaw x := by
  have h := interior_check k (transform_interior k hk x)
  cases k <;> exact h

theorem transform_inverse (k : Kind ℝ) (hk : Valid k) {v : ℝ} (h : Interior k v) :
    k.transform (k.inverse v) = v := by
  cases k with
  | interval l u => exact interval_right_inv (valid_interval.mp hk) h.1 h.2
  | greaterThan l => exact greaterThan_right_inv h
  | positive => exact positive_right_inv h
  | lessThan u => exact lessThan_right_inv h

theorem inverse_transform (k : Kind ℝ) (hk : Valid k) (x : ℝ) : k.inverse (k.transform x) = x := by
  cases k with
  | interval l u => exact interval_left_inv (valid_interval.mp hk) x
  | greaterThan l => exact greaterThan_left_inv l x
  | positive => exact positive_left_inv x
  | lessThan u => exact lessThan_left_inv u x

/-- on the interior every `log` of the inverse transform has a positive argument -/
theorem interior_inverseDefined (k : Kind ℝ) (hk : Valid k) {v : ℝ} (h : Interior k v) :
    k.InverseDefined v := by
  intro a ha
  cases k with
  | interval l u =>
    have hlu := valid_interval.mp hk
    have hd : 0 < u - l := by linarith
    simp only [Kind.inverseLogArgs, intervalInverseLogArgs, List.mem_cons, List.not_mem_nil, or_false] at ha
    have h1 : 0 < (v - l) / (u - l) := div_pos (by linarith [h.1]) hd
    have h2 : (v - l) / (u - l) < 1 := (div_lt_one hd).mpr (by linarith [h.2])
    rcases ha with rfl | rfl <;> simp only [Nat.cast_zero, Nat.cast_one] <;> linarith
  | greaterThan l =>
    simp only [Kind.inverseLogArgs, greaterThanInverseLogArgs, List.mem_cons, List.not_mem_nil, or_false,
      tf_expm1] at ha
    subst ha
    have : 0 < v - l := by simpa [Interior] using sub_pos.mpr h
    simpa using (one_sub_exp_neg_pos this).le
  | positive =>
    simp only [Kind.inverseLogArgs, positiveInverseLogArgs, List.mem_cons, List.not_mem_nil, or_false,
      tf_expm1] at ha
    subst ha
    simpa using (one_sub_exp_neg_pos h).le
  | lessThan u =>
    simp only [Kind.inverseLogArgs, lessThanInverseLogArgs, List.mem_cons, List.not_mem_nil, or_false,
      tf_expm1] at ha
    subst ha
    have : 0 < -(v - u) := by simp only [Interior] at h; linarith
    simpa using (one_sub_exp_neg_pos this).le

/-- **setter_reads_back** — `module.p = v` (= `initialize(raw_p = inverse_transform(v))`) does not raise
for an interior `v`, and reading `p` afterwards gives `v`; other parameters are untouched. -/
theorem setter_reads_back (s : Store ℝ) (p : Nat) (hk : Valid (s.kind p)) {v : ℝ}
    (hv : Interior (s.kind p) v) :
    (s.apply (.set p v)).2 = false ∧ (s.apply (.set p v)).1.read p = v ∧
      ∀ q, q ≠ p → (s.apply (.set p v)).1.read q = s.read q := by
  have hdef := interior_inverseDefined _ hk hv
  have hraw := checkRaw_always _ hk ((s.kind p).inverse v)
  simp only [Store.apply, hdef, ↓reduceIte, Store.initRaw, initTensorRaises, hraw, decide_true,
    Bool.not_true, Bool.and_false, Bool.false_eq_true]
  refine ⟨trivial, ?_, ?_⟩
  · simp only [Store.read, Store.setRaw, ↓reduceIte]
    exact transform_inverse _ hk hv
  · intro q hq
    simp only [Store.read, Store.setRaw, hq, ↓reduceIte]

/-- **oob_rejected** — for a requested value outside the closed bounds (i) `constraint.check(v)` fails and
(ii) some `log` inside `inverse_transform(v)` has a negative argument (IEEE: NaN, which fails `check_raw`),
so the setter raises and the store is unchanged. -/
theorem oob_rejected (s : Store ℝ) (p : Nat) (hk : Valid (s.kind p)) {v : ℝ}
    (hv : Outside (s.kind p) v) :
    ¬ (s.kind p).Check v ∧ (∃ a ∈ (s.kind p).inverseLogArgs v, a < 0) ∧ s.apply (.set p v) = (s, true) := by
  have key : ¬ (s.kind p).Check v ∧ (∃ a ∈ (s.kind p).inverseLogArgs v, a < 0) := by
    generalize s.kind p = k at hk hv
    cases k with
    | interval l u =>
      have hlu := valid_interval.mp hk
      have hd : 0 < u - l := by linarith
      simp only [Outside] at hv
      refine ⟨?_, ?_⟩
      · simp only [Kind.Check, intervalCheck]; rintro ⟨h1, h2⟩; rcases hv with h | h <;> linarith
      · simp only [Kind.inverseLogArgs, intervalInverseLogArgs, List.mem_cons, List.not_mem_nil, or_false,
          exists_eq_or_imp, exists_eq_left, Nat.cast_one]
        rcases hv with h | h
        · left; exact div_neg_of_neg_of_pos (by linarith) hd
        · right
          have : 1 < (v - l) / (u - l) := (one_lt_div hd).mpr (by linarith)
          linarith
    | greaterThan l =>
      simp only [Outside] at hv
      refine ⟨by simp only [Kind.Check, greaterThanCheck]; intro h; linarith, ?_⟩
      simp only [Kind.inverseLogArgs, greaterThanInverseLogArgs, List.mem_cons, List.not_mem_nil, or_false,
        exists_eq_left, tf_expm1]
      exact one_sub_exp_neg_neg (by linarith)
    | positive =>
      simp only [Outside] at hv
      refine ⟨by simp only [Kind.Check, positiveCheck, Nat.cast_zero]; intro h; linarith, ?_⟩
      simp only [Kind.inverseLogArgs, positiveInverseLogArgs, List.mem_cons, List.not_mem_nil, or_false,
        exists_eq_left, tf_expm1]
      exact one_sub_exp_neg_neg hv
    | lessThan u =>
      simp only [Outside] at hv
      refine ⟨by simp only [Kind.Check, lessThanCheck]; intro h; linarith, ?_⟩
      simp only [Kind.inverseLogArgs, lessThanInverseLogArgs, List.mem_cons, List.not_mem_nil, or_false,
        exists_eq_left, tf_expm1]
      exact one_sub_exp_neg_neg (by linarith)
  refine ⟨key.1, key.2, ?_⟩
  obtain ⟨a, ha, hneg⟩ := key.2
  have : ¬ (s.kind p).InverseDefined v := by
    intro h
    have := h a ha
    simp only [Nat.cast_zero] at this
    linarith
  simp only [Store.apply, this, ↓reduceIte]

/-- validity of all registered constraints is preserved by every operation -/
theorem apply_valid (s : Store ℝ) (hs : ∀ q, Valid (s.kind q)) (op : Op ℝ) :
    ∀ q, Valid ((s.apply op).1.kind q) := by
  intro q
  cases op with
  | set p v =>
    simp only [Store.apply, Store.initRaw]
    split
    · split <;> simp [Store.setRaw, hs q]
    · exact hs q
  | initRaw p r => simp only [Store.apply, Store.initRaw]; split <;> simp [Store.setRaw, hs q]
  | step p δ => simp [Store.apply, Store.setRaw, hs q]
  | assignRaw p r => simp [Store.apply, Store.setRaw, hs q]
  | register p k =>
    simp only [Store.apply]
    split
    · exact hs q
    · rename_i hk
      by_cases hq : q = p
      · simp [hq, Valid, hk]
      · simp [hq, hs q]

/-- **reads_in_bounds_always** — from any store whose constraints were accepted by their constructors,
after *every* history of `set / initialize / step / raw assignment / register_constraint` operations with
arbitrary real arguments, every parameter reads strictly inside its bounds. -/
theorem reads_in_bounds_always (ops : List (Op ℝ)) :
    ∀ (s : Store ℝ), (∀ q, Valid (s.kind q)) →
      ∀ p, Interior ((s.run ops).kind p) ((s.run ops).read p) := by
  induction ops with
  | nil => intro s hs p; exact transform_interior _ (hs p) _
  | cons op ops ih => intro s hs p; exact ih _ (apply_valid s hs op) p

/-- the closed-interval reading of the same fact (the form the float implementation can satisfy) -/
theorem reads_check_always (ops : List (Op ℝ)) (s : Store ℝ) (hs : ∀ q, Valid (s.kind q)) (p : Nat) :
    ((s.run ops).kind p).Check ((s.run ops).read p) :=
  interior_check _ (reads_in_bounds_always ops s hs p)

/-- **intersect_bounds** — `Interval.intersect` returns exactly the intersection of the closed intervals -/
theorem intersect_bounds (l₁ u₁ l₂ u₂ x : ℝ) :
    intervalCheck (intersectLower l₁ l₂) (intersectUpper u₁ u₂) x ↔
      intervalCheck l₁ u₁ x ∧ intervalCheck l₂ u₂ x := by
  simp only [intervalCheck, intersectLower, intersectUpper, le_min_iff, ge_iff_le, max_le_iff]
  tauto

/-- the bound check of `Module.initialize` raises exactly when a constraint is present, enforced and
`check_raw` fails (Tensor values); for float values `enforced` is not consulted. -/
theorem initialize_guard (c e r : Bool) :
    (initTensorRaises c e r = true ↔ (c = true ∧ e = true ∧ r = false)) ∧
    (initFloatRaises c e r = true ↔ (c = true ∧ r = false)) := by
  cases c <;> cases e <;> cases r <;> simp [initTensorRaises, initFloatRaises]

/-! ### priors -/

open ProbabilityTheory MeasureTheory in
/-- the Normal prior's modelled log density is Mathlib's Gaussian density -/
theorem normal_prior_density (μ σ : ℝ) (hσ : 0 < σ) (x : ℝ) :
    Real.exp (Priors.normalLogProb μ σ x) = gaussianPDFReal μ (Real.toNNReal (σ ^ 2)) x := by
  rw [PriorNorm.exp_normalLogProb μ σ x hσ, gaussianPDFReal, Real.coe_toNNReal _ (sq_nonneg σ)]
  have hs : √(2 * π * σ ^ 2) = √(2 * π) * σ := by
    rw [Real.sqrt_mul (by positivity), Real.sqrt_sq hσ.le]
  rw [hs, mul_comm σ]

open ProbabilityTheory MeasureTheory Set in
/-- **prior_normalised** — every scalar prior family that claims to be a probability density integrates to one
over its support: Normal, HalfNormal, LogNormal, Uniform, HalfCauchy, Gamma (densities of torch.distributions,
modelled in `Model/Priors.lean`) and SmoothedBox (density regenerated from smoothed_box_prior.py, including its
normaliser `_M`). -/
theorem prior_normalised :
    (∀ μ σ : ℝ, 0 < σ → ∫ x, Real.exp (Priors.normalLogProb μ σ x) = 1) ∧
    (∀ σ : ℝ, 0 < σ → ∫ x in Ioi (0 : ℝ), Real.exp (Priors.halfNormalLogProb σ x) = 1) ∧
    (∀ μ σ : ℝ, 0 < σ → ∫ x in Ioi (0 : ℝ), Real.exp (Priors.logNormalLogProb μ σ x) = 1) ∧
    (∀ a b : ℝ, a < b → ∫ _x in Ico a b, Real.exp (Priors.uniformLogProb a b) = 1) ∧
    (∀ s : ℝ, 0 < s → ∫ x in Ioi (0 : ℝ), Real.exp (Priors.halfCauchyLogProb s x) = 1) ∧
    (∀ a b : ℝ, 0 < a → 0 < b →
      ∫ x in Ioi (0 : ℝ), Real.exp (Priors.gammaLogProb a b (Real.log (Real.Gamma a)) x) = 1) ∧
    (∀ a b σ : ℝ, a < b → 0 < σ → ∫ x, Real.exp (Gen.Priors.smoothedBoxLogProb a b σ x) = 1) := by
  refine ⟨fun μ σ hσ => ?_, PriorNorm.halfNormal_normalised, PriorNorm.logNormal_normalised,
    PriorNorm.uniform_normalised, PriorNorm.halfCauchy_normalised, PriorNorm.gamma_normalised,
    PriorNorm.smoothedBox_normalised⟩
  simp_rw [normal_prior_density μ σ hσ]
  exact integral_gaussianPDFReal_eq_one μ (by
    intro h0
    have : σ ^ 2 ≤ 0 := Real.toNNReal_eq_zero.mp h0
    exact absurd this (not_le.mpr (pow_pos hσ 2)))

/-- **prior_density_partial** — what remains unproved about prior densities after wave 3.  Now proved (section
"matrix-valued priors" below): `MultivariateNormalPrior.log_prob` = log of the documented Gaussian density for every
size / factor / point (`mvn_prior_parts_correct`, `mvn_prior_assembly_eq_closed_form`, `mvn_prior_logprob_closed_form`),
and the LKJ-Cholesky density as a function of the factor's diagonal with the documented exponents
(`lkj_chol_density_of_diag`, `lkj_chol_unnormZ_eq`, `lkj_corr_density_eq_chol`).  Still numerical only: the
normalising constant of the LKJ family (torch's `lgamma / mvlgamma` expression; `n = 2` integrated numerically),
`LKJPrior` on correlation matrices for `n ≥ 3` (known finding: it returns the Cholesky density without the Jacobian),
`LKJCovariancePrior` (reference density); `HorseshoePrior` is documented as an unnormalised approximation
(`pdf(x) ∼ (lb(x) + ub(x))/2`), so there is nothing to normalise.  Proved about the generated horseshoe expression: it
is an even function of `x`. -/
theorem prior_density_partial (s x : ℝ) :
    Gen.Priors.horseshoeLogProb s (-x) = Gen.Priors.horseshoeLogProb s x := by
  simp only [Gen.Priors.horseshoeLogProb, div_neg, neg_mul_neg]

/-- inside the box the smoothed-box density is the constant `1 / (√(2π)·σ + (b − a))` -/
theorem smoothed_box_plateau {a b σ x : ℝ} (hσ : 0 < σ) (hab : a < b) (hx : a ≤ x ∧ x ≤ b) :
    Real.exp (Gen.Priors.smoothedBoxLogProb a b σ x) = 1 / (√(2 * π) * σ + (b - a)) := by
  have h2 : (0 : ℝ) < √(2 * π) := by positivity
  have hX : max (|x - (a + b) / 2| - (b - a) / 2) 0 = 0 := by
    apply max_eq_right
    have : |x - (a + b) / 2| ≤ (b - a) / 2 := by rw [abs_le]; constructor <;> linarith [hx.1, hx.2]
    linarith
  simp only [Gen.Priors.smoothedBoxLogProb, Priors.normalLogProb, tf_log, tf_sqrt, tf_pi, tf_abs,
    Nat.cast_ofNat, Nat.cast_zero, Nat.cast_one, hX]
  have h3 : 0 < 1 + (b - a) / (√(2 * π) * σ) := by
    have : 0 < (b - a) / (√(2 * π) * σ) := div_pos (by linarith) (by positivity)
    linarith
  rw [Real.exp_sub, Real.exp_sub, Real.exp_sub, Real.exp_log hσ, Real.exp_log h2, Real.exp_log h3]
  simp only [sub_zero, mul_zero, neg_zero, zero_div, Real.exp_zero]
  field_simp


/-! ### matrix-valued priors (Task B): what is provable about `MultivariateNormalPrior` and `LKJCholeskyFactorPrior` -/

section matrixPriors
open Matrix MVN MatrixPriors MatrixPriorsBridge

/-- **mvn_prior_parts_correct** — the two quantities `MultivariateNormalPrior.log_prob` computes from its buffer
`_unbroadcasted_scale_tril = L` (model `mvnTrilParts?`, executed at ℚ by `drivers/C17mat.lean`; any field): the squared
norm `‖L⁻¹(v − μ)‖²` is the Mahalanobis form of `Σ = L Lᵀ`, the second component is the diagonal of `L`, and for a
lower-triangular `L` the C10 pieces `MVN.logProbParts?` of `N(μ, L Lᵀ)` (certified inverse / certified `L D Lᵀ`) are
the same quadratic form and `det Σ = (Π L_ii)²`. -/
theorem mvn_prior_parts_correct {n : Nat} {α : Type} [Field α] [DecidableEq α]
    (L : DMat n n α) (mu v : DMat n 1 α) (M : α) (d : Fin n → α)
    (h : mvnTrilParts? L mu v = some (M, d)) :
    M = ((v.toMatrix - mu.toMatrix)ᵀ * (L.toMatrix * L.toMatrixᵀ)⁻¹ * (v.toMatrix - mu.toMatrix)) 0 0 ∧
      (d = fun i => L.toMatrix i i) ∧
      (L.toMatrix.IsLowerTriangular → ∀ q dt, logProbParts? (L.mul L.transpose) mu v = some (q, dt) →
        q = M ∧ dt = (∏ i, d i) ^ 2) := by
  obtain ⟨hM, hd, _⟩ := mvnTrilParts_correct L mu v M d h
  refine ⟨hM, hd, fun hL q dt hq => ?_⟩
  obtain ⟨h1, h2⟩ := logProbParts_correct _ mu v q dt hq
  simp only [DMat.toMatrix_mul, DMat.toMatrix_transpose] at h1 h2
  refine ⟨by rw [h1, hM], ?_⟩
  rw [h2, det_tril_gram _ hL, hd]

/-- **mvn_prior_assembly_eq_closed_form** — torch's assembly `−½(k log 2π + M) − Σ log L_ii` is C10's closed form
`−½(M + log det Σ + k log 2π)` with `det Σ = (Π L_ii)²` (positive diagonal). -/
theorem mvn_prior_assembly_eq_closed_form {n : Nat} (M c : ℝ) (d : Fin n → ℝ) (hd : ∀ i, 0 < d i) :
    mvnPriorAssemble M (∑ i, Real.log (d i)) c = logProbAssemble M (Real.log ((∏ i, d i) ^ 2)) c := by
  have : Real.log ((∏ i, d i) ^ 2) = 2 * ∑ i, Real.log (d i) := by
    rw [Real.log_pow, Real.log_prod (fun i _ => (hd i).ne')]; norm_num
  rw [this]
  unfold mvnPriorAssemble logProbAssemble
  ring

/-- **mvn_prior_logprob_closed_form** — for every size, every lower-triangular `L` with positive diagonal and every
residual `r = v − μ`: the value `MultivariateNormalPrior.log_prob` assembles from `‖L⁻¹ r‖²` and `Σ log L_ii` is the
logarithm of the documented density `det(2πΣ)^{-1/2} exp(−½ rᵀ Σ⁻¹ r)` with `Σ = L Lᵀ`. -/
theorem mvn_prior_logprob_closed_form {n : Nat} (L : Matrix (Fin n) (Fin n) ℝ) (r : Matrix (Fin n) (Fin 1) ℝ)
    (hL : L.IsLowerTriangular) (hpos : ∀ i, 0 < L i i) :
    mvnPriorAssemble (((L⁻¹ * r)ᵀ * (L⁻¹ * r)) 0 0) (∑ i, Real.log (L i i)) (n * Real.log (2 * π)) =
      Real.log (Real.exp (-(1 / 2) * (rᵀ * (L * Lᵀ)⁻¹ * r) 0 0) / Real.sqrt ((2 * π) ^ n * (L * Lᵀ).det)) := by
  rw [mvn_prior_assembly_eq_closed_form _ _ _ hpos, det_tril_gram _ hL, quad_tril]
  have hprod : 0 < (∏ i, L i i) ^ 2 := pow_pos (Finset.prod_pos fun i _ => hpos i) 2
  have h2pi : (0 : ℝ) < 2 * π := by positivity
  have hpow : (0 : ℝ) < (2 * π) ^ n := pow_pos h2pi n
  have hall : (0 : ℝ) < (2 * π) ^ n * (∏ i, L i i) ^ 2 := mul_pos hpow hprod
  rw [Real.log_div (Real.exp_pos _).ne' (Real.sqrt_pos.mpr hall).ne', Real.log_exp, Real.log_sqrt hall.le,
    Real.log_mul hpow.ne' hprod.ne', Real.log_pow, Real.log_pow]
  unfold logProbAssemble
  ring

/-- **lkj_chol_density_of_diag** — the modelled unnormalised LKJ-Cholesky log density (`Σ_{i=2}^{n} e_i log L_ii` with the
exponent table `e_i = n − i + 2(η − 1)`, the table the driver returns exactly) is the logarithm of the documented
`Π_{i=2}^{n} L_ii ^ (n − i + 2(η − 1))`, for every `n`, real `η` and positive diagonal. -/
theorem lkj_chol_density_of_diag (n : Nat) (η : ℝ) (d : Nat → ℝ) (hd : ∀ k, 0 < d k) :
    Real.exp (lkjCholLogUnnorm n η (fun k => Real.log (d k))) =
      ∏ k ∈ Finset.range (n - 1), d (k + 1) ^ (lkjCholExponent n η (k + 2)) := by
  unfold lkjCholLogUnnorm
  rw [list_range_sum, Real.exp_sum]
  refine Finset.prod_congr rfl fun k _ => ?_
  rw [Real.rpow_def_of_pos (hd _), mul_comm]

/-- when `2(η − 1)` is an integer `t` the density itself is the rational expression `lkjCholUnnormZ` the driver evaluates in ℚ -/
theorem lkj_chol_unnormZ_eq (n : Nat) (t : ℤ) (η : ℝ) (ht : (t : ℝ) = 2 * (η - 1)) (d : Nat → ℝ)
    (hd : ∀ k, 0 < d k) :
    lkjCholUnnormZ n t d = Real.exp (lkjCholLogUnnorm n η (fun k => Real.log (d k))) := by
  rw [lkj_chol_density_of_diag n η d hd]
  unfold lkjCholUnnormZ
  rw [list_range_prod]
  refine Finset.prod_congr rfl fun k _ => ?_
  rw [← Real.rpow_intCast]
  congr 1
  unfold lkjCholExponent
  push_cast
  rw [ht]

/-- **lkj_corr_density_eq_chol** — why these exponents: for the Cholesky factor `L` (lower-triangular, positive diagonal,
`L₁₁ = 1`) of a correlation matrix `Σ = L Lᵀ` of any size, the documented LKJ density `|Σ|^(η−1)` times the Jacobian
`Π L_ii^(n−i)` of `L ↦ L Lᵀ` is exactly the modelled Cholesky-diagonal density. -/
theorem lkj_corr_density_eq_chol (m : Nat) (η : ℝ) (L : Matrix (Fin (m + 1)) (Fin (m + 1)) ℝ)
    (hL : L.IsLowerTriangular) (hpos : ∀ i, 0 < L i i) (h00 : L 0 0 = 1) :
    (L * Lᵀ).det ^ (η - 1) * ∏ i : Fin (m + 1), L i i ^ (((m + 1 - (i.val + 1) : ℕ) : ℝ)) =
      Real.exp (lkjCholLogUnnorm (m + 1) η (fun k => Real.log (diagN L k))) := by
  have hdpos : ∀ k, 0 < diagN L k := by
    intro k; unfold diagN; split
    · exact hpos _
    · exact one_pos
  rw [lkj_chol_density_of_diag (m + 1) η _ hdpos, det_tril_gram L hL]
  have hP : 0 ≤ ∏ i, L i i := Finset.prod_nonneg fun i _ => (hpos i).le
  rw [← Real.rpow_natCast, ← Real.rpow_mul hP, ← Real.finsetProd_rpow _ _ (fun i _ => (hpos i).le),
    ← Finset.prod_mul_distrib]
  have hterm : ∀ i : Fin (m + 1), L i i ^ (((2 : ℕ) : ℝ) * (η - 1)) * L i i ^ (((m + 1 - (i.val + 1) : ℕ) : ℝ)) =
      diagN L i.val ^ (lkjCholExponent (m + 1) η (i.val + 1)) := by
    intro i
    rw [← Real.rpow_add (hpos i)]
    have : diagN L i.val = L i i := by simp [diagN, i.isLt]
    rw [this]
    congr 1
    unfold lkjCholExponent
    push_cast
    ring
  rw [Finset.prod_congr rfl fun i _ => hterm i,
    Fin.prod_univ_eq_prod_range (fun k => diagN L k ^ (lkjCholExponent (m + 1) η (k + 1))) (m + 1),
    Finset.prod_range_succ']
  have h0 : diagN L 0 = 1 := by simp [diagN, h00]
  simp only [h0, Real.one_rpow, mul_one, Nat.add_sub_cancel]

end matrixPriors

/-! ### `Module.initialize(**kwargs)` with several (dotted) names -/

/-- **gen_initialize_eq_fold** — the program regenerated from the body of `Module.initialize` (loop over
`kwargs.items()`, dotted-name dispatch through `_get_module_and_name`, `nn.ModuleList` index branch, immediate or
deferred child calls, leaf chain), run on ANY module tree, store and kwargs list (any number of names, any nesting
depth, plain and dotted names mixed, repeated targets), is the left fold of the specified single assignments:
no pair is dropped, reordered or applied twice. -/
theorem gen_initialize_eq_fold (leaf : Nat → Option Target) (child : Nat → Node) (s : Store ℝ)
    (kvs : List (Path × ℝ)) :
    Init.exec Gen.InitDispatch.initializeProg (.mod leaf child) s kvs = initFold (.mod leaf child) s kvs :=
  InitDispatchBridge.execFuel_gen _ _ s kvs (Nat.lt_succ_self _) (Or.inl ⟨leaf, child, rfl⟩)

/-- the same for a call that reaches a missing sub-module / a `ModuleList` with a non-empty kwargs list (both raise) -/
theorem gen_initialize_child_call (n : Node) (s : Store ℝ) (kv : Path × ℝ) (rest : List (Path × ℝ)) :
    Init.exec Gen.InitDispatch.initializeProg n s (kv :: rest) = initFold n s (kv :: rest) :=
  InitDispatchBridge.execFuel_gen _ _ s _ (Nat.lt_succ_self _) (Or.inr (by simp))

/-- the Tensor and the float branch of the regenerated leaf chain test the bound BEFORE they store: they are the
store model's `initRaw` (a rejected value leaves the parameter untouched) -/
theorem gen_initialize_check_before_store (s : Store ℝ) (p : Nat) (r : ℝ) :
    Init.runLeafSteps (initTensorRaises true true) Gen.InitDispatch.tensorSteps s p r = s.initRaw p r ∧
    Init.runLeafSteps (initFloatRaises true true) Gen.InitDispatch.floatSteps s p r = s.initRaw p r := by
  constructor
  · simp only [Gen.InitDispatch.tensorSteps, InitDispatchBridge.leafSteps_check_store, Store.initRaw]
  · simp only [Gen.InitDispatch.floatSteps, InitDispatchBridge.leafSteps_check_store, Store.initRaw,
      initFloatRaises, initTensorRaises, Bool.and_true, Bool.true_and]

/-- one `initialize` call with the kwargs `A ++ B` = `initialize(**A)` then (unless it raised) `initialize(**B)` -/
theorem initialize_append (n : Node) (s : Store ℝ) (k₁ k₂ : List (Path × ℝ)) :
    initFold n s (k₁ ++ k₂) =
      if (initFold n s k₁).2 then initFold n s k₁ else initFold n (initFold n s k₁).1 k₂ :=
  InitDispatchBridge.initFold_append n k₂ k₁ s

/-- after a multi-name `initialize` (whatever it was given, raised or not) every parameter reads inside its bounds -/
theorem initialize_reads_in_bounds (n : Node) (s : Store ℝ) (hs : ∀ q, Valid (s.kind q))
    (kvs : List (Path × ℝ)) (p : Nat) :
    Interior ((initFold n s kvs).1.kind p) ((initFold n s kvs).1.read p) := by
  obtain ⟨ops, h⟩ := InitDispatchBridge.initFold_eq_run n kvs s
  rw [h]
  exact reads_in_bounds_always ops s hs p

/-- `initialize(raw_p = r)` never raises for a real `r`, reads `transform r`, leaves the other parameters alone -/
theorem initRaw_reads (s : Store ℝ) (p : Nat) (hk : Valid (s.kind p)) (r : ℝ) :
    (s.apply (.initRaw p r)).2 = false ∧ (s.apply (.initRaw p r)).1.read p = (s.kind p).transform r ∧
      ∀ q, q ≠ p → (s.apply (.initRaw p r)).1.read q = s.read q := by
  have hraw := checkRaw_always _ hk r
  simp only [Store.apply, Store.initRaw, initTensorRaises, hraw, decide_true, Bool.not_true, Bool.and_false,
    Bool.false_eq_true, ↓reduceIte]
  refine ⟨trivial, ?_, ?_⟩
  · simp only [Store.read, Store.setRaw, ↓reduceIte]
  · intro q hq
    simp only [Store.read, Store.setRaw, hq, ↓reduceIte]

/-- what a pair of `kwargs` is allowed to be for the read-back statement -/
def Assignable (n : Node) (s : Store ℝ) (kv : Path × ℝ) : Prop :=
  (∃ p, resolve n kv.1 = some (.pub p) ∧ Interior (s.kind p) kv.2) ∨ (∃ p, resolve n kv.1 = some (.raw p))

/-- **initialize_multi_reads_back** — ONE `initialize(**kwargs)` call whose names denote parameters (public names with
interior values, raw names with any real value; dotted or plain, several below the same child, repeated targets
allowed) does not raise, keeps every constraint, and afterwards every parameter reads the value of the LAST pair that
denotes it — or its old value when no pair does. -/
theorem initialize_multi_reads_back (n : Node) (kvs : List (Path × ℝ)) :
    ∀ (s : Store ℝ), (∀ q, Valid (s.kind q)) → (∀ kv ∈ kvs, Assignable n s kv) →
      (initFold n s kvs).2 = false ∧ (∀ q, (initFold n s kvs).1.kind q = s.kind q) ∧
        ∀ q, (initFold n s kvs).1.read q = (lastRead n s.kind kvs q).getD (s.read q) := by
  induction kvs with
  | nil => intro s _ _; simp [initFold, lastRead]
  | cons kv rest ih =>
    intro s hs hkv
    have h0 := hkv kv (List.mem_cons_self)
    -- the first assignment: does not raise, keeps the kinds, reads
    have key : (assign1 n s kv).2 = false ∧ (∀ q, (assign1 n s kv).1.kind q = s.kind q) ∧
        ∀ q, (assign1 n s kv).1.read q =
          (match resolve n kv.1 with
            | some (.pub p) => if p = q then some kv.2 else none
            | some (.raw p) => if p = q then some ((s.kind q).transform kv.2) else none
            | none => none).getD (s.read q) := by
      rcases h0 with ⟨p, hp, hint⟩ | ⟨p, hp⟩
      · have := setter_reads_back s p (hs p) hint
        simp only [assign1, hp, Store.assignTarget]
        refine ⟨this.1, fun q => InitDispatchBridge.apply_set_kind s p _ q, fun q => ?_⟩
        by_cases hq : p = q
        · subst hq; simp [this.2.1]
        · simp [hq, this.2.2 q (Ne.symm hq)]
      · have := initRaw_reads s p (hs p) kv.2
        simp only [assign1, hp, Store.assignTarget]
        refine ⟨this.1, fun q => InitDispatchBridge.apply_initRaw_kind s p _ q, fun q => ?_⟩
        by_cases hq : p = q
        · subst hq; simp [this.2.1]
        · simp [hq, this.2.2 q (Ne.symm hq)]
    obtain ⟨k1, k2, k3⟩ := key
    have hs' : ∀ q, Valid ((assign1 n s kv).1.kind q) := fun q => by rw [k2]; exact hs q
    have hkv' : ∀ kv' ∈ rest, Assignable n (assign1 n s kv).1 kv' := by
      intro kv' hmem
      rcases hkv kv' (List.mem_cons_of_mem _ hmem) with ⟨p, hp, hint⟩ | ⟨p, hp⟩
      · exact Or.inl ⟨p, hp, by rw [k2]; exact hint⟩
      · exact Or.inr ⟨p, hp⟩
    obtain ⟨i1, i2, i3⟩ := ih (assign1 n s kv).1 hs' hkv'
    simp only [initFold, k1, Bool.false_eq_true, ↓reduceIte]
    refine ⟨i1, fun q => by rw [i2, k2], fun q => ?_⟩
    rw [i3 q]
    have hkind : (assign1 n s kv).1.kind = s.kind := funext k2
    rw [hkind, k3 q]
    simp only [lastRead]
    cases lastRead n s.kind rest q with
    | some v => simp
    | none =>
      simp only [Option.getD_none]
      cases resolve n kv.1 with
      | none => rfl
      | some t => cases t <;> rfl

/-! ### round 4: closures of `register_prior(name, prior, "param")`; scalar boxes on multi-element values -/

/-- **gen_prior_closures_follow_called_module** — the closures that `register_prior(name, prior, "param")` generates
(regenerated from module.py), registered on a module `orig` and later called with ANY module `m` — in particular a
`deepcopy` of `orig`, which shares the function objects — read `m`'s parameter and initialize `m`, and
`m.sample_from_prior` hands `m` to the setting closure: a copy never evaluates or writes the original. -/
theorem gen_prior_closures_follow_called_module {β : Type} (orig m : β) :
    Gen.InitDispatch.priorClosureReads.pick orig m = m ∧
    Gen.InitDispatch.priorSettingClosureWrites.pick orig m = m ∧
    Gen.InitDispatch.sampleFromPriorPasses.pick orig m = m := by
  refine ⟨rfl, rfl, rfl⟩

/-- **gen_smoothed_box_broadcast** — `SmoothedBoxPrior._log_prob` (regenerated, reductions included) of a box with SCALAR
`a, b, σ` on a value with any number `d` of trailing elements is the sum of the one-coordinate log densities: the
log of the `d`-fold product density (in particular `d` normalisers are subtracted, not one). -/
theorem gen_smoothed_box_broadcast (a b σ : ℝ) (xs : List ℝ) :
    Gen.Priors.smoothedBoxLogProbVec a b σ xs = (xs.map (Gen.Priors.smoothedBoxLogProb a b σ)).sum := by
  have key : ∀ (f : ℝ → ℝ) (l : List ℝ) (acc : ℝ), l.foldl (fun acc x => acc + f x) acc = acc + (l.map f).sum := by
    intro f l
    induction l with
    | nil => intro acc; simp
    | cons x l ih => intro acc; simp only [List.foldl_cons, List.map_cons, List.sum_cons, ih]; ring
  unfold Gen.Priors.smoothedBoxLogProbVec
  rw [key]
  simp only [Nat.cast_zero, zero_add]
  congr 2
  funext x
  simp only [Gen.Priors.smoothedBoxLogProb, Nat.cast_zero]

open MeasureTheory in
/-- **prior_normalised_broadcast** — the broadcast case of `prior_normalised`: for every `d`, the regenerated density of
a scalar smoothed box on `d`-element values integrates to one over `ℝ^d`. -/
theorem prior_normalised_broadcast (d : Nat) (a b σ : ℝ) (hab : a < b) (hσ : 0 < σ) :
    ∫ x : Fin d → ℝ, Real.exp (Gen.Priors.smoothedBoxLogProbVec a b σ (List.ofFn x)) = 1 := by
  have h : ∀ x : Fin d → ℝ, Real.exp (Gen.Priors.smoothedBoxLogProbVec a b σ (List.ofFn x)) =
      ∏ i, Real.exp (Gen.Priors.smoothedBoxLogProb a b σ (x i)) := by
    intro x
    rw [gen_smoothed_box_broadcast, List.map_ofFn, List.sum_ofFn, Real.exp_sum]
    rfl
  simp_rw [h]
  rw [integral_fintype_prod_volume_eq_prod (fun _ x => Real.exp (Gen.Priors.smoothedBoxLogProb a b σ x))]
  simp [PriorNorm.smoothedBox_normalised a b σ hab hσ]

/-! ### the hypotheses are satisfiable -/

example : Valid (.interval (1 / 10 : ℝ) 2) := valid_interval.mpr (by norm_num)
example : Interior (.interval (1 / 10 : ℝ) 2) 1 := ⟨by norm_num, by norm_num⟩
example : Outside (.interval (1 / 10 : ℝ) 2) 3 := Or.inr (by norm_num)
example : Outside (.greaterThan (1 / 10000 : ℝ)) 0 := by simp only [Outside]; norm_num
example : ∃ s : Store ℝ, ∀ q, Valid (s.kind q) :=
  ⟨⟨fun _ => .positive, fun _ => 0⟩, fun _ => by simp [Valid, Kind.InitRejects]⟩

/-- a two-level tree: root with child 0 = `ScaleKernel`-like module (public name 0 → parameter 0) whose child 0 has
public name 0 → parameter 1; the kwargs `{"0.0": 2, "0.0.0": 3}` (two dotted names below the same child) satisfy
the hypotheses of `initialize_multi_reads_back` -/
example : ∃ (n : Node) (s : Store ℝ) (kvs : List (Path × ℝ)), 2 ≤ kvs.length ∧ (∀ q, Valid (s.kind q)) ∧
    ∀ kv ∈ kvs, Assignable n s kv := by
  let base : Node := .mod (fun x => if x = 0 then some (.pub 1) else none) (fun _ => .none)
  let scale : Node := .mod (fun x => if x = 0 then some (.pub 0) else none) (fun x => if x = 0 then base else .none)
  let root : Node := .mod (fun _ => none) (fun x => if x = 0 then scale else .none)
  refine ⟨root, ⟨fun _ => .positive, fun _ => 0⟩, [([0, 0], 2), ([0, 0, 0], 3)], by simp,
    fun _ => by simp [Valid, Kind.InitRejects], ?_⟩
  intro kv hkv
  simp only [List.mem_cons, List.not_mem_nil, or_false] at hkv
  rcases hkv with rfl | rfl
  · exact Or.inl ⟨0, by simp [root, scale, resolve, Node.leafOf], by simp [Interior]⟩
  · exact Or.inl ⟨1, by simp [root, scale, base, resolve, Node.leafOf], by simp [Interior]⟩

/-- the hypotheses of `mvn_prior_parts_correct` hold for a concrete rational factor (the instance the driver runs) -/
example : ∃ M d, MatrixPriors.mvnTrilParts? (DMat.ofMatrix !![(1 : ℚ), 0; 1 / 2, 2]) (DMat.ofMatrix !![(0 : ℚ); 0])
    (DMat.ofMatrix !![(1 : ℚ); 1]) = some (M, d) ∧ M = 17 / 16 := by
  refine ⟨17 / 16, fun i => if i = 0 then 1 else 2, ?_, rfl⟩
  decide +kernel
example : (MVN.logProbParts? ((DMat.ofMatrix !![(1 : ℚ), 0; 1 / 2, 2]).mul (DMat.ofMatrix !![(1 : ℚ), 0; 1 / 2, 2]).transpose)
    (DMat.ofMatrix !![(0 : ℚ); 0]) (DMat.ofMatrix !![(1 : ℚ); 1])).isSome = true := by decide +kernel
example : (1 : Matrix (Fin 3) (Fin 3) ℝ).IsLowerTriangular ∧ (∀ i, 0 < (1 : Matrix (Fin 3) (Fin 3) ℝ) i i) ∧
    (1 : Matrix (Fin 3) (Fin 3) ℝ) 0 0 = 1 := by
  refine ⟨fun i j hij => Matrix.one_apply_ne (by rintro rfl; exact (lt_irrefl _) hij), fun i => by simp, by simp⟩
example : MatrixPriors.lkjCholExponents 4 (3 / 2 : ℚ) = [3, 2, 1] := by decide +kernel
example : MatrixPriors.lkjCholUnnormZ 3 1 (fun k => if k = 1 then (1 / 2 : ℚ) else 1 / 4) = 1 / 16 := by decide +kernel

end C17

/-
C04 — fantasy models equal conditioning from scratch and leave the source untouched.

All theorems are about the executable definitions of `GPVerif/Model/Fantasy.lean` (the ones `drivers/C04.lean`
runs at `α = ℚ`), for every field `α` and all sizes.  Helper lemmas over abstract index types are in
`GPVerif/Bridge/Fantasy.lean` and `GPVerif/Bridge/FantasyModel.lean`.
-/
import GPVerif.Bridge.FantasyModel
import GPVerif.Gen.FantasyFrame
import GPVerif.Gen.FantasyAlgebra

open Matrix Fantasy FantasyBridge

set_option linter.unusedTactic false
set_option linter.unnecessarySeqFocus false

namespace C04

variable {α : Type} [Field α] [DecidableEq α] {n f t p q : Nat}

/-! ## The bordered solve -/

/-- `get_fantasy_strategy`'s `[a; b]` solves the bordered system `[[A, Uᵀ],[U, S]]·[a; b] = [r; r_f]` whenever
the carried `Kinv` is a right inverse of `A`, the carried mean cache solves `A α = r`, and the Schur complement
is invertible (`step?` found its certified inverse). -/
theorem bordered_solve_correct
    (A : DMat n n α) (r : DMat n 1 α) (st : FState n α) (U : DMat f n α) (S : DMat f f α) (rf : DMat f 1 α)
    {st' : FState (n + f) α}
    (hK : A.toMatrix * st.Kinv.toMatrix = 1) (hal : A.toMatrix * st.mean.toMatrix = r.toMatrix)
    (h : step? st U S rf = some st') :
    (border A U S).toMatrix * st'.mean.toMatrix = (vcat r rf).toMatrix := by
  obtain ⟨Sinv, hS, rfl⟩ := step?_some h
  simp only [toMatrix_border, toMatrix_vcat, toMatrix_cacheUpper, toMatrix_cacheLower, toMatrix_fantSolve,
    submatrix_mul_equiv]
  rw [bordered_solve _ _ _ _ _ _ _ _ hK hS hal]

/-- … and it is *the* solution: `[a; b] = J⁻¹ [r; r_f]`, and the carried inverse is `J⁻¹`
(`A` symmetric, as every covariance + noise matrix is). -/
theorem fantasy_mean_cache_eq_scratch
    (A : DMat n n α) (r : DMat n 1 α) (st : FState n α) (U : DMat f n α) (S : DMat f f α) (rf : DMat f 1 α)
    {st' : FState (n + f) α}
    (hA : A.toMatrixᵀ = A.toMatrix)
    (hK : A.toMatrix * st.Kinv.toMatrix = 1) (hal : A.toMatrix * st.mean.toMatrix = r.toMatrix)
    (h : step? st U S rf = some st') :
    IsUnit (border A U S).toMatrix.det ∧
    st'.mean.toMatrix = (border A U S).toMatrix⁻¹ * (vcat r rf).toMatrix ∧
    st'.Kinv.toMatrix = (border A U S).toMatrix⁻¹ :=
  step?_spec A r st U S rf hA hK hal h

/-- One incremental step gives exactly (as `DMat`s, entry for entry) the state of a model conditioned from
scratch on the concatenated data.  This is the equality the driver re-checks on every case. -/
theorem fantasy_step_eq_scratch
    (A : DMat n n α) (r : DMat n 1 α) (U : DMat f n α) (S : DMat f f α) (rf : DMat f 1 α)
    {st : FState n α} {st' sc : FState (n + f) α}
    (hA : A.toMatrixᵀ = A.toMatrix)
    (h0 : init? A r = some st) (h : step? st U S rf = some st')
    (hs : init? (border A U S) (vcat r rf) = some sc) : st' = sc := by
  obtain ⟨hK, hal⟩ := init?_spec h0
  have hAK : A.toMatrix * st.Kinv.toMatrix = 1 := by
    rw [hK]; exact Matrix.mul_nonsing_inv _ (init?_isUnit h0)
  have hAal : A.toMatrix * st.mean.toMatrix = r.toMatrix := by
    rw [hal, ← Matrix.mul_assoc, Matrix.mul_nonsing_inv _ (init?_isUnit h0), Matrix.one_mul]
  obtain ⟨_, h1, h2⟩ := step?_spec A r st U S rf hA hAK hAal h
  obtain ⟨g1, g2⟩ := init?_spec hs
  exact FState.ext_toMatrix (by rw [h2, g1]) (by rw [h1, g2])

/-! ## Predictions from the updated caches = closed-form conditional on the concatenated data -/

/-- Closed-form Gaussian conditional (the specification; `J` = covariance + noise of all observed data,
`y` = observations minus prior mean, `Kt` = test×data cross covariance). -/
noncomputable def condMean {N : Nat} (mt : Matrix (Fin t) (Fin 1) α) (Kt : Matrix (Fin t) (Fin N) α)
    (J : Matrix (Fin N) (Fin N) α) (y : Matrix (Fin N) (Fin 1) α) : Matrix (Fin t) (Fin 1) α :=
  mt + Kt * (J⁻¹ * y)

noncomputable def condCovar {N : Nat} (Ktt : Matrix (Fin t) (Fin t) α) (Kt : Matrix (Fin t) (Fin N) α)
    (J : Matrix (Fin N) (Fin N) α) : Matrix (Fin t) (Fin t) α :=
  Ktt - Kt * (J⁻¹ * Ktᵀ)

/-- Predictive mean and covariance computed from the *updated* caches (mean cache `[a; b]`; inverse root `R'`,
any root of the carried inverse — fast_pred_var path — or the carried inverse itself) equal the closed-form
conditional on the concatenated data. -/
theorem fantasy_pred_eq_scratch
    (A : DMat n n α) (r : DMat n 1 α) (st : FState n α) (U : DMat f n α) (S : DMat f f α) (rf : DMat f 1 α)
    {st' : FState (n + f) α}
    (mt : DMat t 1 α) (Kt : DMat t (n + f) α) (Ktt : DMat t t α)
    (hA : A.toMatrixᵀ = A.toMatrix)
    (hK : A.toMatrix * st.Kinv.toMatrix = 1) (hal : A.toMatrix * st.mean.toMatrix = r.toMatrix)
    (h : step? st U S rf = some st') :
    (predMean mt Kt st'.mean).toMatrix =
        condMean mt.toMatrix Kt.toMatrix (border A U S).toMatrix (vcat r rf).toMatrix ∧
    (predCovarInv Ktt Kt st'.Kinv).toMatrix = condCovar Ktt.toMatrix Kt.toMatrix (border A U S).toMatrix ∧
    ∀ (R' : DMat (n + f) p α), R'.toMatrix * R'.toMatrixᵀ = st'.Kinv.toMatrix →
      (predCovarRoot Ktt Kt R').toMatrix = condCovar Ktt.toMatrix Kt.toMatrix (border A U S).toMatrix := by
  obtain ⟨_, h1, h2⟩ := step?_spec A r st U S rf hA hK hal h
  refine ⟨?_, ?_, ?_⟩
  · simp [predMean, condMean, h1]
  · simp [predCovarInv, condCovar, h2]
  · intro R' hR
    simp only [predCovarRoot, condCovar, DMat.toMatrix_sub, DMat.toMatrix_mul, DMat.toMatrix_transpose]
    rw [predCovarRoot_eq _ _ _ _ hR, h2]

/-- The same for a model conditioned from scratch (so that "closed form" above is what a fresh `ExactGP` on the
concatenated data computes). -/
theorem scratch_pred_eq_conditional {N : Nat}
    (J : DMat N N α) (y : DMat N 1 α) {sc : FState N α}
    (mt : DMat t 1 α) (Kt : DMat t N α) (Ktt : DMat t t α) (h : init? J y = some sc) :
    (predMean mt Kt sc.mean).toMatrix = condMean mt.toMatrix Kt.toMatrix J.toMatrix y.toMatrix ∧
    (predCovarInv Ktt Kt sc.Kinv).toMatrix = condCovar Ktt.toMatrix Kt.toMatrix J.toMatrix := by
  obtain ⟨g1, g2⟩ := init?_spec h
  exact ⟨by simp [predMean, condMean, g2], by simp [predCovarInv, condCovar, g1]⟩

/-! ## Fantasies of fantasies -/

/-- Folding the update over any chain of fantasy steps (sizes `n → n+f₁ → n+f₁+f₂ → …`) gives the solve of the
fully assembled system: the carried inverse is `J⁻¹` and the carried mean cache is `J⁻¹ y`, for `J, y` assembled
from all the data.  (Induction over the chain; all blocks symmetric.) -/
theorem fantasy_fold_eq_scratch (c : Steps α n) (hsym : c.Symm) {st : FState n α} (h : c.fold? = some st) :
    IsUnit c.assemble.1.toMatrix.det ∧
    st.Kinv.toMatrix = c.assemble.1.toMatrix⁻¹ ∧
    st.mean.toMatrix = c.assemble.1.toMatrix⁻¹ * c.assemble.2.toMatrix :=
  fold?_spec c hsym h

/-- … hence the state reached after any number of fantasy steps is, entry for entry, the state of one
conditioning on all the data. -/
theorem fantasy_fold_eq_scratch_state (c : Steps α n) (hsym : c.Symm) {st sc : FState n α}
    (h : c.fold? = some st) (hs : c.scratch? = some sc) : st = sc := by
  obtain ⟨_, h1, h2⟩ := fold?_spec c hsym h
  obtain ⟨g1, g2⟩ := init?_spec hs
  exact FState.ext_toMatrix (by rw [h1, g1]) (by rw [h2, g2])

/-! ## Root and inverse-root update (`cat_rows`) -/

/-- If `L Lᵀ = A`, the cached inverse root is consistent with it (`L Rᵀ = 1`, i.e. `R = L⁻ᵀ`) and `G` is a root of
the Schur complement `S − (U R)(U R)ᵀ`, the updated factor is a root of the bordered matrix. -/
theorem rootUpdate_is_root
    (A : DMat n n α) (L R : DMat n p α) (U : DMat f n α) (S : DMat f f α) (G : DMat f q α)
    (hL : L.toMatrix * L.toMatrixᵀ = A.toMatrix) (hLR : L.toMatrix * R.toMatrixᵀ = 1)
    (hG : G.toMatrix * G.toMatrixᵀ = S.toMatrix - (U.toMatrix * R.toMatrix) * (U.toMatrix * R.toMatrix)ᵀ) :
    (rootUpdate L R U G).toMatrix * (rootUpdate L R U G).toMatrixᵀ = (border A U S).toMatrix := by
  rw [toMatrix_rootUpdate, toMatrix_border, transpose_submatrix, submatrix_mul_equiv,
    rootBlock_is_root _ _ _ _ _ _ hL hLR hG]

/-- If `R Rᵀ = A⁻¹` and `G Gᵀ` is the Schur complement (`G` square, `Ginv = G⁻¹`), the updated inverse root
satisfies `R' R'ᵀ = J⁻¹`.  (No consistency between `L` and `R` is needed for this one.) -/
theorem invRootUpdate_is_inv_root
    (A : DMat n n α) (R : DMat n p α) (U : DMat f n α) (S : DMat f f α) (G Ginv : DMat f f α)
    (hA : IsUnit A.toMatrix.det) (hR : R.toMatrix * R.toMatrixᵀ = A.toMatrix⁻¹)
    (hG : G.toMatrix * G.toMatrixᵀ = S.toMatrix - (U.toMatrix * R.toMatrix) * (U.toMatrix * R.toMatrix)ᵀ)
    (hGi : G.toMatrix * Ginv.toMatrix = 1) :
    (invRootUpdate R U Ginv).toMatrix * (invRootUpdate R U Ginv).toMatrixᵀ = (border A U S).toMatrix⁻¹ :=
  invRootUpdate_spec A R U S G Ginv hA hR hG hGi

/-- The code obtains the new inverse root as `Z⁻ᵀ` (triangular inverse / pseudo-inverse of the new root `Z`);
for consistent roots that is the blockwise `invRootUpdate`. -/
theorem invRootUpdate_eq_root_inv_transpose
    (L R : DMat n n α) (U : DMat f n α) (G Ginv : DMat f f α)
    (hLR : L.toMatrix * R.toMatrixᵀ = 1) (hGi : G.toMatrix * Ginv.toMatrix = 1) :
    (invRootUpdate R U Ginv).toMatrix = ((rootUpdate L R U G).toMatrix⁻¹)ᵀ :=
  invRootUpdate_eq_inv_transpose L R U G Ginv hLR hGi

/-! ## WISKI caches -/

/-- The updated `interp_inner_prod` / `interp_response_cache` equal the same caches recomputed from the
concatenated interpolation matrix `[W, W_f]`, noise `diag(D, D_f)` and residual `[r; r_f]`. -/
theorem wiski_update_eq_recompute {m : Nat}
    (W : DMat m n α) (Wf : DMat m f α) (Dinv : DMat n n α) (Dfinv : DMat f f α) (r : DMat n 1 α) (rf : DMat f 1 α) :
    (wiskiInnerUpdate (interpInnerProd W Dinv) Wf Dfinv).toMatrix =
        (interpInnerProd (hcat W Wf) (blocks Dinv DMat.zero DMat.zero Dfinv)).toMatrix ∧
    (wiskiResponseUpdate (interpResponse W Dinv r) Wf Dfinv rf).toMatrix =
        (interpResponse (hcat W Wf) (blocks Dinv DMat.zero DMat.zero Dfinv) (vcat r rf)).toMatrix :=
  wiski_update_spec W Wf Dinv Dfinv r rf

/-- `fantasy_mean_cache` (Woodbury form through a root `L Lᵀ = P = W D⁻¹ Wᵀ`) is what the dense conditional
uses: `K c − K L (I + Lᵀ K L)⁻¹ Lᵀ K c = K Wᵀ… ` in the form `(1 + K P)·mc = K c`. -/
theorem wiski_mean_cache_solves {m : Nat}
    (K P : DMat m m α) (L : DMat m p α) (Bi : DMat p p α) (c : DMat m 1 α)
    (hL : L.toMatrix * L.toMatrixᵀ = P.toMatrix)
    (hB : (1 + L.toMatrixᵀ * K.toMatrix * L.toMatrix) * Bi.toMatrix = 1) :
    (1 + K.toMatrix * P.toMatrix) * (wiskiMeanCache K L Bi c).toMatrix = K.toMatrix * c.toMatrix :=
  wiski_mean_spec K P L Bi c hL hB

/-- … and therefore `fantasy_mean_cache` is exactly what the dense conditional of the interpolated kernel
`Wᵀ K W + D` uses: `mc = K W (Wᵀ K W + D)⁻¹ r`, so that `w*ᵀ mc + μ* ` is the closed-form posterior mean.
(`W` is the code's `wmat`, `m×n`.) -/
theorem wiski_mean_cache_eq_conditional {m : Nat}
    (K : DMat m m α) (W : DMat m n α) (D Dinv : DMat n n α) (r : DMat n 1 α) (L : DMat m p α) (Bi : DMat p p α)
    (hD : D.toMatrix * Dinv.toMatrix = 1)
    (hA : IsUnit (W.toMatrixᵀ * K.toMatrix * W.toMatrix + D.toMatrix).det)
    (hL : L.toMatrix * L.toMatrixᵀ = (interpInnerProd W Dinv).toMatrix)
    (hB : (1 + L.toMatrixᵀ * K.toMatrix * L.toMatrix) * Bi.toMatrix = 1) :
    (wiskiMeanCache K L Bi (interpResponse W Dinv r)).toMatrix =
      K.toMatrix * W.toMatrix * ((W.toMatrixᵀ * K.toMatrix * W.toMatrix + D.toMatrix)⁻¹ * r.toMatrix) :=
  wiski_mean_conditional K W D Dinv r L Bi hD hA hL hB

/-! ## Frame: the source object is left as it was -/

/-- The attribute writes that `ExactGP.get_fantasy_model` performs on the **source** model (regenerated from the
Python source on every run): after them every attribute of the source holds the value it held before, and the
deep copy was taken while exactly the detached attributes were `None` (so the copy shares no prediction
strategy, training data or likelihood with the source). -/
theorem fantasy_frame (s : Nat → Frame.Val) :
    (Frame.run Gen.FantasyFrame.getFantasyModelOps (Frame.start s)).self = s ∧
    (Frame.run Gen.FantasyFrame.getFantasyModelOps (Frame.start s)).copied =
      some (fun a => if a ∈ Gen.FantasyFrame.getFantasyModelDetached then none else s a) := by
  constructor
  · funext a
    simp [Frame.run, Frame.Op.run, Frame.upd, Frame.start, Gen.FantasyFrame.getFantasyModelOps] <;> grind
  · simp only [Frame.run, Frame.Op.run, Frame.start, Gen.FantasyFrame.getFantasyModelOps,
      Gen.FantasyFrame.getFantasyModelDetached, List.foldl_cons, List.foldl_nil, Option.some.injEq]
    funext a
    simp [Frame.upd] <;> grind

/-- The same for `FixedNoiseGaussianLikelihood.get_fantasy_likelihood` (detaches `noise_covar`). -/
theorem fantasy_likelihood_frame (s : Nat → Frame.Val) :
    (Frame.run Gen.FantasyFrame.fixedNoiseFantasyLikelihoodOps (Frame.start s)).self = s ∧
    (Frame.run Gen.FantasyFrame.fixedNoiseFantasyLikelihoodOps (Frame.start s)).copied =
      some (fun a => if a ∈ Gen.FantasyFrame.fixedNoiseFantasyLikelihoodDetached then none else s a) := by
  constructor
  · funext a
    simp [Frame.run, Frame.Op.run, Frame.upd, Frame.start, Gen.FantasyFrame.fixedNoiseFantasyLikelihoodOps] <;> grind
  · simp only [Frame.run, Frame.Op.run, Frame.start, Gen.FantasyFrame.fixedNoiseFantasyLikelihoodOps,
      Gen.FantasyFrame.fixedNoiseFantasyLikelihoodDetached, List.foldl_cons, List.foldl_nil, Option.some.injEq]
    funext a
    simp [Frame.upd] <;> grind

/-- The same for `DirichletClassificationLikelihood.get_fantasy_likelihood` (its own override; detaches `noise_covar`). -/
theorem fantasy_dirichlet_likelihood_frame (s : Nat → Frame.Val) :
    (Frame.run Gen.FantasyFrame.dirichletFantasyLikelihoodOps (Frame.start s)).self = s ∧
    (Frame.run Gen.FantasyFrame.dirichletFantasyLikelihoodOps (Frame.start s)).copied =
      some (fun a => if a ∈ Gen.FantasyFrame.dirichletFantasyLikelihoodDetached then none else s a) := by
  constructor
  · funext a
    simp [Frame.run, Frame.Op.run, Frame.upd, Frame.start, Gen.FantasyFrame.dirichletFantasyLikelihoodOps] <;> grind
  · simp only [Frame.run, Frame.Op.run, Frame.start, Gen.FantasyFrame.dirichletFantasyLikelihoodOps,
      Gen.FantasyFrame.dirichletFantasyLikelihoodDetached, List.foldl_cons, List.foldl_nil, Option.some.injEq]
    funext a
    simp [Frame.upd] <;> grind

/-- … and on the path where `deepcopy(self)` raises the Dirichlet override restores `noise_covar` as well (it did not
before /repo 47c307a: the restore stood outside a `finally`). -/
theorem fantasy_dirichlet_likelihood_frame_exc (s : Nat → Frame.Val) :
    (Frame.runExc Gen.FantasyFrame.dirichletFantasyLikelihoodOps (Frame.start s)).2.self = s ∧
    (Frame.runExc Gen.FantasyFrame.dirichletFantasyLikelihoodOps (Frame.start s)).1 = Frame.Mode.raised := by
  constructor
  · funext a
    simp [Frame.runExc, Frame.stepExc, Frame.Op.run, Frame.upd, Frame.start,
      Gen.FantasyFrame.dirichletFantasyLikelihoodOps] <;> grind
  · simp [Frame.runExc, Frame.stepExc, Frame.Op.run, Frame.start, Gen.FantasyFrame.dirichletFantasyLikelihoodOps]

/-- Exceptional path (`deepcopy(self)` raises, as it does for a model holding non-leaf tensors, e.g. a KISS-GP model
after an eval-mode prediction): the source object still ends with every attribute restored, and the exception
propagates.  True only because the restores sit in a `finally` block. -/
theorem fantasy_frame_exc (s : Nat → Frame.Val) :
    (Frame.runExc Gen.FantasyFrame.getFantasyModelOps (Frame.start s)).2.self = s ∧
    (Frame.runExc Gen.FantasyFrame.getFantasyModelOps (Frame.start s)).1 = Frame.Mode.raised := by
  constructor
  · funext a
    simp [Frame.runExc, Frame.stepExc, Frame.Op.run, Frame.upd, Frame.start,
      Gen.FantasyFrame.getFantasyModelOps] <;> grind
  · simp [Frame.runExc, Frame.stepExc, Frame.Op.run, Frame.start, Gen.FantasyFrame.getFantasyModelOps]

theorem fantasy_likelihood_frame_exc (s : Nat → Frame.Val) :
    (Frame.runExc Gen.FantasyFrame.fixedNoiseFantasyLikelihoodOps (Frame.start s)).2.self = s ∧
    (Frame.runExc Gen.FantasyFrame.fixedNoiseFantasyLikelihoodOps (Frame.start s)).1 = Frame.Mode.raised := by
  constructor
  · funext a
    simp [Frame.runExc, Frame.stepExc, Frame.Op.run, Frame.upd, Frame.start,
      Gen.FantasyFrame.fixedNoiseFantasyLikelihoodOps] <;> grind
  · simp [Frame.runExc, Frame.stepExc, Frame.Op.run, Frame.start, Gen.FantasyFrame.fixedNoiseFantasyLikelihoodOps]

/-! ## The algebra regenerated from the Python source (`Gen/FantasyAlgebra.lean`) is the hand-written model

so that every theorem above applies to what `get_fantasy_strategy` & co. literally compute. -/

section generated
open Gen.FantasyAlgebra

/-- `DefaultPredictionStrategy.get_fantasy_strategy`: the value written to `mean_cache`, `schur_complement` and
`fant_solve`, translated statement by statement from the AST, are the model's `step?` (mean component), `schur`,
`fantSolve` with `r_f = targets − fant_mean`; the cache is written on the *new* strategy; `S` is the fantasy block
passed through the fantasy likelihood with the call-time kwargs. -/
theorem gen_fant_step_eq_model (st : FState n α) (U : DMat f n α) (S : DMat f f α) (targets fantMean : DMat f 1 α) :
    defaultMeanCache? st.Kinv st.mean U S targets fantMean =
        (step? st U S (targets.sub fantMean)).map (fun s => s.mean) ∧
    defaultSchur st.Kinv st.mean U S targets fantMean = schur S U (fantSolve st.Kinv U) ∧
    defaultFantSolve st.Kinv st.mean U S targets fantMean = fantSolve st.Kinv U ∧
    defaultCacheTargets = [("fant_strat", "mean_cache"), ("fant_strat", "covar_cache")] ∧
    defaultObsCovar = [("fant_fant_prior", "full_covar[num_train:, num_train:]"),
      ("mvn", "self.train_prior_dist.__class__(fant_mean, fant_fant_covar)"),
      ("fant_likelihood", "self.likelihood.get_fantasy_likelihood(**kwargs)"),
      ("mvn_obs", "fant_likelihood(mvn, inputs, **kwargs)")] := by
  refine ⟨?_, rfl, rfl, by decide, by decide⟩
  simp only [defaultMeanCache?, step?, fantSolve, schur, cacheLower, cacheUpper]
  cases (S.sub (U.mul (st.Kinv.mul U.transpose))).inv? <;> rfl

/-- `new_root` / `new_covar_cache` / the `covar_cache` entry are `cat_rows` of the strategy's own
`lik_train_train_covar` with `cross_mat = fant_train_covar`, `new_mat = fant_fant_covar` (with fantasy noise), i.e.
the model's `rootUpdate` / `invRootUpdate`; they are what is handed to the new strategy as `root=` / `inv_root=`. -/
theorem gen_root_update_eq_model (L R : DMat n p α) (G : DMat f q α) (Ginv : DMat q f α) (U : DMat f n α)
    (S : DMat f f α) :
    defaultNewRoot L R G Ginv U S = rootUpdate L R U G ∧
    defaultNewInvRoot L R G Ginv U S = invRootUpdate R U Ginv ∧
    defaultCovarCache L R G Ginv U S = invRootUpdate R U Ginv ∧
    defaultCatRowsNew L R G Ginv U S = S ∧
    defaultStrategyKwargs = [("likelihood", "fant_likelihood"), ("root", "new_root"), ("inv_root", "new_covar_cache"),
      ("train_labels", "full_targets"), ("train_inputs", "full_inputs")] :=
  ⟨rfl, rfl, rfl, rfl, by decide⟩

/-- WISKI: the generated cache updates are the model's (`V Vᵀ` with `V = W_f D_f^{-1/2}` is `W_f D_f⁻¹ W_fᵀ` for any
square root `Sᵀ S = D_f⁻¹` delivered by `sqrt_inv_matmul`), and the generated `fantasy_mean_cache` /
`fantasy_covar_cache` are the model's Woodbury forms **with the constant `add_jitter(1.0)` = 1**. -/
theorem gen_wiski_eq_model {m : Nat} (P : DMat m m α) (c : DMat m 1 α) (Wf : DMat m f α) (Dfinv Sq : DMat f f α)
    (targets fantMean : DMat f 1 α) (hS : Sq.toMatrixᵀ * Sq.toMatrix = Dfinv.toMatrix)
    (K : DMat m m α) (L : DMat m p α) :
    (wiskiInnerProd P c Wf Dfinv Sq targets fantMean).toMatrix = (wiskiInnerUpdate P Wf Dfinv).toMatrix ∧
    wiskiResponseCache P c Wf Dfinv Sq targets fantMean = wiskiResponseUpdate c Wf Dfinv (targets.sub fantMean) ∧
    Gen.FantasyAlgebra.wiskiMeanCache? K L c =
      ((DMat.one.add ((L.transpose.mul K).mul L)).inv?).map (fun Bi => Fantasy.wiskiMeanCache K L Bi c) ∧
    Gen.FantasyAlgebra.wiskiCovarInner? K L c =
      ((DMat.one.add ((L.transpose.mul K).mul L)).inv?).map (fun Bi => Fantasy.wiskiCovarInner K L Bi) ∧
    wiskiCacheTargets = [("fant_strat", "interp_inner_prod"), ("fant_strat", "interp_response_cache")] ∧
    wiskiFantLikelihood = "self.likelihood.get_fantasy_likelihood(**kwargs)" := by
  refine ⟨?_, rfl, ?_, ?_, by decide, by decide⟩
  · simp only [wiskiInnerProd, wiskiInnerUpdate, DMat.toMatrix_add, DMat.toMatrix_mul, DMat.toMatrix_transpose,
      transpose_mul, transpose_transpose]
    rw [← hS]; simp only [Matrix.mul_assoc]
  · have hq : ((L.transpose.mul (K.mul L)).add (DMat.smul (1 : α) DMat.one)) =
        (DMat.one.add ((L.transpose.mul K).mul L)) := by
      apply DMat.toMatrix_injective; simp [Matrix.mul_assoc, add_comm]
    simp only [Gen.FantasyAlgebra.wiskiMeanCache?, hq]
    cases (DMat.one.add ((L.transpose.mul K).mul L)).inv? <;> rfl
  · have hq : ((L.transpose.mul (K.mul L)).add (DMat.smul (1 : α) DMat.one)) =
        (DMat.one.add ((L.transpose.mul K).mul L)) := by
      apply DMat.toMatrix_injective; simp [Matrix.mul_assoc, add_comm]
    simp only [Gen.FantasyAlgebra.wiskiCovarInner?, hq]
    cases (DMat.one.add ((L.transpose.mul K).mul L)).inv? <;> rfl

/-- `FixedNoiseGaussianLikelihood.get_fantasy_likelihood` concatenates `[old noise; new noise]`, the same order in
which `ExactGP.get_fantasy_model` concatenates `[train; fantasy]` targets and inputs. -/
theorem gen_fixed_noise_concat_order (oldNoise : DMat n 1 α) (newNoise : DMat f 1 α) (tr : DMat n 1 α)
    (ft : DMat f 1 α) :
    Gen.FantasyAlgebra.fixedNoiseConcat oldNoise newNoise = Fantasy.fixedNoiseConcat oldNoise newNoise ∧
    Gen.FantasyAlgebra.fullTargets tr ft = Fantasy.fullTargets tr ft ∧
    fullInputsOrder = ["trainInputs", "inputs"] :=
  ⟨rfl, rfl, by decide⟩

/-- `IndependentModelList.get_fantasy_model`: member `i` is called with `(inputs[i], targets[i])` and the common
keyword arguments plus **its own** `noise[i]` (none when that entry is `None`). -/
theorem gen_model_list_routes (common : Route.Kw) (noise : Option (List (Option Nat))) (k : Nat)
    (inputs targets : List Nat) (kws : List Route.Kw) :
    modelListKwargs common noise k = Route.memberKwargs common noise k ∧
    modelListCalls inputs targets kws = Route.memberCalls inputs targets kws := by
  refine ⟨?_, rfl⟩
  cases noise with
  | none => rfl
  | some ns =>
    simp only [modelListKwargs, Route.memberKwargs]
    apply List.map_congr_left
    intro nz _
    cases nz <;> rfl

end generated

/-! ## Non-vacuity: concrete rational instances of the hypotheses (evaluated by the kernel) -/

section examples

private def exA : DMat 2 2 ℚ := DMat.ofRaw #[#[2, 1], #[1, 3]]
private def exr : DMat 2 1 ℚ := DMat.ofRaw #[#[1], #[-1]]
private def exU : DMat 1 2 ℚ := DMat.ofRaw #[#[1/2, 1/3]]
private def exS : DMat 1 1 ℚ := DMat.ofRaw #[#[5/2]]
private def exrf : DMat 1 1 ℚ := DMat.ofRaw #[#[2]]
private def exU2 : DMat 2 3 ℚ := DMat.ofRaw #[#[1/4, 1/5, 1/6], #[0, 1/7, 1/8]]
private def exS2 : DMat 2 2 ℚ := DMat.ofRaw #[#[3, 1/2], #[1/2, 2]]
private def exrf2 : DMat 2 1 ℚ := DMat.ofRaw #[#[1/3], #[-2]]
private def exChain : Steps ℚ (2 + 1 + 2) := .step (.step (.base exA exr) exU exS exrf) exU2 exS2 exrf2

/-- `init?` and `step?` succeed on a symmetric positive definite instance (hypotheses of
`bordered_solve_correct`, `fantasy_mean_cache_eq_scratch`, `fantasy_step_eq_scratch`, `fantasy_pred_eq_scratch`). -/
example : ((init? exA exr).bind fun st => step? st exU exS exrf).isSome = true := by decide +kernel
example : (init? (border exA exU exS) (vcat exr exrf)).isSome = true := by decide +kernel
example : exA.toMatrixᵀ = exA.toMatrix := by decide +kernel
/-- … and the two routes agree on it, as the theorem says. -/
example : ((init? exA exr).bind fun st => step? st exU exS exrf).map (fun s => (s.Kinv.arr, s.mean.arr)) =
    (init? (border exA exU exS) (vcat exr exrf)).map (fun s => (s.Kinv.arr, s.mean.arr)) := by decide +kernel

/-- A two-step chain (sizes 2 → 3 → 5) on which `fold?` and `scratch?` succeed (hypotheses of
`fantasy_fold_eq_scratch`), with symmetric blocks. -/
example : exChain.fold?.isSome = true ∧ exChain.scratch?.isSome = true := by decide +kernel
example : exChain.Symm := by
  show (exA.toMatrixᵀ = exA.toMatrix ∧ exS.toMatrixᵀ = exS.toMatrix) ∧ exS2.toMatrixᵀ = exS2.toMatrix
  decide +kernel

/-- Root update: `L = [[1,0],[1,1]]`, `A = L Lᵀ`, `R = L⁻ᵀ`, `U = [1 1]`, `S = 5`, `G = 2`. -/
private def exL : DMat 2 2 ℚ := DMat.ofRaw #[#[1, 0], #[1, 1]]
private def exLA : DMat 2 2 ℚ := DMat.ofRaw #[#[1, 1], #[1, 2]]
private def exR : DMat 2 2 ℚ := DMat.ofRaw #[#[1, -1], #[0, 1]]
private def exU1 : DMat 1 2 ℚ := DMat.ofRaw #[#[1, 1]]
private def exS5 : DMat 1 1 ℚ := DMat.ofRaw #[#[5]]
private def exG : DMat 1 1 ℚ := DMat.ofRaw #[#[2]]
private def exGi : DMat 1 1 ℚ := DMat.ofRaw #[#[1/2]]

example : exL.toMatrix * exL.toMatrixᵀ = exLA.toMatrix ∧ exL.toMatrix * exR.toMatrixᵀ = 1 ∧
    exG.toMatrix * exG.toMatrixᵀ =
      exS5.toMatrix - (exU1.toMatrix * exR.toMatrix) * (exU1.toMatrix * exR.toMatrix)ᵀ ∧
    exG.toMatrix * exGi.toMatrix = 1 := by decide +kernel

/-- The consistency hypothesis `L Rᵀ = 1` of `rootUpdate_is_root` cannot be dropped: with `L = 1`, `R = −1`
(`L Lᵀ = A = 1`, `R Rᵀ = A⁻¹ = 1`) the updated factor is **not** a root of the bordered matrix. -/
example :
    let L : DMat 1 1 ℚ := DMat.ofRaw #[#[1]]
    let R : DMat 1 1 ℚ := DMat.ofRaw #[#[-1]]
    let U : DMat 1 1 ℚ := DMat.ofRaw #[#[1]]
    let S : DMat 1 1 ℚ := DMat.ofRaw #[#[5]]
    let G : DMat 1 1 ℚ := DMat.ofRaw #[#[2]]
    L.toMatrix * L.toMatrixᵀ = 1 ∧ R.toMatrix * R.toMatrixᵀ = 1 ∧
    G.toMatrix * G.toMatrixᵀ = S.toMatrix - (U.toMatrix * R.toMatrix) * (U.toMatrix * R.toMatrix)ᵀ ∧
    (rootUpdate L R U G).toMatrix * (rootUpdate L R U G).toMatrixᵀ ≠ (border L U S).toMatrix := by
  decide +kernel

end examples

end C04

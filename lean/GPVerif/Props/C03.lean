/-
C03 — evaluation-mode outputs are history independent (no stale prediction caches).

Model: `CacheSM` (GPVerif/Model/CacheSM.lean), the state machine the driver executes.  The transition function
takes the invalidation table as a parameter; `Gen.CacheTable.table` is regenerated from the Python source by
translator G2 on every run, and the table facts below (`by decide`) are re-checked against it: deleting an
invalidation in the source (`self.prediction_strategy = None` in `set_train_data`, the `_clear_cache()` call
in `Module.train` / `_load_from_state_dict` / `_VariationalStrategy.__call__`, a `del self._cached_*`) turns
the corresponding fact into `false` and this file no longer builds.

Scope of the operations (what the property excludes is excluded *in the model*, visibly):
  * `Op.step` changes the parameters only in training mode (in eval mode it is the identity: a direct
    parameter edit in eval mode is outside the documented invalidation points);
  * `Op.backward` acts only in eval mode; `Op.setTrainData` only on exact GPs;
  * the settings alphabet of a call is `Cell` (exact-path settings).
-/
import GPVerif.Bridge.CacheSM
import GPVerif.Gen.CacheTable

set_option linter.unusedSectionVars false
set_option linter.unusedSimpArgs false

namespace C03
open CacheSM
open Gen.CacheTable (table)

/-! ### Facts about the generated invalidation table (finite, kernel-evaluated) -/

/-- the translator and the model number slots and classes identically -/
theorem names_agree :
    Gen.CacheTable.slotNames = CacheSM.slotNames ∧ Gen.CacheTable.classNames = CacheSM.classNames ∧
    Gen.CacheTable.settingNames = CacheSM.settingNames := by decide

/-- `Module.train(False)` on a module in training mode reaches `_clear_cache()` -/
theorem train_clears_when_leaving_training : table.trainClears true false = true := by decide

/-- … and so does every `train(True)` -/
theorem train_clears_when_entering_training : ∀ tr, table.trainClears tr true = true := by decide

/-- `Module._load_from_state_dict` reaches `_clear_cache()` -/
theorem load_state_dict_clears : table.loadClears = true := by decide

/-- `ExactGP.set_train_data` reaches `self.prediction_strategy = None` whichever arguments it is given
(inputs and targets, targets only, inputs only) -/
theorem set_train_data_drops_strategy :
    ∀ a ∈ DataArgs.all, Effect.dropStrategy ∈ table.setTrainData a.inputs a.targets := by decide

/-- the re-whitening of parameters loaded from an old-format state dict (`VariationalStrategy.__call__`) ends with
`clear_cache_hook(self)` -/
theorem legacy_conversion_clears : table.legacyConversionClears = true := by decide

/-- `_VariationalStrategy.__call__` reaches `_clear_cache()` in training mode (and only for non-prior calls) -/
theorem variational_call_clears_in_training :
    table.varCallClears true false = true ∧ table.varCallClears true true = false := by decide

/-- the `_clear_cache` bodies of the modules of each model kind delete every slot that kind can hold
(`prediction_strategy` and with it the strategy's memo table, the variational memo table, `_cached_kernel_mat`,
`_cached_kernel_inv_root`) -/
theorem clear_cache_complete :
    ∀ k ∈ Kind.all, ∀ sl ∈ slotsOf k, (allClearEffects table k).any (·.cleared sl) = true := by decide

/-- kernels store and read `_cached_*` only under `not self.training` -/
theorem kernel_caches_eval_only : ∀ k ∈ Kind.all, attrsActive table k true = [] := by decide

/-- the strategy object is rebuilt when `lazily_evaluate_kernels` differs from the setting it was built under -/
theorem strategy_keyed_on_lazy : table.strategyGuardedByIsNone = true ∧ table.strategyKeyedOnLazy = true := by decide

/-- `get_fantasy_model` puts back, in a `finally:`, every attribute it sets to `None` around the copy -/
theorem fantasy_restores_in_finally :
    table.fantasyRestoreInFinally = true ∧ table.fantasyNulled.all (table.fantasyRestored.contains ·) = true := by decide

/-- `clear_cache_hook` is registered on the grad_fn of `mean_cache` / `covar_cache` of the default strategy, on
`mean_cache` of the SGPR strategy, on nothing of the interpolated strategy; it empties the whole memo table -/
theorem hooks_registered :
    table.hookedSlot cDefault sMean = true ∧ table.hookedSlot cDefault sCovar = true ∧
    table.hookedSlot cSGPR sMean = true ∧ table.hookedSlot cSGPR sCovar = false ∧
    table.hookedSlot cInterp sMean = false ∧ table.hookedSlot cInterp sCovar = false ∧
    table.hookClearsWholeMemo = true := by decide

/-- memo keys honour the call arguments (`mean_cache[nan policy]`), except `cholesky_factor`, whose argument is a
function of the parameters alone; and they honour the *settings* the memoised value depends on:
  * the only setting that selects between two representations of a memo value is `fast_pred_samples`, for
    `covar_cache` / `fantasy_covar_cache` of the interpolated strategy (the `(inside_root, None)` / `(None, root)` pair),
  * every read of such an entry, under every settings cell, re-validates it (pops and recomputes the entry when it
    holds the other representation),
  * any other setting a memoised body tests is `detach_test_caches` (graph only), `fast_pred_var` (which solver
    produces the same matrix; number of probe vectors), or `observation_nan_policy` in a `mean_cache` body whose memo
    key contains its arguments (the policy is the argument: one entry per policy). -/
theorem memo_keys_honour_arguments :
    table.memoKeyHonoursArgs = true ∧
    (∀ c ∈ table.classes, ∀ d ∈ c.cached, d.ignoreArgs = true → d.slot = sChol) ∧
    (∀ c ∈ table.classes, ∀ d ∈ c.cached,
        d.variantOn = (if c.id == cInterp && (d.slot == sCovar || d.slot == sFantCovar) then some gFastPredSamples else none)) ∧
    (∀ cls ∈ strategyClasses, ∀ w, ∀ c ∈ Cell.all, ∀ op ∈ table.access cls w c, op.unrevalidated = false) ∧
    (∀ c ∈ table.classes, ∀ d ∈ c.cached, ∀ g ∈ d.bodySettings,
        g = gDetach ∨ g = gFastPredVar ∨ d.variantOn = some g ∨
        (g = gNanPolicy ∧ d.slot = sMean ∧ d.ignoreArgs = false)) := by decide +kernel

/-- the default strategy reads `covar_cache` exactly under `fast_pred_var` without `skip_posterior_variances`
(with `observation_nan_policy` at its default) -/
theorem covar_cache_read_guard : ∀ fpv skip, table.defaultReadsCovarCache fpv skip false = (fpv && !skip) := by decide

/-- (finite form of the next theorem: all cells, all strategy classes) -/
theorem covar_cache_invisible_cells :
    ∀ c ∈ Cell.all, c.fpv = false → ∀ cls ∈ [cDefault, cInterp], sCovar ∉ memoReads table cls c := by
  decide +kernel

/-- A cache filled under accuracy-degrading settings stays invisible to the calls that must not see it: with the
default / interpolated strategy a call without `fast_pred_var` does not read `covar_cache` (so a truncated root
left there by an earlier `degradedRoot` call cannot reach a plain prediction). -/
theorem covar_cache_invisible_without_fast_pred_var (c : Cell) (cls : Nat) (hc : c.fpv = false)
    (hs : cls = cDefault ∨ cls = cInterp) : sCovar ∉ memoReads table cls c :=
  covar_cache_invisible_cells c (Cell.mem_all c) hc cls (by rcases hs with h | h <;> simp [h])

/-- non-vacuity: a KISS-GP prediction under `fast_pred_samples` alone reads the `(inside_root, None)` representation,
not slot 2; the default strategy under `fast_pred_samples` alone reads no covariance cache at all -/
example : sCovar ∉ memoReads table cInterp .fastPredSamples :=
  covar_cache_invisible_without_fast_pred_var _ _ rfl (Or.inr rfl)
example : memoReads table cInterp .fastPredSamples = [sMean, sCovarS] ∧ memoReads table cDefault .fastPredSamples = [sMean] ∧
    memoReads table cInterp .fastPredBoth = [sMean, sCovarS] ∧ memoReads table cInterp .fastPredVar = [sMean, sCovar] := by decide

/-- **What a prediction reads / creates / pops is derived from the source.**  The access function generated from the
call graph of the four prediction strategies (`exact_prediction → exact_predictive_mean / exact_predictive_covar →
@cached names / pop_from_cache / super()`, with the settings guards on the way) equals the specification `accessModel`
for every strategy class, for plain and WISKI (fantasy) strategies, default and non-default `observation_nan_policy`,
and all 2048 settings cells (8 Boolean settings, the `degraded` marker, the three values of `observation_nan_policy`). -/
theorem readCreate_generated_eq_model :
    ∀ cls ∈ strategyClasses, ∀ w, ∀ c ∈ Cell.all, table.access cls w c = accessModel cls w c := by
  decide +kernel

/-- … stated for an arbitrary settings cell -/
theorem readCreate_generated_eq_model_cell (cls : Nat) (hcls : cls ∈ strategyClasses) (w : Bool) (c : Cell) :
    table.access cls w c = accessModel cls w c :=
  readCreate_generated_eq_model cls hcls w c (Cell.mem_all c)

/-- what `get_fantasy_strategy` reads from the source strategy and which memo entries the new strategy is born with,
derived from the source, equal the specification -/
theorem fantasy_readCreate_generated_eq_model :
    (∀ cls ∈ strategyClasses, ∀ c ∈ Cell.all, table.fantasyAccess cls c = fantasyAccessModel cls c) ∧
    (∀ cls ∈ strategyClasses, table.fantasyBorn cls = fantasyBornModel cls) := by decide +kernel

/-- only the two WISKI caches are computed from other memo entries (so that for every other name "read" = "return
the entry, or compute it from the parameters and data and store it") -/
theorem cached_bodies_read_no_memo :
    ∀ c ∈ table.classes, ∀ d ∈ c.cached, d.deps ≠ [] → d.slot = sFantMean ∨ d.slot = sFantCovar := by decide

/-- **No ad-hoc instance caches.**  The prediction strategies and the variational strategies keep no state outside
`_memoize_cache` that could outlive an invalidation point: no attribute assigned outside `__init__` is guarded by a
test of itself (compute-if-absent), and the only one read on a path where it was not written in the same call is
`_last_test_train_covar` (the operator handed to the `covar_cache` body, written by the same call that reads the cache). -/
theorem no_adhoc_instance_caches :
    ∀ a ∈ table.instAttrs, a.selfGuarded = false ∧ (a.readBeforeWrite = true → a.known = 1) := by decide

/-- the `mean_cache` entry of the default / RFF / SGPR strategy is keyed on `observation_nan_policy` (one entry per
policy), the interpolated strategy's is not -/
example : memoReads table cDefault .nanPolicyMask = [sMeanMask] ∧ memoReads table cSGPR .nanPolicyFill = [sMeanFill, sCovar] ∧
    memoReads table cInterp .nanPolicyMask = [sMean] ∧
    memoReads table cDefault { fpv := true, nanMask := true } = [sMeanMask] := by decide

/-- the constructors that turn a tensor argument into a parameter (`inducing_points` of the variational strategies
and of `InducingPointKernel`) register a copy: two models built from the same tensor share no parameter storage -/
theorem constructors_copy_parameters : cVarBase ∈ table.ctorClones ∧ cIPK ∈ table.ctorClones := by decide

/-- all facts the invariant needs hold of the table generated from the current source -/
theorem tableOK_generated : TableOK table := by decide +kernel

/-! ### The invariant -/

/-- a freshly constructed model satisfies the invariant -/
theorem inv_init (k : Kind) (pv dv : Nat) : Inv (fresh k pv dv) :=
  ⟨rfl, fun _ _ h => by simp [fresh] at h, fun h => by simp [fresh] at h, fun h => by simp [fresh] at h⟩

/-- … in either mode -/
theorem inv_rebuilt (s : State) : Inv s.rebuilt :=
  ⟨rfl, fun _ _ h => by simp [State.rebuilt, fresh] at h,
   fun _ _ _ h => by simp [State.rebuilt, fresh] at h, fun _ h => by simp [State.rebuilt, fresh] at h⟩

section steps
variable {T : Table} (hT : TableOK T) {s : State} (hI : Inv s)
include hT hI

/-- `train()` / `eval()` -/
theorem inv_setMode (mode : Bool) : Inv (setMode T s mode) := by
  unfold setMode
  refine ⟨hI.data, ?_, ?_, ?_⟩
  · simp only
    split
    · exact hI.supp.clearBy _
    · exact hI.supp
  · intro hm
    simp only at hm ⊢
    subst hm
    cases htr : s.training with
    | true =>
      rw [hT.train_to_eval]
      simp only [if_true]
      exact FreshS.of_none (clearBy_all_none hI.supp _ (hT.complete _ (Kind.mem_all _)))
    | false =>
      split
      · exact (hI.fresh htr).clearBy _
      · exact hI.fresh htr
  · intro hm hs
    simp only at hm hs ⊢
    subst hm
    cases htr : s.training with
    | true =>
      rw [htr, hT.train_to_eval] at hs
      simp only [if_true] at hs
      rw [clearBy_all_none hI.supp _ (hT.complete _ (Kind.mem_all _))] at hs
      simp at hs
    | false =>
      apply hI.cls htr
      split at hs
      · cases hq : clearBy (allClearEffects T s.kind) s.store sStrat with
        | none => rw [hq] at hs; simp at hs
        | some e => simp [(clearBy_some hq).1]
      · exact hs

/-- clearing statements preserve the invariant -/
theorem inv_clearBy (effs : List Effect) : Inv { s with store := clearBy effs s.store } := by
  refine ⟨hI.data, hI.supp.clearBy _, fun h => (hI.fresh h).clearBy _, ?_⟩
  intro h hs
  apply hI.cls h
  cases hq : clearBy effs s.store sStrat with
  | none => simp only at hs; rw [hq] at hs; simp at hs
  | some e => simp [(clearBy_some hq).1]

/-- **inv_step** — every operation preserves the invariant, given the table facts. -/
theorem inv_step (op : Op) : Inv (step T s op).next := by
  cases op with
  | predict c => exact call_inv hT hI c false
  | priorPredict => exact call_inv hT hI .default true
  | train => exact inv_setMode hT hI true
  | eval => exact inv_setMode hT hI false
  | step =>
    simp only [step]
    split
    · rename_i hc
      have htr : s.training = true := by
        cases h : s.training <;> simp [h] at hc ⊢
      have h1 := call_inv hT hI .default false
      obtain ⟨_, ft, _⟩ := call_fields hT hI .default false
      refine ⟨h1.data, h1.supp, ?_, ?_⟩
      · intro h; simp only at h; rw [ft, htr] at h; simp at h
      · intro h; simp only at h; rw [ft, htr] at h; simp at h
    · exact hI
  | setTrainData a =>
    simp only [step]
    split
    · rename_i hk
      have hstd := hT.set_train_data s.kind (Kind.mem_all _) hk a (by cases a <;> simp [DataArgs.all])
      refine ⟨rfl, hI.supp.clearBy _, ?_, ?_⟩
      · intro htr sl e he
        simp only at htr he ⊢
        obtain ⟨h1, h2⟩ := clearBy_some he
        refine ⟨(hI.fresh htr sl e h1).1, fun hd => ?_⟩
        rw [hstd sl (hI.supp sl e h1) hd] at h2
        simp at h2
      · intro htr hs
        simp only at htr hs
        exfalso
        cases hq : clearBy (T.setTrainData a.inputs a.targets) s.store sStrat with
        | none => rw [hq] at hs; simp at hs
        | some e =>
          obtain ⟨h1, h2⟩ := clearBy_some hq
          rw [hstd sStrat (hI.supp sStrat e h1) (by decide)] at h2
          simp at h2
    · exact hI
  | loadStateDict old =>
    simp only [step, hT.load, if_true]
    have hn := clearBy_all_none hI.supp _ (hT.complete s.kind (Kind.mem_all _))
    refine ⟨hI.data, hI.supp.clearBy _, fun _ => FreshS.of_none hn, ?_⟩
    intro _ hs
    simp only at hs
    rw [hn] at hs
    simp at hs
  | fantasy o =>
    cases o with
    | ok =>
      simp only [step]
      split
      · rename_i hacc
        -- the slots read while building the fantasy model belong to the kind and none is slot 0
        have hreads : ∀ sl ∈ fantasyReads T s ++ (if s.kind.isExact then attrsActive T s.kind s.training else []),
            sl ∈ slotsOf s.kind ∧ (sl == sStrat) = false := by
          intro sl hsl
          rw [List.mem_append] at hsl
          rcases hsl with h | h
          · exact fantasyReads_in_slots hT s sl h
          · cases hk : s.kind.isExact with
            | false => simp [hk] at h
            | true =>
              simp only [hk, if_true] at h
              cases htr : s.training with
              | true => rw [htr, hT.attrs_eval_only s.kind (Kind.mem_all _)] at h; simp at h
              | false => rw [htr] at h; exact hT.attrs_in_slots s.kind (Kind.mem_all _) sl h
        refine ⟨hI.data, hI.supp.touchAll _ _ (fun sl h => (hreads sl h).1), ?_, ?_⟩
        · intro htr
          exact (hI.fresh htr).touchAll _ _ (fun _ => newEntry_versions s false)
        · intro htr hs
          apply hI.cls htr
          simp only at hs
          cases hq : touchAll s.store (fun _ => newEntry s false)
              (fantasyReads T s ++ (if s.kind.isExact then attrsActive T s.kind s.training else [])) sStrat with
          | none => rw [hq] at hs; simp at hs
          | some e =>
            rcases touchAll_cases _ _ _ _ _ hq with h1 | ⟨_, hm, _⟩
            · simp [h1]
            · have := (hreads sStrat hm).2
              simp at this
      · exact hI
    | rejectedEarly => exact hI
    | rejectedLate => exact hI
    | raisedInCopy =>
      simp only [step, hT.fantasy_finally, hT.fantasy_all, Bool.and_self, if_true]
      exact hI
  | backward =>
    simp only [step]
    split
    · exact hI
    · have h1 := call_inv hT hI .noDetach false
      split
      · exact inv_clearBy hT h1 _
      · exact h1

/-- The answer of a `predict` / prior-mode call is the closed form of the current versions; other operations
return nothing. -/
theorem answer_step (op : Op) (a : Answer) (h : (step T s op).answer = some a) :
    ∃ c prior, a = specAnswer T s.kind s.training (callPv s prior) s.dv c prior := by
  cases op with
  | predict c =>
    refine ⟨c, false, ?_⟩
    simp only [step, Option.some.injEq] at h
    rw [← h, call_answer hT hI]
  | priorPredict =>
    refine ⟨.default, true, ?_⟩
    simp only [step, Option.some.injEq] at h
    rw [← h, call_answer hT hI]
  | train => simp [step] at h
  | eval => simp [step] at h
  | step => simp only [step] at h; split at h <;> simp at h
  | setTrainData a => simp only [step] at h; split at h <;> simp at h
  | loadStateDict old => simp [step] at h
  | fantasy o =>
    cases o <;> simp only [step] at h
    · split at h <;> simp at h
    · simp at h
    · split at h <;> simp at h
    · simp at h
  | backward => simp only [step] at h; split at h <;> simp at h

/-- the model handed out by `get_fantasy_model` satisfies the invariant as well -/
theorem inv_fantasy_model (op : Op) (f : State) (h : (step T s op).fantasy = some f) : Inv f := by
  cases op with
  | fantasy o =>
    cases o with
    | ok =>
      simp only [step] at h
      split at h
      · rename_i hacc
        simp only [Option.some.injEq] at h
        subst h
        refine ⟨rfl, ?_, ?_, ?_⟩
        · intro sl e he
          exact fantasyBorn_in_slots s.kind (Kind.mem_all _) s.stratDefault (Cell.mem_bools _) sl
            (fantasyModel_store s sl e he).1
        · intro _ sl e he
          have := (fantasyModel_store s sl e he).2
          subst this
          exact ⟨rfl, fun _ => rfl⟩
        · intro htr _
          simp only [fantasyModel] at htr ⊢
          cases hk : s.kind.isExact with
          | false => simp [hk]
          | true =>
            simp only [hk, if_true] at htr ⊢
            -- accepted in eval mode with a live strategy: the source's class invariant carries over
            unfold fantasyAccepts at hacc
            simp only [hk, if_true, hT.fantasy_needs, Bool.not_true, Bool.or_false, Bool.and_eq_true] at hacc
            exact hI.cls htr hacc.1.2
      · simp at h
    | rejectedEarly => simp [step] at h
    | rejectedLate => simp [step] at h
    | raisedInCopy => simp only [step] at h; split at h <;> simp at h
  | predict c => simp [step] at h
  | priorPredict => simp [step] at h
  | train => simp [step] at h
  | eval => simp [step] at h
  | step => simp only [step] at h; split at h <;> simp at h
  | setTrainData a => simp only [step] at h; split at h <;> simp at h
  | loadStateDict old => simp [step] at h
  | backward => simp only [step] at h; split at h <;> simp at h

/-- the invariant along a whole history -/
theorem inv_run (ops : List Op) : Inv (run T s ops).1 := by
  induction ops generalizing s with
  | nil => exact hI
  | cons op ops ih => exact ih (inv_step hT hI op)

/-- every answer given during a history was computed from the parameters and data current at that call -/
theorem answers_current (ops : List Op) : ∀ a ∈ (run T s ops).2, a.current = true := by
  induction ops generalizing s with
  | nil => intro a h; simp [run] at h
  | cons op ops ih =>
    intro a h
    simp only [run, List.mem_append] at h
    rcases h with h | h
    · cases hq : (step T s op).answer with
      | none => simp [hq] at h
      | some a' =>
        simp only [hq, List.mem_singleton] at h
        subst h
        obtain ⟨c, prior, rfl⟩ := answer_step hT hI op a hq
        exact specAnswer_current _ _ _ _ _ _ _
    · exact ih (inv_step hT hI op) a h

end steps

/-! ### The property -/

/-- **history_independent.**  Whatever history of operations a model went through, the next call (any settings
cell, posterior or prior mode, eval or training mode) is answered exactly as by a freshly constructed model
holding the same parameters and data in the same mode: same strategy class, same cache entries read, each
computed from the current versions. -/
theorem history_independent (T : Table) (hT : TableOK T) (k : Kind) (ops : List Op) (c : Cell) (prior : Bool) :
    (call T (run T (init k) ops).1 c prior).2 = (call T (run T (init k) ops).1.rebuilt c prior).2 := by
  have hI : Inv (run T (init k) ops).1 := inv_run hT (inv_init k 0 0) ops
  rw [call_answer hT hI, call_answer hT (inv_rebuilt _)]
  rfl

/-- … and every prediction made *during* the history returned the versions current at that moment. -/
theorem history_answers_current (T : Table) (hT : TableOK T) (k : Kind) (ops : List Op) :
    ∀ a ∈ (run T (init k) ops).2, a.current = true :=
  answers_current hT (inv_init k 0 0) ops

/-- the two statements for the table generated from the source, without hypotheses -/
theorem history_independent_generated (k : Kind) (ops : List Op) (c : Cell) (prior : Bool) :
    (call table (run table (init k) ops).1 c prior).2 = (call table (run table (init k) ops).1.rebuilt c prior).2 :=
  history_independent table tableOK_generated k ops c prior

theorem history_answers_current_generated (k : Kind) (ops : List Op) :
    ∀ a ∈ (run table (init k) ops).2, a.current = true :=
  history_answers_current table tableOK_generated k ops

/-! ### Two objects built from the same tensors -/

/-- **two_object_frame.**  In a history over two model objects, what one object answers and the state it ends in are
those of the object alone under its own operations: operations on the sibling are invisible.  (In the model this is
the product construction; for the real objects it rests on `constructors_copy_parameters` and is checked by the
two-object correspondence.) -/
theorem two_object_frame (T : Table) (a b : State) (ops : List (Bool × Op)) :
    (run2 T (a, b) ops).1.2 = (run T b (opsOf true ops)).1 ∧
    ((run2 T (a, b) ops).2.filter (·.1 == true)).map (·.2) = (run T b (opsOf true ops)).2 ∧
    (run2 T (a, b) ops).1.1 = (run T a (opsOf false ops)).1 ∧
    ((run2 T (a, b) ops).2.filter (·.1 == false)).map (·.2) = (run T a (opsOf false ops)).2 := by
  induction ops generalizing a b with
  | nil => simp [run2, run, opsOf]
  | cons x ops ih =>
    obtain ⟨w, op⟩ := x
    cases w with
    | true =>
      obtain ⟨h1, h2, h3, h4⟩ := ih a (step T b op).next
      simp [opsOf] at h1 h2 h3 h4
      cases hq : (step T b op).answer <;> simp [run2, run, opsOf, hq, List.filter_append, h1, h2, h3, h4]
    | false =>
      obtain ⟨h1, h2, h3, h4⟩ := ih (step T a op).next b
      simp [opsOf] at h1 h2 h3 h4
      cases hq : (step T a op).answer <;> simp [run2, run, opsOf, hq, List.filter_append, h1, h2, h3, h4]

/-- … hence the second object's next call, after any interleaving of operations on both objects, is answered as by a
freshly constructed model with the second object's own parameters and data. -/
theorem two_object_history_independent (T : Table) (hT : TableOK T) (ka kb : Kind) (ops : List (Bool × Op))
    (c : Cell) (prior : Bool) :
    (call T (run2 T (init ka, init kb) ops).1.2 c prior).2 =
      (call T (run2 T (init ka, init kb) ops).1.2.rebuilt c prior).2 := by
  rw [(two_object_frame T (init ka) (init kb) ops).1]
  exact history_independent T hT kb (opsOf true ops) c prior

theorem two_object_history_independent_generated (ka kb : Kind) (ops : List (Bool × Op)) (c : Cell) (prior : Bool) :
    (call table (run2 table (init ka, init kb) ops).1.2 c prior).2 =
      (call table (run2 table (init ka, init kb) ops).1.2.rebuilt c prior).2 :=
  two_object_history_independent table tableOK_generated ka kb ops c prior

/-- **fantasy_frame.**  Creating a fantasy model (or failing to) leaves the source model as it was: same mode,
same versions, same data attributes, every live cache entry untouched; the only change is that entries the
construction had to read may have been *created* — from the current versions. -/
theorem fantasy_frame (T : Table) (hT : TableOK T) (s : State) (o : FantasyOutcome) :
    (step T s (.fantasy o)).next.kind = s.kind ∧ (step T s (.fantasy o)).next.training = s.training ∧
    (step T s (.fantasy o)).next.hasData = s.hasData ∧
    (step T s (.fantasy o)).next.pv = s.pv ∧ (step T s (.fantasy o)).next.dv = s.dv ∧
    (step T s (.fantasy o)).next.stratDefault = s.stratDefault ∧ (step T s (.fantasy o)).next.stratLazy = s.stratLazy ∧
    (step T s (.fantasy o)).next.pendingConversion = s.pendingConversion ∧
    (∀ sl e, s.store sl = some e → (step T s (.fantasy o)).next.store sl = some e) ∧
    (∀ sl e, (step T s (.fantasy o)).next.store sl = some e → s.store sl = some e ∨ (e.pv = s.pv ∧ e.dv = s.dv)) := by
  have same : ∀ s' : State, s' = s → s'.kind = s.kind ∧ s'.training = s.training ∧ s'.hasData = s.hasData ∧
      s'.pv = s.pv ∧ s'.dv = s.dv ∧ s'.stratDefault = s.stratDefault ∧ s'.stratLazy = s.stratLazy ∧
      s'.pendingConversion = s.pendingConversion ∧
      (∀ sl e, s.store sl = some e → s'.store sl = some e) ∧
      (∀ sl e, s'.store sl = some e → s.store sl = some e ∨ (e.pv = s.pv ∧ e.dv = s.dv)) := by
    intro s' h; subst h
    exact ⟨rfl, rfl, rfl, rfl, rfl, rfl, rfl, rfl, fun _ _ h => h, fun _ _ h => Or.inl h⟩
  cases o with
  | ok =>
    by_cases hacc : fantasyAccepts T s = true
    · have hn : (step T s (.fantasy .ok)).next = { s with store := touchAll s.store (fun _ => newEntry s false) (fantasyReads T s ++ (if s.kind.isExact then attrsActive T s.kind s.training else [])) } := by
        simp [step, hacc]
      rw [hn]
      refine ⟨rfl, rfl, rfl, rfl, rfl, rfl, rfl, rfl, ?_, ?_⟩
      · intro sl e he
        exact touchAll_of_some _ _ _ _ _ he
      · intro sl e he
        rcases touchAll_cases _ _ _ _ _ he with h1 | ⟨_, _, rfl⟩
        · exact Or.inl h1
        · exact Or.inr ⟨rfl, rfl⟩
    · exact same _ (by simp [step, hacc])
  | rejectedEarly => exact same _ rfl
  | rejectedLate => exact same _ rfl
  | raisedInCopy => exact same _ (by simp only [step, hT.fantasy_finally, hT.fantasy_all, Bool.and_self, if_true])

/-- … hence the source answers every later call as before the fantasy model was made -/
theorem fantasy_frame_answers (T : Table) (hT : TableOK T) (k : Kind) (ops : List Op) (o : FantasyOutcome)
    (c : Cell) (prior : Bool) :
    (call T (step T (run T (init k) ops).1 (.fantasy o)).next c prior).2 = (call T (run T (init k) ops).1 c prior).2 := by
  have hI : Inv (run T (init k) ops).1 := inv_run hT (inv_init k 0 0) ops
  have hI' := inv_step hT hI (.fantasy o)
  obtain ⟨hk, ht, _, hp, hd, _, _, hc, _⟩ := fantasy_frame T hT (run T (init k) ops).1 o
  rw [call_answer hT hI', call_answer hT hI, hk, ht, hd]
  unfold callPv State.converts
  rw [hk, hp, hc]

/-! ### The hypotheses matter, and are satisfiable -/

/-- Non-vacuity: a concrete history on the generated table with non-trivial cache reuse. -/
def demo : List Op :=
  [.eval, .predict .fastPredVar, .setTrainData .targetsOnly, .predict .default, .train, .step, .eval, .predict .noDetach,
   .backward, .loadStateDict false, .predict .fastPredVar]

example : ((run table (init .sgpr) demo).2.map fun a => (a.pv, a.dv, a.used.length)) =
    [(0, 0, 5), (0, 1, 5), (1, 1, 5), (2, 1, 5)] := by decide
example : (run table (init .exact) demo).2.all (·.current) = true := by decide

/-- Non-vacuity of the two-object statements: the second object keeps its memo while the first one is trained. -/
example : ((run2 table (init .svgp, init .svgp)
      [(true, .eval), (true, .predict .default), (false, .step), (false, .step), (true, .predict .fastPredVar)]).2.map
        fun a => (a.1, a.2.pv, a.2.current)) = [(true, 0, true), (true, 0, true)] := by decide
example : (run2 table (init .svgp, init .svgp) [(false, .step), (false, .step)]).1.1.pv = 2 := by decide

/-- Without `self.prediction_strategy = None` in `set_train_data` the model *does* produce a stale answer on
`eval; predict; set_train_data; predict` — the table fact is what the theorem rests on. -/
theorem stale_without_set_train_data_clear :
    ((run { table with setTrainData := fun _ _ => [] } (init .exact)
        [.eval, .predict .default, .setTrainData .both, .predict .default]).2.map (·.current)) = [true, false] := by decide

/-- … and it must be reached for a targets-only update too: with the statement inside the `inputs is not None`
branch, `eval; predict; set_train_data(targets=…); predict` answers from the old targets. -/
theorem stale_when_only_inputs_branch_clears :
    ((run { table with setTrainData := fun i _ => if i then [.dropStrategy] else [] } (init .exact)
        [.eval, .predict .default, .setTrainData .targetsOnly, .predict .default]).2.map (·.current)) = [true, false] ∧
    ((run { table with setTrainData := fun i _ => if i then [.dropStrategy] else [] } (init .exact)
        [.eval, .predict .default, .setTrainData .inputsOnly, .predict .default]).2.map (·.current)) = [true, true] := by decide

/-- Without the memo reset at the end of the re-whitening block, a whitened variational model loaded from an
old-format state dict answers from the memo built from the parameters as loaded. -/
theorem stale_without_legacy_conversion_clear :
    ((run { table with legacyConversionClears := false } (init .svgp)
        [.loadStateDict true, .eval, .predict .default, .predict .default]).2.map (·.current)) = [false, false] ∧
    ((run table (init .svgp)
        [.loadStateDict true, .eval, .predict .default, .predict .default]).2.map (fun a => (a.current, a.pv))) = [(true, 2), (true, 2)] := by decide

/-- Without the re-validation of the two-representation `covar_cache` (`pop_from_cache` when the entry holds the
representation the other `fast_pred_samples` setting asks for) a KISS-GP model answers the second of two predictions
that differ in `fast_pred_samples` from the representation built for the first — in both orders; with the generated
table it re-computes the entry. -/
theorem stale_representation_without_revalidation :
    ((run { table with access := fun cls w c => (table.access cls w c).map MemoOp.dropRevalidation } (init .kiss)
        [.eval, .predict .fastPredBoth, .predict .fastPredVar]).2.map (fun a => a.used.map (·.slot))) =
      [[sStrat, sMean, sCovarS, sKMat], [sStrat, sMean, sCovarS, sKMat]] ∧
    ((run { table with access := fun cls w c => (table.access cls w c).map MemoOp.dropRevalidation } (init .kiss)
        [.eval, .predict .fastPredVar, .predict .fastPredBoth]).2.map (fun a => a.used.map (·.slot))) =
      [[sStrat, sMean, sCovar, sKMat], [sStrat, sMean, sCovar, sKMat]] ∧
    ((run table (init .kiss)
        [.eval, .predict .fastPredBoth, .predict .fastPredVar, .predict .fastPredSamples]).2.map (fun a => a.used.map (·.slot))) =
      [[sStrat, sMean, sCovarS, sKMat], [sStrat, sMean, sCovar, sKMat], [sStrat, sMean, sCovarS, sKMat]] := by decide

/-- Likewise without the `_clear_cache()` call in `Module.train`: `eval; predict; train; step; eval; predict`. -/
theorem stale_without_train_clear :
    ((run { table with trainClears := fun _ _ => false } (init .sgpr)
        [.eval, .predict .default, .train, .step, .eval, .predict .default]).2.map (·.current)) = [true, false] := by decide

/-- Likewise when the strategy is not keyed on `lazily_evaluate_kernels` (the pinned commit): after a first
prediction under `lazily_evaluate_kernels(False)` an SGPR model keeps answering with the default strategy. -/
theorem wrong_strategy_class_without_lazy_key :
    ((run { table with strategyKeyedOnLazy := false } (init .sgpr)
        [.eval, .predict .eagerKernels, .predict .default]).2.map (·.cls)) = [cDefault, cDefault] ∧
    ((run table (init .sgpr) [.eval, .predict .eagerKernels, .predict .default]).2.map (·.cls)) = [cDefault, cSGPR] := by decide

/-- Likewise when `get_fantasy_model` restores outside a `finally:` (the pinned commit): a copy that raises leaves
the source without data and the next call answers with the prior. -/
theorem prior_after_failed_fantasy_without_finally :
    ((run { table with fantasyRestoreInFinally := false } (init .kiss)
        [.eval, .predict .default, .fantasy .raisedInCopy, .predict .default]).2.map (·.posterior)) = [true, false] := by decide

end C03

/-
C05 — kernel values equal the documented covariance functions and derivatives.

The objects are the executable definitions of `Model/Kernels.lean` (run by `drivers/C05.lean` at `Float` /
`Rat`) and the G5-generated terms of `Gen/Formulas.lean` (regenerated from
`gpytorch/functions/{rbf,matern}_covariance.py` and `piecewise_polynomial_kernel.py` on every run), here
at the scalar type `ℝ`.  `Spec` = the formula of the class docstring; the theorems say that the routes the
code takes (`Impl`, generated fast-path terms, Newton–Girard recursion, feature products, interleaved
layout, hand-written derivative blocks) compute exactly that.
-/
import GPVerif.Bridge.KernelLemmas
import GPVerif.Bridge.KernelCalc
import GPVerif.Bridge.FastPath
import GPVerif.Bridge.GradKernels
import GPVerif.Bridge.GradGrad
import GPVerif.Bridge.NewtonGirard
import GPVerif.Gen.Formulas
import GPVerif.Bridge.GenKernels
import GPVerif.Bridge.GenAxes

namespace C05
open Scalar Kernels Gen.Formulas

/-! ### distance helpers (`sq_dist`, `dist`, `covar_dist` of kernel.py) -/

/-- `Σ(a−c)² − 2 Σ(a−c)(b−c) + Σ(b−c)² = Σ(a−b)²` for rows of any (equal) dimension and any centre `c`. -/
theorem sqDist_expansion_eq (c a b : List ℝ) (ha : a.length = c.length) (hb : b.length = c.length) :
    sqDistExpansion c a b = sqDist a b :=
  sqDistExpansion_eq c a b ha hb

/-- the code's `sq_dist` (concatenated matmul, `clamp_min_(0)`) is the squared distance: the clamp is the
identity on `ℝ≥0`. -/
theorem sqDistImpl_eq_sqDist (c a b : List ℝ) (ha : a.length = c.length) (hb : b.length = c.length) :
    sqDistImpl c a b = sqDist a b := sqDistImpl_eq c a b ha hb

/-- subtracting `x1.mean` (any row `c`) from both rows does not change the distance -/
theorem centering_invariant (c a b : List ℝ) (ha : a.length = c.length) (hb : b.length = c.length) :
    sqDist (rowSub a c) (rowSub b c) = sqDist a b :=
  sqDist_rowSub c a b ha hb

/-- `x.div(lengthscale)` followed by the plain squared distance is `(a−b)ᵀ Θ⁻² (a−b)` (ARD or not) -/
theorem ard_scaling (ls a b : List ℝ) : sqDist (rowDiv a ls) (rowDiv b ls) = sqDistArd ls a b :=
  sqDist_rowDiv ls a b

/-- the diagonal zero-fill of `sq_dist` / `covar_dist(diag=True)` writes the true value -/
theorem sqDist_self (a : List ℝ) : sqDist a a = 0 := by
  induction a with
  | nil => simp [sqDist_nil_left]
  | cons x a ih => rw [sqDist_cons, ih]; ring

/-! ### RBF / Matérn: generic path and G5-generated fast path = documented formula (proofs: Bridge/FastPath) -/

/-- generic (autograd) path of `RBFKernel.forward` = documented formula -/
theorem rbf_generic_eq_spec (ls c a b : List ℝ) (ha : a.length = ls.length) (hb : b.length = ls.length)
    (hc : c.length = ls.length) :
    rbfImpl ls (rowDiv c ls) a b = rbfSpec ls a b := FastPath.rbf_generic_eq_spec ls c a b ha hb hc

/-- fast path: the G5-generated `RBFCovariance.forward` term (with or without saved tensors) = documented
formula with the single lengthscale broadcast over the dimensions -/
theorem rbf_fast_eq_spec (a b : List ℝ) (l : ℝ) :
    rbfFwdGradOut sqDist a b l = rbfSpec (List.replicate a.length l) a b ∧
    rbfFwdNoGradOut sqDist a b l = rbfSpec (List.replicate a.length l) a b := FastPath.rbf_fast_eq_spec a b l

theorem matern12_fast_eq_spec (a b m : List ℝ) (l : ℝ) (ha : a.length = m.length) (hb : b.length = m.length) :
    matern12FwdGradOut Scalar.dist a b m l = maternSpec 1 (List.replicate a.length l) a b ∧
    matern12FwdNoGradOut Scalar.dist a b m l = maternSpec 1 (List.replicate a.length l) a b :=
  FastPath.matern12_fast_eq_spec a b m l ha hb

theorem matern32_fast_eq_spec (a b m : List ℝ) (l : ℝ) (ha : a.length = m.length) (hb : b.length = m.length) :
    matern32FwdGradOut Scalar.dist a b m l = maternSpec 3 (List.replicate a.length l) a b ∧
    matern32FwdNoGradOut Scalar.dist a b m l = maternSpec 3 (List.replicate a.length l) a b :=
  FastPath.matern32_fast_eq_spec a b m l ha hb

theorem matern52_fast_eq_spec (a b m : List ℝ) (l : ℝ) (ha : a.length = m.length) (hb : b.length = m.length) :
    matern52FwdGradOut Scalar.dist a b m l = maternSpec 5 (List.replicate a.length l) a b ∧
    matern52FwdNoGradOut Scalar.dist a b m l = maternSpec 5 (List.replicate a.length l) a b :=
  FastPath.matern52_fast_eq_spec a b m l ha hb

/-- generic path of `MaternKernel.forward` (centre, scale, distance, closed form) = documented formula -/
theorem matern_generic_eq_spec (nu2 : ℕ) (ls c a b : List ℝ) (ha : a.length = c.length) (hb : b.length = c.length) :
    maternImpl nu2 ls c a b = maternSpec nu2 ls a b := FastPath.matern_generic_eq_spec nu2 ls c a b ha hb


/-! ### kernel `forward` methods and distance helpers REGENERATED from the source (`Gen/KernelFormulas.lean`)

Every term below is produced by `harness/translate/g5_kernels.py` from the working tree on every run; the
theorems say that the generated entry equals the documented `Spec` (callbacks = the Euclidean distances). -/

section generated
open Gen.KernelFormulas

/-- generated `sq_dist` (quadratic expansion after centering, concatenated matmul, `clamp_min_(0)`; also the
`x1 is x2` off-diagonal entries) = squared distance -/
theorem sqDist_gen_eq_spec (a b c : List ℝ) (ha : a.length = c.length) (hb : b.length = c.length) :
    sqDistGen a b c = sqDist a b ∧ sqDistGenSameOff a b c = sqDist a b := by
  rw [(sqDistGen_eq_impl a b c).1, (sqDistGen_eq_impl a b c).2, sqDistImpl_eq c a b ha hb]; exact ⟨rfl, rfl⟩

/-- generated `sq_dist`, diagonal entry under `x1 is x2` (zero-fill, then clamp) = `‖a − a‖² = 0` -/
theorem sqDist_gen_diag_eq_spec (a b c : List ℝ) : sqDistGenSameDiag a b c = sqDist a a := by
  simp [sqDistGenSameDiag, sqDist_self]

/-- generated `dist`: `cdist` clamped at `1e-15`, resp. `√(clamp(sq_dist, 1e-30))`; equal to the Euclidean
distance whenever the clamp is inactive -/
theorem dist_gen_eq_spec (a b c : List ℝ) (ha : a.length = c.length) (hb : b.length = c.length) :
    (((2535301200456459 / 2535301200456458802993406410752 : ℚ) : ℝ) ≤ Scalar.dist a b →
        distGen Scalar.dist a b c = Scalar.dist a b) ∧
    (((178405961588245 / 178405961588244985132285746181186892047843328 : ℚ) : ℝ) ≤ sqDist a b →
        distGenSameOff Scalar.dist a b c = Scalar.dist a b) := by
  constructor
  · intro h
    simp only [distGen, max_real, lit_real]
    exact max_eq_left h
  · intro h
    have e : distGenSameOff Scalar.dist a b c = Real.sqrt (Max.max (sqDistGenSameOff a b c)
        (((178405961588245 / 178405961588244985132285746181186892047843328 : ℚ)) : ℝ)) := rfl
    rw [e, (sqDist_gen_eq_spec a b c ha hb).2, max_eq_left h]; rfl

/-- generated generic branch of `RBFKernel.forward` (full and diag), with the generated `sq_dist` plugged in -/
theorem rbf_generic_gen_eq_spec (ls c a b : List ℝ) (ha : a.length = ls.length) (hb : b.length = ls.length)
    (hc : c.length = ls.length) (distf : List ℝ → List ℝ → ℝ) :
    rbfGeneric (fun u v => sqDistGen u v c) distf a b ls = rbfSpec ls a b ∧
    rbfGeneric sqDist distf a b ls = rbfSpec ls a b ∧ rbfGenericDiag sqDist distf a b ls = rbfSpec ls a b := by
  have hl : ∀ x : List ℝ, x.length = ls.length → (rowDiv x ls).length = ls.length := by
    intro x hx; simp [length_rowDiv, hx]
  refine ⟨?_, ?_, ?_⟩
  · simp only [rbfGeneric]
    rw [(sqDist_gen_eq_spec _ _ c (by rw [hl a ha, hc]) (by rw [hl b hb, hc])).1, sqDist_rowDiv]
    simp only [rbfSpec, exp_real, lit_real]; congr 1; push_cast; ring
  all_goals
    simp only [rbfGeneric, rbfGenericDiag, sqDist_rowDiv, rbfSpec, exp_real, lit_real]; congr 1; push_cast; ring

theorem matern_generic_gen_eq_spec (ls c a b : List ℝ) (ha : a.length = c.length) (hb : b.length = c.length)
    (sqd : List ℝ → List ℝ → ℝ) :
    matern12Generic sqd Scalar.dist a b c ls = maternSpec 1 ls a b ∧
    matern32Generic sqd Scalar.dist a b c ls = maternSpec 3 ls a b ∧
    matern52Generic sqd Scalar.dist a b c ls = maternSpec 5 ls a b := by
  have hd : Scalar.dist (rowDiv (rowSub a c) ls) (rowDiv (rowSub b c) ls) = Real.sqrt (sqDistArd ls a b) := by
    rw [Scalar.dist, sqDist_rowDiv, sqDistArd_rowSub ls c a b ha hb]; rfl
  refine ⟨?_, ?_, ?_⟩
  · simp only [matern12Generic, maternSpec, maternOfDist, hd, exp_real, sqrt_real, lit_real]; simp
  · simp only [matern32Generic, maternSpec, maternOfDist, hd, exp_real, sqrt_real, lit_real]; push_cast; ring_nf
  · simp only [matern52Generic, maternSpec, maternOfDist, hd, exp_real, sqrt_real, lit_real, npow_real, sq_real]
    push_cast; ring_nf

theorem rq_gen_eq_spec (ls a b : List ℝ) (alpha : ℝ) (distf : List ℝ → List ℝ → ℝ) :
    rq sqDist distf a b ls alpha = rqSpec ls alpha a b ∧ rqDiag sqDist distf a b ls alpha = rqSpec ls alpha a b := by
  constructor <;> simp only [rq, rqDiag, rqSpec, sqDist_rowDiv, rpow_real, lit_real]

theorem periodic_gen_eq_spec (ls ps a b : List ℝ) (sqd : List ℝ → List ℝ → ℝ) :
    periodic sqd Scalar.dist a b ls ps = periodicSpec ls ps a b ∧
    periodicDiag sqd Scalar.dist a b ls ps = periodicSpec ls ps a b := by
  constructor <;>
  · simp only [periodic, periodicDiag, periodicSpec]
    rw [periodic_pipeline]
    simp only [exp_real, lit_real]; push_cast; rfl

theorem cosine_gen_eq_spec (a b : List ℝ) (p : ℝ) (sqd : List ℝ → List ℝ → ℝ) :
    cosine sqd Scalar.dist a b p = cosineSpec p a b := by
  simp only [cosine, cosineSpec, dist_rowDivS, cos_real, pi_real]
  rcases abs_cases p with ⟨h, _⟩ | ⟨h, _⟩ <;> rw [h]
  · congr 1; ring
  · rw [← Real.cos_neg]; congr 1; ring

/-- `√v·x1` against `√v·x2` (Matmul) and against itself (Root) = `Σ vᵢ aᵢ bᵢ`, for non-negative variances -/
theorem linear_gen_eq_spec (v a b : List ℝ) (hv : ∀ x ∈ v, 0 ≤ x) :
    linear a b v = linearSpec v a b ∧ linearSame a b v = linearSpec v a b :=
  ⟨linear_pipeline v a b hv, linear_pipeline v a b hv⟩

theorem polynomial_gen_eq_spec (a b : List ℝ) (c : ℝ) (p : ℕ) :
    polynomial a b c p = polySpec c p a b ∧ polynomialBatched a b c p = polySpec c p a b ∧
    polynomialDiag a b c p = polySpec c p a b := by
  refine ⟨?_, ?_, ?_⟩ <;> simp only [polynomial, polynomialBatched, polynomialDiag, polySpec, npow_real, Scalar.dot]
  rw [add_comm]

theorem piecewisePolynomial_gen_eq_spec (ls a b : List ℝ) (sqd : List ℝ → List ℝ → ℝ) :
    piecewisePolynomial0 sqd Scalar.dist a b ls = ppSpec 0 ls a b ∧
    piecewisePolynomial1 sqd Scalar.dist a b ls = ppSpec 1 ls a b ∧
    piecewisePolynomial2 sqd Scalar.dist a b ls = ppSpec 2 ls a b ∧
    piecewisePolynomial3 sqd Scalar.dist a b ls = ppSpec 3 ls a b := by
  have hd : Scalar.dist (rowDiv a ls) (rowDiv b ls) = Real.sqrt (sqDistArd ls a b) := by
    rw [Scalar.dist, sqDist_rowDiv]; rfl
  refine ⟨?_, ?_, ?_, ?_⟩ <;>
  · simp only [piecewisePolynomial0, piecewisePolynomial1, piecewisePolynomial2, piecewisePolynomial3, ppSpec, ppOfDist,
      ppCovSpec, ppJ, hd, npow_real, max_real, lit_real, sq_real, sqrt_real]
    try (push_cast; ring)

theorem constant_gen_eq_spec (a b : List ℝ) (c : ℝ) :
    constantK a b c = (Kern.const c).eval a b ∧ constantKDiag a b c = (Kern.const c).eval a b := by
  simp [constantK, constantKDiag, Kern.eval]

end generated

/-! ### axis-aware regenerated `forward` methods (`Gen/KernelAxes.lean`, `harness/translate/g5_axes.py`)

Every tensor of these `forward` methods was executed as an index function over its symbolic trailing shape (unsqueeze,
transpose, view, broadcasting, `sum(dim)`, `prod(dim)`, `diagonal`, `cat`, slicing are executed, not assumed); the theorems
say that the resulting entry (i, j) is the documented `Spec` of rows i and j. -/

section generatedAxes
open Gen.KernelAxes

/-- `SpectralMixtureKernel.forward` (full and diag): product over input dimensions of the one-dimensional mixtures, for
every number of mixtures and every input dimension; `mixture_means` / `mixture_scales` in the module's `[mixture][dimension]`
layout, the Spec's `[dimension][mixture]` layout being their transpose -/
theorem spectralMixture_gen_eq_spec (a b w : List ℝ) (mus scs : List (List ℝ)) (hb : b.length = a.length) :
    spectralMixture a b w mus scs = smSpec w (transposeL a.length w.length mus) (transposeL a.length w.length scs) a b ∧
    spectralMixtureDiag a b w mus scs = smSpec w (transposeL a.length w.length mus) (transposeL a.length w.length scs) a b := by
  unfold transposeL
  rw [smSpec_eq_prod w a b _ _ hb]
  constructor <;>
  · simp only [spectralMixture, spectralMixtureDiag, prodR_eq, sumR_eq]
    apply Finset.prod_congr rfl
    intro l _
    rw [smDim_eq_sum _ _ _ _ (by simp) (by simp)]
    apply Finset.sum_congr rfl
    intro q hq
    have hq' := Finset.mem_range.mp hq
    simp only [nth_tab _ _ _ hq', exp_real, cos_real, pi_real, lit_real, npow_real]
    push_cast
    ring_nf

/-- `HammingIMQKernel.forward`: the view `(…, T, V)` of the flattened one-hot rows, the double sum over tokens and vocabulary,
`clamp_min_(0)` and the IMQ transform give the documented kernel — full matrix (`x1 ≠ x2`, and the off-diagonal entries when
`x1 = x2`) and the `diag=True, x1 ≠ x2` branch; `hd` (the clamp is inactive) holds for one-hot rows -/
theorem hamming_gen_eq_spec (V : ℕ) (a b : List ℝ) (α β : ℝ) (hlen : a.length = b.length)
    (hV : a.length / V * V = a.length) (hd : dot a b ≤ ((a.length / V : ℕ) : ℝ)) :
    hamming V a b α β = hammingSpec V α β a b ∧ hammingSameOff V a b α β = hammingSpec V α β a b ∧
    hammingDiagOther V a b α β = hammingSpec V α β a b := by
  have hm : Max.max ((((a.length / V : ℕ) : ℚ) : ℝ) - dot a b) (((0 : ℚ)) : ℝ) = (((a.length / V : ℕ) : ℚ) : ℝ) - dot a b := by
    apply max_eq_left; push_cast; linarith
  refine ⟨?_, ?_, ?_⟩ <;>
  · simp only [hamming, hammingSameOff, hammingDiagOther, hammingSpec, hammingDist, hamming_core V a b hlen hV, max_real,
      lit_real, rpow_real, hm]

/-- the diagonal under `x1 = x2`: the zero-filled entry of the full matrix and the `diag=True` shortcut `((1+α)/α)^β` are the
kernel of a row with itself whenever its Hamming distance to itself is 0 (`⟨a,a⟩ = T`, true of one-hot rows) -/
theorem hamming_gen_diag_eq_spec (V : ℕ) (a : List ℝ) (α β : ℝ) (h0 : dot a a = ((a.length / V : ℕ) : ℝ)) :
    hammingSameDiag V a a α β = hammingSpec V α β a a ∧ hammingDiagSame V a a α β = hammingSpec V α β a a := by
  constructor <;>
  · simp only [hammingSameDiag, hammingDiagSame, hammingSpec, hammingDist, max_real, lit_real, rpow_real, h0]
    push_cast
    simp

/-- `GaussianSymmetrizedKLKernel` (`DistributionalInputKernel.forward` with `_symmetrized_kl`, full and diag): slicing into
means / log-variances, the two unsqueezes, the sum over the distribution dimension and the final transpose give
`exp(−symKL/ℓ)` of rows i and j, with the jitter the code uses (the float64 `1e-8`) -/
theorem gskl_gen_eq_spec (a b : List ℝ) (l : ℝ) (hlen : b.length = a.length) (hev : a.length / 2 * 2 = a.length) :
    gskl a b l = gsklSpecE (((3022314549036573 / 302231454903657293676544 : ℚ)) : ℝ) l a b ∧
    gsklDiag a b l = gsklSpecE (((3022314549036573 / 302231454903657293676544 : ℚ)) : ℝ) l a b := by
  have e1 : (a.take (a.length / 2)).length = a.length / 2 := by simp; omega
  have e2 : (a.drop (a.length / 2)).length = a.length / 2 := by simp; omega
  have e3 : (b.take (a.length / 2)).length = a.length / 2 := by simp; omega
  have e4 : (b.drop (a.length / 2)).length = a.length / 2 := by simp; omega
  constructor <;>
  · simp only [gskl, gsklDiag, gsklSpecE, sumR_eq, exp_real, lit_real, npow_real]
    rw [symKLe_eq_sum _ _ _ _ _ (by rw [e2, e1]) (by rw [e3, e1]) (by rw [e4, e1]), e1]
    congr 2
    apply congrArg
    apply Finset.sum_congr rfl
    intro k hk
    have hk' : k < a.length / 2 := Finset.mem_range.mp hk
    simp only [nth_take _ _ _ hk', nth_drop]
    push_cast
    rw [one_div_div]

/-- the documented Spec (jitter written `10⁻⁸`) is the parameterised one at `10⁻⁸` -/
theorem gsklSpec_eq_gsklSpecE (l : ℝ) (a b : List ℝ) : gsklSpec l a b = gsklSpecE (lit (1 / 10 ^ 8)) l a b := by
  simp only [gsklSpec, gsklSpecE, symKL_eq_symKLe]

/-- `ArcKernel.forward` with the default `delta_func` (full and diag): `embedding` (div, sin / cos, radius, mask of ones,
`cat`) is `arcEmbed`, and the base kernel is applied to the embedded rows i and j -/
theorem arc_gen_eq_spec (base : List ℝ → List ℝ → ℝ) (a b ls an ra : List ℝ) (hb : b.length = a.length)
    (h1 : ls.length = a.length) (h2 : an.length = a.length) (h3 : ra.length = a.length) :
    arc base a b ls an ra = base (arcEmbed ls an ra a) (arcEmbed ls an ra b) ∧
    arcDiag base a b ls an ra = base (arcEmbed ls an ra a) (arcEmbed ls an ra b) := by
  rw [arcEmbed_eq_tab ls an ra a h1 h2 h3, arcEmbed_eq_tab ls an ra b (h1.trans hb.symm) (h2.trans hb.symm) (h3.trans hb.symm), hb]
  constructor <;>
  · simp only [arc, arcDiag, sin_real, cos_real, pi_real, lit_real]
    congr 2 <;> (apply tab_congr; intro k _; push_cast; ring_nf)

/-- the same with a custom `delta_func`: its values on the two rows multiply the sin and the cos half of the embedding -/
theorem arcMasked_gen_eq_spec (base : List ℝ → List ℝ → ℝ) (a b m1 m2 ls an ra : List ℝ) (hb : b.length = a.length)
    (h1 : ls.length = a.length) (h2 : an.length = a.length) (h3 : ra.length = a.length)
    (hm1 : m1.length = a.length) (hm2 : m2.length = a.length) :
    arcMasked base a b m1 m2 ls an ra = base (arcEmbedMasked ls an ra a m1) (arcEmbedMasked ls an ra b m2) ∧
    arcMaskedDiag base a b m1 m2 ls an ra = base (arcEmbedMasked ls an ra a m1) (arcEmbedMasked ls an ra b m2) := by
  unfold arcEmbedMasked
  rw [arcEmbed_eq_tab ls an ra a h1 h2 h3, arcEmbed_eq_tab ls an ra b (h1.trans hb.symm) (h2.trans hb.symm) (h3.trans hb.symm), hb]
  simp only [rowMul]
  rw [zip_append _ _ _ _ _ (by simp [hm1]), zip_append _ _ _ _ _ (by simp [hm2])]
  rw [← hm1, zip_tab_left, zip_tab_left, hm1, ← hm2, zip_tab_left, zip_tab_left, hm2]
  constructor <;>
  · simp only [arcMasked, arcMaskedDiag, sin_real, cos_real, pi_real]
    congr 2 <;> (apply tab_congr; intro k _; push_cast; ring_nf)

/-- `CylindricalKernel.forward` (full and diag, all radii ≤ 1): norms, normalised rows, Gram entry, the loop over the angular
weights (iteration 0 executed, iterations `p ≥ 1` symbolic — every number of weights) and the Kumaraswamy-warped radial
kernel give `radial(kuma‖a‖, kuma‖b‖) · Σ_p w_p (âᵀb̂)^p`; `jit` (the code's `t[t == 0] = t + eps`) is the identity on rows
without an exactly-zero coordinate -/
theorem cylindrical_gen_eq_spec (radial : List ℝ → List ℝ → ℝ) (jit : ℝ → ℝ → ℝ) (a b w : List ℝ) (α β ε : ℝ)
    (hb : b.length = a.length) (ha0 : ∀ k, jit (nth a k) ε = nth a k) (hb0 : ∀ k, jit (nth b k) ε = nth b k) :
    cylindrical radial jit a b w α β ε
      = radial [kuma α β ε (Kernels.norm a)] [kuma α β ε (Kernels.norm b)]
          * angular (dot (rowDivS a (Kernels.norm a)) (rowDivS b (Kernels.norm b))) w 0 ∧
    cylindricalDiag radial jit a b w α β ε
      = radial [kuma α β ε (Kernels.norm a)] [kuma α β ε (Kernels.norm b)]
          * angular (dot (rowDivS a (Kernels.norm a)) (rowDivS b (Kernels.norm b))) w 0 := by
  have hn : ∀ x : List ℝ, (∀ k, jit (nth x k) ε = nth x k) →
      Real.sqrt (∑ k ∈ Finset.range x.length, jit (nth x k) ε ^ 2) = Kernels.norm x := by
    intro x hx; rw [norm_eq]; simp only [hx]
  have hang : loopFrom1 w.length (nth w 0)
      (fun p acc => acc + nth w p * (dot (rowDivS a (Kernels.norm a)) (rowDivS b (Kernels.norm b))) ^ p)
      = angular (dot (rowDivS a (Kernels.norm a)) (rowDivS b (Kernels.norm b))) w 0 := by
    rw [loopFrom1_add, angular_eq_sum]
    cases w with
    | nil => simp
    | cons x w =>
      rw [List.length_cons, Finset.sum_range_succ']
      simp [add_comm]
  constructor <;>
  · simp only [cylindrical, cylindricalDiag, sumR_eq, npow_real, sqrt_real, rpow_real, lit_real]
    rw [hn a ha0, ← hb, hn b hb0, hb, ← dot_rowDivS_eq a b _ _ hb, hang]
    simp only [kuma, rpow_real, lit_real]

/-- the generated Arc / Cylindrical terms with the sub-kernel instantiated by a kernel expression are `Kern.eval` -/
theorem arc_cyl_gen_eq_kern_eval (base : Kern ℝ) (a b ls an ra w : List ℝ) (α β ε : ℝ) (jit : ℝ → ℝ → ℝ)
    (hb : b.length = a.length) (h1 : ls.length = a.length) (h2 : an.length = a.length) (h3 : ra.length = a.length)
    (hl : ls.length ≠ 1) (ha0 : ∀ k, jit (nth a k) ε = nth a k) (hb0 : ∀ k, jit (nth b k) ε = nth b k) :
    arc base.eval a b ls an ra = (Kern.arc base ls an ra).eval a b ∧
    cylindrical base.eval jit a b w α β ε = (Kern.cyl base w α β ε).eval a b := by
  have bc : ∀ v : List ℝ, v.length = a.length → bcast v a.length = v ∧ bcast v b.length = v := by
    intro v hv
    have : v.length ≠ 1 := by rw [hv, ← h1]; exact hl
    constructor <;> (unfold bcast; split <;> simp_all)
  constructor
  · rw [(arc_gen_eq_spec base.eval a b ls an ra hb h1 h2 h3).1]
    simp only [Kern.eval, (bc ls h1).1, (bc an h2).1, (bc ra h3).1, (bc ls h1).2, (bc an h2).2, (bc ra h3).2]
  · rw [(cylindrical_gen_eq_spec base.eval jit a b w α β ε hb ha0 hb0).1]
    simp only [Kern.eval]

/-- **block assembly of `RBFKernelGrad.forward`** (full matrix, `x1` not `x2`, every `n1`, `n2`, `d`, ARD): the generated
matrix — `K = zeros`, the four blocks written by slice assignment through `view` / `transpose` / `reshape` / `repeat` and a
Kronecker product, then `K[..., pi1, :][..., :, pi2]` with `pi = arange(n(d+1)).view(d+1, n).t().reshape(n(d+1))` — has at
position `(i·(d+1)+k, j·(d+1)+l)` exactly the documented covariance `cov(∂ᵏf(x1ᵢ), ∂ˡf(x2ⱼ))` (`rbfGradEntry`, whose entries are
the partial derivatives of the RBF kernel by `rbfGrad_entries_are_partials`) -/
theorem rbfGrad_matrix_gen_eq_entry (n1 n2 d : ℕ) (X1 X2 : List (List ℝ)) (ls : List ℝ) (i j k l : ℕ)
    (hi : i < n1) (hj : j < n2) (hk : k ≤ d) (hl : l ≤ d)
    (hx1 : (X1.getD i []).length = d) (hx2 : (X2.getD j []).length = d) (hls : ls.length = d)
    (distf : List ℝ → List ℝ → ℝ) :
    rbfGradMatrix sqDist distf n1 n2 d X1 X2 ls (gradIdx (d + 1) i k) (gradIdx (d + 1) j l)
      = rbfGradEntry ls (X1.getD i []) (X2.getD j []) k l := by
  have hv := rbf_block_value (X1.getD i []) (X2.getD j []) ls d hx1 hx2 hls
  unfold rbfGradMatrix gradIdx
  rw [Nat.add_comm 1 d, shuffle_at_gradIdx n1 (d + 1) i k (by omega), shuffle_at_gradIdx n2 (d + 1) j l (by omega)]
  have hi' : ¬ n1 ≤ i := by omega
  have hj' : ¬ n2 ≤ j := by omega
  have gl : ∀ q, q < d → ls.getD q (Scalar.lit 1 : ℝ) = nth ls q := fun q hq => getD_one_eq_nth ls q (by omega)
  cases k with
  | zero =>
    simp only [Nat.zero_mul, Nat.zero_add]
    cases l with
    | zero =>
      simp only [Nat.zero_mul, Nat.zero_add]
      unfold rbfGradBlocks
      simp only [nth2, exp_real, lit_real, npow_real, hi, hj, hi', hj', not_true_eq_false, not_false_eq_true, false_and,
        and_false, and_self, if_false, if_true]
      rw [hv]; simp [rbfGradEntry]
    | succ l =>
      obtain ⟨c2, c3, c4⟩ := block_index n2 j l hj
      generalize (l + 1) * n2 + j = C at c2 c3 c4 ⊢
      have c2' : n2 ≤ C := by omega
      unfold rbfGradBlocks
      simp only [nth2, exp_real, lit_real, npow_real, hi, hi', c2, c2', c3, c4, not_true_eq_false, not_false_eq_true,
        false_and, and_false, and_self, and_true, true_and, if_false, if_true]
      rw [hv, scaled_diff]
      simp only [rbfGradEntry, gradOuter, gl l (by omega)]
      simp [nth]
  | succ k =>
    obtain ⟨r2, r3, r4⟩ := block_index n1 i k hi
    generalize (k + 1) * n1 + i = R at r2 r3 r4 ⊢
    have r2' : n1 ≤ R := by omega
    cases l with
    | zero =>
      simp only [Nat.zero_mul, Nat.zero_add]
      unfold rbfGradBlocks
      simp only [nth2, exp_real, lit_real, npow_real, hj, hj', r2, r2', r3, r4, not_true_eq_false, not_false_eq_true,
        false_and, and_false, and_self, and_true, true_and, if_false, if_true]
      rw [hv, scaled_diff]
      simp only [rbfGradEntry, gradOuter, gl k (by omega)]
      simp [nth]
    | succ l =>
      obtain ⟨c2, c3, c4⟩ := block_index n2 j l hj
      generalize (l + 1) * n2 + j = C at c2 c3 c4 ⊢
      have c2' : n2 ≤ C := by omega
      unfold rbfGradBlocks
      simp only [nth2, exp_real, lit_real, npow_real, r2, r2', r3, r4, c2, c2', c3, c4, not_true_eq_false, not_false_eq_true,
        false_and, and_false, and_self, and_true, true_and, if_false, if_true]
      rw [hv, scaled_diff, scaled_diff]
      simp only [rbfGradEntry]
      congr 1
      simp only [gradOuter, delta, gl k (by omega), gl l (by omega)]
      simp only [nth, sq_real, lit_real]
      by_cases hkl : k = l
      · subst hkl; simp only [if_true]; push_cast; ring
      · simp only [if_neg hkl]; push_cast; ring

/-- **block assembly of `Matern52KernelGrad.forward`** (full matrix, `x1` not `x2`, every `n1`, `n2`, `d`, ARD): the generated
matrix (blocks by slice assignment, in-place `mul_` / `sub_`, Kronecker product, final perfect shuffle) has at position
`(i·(d+1)+k, j·(d+1)+l)` the docstring formula `matern52GradEntry` (the partial derivatives of the Matérn-5/2 kernel by
`matern52Grad_entries_are_partials`) -/
theorem matern52Grad_matrix_gen_eq_entry (n1 n2 d : ℕ) (X1 X2 : List (List ℝ)) (ls : List ℝ) (i j k l : ℕ)
    (hi : i < n1) (hj : j < n2) (hk : k ≤ d) (hl : l ≤ d)
    (hx1 : (X1.getD i []).length = d) (hx2 : (X2.getD j []).length = d) (hls : ls.length = d)
    (sqd : List ℝ → List ℝ → ℝ) :
    matern52GradMatrix sqd Scalar.dist n1 n2 d X1 X2 ls (gradIdx (d + 1) i k) (gradIdx (d + 1) j l)
      = matern52GradEntry ls (X1.getD i []) (X2.getD j []) k l := by
  have hv := matern_block_dist (X1.getD i []) (X2.getD j []) ls d hx1 hx2 hls
  unfold matern52GradMatrix gradIdx
  rw [Nat.add_comm 1 d, shuffle_at_gradIdx n1 (d + 1) i k (by omega), shuffle_at_gradIdx n2 (d + 1) j l (by omega)]
  have hi' : ¬ n1 ≤ i := by omega
  have hj' : ¬ n2 ≤ j := by omega
  have gl : ∀ q, q < d → ls.getD q (Scalar.lit 1 : ℝ) = nth ls q := fun q hq => getD_one_eq_nth ls q (by omega)
  cases k with
  | zero =>
    simp only [Nat.zero_mul, Nat.zero_add]
    cases l with
    | zero =>
      simp only [Nat.zero_mul, Nat.zero_add]
      unfold matern52GradBlocks
      simp only [nth2, hi, hj, hi', hj', not_true_eq_false, not_false_eq_true, false_and,
        and_false, and_self, if_false, if_true, hv]
      simp only [matern52GradEntry, maternOfDist, exp_real, sqrt_real, lit_real, npow_real, sq_real]
      push_cast; ring
    | succ l =>
      obtain ⟨c2, c3, c4⟩ := block_index n2 j l hj
      generalize (l + 1) * n2 + j = C at c2 c3 c4 ⊢
      have c2' : n2 ≤ C := by omega
      unfold matern52GradBlocks
      simp only [nth2, hi, hi', c2, c2', c3, c4, not_true_eq_false, not_false_eq_true,
        false_and, and_false, and_self, and_true, true_and, if_false, if_true, hv]
      simp only [matern52GradEntry, gradOuter, gl l (by omega)]
      simp only [nth, exp_real, sqrt_real, lit_real, npow_real, sq_real]
      push_cast; ring
  | succ k =>
    obtain ⟨r2, r3, r4⟩ := block_index n1 i k hi
    generalize (k + 1) * n1 + i = R at r2 r3 r4 ⊢
    have r2' : n1 ≤ R := by omega
    cases l with
    | zero =>
      simp only [Nat.zero_mul, Nat.zero_add]
      unfold matern52GradBlocks
      simp only [nth2, hj, hj', r2, r2', r3, r4, not_true_eq_false, not_false_eq_true,
        false_and, and_false, and_self, and_true, true_and, if_false, if_true, hv]
      simp only [matern52GradEntry, gradOuter, gl k (by omega)]
      simp only [nth, exp_real, sqrt_real, lit_real, npow_real, sq_real]
      push_cast; ring
    | succ l =>
      obtain ⟨c2, c3, c4⟩ := block_index n2 j l hj
      generalize (l + 1) * n2 + j = C at c2 c3 c4 ⊢
      have c2' : n2 ≤ C := by omega
      unfold matern52GradBlocks
      simp only [nth2, r2, r2', r3, r4, c2, c2', c3, c4, not_true_eq_false, not_false_eq_true,
        false_and, and_false, and_self, and_true, true_and, if_false, if_true, hv]
      simp only [matern52GradEntry, gradOuter, delta, gl k (by omega), gl l (by omega)]
      simp only [nth, exp_real, sqrt_real, lit_real, npow_real, sq_real]
      by_cases hkl : k = l
      · subst hkl; simp only [if_true]; push_cast; ring
      · simp only [if_neg hkl]; push_cast; ring

/-- `MultitaskKernel.forward`: the Kronecker product `K_data ⊗ K_task` and **its diag path** in the per-point interleaved
layout — entry `(i·T+s, j·T+t)` of the full matrix is `k_data(x1ᵢ, x2ⱼ)·K_task[s,t]`, entry `i·T+s` of `forward(diag=True)` is
`k_data(x1ᵢ, x2ᵢ)·K_task[s,s]` (the point index of a diagonal position is `r / T`, never `r mod n`), every `n`, `T`, `d`,
every data kernel (stationary or not) -/
theorem multitask_gen_eq_spec (data : List ℝ → List ℝ → ℝ) (n1 n2 d T : ℕ) (X1 X2 KT : List (List ℝ)) (i j s t : ℕ)
    (hs : s < T) (ht : t < T) (hx1 : (X1.getD i []).length = d) (hx2 : (X2.getD j []).length = d)
    (hx2i : (X2.getD i []).length = d) :
    multitaskMatrix data n1 n2 d T X1 X2 KT (gradIdx T i s) (gradIdx T j t)
      = data (X1.getD i []) (X2.getD j []) * nth2 KT s t ∧
    multitaskDiag data n1 n2 d T X1 X2 KT (gradIdx T i s) = data (X1.getD i []) (X2.getD i []) * nth2 KT s s := by
  have hd : ∀ (i s : ℕ), s < T → (i * T + s) / T = i ∧ (i * T + s) % T = s := by
    intro i s hs
    constructor
    · rw [Nat.mul_comm, Nat.mul_add_div (by omega)]; simp [Nat.div_eq_of_lt hs]
    · rw [Nat.mul_comm, Nat.mul_add_mod]; exact Nat.mod_eq_of_lt hs
  have row : ∀ (X : List (List ℝ)) (i : ℕ), (X.getD i []).length = d → tab d (fun k => nth2 X i k) = X.getD i [] := by
    intro X i h
    have := tab_nth (X.getD i [])
    rw [h] at this
    exact this
  constructor
  · simp only [multitaskMatrix, gradIdx, (hd i s hs).1, (hd i s hs).2, (hd j t ht).1, (hd j t ht).2, row X1 i hx1, row X2 j hx2]
  · simp only [multitaskDiag, gradIdx, (hd i s hs).1, (hd i s hs).2, row X1 i hx1, row X2 i hx2i]

end generatedAxes

/-! ### sums, products, scalings, structure wrappers (hold for every scalar type, also the executed `Float`) -/

section composite
variable {α : Type} [Add α] [Sub α] [Mul α] [Div α] [Neg α] [Scalar α]

theorem additive_eval (k₁ k₂ : Kern α) (a b : List α) :
    (Kern.add k₁ k₂).eval a b = k₁.eval a b + k₂.eval a b := by simp [Kern.eval]

theorem product_eval (k₁ k₂ : Kern α) (a b : List α) :
    (Kern.mul k₁ k₂).eval a b = k₁.eval a b * k₂.eval a b := by simp [Kern.eval]

theorem scale_eval (s : α) (k : Kern α) (a b : List α) : (Kern.scale s k).eval a b = s * k.eval a b := by
  simp [Kern.eval]

theorem active_dims_eval (dims : List Nat) (k : Kern α) (a b : List α) :
    (Kern.active dims k).eval a b = k.eval (select dims a) (select dims b) := by simp [Kern.eval]

theorem additive_structure_eval (ks : List (Kern α)) (a b : List α) :
    (Kern.addStruct ks).eval a b = Scalar.sum (Kern.evalDims ks a b) := by simp [Kern.eval]

theorem product_structure_eval (ks : List (Kern α)) (a b : List α) :
    (Kern.prodStruct ks).eval a b = Scalar.prod (Kern.evalDims ks a b) := by simp [Kern.eval]

theorem evalDims_cons (k : Kern α) (ks : List (Kern α)) (x y : α) (a b : List α) :
    Kern.evalDims (k :: ks) (x :: a) (y :: b) = k.eval [x] [y] :: Kern.evalDims ks a b := by
  simp [Kern.evalDims]

end composite

/-- `k₁ + k₂ + k₃` flattened by `Kernel.__add__` evaluates like the nested sum (associativity) -/
theorem additive_flatten (k₁ k₂ k₃ : Kern ℝ) (a b : List ℝ) :
    (Kern.add (Kern.add k₁ k₂) k₃).eval a b = (Kern.add k₁ (Kern.add k₂ k₃)).eval a b := by
  simp only [additive_eval]; ring

theorem product_flatten (k₁ k₂ k₃ : Kern ℝ) (a b : List ℝ) :
    (Kern.mul (Kern.mul k₁ k₂) k₃).eval a b = (Kern.mul k₁ (Kern.mul k₂ k₃)).eval a b := by
  simp only [product_eval]; ring

/-- `ConstantKernel * k` is `ScaleKernel(k)` with the same constant (class docstring of ConstantKernel) -/
theorem constant_mul_eq_scale (c : ℝ) (k : Kern ℝ) (a b : List ℝ) :
    (Kern.mul (Kern.const c) k).eval a b = (Kern.scale c k).eval a b := by
  simp [Kern.eval]

/-! ### piecewise polynomial: the coefficients in the source are the documented ones -/

theorem ppCov0_gen_eq_spec (r : ℝ) (j : ℕ) : ppCov0 r j = ppCovSpec 0 j r := by
  simp [ppCov0, ppCovSpec]

theorem ppCov1_gen_eq_spec (r : ℝ) (j : ℕ) : ppCov1 r j = ppCovSpec 1 j r := by
  simp only [ppCov1, ppCovSpec, lit_real]; push_cast; ring

theorem ppCov2_gen_eq_spec (r : ℝ) (j : ℕ) : ppCov2 r j = ppCovSpec 2 j r := by
  simp only [ppCov2, ppCovSpec, lit_real, npow_real, sq_real]; push_cast; ring

theorem ppCov3_gen_eq_spec (r : ℝ) (j : ℕ) : ppCov3 r j = ppCovSpec 3 j r := by
  simp only [ppCov3, ppCovSpec, lit_real, npow_real, sq_real]; push_cast; ring

/-- `_fmax(r, j, q) * _get_cov(r, j, q)` as generated = documented kernel of the scaled distance, q = 0..3 -/
theorem pp_gen_eq_spec (r : ℝ) (j : ℕ) :
    ppFmax r j 0 * ppCov0 r j = ppOfDist 0 j r ∧ ppFmax r j 1 * ppCov1 r j = ppOfDist 1 j r ∧
    ppFmax r j 2 * ppCov2 r j = ppOfDist 2 j r ∧ ppFmax r j 3 * ppCov3 r j = ppOfDist 3 j r := by
  refine ⟨?_, ?_, ?_, ?_⟩ <;>
    simp only [ppOfDist, ppFmax, ← ppCov0_gen_eq_spec, ← ppCov1_gen_eq_spec, ← ppCov2_gen_eq_spec, ← ppCov3_gen_eq_spec]

/-- documented form = Rasmussen & Williams (4.21) form, q = 2 and q = 3 -/
theorem ppCovSpec_eq_rw (j : ℕ) (r : ℝ) :
    ppCovSpec 2 j r = (((j:ℝ) ^ 2 + 4 * j + 3) * r ^ 2 + (3 * j + 6) * r + 3) / 3 ∧
    ppCovSpec 3 j r = (((j:ℝ) ^ 3 + 9 * j ^ 2 + 23 * j + 15) * r ^ 3 + (6 * j ^ 2 + 36 * j + 45) * r ^ 2
                        + (15 * j + 45) * r + 15) / 15 := by
  constructor <;> (simp only [ppCovSpec, lit_real, npow_real, sq_real]; push_cast; ring)

/-- the kernel is 1 at distance 0 and vanishes from distance 1 on (compact support), every q ≤ 3 -/
theorem pp_at_zero_and_support (q j : ℕ) (hq : q ≤ 3) :
    ppOfDist q j (0 : ℝ) = 1 ∧ ∀ r : ℝ, 1 ≤ r → 0 < j + q → ppOfDist q j r = 0 := by
  constructor
  · have : q = 0 ∨ q = 1 ∨ q = 2 ∨ q = 3 := by omega
    rcases this with rfl | rfl | rfl | rfl <;> simp [ppOfDist, ppCovSpec]
  · intro r hr hj
    have : Max.max (0 : ℝ) (1 - r) = 0 := max_eq_left (by linarith)
    simp only [ppOfDist, max_real, npow_real, lit_real]
    push_cast
    rw [this, zero_pow (by omega), zero_mul]

/-! ### spectral delta / RFF: the sin–cos feature product is the mean of cosines of differences -/

theorem cos_feature_product_eq (scale : ℝ) (Z : List (List ℝ)) (a b : List ℝ) (h : a.length = b.length) :
    cosFeatureImpl scale Z a b = cosFeatureMean scale Z (rowSub a b) := by
  unfold cosFeatureImpl cosFeatureMean
  congr 1
  simp only [cos_real, sin_real]
  induction Z with
  | nil => simp
  | cons z Z ih =>
    simp only [List.map_cons, sum_cons_real, ih]
    rw [dot_rowSub z a b h, mul_sub, Real.cos_sub]

/-- `SpectralDeltaKernel.forward` (features of `x/ℓ`) = `mean_j cos(2π z_j·(a−b)/ℓ)` -/
theorem spectralDelta_features_eq_spec (ls : List ℝ) (Z : List (List ℝ)) (a b : List ℝ)
    (h : (rowDiv a ls).length = (rowDiv b ls).length) :
    cosFeatureImpl (2 * Real.pi) Z (rowDiv a ls) (rowDiv b ls) = spectralDeltaSpec ls Z a b := by
  rw [cos_feature_product_eq _ _ _ _ h, rowSub_rowDiv]
  simp [spectralDeltaSpec]

/-- `RFFKernel` with its frequencies fixed = `(1/D) Σ cos(ωᵢᵀ(x−x'))` -/
theorem rff_features_eq_spec (ls : List ℝ) (W : List (List ℝ)) (a b : List ℝ)
    (h : (rowDiv a ls).length = (rowDiv b ls).length) :
    cosFeatureImpl 1 W (rowDiv a ls) (rowDiv b ls) = rffSpec ls W a b := by
  rw [cos_feature_product_eq _ _ _ _ h, rowSub_rowDiv]
  simp [rffSpec]

/-! ### derivative kernels: the per-point interleaved layout -/

/-- `(i,k) ↦ i·m + k` is a bijection `Fin n × Fin m → Fin (n·m)` for all `n, m` (`m = d+1` or `2d+1`) -/
theorem grad_layout_bijective (n m : ℕ) :
    Function.Bijective (fun p : Fin n × Fin m => (⟨gradIdx m p.1 p.2, gradIdx_lt n m p.1 p.2 p.1.2 p.2.2⟩ : Fin (n * m))) := by
  rw [Fintype.bijective_iff_injective_and_card]
  refine ⟨?_, by simp⟩
  rintro ⟨i, k⟩ ⟨i', k'⟩ h
  simp only [gradIdx, Fin.mk.injEq] at h
  have hm : 0 < m := Nat.pos_of_ne_zero (fun h0 => by subst h0; exact absurd k.2 (by simp))
  have h1 : (i.1 * m + k.1) / m = (i'.1 * m + k'.1) / m := by rw [h]
  have h2 : (i.1 * m + k.1) % m = (i'.1 * m + k'.1) % m := by rw [h]
  rw [Nat.mul_comm i.1, Nat.mul_comm i'.1, Nat.mul_add_div hm, Nat.mul_add_div hm,
    Nat.div_eq_of_lt k.2, Nat.div_eq_of_lt k'.2] at h1
  rw [Nat.mul_comm i.1, Nat.mul_comm i'.1, Nat.mul_add_mod, Nat.mul_add_mod,
    Nat.mod_eq_of_lt k.2, Nat.mod_eq_of_lt k'.2] at h2
  ext <;> simp_all

/-- the perfect shuffle `pi = arange(n·m).view(m,n).t().reshape(n·m)` reads, at the interleaved position of
`(i,k)`, the block-layout position `k·n + i` where the code wrote the entry -/
theorem shuffle_gradIdx (n m i k : ℕ) (hk : k < m) : shuffle n m (gradIdx m i k) = blockIdx n i k := by
  have hm : 0 < m := by omega
  simp only [shuffle, gradIdx, blockIdx]
  rw [Nat.mul_comm i m, Nat.mul_add_mod, Nat.mod_eq_of_lt hk, Nat.mul_add_div hm, Nat.div_eq_of_lt hk]
  simp

/-! ### Newton–Girard additive kernel -/

/-- `e_n` from power sums by the coded recursion = elementary symmetric polynomial, **all orders** `n`, all
numbers of dimensions -/
theorem newton_girard_identity (zs : List ℝ) (n : ℕ) : esymmNG zs n = esymm zs n :=
  esymmNG_eq_esymm zs n

/-- the kernel computed through the recursion = `Σ_k s_k e_k(k'(a₁,b₁),…,k'(a_D,b_D))` -/
theorem newtonGirard_impl_eq_spec (ks : List (Kern ℝ)) (s a b : List ℝ) :
    newtonGirardImpl (Kern.evalDims ks a b) s = (Kern.newtonGirard ks s).eval a b := by
  simp only [newtonGirardImpl, Kern.eval]
  exact weightedEsymm_congr _ _ (newton_girard_identity _) s 1

/-! ### derivative kernels: entries are the partial derivatives of the base kernel -/

/-- **RBFKernelGrad**: for all dimensions `k, l`, all rows, all (ARD) lengthscales:
component `(k+1, 0)` is `∂/∂a_k` of the kernel, `(0, l+1)` is `∂/∂b_l`, and the Hessian block `(k+1, l+1)`
is `∂/∂b_l` of the `(k+1, 0)` component. -/
theorem rbfGrad_entries_are_partials (ls a b : List ℝ) (k l : ℕ)
    (hka : k < a.length) (hkb : k < b.length) (hkl : k < ls.length)
    (hla : l < a.length) (hlb : l < b.length) (hll : l < ls.length) :
    (∀ x, HasDerivAt (fun x => rbfGradEntry ls (a.set k x) b 0 0) (rbfGradEntry ls (a.set k x) b (k + 1) 0) x) ∧
    (∀ y, HasDerivAt (fun y => rbfGradEntry ls a (b.set l y) 0 0) (rbfGradEntry ls a (b.set l y) 0 (l + 1)) y) ∧
    (∀ y, HasDerivAt (fun y => rbfGradEntry ls a (b.set l y) (k + 1) 0)
            (rbfGradEntry ls a (b.set l y) (k + 1) (l + 1)) y) := by
  have hA : ∀ x, rbfSpec ls (a.set k x) b
      = Real.exp (-(1 / 2 * (sqDistArd ls (a.set k (b.getD k 0)) b + (x - b.getD k 0) ^ 2 / (ls.getD k 1) ^ 2))) := by
    intro x; simp only [rbfSpec, exp_real, lit_real, sqDistArd_set_left ls a b k x hka hkb hkl]; push_cast; rfl
  have hB : ∀ y, rbfSpec ls a (b.set l y)
      = Real.exp (-(1 / 2 * (sqDistArd ls a (b.set l (a.getD l 0)) + (y - a.getD l 0) ^ 2 / (ls.getD l 1) ^ 2))) := by
    intro y; simp only [rbfSpec, exp_real, lit_real, sqDistArd_set_right ls a b l y hla hlb hll]; push_cast
    congr 3; ring
  have hBd : ∀ y, HasDerivAt (fun y => rbfSpec ls a (b.set l y))
      (gradOuter ls a (b.set l y) l * rbfSpec ls a (b.set l y)) y := by
    intro y
    have h := hasDerivAt_gauss_coord (sqDistArd ls a (b.set l (a.getD l 0))) (a.getD l 0) (ls.getD l 1) y
    rw [show (fun y => rbfSpec ls a (b.set l y)) = _ from funext hB, hB y]
    refine h.congr_deriv ?_
    simp only [gradOuter, getD_set_self b l y _ hlb, sq_real, lit_real]; push_cast; ring
  refine ⟨?_, ?_, ?_⟩
  · intro x
    have h := hasDerivAt_gauss_coord (sqDistArd ls (a.set k (b.getD k 0)) b) (b.getD k 0) (ls.getD k 1) x
    simp only [rbfGradEntry]
    rw [show (fun x => rbfSpec ls (a.set k x) b) = _ from funext hA, hA x]
    refine h.congr_deriv ?_
    simp only [gradOuter, getD_set_self a k x _ hka, sq_real, lit_real]; push_cast; ring
  · intro y
    simpa only [rbfGradEntry] using hBd y
  · intro y
    simp only [rbfGradEntry]
    by_cases hkl' : l = k
    · subst hkl'
      have hO : HasDerivAt (fun y => -gradOuter ls a (b.set l y) l) (1 / (ls.getD l 1) ^ 2) y := by
        have h0 : HasDerivAt (fun y : ℝ => -((a.getD l 0 - y) / (ls.getD l 1) ^ 2)) (1 / (ls.getD l 1) ^ 2) y := by
          have := (((hasDerivAt_id y).const_sub (a.getD l 0)).div_const ((ls.getD l 1) ^ 2)).neg
          exact this.congr_deriv (by ring)
        have e : (fun y => -gradOuter ls a (b.set l y) l) = fun y : ℝ => -((a.getD l 0 - y) / (ls.getD l 1) ^ 2) := by
          funext y; simp only [gradOuter, getD_set_self b l y _ hlb, sq_real, lit_real]; push_cast; rfl
        rw [e]; exact h0
      refine (hO.mul (hBd y)).congr_deriv ?_
      simp only [delta, if_true, sq_real, lit_real]; push_cast; ring
    · have hc : ∀ y, gradOuter ls a (b.set l y) k = gradOuter ls a b k := by
        intro y; simp only [gradOuter, getD_set_ne b l k y _ hkl']
      simp only [hc, delta, if_neg (Ne.symm hkl')]
      refine ((hBd y).const_mul (-gradOuter ls a b k)).congr_deriv ?_
      simp only [lit_real]; push_cast; ring

/-- **PolynomialKernelGrad** (`power = p+1 ≥ 1`): components are the partial derivatives of `(aᵀb + c)^(p+1)` -/
theorem polyGrad_entries_are_partials (c : ℝ) (p : ℕ) (a b : List ℝ) (k l : ℕ)
    (hka : k < a.length) (hkb : k < b.length) (hla : l < a.length) (hlb : l < b.length) :
    (∀ x, HasDerivAt (fun x => polyGradEntry c (p + 1) (a.set k x) b 0 0)
            (polyGradEntry c (p + 1) (a.set k x) b (k + 1) 0) x) ∧
    (∀ y, HasDerivAt (fun y => polyGradEntry c (p + 1) a (b.set l y) 0 0)
            (polyGradEntry c (p + 1) a (b.set l y) 0 (l + 1)) y) ∧
    (∀ y, HasDerivAt (fun y => polyGradEntry c (p + 1) a (b.set l y) (k + 1) 0)
            (polyGradEntry c (p + 1) a (b.set l y) (k + 1) (l + 1)) y) := by
  have hS : ∀ y, HasDerivAt (fun y => dot a (b.set l y) + c) (a.getD l 0) y := by
    intro y
    have e : (fun y => dot a (b.set l y) + c) = fun y => dot a (b.set l 0) + a.getD l 0 * y + c := by
      funext y; rw [dot_set_right a b l y hla hlb]
    rw [e]
    have := (((hasDerivAt_id y).const_mul (a.getD l 0)).const_add (dot a (b.set l 0))).add_const c
    exact this.congr_deriv (by simp)
  refine ⟨?_, ?_, ?_⟩
  · intro x
    simp only [polyGradEntry, npow_real, lit_real, Nat.add_sub_cancel]
    have e : (fun x => (dot (a.set k x) b + c) ^ (p + 1)) = fun x => (dot (a.set k 0) b + x * b.getD k 0 + c) ^ (p + 1) := by
      funext x; rw [dot_set_left a b k x hka hkb]
    rw [e, dot_set_left a b k x hka hkb]
    have := ((((hasDerivAt_id x).mul_const (b.getD k 0)).const_add (dot (a.set k 0) b)).add_const c).pow (p + 1)
    refine this.congr_deriv ?_
    push_cast; simp
  · intro y
    simp only [polyGradEntry, npow_real, lit_real, Nat.add_sub_cancel]
    refine ((hS y).pow (p + 1)).congr_deriv ?_
    push_cast; simp
  · intro y
    simp only [polyGradEntry, npow_real, lit_real, Nat.add_sub_cancel]
    cases p with
    | zero =>
      -- power 1: the (k+1, 0) component is b_k
      simp only [Nat.zero_add, pow_zero, mul_one, Nat.le_refl, if_true]
      by_cases hkl' : l = k
      · subst hkl'
        simp only [getD_set_self b l _ _ hlb, delta, if_true]
        exact ((hasDerivAt_id y).const_mul _).congr_deriv (by push_cast; simp)
      · simp only [getD_set_ne b l k _ _ hkl', delta, if_neg (Ne.symm hkl')]
        exact (hasDerivAt_const y _).congr_deriv (by push_cast; simp)
    | succ p =>
      have hle : ¬ (p + 1 + 1 ≤ 1) := by omega
      simp only [hle, if_false, show p + 1 + 1 - 2 = p by omega]
      push_cast
      have hP := ((hS y).pow (p + 1)).const_mul ((p : ℝ) + 1 + 1)
      by_cases hkl' : l = k
      · subst hkl'
        simp only [getD_set_self b l _ _ hlb, delta, if_true]
        refine (hP.mul (hasDerivAt_id y)).congr_deriv ?_
        push_cast; simp; ring
      · simp only [getD_set_ne b l k _ _ hkl', delta, if_neg (Ne.symm hkl')]
        refine (hP.mul_const (b.getD k 0)).congr_deriv ?_
        push_cast; simp; ring

/-- first-derivative blocks at non-coincident rows (kept; superseded by the full-strength
`matern52Grad_entries_are_partials` below, which also covers the Hessian block and r = 0) -/
theorem matern52Grad_partial (ls a b : List ℝ) (k : ℕ)
    (hka : k < a.length) (hkb : k < b.length) (hkl : k < ls.length) :
    (∀ x, 0 < sqDistArd ls (a.set k x) b →
      HasDerivAt (fun x => matern52GradEntry ls (a.set k x) b 0 0) (matern52GradEntry ls (a.set k x) b (k + 1) 0) x) ∧
    (∀ y, 0 < sqDistArd ls a (b.set k y) →
      HasDerivAt (fun y => matern52GradEntry ls a (b.set k y) 0 0) (matern52GradEntry ls a (b.set k y) 0 (k + 1)) y) := by
  have h5 : Real.sqrt 5 ^ 2 = 5 := Real.sq_sqrt (by norm_num)
  -- the closed form along a coordinate: u(x) = C + (x − β)²/λ²
  have key : ∀ (C β lam x : ℝ), 0 < C + (x - β) ^ 2 / lam ^ 2 →
      HasDerivAt (fun x : ℝ => (1 + Real.sqrt 5 * Real.sqrt (C + (x - β) ^ 2 / lam ^ 2)
          + 5 / 3 * Real.sqrt (C + (x - β) ^ 2 / lam ^ 2) ^ 2)
          * Real.exp (-(Real.sqrt 5 * Real.sqrt (C + (x - β) ^ 2 / lam ^ 2))))
        (-(5 / 3 * (1 + Real.sqrt 5 * Real.sqrt (C + (x - β) ^ 2 / lam ^ 2))
          * Real.exp (-(Real.sqrt 5 * Real.sqrt (C + (x - β) ^ 2 / lam ^ 2))) * ((x - β) / lam ^ 2))) x := by
    intro C β lam x hpos
    have hu : HasDerivAt (fun x : ℝ => C + (x - β) ^ 2 / lam ^ 2) (2 * (x - β) / lam ^ 2) x := by
      have := ((((hasDerivAt_id x).sub_const β).pow 2).div_const (lam ^ 2)).const_add C
      exact this.congr_deriv (by simp)
    have hr := hu.sqrt (ne_of_gt hpos)
    have hrpos : 0 < Real.sqrt (C + (x - β) ^ 2 / lam ^ 2) := Real.sqrt_pos.mpr hpos
    -- the closed form as a function of r
    have hm : ∀ r : ℝ, HasDerivAt (fun r : ℝ => (1 + Real.sqrt 5 * r + 5 / 3 * r ^ 2) * Real.exp (-(Real.sqrt 5 * r)))
        (-(5 / 3 * r * (1 + Real.sqrt 5 * r) * Real.exp (-(Real.sqrt 5 * r)))) r := by
      intro r
      have hid := hasDerivAt_id r
      have hpoly := ((hid.const_mul (Real.sqrt 5)).const_add 1).add ((hid.pow 2).const_mul (5 / 3))
      have hexp := (hid.const_mul (Real.sqrt 5)).neg.exp
      refine (hpoly.mul hexp).congr_deriv ?_
      simp only [Pi.neg_apply, Pi.pow_apply, Pi.add_apply, id]
      ring_nf
      rw [h5]
      ring
    have hc := (hm (Real.sqrt (C + (x - β) ^ 2 / lam ^ 2))).comp x hr
    refine hc.congr_deriv ?_
    have hne := ne_of_gt hrpos
    field_simp
  constructor
  · intro x hpos
    have hA := sqDistArd_set_left ls a b k x hka hkb hkl
    have hfun : (fun x => matern52GradEntry ls (a.set k x) b 0 0) = fun x : ℝ =>
        (1 + Real.sqrt 5 * Real.sqrt (sqDistArd ls (a.set k (b.getD k 0)) b + (x - b.getD k 0) ^ 2 / (ls.getD k 1) ^ 2)
          + 5 / 3 * Real.sqrt (sqDistArd ls (a.set k (b.getD k 0)) b + (x - b.getD k 0) ^ 2 / (ls.getD k 1) ^ 2) ^ 2)
          * Real.exp (-(Real.sqrt 5 * Real.sqrt (sqDistArd ls (a.set k (b.getD k 0)) b + (x - b.getD k 0) ^ 2 / (ls.getD k 1) ^ 2))) := by
      funext x
      simp only [matern52GradEntry, maternOfDist, sqDistArd_set_left ls a b k x hka hkb hkl, sqrt_real, exp_real,
        lit_real, sq_real]
      push_cast; rfl
    rw [hfun]
    rw [hA] at hpos
    refine (key _ _ _ x hpos).congr_deriv ?_
    simp only [matern52GradEntry, hA, gradOuter, getD_set_self a k x _ hka, sqrt_real, exp_real, lit_real, sq_real]
    push_cast; ring
  · intro y hpos
    have hB := sqDistArd_set_right ls a b k y hka hkb hkl
    have hfun : (fun y => matern52GradEntry ls a (b.set k y) 0 0) = fun y : ℝ =>
        (1 + Real.sqrt 5 * Real.sqrt (sqDistArd ls a (b.set k (a.getD k 0)) + (y - a.getD k 0) ^ 2 / (ls.getD k 1) ^ 2)
          + 5 / 3 * Real.sqrt (sqDistArd ls a (b.set k (a.getD k 0)) + (y - a.getD k 0) ^ 2 / (ls.getD k 1) ^ 2) ^ 2)
          * Real.exp (-(Real.sqrt 5 * Real.sqrt (sqDistArd ls a (b.set k (a.getD k 0)) + (y - a.getD k 0) ^ 2 / (ls.getD k 1) ^ 2))) := by
      funext y
      have : (a.getD k 0 - y) ^ 2 = (y - a.getD k 0) ^ 2 := by ring
      simp only [matern52GradEntry, maternOfDist, sqDistArd_set_right ls a b k y hka hkb hkl, sqrt_real, exp_real,
        lit_real, sq_real, this]
      push_cast; rfl
    have hsw : (a.getD k 0 - y) ^ 2 = (y - a.getD k 0) ^ 2 := by ring
    rw [hfun]
    rw [hB, hsw] at hpos
    refine (key _ _ _ y hpos).congr_deriv ?_
    simp only [matern52GradEntry, hB, hsw, gradOuter, getD_set_self b k y _ hkb, sqrt_real, exp_real, lit_real, sq_real]
    push_cast; ring

/-- **Matern52KernelGrad, full strength**: for all rows — coincident or not —, all ARD lengthscales `≠ 0`, all
dimensions `k, l`: component `(k+1,0)` is `∂/∂a_k` of the kernel, `(0,k+1)` is `∂/∂b_k`, and the Hessian block
`(k+1,l+1)` is `∂/∂b_l` of the `(k+1,0)` component.  At `r = 0` the chain rule through `√` is replaced by
`hasDerivAt_radial` (the radial profile has derivative `r·G(r)`, vanishing at 0). -/
theorem matern52Grad_entries_are_partials (ls a b : List ℝ) (k l : ℕ)
    (hka : k < a.length) (hkb : k < b.length) (hkl : k < ls.length)
    (hla : l < a.length) (hlb : l < b.length) (hll : l < ls.length)
    (hk0 : ls.getD k 1 ≠ 0) (hl0 : ls.getD l 1 ≠ 0) :
    (∀ x, HasDerivAt (fun x => matern52GradEntry ls (a.set k x) b 0 0) (matern52GradEntry ls (a.set k x) b (k + 1) 0) x) ∧
    (∀ y, HasDerivAt (fun y => matern52GradEntry ls a (b.set l y) 0 0) (matern52GradEntry ls a (b.set l y) 0 (l + 1)) y) ∧
    (∀ y, HasDerivAt (fun y => matern52GradEntry ls a (b.set l y) (k + 1) 0)
            (matern52GradEntry ls a (b.set l y) (k + 1) (l + 1)) y) := by
  have h5 : Real.sqrt 5 ^ 2 = 5 := Real.sq_sqrt (by norm_num)
  -- radial profiles: m(r) = (1+√5 r+5/3 r²)e^{−√5 r}, m' = r·Gm;  h(r) = 5/3(1+√5 r)e^{−√5 r}, h' = r·Gh
  have hm : ∀ r : ℝ, HasDerivAt (fun r : ℝ => (1 + Real.sqrt 5 * r + 5 / 3 * r ^ 2) * Real.exp (-(Real.sqrt 5 * r)))
      (r * (-(5 / 3 * (1 + Real.sqrt 5 * r) * Real.exp (-(Real.sqrt 5 * r))))) r := by
    intro r
    have hid := hasDerivAt_id r
    have hpoly := ((hid.const_mul (Real.sqrt 5)).const_add 1).add ((hid.pow 2).const_mul (5 / 3))
    have hexp := (hid.const_mul (Real.sqrt 5)).neg.exp
    refine (hpoly.mul hexp).congr_deriv ?_
    simp only [Pi.neg_apply, Pi.pow_apply, Pi.add_apply, id]
    ring_nf
    rw [h5]
    ring
  have hh : ∀ r : ℝ, HasDerivAt (fun r : ℝ => 5 / 3 * (1 + Real.sqrt 5 * r) * Real.exp (-(Real.sqrt 5 * r)))
      (r * (-(25 / 3 * Real.exp (-(Real.sqrt 5 * r))))) r := by
    intro r
    have hid := hasDerivAt_id r
    have hpoly := ((hid.const_mul (Real.sqrt 5)).const_add 1).const_mul (5 / 3)
    have hexp := (hid.const_mul (Real.sqrt 5)).neg.exp
    refine (hpoly.mul hexp).congr_deriv ?_
    simp only [Pi.neg_apply, id]
    ring_nf
    rw [h5]
    ring
  -- the b_l-coordinate form of the scaled squared distance
  have hBl : ∀ y, sqDistArd ls a (b.set l y)
      = sqDistArd ls a (b.set l (a.getD l 0)) + (y - a.getD l 0) ^ 2 / (ls.getD l 1) ^ 2 := by
    intro y; rw [sqDistArd_set_right ls a b l y hla hlb hll]; ring
  have hCl : 0 ≤ sqDistArd ls a (b.set l (a.getD l 0)) := sqDistArd_nonneg _ _ _
  refine ⟨?_, ?_, ?_⟩
  · intro x
    have hA : ∀ x, sqDistArd ls (a.set k x) b
        = sqDistArd ls (a.set k (b.getD k 0)) b + (x - b.getD k 0) ^ 2 / (ls.getD k 1) ^ 2 :=
      fun x => sqDistArd_set_left ls a b k x hka hkb hkl
    have hrad := hasDerivAt_radial _ _ hm (sqDistArd ls (a.set k (b.getD k 0)) b) (b.getD k 0) (ls.getD k 1) x
      (sqDistArd_nonneg _ _ _) hk0
    have hfun : (fun x => matern52GradEntry ls (a.set k x) b 0 0) = fun x : ℝ =>
        (fun r : ℝ => (1 + Real.sqrt 5 * r + 5 / 3 * r ^ 2) * Real.exp (-(Real.sqrt 5 * r)))
          (Real.sqrt (sqDistArd ls (a.set k (b.getD k 0)) b + (x - b.getD k 0) ^ 2 / (ls.getD k 1) ^ 2)) := by
      funext x
      simp only [matern52GradEntry, maternOfDist, hA x, sqrt_real, exp_real, lit_real, sq_real]
      push_cast; rfl
    rw [hfun]
    refine hrad.congr_deriv ?_
    simp only [matern52GradEntry, hA x, gradOuter, getD_set_self a k x _ hka, sqrt_real, exp_real, lit_real, sq_real]
    push_cast; ring
  · intro y
    have hrad := hasDerivAt_radial _ _ hm (sqDistArd ls a (b.set l (a.getD l 0))) (a.getD l 0) (ls.getD l 1) y hCl hl0
    have hfun : (fun y => matern52GradEntry ls a (b.set l y) 0 0) = fun y : ℝ =>
        (fun r : ℝ => (1 + Real.sqrt 5 * r + 5 / 3 * r ^ 2) * Real.exp (-(Real.sqrt 5 * r)))
          (Real.sqrt (sqDistArd ls a (b.set l (a.getD l 0)) + (y - a.getD l 0) ^ 2 / (ls.getD l 1) ^ 2)) := by
      funext y
      simp only [matern52GradEntry, maternOfDist, hBl y, sqrt_real, exp_real, lit_real, sq_real]
      push_cast; rfl
    rw [hfun]
    refine hrad.congr_deriv ?_
    simp only [matern52GradEntry, hBl y, gradOuter, getD_set_self b l y _ hlb, sqrt_real, exp_real, lit_real, sq_real]
    push_cast; ring
  · intro y
    have hrad := hasDerivAt_radial _ _ hh (sqDistArd ls a (b.set l (a.getD l 0))) (a.getD l 0) (ls.getD l 1) y hCl hl0
    -- the (k+1,0) component as −h(r(y))·o_k(y)
    have hfun : (fun y => matern52GradEntry ls a (b.set l y) (k + 1) 0) = fun y : ℝ =>
        -((fun r : ℝ => 5 / 3 * (1 + Real.sqrt 5 * r) * Real.exp (-(Real.sqrt 5 * r)))
          (Real.sqrt (sqDistArd ls a (b.set l (a.getD l 0)) + (y - a.getD l 0) ^ 2 / (ls.getD l 1) ^ 2))
          * gradOuter ls a (b.set l y) k) := by
      funext y
      simp only [matern52GradEntry, hBl y, sqrt_real, exp_real, lit_real]
      push_cast; rfl
    rw [hfun]
    by_cases hkl' : l = k
    · subst hkl'
      have hO : HasDerivAt (fun y => gradOuter ls a (b.set l y) l) (-(1 / (ls.getD l 1) ^ 2)) y := by
        have h0 : HasDerivAt (fun y : ℝ => (a.getD l 0 - y) / (ls.getD l 1) ^ 2) (-(1 / (ls.getD l 1) ^ 2)) y := by
          have := ((hasDerivAt_id y).const_sub (a.getD l 0)).div_const ((ls.getD l 1) ^ 2)
          exact this.congr_deriv (by ring)
        have e : (fun y => gradOuter ls a (b.set l y) l) = fun y : ℝ => (a.getD l 0 - y) / (ls.getD l 1) ^ 2 := by
          funext y; simp only [gradOuter, getD_set_self b l y _ hlb, sq_real, lit_real]; push_cast; rfl
        rw [e]; exact h0
      refine ((hrad.mul hO).neg).congr_deriv ?_
      simp only [matern52GradEntry, hBl y, gradOuter, getD_set_self b l y _ hlb, delta, if_true, sqrt_real, exp_real,
        lit_real, sq_real]
      push_cast; ring
    · have hc : ∀ y, gradOuter ls a (b.set l y) k = gradOuter ls a b k := by
        intro y; simp only [gradOuter, getD_set_ne b l k y _ hkl']
      simp only [hc]
      refine ((hrad.mul_const (gradOuter ls a b k)).neg).congr_deriv ?_
      simp only [matern52GradEntry, hBl y, hc, gradOuter, getD_set_self b l y _ hlb, getD_set_ne b l k y _ hkl', delta,
        if_neg (Ne.symm hkl'), sqrt_real, exp_real, lit_real, sq_real]
      push_cast; ring

/-- the one-dimensional Hermite core (kept; the product over dimensions is `rbfGradGrad_entries_are_partials`) -/
theorem rbfGradGrad_partial (l t : ℝ) (hl : l ≠ 0) (n : ℕ) (hn : n ≤ 3) :
    HasDerivAt (fun t : ℝ => gaussHermite n t l * Real.exp (-(t ^ 2 / (2 * l ^ 2))))
      (gaussHermite (n + 1) t l * Real.exp (-(t ^ 2 / (2 * l ^ 2)))) t :=
  hasDerivAt_hermite_core l t hl n hn

/-- **RBFKernelGradGrad, full strength** (all `d`, ARD, all rows): with `d = a.length`, for every dimension
`k < d` and every column component `L` / row component `R` (value, first or second derivative):
`∂/∂a_k` maps row component `0 ↦ k+1 ↦ d+k+1`, `∂/∂b_k` maps column component `0 ↦ k+1 ↦ d+k+1`.
Hence every one of the 9 block types is the corresponding mixed partial derivative (orders ≤ 2 per argument, total
order ≤ 4) of the `(0,0)` entry `rbfSpec`.  Proof: the entry is a product over dimensions of signed Hermite
factors times the kernel (`ggProd`); one coordinate enters through one factor (`ggProd_set_left/right`), whose
derivative is the 1-d core `hasDerivAt_hermite_core`. -/
theorem rbfGradGrad_entries_are_partials (ls a b : List ℝ) (k R L : ℕ)
    (hka : k < a.length) (hkb : k < b.length) (hkl : k < ls.length) (hl0 : ls.getD k 1 ≠ 0) :
    (∀ x, HasDerivAt (fun x => rbfGradGradEntry ls (a.set k x) b 0 L) (rbfGradGradEntry ls (a.set k x) b (k + 1) L) x) ∧
    (∀ x, HasDerivAt (fun x => rbfGradGradEntry ls (a.set k x) b (k + 1) L)
            (rbfGradGradEntry ls (a.set k x) b (a.length + k + 1) L) x) ∧
    (∀ y, HasDerivAt (fun y => rbfGradGradEntry ls a (b.set k y) R 0) (rbfGradGradEntry ls a (b.set k y) R (k + 1)) y) ∧
    (∀ y, HasDerivAt (fun y => rbfGradGradEntry ls a (b.set k y) R (k + 1))
            (rbfGradGradEntry ls a (b.set k y) R (a.length + k + 1)) y) := by
  have hL := ggOrder_le_two a.length L k
  have hR := ggOrder_le_two a.length R k
  have h0 : ggOrder a.length 0 k = 0 := by simp [ggOrder]
  have h1 : ggOrder a.length (k + 1) k = 1 := by
    have : k + 1 ≤ a.length := hka
    simp [ggOrder, this]
  refine ⟨?_, ?_, ?_, ?_⟩
  · intro x
    simp only [rbfGradGradEntry, List.length_set]
    rw [← bump_ggOrder_zero a.length k hka]
    exact hasDerivAt_ggEntry_left _ _ ls a b k x hka hkb hkl hl0 (by omega)
  · intro x
    simp only [rbfGradGradEntry, List.length_set]
    rw [← bump_ggOrder_first a.length k hka]
    exact hasDerivAt_ggEntry_left _ _ ls a b k x hka hkb hkl hl0 (by omega)
  · intro y
    simp only [rbfGradGradEntry]
    rw [← bump_ggOrder_zero a.length k hka]
    exact hasDerivAt_ggEntry_right _ _ ls a b k y hka hkb hkl hl0 (by omega)
  · intro y
    simp only [rbfGradGradEntry]
    rw [← bump_ggOrder_first a.length k hka]
    exact hasDerivAt_ggEntry_right _ _ ls a b k y hka hkb hkl hl0 (by omega)

/-! ### the hypotheses above are satisfiable (non-vacuity) -/

example : ([1, 2] : List ℝ).length = ([0, 0] : List ℝ).length ∧ ([3, 4] : List ℝ).length = ([0, 0] : List ℝ).length := by
  simp
example : sqDistExpansion ([1, 1] : List ℝ) [1, 2] [3, 5] = sqDist ([1, 2] : List ℝ) [3, 5] :=
  sqDist_expansion_eq _ _ _ (by simp) (by simp)
example : (0 : ℝ) < sqDistArd ([1] : List ℝ) (([0] : List ℝ).set 0 1) [0] := by
  simp [sqDistArd]
example : ∀ x : ℝ, HasDerivAt (fun x => rbfGradEntry ([1, 2] : List ℝ) (([0, 1] : List ℝ).set 0 x) [1, 0] 0 0)
    (rbfGradEntry ([1, 2] : List ℝ) (([0, 1] : List ℝ).set 0 x) [1, 0] 1 0) x :=
  (rbfGrad_entries_are_partials [1, 2] [0, 1] [1, 0] 0 1 (by simp) (by simp) (by simp) (by simp) (by simp) (by simp)).1
example : esymmNG ([2, 3, 5] : List ℝ) 2 = 2 * 3 + 2 * 5 + 3 * 5 := by
  rw [newton_girard_identity]; simp [esymm]; ring

-- hypotheses of the axis-aware generated-kernel theorems are satisfiable
example : ([1, 0] : List ℝ).length / 2 * 2 = ([1, 0] : List ℝ).length ∧
    dot ([1, 0] : List ℝ) [0, 1] ≤ ((([1, 0] : List ℝ).length / 2 : ℕ) : ℝ) ∧
    dot ([1, 0] : List ℝ) [1, 0] = ((([1, 0] : List ℝ).length / 2 : ℕ) : ℝ) := by
  refine ⟨by simp, ?_, ?_⟩ <;> simp [dot_cons, dot_nil_left]
example : ∀ k, (fun t _ => t : ℝ → ℝ → ℝ) (nth ([1 / 2, 1 / 3] : List ℝ) k) (1 / 10 ^ 6) = nth ([1 / 2, 1 / 3] : List ℝ) k :=
  fun _ => rfl
example : ([1, 2] : List ℝ).length ≠ 1 := by simp

end C05

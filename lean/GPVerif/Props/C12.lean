/-
C12 — Gaussian-family likelihoods add exactly the specified noise (once), and integrate exactly.

All statements are about the definitions of `GPVerif/Model/Noise.lean` that `drivers/C12.lean` executes
(at `ℚ` / `Float`); here they are instantiated at an arbitrary (semi)ring, resp. at `ℝ`.
-/
import GPVerif.Model.Noise
import GPVerif.Model.NoiseExtra
import GPVerif.Gen.NoiseModels
import GPVerif.Bridge.NoiseGaussian
import GPVerif.Bridge.NoiseIndex
import Mathlib.Tactic.SplitIfs

open Matrix MeasureTheory ProbabilityTheory Real
open scoped NNReal Kronecker

namespace C12
open Noise NoiseIndex
variable {α : Type}

/-! ### the marginal adds the noise operator, once -/

/-- `likelihood(dist).covariance − dist.covariance` is the noise operator. -/
theorem marginal_cov_sub_eq_noise [AddCommGroup α] {n : Nat} (C R : DMat n n α) :
    (marginal C R).toMatrix - C.toMatrix = R.toMatrix := by
  simp [marginal]

/-- The marginal is `C + R`; it could only also be `C + R + R` when `R = 0`. -/
theorem noise_added_once [AddCommGroup α] {n : Nat} (C R : DMat n n α) :
    (marginal C R).toMatrix = C.toMatrix + R.toMatrix ∧
      ((marginal C R).toMatrix = C.toMatrix + R.toMatrix + R.toMatrix → R.toMatrix = 0) := by
  refine ⟨by simp [marginal], fun h => ?_⟩
  have h' : C.toMatrix + R.toMatrix = C.toMatrix + R.toMatrix + R.toMatrix := by
    simpa [marginal] using h
  have := congrArg (fun M => M - (C.toMatrix + R.toMatrix)) h'
  simpa using this.symm

/-! ### single-output likelihoods: which operator -/

/-- `GaussianLikelihood`: `R = σ² I`. -/
theorem homoskedastic_noise [Semiring α] (s : α) (n : Nat) :
    (homoNoise s n none).toMatrix = s • (1 : Matrix (Fin n) (Fin n) α) := by
  simp [homoNoise, homo, Matrix.smul_one_eq_diagonal]

/-- `GaussianLikelihood` with a call-time `noise=ν`: `R = diag ν`. -/
theorem homoskedastic_calltime [Zero α] (s : α) (n : Nat) (ν : Fin n → α) :
    (homoNoise s n (some ν)).toMatrix = Matrix.diagonal ν := by
  simp [homoNoise]

/-- `FixedNoiseGaussianLikelihood`: `R = diag(stored noise)` when the sizes agree. -/
theorem fixed_stored [AddMonoid α] (stored : Array α) (n : Nat) (h : stored.size = n) :
    (fixedNoise stored none n none).toMatrix =
      Matrix.diagonal fun i : Fin n => stored[i.1]'(by rw [h]; exact i.2) := by
  simp [fixedNoise, fixedBase, h]

/-- … the documented no-op when the stored noise has another length and no noise is passed. -/
theorem fixed_size_mismatch_noop [AddMonoid α] (stored : Array α) (n : Nat) (h : stored.size ≠ n) :
    (fixedNoise stored none n none).toMatrix = 0 := by
  simp [fixedNoise, fixedBase, h]

/-- `learn_additional_noise=True`: `R = diag(stored) + σ² I`. -/
theorem fixed_plus_learned [Semiring α] (stored : Array α) (s : α) (n : Nat) (h : stored.size = n) :
    (fixedNoise stored (some s) n none).toMatrix =
      Matrix.diagonal (fun i : Fin n => stored[i.1]'(by rw [h]; exact i.2)) + s • 1 := by
  simp [fixedNoise, fixedBase, homo, h, Matrix.smul_one_eq_diagonal]

/-- call-time noise replaces the stored fixed noise (whatever its size). -/
theorem fixed_calltime [AddMonoid α] (stored : Array α) (n : Nat) (ν : Fin n → α) :
    (fixedNoise stored none n (some ν)).toMatrix = Matrix.diagonal ν := by
  simp [fixedNoise, fixedBase]

/-- **call-time noise together with learned noise**: the added operator is `diag ν + σ² I`
(the pristine code added `2·diag ν` and dropped `σ²`: defect C12(a)). -/
theorem fixed_calltime_plus_learned [Semiring α] (stored : Array α) (s : α) (n : Nat) (ν : Fin n → α) :
    (fixedNoise stored (some s) n (some ν)).toMatrix = Matrix.diagonal ν + s • 1 := by
  simp [fixedNoise, fixedBase, homo, Matrix.smul_one_eq_diagonal]

/-- entrywise reading of the previous theorem. -/
theorem fixed_calltime_plus_learned_entry [Semiring α] (stored : Array α) (s : α) (n : Nat)
    (C : DMat n n α) (ν : Fin n → α) (i j : Fin n) :
    (marginal C (fixedNoise stored (some s) n (some ν))).toMatrix i j =
      C.toMatrix i j + if i = j then ν i + s else 0 := by
  simp only [marginal, DMat.toMatrix_add, fixed_calltime_plus_learned, Matrix.add_apply,
    Matrix.diagonal_apply, Matrix.smul_apply, Matrix.one_apply, smul_eq_mul]
  split_ifs <;> simp

/-! ### multitask likelihoods: the Kronecker layout -/

/-- `kronFlat` is Mathlib's Kronecker product under the row-major identification
`Fin a × Fin b ≃ Fin (a·b)` (`finProdFinEquiv`). -/
theorem kronFlat_eq_kronecker [Mul α] {a b : Nat} (A : DMat a a α) (B : DMat b b α) :
    (kronFlat A B (a * b) rfl).toMatrix =
      Matrix.reindex finProdFinEquiv finProdFinEquiv (A.toMatrix ⊗ₖ B.toMatrix) := by
  funext p q
  simp [kronFlat, Matrix.kroneckerMap_apply, Fin.divNat, Fin.modNat, Matrix.of_apply]

/-- Entry of the flat Kronecker product at `(i·b + k, j·b + l)`. -/
theorem kronFlat_entry [Mul α] {a b : Nat} (A : DMat a a α) (B : DMat b b α) (N : Nat) (h : N = a * b)
    (i j : Fin a) (k l : Fin b) :
    (kronFlat A B N h).toMatrix ⟨i.1 * b + k.1, h ▸ flat_lt i.2 k.2⟩ ⟨j.1 * b + l.1, h ▸ flat_lt j.2 l.2⟩ =
      A.toMatrix i j * B.toMatrix k l := by
  simp only [kronFlat, DMat.toMatrix_ofMatrix, Matrix.of_apply, flat_div k.2, flat_div l.2, flat_mod k.2,
    flat_mod l.2, Fin.eta]

/-- The `t × t` block is `D_t + σ² I_t` (entrywise), for every switch combination. -/
theorem block_entry [Semiring α] {t : Nat} (cfg : MTConfig t α) (a b : Fin t) :
    cfg.block.toMatrix a b =
      (match cfg.task with | some T => T.covar.toMatrix a b | none => 0) +
      (match cfg.global with | some s => if a = b then s else 0 | none => 0) := by
  unfold MTConfig.block
  rcases cfg with ⟨_ | T, _ | s⟩ <;> simp [homo, Matrix.diagonal_apply]

/-- rank 0: `D_t = diag(task_noises)`; rank `r`: `D_t = F Fᵀ`. -/
theorem taskNoise_covar_entry [Semiring α] {t : Nat} (T : TaskNoise t α) (a b : Fin t) :
    T.covar.toMatrix a b =
      match T with
      | .diag d => if a = b then d a else 0
      | .root _ F => ∑ k, F.toMatrix a k * F.toMatrix b k := by
  cases T with
  | diag d => simp [TaskNoise.covar, Matrix.diagonal_apply]
  | root r F => simp [TaskNoise.covar, Matrix.mul_apply]

/-- **Layout**: the entry of the multitask noise between (point `i`, task `a`) and (point `j`, task `b`)
is `δᵢⱼ · (D_t + σ²I)ₐᵦ`, at flat index `i·t + a` for an interleaved input distribution and at `a·n + i` for
a non-interleaved one — for all `n`, `t`, ranks and switch settings. -/
theorem multitask_noise_layout [Semiring α] {t : Nat} (cfg : MTConfig t α) (n : Nat)
    (i j : Fin n) (a b : Fin t) :
    (multitaskNoise cfg n true).toMatrix ⟨i.1 * t + a.1, flat_lt i.2 a.2⟩ ⟨j.1 * t + b.1, flat_lt j.2 b.2⟩
        = (if i = j then cfg.block.toMatrix a b else 0) ∧
    (multitaskNoise cfg n false).toMatrix
        ⟨a.1 * n + i.1, Nat.mul_comm n t ▸ flat_lt a.2 i.2⟩ ⟨b.1 * n + j.1, Nat.mul_comm n t ▸ flat_lt b.2 j.2⟩
        = (if i = j then cfg.block.toMatrix a b else 0) := by
  rcases cfg with ⟨_ | T, g⟩
  · -- no task noise: σ² I_{nt} in either layout
    have key1 : (i.1 * t + a.1 = j.1 * t + b.1) ↔ (i = j ∧ a = b) := by
      constructor
      · intro h
        have h1 := congrArg (· / t) h
        have h2 := congrArg (· % t) h
        simp only [flat_div a.2, flat_div b.2, flat_mod a.2, flat_mod b.2] at h1 h2
        exact ⟨Fin.ext h1, Fin.ext h2⟩
      · rintro ⟨rfl, rfl⟩; rfl
    have key2 : (a.1 * n + i.1 = b.1 * n + j.1) ↔ (i = j ∧ a = b) := by
      constructor
      · intro h
        have h1 := congrArg (· / n) h
        have h2 := congrArg (· % n) h
        simp only [flat_div i.2, flat_div j.2, flat_mod i.2, flat_mod j.2] at h1 h2
        exact ⟨Fin.ext h2, Fin.ext h1⟩
      · rintro ⟨rfl, rfl⟩; rfl
    constructor
    · rcases g with _ | s <;>
        simp only [multitaskNoise, MTConfig.block, homo, DMat.toMatrix_diagonal, DMat.toMatrix_zero,
          Matrix.diagonal_apply, Fin.mk.injEq, key1, Option.getD, Matrix.zero_apply] <;>
        split_ifs <;> simp_all
    · rcases g with _ | s <;>
        simp only [multitaskNoise, MTConfig.block, homo, DMat.toMatrix_diagonal, DMat.toMatrix_zero,
          Matrix.diagonal_apply, Fin.mk.injEq, key2, Option.getD, Matrix.zero_apply] <;>
        split_ifs <;> simp_all
  · constructor
    · simp only [multitaskNoise, if_true]
      rw [kronFlat_entry]
      simp only [DMat.toMatrix_one, Matrix.one_apply]
      split_ifs <;> simp
    · simp only [multitaskNoise, Bool.false_eq_true, if_false]
      rw [kronFlat_entry]
      simp only [DMat.toMatrix_one, Matrix.one_apply]
      split_ifs <;> simp

/-! ### closed forms -/

/-- **expected_log_prob is the integral**: for `r > 0`, `v ≥ 0`,
`∫ log N(y | f, r) dN(m, v)(f) = −½ [ ((y − m)² + v)/r + log r + log 2π ]`, with `N(· | f, r)` Mathlib's
Gaussian density and `N(m, v)` Mathlib's Gaussian measure (`v = 0`: the point mass). -/
theorem expected_log_prob_eq_integral (y m : ℝ) (v r : ℝ≥0) (hr : r ≠ 0) :
    ∫ f, Real.log (gaussianPDFReal f r y) ∂(gaussianReal m v) =
      expectedLogProb Real.log (Real.log (2 * π)) (1 / 2) y m v r := by
  have hr' : (r : ℝ) ≠ 0 := by exact_mod_cast hr
  have e : (fun f : ℝ => Real.log (gaussianPDFReal f r y)) =
      fun f => (-(1 / (2 * (r : ℝ)))) * (y - f) ^ 2 + (-(1 / 2 * (Real.log r + Real.log (2 * π)))) := by
    funext f
    rw [NoiseGaussian.log_gaussianPDFReal f r hr y]
    field_simp
    ring
  rw [e, integral_add ((NoiseGaussian.integrable_sq_dev y m v).const_mul _) (integrable_const _),
    integral_const_mul, NoiseGaussian.gaussian_sq_dev, integral_const]
  simp only [expectedLogProb, elpQuad, probReal_univ, smul_eq_mul, one_mul]
  field_simp
  ring

/-- **log_marginal** is the log density of `N(m, v + r)` at `y`. -/
theorem log_marginal_eq (y m : ℝ) (v r : ℝ≥0) (h : v + r ≠ 0) :
    logMarginal Real.log (Real.log (2 * π)) (1 / 2) y m v r = Real.log (gaussianPDFReal m (v + r) y) := by
  rw [NoiseGaussian.log_gaussianPDFReal m (v + r) h y]
  simp only [logMarginal, lmQuad, NNReal.coe_add]
  ring

/-- The marginal itself: observing `y = f + ε`, `f ~ N(m, v)`, `ε ~ N(0, r)` independent gives
`y ~ N(m, v + r)` (so the density in `log_marginal_eq` is the density of the observation). -/
theorem marginal_is_convolution (m : ℝ) (v r : ℝ≥0) :
    (gaussianReal m v) ∗ (gaussianReal 0 r) = gaussianReal m (v + r) := by
  simpa using gaussianReal_conv_gaussianReal (m₁ := m) (m₂ := 0) (v₁ := v) (v₂ := r)

/-! ### LikelihoodList -/

/-- The zip is defined exactly when the lengths agree (`length_safe_zip` raises otherwise). -/
theorem route_isSome_iff {L A N : Type} (liks : List L) (args : List A) (noise : Option (List N)) :
    (route liks args noise).isSome ↔
      liks.length = args.length ∧ ∀ ns, noise = some ns → args.length = ns.length := by
  cases noise with
  | none => simp [route]
  | some ns =>
    simp only [route]
    split_ifs with h <;> simp_all

/-- **Routing**: member `k` receives argument tuple `k` and (when given) noise `k` — nothing else. -/
theorem likelihood_list_routes {L A N : Type} (liks : List L) (args : List A) (noise : Option (List N))
    (out : List (L × A × Option N)) (h : route liks args noise = some out) :
    out.length = liks.length ∧
    ∀ k (hk : k < liks.length), ∃ a, args[k]? = some a ∧
      match noise with
      | none => out[k]? = some (liks[k], a, none)
      | some ns => ∃ ν, ns[k]? = some ν ∧ out[k]? = some (liks[k], a, some ν) := by
  cases noise with
  | none =>
    simp only [route] at h
    split_ifs at h with hl
    have ho : out = List.zipWith (fun l a => (l, a, none)) liks args := by simpa using h.symm
    subst ho
    refine ⟨by simp [hl], fun k hk => ?_⟩
    have hka : k < args.length := hl ▸ hk
    exact ⟨args[k], by simp [hka], by simp [hk, hka]⟩
  | some ns =>
    simp only [route] at h
    split_ifs at h with hl
    obtain ⟨h1, h2⟩ := hl
    have ho : out = List.zipWith (fun l an => (l, an.1, some an.2)) liks (List.zip args ns) := by
      simpa using h.symm
    subst ho
    refine ⟨by simp [h1, h2], fun k hk => ?_⟩
    have hka : k < args.length := h1 ▸ hk
    have hkn : k < ns.length := h2 ▸ hka
    exact ⟨args[k], by simp [hka], ns[k], by simp [hkn],
      by simp [hk, hka, hkn]⟩

/-- `LikelihoodList(l₁…)(d₁…, noise=[ν₁…])[k] = l_k(d_k, noise=ν_k)`. -/
theorem likelihood_list_call {L A N O : Type} (apply : L → A → Option N → O) (liks : List L) (args : List A)
    (ns : List N) (out : List O) (h : listCall apply liks args (some ns) = some out)
    (k : Nat) (hk : k < liks.length) :
    ∃ a ν, args[k]? = some a ∧ ns[k]? = some ν ∧ out[k]? = some (apply liks[k] a (some ν)) := by
  simp only [listCall, Option.map_eq_some_iff] at h
  obtain ⟨r, hr, rfl⟩ := h
  obtain ⟨_, hall⟩ := likelihood_list_routes liks args (some ns) r hr
  obtain ⟨a, ha, ν, hν, ho⟩ := hall k hk
  exact ⟨a, ν, ha, hν, by simp [List.getElem?_map, ho]⟩

/-- **A `None` entry of the per-member noise list** (`noise=[ν₀, None, ν₂]`): member `k` is called with `noise=None` —
its own stored noise — never with the noise of another member. -/
theorem likelihood_list_none_entry {L A N O : Type} (apply : L → A → Option N → O) (liks : List L) (args : List A)
    (ns : List (Option N)) (out : List O)
    (h : listCall (fun l a e => apply l a (memberCall e)) liks args (some ns) = some out)
    (k : Nat) (hk : k < liks.length) (hnone : ns[k]? = some none) :
    ∃ a, args[k]? = some a ∧ out[k]? = some (apply liks[k] a none) := by
  obtain ⟨a, ν, ha, hν, ho⟩ := likelihood_list_call _ liks args ns out h k hk
  rw [hnone] at hν
  cases hν
  exact ⟨a, ha, by simpa [memberCall] using ho⟩

/-- **Per-member independence**: output `k` depends on member `k`, argument `k` and noise entry `k` only — two calls whose
noise lists agree at position `k` agree at output `k`, whatever the other entries are (tensors or `None`). -/
theorem likelihood_list_member_independent {L A N O : Type} (apply : L → A → Option N → O) (liks : List L)
    (args : List A) (ns ns' : List N) (out out' : List O)
    (h : listCall apply liks args (some ns) = some out) (h' : listCall apply liks args (some ns') = some out')
    (k : Nat) (hk : k < liks.length) (hkk : ns[k]? = ns'[k]?) : out[k]? = out'[k]? := by
  obtain ⟨a, ν, ha, hν, ho⟩ := likelihood_list_call apply liks args ns out h k hk
  obtain ⟨a', ν', ha', hν', ho'⟩ := likelihood_list_call apply liks args ns' out' h' k hk
  rw [ha] at ha'
  rw [hkk, hν'] at hν
  cases ha'
  cases hν
  rw [ho, ho']

/-! ### histories on one object: reading a property is an observation -/

/-- **Reads are invisible**: when no getter of the table writes state, the outputs of every history are those of the
history with its property reads erased — for every state type, every query, every unknown effect `eff` that an impure
getter might have had, every interleaving of reads, documented changes and uses. -/
theorem reads_invisible {σ Q O : Type} (getters : List (String × List String))
    (hpure : ∀ g ∈ getters, g.2 = []) (eff : Nat → σ → σ) (out : σ → Q → O) (s : σ) (h : List (HOp σ Q)) :
    runHist getters eff out s h = runHist getters eff out s (h.filter fun o => !o.isRead) := by
  induction h generalizing s with
  | nil => rfl
  | cons o h ih =>
    cases o with
    | read g =>
      have hw : (getters[g]?.map (·.2)).getD [] = [] := by
        cases hg : getters[g]? with
        | none => rfl
        | some x => simpa using hpure x (List.mem_of_getElem? hg)
      have hf : List.filter (fun o : HOp σ Q => !o.isRead) (HOp.read g :: h) =
          List.filter (fun o => !o.isRead) h := List.filter_cons_of_neg (by simp [HOp.isRead])
      rw [hf]
      simp only [runHist, hw, readEffect, List.isEmpty_nil, if_true, id]
      exact ih s
    | set f =>
      have hf : List.filter (fun o : HOp σ Q => !o.isRead) (HOp.set f :: h) =
          HOp.set f :: List.filter (fun o => !o.isRead) h := List.filter_cons_of_pos (by simp [HOp.isRead])
      rw [hf]
      simp only [runHist]
      exact ih (f s)
    | use q =>
      have hf : List.filter (fun o : HOp σ Q => !o.isRead) (HOp.use q :: h) =
          HOp.use q :: List.filter (fun o => !o.isRead) h := List.filter_cons_of_pos (by simp [HOp.isRead])
      rw [hf]
      simp only [runHist]
      rw [ih s]

/-! ### HeteroskedasticNoise, DirichletClassificationLikelihood, GaussianLikelihoodWithMissingObs -/

/-- `HeteroskedasticNoise`: `R = diag(transform(μ(x)))`, `μ` the noise model's predictive mean at the inputs. -/
theorem hetero_noise [Zero α] (transform : α → α) (n : Nat) (μ : Fin n → α) :
    (heteroNoise transform n μ none).toMatrix = Matrix.diagonal fun i => transform (μ i) := by
  simp [heteroNoise]

/-- … and a call-time `noise=ν` is used directly (the noise model is not consulted). -/
theorem hetero_calltime [Zero α] (transform : α → α) (n : Nat) (μ ν : Fin n → α) :
    (heteroNoise transform n μ (some ν)).toMatrix = Matrix.diagonal ν := by
  simp [heteroNoise]

/-- The heteroskedastic marginal adds that diagonal once: entry `(i, j)` is `C i j + δᵢⱼ transform(μ i)`. -/
theorem hetero_marginal_entry [AddCommMonoid α] (transform : α → α) (n : Nat) (C : DMat n n α) (μ : Fin n → α)
    (i j : Fin n) :
    (marginal C (heteroNoise transform n μ none)).toMatrix i j =
      C.toMatrix i j + if i = j then transform (μ i) else 0 := by
  simp [marginal, heteroNoise, Matrix.diagonal_apply]

/-- **The documented Dirichlet transformation is the log-normal moment match of `Gamma(α, 1)`**: with
`σ̃² = log(1/α + 1)` and `ỹ = log α − σ̃²/2`, the log-normal `exp N(ỹ, σ̃²)` has mean `exp(ỹ + σ̃²/2) = α` and variance
`(exp σ̃² − 1) exp(2ỹ + σ̃²) = α` — for every `α > 0` (Milios et al. 2018, eq. 5–6). -/
theorem dirichlet_moment_match (a : ℝ) (ha : 0 < a) :
    Real.exp (dirTarget Real.log (1 / 2) a + dirSigma2 Real.log a / 2) = a ∧
    (Real.exp (dirSigma2 Real.log a) - 1) * Real.exp (2 * dirTarget Real.log (1 / 2) a + dirSigma2 Real.log a) = a := by
  have hpos : 0 < 1 / a + 1 := by positivity
  have e1 : dirTarget Real.log (1 / 2) a + dirSigma2 Real.log a / 2 = Real.log a := by
    simp only [dirTarget]; ring
  have e2 : 2 * dirTarget Real.log (1 / 2) a + dirSigma2 Real.log a = 2 * Real.log a := by
    simp only [dirTarget]; ring
  have e3 : Real.exp (dirSigma2 Real.log a) = 1 / a + 1 := by
    simp only [dirSigma2]; exact Real.exp_log hpos
  refine ⟨by rw [e1, Real.exp_log ha], ?_⟩
  rw [e2, e3, two_mul, Real.exp_add, Real.exp_log ha]
  field_simp
  ring

/-- the Dirichlet noise is a valid (positive) variance for every `α > 0`. -/
theorem dirSigma2_pos (a : ℝ) (ha : 0 < a) : 0 < dirSigma2 Real.log a := by
  have : 0 < 1 / a := by positivity
  exact Real.log_pos (by linarith)

/-- **Layout of the Dirichlet noise**: class `c` (batch element `c`) gets `R = diag_i σ̃²(α_ε + [label_i = c]) (+ σ_c² I)`;
with call-time labels the same transformation (same `α_ε`) of *those* labels replaces the stored noise. -/
theorem dirichlet_noise_entry [Semiring α] [Div α] (log : α → α) (eps : α) (labels : Nat → Nat) (N c : Nat)
    (learned : Option α) (callLabels : Option (Nat → Nat)) (i j : Fin N) :
    (dirichletNoise log eps labels N c learned N callLabels).toMatrix i j =
      if i = j then dirSigma2 log (dirAlpha eps ((callLabels.getD labels) i.1) c) + learned.getD 0 else 0 := by
  rcases learned with _ | s <;> rcases callLabels with _ | ls <;>
    simp [dirichletNoise, fixedNoise, fixedBase, dirichletStored, dirNoiseEntry, homo, Matrix.diagonal_apply] <;>
    split_ifs <;> simp

/-- **A missing observation contributes exactly `0`, an observed one the GaussianLikelihood term** — and by
`expected_log_prob_eq_integral` that term is the Gaussian integral. -/
theorem missing_obs_term (y : Option ℝ) (m : ℝ) (v r : ℝ≥0) (hr : r ≠ 0) :
    missingObsTerm y (fun y => expectedLogProb Real.log (Real.log (2 * π)) (1 / 2) y m v r) =
      match y with
      | none => 0
      | some y => ∫ f, Real.log (gaussianPDFReal f r y) ∂(gaussianReal m v) := by
  cases y with
  | none => rfl
  | some y => simp only [missingObsTerm]; exact (expected_log_prob_eq_integral y m v r hr).symm

/-! ### the definitions regenerated from the source (`Gen/NoiseModels.lean`, translator G7) are the specification

These are re-checked on every run against the file the translator has just written from `$VERIF_REPO`: a change of
branch order, of the kwargs forwarded to the learned noise, of the Kronecker operand order, of the zip routing or of
the closed-form expression changes the generated definition and breaks the corresponding proof. -/

section generated
open Gen.NoiseModels

/-- **Branch order of `FixedGaussianNoise.forward`**: the generated if-chain is `fixedBase`; in particular an
explicit call-time noise wins whatever the sizes of the stored noise and of the input. -/
theorem gen_fixed_noise_branch_order [Zero α] (stored : Array α) (n : Nat) (call : Option (Fin n → α)) :
    fixedForward stored n call = fixedBase stored n call ∧
    ∀ ν, (fixedForward stored n (some ν)).toMatrix = Matrix.diagonal ν := by
  constructor
  · cases call with
    | none => simp only [fixedForward, fixedBase, retDiagStored, Option.isSome_none, Bool.false_eq_true, if_false]
              split_ifs <;> rfl
    | some ν => simp [fixedForward, fixedBase, retDiagCall]
  · intro ν
    simp [fixedForward, retDiagCall]

/-- `_HomoskedasticNoiseBase.forward` as generated is `homoNoise`. -/
theorem gen_homoskedastic_forward [Zero α] (s : α) (n : Nat) (call : Option (Fin n → α)) :
    homoForward s n call = homoNoise s n call := by
  cases call <;> simp [homoForward, homoNoise, retDiagCall]

/-- **Which kwargs reach the learned noise**: the generated `_shaped_noise_covar` of the fixed-noise likelihood is
`fixedNoise` for every input; with call-time noise and learned noise it adds `diag ν + σ² I`. -/
theorem gen_fixed_calltime_plus_learned [Semiring α] (stored : Array α) (learned : Option α) (n : Nat)
    (call : Option (Fin n → α)) :
    fixedShaped stored learned n call = fixedNoise stored learned n call ∧
    ∀ s ν, (fixedShaped stored (some s) n (some ν)).toMatrix = Matrix.diagonal ν + s • 1 := by
  have h : ∀ (l : Option α) (c : Option (Fin n → α)), fixedShaped stored l n c = fixedNoise stored l n c := by
    intro l c
    cases l with
    | none => simp only [fixedShaped, fixedNoise, (gen_fixed_noise_branch_order stored n c).1]
    | some s =>
      simp only [fixedShaped, fixedNoise, (gen_fixed_noise_branch_order stored n c).1, gen_homoskedastic_forward,
        homoNoise]
  exact ⟨h learned call, fun s ν => by rw [h, fixed_calltime_plus_learned]⟩

/-- the generated `full_covar` expression is `C + R` (noise added once). -/
theorem gen_marginal [Add α] {n : Nat} (C R : DMat n n α) : marginalExpr C R = marginal C R := rfl

/-- **Kronecker operand order per layout and the rank / global / task switches**: the generated multitask
`_shaped_noise_covar` is `multitaskNoise` — hence `multitask_noise_layout` applies to it. -/
theorem gen_multitask_kron_order [Semiring α] {t : Nat} (cfg : MTConfig t α) (n : Nat) (interleaved : Bool) :
    mtShaped cfg n interleaved = multitaskNoise cfg n interleaved := by
  have hT : ∀ T : TaskNoise t α, taskVar T = T.covar := by intro T; cases T <;> rfl
  rcases cfg with ⟨_ | T, _ | s⟩ <;> cases interleaved <;>
    simp [mtShaped, multitaskNoise, MTConfig.block, hT]

/-- **Routing of `LikelihoodList.__call__` / `forward`** as generated from the zip comprehension is `route`. -/
theorem gen_likelihood_list_routes {L A N : Type} (liks : List L) (args : List A) (noise : Option (List N)) :
    listCallRoute liks args noise = route liks args noise ∧
    listForwardRoute liks args noise = route liks args noise := by
  cases noise <;> exact ⟨rfl, rfl⟩

/-- **The expression in `expected_log_prob`** is the closed form of the specification — hence, by
`expected_log_prob_eq_integral`, the Gaussian integral. -/
theorem gen_expected_log_prob_eq_closed_form [Field α] (log : α → α) (log2pi half y m v r : α) :
    expectedLogProbExpr log log2pi half y m v r = expectedLogProb log log2pi half y m v r := by
  simp only [expectedLogProbExpr, expectedLogProb, elpQuad]
  ring

/-- the generated `log_marginal` (torch's Normal density at the diagonal of the generated marginal) is `logMarginal`. -/
theorem gen_log_marginal_eq_closed_form [Field α] (log : α → α) (log2pi half y m v r : α) :
    logMarginalExpr log log2pi half y m v r = logMarginal log log2pi half y m v r := by
  simp only [logMarginalExpr, normalLogProb, logMarginal, lmQuad]

/-- the generated expression integrates exactly (composition with `expected_log_prob_eq_integral`). -/
theorem gen_expected_log_prob_eq_integral (y m : ℝ) (v r : ℝ≥0) (hr : r ≠ 0) :
    ∫ f, Real.log (gaussianPDFReal f r y) ∂(gaussianReal m v) =
      expectedLogProbExpr Real.log (Real.log (2 * π)) (1 / 2) y m v r := by
  rw [gen_expected_log_prob_eq_closed_form]
  exact expected_log_prob_eq_integral y m v r hr

/-- **No property getter of the four files writes state** (table regenerated from the getter bodies: attribute / item
assignments, augmented assignments also through a local alias, in-place tensor methods, mutating calls). -/
theorem gen_property_getters_pure : ∀ g ∈ propertyGetters, g.2 = [] := by decide

/-- … hence every history on a likelihood object gives the outputs of the same history without its property reads. -/
theorem gen_reads_invisible {σ Q O : Type} (eff : Nat → σ → σ) (out : σ → Q → O) (s : σ) (h : List (HOp σ Q)) :
    runHist propertyGetters eff out s h = runHist propertyGetters eff out s (h.filter fun o => !o.isRead) :=
  reads_invisible propertyGetters gen_property_getters_pure eff out s h

/-- **`HeteroskedasticNoise.forward` as generated**: branch order (call-time noise first), constraint transform applied to
the noise model's mean, `noise_indices` selection, and the eval / restore-in-`finally` mode protocol. -/
theorem gen_hetero_forward [Zero α] (transform : α → α) (n : Nat) (μ : Fin n → α) (call : Option (Fin n → α)) :
    heteroForward transform n μ call = heteroNoise transform n μ call ∧
    (∀ {t k : Nat} (μ' : Fin t → α) (idx : Fin k → Fin t),
      heteroTaskDiagGen transform μ' idx = heteroTaskDiag transform μ' idx) ∧
    heteroProtocolGen = heteroProtocol := by
  refine ⟨?_, fun _ _ => rfl, by decide⟩
  cases call <;> simp [heteroForward, heteroNoise, retDiagCall]

/-- **The Dirichlet transformation as generated** from `_prepare_targets`: `α`, `σ̃² = log(1/α + 1)`, `ỹ = log α − σ̃²/2`,
in the `[class, point]` layout the likelihood reads. -/
theorem gen_dirichlet_transform [Field α] (log : α → α) (half eps : α) (labels : Nat → Nat) (c i : Nat) (a : α) :
    dirSigma2Gen log half a = dirSigma2 log a ∧ dirTargetGen log half a = dirTarget log half a ∧
    dirNoiseEntryGen log half eps labels c i = dirNoiseEntry log eps labels c i ∧
    dirTargetEntryGen log half eps labels c i = dirTargetEntry log half eps labels c i := by
  have hA : ∀ p q, dirAlphaEntryGen eps labels p q = dirAlpha eps (labels p) q := by
    intro p q; simp [dirAlphaEntryGen, dirAlpha]
  refine ⟨rfl, rfl, ?_, ?_⟩
  · simp only [dirNoiseEntryGen, dirNoiseEntry, hA]; rfl
  · simp only [dirTargetEntryGen, dirTargetEntry, hA]; rfl

/-- **The Dirichlet noise operator as generated** (constructor and call-time `targets=`) is `dirichletNoise`: the
FixedNoise operator of the transformed labels, call-time labels transformed with the likelihood's own `α_ε`. -/
theorem gen_dirichlet_noise [Field α] (log : α → α) (half eps epsDefault : α) (labels : Nat → Nat) (N c : Nat)
    (learned : Option α) (n : Nat) (callLabels : Option (Nat → Nat)) :
    dirichletShaped log half eps epsDefault labels N c learned n callLabels =
      dirichletNoise log eps labels N c learned n callLabels := by
  have hE : ∀ (e : α) (ls : Nat → Nat) (i : Nat), dirNoiseEntryGen log half e ls c i = dirNoiseEntry log e ls c i :=
    fun e ls i => (gen_dirichlet_transform log half e ls c i 0).2.2.1
  simp only [dirichletShaped, dirichletNoise, dirichletStored, hE, dirCallEps,
    (gen_fixed_calltime_plus_learned _ learned n _).1]

/-- call-time labels use the likelihood's own `alpha_epsilon` and `num_classes` (not the default / a re-inferred one). -/
theorem gen_dirichlet_calltime_own_parameters (e d : α) (a b : Nat) :
    dirCallEps e d = e ∧ dirCallNumClasses a b = a := ⟨rfl, rfl⟩

/-- **`GaussianLikelihoodWithMissingObs` as generated** (fill, GaussianLikelihood term, mask) is `missingObsTerm` of the
closed forms, for `expected_log_prob` and `log_marginal`; it does not depend on the fill value; the marginal is `C + R`. -/
theorem gen_missing_obs [Field α] (log : α → α) (log2pi half fill : α) (y : Option α) (m v r : α) :
    missingElpGen log log2pi half fill y m v r = missingObsTerm y (fun y => expectedLogProb log log2pi half y m v r) ∧
    missingLmGen log log2pi half fill y m v r = missingObsTerm y (fun y => logMarginal log log2pi half y m v r) ∧
    (∀ fill', missingElpGen log log2pi half fill' y m v r = missingElpGen log log2pi half fill y m v r) ∧
    (∀ {n : Nat} (C R : DMat n n α), missingMarginalGen C R = marginal C R) := by
  have h1 : ∀ f, missingElpGen log log2pi half f y m v r =
      missingObsTerm y (fun y => expectedLogProb log log2pi half y m v r) := by
    intro f
    cases y <;> simp [missingElpGen, missingObsTerm, gen_expected_log_prob_eq_closed_form]
  refine ⟨h1 fill, ?_, fun f => by rw [h1, h1], fun _ _ => rfl⟩
  cases y <;> simp [missingLmGen, missingObsTerm, gen_log_marginal_eq_closed_form]

/-- **`FixedGaussianNoise._apply` as generated** (`.to()` / `.double()` / `.float()` / `.cpu()`): the stored noise is mapped by
`fn` and by nothing else — whatever any further operation (`extra`) would do; hence a same-dtype / same-device move
(`fn = id`) leaves the stored noise, and with it the noise operator of every later call, exactly as it was. -/
theorem gen_fixed_apply (fn : α → α) (extra : Nat → α → α) (stored : Array α) :
    fixedApplyGen fn extra stored = fixedApply fn stored ∧ fixedApplyOps = ["fn"] ∧
    fixedApplyGen id extra stored = stored := by
  refine ⟨rfl, by decide, ?_⟩
  simp [fixedApplyGen]

/-- a move that does not change the representation changes no later noise operator (FixedNoise, ± learned, ± call-time). -/
theorem gen_move_keeps_noise [Zero α] [Add α] (extra : Nat → α → α) (stored : Array α) (learned : Option α) (n : Nat)
    (call : Option (Fin n → α)) :
    fixedNoise (fixedApplyGen id extra stored) learned n call = fixedNoise stored learned n call := by
  rw [(gen_fixed_apply id extra stored).2.2]

end generated

/-! ### the hypotheses are satisfiable / the statements are not vacuous -/

example : (fixedNoise (α := ℚ) #[1, 2] (some 3) 2 (some ![5, 7])).toMatrix = !![8, 0; 0, 10] := by
  rw [fixed_calltime_plus_learned]
  ext i j; fin_cases i <;> fin_cases j <;> simp <;> norm_num

example : route [10, 20] ["a", "b"] (some [1.5, 2.5]) = some [(10, "a", some 1.5), (20, "b", some 2.5)] := rfl
example : route [10, 20] ["a"] (none : Option (List Nat)) = none := rfl

example : ∃ r : ℝ≥0, r ≠ 0 := ⟨1, one_ne_zero⟩

/-- a history with reads (`noise`, then `noise` again) between a use, a documented change and another use -/
example : runHist (σ := Nat) (Q := Nat) (O := Nat) [("noise", [])] (fun _ s => s + 100) (· + ·) 1
      [.use 10, .read 0, .read 0, .set (· * 2), .read 0, .use 10] = [11, 12] := by decide
/-- … and the same history when the getter writes (the seeded `noise += second_noise`): the uses change -/
example : runHist (σ := Nat) (Q := Nat) (O := Nat) [("noise", ["self.noise_covar.noise"])] (fun _ s => s + 100) (· + ·) 1
      [.use 10, .read 0, .use 10] = [11, 111] := by decide
example : listCall (fun (l : Nat) (a : Nat) (e : Option (Option Nat)) => (l, a, memberCall e)) [1, 2, 3] [4, 5, 6]
      (some [some 7, none, some 9]) = some [(1, 4, some 7), (2, 5, none), (3, 6, some 9)] := by decide

example : ∃ a : ℝ, 0 < a := ⟨1 / 100, by norm_num⟩
example : (dirichletNoise (α := ℚ) id (1 / 100) (fun i => i % 3) 3 1 (some 2) 3 none).toMatrix 1 1 =
    1 / (1 / 100 + 1) + 1 + 2 := by
  rw [dirichlet_noise_entry]; simp [dirSigma2, dirAlpha]
example : missingObsTerm (none : Option ℚ) (fun y => y + 1) = 0 ∧ missingObsTerm (some (2 : ℚ)) (fun y => y + 1) = 3 := by
  constructor
  · simp [missingObsTerm]
  · simp [missingObsTerm]; norm_num

example : fixedApply (fun x : ℚ => x) #[1 / 100000000, 3] = #[1 / 100000000, 3] := by simp [fixedApply]

end C12

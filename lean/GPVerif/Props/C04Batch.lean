/-
C04 (batch part) — `fantasy_batch_shapes`: the batch-shape choreography of `ExactGP.get_fantasy_model` /
`DefaultPredictionStrategy.get_fantasy_strategy` / `FixedNoiseGaussianLikelihood.get_fantasy_likelihood`, as regenerated
from the Python source (`Gen/FantasyShapes.lean`), for **all** batch shapes.

* `mb` = batch shape of the model (training inputs / targets, hyper-parameters, `lik_train_train_covar`, `mean_cache`),
  `ib` = of the fantasy inputs, `tb` = of the fantasy targets, `kb` = of the call-time `noise=`; innermost-first.
* `Accepts mb ib tb kb` (`Model/FantasyShapes.lean`) is the explicit, decidable acceptance condition, one conjunct per
  check of the code; `gen_fantasy_accepts_iff` proves *the code's checks ⇔ the predicate*.
* `fantasy_batch_shapes`: when accepted, every output / carried cache has the stated batch shape and its element `e`
  is exactly the **unbatched** fantasy step (`elemFantasy`: the same program on batch-rank-0 inputs) applied to the
  training data / hyper-parameters / caches of replica `bidxR mb e` and the fantasy points `bidxR ib e` / targets
  `bidxR tb e` — nothing else enters.  This holds for every interpretation `I` of the element-level primitives
  (torch `matmul`, `cholesky_solve`, … act on the trailing dimensions of one batch element); `Props/C04.lean` is
  about that element level (`gen_fant_step_eq_model`, `fantasy_fold_eq_scratch`), `Props/C04BatchAlgebra.lean` joins
  the two.

The element type `X` and the interpretation `I` are arbitrary throughout.
-/
import GPVerif.Bridge.FantasyShapes
import GPVerif.Gen.FantasyShapes

namespace C04Batch
open Bcast Choreo FShapes Gen.FantasyShapes

variable {X : Type}

/-! ### the generated programs are inside the fragment for which slicing is natural -/

theorem gen_fantasy_wf : wfProg fantasyProgram = true ∧ wfProg fixedNoiseProgram = true := by decide

/-! ### acceptance: the code's checks ⇔ the explicit predicate -/

/-- what the shapes of the outputs have to be -/
def OutShapes (mb ib tb : RShape) (A : SEnv) : Prop :=
  A.ten Reg.outTrainX = some (outXShape mb ib tb) ∧ A.ten Reg.outTrainY = some (adj mb tb) ∧
  A.ten Reg.sTrainX = some (stratShape mb ib tb) ∧ A.ten Reg.sMean = some (stratShape mb ib tb) ∧
  A.ten Reg.sCovar = some (stratShape mb ib tb) ∧ A.ten Reg.sLabels = some (adj mb tb) ∧
  A.ten Reg.sRoot = some (stratShape mb ib tb) ∧ A.ten Reg.sInvRoot = some (adj mb ib) ∧
  A.ten Reg.outMeanCache = some (cacheShape mb ib tb) ∧ A.ten Reg.outCovarCache = some (adj mb ib)

set_option maxHeartbeats 4000000 in
/-- **sufficiency, and the shape of every output**: under `Accepts` every statement of the generated program succeeds
(all 72 of them, symbolically executed for arbitrary shapes), and the outputs have the stated batch shapes -/
theorem gen_fantasy_run_of_accepts (mb ib tb kb : RShape) (h : Accepts mb ib tb kb) :
    ∃ A, runS fantasyProgram (fantasySEnv nShapes mb ib tb kb) = some A ∧ OutShapes mb ib tb A := by
  obtain ⟨hrank, hbc, h3, h4, h5, h6, hkb, hR, hcr, hfin⟩ := h
  obtain ⟨R, eR⟩ := Option.isSome_iff_exists.mp hR
  have xR := bcastR_expands eR
  have eR1 : bcastR R (adj mb ib) = some R := bcastR_of_expands' xR.2
  have eR2 : bcastR (adj mb ib) R = some R := xR.2
  have eR3 : bcastR mb R = some R := expands_trans h3 xR.2
  have e3' : bcastR (adj mb ib) mb = some (adj mb ib) := bcastR_of_expands' h3
  have elik : bcastAll [adj mb ib, mb, ib, kb] = some (adj mb ib) :=
    bcastAll_eq_of_mem (by
      intro a ha
      simp only [List.mem_cons, List.not_mem_nil, or_false] at ha
      rcases ha with rfl | rfl | rfl | rfl
      · exact expands_refl _
      · exact h3
      · exact h5
      · exact hkb) (by simp)
  unfold Expands at h3 h4 h5 h6 hfin
  apply wp_run
  simp only [fantasyProgram, modelPre, strategy, modelPost, List.cons_append, List.nil_append, fantasySEnv, nShapes,
    List.replicate, Reg.trainX, Reg.trainY, Reg.xf, Reg.yf, Reg.theta, Reg.ltt, Reg.meanCache, Reg.kw]
  by_cases hb0 : ib.length < mb.length <;> by_cases hb1 : tb.length < mb.length
  all_goals simp only [adj, hb0, hb1, if_true, if_false] at h3 h4 h5 h6 hfin hcr eR eR1 eR2 eR3 e3' elik ⊢
  all_goals try (exfalso; omega)
  all_goals by_cases hf : ib.length + 1 = tb.length
  all_goals first | (have hfin' := hfin hf.symm) | (have hf' : ¬ (tb.length = ib.length + 1) := fun h => hf h.symm)
  all_goals clear hfin
  all_goals try (exfalso; omega)
  all_goals first | (have hs1 : ¬ (mb.length + 2 ≤ mb.length + 1) := by omega) | skip
  all_goals first | (have hs2 : ¬ (mb.length + 2 ≤ tb.length + 1) := by omega) | skip
  all_goals first | (have hs3 : ib.length + 2 ≤ tb.length + 1 := by omega) | skip
  all_goals first | (have hs4 : ¬ (ib.length + 2 ≤ tb.length + 1) := by omega) | skip
  all_goals first | (have hs5 : 1 ≤ tb.length := by omega) | skip
  all_goals first | (rcases hcr with hlt | heq) | skip
  all_goals try (exfalso; omega)
  all_goals first | (subst heq) | skip
  all_goals (iterate 72 fstep)
  all_goals simp only [wp, OutShapes, Reg.outTrainX, Reg.outTrainY, Reg.sTrainX, Reg.sMean, Reg.sCovar, Reg.sLabels,
    Reg.sRoot, Reg.sInvRoot, Reg.outMeanCache, Reg.outCovarCache, upd, outXShape, stratShape, cacheShape, sharedInputs, adj,
    Nat.reduceEqDiff, reduceCtorEq, if_true, if_false, decide_eq_true_eq, Option.getD_some, and_self, *]

/-- the rank check is the first thing that can fail -/
theorem gen_fantasy_rank_of_run (mb ib tb kb : RShape) {B : SEnv}
    (h : runS fantasyProgram (fantasySEnv nShapes mb ib tb kb) = some B) :
    tb.length = ib.length + 1 ∨ tb.length = ib.length := by
  simp only [fantasyProgram, modelPre, strategy, modelPost, List.cons_append, List.nil_append, fantasySEnv, nShapes,
    List.replicate, Reg.trainX, Reg.trainY, Reg.xf, Reg.yf, Reg.theta, Reg.ltt, Reg.meanCache, Reg.kw] at h
  iterate 7 bstep
  exact hc

set_option maxHeartbeats 4000000 in
/-- **necessity**: whenever the generated program runs through, every conjunct of `Accepts` holds (each one is the
success condition of one of its statements) -/
theorem gen_fantasy_accepts_of_run (mb ib tb kb : RShape) {B : SEnv}
    (h : runS fantasyProgram (fantasySEnv nShapes mb ib tb kb) = some B) : Accepts mb ib tb kb := by
  have hrank := gen_fantasy_rank_of_run mb ib tb kb h
  simp only [fantasyProgram, modelPre, strategy, modelPost, List.cons_append, List.nil_append, fantasySEnv, nShapes,
    List.replicate, Reg.trainX, Reg.trainY, Reg.xf, Reg.yf, Reg.theta, Reg.ltt, Reg.meanCache, Reg.kw] at h
  rcases hrank with hf | hf
  all_goals by_cases hb0 : ib.length < mb.length
  all_goals by_cases hb1 : ib.length + 1 < mb.length
  all_goals try (exfalso; omega)
  all_goals first | (have hs1 : ¬ (mb.length + 2 ≤ mb.length + 1) := by omega) | skip
  all_goals first | (have hs2 : ¬ (mb.length + 2 ≤ ib.length + 1 + 1) := by omega) | skip
  all_goals first | (have hs3 : ib.length + 2 ≤ ib.length + 1 + 1 := by omega) | skip
  all_goals first | (have hs4 : ¬ (ib.length + 2 ≤ ib.length + 1) := by omega) | skip
  all_goals first | (have hs5 : 1 ≤ ib.length + 1 := by omega) | skip
  all_goals first | (have hs6 : ¬ (ib.length = ib.length + 1) := by omega) | skip
  all_goals (iterate 72 bstep)
  all_goals clear h
  all_goals have hkb := bcastAll_expands ‹bcastAll _ = some _› kb (by simp)
  all_goals first | (have hcr9 := or_of_ite_true ‹if _ then True else _›) | skip
  all_goals simp only [Accepts, adj, Expands, bcastR_self, if_true, if_false, true_and, and_true, true_or, or_true, false_or,
    or_false, Option.isSome_some, implies_true, false_implies, Nat.lt_irrefl, *] at hkb ⊢

/-- **the code's checks ⇔ the predicate** (shape level) -/
theorem gen_fantasy_accepts_iff (mb ib tb kb : RShape) :
    (runS fantasyProgram (fantasySEnv nShapes mb ib tb kb)).isSome = true ↔ Accepts mb ib tb kb := by
  constructor
  · intro h
    obtain ⟨B, hB⟩ := Option.isSome_iff_exists.mp h
    exact gen_fantasy_accepts_of_run mb ib tb kb hB
  · intro h
    obtain ⟨A, hA, _⟩ := gen_fantasy_run_of_accepts mb ib tb kb h
    simp [hA]

/-! ### the unbatched step: the generated program on batch-rank-0 inputs is `elemFantasy` -/

/-- value of output register `o` of a run on batch-rank-0 inputs -/
def outOf (r : Option (Env X)) (o : Nat) : Option X := (r.bind (·.ten o)).map (·.get [])

/-- the batch-rank-0 call -/
def scalarRun (I : Nat → List X → X) (a b c d th l m k : X) : Option (Env X) :=
  run I fantasyProgram
    (fantasyEnv nShapes (scalarT a) (scalarT b) (scalarT c) (scalarT d) (scalarT th) (scalarT l) (scalarT m) (scalarT k))

/-- on batch-rank-0 inputs every rank test is decided, every `expand` / `view` / repeat is the identity, and what is
left is the element-level dataflow `elemFantasy` (by evaluation of the generated program) -/
theorem gen_fantasy_unbatched (I : Nat → List X → X) (a b c d th l m k : X) :
    (scalarRun I a b c d th l m k).isSome = true ∧
    outOf (scalarRun I a b c d th l m k) Reg.outTrainX = some (elemFantasy I a b c d th l m k).trainX ∧
    outOf (scalarRun I a b c d th l m k) Reg.outTrainY = some (elemFantasy I a b c d th l m k).trainY ∧
    outOf (scalarRun I a b c d th l m k) Reg.sTrainX = some (elemFantasy I a b c d th l m k).sTrainX ∧
    outOf (scalarRun I a b c d th l m k) Reg.sMean = some (elemFantasy I a b c d th l m k).sMean ∧
    outOf (scalarRun I a b c d th l m k) Reg.sCovar = some (elemFantasy I a b c d th l m k).sCovar ∧
    outOf (scalarRun I a b c d th l m k) Reg.sLabels = some (elemFantasy I a b c d th l m k).sLabels ∧
    outOf (scalarRun I a b c d th l m k) Reg.sRoot = some (elemFantasy I a b c d th l m k).sRoot ∧
    outOf (scalarRun I a b c d th l m k) Reg.sInvRoot = some (elemFantasy I a b c d th l m k).sInvRoot ∧
    outOf (scalarRun I a b c d th l m k) Reg.outMeanCache = some (elemFantasy I a b c d th l m k).meanCache ∧
    outOf (scalarRun I a b c d th l m k) Reg.outCovarCache = some (elemFantasy I a b c d th l m k).covarCache :=
  ⟨rfl, rfl, rfl, rfl, rfl, rfl, rfl, rfl, rfl, rfl, rfl⟩

/-! ### the batched call -/

/-- register `o` of `E'` holds a tensor of batch shape `s` whose element `e` is `val e` -/
def OutputIs (E' : Env X) (o : Nat) (s : RShape) (val : RIdx → X) : Prop :=
  ∃ t, E'.ten o = some t ∧ t.shape = s ∧ ∀ e, InRange e s → t.get e = val e

theorem sliceEnv_fantasyEnv (n : Nat) (trainX trainY xf yf theta ltt mc kw : T X) (e : RIdx) :
    sliceEnv (fantasyEnv n trainX trainY xf yf theta ltt mc kw) e =
      fantasyEnv n (sliceT trainX e) (sliceT trainY e) (sliceT xf e) (sliceT yf e) (sliceT theta e) (sliceT ltt e)
        (sliceT mc e) (sliceT kw e) := by
  simp only [sliceEnv, fantasyEnv, List.map_replicate]
  congr 1
  funext r
  simp only [upd, sliceT, scalarT]
  repeat' split
  all_goals first | rfl | (exfalso; omega)

/-- one output of the batched call, from (i) its shape, (ii) naturality of the generated program under slicing and
(iii) the evaluation of the unbatched call -/
theorem output_of_run (I : Nat → List X → X) {trainX trainY xf yf theta ltt mc kw : T X} {E' : Env X}
    (hE : run I fantasyProgram (fantasyEnv nShapes trainX trainY xf yf theta ltt mc kw) = some E')
    {A : SEnv} (hA : runS fantasyProgram (fantasyEnv nShapes trainX trainY xf yf theta ltt mc kw).abs = some A)
    (o : Nat) {s : RShape} (hs : A.ten o = some s) (field : ElemOut X → X)
    (hfield : ∀ a b c d th l m k, outOf (scalarRun I a b c d th l m k) o = some (field (elemFantasy I a b c d th l m k))) :
    OutputIs E' o s (fun e => field (elemFantasy I (trainX.get (bidxR trainX.shape e)) (trainY.get (bidxR trainY.shape e))
      (xf.get (bidxR xf.shape e)) (yf.get (bidxR yf.shape e)) (theta.get (bidxR theta.shape e))
      (ltt.get (bidxR ltt.shape e)) (mc.get (bidxR mc.shape e)) (kw.get (bidxR kw.shape e)))) := by
  have hsh := run_shape_of I fantasyProgram hE hA o
  rw [hs] at hsh
  cases ht : E'.ten o with
  | none => simp [ht] at hsh
  | some t =>
    simp [ht] at hsh
    refine ⟨t, ht, hsh, fun e he => ?_⟩
    -- the run on the slices at `e`
    have hsl := sliceEnv_fantasyEnv nShapes trainX trainY xf yf theta ltt mc kw e
    have hsc := hfield (trainX.get (bidxR trainX.shape e)) (trainY.get (bidxR trainY.shape e))
      (xf.get (bidxR xf.shape e)) (yf.get (bidxR yf.shape e)) (theta.get (bidxR theta.shape e))
      (ltt.get (bidxR ltt.shape e)) (mc.get (bidxR mc.shape e)) (kw.get (bidxR kw.shape e))
    have hsome := (gen_fantasy_unbatched I (trainX.get (bidxR trainX.shape e)) (trainY.get (bidxR trainY.shape e))
      (xf.get (bidxR xf.shape e)) (yf.get (bidxR yf.shape e)) (theta.get (bidxR theta.shape e))
      (ltt.get (bidxR ltt.shape e)) (mc.get (bidxR mc.shape e)) (kw.get (bidxR kw.shape e))).1
    simp only [scalarRun] at hsc hsome
    obtain ⟨S', hS'⟩ := Option.isSome_iff_exists.mp hsome
    have hS'' : run I fantasyProgram (sliceEnv (fantasyEnv nShapes trainX trainY xf yf theta ltt mc kw) e) = some S' := by
      rw [hsl]; exact hS'
    obtain ⟨u, hu, hget⟩ := slice_output I fantasyProgram gen_fantasy_wf.1 hE hS'' ht (by rw [hsh]; exact he)
    rw [hget]
    simp only [outOf, hS', Option.bind_some, hu, Option.map_some, Option.some.injEq] at hsc
    exact hsc

/-- **`fantasy_batch_shapes`.**  For every model batch shape `mb`, fantasy-input batch shape `ib`, fantasy-target batch
shape `tb` (and call-time noise batch shape `kb`):

1. the batched call goes through **iff** `Accepts mb ib tb kb` (the code's checks ⇔ the predicate), and then
2. every output and carried cache has the stated batch shape, and its element `e` is the *unbatched* fantasy step on
   the training data / hyper-parameters / caches of replica `bidxR mb e` and the fantasy inputs `bidxR ib e`, targets
   `bidxR tb e`, noise `bidxR kb e`.

`new_model.train_inputs` has shape `tb'` for fantasies at shared points and `ib'` otherwise; `train_targets` / the
strategy's labels `tb'`; the strategy's inputs, prior mean and covariance and root `(F, *ib')` resp. `ib'`; the inverse
root and `covar_cache` `ib'` ("broadcasting will do the right thing"); the mean cache `broadcast(tb, ib')`. -/
theorem fantasy_batch_shapes (I : Nat → List X → X) (trainX trainY xf yf theta ltt mc kw : T X) {mb : RShape}
    (h1 : trainX.shape = mb) (h2 : trainY.shape = mb) (h3 : theta.shape = mb) (h4 : ltt.shape = mb) (h5 : mc.shape = mb) :
    let ib := xf.shape
    let tb := yf.shape
    let kb := kw.shape
    let el := fun e => elemFantasy I (trainX.get (bidxR mb e)) (trainY.get (bidxR mb e)) (xf.get (bidxR ib e))
      (yf.get (bidxR tb e)) (theta.get (bidxR mb e)) (ltt.get (bidxR mb e)) (mc.get (bidxR mb e)) (kw.get (bidxR kb e))
    ((run I fantasyProgram (fantasyEnv nShapes trainX trainY xf yf theta ltt mc kw)).isSome = true ↔ Accepts mb ib tb kb) ∧
    ∀ E', run I fantasyProgram (fantasyEnv nShapes trainX trainY xf yf theta ltt mc kw) = some E' →
      OutputIs E' Reg.outTrainX (outXShape mb ib tb) (fun e => (el e).trainX) ∧
      OutputIs E' Reg.outTrainY (adj mb tb) (fun e => (el e).trainY) ∧
      OutputIs E' Reg.sTrainX (stratShape mb ib tb) (fun e => (el e).sTrainX) ∧
      OutputIs E' Reg.sMean (stratShape mb ib tb) (fun e => (el e).sMean) ∧
      OutputIs E' Reg.sCovar (stratShape mb ib tb) (fun e => (el e).sCovar) ∧
      OutputIs E' Reg.sLabels (adj mb tb) (fun e => (el e).sLabels) ∧
      OutputIs E' Reg.sRoot (stratShape mb ib tb) (fun e => (el e).sRoot) ∧
      OutputIs E' Reg.sInvRoot (adj mb ib) (fun e => (el e).sInvRoot) ∧
      OutputIs E' Reg.outMeanCache (cacheShape mb ib tb) (fun e => (el e).meanCache) ∧
      OutputIs E' Reg.outCovarCache (adj mb ib) (fun e => (el e).covarCache) := by
  intro ib tb kb el
  have habs := abs_fantasyEnv' nShapes (xf := xf) (yf := yf) (kw := kw) h1 h2 h3 h4 h5
  refine ⟨?_, ?_⟩
  · rw [run_isSome_iff, habs]; exact gen_fantasy_accepts_iff mb ib tb kb
  · intro E' hE
    have hacc : Accepts mb ib tb kb := by
      have : (run I fantasyProgram (fantasyEnv nShapes trainX trainY xf yf theta ltt mc kw)).isSome = true := by simp [hE]
      rw [run_isSome_iff, habs] at this
      exact (gen_fantasy_accepts_iff mb ib tb kb).mp this
    obtain ⟨A, hA, s1, s2, s3, s4, s5, s6, s7, s8, s9, s10⟩ := gen_fantasy_run_of_accepts mb ib tb kb hacc
    rw [← habs] at hA
    have g := gen_fantasy_unbatched I
    have key := fun (o : Nat) (s : RShape) (hs : A.ten o = some s) (field : ElemOut X → X)
        (hf : ∀ a b c d th l m k, outOf (scalarRun I a b c d th l m k) o = some (field (elemFantasy I a b c d th l m k))) =>
      output_of_run I hE hA o hs field hf
    simp only [h1, h2, h3, h4, h5] at key
    exact ⟨key _ _ s1 (·.trainX) (fun a b c d th l m k => (g a b c d th l m k).2.1),
      key _ _ s2 (·.trainY) (fun a b c d th l m k => (g a b c d th l m k).2.2.1),
      key _ _ s3 (·.sTrainX) (fun a b c d th l m k => (g a b c d th l m k).2.2.2.1),
      key _ _ s4 (·.sMean) (fun a b c d th l m k => (g a b c d th l m k).2.2.2.2.1),
      key _ _ s5 (·.sCovar) (fun a b c d th l m k => (g a b c d th l m k).2.2.2.2.2.1),
      key _ _ s6 (·.sLabels) (fun a b c d th l m k => (g a b c d th l m k).2.2.2.2.2.2.1),
      key _ _ s7 (·.sRoot) (fun a b c d th l m k => (g a b c d th l m k).2.2.2.2.2.2.2.1),
      key _ _ s8 (·.sInvRoot) (fun a b c d th l m k => (g a b c d th l m k).2.2.2.2.2.2.2.2.1),
      key _ _ s9 (·.meanCache) (fun a b c d th l m k => (g a b c d th l m k).2.2.2.2.2.2.2.2.2.1),
      key _ _ s10 (·.covarCache) (fun a b c d th l m k => (g a b c d th l m k).2.2.2.2.2.2.2.2.2.2)⟩

/-- the data of the new model, spelled out: batch element `e` of `new_model.train_inputs` is `cat([train inputs of
replica bidx e, fantasy inputs bidx e], dim=-2)`, of `train_targets` `cat([train targets of replica bidx e, fantasy
targets bidx e], dim=-1)` — the train data of replica `b` and the fantasy points of element `(f, b)`, nothing else -/
theorem fantasy_train_data_elementwise (I : Nat → List X → X) (a b c d th l m k : X) :
    (elemFantasy I a b c d th l m k).trainX = I (Prim.cat 2) [a, I Prim.ensure2d [c]] ∧
    (elemFantasy I a b c d th l m k).trainY = I (Prim.cat 1) [b, d] := ⟨rfl, rfl⟩

/-! ### `FixedNoiseGaussianLikelihood.get_fantasy_likelihood` -/

theorem gen_noise_run_of_accepts (nb kb : RShape) (h : AcceptsNoise nb kb) :
    ∃ A, runS fixedNoiseProgram (noiseSEnv fixedNoiseNShapes nb kb) = some A ∧ A.ten Reg.outNoise = some kb := by
  apply wp_run
  simp only [fixedNoiseProgram, fixedNoiseNShapes, noiseSEnv, List.replicate, Reg.oldNoise, Reg.newNoise]
  unfold AcceptsNoise at h
  by_cases hl : nb.length = kb.length
  · simp only [hl, ne_eq, not_true_eq_false, if_false] at h
    subst h
    iterate 5 fstep
    simp [wp, upd, Reg.outNoise]
  · simp only [hl, ne_eq, not_false_eq_true, if_true, Expands] at h
    have hl' : ¬ (nb.length + 1 = kb.length + 1) := by omega
    iterate 5 fstep
    simp [wp, upd, Reg.outNoise]

theorem gen_noise_accepts_of_run (nb kb : RShape) {B : SEnv}
    (h : runS fixedNoiseProgram (noiseSEnv fixedNoiseNShapes nb kb) = some B) : AcceptsNoise nb kb := by
  simp only [fixedNoiseProgram, fixedNoiseNShapes, noiseSEnv, List.replicate, Reg.oldNoise, Reg.newNoise] at h
  unfold AcceptsNoise
  by_cases hl : nb.length = kb.length
  · have hl' : nb.length + 1 = kb.length + 1 := by omega
    iterate 5 bstep
    simp [hl]
  · have hl' : ¬ (nb.length + 1 = kb.length + 1) := by omega
    iterate 5 bstep
    simp only [hl, ne_eq, not_false_eq_true, if_true, Expands]
    assumption

/-- the code's checks ⇔ the predicate, for the fantasy noise -/
theorem gen_noise_accepts_iff (nb kb : RShape) :
    (runS fixedNoiseProgram (noiseSEnv fixedNoiseNShapes nb kb)).isSome = true ↔ AcceptsNoise nb kb := by
  constructor
  · intro h
    obtain ⟨B, hB⟩ := Option.isSome_iff_exists.mp h
    exact gen_noise_accepts_of_run nb kb hB
  · intro h
    obtain ⟨A, hA, _⟩ := gen_noise_run_of_accepts nb kb h
    simp [hA]

/-- the unbatched call concatenates `[old noise; new noise]` -/
theorem gen_noise_unbatched (I : Nat → List X → X) (a b : X) :
    (run I fixedNoiseProgram (noiseEnv fixedNoiseNShapes (scalarT a) (scalarT b))).isSome = true ∧
    outOf (run I fixedNoiseProgram (noiseEnv fixedNoiseNShapes (scalarT a) (scalarT b))) Reg.outNoise =
      some (I (Prim.cat 1) [a, b]) := ⟨rfl, rfl⟩

/-- the batched fantasy noise: accepted iff `AcceptsNoise`; shape `kb`; element `e` is
`cat([old noise of replica bidx e, new noise e], dim=-1)` -/
theorem fantasy_noise_elementwise (I : Nat → List X → X) (old new : T X) :
    ((run I fixedNoiseProgram (noiseEnv fixedNoiseNShapes old new)).isSome = true ↔ AcceptsNoise old.shape new.shape) ∧
    ∀ E', run I fixedNoiseProgram (noiseEnv fixedNoiseNShapes old new) = some E' →
      OutputIs E' Reg.outNoise new.shape
        (fun e => I (Prim.cat 1) [old.get (bidxR old.shape e), new.get (bidxR new.shape e)]) := by
  refine ⟨?_, ?_⟩
  · rw [run_isSome_iff, abs_noiseEnv]; exact gen_noise_accepts_iff old.shape new.shape
  · intro E' hE
    have hacc : AcceptsNoise old.shape new.shape := by
      have : (run I fixedNoiseProgram (noiseEnv fixedNoiseNShapes old new)).isSome = true := by simp [hE]
      rw [run_isSome_iff, abs_noiseEnv] at this
      exact (gen_noise_accepts_iff _ _).mp this
    obtain ⟨A, hA, hs⟩ := gen_noise_run_of_accepts _ _ hacc
    rw [← abs_noiseEnv] at hA
    have hsh := run_shape_of I fixedNoiseProgram hE hA Reg.outNoise
    rw [hs] at hsh
    cases ht : E'.ten Reg.outNoise with
    | none => simp [ht] at hsh
    | some t =>
      simp [ht] at hsh
      refine ⟨t, ht, hsh, fun e he => ?_⟩
      obtain ⟨g1, g2⟩ := gen_noise_unbatched I (old.get (bidxR old.shape e)) (new.get (bidxR new.shape e))
      obtain ⟨S', hS'⟩ := Option.isSome_iff_exists.mp g1
      have hS'' : run I fixedNoiseProgram (sliceEnv (noiseEnv fixedNoiseNShapes old new) e) = some S' := by
        rw [sliceEnv_noiseEnv]; exact hS'
      obtain ⟨u, hu, hget⟩ := slice_output I fixedNoiseProgram gen_fantasy_wf.2 hE hS'' ht (by rw [hsh]; exact he)
      rw [hget]
      simp only [outOf, hS', Option.bind_some, hu, Option.map_some, Option.some.injEq] at g2
      exact g2

/-! ### non-vacuity (shapes innermost-first: torch `(3, 2)` is `[2, 3]`) -/

/-- fantasies at shared points: model `(2,)`, inputs `(2,)`, targets `(3, 2)` -/
example : Accepts [2] [2] [2, 3] [] := by decide
/-- … per-fantasy inputs on a non-batched model -/
example : Accepts [] [3] [3] [3] := by decide
/-- non-batched inputs for a batched model, size-1 dims, `f == b` -/
example : Accepts [2] [] [2] [] ∧ Accepts [1, 2] [1, 2] [1, 2, 2] [] := by decide
/-- rejected by the code: rank of the targets, `targets - fant_mean`, `cat_rows` on a size-1 model batch dim, the final
`expand` -/
example : ¬ Accepts [] [] [2, 3] [] ∧ ¬ Accepts [] [3] [2] [] ∧ ¬ Accepts [1] [2] [2] [] ∧ ¬ Accepts [] [2] [1, 2] [] := by decide
example : outXShape [2] [2] [2, 3] = [2, 3] ∧ stratShape [2] [2] [2, 3] = [2, 3] ∧ cacheShape [2] [2] [2, 3] = [2, 3] ∧
    stratShape [] [3] [3] = [3] := by decide
example : AcceptsNoise [2] [2] ∧ AcceptsNoise [] [3] ∧ ¬ AcceptsNoise [2] [3] := by decide

end C04Batch

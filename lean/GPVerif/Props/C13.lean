/-
C13 — non-Gaussian likelihoods: exact Gauss–Hermite rule, analytic Bernoulli marginal, log-normal-cdf.

The theorems are about `Quadrature.ghApply`, `Quadrature.lncdf`, `Quadrature.lncdfGrad` (Model/Quadrature.lean),
which are assembled from the expressions regenerated from gpytorch/utils/quadrature.py,
gpytorch/functions/_log_normal_cdf.py and the likelihood files (`Gen.Quadrature`), instantiated at `ℝ`.
-/
import GPVerif.Bridge.Quadrature
import GPVerif.Bridge.GaussMoments
import GPVerif.Bridge.Probit
import GPVerif.Bridge.QuadMoments
import Mathlib.MeasureTheory.Measure.Dirac
import Mathlib.Tactic.Push

namespace C13
open MeasureTheory ProbabilityTheory Polynomial Quadrature Gen.Quadrature QuadratureReal ScalarFnReal Real
open scoped NNReal

/-- "The rule `[(tᵢ, wᵢ)]` integrates every polynomial of degree `< D` exactly against the Hermite weight
`e^{−t²}/√π`", i.e. against `N(0, ½)` (see `hermite_weight` for the identification): with `m = 0`, `v = ½`
the shifted locations `√(2v)·t + m` are the nodes themselves. -/
def ExactOnHermiteWeight (rule : List (ℝ × ℝ)) (D : ℕ) : Prop :=
  ∀ p : ℝ[X], p.natDegree < D →
    ghApply rule (fun x => p.eval x) 0 (1 / 2) = ∫ t, p.eval t ∂(gaussianReal 0 (1 / 2))

/-- `N(0, ½)` is the Hermite weight: `∫ f dN(0,½) = ∫ (e^{−t²}/√π)·f(t) dt`. -/
theorem hermite_weight (f : ℝ → ℝ) :
    ∫ t, f t ∂(gaussianReal 0 (1 / 2)) = ∫ t, (Real.exp (-t ^ 2) / √π) * f t := by
  rw [integral_gaussianReal_eq_integral_smul (by norm_num)]
  congr 1
  funext t
  simp only [gaussianPDFReal, smul_eq_mul, NNReal.coe_div, NNReal.coe_one, NNReal.coe_ofNat, sub_zero]
  congr 1
  rw [show 2 * π * (1 / 2) = π by ring, show -t ^ 2 / (2 * (1 / 2)) = -t ^ 2 by ring]
  field_simp

/-- **gh_transfer** — if the rule is exact against the Hermite weight for every polynomial of degree `< D`
(for numpy's `hermgauss(N)`: `D = 2N`), then `GaussHermiteQuadrature1D.forward` integrates every polynomial
of degree `< D` exactly against `N(m, v)`, for every mean `m` and every variance `v ≥ 0`. -/
theorem gh_transfer (rule : List (ℝ × ℝ)) (D : ℕ) (H : ExactOnHermiteWeight rule D)
    (m : ℝ) (v : ℝ≥0) (p : ℝ[X]) (hp : p.natDegree < D) :
    ghApply rule (fun x => p.eval x) m v = ∫ x, p.eval x ∂(gaussianReal m v) := by
  set c : ℝ := √(2 * (v : ℝ)) with hc
  let q : ℝ[X] := p.comp (C c * X + C m)
  have hq : q.natDegree < D := by
    refine lt_of_le_of_lt ?_ hp
    calc q.natDegree ≤ p.natDegree * (C c * X + C m).natDegree := natDegree_comp_le
      _ ≤ p.natDegree * 1 := Nat.mul_le_mul_left _ (natDegree_linear_le)
      _ = p.natDegree := Nat.mul_one _
  have hqe : ∀ t, q.eval t = p.eval (c * t + m) := by
    intro t; simp [q, eval_comp]
  have h1 : ghApply rule (fun x => p.eval x) m v = ghApply rule (fun x => q.eval x) 0 (1 / 2) := by
    rw [ghApply_eq, ghApply_eq]
    congr 1
    apply List.map_congr_left
    intro tw _
    rw [hqe]
    simp [hc]
  rw [h1, H q hq, ← map_hermite_weight m v,
    integral_map (by fun_prop) (p.continuous.aestronglyMeasurable)]
  simp only [hqe, hc]

/-- **weights_normalised** — degree-0 case: the scaled weights `wᵢ/√π` sum to one. -/
theorem weights_normalised (rule : List (ℝ × ℝ)) (D : ℕ) (hD : 0 < D) (H : ExactOnHermiteWeight rule D) :
    (rule.map fun tw => ghTerm 1 tw.2).foldr (· + ·) ((0 : Nat) : ℝ) = 1 := by
  have h := H (C 1) (by simpa using hD)
  simp only [eval_C, integral_const, smul_eq_mul, mul_one] at h
  simpa [ghApply, measureReal_def] using h

/-- **gh_nodes_partial** — that the *ideal* `hermgauss(N)` (roots of `H_N`, irrational) satisfies
`ExactOnHermiteWeight · (2N)` is not proved.  Proved here: the hypothesis is satisfiable — the one-point rule
`t = 0, w = √π` (= `hermgauss(1)`) is exact for every polynomial of degree `< 2`.  Proved below, for the tables that are
really shipped (float64 numbers, which can satisfy the equations only up to rounding): `exact_iff_moment_equations`
(the `2N` moment equations characterise exactness, for ANY node table), `gh_residual_bound` (residuals `ε_k` of those
equations bound the error on every polynomial of degree `< 2N` and every `N(m, v)`) and `moment_residual_certified`
(the rational number the driver computes for the shipped table on every run is such an `ε_k`).  What remains external
is a stated numeric bound on those certified residuals, not "numpy is right". -/
theorem gh_nodes_partial : ExactOnHermiteWeight [(0, √π)] 2 := by
  intro p hp
  have hdeg : p.natDegree ≤ 1 := by omega
  obtain ⟨a, b, rfl⟩ := exists_eq_X_add_C_of_natDegree_le_one hdeg
  rw [ghApply_eq]
  have hpi : √π ≠ 0 := by positivity
  simp only [List.map_cons, List.map_nil, List.sum_cons, List.sum_nil, mul_zero, add_zero, eval_add,
    eval_mul, eval_C, eval_X, zero_add]
  have hint : Integrable (fun t : ℝ => a * t) (gaussianReal 0 (1 / 2)) :=
    (integrable_polynomial_gaussianReal 0 (1 / 2) (C a * X)).congr
      (Filter.Eventually.of_forall fun x => by simp)
  rw [integral_add hint (integrable_const _), integral_const_mul, integral_id_gaussianReal]
  simp only [mul_zero, zero_add, integral_const, smul_eq_mul, measureReal_def, measure_univ,
    ENNReal.toReal_one, one_mul]
  field_simp

/-! ### exact moments (the specification the driver evaluates in ℚ) -/

/-- **gauss_moments** — the recursion `M₀ = 1, M₁ = m, M_{k+2} = m·M_{k+1} + (k+1)·v·M_k` that the driver
evaluates in ℚ gives the moments of `N(m, v)`, for every `k`, `m`, `v ≥ 0`
(proof through the moment generating function, `Bridge/GaussMoments.lean`). -/
theorem gauss_moments (m : ℝ) (v : ℝ≥0) (k : ℕ) :
    ∫ x, x ^ k ∂(gaussianReal m v) = gaussMoment m (v : ℝ) k :=
  GaussMoments.integral_pow_gaussianReal m v k

/-- the rule reproduces the exact moments: `ghApply rule (xᵏ) m v = M_k(m, v)` for `k < D`. -/
theorem gh_exact_monomial (rule : List (ℝ × ℝ)) (D : ℕ) (H : ExactOnHermiteWeight rule D)
    (m : ℝ) (v : ℝ≥0) (k : ℕ) (hk : k < D) :
    ghApply rule (fun x => x ^ k) m v = gaussMoment m (v : ℝ) k := by
  have h := gh_transfer rule D H m v (X ^ k) (by simpa using hk)
  simp only [eval_pow, eval_X] at h
  rw [h, gauss_moments]

/-- **gh_exact_poly** — what the correspondence compares: for a coefficient list of length `≤ D` the rule
applied to the polynomial equals the exact expectation `Σ_k c_k·M_k(m,v)` computed by the driver in ℚ. -/
theorem gh_exact_poly (rule : List (ℝ × ℝ)) (D : ℕ) (hD : 0 < D) (H : ExactOnHermiteWeight rule D)
    (m : ℝ) (v : ℝ≥0) (cs : List ℝ) (hlen : cs.length ≤ D) :
    ghApply rule (polyEval cs) m v = polyExpect cs m (v : ℝ) := by
  have hdeg : (listPoly cs).natDegree < D := by
    have := listPoly_natDegree cs
    omega
  have h := gh_transfer rule D H m v (listPoly cs) hdeg
  simp only [listPoly_eval] at h
  rw [h]
  have := integral_pow_mul_listPoly m v cs 0
  simp only [pow_zero, one_mul, listPoly_eval] at this
  rw [this, polyExpect]
  simp only [gaussMomentFast_eq]

/-! ### log-normal-cdf: branch structure and backward -/

/-- **lncdf_branches_partition** — the three forward masks are pairwise disjoint and cover ℝ (every entry
of the output is written exactly once), and the backward's two-way split refines consistently:
`not small = near-zero ∪ ordinary`. -/
theorem lncdf_branches_partition (z : ℝ) :
    (lncdfNearZeroMask z ∨ lncdfSmallMask z ∨ lncdfOrdinaryMask z) ∧
    ¬ (lncdfNearZeroMask z ∧ lncdfSmallMask z) ∧
    ¬ (lncdfNearZeroMask z ∧ lncdfOrdinaryMask z) ∧
    ¬ (lncdfSmallMask z ∧ lncdfOrdinaryMask z) ∧
    (lncdfBackwardSmallMask z ↔ lncdfSmallMask z) ∧
    (¬ lncdfBackwardSmallMask z ↔ (lncdfNearZeroMask z ∨ lncdfOrdinaryMask z)) := by
  simp only [lncdfNearZeroMask, lncdfSmallMask, lncdfOrdinaryMask, lncdfBackwardSmallMask, Nat.cast_one]
  have key : z * z < (0.04 : ℝ) → ¬ z < -1 := by
    intro h1 h2
    have : (1 : ℝ) < z * z := by nlinarith
    norm_num at h1
    linarith
  refine ⟨by tauto, fun h => key h.1 h.2, by tauto, by tauto, trivial, ?_⟩
  constructor
  · intro h; by_cases h1 : z * z < (0.04 : ℝ) <;> tauto
  · rintro (h | h)
    · exact key h
    · tauto

/-- the model function takes exactly the branch selected by the masks -/
theorem lncdf_branch_values (Phi : ℝ → ℝ) (z : ℝ) :
    (lncdfNearZeroMask z → lncdf Phi z = lncdfNearZero z) ∧
    (lncdfSmallMask z → lncdf Phi z = lncdfSmall z) ∧
    (lncdfOrdinaryMask z → lncdf Phi z = Real.log (Phi z)) := by
  obtain ⟨_, h12, _, _, _, _⟩ := lncdf_branches_partition z
  refine ⟨fun h => by simp [lncdf, h], fun h => ?_, fun h => ?_⟩
  · have : ¬ lncdfNearZeroMask z := fun h' => h12 ⟨h', h⟩
    simp [lncdf, this, h]
  · have h' : ¬ (lncdfNearZeroMask z ∨ lncdfSmallMask z) := by
      simpa only [lncdfOrdinaryMask, lncdfNearZeroMask, lncdfSmallMask] using h
    push Not at h'
    simp [lncdf, h'.1, h'.2, lncdfOrdinary]

/-- standard normal density -/
noncomputable def stdNormalPdf (z : ℝ) : ℝ := Real.exp (-(z * z) / 2) / √(2 * π)

/-- for negative `z` (in particular on the whole small branch `z < −1`) the saved numerator and
denominator are positive, so `e = num/den > 0` and `log(e/2)` is a genuine logarithm -/
theorem lncdf_small_num_den_pos (z : ℝ) (hz : z < 0) : 0 < lncdfSmallNum z ∧ 0 < lncdfSmallDen z := by
  constructor
  · simp only [lncdfSmallNum, tf_sqrt, Nat.cast_ofNat]
    repeat (first | apply horner_step_pos hz | norm_num)
  · simp only [lncdfSmallDen, tf_sqrt, Nat.cast_ofNat, Nat.cast_one]
    repeat (first | apply horner_step_pos hz | norm_num)

/-- **lncdf_small_branch_derivative** — on the small branch the forward value is `log(e/2) − z²/2` with
`e = num/den`; *if* that is `log Φ(z)` (i.e. `Φ(z) = (e/2)·e^{−z²/2}`, which is what the rational function
approximates), then the saved backward `√(2/π)·|den/num|` is exactly `φ(z)/Φ(z)`: the backward is the
derivative of the function the forward approximates. -/
theorem lncdf_small_branch_derivative (z Φz : ℝ) (hnum : 0 < lncdfSmallNum z) (hden : 0 < lncdfSmallDen z)
    (hΦ : Real.log Φz = lncdfSmall z) (hΦpos : 0 < Φz) :
    lncdfBackwardSmall (lncdfSmallNum z) (lncdfSmallDen z) = stdNormalPdf z / Φz := by
  have he : 0 < lncdfSmallNum z / lncdfSmallDen z / 2 := by positivity
  have hval : Φz = lncdfSmallNum z / lncdfSmallDen z / 2 * Real.exp (-(z * z) / 2) := by
    have h := congrArg Real.exp hΦ
    rw [Real.exp_log hΦpos] at h
    rw [h]
    have : lncdfSmall z = Real.log (lncdfSmallNum z / lncdfSmallDen z / 2) - z * z / 2 := by
      simp only [lncdfSmall, lncdfSmallNum, lncdfSmallDen, tf_log, Nat.cast_ofNat]
    rw [this, Real.exp_sub, Real.exp_log he, show -(z * z) / 2 = -(z * z / 2) by ring, Real.exp_neg]
    field_simp
  simp only [lncdfBackwardSmall, tf_abs, tf_sqrt, tf_pi, Nat.cast_ofNat, stdNormalPdf]
  rw [abs_of_pos (by positivity), sqrt_two_div_pi, hval]
  have h1 : √(2 * π) ≠ 0 := by positivity
  have h2 := (Real.exp_pos (-(z * z) / 2)).ne'
  field_simp

/-- on the other branches the backward `exp(−z²/2 − logΦ + log ½)·√(2/π)` is exactly `φ(z)/Φ(z)` whenever the
forward value is `log Φ(z)`. -/
theorem lncdf_notsmall_backward (z Φz : ℝ) (hΦpos : 0 < Φz) :
    lncdfBackwardNotSmall z (Real.log Φz) = stdNormalPdf z / Φz := by
  simp only [lncdfBackwardNotSmall, tf_exp, tf_log, tf_sqrt, tf_pi, Nat.cast_ofNat, stdNormalPdf]
  rw [Real.exp_add, Real.exp_sub, Real.exp_log hΦpos, Real.exp_log (by norm_num), sqrt_two_div_pi]
  have h1 : √(2 * π) ≠ 0 := by positivity
  rw [show z * z / -2 = -(z * z) / 2 by ring]
  field_simp
  norm_num

/-- **lncdf_accuracy_partial** — `|lncdf z − log Φ(z)| ≤ 2e-3` on ℝ is a transcendental approximation fact:
swept numerically against 30-digit references, not proved.  Proved: the approximation is exact at the
centre of the near-zero branch, `lncdf 0 = −log 2 = log Φ(0)`. -/
theorem lncdf_accuracy_partial (Phi : ℝ → ℝ) : lncdf Phi 0 = -Real.log 2 := by
  have h0 : lncdfNearZeroMask (0 : ℝ) := by simp only [lncdfNearZeroMask]; norm_num
  rw [(lncdf_branch_values Phi 0).1 h0]
  simp [lncdfNearZero]

/-! ### Bernoulli and Beta likelihoods -/

/-- the Bernoulli link is `m/√(1+v)`; it is odd in `m` (so `p(y=0) = 1 − p(y=1)` by `Φ(−x) = 1 − Φ(x)`)
and reduces to `m` for a point mass. -/
theorem bernoulli_link (m v : ℝ) :
    bernoulliLink m v = m / √(1 + v) ∧ bernoulliLink (-m) v = -bernoulliLink m v ∧ bernoulliLink m 0 = m := by
  simp [bernoulliLink, neg_div]

/-- **probit_identity** — the analytic Bernoulli marginal: for every mean `m` and variance `v ≥ 0`,
`E_{f ~ N(m,v)} Φ(f) = Φ(m/√(1+v))`, the right-hand side being the generated `BernoulliLikelihood.marginal`
expression with `Φ` the standard normal cdf (`Φ(f) = P(Z ≤ f)`, `Z − f ~ N(−m, 1+v)`; `Bridge/Probit.lean`). -/
theorem probit_identity (m : ℝ) (v : ℝ≥0) :
    ∫ f, Probit.Phi f ∂(gaussianReal m v) = bernoulliMarginal Probit.Phi m (v : ℝ) := by
  rw [Probit.probit_identity]
  simp [bernoulliMarginal, bernoulliLink]

/-- `BetaLikelihood.forward`: with mixture `μ = sigmoid f` the concentrations are `μ·s + 1` and
`(1 − μ)·s + 1`; both exceed 1 for `s > 0` (a valid, unimodal Beta) and sum to `s + 2`. -/
theorem beta_parameters (f s : ℝ) (hs : 0 < s) :
    betaAlpha f s = ScalarFn.sigmoid f * s + 1 ∧ betaBeta f s = (1 - ScalarFn.sigmoid f) * s + 1 ∧
    1 < betaAlpha f s ∧ 1 < betaBeta f s ∧ betaAlpha f s + betaBeta f s = s + 2 := by
  have h0 := sigmoid_pos f
  have h1 := sigmoid_lt_one f
  simp only [betaAlpha, betaBeta, Nat.cast_one, Nat.cast_ofNat]
  refine ⟨trivial, by ring, by nlinarith, by nlinarith, by ring⟩

/-- Bernoulli labels `{0,1}` are mapped to signs `{−1,+1}` and the integrand is `log Φ(s·f)`. -/
theorem bernoulli_sign : bernoulliSign (0 : ℝ) = -1 ∧ bernoulliSign (1 : ℝ) = 1 ∧
    ∀ f s : ℝ, bernoulliElpArg f s = f * s := by
  simp only [bernoulliSign, bernoulliElpArg, Nat.cast_ofNat, Nat.cast_one]
  refine ⟨by norm_num, by norm_num, fun _ _ => trivial⟩

/-! ### wiring of `_OneDimensionalLikelihood` and construction histories -/

/-- `expected_log_prob` is the rule applied to the conditional log density itself, `log_marginal` is the `log` of the
rule applied to the conditional density `exp ∘ logp` (generated wiring). -/
theorem one_dim_objectives (rule : List (ℝ × ℝ)) (logp : ℝ → ℝ) (m v : ℝ) :
    expectedLogProb rule logp m v = ghApply rule logp m v ∧
    logMarginal rule logp m v = Real.log (ghApply rule (fun f => Real.exp (logp f)) m v) := by
  simp [expectedLogProb, logMarginal, oneDimExpectedLogProb, oneDimLogMarginal]

/-- hence a polynomial conditional log density of degree `< D` has an exact `expected_log_prob` -/
theorem elp_exact_poly (rule : List (ℝ × ℝ)) (D : ℕ) (hD : 0 < D) (H : ExactOnHermiteWeight rule D)
    (m : ℝ) (v : ℝ≥0) (cs : List ℝ) (hlen : cs.length ≤ D) :
    expectedLogProb rule (polyEval cs) m v = polyExpect cs m (v : ℝ) := by
  rw [(one_dim_objectives rule (polyEval cs) m v).1, gh_exact_poly rule D hD H m v cs hlen]

/-- **one_rule_per_instance** — in every construction history each likelihood carries the node count of the setting
active at ITS construction: what was built before (under other settings) and what is built afterwards is irrelevant. -/
theorem one_rule_per_instance (pre post : List BuildOp) : ∀ s : ℕ,
    builtCounts s (pre ++ BuildOp.build :: post) =
      builtCounts s pre ++ activeSetting s pre :: builtCounts (activeSetting s pre) post := by
  induction pre with
  | nil => intro s; simp [builtCounts, activeSetting, ghqInitNumLocs, likelihoodQuadratureArg]
  | cons op pre ih =>
    intro s
    cases op with
    | setting n => simpa [builtCounts, activeSetting] using ih n
    | build => simpa [builtCounts, activeSetting] using ih s

/-- `SoftmaxLikelihood.forward`: logits are `f Wᵀ` with mixing weights and `f` without. -/
theorem softmax_logits {F W : Type} (mulT : F → W → F) (f : F) (w : W) :
    softmaxLogits mulT f (some w) = mulT f w ∧ softmaxLogits mulT f (none : Option W) = f := ⟨rfl, rfl⟩


/-! ### the moment equations characterise the rule; residuals certified in `ℚ`

`gh_nodes_partial` above leaves "numpy's `hermgauss(N)` is exact for degree `< 2N`" to the correspondence.  What is
proved instead: **any** table `[(tᵢ, wᵢ)]` that satisfies the `D` moment equations `(1/√π)·Σ wᵢ tᵢᵏ = M_k(0,½)`, `k < D`,
is exact (`exact_of_moment_equations`, hence `gh_exact_poly_of_moment_equations`); a table that satisfies them up to
residuals `ε_k` integrates every polynomial of degree `< D` against every `N(m, v)` with error
`≤ Σ_k |q_k|·ε_k` (`gh_residual_bound`); and for a table of rationals (every float64 is one) the number
`momentResidualBound rule k` that the driver computes in `ℚ` *is* such an `ε_k` (`moment_residual_certified`).  So for
the shipped float64 table nothing about numpy is assumed: the driver certifies the `2N` residuals on every run. -/

/-- the table satisfies the `k`-th moment equation of the Hermite weight up to `eps k`, for `k < D` -/
def MomentResiduals (rule : List (ℝ × ℝ)) (D : ℕ) (eps : ℕ → ℝ) : Prop :=
  ∀ k < D, |ghApply rule (fun x => x ^ k) 0 (1 / 2) - gaussMoment (0 : ℝ) (1 / 2) k| ≤ eps k

/-- against the Hermite weight: `|rule(p) − ∫ p dN(0,½)| ≤ Σ_{k<D} |p_k|·ε_k` for every polynomial of degree `< D` -/
theorem gh_residual_bound_hermite (rule : List (ℝ × ℝ)) (D : ℕ) (eps : ℕ → ℝ) (H : MomentResiduals rule D eps)
    (p : ℝ[X]) (hp : p.natDegree < D) :
    |ghApply rule (fun x => p.eval x) 0 (1 / 2) - ∫ t, p.eval t ∂(gaussianReal 0 (1 / 2))| ≤
      ∑ k ∈ Finset.range D, |p.coeff k| * eps k := by
  have hev : (fun x : ℝ => p.eval x) = fun x => ∑ i ∈ Finset.range D, p.coeff i * x ^ i := by
    funext x; exact eval_eq_sum_range' hp x
  rw [hev, ghApply_finset_sum (Finset.range D) (fun i => p.coeff i) (fun i x => x ^ i), integral_sum_monomials,
    ← Finset.sum_sub_distrib]
  refine (Finset.abs_sum_le_sum_abs _ _).trans (Finset.sum_le_sum fun k hk => ?_)
  rw [← mul_sub, abs_mul]
  exact mul_le_mul_of_nonneg_left (H k (Finset.mem_range.mp hk)) (abs_nonneg _)

/-- **gh_residual_bound** — a table that satisfies the moment equations up to `ε_k` integrates every polynomial of
degree `< D` against every `N(m, v)`, `v ≥ 0`, with error at most `Σ_k |q_k|·ε_k`, `q = p(√(2v)·t + m)`. -/
theorem gh_residual_bound (rule : List (ℝ × ℝ)) (D : ℕ) (eps : ℕ → ℝ) (H : MomentResiduals rule D eps)
    (m : ℝ) (v : ℝ≥0) (p : ℝ[X]) (hp : p.natDegree < D) :
    |ghApply rule (fun x => p.eval x) m v - ∫ x, p.eval x ∂(gaussianReal m v)| ≤
      ∑ k ∈ Finset.range D, |(p.comp (C √(2 * (v : ℝ)) * X + C m)).coeff k| * eps k := by
  rw [ghApply_affine, integral_affine]
  exact gh_residual_bound_hermite rule D eps H _ (lt_of_le_of_lt (natDegree_comp_affine_le p _ m) hp)

/-- **exact_of_moment_equations** — ANY node table that makes the rule exact on the monomials `1, t, …, t^{D−1}`
against the Hermite weight is exact on every polynomial of degree `< D` (and conversely, `gh_exact_monomial`). -/
theorem exact_of_moment_equations (rule : List (ℝ × ℝ)) (D : ℕ)
    (H : ∀ k < D, ghApply rule (fun x => x ^ k) 0 (1 / 2) = gaussMoment (0 : ℝ) (1 / 2) k) :
    ExactOnHermiteWeight rule D := by
  intro p hp
  have h := gh_residual_bound_hermite rule D (fun _ => 0) (fun k hk => by rw [H k hk]; simp) p hp
  simp only [mul_zero, Finset.sum_const_zero] at h
  exact sub_eq_zero.mp (abs_nonpos_iff.mp h)

theorem exact_iff_moment_equations (rule : List (ℝ × ℝ)) (D : ℕ) :
    ExactOnHermiteWeight rule D ↔
      ∀ k < D, ghApply rule (fun x => x ^ k) 0 (1 / 2) = gaussMoment (0 : ℝ) (1 / 2) k := by
  refine ⟨fun H k hk => ?_, exact_of_moment_equations rule D⟩
  have := gh_exact_monomial rule D H 0 (1 / 2) k hk
  simpa using this

/-- **gh_exact_poly_of_moment_equations** — the equality the correspondence tests, from the `D` moment equations alone -/
theorem gh_exact_poly_of_moment_equations (rule : List (ℝ × ℝ)) (D : ℕ) (hD : 0 < D)
    (H : ∀ k < D, ghApply rule (fun x => x ^ k) 0 (1 / 2) = gaussMoment (0 : ℝ) (1 / 2) k)
    (m : ℝ) (v : ℝ≥0) (cs : List ℝ) (hlen : cs.length ≤ D) :
    ghApply rule (polyEval cs) m v = polyExpect cs m (v : ℝ) :=
  gh_exact_poly rule D hD (exact_of_moment_equations rule D H) m v cs hlen

/-- **moment_residual_certified** — for a table of rationals the number the driver computes in `ℚ`
(`momentResidualBound`, using only the certified enclosure of `1/√π`) bounds the residual of the `k`-th moment equation
of the table read in `ℝ`; for every table and every `k`. -/
theorem moment_residual_certified (rule : List (ℚ × ℚ)) (k : ℕ) :
    |ghApply (castRule rule) (fun x => x ^ k) 0 (1 / 2) - gaussMoment (0 : ℝ) (1 / 2) k| ≤
      ((momentResidualBound rule k : ℚ) : ℝ) := by
  rw [ghApply_monomial_hermite]
  simp only [momentResidualBound, cast_ratMax, cast_ratAbs, Rat.cast_sub, Rat.cast_mul, cast_momentSum,
    cast_gaussMomentFast]
  have h0 : (((0 : ℚ)) : ℝ) = 0 := Rat.cast_zero
  have h2 : (((1 / 2 : ℚ)) : ℝ) = 1 / 2 := by norm_num
  rw [h0, h2]
  exact abs_affine_le_max invSqrtPi_mem.1 invSqrtPi_mem.2

/-- **gh_certified_error** — the shipped table (rationals) integrates every polynomial of degree `< D` against every
`N(m, v)` with error at most `Σ_{k<D} |q_k|·momentResidualBound rule k`: no assumption about the table is left. -/
theorem gh_certified_error (rule : List (ℚ × ℚ)) (D : ℕ) (m : ℝ) (v : ℝ≥0) (p : ℝ[X]) (hp : p.natDegree < D) :
    |ghApply (castRule rule) (fun x => p.eval x) m v - ∫ x, p.eval x ∂(gaussianReal m v)| ≤
      ∑ k ∈ Finset.range D,
        |(p.comp (C √(2 * (v : ℝ)) * X + C m)).coeff k| * ((momentResidualBound rule k : ℚ) : ℝ) :=
  gh_residual_bound (castRule rule) D _ (fun k _ => moment_residual_certified rule k) m v p hp

/-! ### calls leave the objects alone (facts about the regenerated code) -/

/-- `GaussHermiteQuadrature1D.forward` contains no write to the rule object (no assignment to / in-place operation on /
registration of an attribute of `self`, no memoising decorator): the node table a later call uses is the one the
constructor stored. -/
theorem ghq_forward_pure : ghqForwardStateWrites = 0 := by decide

/-- no call method (`__call__`, `forward`, `marginal`, `log_marginal`, `expected_log_prob`) of `_OneDimensionalLikelihood`,
Bernoulli, Laplace, Student-t, Beta likelihoods writes instance state -/
theorem likelihood_calls_pure : ∀ n ∈ likelihoodCallStateWrites, n = 0 := by decide

/-- **bernoulli_label_map** — the `{0,1} → {−1,+1}` map of `expected_log_prob` is selected by the observations of the
current call only (generated path condition), and both accepted encodings yield the class sign: `{0,1}` labels
(no `−1` present) give `2y−1`, `{−1,1}` labels are used as they are — also when the batch happens to contain no `−1`. -/
theorem bernoulli_label_map : bernoulliLabelGuardIsCurrentInput = true ∧
    (∀ y : ℝ, (y = 0 ∨ y = 1) → bernoulliLabelMap false y = if y = 1 then 1 else -1) ∧
    (∀ (anyNeg : Bool) (y : ℝ), (y = -1 ∨ y = 1) → (y = -1 → anyNeg = true) → bernoulliLabelMap anyNeg y = y) := by
  refine ⟨by decide, ?_, ?_⟩
  · rintro y (rfl | rfl)
    · simp [bernoulliLabelMap, bernoulliSign]
    · simp [bernoulliLabelMap, bernoulliSign]; norm_num
  · rintro anyNeg y (rfl | rfl) h
    · simp [bernoulliLabelMap, h rfl]
    · cases anyNeg
      · simp [bernoulliLabelMap, bernoulliSign]; norm_num
      · simp [bernoulliLabelMap]

section backward
set_option linter.unusedSectionVars false
variable {α : Type} [Add α] [Sub α] [Mul α] [Div α] [Neg α] [NatCast α] [OfScientific α] [TransFn α]

/-- `LogNormalCDF.forward` leaves its input tensor as it was (in-place operations only touch fresh tensors) -/
theorem lncdf_forward_input_untouched (z : α) : lncdfForwardInputAfter z = z := rfl

/-- **lncdf_backward_pure** — one pass of `LogNormalCDF.backward` leaves the saved tensors `z`, `log_phi_z`, the stashed
`ctx.numerator` / `ctx.denominator` and `grad_output` as they were (regenerated with in-place operations followed
through every alias) … -/
theorem lncdf_backward_pure (z logPhi num den g : α) :
    lncdfBackwardStateAfter z logPhi num den g = (z, logPhi, num, den, g) := rfl

/-- … hence **every** backward pass through one graph (`retain_graph=True`) returns what the first one returns. -/
theorem lncdf_backward_repeatable [LT α] [DecidableLT α] (k : ℕ) (z logPhi num den : α) :
    lncdfBackwardNth k z logPhi num den = lncdfBackwardNth 0 z logPhi num den := by
  induction k with
  | zero => rfl
  | succ k ih => simpa only [lncdfBackwardNth, lncdf_backward_pure] using ih

end backward

/-- every backward pass on the small branch returns `φ(z)/Φ(z)` (hypotheses of `lncdf_small_branch_derivative`) -/
theorem lncdf_backward_nth_small (k : ℕ) (z Φz : ℝ) (hz : z < -1) (hΦ : Real.log Φz = lncdfSmall z) (hΦpos : 0 < Φz) :
    lncdfBackwardNth k z (lncdfSmall z) (lncdfSmallNum z) (lncdfSmallDen z) = stdNormalPdf z / Φz := by
  obtain ⟨hn, hd⟩ := lncdf_small_num_den_pos z (by linarith)
  rw [lncdf_backward_repeatable, ← lncdf_small_branch_derivative z Φz hn hd hΦ hΦpos]
  have : lncdfBackwardSmallMask z := by simpa [lncdfBackwardSmallMask] using hz
  simp [lncdfBackwardNth, this]

/-! ### the hypotheses are satisfiable -/

example : ∃ rule : List (ℝ × ℝ), ExactOnHermiteWeight rule 2 := ⟨_, gh_nodes_partial⟩
example : lncdfSmallMask (-3 : ℝ) := by simp only [lncdfSmallMask]; norm_num
example (z : ℝ) (hz : z < -1) : ∃ Φz : ℝ, 0 < Φz ∧ Real.log Φz = lncdfSmall z ∧
    0 < lncdfSmallNum z ∧ 0 < lncdfSmallDen z :=
  ⟨Real.exp (lncdfSmall z), Real.exp_pos _, Real.log_exp _, lncdf_small_num_den_pos z (by linarith)⟩
example : lncdfOrdinaryMask (1 : ℝ) := by simp only [lncdfOrdinaryMask]; norm_num
example : MomentResiduals [(0, √π)] 2 (fun _ => 0) := fun k hk => by
  rw [(exact_iff_moment_equations _ 2).mp gh_nodes_partial k hk]; simp
example : ∀ k < 2, ghApply [(0, √π)] (fun x => x ^ k) 0 (1 / 2) = gaussMoment (0 : ℝ) (1 / 2) k :=
  (exact_iff_moment_equations _ 2).mp gh_nodes_partial
example : momentResidualBound [(0, 2)] 1 = 0 := by decide +kernel

end C13

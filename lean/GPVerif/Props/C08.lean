/-
C08 — batch mode equals independent replicas (no cross-talk between batch elements).

L1 theorems (core Lean: induction on shape lists, `omega`) about `Bcast` and the choreographies of
`BatchOps` that `drivers/C08.lean` executes.  Each `…_elementwise` theorem says: for **all** batch ranks and
all broadcastable pairs of batch shapes, element `b` of the result is the non-batched function of the
parameter slice `bidx b` and the data slice `bidx b` — nothing else enters.
Shapes are innermost-first: torch's `(*batch, n, d)` is `d :: n :: batch`.
-/
import GPVerif.Model.BatchOps
import GPVerif.Gen.BatchChoreo
import GPVerif.Bridge.BcastLemmas

namespace C08
open Bcast BatchOps

variable {α β γ : Type}

/-! ### broadcasting itself -/

theorem broadcastShapes_comm (s t : List Nat) : broadcastShapes s t = broadcastShapes t s := by
  simp [broadcastShapes, bcastR_comm]

theorem broadcastShapes_idem (s : List Nat) : broadcastShapes s s = some s := by
  simp [broadcastShapes, bcastR_self, ofTorch, toTorch]

/-- **`bidx` is well defined**: for every valid index of the broadcast shape, the source index is valid in
the left and in the right operand (all ranks, all broadcastable pairs) -/
theorem bidx_inRange {s t r : RShape} {idx : RIdx} (h : bcastR s t = some r) (hi : InRange idx r) :
    InRange (bidxR s idx) s ∧ InRange (bidxR t idx) t := bidxR_inRange h hi

/-- an operand that is not broadcast is read at the index itself -/
theorem bidx_self {s : RShape} {idx : RIdx} (hi : InRange idx s) : bidxR s idx = idx := bidxR_self hi

/-- row-major offsets and multi-indices are in bijection (what `view` relies on) -/
theorem flat_unflat_bijection (s : RShape) :
    (∀ k, k < numel s → InRange (unflat s k) s ∧ flat s (unflat s k) = k) ∧
    (∀ idx, InRange idx s → flat s idx < numel s ∧ unflat s (flat s idx) = idx) :=
  ⟨fun k hk => ⟨unflat_inRange s k hk, flat_unflat s k hk⟩, fun _ hi => ⟨flat_lt hi, unflat_flat hi⟩⟩

/-! ### local index lemmas -/

theorem bidxR_cons_lt {d i : Nat} (s : RShape) (idx : RIdx) (h : i < d) :
    bidxR (d :: s) (i :: idx) = i :: bidxR s idx := by
  by_cases hd : d = 1
  · subst hd; simp [bidxR]; omega
  · simp [bidxR, hd]

theorem bidxR_cons_one (s : RShape) (i : Nat) (idx : RIdx) : bidxR (1 :: s) (i :: idx) = 0 :: bidxR s idx := by
  simp [bidxR]

/-- the generic statement behind every broadcasting arithmetic operation -/
theorem map2_elementwise (f : α → β → γ) (a : T α) (b : T β) {r : RShape} (h : bcastR a.shape b.shape = some r) :
    ∃ t, T.map2 f a b = some t ∧ t.shape = r ∧
      ∀ idx, t.get idx = f (a.get (bidxR a.shape idx)) (b.get (bidxR b.shape idx)) := by
  refine ⟨_, by simp [T.map2, h]; rfl, rfl, fun _ => rfl⟩

/-! ### the choreographies -/

/-- `x.div(lengthscale)`: `x : (*xb, n, d)`, `lengthscale : (*kb, 1, d)`.  Entry `(b, i, c)` is
`x[bidx b, i, c] / ℓ[bidx b, 0, c]` — for all batch shapes `xb`, `kb` that broadcast. -/
theorem lengthscaleDiv_elementwise (f : α → β → γ) (x : T α) (ℓ : T β) {xb kb bs : RShape} {n d : Nat}
    (hx : x.shape = d :: n :: xb) (hl : ℓ.shape = d :: 1 :: kb) (hb : bcastR xb kb = some bs) :
    ∃ t, lengthscaleDiv f x ℓ = some t ∧ t.shape = d :: n :: bs ∧
      ∀ c i b, c < d → i < n → InRange b bs →
        t.get (c :: i :: b) = f (x.get (c :: i :: bidxR xb b)) (ℓ.get (c :: 0 :: bidxR kb b)) := by
  have hs : bcastR x.shape ℓ.shape = some (d :: n :: bs) := by
    rw [hx, hl]; exact bcastR_cons_same d (bcastR_cons_one_right n hb)
  obtain ⟨t, ht, hts, hget⟩ := map2_elementwise f x ℓ hs
  refine ⟨t, ht, hts, fun c i b hc hi _ => ?_⟩
  rw [hget, hx, hl, bidxR_cons_lt _ _ hc, bidxR_cons_lt _ _ hi, bidxR_cons_lt _ _ hc, bidxR_cons_one]

/-- without ARD the lengthscale is `(*kb, 1, 1)` -/
theorem lengthscaleDiv_elementwise_noARD (f : α → β → γ) (x : T α) (ℓ : T β) {xb kb bs : RShape} {n d : Nat}
    (hx : x.shape = d :: n :: xb) (hl : ℓ.shape = 1 :: 1 :: kb) (hb : bcastR xb kb = some bs) :
    ∃ t, lengthscaleDiv f x ℓ = some t ∧ t.shape = d :: n :: bs ∧
      ∀ c i b, c < d → i < n → InRange b bs →
        t.get (c :: i :: b) = f (x.get (c :: i :: bidxR xb b)) (ℓ.get (0 :: 0 :: bidxR kb b)) := by
  have hs : bcastR x.shape ℓ.shape = some (d :: n :: bs) := by
    rw [hx, hl]; exact bcastR_cons_one_right d (bcastR_cons_one_right n hb)
  obtain ⟨t, ht, hts, hget⟩ := map2_elementwise f x ℓ hs
  refine ⟨t, ht, hts, fun c i b hc hi _ => ?_⟩
  rw [hget, hx, hl, bidxR_cons_lt _ _ hc, bidxR_cons_lt _ _ hi, bidxR_cons_one, bidxR_cons_one]

/-- `view(*shape, 1, 1)` reads the original entry -/
theorem view_11_get (os : T β) {c : RIdx} (hc : InRange c os.shape) :
    (os.view (1 :: 1 :: os.shape)).get (0 :: 0 :: c) = os.get c := by
  simp [T.view, flat, unflat_flat hc]

/-- `ScaleKernel.forward`: `K : (*kb, n, m)`, `outputscale : (*ob)`; entry `(b, i, j)` is
`K[bidx b, i, j] * outputscale[bidx b]` — the `view(*shape, 1, 1)` keeps every batch dimension in place. -/
theorem scaleMul_elementwise (f : α → β → γ) (K : T α) (os : T β) {kb ob bs : RShape} {n m : Nat}
    (hK : K.shape = m :: n :: kb) (ho : os.shape = ob) (hb : bcastR kb ob = some bs) :
    ∃ t, scaleMul f K os = some t ∧ t.shape = m :: n :: bs ∧
      ∀ j i b, j < m → i < n → InRange b bs →
        t.get (j :: i :: b) = f (K.get (j :: i :: bidxR kb b)) (os.get (bidxR ob b)) := by
  have hs : bcastR K.shape (os.view (1 :: 1 :: os.shape)).shape = some (m :: n :: bs) := by
    simp only [T.view, hK, ho]; exact bcastR_cons_one_right m (bcastR_cons_one_right n hb)
  obtain ⟨t, ht, hts, hget⟩ := map2_elementwise f K (os.view (1 :: 1 :: os.shape)) hs
  refine ⟨t, ht, hts, fun j i b hj hi hbr => ?_⟩
  have hin : InRange (bidxR ob b) os.shape := by rw [ho]; exact (bidxR_inRange hb hbr).2
  rw [hget, hK]
  simp only [T.view] at hin ⊢
  rw [bidxR_cons_lt _ _ hj, bidxR_cons_lt _ _ hi, ho, bidxR_cons_one, bidxR_cons_one]
  have := view_11_get os (c := bidxR ob b) hin
  simp only [T.view, ho] at this
  rw [this]

/-- `ScaleKernel.forward(diag=True)`: `Kd : (*kb, n)`, `outputscales.unsqueeze(-1)` -/
theorem scaleMulDiag_elementwise (f : α → β → γ) (Kd : T α) (os : T β) {kb ob bs : RShape} {n : Nat}
    (hK : Kd.shape = n :: kb) (ho : os.shape = ob) (hb : bcastR kb ob = some bs) :
    ∃ t, scaleMulDiag f Kd os = some t ∧ t.shape = n :: bs ∧
      ∀ i b, i < n → InRange b bs → t.get (i :: b) = f (Kd.get (i :: bidxR kb b)) (os.get (bidxR ob b)) := by
  have hs : bcastR Kd.shape (os.unsqueeze 0).shape = some (n :: bs) := by
    simp only [T.unsqueeze, hK, ho, insertAt_zero]; exact bcastR_cons_one_right n hb
  obtain ⟨t, ht, hts, hget⟩ := map2_elementwise f Kd (os.unsqueeze 0) hs
  refine ⟨t, ht, hts, fun i b hi _ => ?_⟩
  rw [hget, hK]
  simp only [T.unsqueeze, ho, insertAt_zero]
  rw [bidxR_cons_lt _ _ hi, bidxR_cons_one]
  simp

/-- `_HomoskedasticNoiseBase.forward` (`num_tasks = 1`): the dense noise covariance of shape
`(*broadcast(nb, xb), n, n)` has `noise[bidx b]` on the diagonal of batch element `b` and zero elsewhere. -/
theorem homoNoise_elementwise (zero : α) (noise : T α) {nb xb bs : RShape} (n : Nat)
    (hn : noise.shape = 1 :: nb) (hb : bcastR nb xb = some bs) :
    ∃ t, homoNoise zero noise xb n = some t ∧ t.shape = n :: n :: bs ∧
      ∀ j i b, InRange b bs →
        t.get (j :: i :: b) = if j = i then noise.get (0 :: bidxR nb b) else zero := by
  refine ⟨_, by simp [homoNoise, hn, hb]; rfl, by simp [constantDiag, T.view], fun j i b hbr => ?_⟩
  simp only [constantDiag, T.view, T.expand, T.unsqueeze, hn, List.getD_cons_zero, List.getD_cons_succ,
    List.drop_succ_cons, List.drop_zero]
  by_cases hji : j = i
  · simp only [hji, if_true]
    have e1 : flat (1 :: bs) (0 :: b) = flat bs b := flat_one_cons bs b
    rw [e1, unflat_one_cons, unflat_one_cons, unflat_flat hbr, insertAt_one]
    simp [bidxR]
  · simp [hji]

/-- `ConstantMean.forward`: `constant : (*mb)`, inputs `(*xb, n, d)`; entry `(b, i)` is `constant[bidx b]`. -/
theorem constantMean_elementwise (c : T α) {mb xb bs : RShape} {n : Nat}
    (hc : c.shape = mb) (hb : bcastR mb xb = some bs) :
    ∃ t, constantMean c (n :: xb) = some t ∧ t.shape = n :: bs ∧
      ∀ i b, i < n → InRange b bs → t.get (i :: b) = c.get (bidxR mb b) := by
  have hs : bcastR (c.unsqueeze 0).shape (n :: xb) = some (n :: bs) := by
    simp only [T.unsqueeze, hc, insertAt_zero]; exact bcastR_cons_one_left n hb
  refine ⟨_, by simp [constantMean, hs]; rfl, rfl, fun i b _ _ => ?_⟩
  simp only [T.expand, T.unsqueeze, hc, insertAt_zero, bidxR_cons_one]
  simp

/-- `_expand_inputs` / train–test batch expansion of `ExactGP.__call__`: batch element `b` of the expanded
inputs is the original element `bidx b` (rows and features untouched). -/
theorem expandInputs_elementwise (x : T α) {xb bs r : RShape} {n d : Nat}
    (hx : x.shape = d :: n :: xb) (_hb : bcastR xb bs = some r) :
    (expandInputs x bs).shape = d :: n :: bs ∧
      ∀ c i b, c < d → i < n → (expandInputs x bs).get (c :: i :: b) = x.get (c :: i :: bidxR xb b) := by
  refine ⟨by simp [expandInputs, T.expand, hx], fun c i b hc hi => ?_⟩
  simp only [expandInputs, T.expand, hx]
  rw [bidxR_cons_lt _ _ hc, bidxR_cons_lt _ _ hi]

/-- **MLL per-batch reduction** `prior_term.view(*shape[:k], -1).sum(-1)`: the value at batch index `b` is the
sum of exactly the entries `prior_term[b, ·]` (every trailing multi-index once) — batch elements are not
mixed by the flattening, for all shapes. -/
theorem priorReduce_per_batch [Add α] [OfNat α 0] (t : T α) (k : Nat) (b : RIdx)
    (hb : InRange b (t.shape.drop k)) :
    (priorReduce t k).get b = (t.sumInner k).get b := by
  simp only [priorReduce, T.viewSumLast, T.sumInner, T.view, allIdx, List.map_map]
  congr 1
  apply List.map_congr_left
  intro j hj
  have hj' : j < numel (t.shape.take k) := List.mem_range.mp hj
  simp only [Function.comp, flat]
  have := unflat_append (t.shape.take k) (s2 := t.shape.drop k) (idx := b) j hj' hb
  rw [List.take_append_drop] at this
  rw [this]

/-- `IndependentModelList` returns exactly its members' outputs -/
theorem model_list_outputs {A B : Type} (models : List (A → B)) (args : List A) (h : models.length = args.length) :
    (modelListCall models args).length = models.length ∧
    ∀ i (hi : i < models.length), (modelListCall models args)[i]? = some (models[i] (args[i]'(h ▸ hi))) := by
  refine ⟨by simp [modelListCall, h], fun i hi => ?_⟩
  simp [modelListCall, List.getElem?_zipWith, hi, h ▸ hi]

theorem foldl_add_eq_sum (l : List Rat) (acc : Rat) : l.foldl (· + ·) acc = acc + l.sum := by
  induction l generalizing acc with
  | nil => simp [Rat.add_zero]
  | cons x xs ih => simp [List.foldl_cons, ih, List.sum_cons, Rat.add_assoc]

/-- `SumMarginalLogLikelihood` is the mean of its members' values: Python's `sum(...)` (a left fold from `0`)
followed by `.div_(len(self.mlls))` is `(Σᵢ mllᵢ(outputᵢ, targetᵢ)) / len` — over the rationals, the scalar
the driver executes, for any number of members -/
theorem sum_mll_mean {O Y : Type} (mlls : List (O → Y → Rat)) (outs : List O) (tgts : List Y) :
    sumMll mlls outs tgts =
      (List.zipWith (fun (m : O → Y → Rat) (oy : O × Y) => m oy.1 oy.2) mlls (List.zip outs tgts)).sum
        / (mlls.length : Rat) := by
  simp only [sumMll, pySum, foldl_add_eq_sum, Rat.zero_add]

/-- … and over the rationals (the executed instance) the fold is the usual sum: two members give `(a + b) / 2` -/
theorem sum_mll_mean_two {O Y : Type} (m1 m2 : O → Y → Rat) (o1 o2 : O) (y1 y2 : Y) :
    sumMll [m1, m2] [o1, o2] [y1, y2] = (m1 o1 y1 + m2 o2 y2) / 2 := by
  simp only [sumMll, pySum, List.zip_cons_cons, List.zip_nil_right, List.zipWith_cons_cons, List.zipWith_nil_right,
    List.foldl_cons, List.foldl_nil, List.length_cons, List.length_nil, Rat.zero_add]
  rfl

/-! ### the GENERATED choreographies (`Gen/BatchChoreo.lean`, regenerated from the Python AST on every run)

Each theorem is about the op list the translator read off the source, interpreted by `Choreo` — the hand-written
`BatchOps` functions above only serve as lemmas.  A source change that alters a shape operation changes the
generated list and these proofs stop going through. -/

section Generated
open Choreo Gen.BatchChoreo

/-- `x.div(self.lengthscale)` as generated -/
theorem gen_lengthscale_div_elementwise [Add β] [OfNat β 0] (f : α → β → γ) (x : T α) (ℓ : T β)
    {xb kb bs : RShape} {n d : Nat}
    (hx : x.shape = d :: n :: xb) (hl : ℓ.shape = d :: 1 :: kb) (hb : bcastR xb kb = some bs) :
    ∃ t, runBinary lengthscaleDivOps f x ℓ [] [] = some t ∧ t.shape = d :: n :: bs ∧
      ∀ c i b, c < d → i < n → InRange b bs →
        t.get (c :: i :: b) = f (x.get (c :: i :: bidxR xb b)) (ℓ.get (c :: 0 :: bidxR kb b)) := by
  have e : runBinary lengthscaleDivOps f x ℓ [] [] = lengthscaleDiv f x ℓ := by
    simp [runBinary, lengthscaleDivOps, runOps, lengthscaleDiv]
  rw [e]; exact lengthscaleDiv_elementwise f x ℓ hx hl hb

/-- `ScaleKernel.forward` (full matrix) as generated: the `view` keeps every batch dimension in place -/
theorem gen_scale_kernel_elementwise [Add β] [OfNat β 0] (f : α → β → γ) (K : T α) (os : T β)
    {kb ob bs : RShape} {n m : Nat}
    (hK : K.shape = m :: n :: kb) (ho : os.shape = ob) (hb : bcastR kb ob = some bs) :
    ∃ t, runBinary scaleFullOps f K os [] [] = some t ∧ t.shape = m :: n :: bs ∧
      ∀ j i b, j < m → i < n → InRange b bs →
        t.get (j :: i :: b) = f (K.get (j :: i :: bidxR kb b)) (os.get (bidxR ob b)) := by
  have e : runBinary scaleFullOps f K os [] [] = scaleMul f K os := by
    simp [runBinary, scaleFullOps, runOps, UOp.run, SE.eval, scaleMul]
  rw [e]; exact scaleMul_elementwise f K os hK ho hb

/-- `ScaleKernel.forward(diag=True)` as generated -/
theorem gen_scale_kernel_diag_elementwise [Add β] [OfNat β 0] (f : α → β → γ) (Kd : T α) (os : T β)
    {kb ob bs : RShape} {n : Nat}
    (hK : Kd.shape = n :: kb) (ho : os.shape = ob) (hb : bcastR kb ob = some bs) :
    ∃ t, runBinary scaleDiagOps f Kd os [] [] = some t ∧ t.shape = n :: bs ∧
      ∀ i b, i < n → InRange b bs → t.get (i :: b) = f (Kd.get (i :: bidxR kb b)) (os.get (bidxR ob b)) := by
  have e : runBinary scaleDiagOps f Kd os [] [] = scaleMulDiag f Kd os := by
    simp [runBinary, scaleDiagOps, runOps, UOp.run, scaleMulDiag]
  rw [e]; exact scaleMulDiag_elementwise f Kd os hK ho hb

/-- `RQKernel.forward`, full matrix: `alpha : (*kb, 1)` is given one trailing dimension per non-batch dimension of
`dist_mat : (*db, n, m)`, so entry `(b, i, j)` reads `alpha[bidx b]` — for every data batch rank (the generated
count does not depend on the ranks of `dist_mat` / the kernel batch) -/
theorem gen_rq_alpha_elementwise [Add β] [OfNat β 0] (f : α → β → γ) (dist : T α) (alpha : T β)
    (distRank kbRank : Nat) {db kb bs : RShape} {n m : Nat}
    (hd : dist.shape = m :: n :: db) (ha : alpha.shape = 1 :: kb) (hb : bcastR db kb = some bs) :
    ∃ t, runBinary (rqAlphaOps false false distRank kbRank) f dist alpha [] [] = some t ∧ t.shape = m :: n :: bs ∧
      ∀ j i b, j < m → i < n → InRange b bs →
        t.get (j :: i :: b) = f (dist.get (j :: i :: bidxR db b)) (alpha.get (0 :: bidxR kb b)) := by
  have e : runBinary (rqAlphaOps false false distRank kbRank) f dist alpha [] [] = T.map2 f dist (alpha.unsqueeze 0) := by
    simp [runBinary, rqAlphaOps, rqUnsqueezeCount, runOps, UOp.run, List.replicate]
  have hs : bcastR dist.shape (alpha.unsqueeze 0).shape = some (m :: n :: bs) := by
    simp only [T.unsqueeze, hd, ha, insertAt_zero]; exact bcastR_cons_one_right m (bcastR_cons_one_right n hb)
  obtain ⟨t, ht, hts, hget⟩ := map2_elementwise f dist (alpha.unsqueeze 0) hs
  refine ⟨t, by rw [e]; exact ht, hts, fun j i b hj hi _ => ?_⟩
  rw [hget, hd]
  simp only [T.unsqueeze, ha, insertAt_zero]
  rw [bidxR_cons_lt _ _ hj, bidxR_cons_lt _ _ hi, bidxR_cons_one, bidxR_cons_one]
  simp

/-- `RQKernel.forward(diag=True)`: no trailing dimension is added -/
theorem gen_rq_alpha_diag_elementwise [Add β] [OfNat β 0] (f : α → β → γ) (dist : T α) (alpha : T β)
    (distRank kbRank : Nat) {db kb bs : RShape} {n : Nat}
    (hd : dist.shape = n :: db) (ha : alpha.shape = 1 :: kb) (hb : bcastR db kb = some bs) :
    ∃ t, runBinary (rqAlphaOps true false distRank kbRank) f dist alpha [] [] = some t ∧ t.shape = n :: bs ∧
      ∀ i b, i < n → InRange b bs → t.get (i :: b) = f (dist.get (i :: bidxR db b)) (alpha.get (0 :: bidxR kb b)) := by
  have e : runBinary (rqAlphaOps true false distRank kbRank) f dist alpha [] [] = T.map2 f dist alpha := by
    simp [runBinary, rqAlphaOps, rqUnsqueezeCount, runOps]
  have hs : bcastR dist.shape alpha.shape = some (n :: bs) := by
    rw [hd, ha]; exact bcastR_cons_one_right n hb
  obtain ⟨t, ht, hts, hget⟩ := map2_elementwise f dist alpha hs
  refine ⟨t, by rw [e]; exact ht, hts, fun i b hi _ => ?_⟩
  rw [hget, hd, ha, bidxR_cons_lt _ _ hi, bidxR_cons_one]

/-- `_HomoskedasticNoiseBase.forward` (`num_tasks = 1`) as generated -/
theorem gen_noise_elementwise [Add α] [OfNat α 0] (zero : α) (noise : T α) {nb xb bs : RShape} (n : Nat)
    (hn : noise.shape = 1 :: nb) (hb : bcastR nb xb = some bs) :
    ∃ t, runConstDiag homoNoiseOps zero noise [xb] n = some t ∧ t.shape = n :: n :: bs ∧
      ∀ j i b, InRange b bs →
        t.get (j :: i :: b) = if j = i then noise.get (0 :: bidxR nb b) else zero := by
  have e : runConstDiag homoNoiseOps zero noise [xb] n = homoNoise zero noise xb n := by
    simp [runConstDiag, homoNoiseOps, runOps, UOp.run, SE.eval, homoNoise, hn, hb, T.unsqueeze, T.expand, T.view]
  rw [e]; exact homoNoise_elementwise zero noise n hn hb

/-- `ConstantMean.forward` as generated -/
theorem gen_constant_mean_elementwise [Add α] [OfNat α 0] (c : T α) {mb xb bs : RShape} {n : Nat}
    (hc : c.shape = mb) (hb : bcastR mb xb = some bs) :
    ∃ t, runParam constantMeanOps c [n :: xb] [] = some t ∧ t.shape = n :: bs ∧
      ∀ i b, i < n → InRange b bs → t.get (i :: b) = c.get (bidxR mb b) := by
  have e : runParam constantMeanOps c [n :: xb] [] = constantMean c (n :: xb) := by
    simp only [runParam, constantMeanOps, runOps, UOp.run, SE.eval, Option.bind_some, List.getElem?_cons_zero, constantMean]
    cases bcastR (c.unsqueeze 0).shape (n :: xb) <;> simp
  rw [e]; exact constantMean_elementwise c hc hb

/-- the per-batch prior reduction of `ExactMarginalLogLikelihood._add_other_terms` as generated
(`view(*shape[:n], -1).sum(-1)` with `n = res_ndim` leading batch dimensions kept) -/
theorem gen_prior_reduce_per_batch [Add α] [OfNat α 0] (t : T α) (n : Nat) (b : RIdx)
    (hb : InRange b (t.shape.drop (t.shape.length - n))) :
    ∃ r, runParam exactPriorOps t [] [n] = some r ∧ r.get b = (t.sumInner (t.shape.length - n)).get b := by
  have e : runParam exactPriorOps t [] [n] = some (priorReduce t (t.shape.length - n)) := by
    simp [runParam, exactPriorOps, runOps, UOp.run, priorReduce, T.viewSumLast, sumLastT, T.view]
  exact ⟨_, e, priorReduce_per_batch t _ b hb⟩

/-- … and of `_ApproximateMarginalLogLikelihood.forward` (ELBO / predictive log likelihood) -/
theorem gen_approx_prior_reduce_per_batch [Add α] [OfNat α 0] (t : T α) (n : Nat) (b : RIdx)
    (hb : InRange b (t.shape.drop (t.shape.length - n))) :
    ∃ r, runParam approxPriorOps t [] [n] = some r ∧ r.get b = (t.sumInner (t.shape.length - n)).get b := by
  have e : runParam approxPriorOps t [] [n] = some (priorReduce t (t.shape.length - n)) := by
    simp [runParam, approxPriorOps, runOps, UOp.run, priorReduce, T.viewSumLast, sumLastT, T.view]
  exact ⟨_, e, priorReduce_per_batch t _ b hb⟩

/-- `SumMarginalLogLikelihood.forward` as generated, for members whose MLLs are tensors of a common batch shape:
the result keeps that shape and its element `b` is the mean over the members of *their* element `b` -/
theorem gen_sum_mll_mean (members : List (T Rat)) :
    ∃ t, runSumMll sumMllOps members = some t ∧ t.shape = (members.head?.map (·.shape)).getD [] ∧
      ∀ b, t.get b = (members.map (·.get b)).sum / (members.length : Rat) := by
  refine ⟨_, by simp [runSumMll, sumMllOps, runR, ROp.run]; rfl, rfl, fun b => ?_⟩
  simp only [pySum, foldl_add_eq_sum, Rat.zero_add]

/-- `IndependentModelList.forward` / `__call__` as generated -/
theorem gen_model_list_outputs {A B : Type} (models : List (A → B)) (args : List A) (h : models.length = args.length) :
    (modelListForwardForm.run models args).length = models.length ∧ modelListCallForm.run models args = modelListForwardForm.run models args ∧
    ∀ i (hi : i < models.length), (modelListForwardForm.run models args)[i]? = some (models[i] (args[i]'(h ▸ hi))) := by
  have e : modelListForwardForm.run models args = BatchOps.modelListCall models args := rfl
  rw [e]
  exact ⟨(model_list_outputs models args h).1, rfl, (model_list_outputs models args h).2⟩

/-! ### wave 3: objective normalisers, `'fill'` masks, `IndependentModelList` properties over histories (all GENERATED)

* the integer by which `LeaveOneOutPseudoLikelihood` / `ExactMarginalLogLikelihood` divide the per-batch-element value is
  the replica's (`n`), for EVERY batch shape — `m.numel()` (batch size × n) would not be;
* the missing / observed mask of every `'fill'` branch is a function of the entry `labels[b, i]` alone
  (`_get_observed`, the `'mask'` helper, reduces over all batch elements);
* `IndependentModelList.train_inputs` / `train_targets` are evaluated at every read and collect the members' attributes,
  so after ANY history of reads and `set_train_data` updates they are the members' current values, and the values handed
  to `SumMarginalLogLikelihood` are the members' current objectives. -/

section Wave3
variable {V : Type}

theorem gen_loo_normaliser_per_element (n : Nat) (bs : RShape) :
    looNormaliser.eval (n :: bs) [n] = n ∧ looNormaliser.eval [n] [n] = n := by
  simp [looNormaliser, NormE.eval]

theorem gen_exact_normaliser_per_element (n : Nat) (bs : RShape) :
    exactNormaliser.eval (n :: bs) [n] = n ∧ exactNormaliser.eval [n] [n] = n := by
  simp [exactNormaliser, NormE.eval, numel]

theorem gen_loo_objective_elementwise [Div α] [Sub α] [NatCast α] (shift : α) (res : T α) (n : Nat) (bs : RShape) (b : RIdx) :
    (runNormalise looNormaliser shift res (n :: bs) [n]).get b = replicaNormalise looNormaliser shift (res.get b) n := by
  simp only [runNormalise, replicaNormalise, (gen_loo_normaliser_per_element n bs).1, (gen_loo_normaliser_per_element n bs).2]

theorem gen_exact_objective_elementwise [Div α] [Sub α] [NatCast α] (shift : α) (res : T α) (n : Nat) (bs : RShape) (b : RIdx) :
    (runNormalise exactNormaliser shift res (n :: bs) [n]).get b = replicaNormalise exactNormaliser shift (res.get b) n := by
  simp only [runNormalise, replicaNormalise, (gen_exact_normaliser_per_element n bs).1, (gen_exact_normaliser_per_element n bs).2]

theorem gen_fill_masks_per_element (labels : T Bool) (idx : RIdx) :
    meanCacheFillMask.observedAt labels idx = !labels.get idx ∧ covarFillMask.observedAt labels idx = !labels.get idx ∧
    elpFillMask.observedAt labels idx = !labels.get idx ∧ logMarginalFillMask.observedAt labels idx = !labels.get idx := by
  simp [meanCacheFillMask, covarFillMask, elpFillMask, logMarginalFillMask, MaskE.observedAt]

theorem runHist_perRead_members (pI pT : ListProp) (hI : pI.kind = .perRead) (hT : pT.kind = .perRead) :
    ∀ (h : List (MLEvent V)) (st : MLState V), (runHist pI pT st h).1.members = membersAfter st.members h := by
  intro h
  induction h with
  | nil => intro st; rfl
  | cons e h ih =>
    intro st
    cases e with
    | read a =>
      cases a <;> simp [runHist, membersAfter, ListProp.read, hI, hT, ih]
    | setData i x y => simp [runHist, membersAfter, ih]

theorem gen_model_list_props_current (st : MLState V) (h : List (MLEvent V)) (a : MemberAttr) :
    readAfter modelListTrainInputs modelListTrainTargets st h a = (membersAfter st.members h).map a.proj := by
  have hm := runHist_perRead_members (V := V) modelListTrainInputs modelListTrainTargets rfl rfl h st
  cases a <;> simp [readAfter, ListProp.read, modelListTrainInputs, modelListTrainTargets, ← hm]

theorem zip_map_fst_snd (l : List (V × V)) : List.zip (l.map (·.1)) (l.map (·.2)) = l := by
  induction l with
  | nil => rfl
  | cons x xs ih => simp [ih]

theorem gen_sum_mll_tracks_members {Y : Type} (mll : List (V → V → Y)) (st : MLState V) (h : List (MLEvent V)) :
    List.zipWith (fun (m : V → V → Y) (xy : V × V) => m xy.1 xy.2) mll
        (List.zip (readAfter modelListTrainInputs modelListTrainTargets st h .trainInputs)
                  (readAfter modelListTrainInputs modelListTrainTargets st h .trainTargets)) =
      List.zipWith (fun (m : V → V → Y) (xy : V × V) => m xy.1 xy.2) mll (membersAfter st.members h) := by
  rw [gen_model_list_props_current, gen_model_list_props_current]
  show List.zipWith _ mll (List.zip ((membersAfter st.members h).map (·.1)) ((membersAfter st.members h).map (·.2))) = _
  rw [zip_map_fst_snd]

end Wave3

end Generated

/-! ### non-vacuity -/

example : bcastR [1, 2] [3, 1] = some [3, 2] := by decide
example : InRange [2, 1] [3, 2] := by decide
example : bidxR [1, 2] [2, 1] = [0, 1] := by decide
section
open Choreo Gen.BatchChoreo
example : readAfter modelListTrainInputs modelListTrainTargets (⟨[(0, 0), (10, 10)], none, none⟩ : MLState Nat)
    [.read .trainTargets, .setData 0 none (some 1), .read .trainInputs] .trainTargets = [1, 10] := by decide
-- a memoised attribute does NOT have the property (so the theorem is about the decorator the source uses):
example : readAfter ⟨.once, .trainInputs⟩ ⟨.once, .trainTargets⟩ (⟨[(0, 0), (10, 10)], none, none⟩ : MLState Nat)
    [.read .trainTargets, .setData 0 none (some 1)] .trainTargets = [0, 10] := by decide
example : MaskE.getObserved.observedAt ⟨[2, 2], fun idx => idx == [0, 1]⟩ [0, 0] = false := by decide
example : (NormE.targetNumel).eval [5, 3] [5] = 15 := by decide
end

end C08

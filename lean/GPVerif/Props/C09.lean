/-
C09 — structure-exploiting kernels and prediction strategies equal their dense meaning.

Every theorem is about the definitions `drivers/C09.lean` executes (`Structured.*` over `DMat`, `Interp.*`,
and the REGENERATED `Gen.Interp.*`), for all sizes and every field (ordered field with floor for the
interpolation weights).  Assumed contracts of linear_operator primitives appear as hypotheses
(`R Rᵀ = Kzz⁻¹`, `C Cᵀ = M⁻¹`, `L Lᵀ = …`, `S Sᵀ = A⁻¹`) and are monitored by the correspondence.
-/
import GPVerif.Bridge.Structured
import GPVerif.Bridge.GridKron
import GPVerif.Bridge.Interp
import GPVerif.Gen.StructuredAlgebra
import Mathlib.Data.Rat.Floor

open Matrix Structured Structured.Bridge Gen.Interp Interp Interp.Bridge

set_option linter.unusedSectionVars false
set_option linter.unusedSimpArgs false

namespace C09

variable {α : Type}

/-! ## Kronecker / index / LCM / grid kernels -/

section kernels
variable {n m t s r : ℕ}

/-- MultitaskKernel: the flat entry at `(i·t + a, j·s + b)` of `KroneckerProductLinearOperator(K_x, K_t)` is
`K_x[i,j] · K_t[a,b]` (interleaved order), for all sizes. -/
theorem kron_interleaved_entry [Mul α] (A : DMat n m α) (B : DMat t s α)
    (i : Fin n) (a : Fin t) (j : Fin m) (b : Fin s) (hp : i.1 * t + a.1 < n * t) (hq : j.1 * s + b.1 < m * s) :
    (kron A B).toMatrix ⟨i.1 * t + a.1, hp⟩ ⟨j.1 * s + b.1, hq⟩ = A.toMatrix i j * B.toMatrix a b :=
  kron_entry_nat A B i a j b hp hq

/-- the model's Kronecker product is Mathlib's, transported along `(i,a) ↦ i·t + a`. -/
theorem kron_eq_kronecker [Mul α] (A : DMat n m α) (B : DMat t s α) :
    (kron A B).toMatrix
      = Matrix.reindex finProdFinEquiv finProdFinEquiv (kroneckerMap (· * ·) A.toMatrix B.toMatrix) := by
  ext p q
  simp [kron, kronM, Matrix.reindex_apply, kroneckerMap_apply]

/-- IndexKernel: `B[i1 a, i2 b]` with `B = F Fᵀ + diag v`. -/
theorem index_kernel_entry [CommSemiring α] (F : DMat t r α) (v : Fin t → α) (i1 : Fin n → Fin t)
    (i2 : Fin m → Fin t) (a : Fin n) (b : Fin m) :
    (indexGather (indexCovar F v) i1 i2).toMatrix a b
      = (∑ k, F.toMatrix (i1 a) k * F.toMatrix (i2 b) k) + (if i1 a = i2 b then v (i1 a) else 0) := by
  simp [indexGather, indexCovar, Matrix.mul_apply, Matrix.diagonal_apply]

/-- Hadamard multitask kernel: `K[a,b] · B[i1 a, i2 b]`. -/
theorem hadamard_task_entry [Mul α] (K : DMat n m α) (B : DMat t t α) (i1 : Fin n → Fin t) (i2 : Fin m → Fin t)
    (a : Fin n) (b : Fin m) :
    (hadamardTask K B i1 i2).toMatrix a b = K.toMatrix a b * B.toMatrix (i1 a) (i2 b) := by
  simp [hadamardTask, indexGather]

/-- LCMKernel: the accumulated `res += …` is the sum of the Kronecker products. -/
theorem lcm_sum [Mul α] [AddCommMonoid α] (hd : DMat n m α × DMat t s α) (tl : List (DMat n m α × DMat t s α)) :
    (lcmKernel hd tl).toMatrix = ((hd :: tl).map fun p => (kron p.1 p.2).toMatrix).sum := by
  unfold lcmKernel
  have : ∀ (acc : DMat (n * t) (m * s) α), (tl.foldl (fun acc p => acc.add (kron p.1 p.2)) acc).toMatrix
      = acc.toMatrix + (tl.map fun p => (kron p.1 p.2).toMatrix).sum := by
    induction tl with
    | nil => intro acc; simp
    | cons p tl ih => intro acc; simp [ih, add_assoc]
  simp [this]

/-- GridKernel (use_toeplitz): for a stationary even kernel `k(x,y) = f(x−y)` on an equally spaced grid the
Toeplitz matrix of the first row `k(g₀, g_l)` has entries `k(g_i, g_j)`. -/
theorem toeplitz_entry [Field α] (f : α → α) (hf : ∀ x, f (-x) = f x) (g0 δ : α) (i j : Fin n) :
    (toeplitz (fun l : Fin n => f (g0 - (g0 + l.1 * δ)))).toMatrix i j = f ((g0 + i.1 * δ) - (g0 + j.1 * δ)) := by
  simp only [toeplitz, DMat.toMatrix_ofMatrix, Matrix.of_apply]
  split
  · rename_i h
    congr 1
    rw [Nat.cast_sub h]; ring
  · rename_i h
    rw [← hf]
    congr 1
    rw [Nat.cast_sub (by omega)]; ring

/-- GridKernel: `KroneckerProductLinearOperator(*covars[::-1])` at the `create_data_from_grid` positions of the
multi-indices `is`, `js` is `∏ₖ Kₖ[iₖ, jₖ]`, for every number of dimensions. -/
theorem grid_kron_order [MulOneClass α] [Zero α] : ∀ (Ks : List (Sq α)) (is js : List ℕ),
    List.Forall₂ (fun i (K : Sq α) => i < K.1) is Ks → List.Forall₂ (fun j (K : Sq α) => j < K.1) js Ks →
    (gridKron Ks).get (gridFlat (Ks.map (·.1)) is) (gridFlat (Ks.map (·.1)) js) = gridProd Ks is js
  | [], _, _, hi, hj => by
      cases hi; cases hj
      simp [gridKron, gridFlat, gridProd, Sq.get, DMat.toMatrix_one]
  | K :: Ks, _, _, hi, hj => by
      cases hi with
      | cons hi0 hirest =>
      cases hj with
      | cons hj0 hjrest =>
        rename_i i is j js
        have ih := grid_kron_order Ks is js hirest hjrest
        have hp := gridFlat_lt Ks is hirest
        have hq := gridFlat_lt Ks js hjrest
        simp only [List.map_cons, gridFlat, gridKron, gridProd]
        rw [← ih]
        unfold Sq.get
        rw [dif_pos ⟨flat_lt hp hi0, flat_lt hq hj0⟩, dif_pos ⟨hp, hq⟩, dif_pos ⟨hi0, hj0⟩]
        exact kron_entry_nat (gridKron Ks).2 K.2 ⟨_, hp⟩ ⟨i, hi0⟩ ⟨_, hq⟩ ⟨j, hj0⟩ _ _

/-- the flat `create_data_from_grid` position determines the multi-index (`full_grid[p]` has coordinate `k`
equal to `grid_k[(p / ∏_{l<k} n_l) % n_k]`). -/
theorem grid_digits_flat : ∀ (sizes is : List ℕ), List.Forall₂ (fun i n => i < n) is sizes →
    gridDigits sizes (gridFlat sizes is) = is
  | [], _, h => by cases h; simp [gridDigits]
  | n :: ns, _, h => by
      cases h with
      | cons hi hrest =>
        rename_i i is
        have hn : 0 < n := by omega
        simp only [gridFlat, gridDigits]
        rw [Nat.mul_add_mod_of_lt hi, show (gridFlat ns is * n + i) / n = gridFlat ns is by
          rw [Nat.add_comm, Nat.add_mul_div_right _ _ hn, Nat.div_eq_of_lt hi, Nat.zero_add]]
        rw [grid_digits_flat ns is hrest]

/-- KISS-GP: the Kronecker product in the order in which `Interpolation.interpolate` numbers the grid points
(first dimension slowest, `index_coeff = ∏ sizes[i+1:]`) is `K₀ ⊗ K₁ ⊗ …` — NOT the `covars[::-1]` order of
`grid_kron_order`; the two agree only when all factors are equal. -/
theorem grid_kron_row_major_order [CommMonoid α] [Zero α] : ∀ (Ks : List (Sq α)) (is js : List ℕ),
    List.Forall₂ (fun i (K : Sq α) => i < K.1) is Ks → List.Forall₂ (fun j (K : Sq α) => j < K.1) js Ks →
    (gridKronRowMajor Ks).get (rowMajorFlat (Ks.map (·.1)) is) (rowMajorFlat (Ks.map (·.1)) js)
      = gridProd Ks is js
  | [], _, _, hi, hj => by
      cases hi; cases hj
      simp [gridKronRowMajor, rowMajorFlat, gridProd, Sq.get, DMat.toMatrix_one]
  | K :: Ks, _, _, hi, hj => by
      cases hi with
      | cons hi0 hirest =>
      cases hj with
      | cons hj0 hjrest =>
        rename_i i is j js
        have ih := grid_kron_row_major_order Ks is js hirest hjrest
        have hp := rowMajorFlat_lt Ks is hirest
        have hq := rowMajorFlat_lt Ks js hjrest
        simp only [List.map_cons, rowMajorFlat, gridKronRowMajor, gridProd, ← gridKronRowMajor_size Ks]
        rw [← ih]
        unfold Sq.get
        rw [dif_pos ⟨flat_lt hi0 hp, flat_lt hj0 hq⟩, dif_pos ⟨hp, hq⟩, dif_pos ⟨hi0, hj0⟩]
        exact (kron_entry_nat K.2 (gridKronRowMajor Ks).2 ⟨i, hi0⟩ ⟨_, hp⟩ ⟨j, hj0⟩ ⟨_, hq⟩ _ _).trans
          (mul_comm _ _)

end kernels

/-! ## Nyström / SGPR -/

section sgpr
variable [Field α] {n m ns : ℕ}

/-- InducingPointKernel: `(Kxz R)(Kxz R)ᵀ = Kxz Kzz⁻¹ Kzx` for any root `R Rᵀ = Kzz⁻¹`. -/
theorem nystrom_root (Kxz : DMat n m α) (Kzz R : DMat m m α)
    (hR : R.toMatrix * R.toMatrixᵀ = Kzz.toMatrix⁻¹) :
    (lowRank (nystromRoot Kxz R)).toMatrix = Kxz.toMatrix * Kzz.toMatrix⁻¹ * Kxz.toMatrixᵀ := by
  simp only [lowRank, nystromRoot, DMat.toMatrix_mul, DMat.toMatrix_transpose, Matrix.transpose_mul]
  rw [← hR]; simp only [Matrix.mul_assoc]

/-- the `x1 ≠ x2` branch: `(K1z R)(K2z R)ᵀ = K1z Kzz⁻¹ Kz2`. -/
theorem nystrom_cross (K1z : DMat n m α) (K2z : DMat ns m α) (Kzz R : DMat m m α)
    (hR : R.toMatrix * R.toMatrixᵀ = Kzz.toMatrix⁻¹) :
    (nystromCross K1z K2z R).toMatrix = K1z.toMatrix * Kzz.toMatrix⁻¹ * K2z.toMatrixᵀ := by
  simp only [nystromCross, DMat.toMatrix_mul, DMat.toMatrix_transpose, Matrix.transpose_mul]
  rw [← hR]; simp only [Matrix.mul_assoc]

/-- the executed (root-free) Woodbury form is the inverse of `Rx Rxᵀ + D`. -/
theorem sgpr_woodbury_exact (Rx : DMat n m α) (d : Fin n → α) (hd : ∀ i, d i ≠ 0) (Minv : DMat m m α)
    (hM : Minv.toMatrix = (sgprCapacitance Rx (fun i => (d i)⁻¹)).toMatrix⁻¹)
    (hU : IsUnit (sgprCapacitance Rx (fun i => (d i)⁻¹)).toMatrix.det) :
    (sgprInverseExact Rx (fun i => (d i)⁻¹) Minv).toMatrix
      = (Rx.toMatrix * Rx.toMatrixᵀ + Matrix.diagonal d)⁻¹ := by
  obtain ⟨hD, hDinv⟩ := diagonal_inv d hd
  have hcap : (sgprCapacitance Rx (fun i => (d i)⁻¹)).toMatrix
      = (1 : Matrix (Fin m) (Fin m) α)⁻¹ + Rx.toMatrixᵀ * (Matrix.diagonal d)⁻¹ * Rx.toMatrix := by
    simp [sgprCapacitance, hDinv, Matrix.mul_assoc]
  have := Matrix.add_mul_mul_inv_eq_sub (Matrix.diagonal d) Rx.toMatrix (1 : Matrix (Fin m) (Fin m) α)
    Rx.toMatrixᵀ hD isUnit_one (by rw [← hcap]; exact (Matrix.isUnit_iff_isUnit_det _).mpr hU)
  have key : Rx.toMatrix * Rx.toMatrixᵀ + Matrix.diagonal d
      = Matrix.diagonal d + Rx.toMatrix * (1 : Matrix (Fin m) (Fin m) α) * Rx.toMatrixᵀ := by
    rw [Matrix.mul_one, add_comm]
  rw [key, this]
  simp only [sgprInverseExact, DMat.toMatrix_sub, DMat.toMatrix_mul, DMat.toMatrix_diagonal,
    DMat.toMatrix_transpose, hM, hcap, hDinv, Matrix.transpose_mul, Matrix.diagonal_transpose, Matrix.mul_assoc]

/-- SGPRPredictionStrategy.covar_cache: the code's `inverse = D⁻¹ − W Wᵀ`, `W = D⁻¹ Rx C`, with `C Cᵀ` the
inverse of the capacitance matrix `I + Rxᵀ D⁻¹ Rx`, is `(Rx Rxᵀ + D)⁻¹` for every invertible diagonal `D`. -/
theorem sgpr_woodbury (Rx : DMat n m α) (d : Fin n → α) (hd : ∀ i, d i ≠ 0) (C : DMat m m α)
    (hC : C.toMatrix * C.toMatrixᵀ = (sgprCapacitance Rx (fun i => (d i)⁻¹)).toMatrix⁻¹)
    (hU : IsUnit (sgprCapacitance Rx (fun i => (d i)⁻¹)).toMatrix.det) :
    (sgprInverse Rx (fun i => (d i)⁻¹) C).toMatrix = (Rx.toMatrix * Rx.toMatrixᵀ + Matrix.diagonal d)⁻¹ := by
  rw [sgprInverse_eq_exact Rx _ C (DMat.ofMatrix (sgprCapacitance Rx (fun i => (d i)⁻¹)).toMatrix⁻¹)
    (by simpa using hC)]
  exact sgpr_woodbury_exact Rx d hd _ (by simp) hU

/-- the matrix the eval-mode kernel + likelihood represent on the training block:
`Q + diag(dd)` with `dd = [correction] + noise`. -/
theorem nystromEval_add_noise [LinearOrder α] (corr : Bool) (kdiag noise : Fin n → α) (Kxz : DMat n m α)
    (R : DMat m m α) :
    (nystromEval corr kdiag Kxz R).toMatrix + Matrix.diagonal noise
      = (lowRank (nystromRoot Kxz R)).toMatrix
        + Matrix.diagonal (fun i => (if corr then diagCorrection kdiag (lowRank (nystromRoot Kxz R)) i else 0)
            + noise i) := by
  cases corr
  · simp [nystromEval]
  · simp only [nystromEval, if_true, DMat.toMatrix_add, DMat.toMatrix_diagonal, add_assoc,
      Matrix.diagonal_add]

/-- SGPRPredictionStrategy: mean through the default `mean_cache` and covariance through the Woodbury
`covar_cache` are the dense Gaussian conditional for the matrix the code represents,
`A = Q + [sgpr_diagonal_correction] diag(max 0 (diag K − diag Q)) + diag(noise)`, with cross-covariance
`Q* = K*z Kzz⁻¹ Kzx`. -/
theorem sgpr_pred_eq_dense_conditional [LinearOrder α] (corr : Bool) (kdiag noise : Fin n → α)
    (Kxz : DMat n m α) (Ksz : DMat ns m α) (Kzz R : DMat m m α) (Kss : DMat ns ns α) (r : DMat n 1 α)
    (C : DMat m m α) (Ainv : DMat n n α)
    (hR : R.toMatrix * R.toMatrixᵀ = Kzz.toMatrix⁻¹) :
    let Rx := nystromRoot Kxz R
    let L := nystromRoot Ksz R
    let dd : Fin n → α := fun i => (if corr then diagCorrection kdiag (lowRank Rx) i else 0) + noise i
    let A := (nystromEval corr kdiag Kxz R).toMatrix + Matrix.diagonal noise
    let Qs := Ksz.toMatrix * Kzz.toMatrix⁻¹ * Kxz.toMatrixᵀ
    (∀ i, dd i ≠ 0) →
    C.toMatrix * C.toMatrixᵀ = (sgprCapacitance Rx (fun i => (dd i)⁻¹)).toMatrix⁻¹ →
    IsUnit (sgprCapacitance Rx (fun i => (dd i)⁻¹)).toMatrix.det →
    Ainv.toMatrix = A⁻¹ →
    (sgprPredMean L Rx Ainv r).toMatrix = Qs * A⁻¹ * r.toMatrix ∧
    (sgprPredCovar Kss L (sgprCache Rx (sgprInverse Rx (fun i => (dd i)⁻¹) C))).toMatrix
      = Kss.toMatrix - Qs * A⁻¹ * Qsᵀ := by
  intro Rx L dd A Qs hdd hC hU hA
  have hQs : L.toMatrix * Rx.toMatrixᵀ = Qs := by
    simp only [L, Rx, Qs, nystromRoot, DMat.toMatrix_mul, Matrix.transpose_mul]
    rw [← hR]; simp only [Matrix.mul_assoc]
  have hAeq : A = Rx.toMatrix * Rx.toMatrixᵀ + Matrix.diagonal dd := by
    simp only [A, dd, Rx]
    rw [nystromEval_add_noise]; simp [lowRank]
  constructor
  · simp only [sgprPredMean, DMat.toMatrix_mul, DMat.toMatrix_transpose, hQs, hA, Matrix.mul_assoc]
  · have hw := sgpr_woodbury Rx dd hdd C hC hU
    simp only [sgprPredCovar, sgprCache, DMat.toMatrix_sub, DMat.toMatrix_mul, DMat.toMatrix_transpose, hw]
    rw [hAeq, ← hQs]
    simp only [Matrix.transpose_mul, Matrix.transpose_transpose, Matrix.mul_assoc]

/-- with `sgpr_diagonal_correction(False)` the predictions are the SGPR / Titsias predictive equations:
mean `Q*(Q + Σ)⁻¹ r`, covariance `K** − Q*(Q + Σ)⁻¹ Q*ᵀ` (`Σ = diag(noise)`). -/
theorem sgpr_pred_eq_titsias_predictive [LinearOrder α] (kdiag noise : Fin n → α) (hn : ∀ i, noise i ≠ 0)
    (Kxz : DMat n m α) (Ksz : DMat ns m α) (Kzz R : DMat m m α) (Kss : DMat ns ns α) (r : DMat n 1 α)
    (C : DMat m m α) (Ainv : DMat n n α)
    (hR : R.toMatrix * R.toMatrixᵀ = Kzz.toMatrix⁻¹)
    (hC : C.toMatrix * C.toMatrixᵀ
      = (sgprCapacitance (nystromRoot Kxz R) (fun i => (noise i)⁻¹)).toMatrix⁻¹)
    (hU : IsUnit (sgprCapacitance (nystromRoot Kxz R) (fun i => (noise i)⁻¹)).toMatrix.det)
    (hA : Ainv.toMatrix
      = (Kxz.toMatrix * Kzz.toMatrix⁻¹ * Kxz.toMatrixᵀ + Matrix.diagonal noise)⁻¹) :
    let Q := Kxz.toMatrix * Kzz.toMatrix⁻¹ * Kxz.toMatrixᵀ
    let Qs := Ksz.toMatrix * Kzz.toMatrix⁻¹ * Kxz.toMatrixᵀ
    (sgprPredMean (nystromRoot Ksz R) (nystromRoot Kxz R) Ainv r).toMatrix
      = Qs * (Q + Matrix.diagonal noise)⁻¹ * r.toMatrix ∧
    (sgprPredCovar Kss (nystromRoot Ksz R)
        (sgprCache (nystromRoot Kxz R) (sgprInverse (nystromRoot Kxz R) (fun i => (noise i)⁻¹) C))).toMatrix
      = Kss.toMatrix - Qs * (Q + Matrix.diagonal noise)⁻¹ * Qsᵀ := by
  intro Q Qs
  have hQ : (nystromEval false kdiag Kxz R).toMatrix = Q := by
    simp only [nystromEval, Bool.false_eq_true, if_false]
    exact nystrom_root Kxz Kzz R hR
  have h := sgpr_pred_eq_dense_conditional false kdiag noise Kxz Ksz Kzz R Kss r C Ainv hR
  simp only [Bool.false_eq_true, if_false, zero_add, hQ] at h
  exact h hn hC hU hA

/-- with the correction ON and a strictly positive `diag(K − Q)` entry the represented train–train matrix
differs from `Q + Σ`: the predictive mean is the conditional of a different (FITC-like) matrix. -/
theorem sgpr_correction_changes_train_block [LinearOrder α] [IsStrictOrderedRing α] (kdiag noise : Fin n → α)
    (Kxz : DMat n m α) (R : DMat m m α) (i : Fin n)
    (hpos : 0 < kdiag i - (lowRank (nystromRoot Kxz R)).diag i) :
    ((nystromEval true kdiag Kxz R).toMatrix + Matrix.diagonal noise) i i
      ≠ ((nystromEval false kdiag Kxz R).toMatrix + Matrix.diagonal noise) i i := by
  simp only [nystromEval, if_true, Bool.false_eq_true, if_false, DMat.toMatrix_add, DMat.toMatrix_diagonal,
    Matrix.add_apply, Matrix.diagonal_apply_eq, diagCorrection]
  rw [max_eq_right (le_of_lt hpos)]
  intro h
  have : kdiag i - (lowRank (nystromRoot Kxz R)).diag i = 0 := by linarith
  linarith

/-- InducingPointKernelAddedLossTerm: `−½ Σ (k_ii − q_ii)/σ²ᵢ`; for homoskedastic noise this is the Titsias
trace term `−tr(K − Q)/(2σ²)`, so objective = `log N(y | m, Q + σ²I) − tr(K − Q)/(2σ²)`. -/
theorem sgpr_objective_eq_titsias (kdiag qdiag : Fin n → α) (σ2 : α) (logN : α) :
    logN + titsiasAddedLoss kdiag qdiag (fun _ => σ2)
      = logN - (∑ i, (kdiag i - qdiag i)) / (2 * σ2) := by
  simp only [titsiasAddedLoss, div_eq_mul_inv, ← Finset.sum_mul]
  ring

/-- the SGPR training objective with the kernel reading the noise of ANOTHER likelihood object (`σ²_K`) than the one the
marginal-likelihood term was computed with (`σ²`): it is the Titsias bound iff the two noises agree (whenever
`tr(K − Q) ≠ 0`) — the reason why a copied model must keep `covar_module.likelihood is model.likelihood`. -/
theorem sgpr_objective_needs_shared_noise (kdiag qdiag : Fin n → α) (σ2 σ2K logN : α) (h2 : (2 : α) ≠ 0) (h0 : σ2 ≠ 0)
    (hK : σ2K ≠ 0) (htr : (∑ i, (kdiag i - qdiag i)) ≠ 0) :
    sgprObjective logN kdiag qdiag (fun _ => σ2K) = logN - (∑ i, (kdiag i - qdiag i)) / (2 * σ2) ↔ σ2K = σ2 := by
  rw [sgprObjective, sgpr_objective_eq_titsias]
  constructor
  · intro h
    have h' : (∑ i, (kdiag i - qdiag i)) / (2 * σ2K) = (∑ i, (kdiag i - qdiag i)) / (2 * σ2) := sub_right_inj.mp h
    rw [div_eq_div_iff (mul_ne_zero h2 hK) (mul_ne_zero h2 h0)] at h'
    exact (mul_left_cancel₀ h2 (mul_left_cancel₀ htr h')).symm
  · rintro rfl; rfl

/-- `copy.deepcopy(x, memo)` of a reference to an object that the traversal has already copied returns THAT copy (the
sharing structure is preserved); `copy.deepcopy(x)` with a private memo returns a different, new object. -/
theorem deepcopy_memo_preserves_sharing (st : CopySt) (id j : ℕ) (hmem : st.memo.lookup id = some j) (hj : j < st.next) :
    (copyRef .memo st id).1 = j ∧ (copyRef .fresh st id).1 ≠ j := by
  constructor
  · simp [copyRef, hmem]
  · simp only [copyRef]; omega

end sgpr

/-! ## random Fourier features -/

section rff
variable [Field α] {n ns k : ℕ}

/-- RFFPredictionStrategy: `(√c F* L)(√c F* L)ᵀ` with `L Lᵀ = I − c Fᵀ A⁻¹ F` is the dense conditional
covariance `K** − K*x A⁻¹ Kx*` for `K** = c F*F*ᵀ`, `K*x = c F*Fᵀ`. -/
theorem rff_pred_eq_dense_conditional (c sc : α) (hs : sc * sc = c) (F : DMat n k α) (Fs : DMat ns k α)
    (Ainv : DMat n n α) (L : DMat k k α)
    (hL : L.toMatrix * L.toMatrixᵀ = (rffInner c F Ainv).toMatrix) :
    (rffPredCovar sc Fs L).toMatrix
      = c • (Fs.toMatrix * Fs.toMatrixᵀ)
        - (c • (Fs.toMatrix * F.toMatrixᵀ)) * Ainv.toMatrix * (c • (Fs.toMatrix * F.toMatrixᵀ))ᵀ := by
  have e1 : (rffPredCovar sc Fs L).toMatrix = c • (Fs.toMatrix * (L.toMatrix * L.toMatrixᵀ) * Fs.toMatrixᵀ) := by
    simp only [rffPredCovar, lowRank, DMat.toMatrix_mul, DMat.toMatrix_smul, DMat.toMatrix_transpose,
      Matrix.transpose_mul, Matrix.transpose_smul, Matrix.smul_mul, Matrix.mul_smul, smul_smul, hs,
      Matrix.mul_assoc]
  rw [e1, hL]
  simp only [rffInner, DMat.toMatrix_sub, DMat.toMatrix_one, DMat.toMatrix_smul, DMat.toMatrix_mul,
    DMat.toMatrix_transpose, Matrix.mul_sub, Matrix.sub_mul, Matrix.mul_one, smul_sub, Matrix.transpose_mul,
    Matrix.transpose_smul, Matrix.transpose_transpose, Matrix.smul_mul, Matrix.mul_smul, smul_smul,
    Matrix.mul_assoc]

/-- the executed root-free form agrees with the code's root form. -/
theorem rff_pred_exact_eq (c sc : α) (hs : sc * sc = c) (Fs : DMat ns k α) (inner L : DMat k k α)
    (hL : L.toMatrix * L.toMatrixᵀ = inner.toMatrix) :
    (rffPredCovar sc Fs L).toMatrix = (rffPredCovarExact c Fs inner).toMatrix := by
  simp only [rffPredCovar, rffPredCovarExact, lowRank, DMat.toMatrix_mul, DMat.toMatrix_smul,
    DMat.toMatrix_transpose, Matrix.transpose_mul, Matrix.transpose_smul, Matrix.smul_mul, Matrix.mul_smul,
    smul_smul, hs, ← hL, Matrix.mul_assoc]

/-- push-through identity `(Z Zᵀ + N)⁻¹ Z = … ` in the form used for the weight-space view:
`(F Fᵀ + σ²I) F = F (Fᵀ F + σ²I)`, hence `A⁻¹ F = F B⁻¹`. -/
theorem rff_push_through (F : DMat n k α) (σ2 : α)
    (hA : IsUnit (F.toMatrix * F.toMatrixᵀ + σ2 • (1 : Matrix (Fin n) (Fin n) α)).det)
    (hB : IsUnit (F.toMatrixᵀ * F.toMatrix + σ2 • (1 : Matrix (Fin k) (Fin k) α)).det) :
    (F.toMatrix * F.toMatrixᵀ + σ2 • (1 : Matrix (Fin n) (Fin n) α))⁻¹ * F.toMatrix
      = F.toMatrix * (F.toMatrixᵀ * F.toMatrix + σ2 • (1 : Matrix (Fin k) (Fin k) α))⁻¹ := by
  set A := F.toMatrix * F.toMatrixᵀ + σ2 • (1 : Matrix (Fin n) (Fin n) α)
  set B := F.toMatrixᵀ * F.toMatrix + σ2 • (1 : Matrix (Fin k) (Fin k) α)
  have h : A * F.toMatrix = F.toMatrix * B := by
    simp only [A, B, Matrix.add_mul, Matrix.mul_add, Matrix.smul_mul, Matrix.mul_smul, Matrix.one_mul,
      Matrix.mul_one, Matrix.mul_assoc]
  calc A⁻¹ * F.toMatrix = A⁻¹ * (F.toMatrix * B) * B⁻¹ := by
        rw [Matrix.mul_assoc, Matrix.mul_assoc, Matrix.mul_nonsing_inv _ hB, Matrix.mul_one]
    _ = A⁻¹ * (A * F.toMatrix) * B⁻¹ := by rw [h]
    _ = F.toMatrix * B⁻¹ := by rw [← Matrix.mul_assoc A⁻¹, Matrix.nonsing_inv_mul _ hA, Matrix.one_mul]

end rff

/-! ## interpolation (KISS-GP) strategies -/

section interp
variable [Field α] {n ns g k nf : ℕ}

/-- InterpolatedPredictionStrategy, mean and `fast_pred_var` covariance: equal to the dense conditional for
the matrix `W K_uu Wᵀ` (cross-covariance `W* K_uu Wᵀ`), for any root `S Sᵀ = A⁻¹`. -/
theorem interp_pred_eq_dense_conditional (Kuu : DMat g g α) (hK : Kuu.toMatrixᵀ = Kuu.toMatrix)
    (W : DMat n g α) (Ws : DMat ns g α) (Kss : DMat ns ns α) (Ainv : DMat n n α) (r : DMat n 1 α)
    (S : DMat n k α) (hS : S.toMatrix * S.toMatrixᵀ = Ainv.toMatrix) :
    (interpApply Ws (interpMeanCache Kuu W Ainv r)).toMatrix
      = (interpKernel Ws Kuu W).toMatrix * (Ainv.toMatrix * r.toMatrix) ∧
    (interpPredCovarFast Kss Ws (interpCovarCache Kuu W S)).toMatrix
      = Kss.toMatrix - (interpKernel Ws Kuu W).toMatrix * Ainv.toMatrix * (interpKernel Ws Kuu W).toMatrixᵀ := by
  constructor
  · simp only [interpApply, interpMeanCache, interpKernel, DMat.toMatrix_mul, DMat.toMatrix_transpose,
      Matrix.mul_assoc]
  · simp only [interpPredCovarFast, interpApply, interpCovarCache, interpKernel, lowRank, DMat.toMatrix_sub,
      DMat.toMatrix_mul, DMat.toMatrix_transpose, Matrix.transpose_mul, Matrix.transpose_transpose, hK, ← hS,
      Matrix.mul_assoc]

/-- `fast_pred_samples`: `(W* T)(W* T)ᵀ` with `T Tᵀ = K_uu − cache cacheᵀ` is the same covariance because the
test–test block of the interpolated kernel is `W* K_uu W*ᵀ`. -/
theorem interp_pred_samples_eq (Kuu : DMat g g α) (W : DMat n g α) (Ws : DMat ns g α)
    (S : DMat n k α) (T : DMat g k α)
    (hT : T.toMatrix * T.toMatrixᵀ
      = Kuu.toMatrix - (interpCovarCache Kuu W S).toMatrix * (interpCovarCache Kuu W S).toMatrixᵀ) :
    (interpPredCovarSamples Ws T).toMatrix
      = (interpPredCovarFast (interpKernel Ws Kuu Ws) Ws (interpCovarCache Kuu W S)).toMatrix := by
  simp only [interpPredCovarSamples, interpPredCovarFast, interpApply, interpKernel, lowRank, DMat.toMatrix_sub,
    DMat.toMatrix_mul, DMat.toMatrix_transpose, Matrix.transpose_mul]
  rw [show Ws.toMatrix * T.toMatrix * (T.toMatrixᵀ * Ws.toMatrixᵀ)
      = Ws.toMatrix * (T.toMatrix * T.toMatrixᵀ) * Ws.toMatrixᵀ by simp only [Matrix.mul_assoc], hT]
  simp only [Matrix.mul_sub, Matrix.sub_mul, Matrix.mul_assoc]

/-- WISKI fantasy update of `interp_inner_prod` and `interp_response_cache` = recomputation from the
concatenated (train ++ fantasy) data. -/
theorem wiski_update_eq_recompute (W : DMat n g α) (Wf : DMat nf g α) (dinv : Fin n → α) (dinvf : Fin nf → α)
    (r : DMat n 1 α) (rf : DMat nf 1 α) :
    (wiskiInnerProd (vstack W Wf) (Fin.addCases dinv dinvf)).toMatrix
        = (wiskiUpdate (wiskiInnerProd W dinv) (wiskiResponse W dinv r) Wf dinvf rf).1.toMatrix ∧
    (wiskiResponse (vstack W Wf) (Fin.addCases dinv dinvf) (vstack r rf)).toMatrix
        = (wiskiUpdate (wiskiInnerProd W dinv) (wiskiResponse W dinv r) Wf dinvf rf).2.toMatrix := by
  constructor
  · ext u v
    simp [wiskiInnerProd, wiskiUpdate, vstack, Matrix.mul_apply, Matrix.diagonal_apply, Fin.sum_univ_add]
  · ext u v
    simp [wiskiResponse, wiskiUpdate, vstack, Matrix.mul_apply, Matrix.diagonal_apply, Fin.sum_univ_add]

/-- WISKI `fantasy_mean_cache`: `W*(K m − K L (LᵀKL + I)⁻¹ Lᵀ K m)` with `L Lᵀ = Wᵀ D⁻¹ W`, `m = Wᵀ D⁻¹ r`
is the dense conditional mean `(W* K Wᵀ)(W K Wᵀ + D)⁻¹ r`. -/
theorem wiski_mean_eq_dense (Kuu : DMat g g α) (W : DMat n g α) (Ws : DMat ns g α) (d : Fin n → α)
    (hd : ∀ i, d i ≠ 0) (r : DMat n 1 α) (L : DMat g k α) (Qinv : DMat k k α)
    (hL : L.toMatrix * L.toMatrixᵀ = (wiskiInnerProd W fun i => (d i)⁻¹).toMatrix)
    (hQ : Qinv.toMatrix * (L.toMatrixᵀ * Kuu.toMatrix * L.toMatrix + 1) = 1)
    (hA : IsUnit ((interpKernel W Kuu W).toMatrix + Matrix.diagonal d).det) :
    (interpApply Ws (wiskiMeanCache Kuu L (wiskiResponse W (fun i => (d i)⁻¹) r) Qinv)).toMatrix
      = (interpKernel Ws Kuu W).toMatrix * ((interpKernel W Kuu W).toMatrix + Matrix.diagonal d)⁻¹
          * r.toMatrix := by
  set K := Kuu.toMatrix
  set V := W.toMatrixᵀ with hV
  set Dinv : Matrix (Fin n) (Fin n) α := Matrix.diagonal fun i => (d i)⁻¹ with hDinv
  have hDD : Dinv * Matrix.diagonal d = 1 := by
    rw [hDinv, Matrix.diagonal_mul_diagonal, ← Matrix.diagonal_one]
    congr 1; funext i; exact inv_mul_cancel₀ (hd i)
  have hA' : (interpKernel W Kuu W).toMatrix + Matrix.diagonal d = Vᵀ * K * V + Matrix.diagonal d := by
    simp [interpKernel, hV, K]
  have hL' : L.toMatrix * L.toMatrixᵀ = V * Dinv * Vᵀ := by
    rw [hL]; simp [wiskiInnerProd, hV, hDinv, Matrix.mul_assoc]
  have core := wiski_core K V L.toMatrix Dinv (Matrix.diagonal d) Qinv.toMatrix hDD hL' hQ
  rw [hA'] at hA ⊢
  have hX : (K - K * L.toMatrix * Qinv.toMatrix * L.toMatrixᵀ * K) * V * Dinv
      = K * V * (Vᵀ * K * V + Matrix.diagonal d)⁻¹ := by
    rw [← core, Matrix.mul_assoc _ (Vᵀ * K * V + Matrix.diagonal d), Matrix.mul_nonsing_inv _ hA, Matrix.mul_one]
  have lhs : (interpApply Ws (wiskiMeanCache Kuu L (wiskiResponse W (fun i => (d i)⁻¹) r) Qinv)).toMatrix
      = Ws.toMatrix * ((K - K * L.toMatrix * Qinv.toMatrix * L.toMatrixᵀ * K) * V * Dinv) * r.toMatrix := by
    simp only [interpApply, wiskiMeanCache, wiskiResponse, DMat.toMatrix_mul, DMat.toMatrix_sub,
      DMat.toMatrix_transpose, DMat.toMatrix_diagonal, Matrix.sub_mul, Matrix.mul_sub, Matrix.mul_assoc, K, V, Dinv]
  rw [lhs, hX]
  simp only [interpKernel, DMat.toMatrix_mul, DMat.toMatrix_transpose, Matrix.mul_assoc, K, V]

/-- WISKI `fantasy_covar_cache`: `K** − (W* root)(W* root)ᵀ` with `root rootᵀ = K L (LᵀKL + I)⁻¹ Lᵀ K` is the
dense conditional covariance for `W K Wᵀ + D`. -/
theorem wiski_covar_eq_dense (Kuu : DMat g g α) (hK : Kuu.toMatrixᵀ = Kuu.toMatrix) (W : DMat n g α)
    (Ws : DMat ns g α) (Kss : DMat ns ns α) (d : Fin n → α) (hd : ∀ i, d i ≠ 0) (L : DMat g k α)
    (Qinv : DMat k k α) (root : DMat g g α)
    (hL : L.toMatrix * L.toMatrixᵀ = (wiskiInnerProd W fun i => (d i)⁻¹).toMatrix)
    (hQ : Qinv.toMatrix * (L.toMatrixᵀ * Kuu.toMatrix * L.toMatrix + 1) = 1)
    (hA : IsUnit ((interpKernel W Kuu W).toMatrix + Matrix.diagonal d).det)
    (hroot : root.toMatrix * root.toMatrixᵀ = (wiskiInnerCache Kuu L Qinv).toMatrix) :
    (interpPredCovarFast Kss Ws root).toMatrix
      = Kss.toMatrix - (interpKernel Ws Kuu W).toMatrix
          * ((interpKernel W Kuu W).toMatrix + Matrix.diagonal d)⁻¹ * (interpKernel Ws Kuu W).toMatrixᵀ := by
  set K := Kuu.toMatrix with hKdef
  set V := W.toMatrixᵀ with hV
  set Dinv : Matrix (Fin n) (Fin n) α := Matrix.diagonal fun i => (d i)⁻¹ with hDinv
  have hDD : Dinv * Matrix.diagonal d = 1 := by
    rw [hDinv, Matrix.diagonal_mul_diagonal, ← Matrix.diagonal_one]
    congr 1; funext i; exact inv_mul_cancel₀ (hd i)
  have hA' : (interpKernel W Kuu W).toMatrix + Matrix.diagonal d = Vᵀ * K * V + Matrix.diagonal d := by
    simp [interpKernel, hV, K]
  have hL' : L.toMatrix * L.toMatrixᵀ = V * Dinv * Vᵀ := by
    rw [hL]; simp [wiskiInnerProd, hV, hDinv, Matrix.mul_assoc]
  rw [hA'] at hA ⊢
  have core := wiski_inner_core K V L.toMatrix Dinv (Matrix.diagonal d) Qinv.toMatrix hDD hL' hQ hA
  have hin : (wiskiInnerCache Kuu L Qinv).toMatrix = K * L.toMatrix * Qinv.toMatrix * L.toMatrixᵀ * K := by
    simp only [wiskiInnerCache, DMat.toMatrix_mul, DMat.toMatrix_transpose, Matrix.transpose_mul, hK,
      Matrix.mul_assoc, K]
  simp only [interpPredCovarFast, interpApply, lowRank, DMat.toMatrix_sub, DMat.toMatrix_mul,
    DMat.toMatrix_transpose, Matrix.transpose_mul]
  rw [show Ws.toMatrix * root.toMatrix * (root.toMatrixᵀ * Ws.toMatrixᵀ)
      = Ws.toMatrix * (root.toMatrix * root.toMatrixᵀ) * Ws.toMatrixᵀ by simp only [Matrix.mul_assoc],
    hroot, hin, core]
  simp only [interpKernel, DMat.toMatrix_mul, DMat.toMatrix_transpose, Matrix.transpose_mul,
    Matrix.transpose_transpose, hK, Matrix.mul_assoc, K, V]

/-! ### WISKI fantasy histories: repeated `get_fantasy_model` calls on ONE base object -/

/-- one out-of-place transition: the object it is called on is returned unchanged and the new strategy receives the
caches recomputed from base data ++ fantasy data. -/
theorem wiski_step_frame_and_recompute (W : DMat n g α) (dinv : Fin n → α) (r : DMat n 1 α) (q : FantasyReq g α) :
    wiskiFantasyStep (wiskiBase W dinv r) q = (wiskiBase W dinv r, wiskiRecompute W dinv r q) := by
  obtain ⟨h1, h2⟩ := wiski_update_eq_recompute W q.Wf dinv q.dinvf r q.rf
  simp only [wiskiFantasyStep, wiskiBase, wiskiRecompute, Prod.mk.injEq, true_and, WiskiState.mk.injEq]
  exact ⟨DMat.toMatrix_injective h1.symm, DMat.toMatrix_injective h2.symm⟩

/-- **every history**: after ANY list of fantasy requests issued against the same base object the base object still holds
the caches of the base data, and the k-th new strategy holds exactly the caches of base data ++ the k-th fantasy data —
independent of how many fantasy models were derived before it (no earlier fantasy target is counted twice). -/
theorem wiski_history_eq_recompute (W : DMat n g α) (dinv : Fin n → α) (r : DMat n 1 α) :
    ∀ qs : List (FantasyReq g α),
      wiskiFantasyHistory wiskiFantasyStep (wiskiBase W dinv r) qs
        = (wiskiBase W dinv r, qs.map (wiskiRecompute W dinv r))
  | [] => rfl
  | q :: qs => by
      simp only [wiskiFantasyHistory, wiski_step_frame_and_recompute, wiski_history_eq_recompute W dinv r qs, List.map_cons]

/-- chained fantasies (a fantasy model of a fantasy model): updating the updated caches = recomputation on
(base ++ first fantasy) ++ second fantasy data. -/
theorem wiski_chain_eq_recompute (W : DMat n g α) (dinv : Fin n → α) (r : DMat n 1 α) (q1 q2 : FantasyReq g α) :
    (wiskiFantasyStep (wiskiFantasyStep (wiskiBase W dinv r) q1).2 q2).2
      = wiskiRecompute (vstack W q1.Wf) (Fin.addCases dinv q1.dinvf) (vstack r q1.rf) q2 := by
  have e : (wiskiFantasyStep (wiskiBase W dinv r) q1).2
      = wiskiBase (vstack W q1.Wf) (Fin.addCases dinv q1.dinvf) (vstack r q1.rf) := by
    rw [wiski_step_frame_and_recompute]; rfl
  rw [e, wiski_step_frame_and_recompute]

/-- a transition that adds the fantasy response IN PLACE onto the cache of the object it is called on is NOT the
out-of-place update: the second strategy derived from the same base then carries the first fantasy response as well. -/
theorem wiski_inplace_step_double_counts (base : WiskiState g α) (q1 q2 : FantasyReq g α) :
    let step : WiskiState g α → FantasyReq g α → WiskiState g α × WiskiState g α := fun self q =>
      let u := wiskiUpdate self.innerProd self.response q.Wf q.dinvf q.rf
      (⟨self.innerProd, u.2⟩, ⟨u.1, u.2⟩)
    ((wiskiFantasyHistory step base [q1, q2]).2.map (·.response.toMatrix))
      = [base.response.toMatrix + (wiskiResponse q1.Wf q1.dinvf q1.rf).toMatrix,
         base.response.toMatrix + (wiskiResponse q1.Wf q1.dinvf q1.rf).toMatrix
           + (wiskiResponse q2.Wf q2.dinvf q2.rf).toMatrix] := by
  simp only [wiskiFantasyHistory, wiskiUpdate, List.map_cons, List.map_nil, DMat.toMatrix_add]

end interp

/-! ## cubic interpolation weights — about the GENERATED coefficients and index arithmetic -/

section keys
variable [Field α] [LinearOrder α] [IsStrictOrderedRing α] [FloorRing α]

/-- the generated Horner pieces are the polynomials with the generated coefficient lists
(`|r| ≤ 1`: `1 − 5/2 r² + 3/2 r³`; `1 < |r| ≤ 2`: `2 − 4r + 5/2 r² − 1/2 r³` on the unchanged tree). -/
theorem keys_piece_coeffs (U : α) :
    piece0 U = ((piece0Coeffs.zipIdx.map fun ci => ((ci.1 : ℚ) : α) * U ^ ci.2).sum) ∧
    piece1 U = ((piece1Coeffs.zipIdx.map fun ci => ((ci.1 : ℚ) : α) * U ^ ci.2).sum) := by
  constructor
  · simp only [piece0, piece0Coeffs, List.zipIdx_cons, List.zipIdx_nil, List.map_cons, List.map_nil,
      List.sum_cons, List.sum_nil]
    push_cast; ring
  · simp only [piece1, piece1Coeffs, List.zipIdx_cons, List.zipIdx_nil, List.map_cons, List.map_nil,
      List.sum_cons, List.sum_nil]
    push_cast; ring

/-- the four weights at offsets `r+1, r, r−1, r−2` sum to one for every `r ∈ [0,1]`. -/
theorem keys_partition_of_unity (r : α) (h0 : 0 ≤ r) (h1 : r ≤ 1) :
    ∑ k ∈ Finset.range numCoefficients, cubicKernel (scaledDist r k) = 1 := by
  obtain ⟨w0, w1, w2, w3⟩ := keys_weights r h0 h1
  simp only [numCoefficients, Finset.sum_range_succ, Finset.sum_range_zero, zero_add, w0, w1, w2, w3, piece0,
    piece1]
  ring

/-- linear and quadratic reproduction in the grid interior, stated with the generated index arithmetic: with
`lower = ⌊q⌋`, `rel = q − lower` (`q = (x − g₀)/δ`) and nodes `lowerShift lower + offset k`,
`Σ_k w_k · (node_k − q)^p = [p = 0]` for `p = 0, 1, 2`.  (An off-by-one in the lower index, a wrong offset or a
wrong coefficient makes this fail to build.) -/
theorem keys_reproduces_quadratics (g : ℕ → α) (delta x : α) (p : ℕ) (hp : p ≤ 2) :
    let lower := lowerIdx g delta x
    let rel := relDist g delta x lower
    ∑ k ∈ Finset.range numCoefficients,
        cubicKernel (scaledDist rel k) * (((lowerShift lower + offset k : ℤ) : α) - (x - g 0) / delta) ^ p
      = if p = 0 then 1 else 0 := by
  intro lower rel
  set q : α := (x - g 0) / delta with hq
  have hl : lower = ⌊q⌋ := rfl
  have hr : rel = q - (lower : α) := rfl
  have h0 : 0 ≤ rel := by rw [hr, hl]; linarith [Int.floor_le q]
  have h1 : rel < 1 := by rw [hr, hl]; linarith [Int.lt_floor_add_one q]
  obtain ⟨w0, w1, w2, w3⟩ := keys_weights rel h0 h1.le
  have hq' : q = (lower : α) + rel := by rw [hr]; ring
  simp only [numCoefficients, Finset.sum_range_succ, Finset.sum_range_zero, zero_add, w0, w1, w2, w3, hq',
    lowerShift, offset, interpPoints, interpMin, interpMax, List.getD_cons_succ, List.getD_cons_zero]
  push_cast
  interval_cases p <;> simp only [piece0, piece1] <;> norm_num <;> ring

/-- consequently every quadratic is interpolated exactly in the interior. -/
theorem keys_interpolates_quadratic (g : ℕ → α) (delta x : α) (a b c : α) :
    let lower := lowerIdx g delta x
    let rel := relDist g delta x lower
    let f : α → α := fun y => a + b * y + c * y ^ 2
    ∑ k ∈ Finset.range numCoefficients,
        cubicKernel (scaledDist rel k) * f ((lowerShift lower + offset k : ℤ) : α)
      = f ((x - g 0) / delta) := by
  intro lower rel f
  have e0 := keys_reproduces_quadratics g delta x 0 (by omega)
  have e1 := keys_reproduces_quadratics g delta x 1 (by omega)
  have e2 := keys_reproduces_quadratics g delta x 2 (by omega)
  simp only [pow_zero, mul_one, pow_one, if_true, one_ne_zero, if_false,
    show (2 : ℕ) ≠ 0 by decide] at e0 e1 e2
  set q := (x - g 0) / delta
  have : ∀ y : α, f y = f q * 1 + (b + 2 * c * q) * (y - q) + c * (y - q) ^ 2 := by intro y; simp only [f]; ring
  calc ∑ k ∈ Finset.range numCoefficients,
        cubicKernel (scaledDist rel k) * f ((lowerShift lower + offset k : ℤ) : α)
      = f q * ∑ k ∈ Finset.range numCoefficients, cubicKernel (scaledDist rel k)
        + (b + 2 * c * q) * ∑ k ∈ Finset.range numCoefficients,
            cubicKernel (scaledDist rel k) * (((lowerShift lower + offset k : ℤ) : α) - q)
        + c * ∑ k ∈ Finset.range numCoefficients,
            cubicKernel (scaledDist rel k) * (((lowerShift lower + offset k : ℤ) : α) - q) ^ 2 := by
        simp only [Finset.mul_sum, ← Finset.sum_add_distrib]
        apply Finset.sum_congr rfl
        intro k _
        rw [this]; ring
    _ = f q := by rw [e0, e1, e2]; ring

/-- at a grid node (`q` an integer, interior) the weight row is one-hot at that node: node `k` with
`lowerShift ⌊q⌋ + offset k = q` gets weight 1, the others 0. -/
theorem keys_exact_at_nodes (z : ℤ) (k : ℕ) (hk : k < numCoefficients) :
    cubicKernel (scaledDist ((z : α) - ((⌊(z : α)⌋ : ℤ) : α)) k)
      = if lowerShift ⌊(z : α)⌋ + offset k = z then 1 else 0 := by
  obtain ⟨w0, w1, w2, w3⟩ := keys_weights (0 : α) le_rfl zero_le_one
  obtain ⟨p01, p11, p12, p00⟩ := piece_at_one (α := α)
  simp only [Int.floor_intCast, sub_self]
  have : k = 0 ∨ k = 1 ∨ k = 2 ∨ k = 3 := by simp [numCoefficients] at hk; omega
  rcases this with h | h | h | h <;> subst h
  · rw [w0]; simp [lowerShift, offset, interpPoints, interpMin, interpMax, p11]
  · rw [w1]; simp [lowerShift, offset, interpPoints, interpMin, interpMax, p00]
  · rw [w2]; simp [lowerShift, offset, interpPoints, interpMin, interpMax, p01]; omega
  · rw [w3]; simp [lowerShift, offset, interpPoints, interpMin, interpMax]
    rw [p12, if_neg (by omega)]

/-- the `unsqueeze/repeat/view` pattern: position `j ↦ (srcOf d i j)_{i<d}` enumerates `{0..nc−1}^d` exactly
once, for every `d`. -/
theorem lex_index_bijection (d : ℕ) : Function.Bijective (lexDigits d) := by
  rw [lexDigits_eq]
  exact (finFunctionFinEquiv.symm.trans (Equiv.arrowCongr Fin.revPerm (Equiv.refl _))).bijective

/-- hence sums of products over the `nc^d` positions factor over the dimensions. -/
theorem lex_weights_sum {β : Type} [CommSemiring β] (d : ℕ) (w : Fin d → ℕ → β) :
    ∑ j : Fin (numCoefficients ^ d), ∏ i : Fin d, w i (srcOf d i j)
      = ∏ i : Fin d, ∑ k : Fin numCoefficients, w i k := by
  rw [Finset.prod_univ_sum]
  simp only [Fintype.piFinset_univ]
  exact Fintype.sum_bijective (lexDigits d) (lex_index_bijection d) _ _ (fun j => rfl)

/-- every one-dimensional weight row of the generated `dimInterp` sums to one (interior: Keys weights;
boundaries: the snapped one-hot row). -/
theorem dimInterp_weights_sum_one (eps : α) (g : ℕ → α) (G : ℕ) (x : α) :
    ∑ k ∈ Finset.range numCoefficients, (dimInterp eps g G x).2 k = 1 := by
  unfold dimInterp
  simp only
  by_cases hR : rightCond G (if leftCond G (lowerShift (lowerIdx g (gridDelta eps g) x)) = true then leftValue G
      else lowerShift (lowerIdx g (gridDelta eps g) x)) = true
  · simp only [hR, if_true, rightRow]
    rw [oneHot_sum _ (argminAbs_lt _ _ (by decide) _)]; ring
  · simp only [hR, Bool.false_eq_true, if_false]
    by_cases hL : leftCond G (lowerShift (lowerIdx g (gridDelta eps g) x)) = true
    · simp only [hL, if_true, leftRow]
      rw [oneHot_sum _ (argminAbs_lt _ _ (by decide) _)]; ring
    · simp only [hL, Bool.false_eq_true, if_false]
      have := keys_reproduces_quadratics g (gridDelta eps g) x 0 (by omega)
      simpa using this

/-- the d-dimensional weights `interp_values` of one target point sum to one, for every `d`, every grid and
every point (interior or boundary). -/
theorem interp_weights_sum_one (eps : α) (grids : List (ℕ × (ℕ → α))) (x : List α)
    (hx : x.length = grids.length) :
    ((interpolate (spec eps) grids x).map Prod.snd).sum = 1 := by
  have hsum : ((interpolate (spec eps) grids x).map Prod.snd).sum
      = ∏ i ∈ Finset.range grids.length, ∑ k ∈ Finset.range numCoefficients,
          (perDim (spec eps) grids x i).2 k := by
    unfold interpolate
    simp only [List.map_map]
    rw [list_range_map_sum]
    simp only [Function.comp, entry_eq, Finset.prod_range, Finset.sum_range, spec]
    exact lex_weights_sum grids.length (fun i k => (perDim (spec eps) grids x i).2 k)
  rw [hsum]
  apply Finset.prod_eq_one
  intro i hi
  have hi' : i < grids.length := Finset.mem_range.mp hi
  simp only [perDim, List.getElem?_eq_getElem hi', List.getElem?_eq_getElem (hx ▸ hi'), spec]
  exact dimInterp_weights_sum_one eps _ _ _

/-- the flat grid index of position `j` is `Σᵢ (lowerᵢ + offset(srcOf d i j)) · index_coeffᵢ`, and the value
is the product of the per-dimension weights. -/
theorem interpolate_entry (S : DimSpec α) (sizes : List ℕ) (d : ℕ) (per : ℕ → ℤ × (ℕ → α)) (j : ℕ) :
    entry S sizes d per j
      = (∑ i ∈ Finset.range d, ((per i).1 + S.offset (S.srcOf d i j)) * (S.indexCoeff sizes i : ℤ),
         ∏ i ∈ Finset.range d, (per i).2 (S.srcOf d i j)) :=
  entry_eq S sizes d per j

/-
`interp_convergence` (full strength, NOT proved): for a kernel `k ∈ C³` and grids of spacing `h → 0` covering
the data, `‖W_h K_{uu,h} W_hᵀ − K_XX‖_max = O(h³)`.  This is an analytic rate statement about the Keys
interpolant of a smooth function (needs Taylor's theorem with remainder for `k` in each argument); what is
proved is the algebraic core: exact reproduction of every quadratic (`keys_interpolates_quadratic`), i.e. the
local truncation error vanishes on polynomials of degree ≤ 2.
-/

/-- `_partial`: the interpolation error of the Keys weights vanishes identically for quadratics (third-order
consistency); convergence for general smooth kernels is only observed (monotone error decrease over four
grid refinements in the correspondence). -/
theorem interp_convergence_partial (g : ℕ → α) (delta x : α) (a b c : α) :
    let lower := lowerIdx g delta x
    let rel := relDist g delta x lower
    let f : α → α := fun y => a + b * y + c * y ^ 2
    f ((x - g 0) / delta) - ∑ k ∈ Finset.range numCoefficients,
        cubicKernel (scaledDist rel k) * f ((lowerShift lower + offset k : ℤ) : α) = 0 := by
  intro lower rel f
  rw [keys_interpolates_quadratic g delta x a b c]
  exact sub_self _

end keys


/-! ## the REGENERATED strategy algebra (`Gen/StructuredAlgebra.lean`, translator G7) equals the model

Every definition below `Gen.StructuredAlgebra.*` is produced from the Python AST on each run; these theorems are what
ties the hand-written `Structured.*` model (about which everything above is proved) to the current source. -/

section generated
open Gen.StructuredAlgebra


section
variable [Field α] {n m ns k g : ℕ}

theorem gen_sgpr_cache_eq_model (P : Prim α) (Rx : DMat n m α) (d : Fin n → α) :
    sgprCovarCache P Rx d
      = sgprCache Rx (sgprInverse Rx (fun i => (d i)⁻¹)
          (P.cholLInv (sgprCapacitance Rx (fun i => (d i)⁻¹))).transpose) := by
  have hcap : ((Rx.transpose.mul ((DMat.diagonal (fun i => (d i)⁻¹)).mul Rx)).add (DMat.one.smul (1 : α)))
      = sgprCapacitance Rx (fun i => (d i)⁻¹) := by
    apply DMat.toMatrix_injective
    simp [sgprCapacitance, add_comm]
  apply DMat.toMatrix_injective
  simp only [sgprCovarCache, hcap, sgprCache, sgprInverse, DMat.toMatrix_mul, DMat.toMatrix_add, DMat.toMatrix_neg,
    DMat.toMatrix_transpose, DMat.toMatrix_diagonal, Matrix.transpose_mul, Matrix.transpose_transpose,
    Matrix.diagonal_transpose, Matrix.mul_assoc]

theorem gen_sgpr_pred_covar_eq_model (Kss : DMat ns ns α) (L : DMat ns m α) (Rt : DMat m n α) (cache : DMat m m α) :
    sgprPredictiveCovar Kss L Rt cache = sgprPredCovar Kss L cache := rfl

theorem gen_default_mean_eq_model (P : Prim α) (A : DMat n n α) (y mu : DMat n 1 α) (Ksx : DMat ns n α) (tm : DMat ns 1 α) :
    defaultPredictiveMean Ksx (defaultMeanCache P A y mu) tm = (condMean Ksx (P.inv A) (y.sub mu)).add tm := rfl

theorem gen_rff_cache_eq_model (P : Prim α) (c : α) (F : DMat n k α) (A : DMat n n α) (Fs : DMat ns k α) (cache : DMat k k α) :
    rffInnerTerm P c F A = rffInner c F (P.inv A) ∧
    rffCovarCache P c F A = P.cholL (rffInner c F (P.inv A)) ∧
    rffPredictiveCovar P c Fs cache = rffPredCovar (P.sqrt c) Fs cache := ⟨rfl, rfl, rfl⟩

theorem gen_interp_caches_eq_model (P : Prim α) (Kuu : DMat g g α) (W : DMat n g α) (Ws : DMat ns g α) (S : DMat n k α)
    (A : DMat n n α) (y mu : DMat n 1 α) (cache : DMat g k α) (mc : DMat g 1 α) (tm : DMat ns 1 α) (Kss : DMat ns ns α)
    (root : DMat ns k α) :
    interpInvQuadFormCache Kuu W Ws S = interpCovarCache Kuu W S ∧
    interpInvQuadFormRoot Kuu W Ws cache = interpApply Ws cache ∧
    Gen.StructuredAlgebra.interpMeanCache P Kuu W A y mu = Structured.interpMeanCache Kuu W (P.inv A) (y.sub mu) ∧
    interpPredictiveMean Kuu W Ws mc tm = (interpApply Ws mc).add tm ∧
    (interpPredictiveCovarFast Kss root).toMatrix = (Kss.sub (lowRank root)).toMatrix ∧
    (interpInside Kuu cache).toMatrix = Kuu.toMatrix - cache.toMatrix * cache.toMatrixᵀ := by
  refine ⟨rfl, rfl, rfl, rfl, ?_, ?_⟩
  · simp [interpPredictiveCovarFast, lowRank, sub_eq_add_neg]
  · simp [interpInside, sub_eq_add_neg]
end

section
variable [Field α] [LinearOrder α] {n m ns : ℕ}

theorem gen_nystrom_eq_model (training corr : Bool) (kdiag : Fin n → α) (Kxz : DMat n m α) (Ksz : DMat ns m α) (R : DMat m m α) :
    getCovarianceSame training corr kdiag Kxz R
      = (if training then lowRank (nystromRoot Kxz R) else nystromEval corr kdiag Kxz R) ∧
    getCovarianceCross Ksz Kxz R = nystromCross Ksz Kxz R := by
  refine ⟨?_, rfl⟩
  cases training <;> cases corr <;> rfl

/-- the finding, as a fact about generated code -/
theorem gen_diag_correction_applied_to_train_block (kdiag : Fin n → α) (Kxz : DMat n m α) (R : DMat m m α) :
    (getCovarianceSame false true kdiag Kxz R).toMatrix
      = (lowRank (nystromRoot Kxz R)).toMatrix
        + Matrix.diagonal (fun i => max 0 (kdiag i - (lowRank (nystromRoot Kxz R)).diag i)) := by
  rw [(gen_nystrom_eq_model false true kdiag Kxz Kxz R).1]
  simp [nystromEval, diagCorrection]
end

theorem gen_kron_order_multitask [Mul α] {n m t s : ℕ} (Kx : DMat n m α) (Kt : DMat t s α)
    (i : Fin n) (a : Fin t) (j : Fin m) (b : Fin s) (hp : i.1 * t + a.1 < n * t) (hq : j.1 * s + b.1 < m * s) :
    multitaskForward Kx Kt = kron Kx Kt ∧
    (multitaskForward Kx Kt).toMatrix ⟨i.1 * t + a.1, hp⟩ ⟨j.1 * s + b.1, hq⟩ = Kx.toMatrix i j * Kt.toMatrix a b :=
  ⟨rfl, kron_interleaved_entry Kx Kt i a j b hp hq⟩

theorem gen_lcm_eq_model [Mul α] [Add α] {n m t s : ℕ} (hd : DMat n m α × DMat t s α) (tl : List (DMat n m α × DMat t s α)) :
    lcmForward hd tl = lcmKernel hd tl := rfl

theorem gen_index_eq_model [Mul α] [AddCommMonoid α] {n m t r : ℕ} (F : DMat t r α) (v : Fin t → α) (i1 : Fin n → Fin t) (i2 : Fin m → Fin t) :
    indexForward (indexCovarMatrix F v) i1 i2 = indexGather (indexCovar F v) i1 i2 := rfl

theorem gen_added_loss_eq_titsias_term [Field α] {n : ℕ} (kdiag qdiag noise : Fin n → α) (σ2 : α) :
    addedLoss kdiag qdiag noise = titsiasAddedLoss kdiag qdiag noise ∧
    addedLoss kdiag qdiag (fun _ => σ2) = -((∑ i, (kdiag i - qdiag i)) / (2 * σ2)) := by
  refine ⟨rfl, ?_⟩
  simp only [addedLoss, div_eq_mul_inv, ← Finset.sum_mul]
  ring


theorem indexCoeff_eq_prod (sizes : List ℕ) (k : ℕ) : Gen.Interp.indexCoeff sizes k = (sizes.drop (k + 1)).prod := by
  simp [Gen.Interp.indexCoeff, List.prod_eq_foldl]

/-- the interpolation's flat grid index `Σ_k idx_k · index_coeff_k` is the row-major position -/
theorem rowMajorFlat_eq_index_coeff_sum : ∀ (sizes is : List ℕ), is.length = sizes.length →
    rowMajorFlat sizes is = ((List.range is.length).map fun k => is.getD k 0 * Gen.Interp.indexCoeff sizes k).sum
  | [], [], _ => by simp [rowMajorFlat]
  | [], _ :: _, h => by simp at h
  | _ :: _, [], h => by simp at h
  | n :: ns, i :: is, h => by
      have h' : is.length = ns.length := by simpa using h
      have ih := rowMajorFlat_eq_index_coeff_sum ns is h'
      simp only [rowMajorFlat, List.length_cons, List.range_succ_eq_map, List.map_cons, List.sum_cons, List.map_map,
        List.getD_cons_zero, indexCoeff_eq_prod, List.drop_succ_cons, List.drop_zero]
      rw [ih]
      congr 1
      simp only [indexCoeff_eq_prod]
      congr 1

theorem gen_kron_order_grid_matches_interp_index [CommMonoid α] [Zero α] (Ks : List (Sq α)) (is js : List ℕ)
    (hi : List.Forall₂ (fun i (K : Sq α) => i < K.1) is Ks) (hj : List.Forall₂ (fun j (K : Sq α) => j < K.1) js Ks) :
    gridForward true Ks = gridKronRowMajor Ks ∧
    (gridForward true Ks).get
        (((List.range is.length).map fun k => is.getD k 0 * Gen.Interp.indexCoeff (Ks.map (·.1)) k).sum)
        (((List.range js.length).map fun k => js.getD k 0 * Gen.Interp.indexCoeff (Ks.map (·.1)) k).sum)
      = gridProd Ks is js := by
  have e : gridForward true Ks = gridKronRowMajor Ks := by simp [gridForward, kroneckerOrder, kronList]
  refine ⟨e, ?_⟩
  rw [e, ← rowMajorFlat_eq_index_coeff_sum _ _ (by simpa using hi.length_eq),
    ← rowMajorFlat_eq_index_coeff_sum _ _ (by simpa using hj.length_eq)]
  exact grid_kron_row_major_order Ks is js hi hj


/-- **Task B** — the non-interpolation order for every number of dimensions and all sizes: the generated
`GridKernel.forward` outside interpolation mode (`KroneckerProductLinearOperator(*covars[::-1])`, a standard Kronecker
product over the REVERSED list) has the size and, at all positions, the entries of the model's `gridKron` (first grid
dimension fastest). -/
theorem gen_grid_forward_eq_gridKron [Monoid α] [Zero α] (Ks : List (Sq α)) :
    (gridForward false Ks).1 = (gridKron Ks).1 ∧ ∀ p q, (gridForward false Ks).get p q = (gridKron Ks).get p q := by
  have e : gridForward false Ks = gridKronRowMajor Ks.reverse := by simp [gridForward, kroneckerOrder, kronList]
  rw [e]
  exact gridKronRowMajor_reverse Ks

/-- hence the generated non-interpolation `GridKernel.forward`, read at the `create_data_from_grid` positions of two
multi-indices, is `∏ₖ Kₖ[iₖ, jₖ]` — the dense meaning of the product kernel on `full_grid`. -/
theorem gen_kron_order_grid_matches_full_grid [Monoid α] [Zero α] (Ks : List (Sq α)) (is js : List ℕ)
    (hi : List.Forall₂ (fun i (K : Sq α) => i < K.1) is Ks) (hj : List.Forall₂ (fun j (K : Sq α) => j < K.1) js Ks) :
    (gridForward false Ks).get (gridFlat (Ks.map (·.1)) is) (gridFlat (Ks.map (·.1)) js) = gridProd Ks is js := by
  rw [(gen_grid_forward_eq_gridKron Ks).2]
  exact grid_kron_order Ks is js hi hj

/-- the generated Toeplitz branch of `GridKernel.forward`: for even `f` the factors built from the first rows are the dense
per-dimension kernel matrices, so (with the two order theorems) the use_toeplitz result is the same matrix as the dense one,
in both modes and in the `last_dim_is_batch` batch of factors. -/
theorem gen_grid_toeplitz_eq_dense [Field α] (dims : List (GridDim α)) (heven : ∀ d ∈ dims, ∀ x, d.f (-x) = d.f x) :
    gridToeplitzFactors (dims.map GridDim.row) = dims.map GridDim.dense ∧
    (∀ mode, gridForward mode (gridToeplitzFactors (dims.map GridDim.row)) = gridForward mode (dims.map GridDim.dense)) ∧
    gridForwardLastDimBatch (dims.map GridDim.row) (dims.map GridDim.dense) true
      = gridForwardLastDimBatch (dims.map GridDim.row) (dims.map GridDim.dense) false := by
  have e : gridToeplitzFactors (dims.map GridDim.row) = dims.map GridDim.dense := by
    simp only [gridToeplitzFactors, List.map_map]
    apply List.map_congr_left
    intro d hd
    simp only [Function.comp, GridDim.row, GridDim.dense]
    congr 1
    apply DMat.toMatrix_injective
    ext i j
    rw [toeplitz_entry d.f (heven d hd) d.g0 d.δ i j]
    simp
  refine ⟨e, fun mode => by rw [e], ?_⟩
  simpa [gridForwardLastDimBatch, gridToeplitzFactors] using e

/-- `GridKernel.forward(last_dim_is_batch=True)` returns the per-dimension factors themselves (additive structure: one
one-dimensional kernel per input dimension, no Kronecker product). -/
theorem gen_grid_last_dim_batch_eq_factors (rows : List (Σ n : ℕ, Fin n → α)) (covars : List (Sq α)) :
    gridForwardLastDimBatch rows covars false = covars ∧
    gridForwardLastDimBatch rows covars true = gridToeplitzFactors rows := ⟨rfl, rfl⟩

/-- `GridInterpolationKernel._compute_grid`, generated from its transpose / unsqueeze / reshape sequence, hands
`Interpolation.interpolate` the right coordinates: in ordinary mode point `a` is row `a` (coordinate `c` = column `c`); with
`last_dim_is_batch` the `d·n` one-coordinate points are COLUMN-major, point `i·n + a` is entry `(a, i)`, and the result is
viewed as `d × n × ·` — so batch element `i` is the interpolation of column `i` of the inputs. -/
theorem gen_compute_grid_reads_column (n d a i c : ℕ) (ha : a < n) (hi : i < d) (hc : c < d) :
    Gen.StructuredAlgebra.computeGridSource true n d (i * n + a) 0 = (a, i) ∧
    Gen.StructuredAlgebra.computeGridSource false n d a c = (a, c) ∧
    (∀ p, p < d * n → Gen.StructuredAlgebra.computeGridSource true n d p 0 = Structured.computeGridSource true n p 0) ∧
    computeGridPointDim true n d = 1 ∧ computeGridPointDim false n d = d ∧
    computeGridResultShape true n d = ([d], n) ∧ computeGridResultShape false n d = ([], n) := by
  have hn : 0 < n := by omega
  have hd : 0 < d := by omega
  refine ⟨?_, ?_, ?_, rfl, rfl, rfl, rfl⟩
  · simp only [Gen.StructuredAlgebra.computeGridSource, if_true, Nat.add_zero, Nat.div_one, Prod.mk.injEq]
    constructor
    · rw [Nat.mul_comm, Nat.mul_add_mod, Nat.mod_eq_of_lt ha]
    · rw [Nat.add_comm, Nat.add_mul_div_right _ _ hn, Nat.div_eq_of_lt ha, Nat.zero_add, Nat.mod_eq_of_lt hi]
  · simp only [Gen.StructuredAlgebra.computeGridSource, Bool.false_eq_true, if_false, Nat.div_one, Prod.mk.injEq]
    constructor
    · rw [Nat.add_comm, Nat.add_mul_div_right _ _ hd, Nat.div_eq_of_lt hc, Nat.zero_add, Nat.mod_eq_of_lt ha]
    · rw [Nat.mul_add_mod_of_lt hc]
  · intro p hp
    simp only [Gen.StructuredAlgebra.computeGridSource, Structured.computeGridSource, if_true, Nat.add_zero, Nat.div_one,
      Prod.mk.injEq, true_and]
    exact Nat.mod_eq_of_lt (Nat.div_lt_of_lt_mul (by rw [Nat.mul_comm]; exact hp))

/-- `InducingPointKernel.__deepcopy__` threads the `memo` dictionary through the copies of the base kernel, the inducing
points and — the one the training objective depends on — the likelihood; with `deepcopy_memo_preserves_sharing` the copy of
a model therefore keeps `covar_module.likelihood is model.likelihood`. -/
theorem gen_deepcopy_threads_memo :
    inducingDeepcopyArgs.lookup "likelihood" = some CopyMode.memo ∧
    inducingDeepcopyArgs.lookup "base_kernel" = some CopyMode.memo ∧
    inducingDeepcopyArgs.lookup "inducing_points" = some CopyMode.memo := by decide

/-- the eval-mode caches of the structured kernels (`K_zz`, `K_zz^{-1/2}`, the KISS-GP / grid `K_uu`) cannot be read stale, as a
fact about the guards found in the source: in TRAINING mode each cache is either never read (`not self.training and …`) or was
dropped on entering training mode and is not written there; on LEAVING training mode (parameters may have changed) and on
`update_grid` — in interpolation mode too — the caches are dropped, and `_clear_cache` drops all of them. -/
theorem gen_eval_caches_sound :
    let f := factOf evalCacheFacts
    (f "InducingPointKernel._inducing_mat reads its cache only in eval mode" ∨
      (f "Module.train clears the eval caches when entering training mode" ∧
       f "InducingPointKernel._inducing_mat writes its cache only in eval mode")) ∧
    (f "InducingPointKernel._inducing_inv_root reads its cache only in eval mode" ∨
      (f "Module.train clears the eval caches when entering training mode" ∧
       f "InducingPointKernel._inducing_inv_root writes its cache only in eval mode")) ∧
    (f "GridKernel.forward reads its cache only in eval mode" ∨
      (f "Module.train clears the eval caches when entering training mode" ∧
       f "GridKernel.forward writes its cache only in eval mode")) ∧
    f "Module.train clears the eval caches when leaving training mode" ∧
    f "GridKernel.update_grid drops the cache unconditionally (also in interpolation mode)" ∧
    f "InducingPointKernel._clear_cache drops both caches" ∧
    f "GridKernel._clear_cache drops the cached kernel matrix" := by decide

section
variable [Field α] {g nf : ℕ}

/-- the generated `get_fantasy_strategy` (WISKI) is the model's out-of-place transition: the new strategy receives
`wiskiUpdate` of the caches and `self` keeps its own (second component = the inputs).  `√` enters only through
`sqrt_inv_matmul`; its contract `√x · √x = x` is the hypothesis. -/
theorem gen_wiski_fantasy_step_eq_model (P : Prim α) (P0 : DMat g g α) (resp0 : DMat g 1 α) (Wf : DMat nf g α)
    (noisef : Fin nf → α) (yf muf : DMat nf 1 α) (hs : ∀ i, P.sqrt (noisef i) * P.sqrt (noisef i) = noisef i) :
    Gen.StructuredAlgebra.wiskiFantasyStep P P0 resp0 Wf noisef yf muf
      = (wiskiUpdate P0 resp0 Wf (fun i => (noisef i)⁻¹) (yf.sub muf), (P0, resp0)) ∧
    (Gen.StructuredAlgebra.wiskiFantasyStep P P0 resp0 Wf noisef yf muf).2
      = ((Structured.wiskiFantasyStep ⟨P0, resp0⟩ ⟨nf, Wf, fun i => (noisef i)⁻¹, yf.sub muf⟩).1.innerProd,
         (Structured.wiskiFantasyStep ⟨P0, resp0⟩ ⟨nf, Wf, fun i => (noisef i)⁻¹, yf.sub muf⟩).1.response) := by
  have hd : (Matrix.diagonal fun i => (P.sqrt (noisef i))⁻¹) * (Matrix.diagonal fun i => (P.sqrt (noisef i))⁻¹)
      = Matrix.diagonal fun i => (noisef i)⁻¹ := by
    rw [Matrix.diagonal_mul_diagonal]
    congr 1; funext i
    rw [← mul_inv, hs i]
  have key : Gen.StructuredAlgebra.wiskiFantasyStep P P0 resp0 Wf noisef yf muf
      = (wiskiUpdate P0 resp0 Wf (fun i => (noisef i)⁻¹) (yf.sub muf), (P0, resp0)) := by
    simp only [Gen.StructuredAlgebra.wiskiFantasyStep, wiskiUpdate, wiskiInnerProd, wiskiResponse, Prod.mk.injEq, and_true]
    apply DMat.toMatrix_injective
    simp only [DMat.toMatrix_add, DMat.toMatrix_mul, DMat.toMatrix_transpose, DMat.toMatrix_diagonal,
      Matrix.transpose_mul, Matrix.transpose_transpose, Matrix.diagonal_transpose]
    congr 1
    rw [← hd]
    simp only [Matrix.mul_assoc]
  exact ⟨key, by rw [key]; rfl⟩

end

section
variable [Field α] {m : ℕ}

theorem gen_inducing_inv_root_contract (P : Prim α) (Kzz : DMat m m α) (U : Matrix (Fin m) (Fin m) α)
    (hU : Uᵀ * U = Kzz.toMatrix) (hP : (P.cholUInv Kzz).toMatrix = U⁻¹) :
    (inducingInvRoot P Kzz).toMatrix * (inducingInvRoot P Kzz).toMatrixᵀ = Kzz.toMatrix⁻¹ := by
  simp only [inducingInvRoot, DMat.toMatrix_mul, DMat.toMatrix_one, Matrix.mul_one, hP]
  rw [← hU, Matrix.mul_inv_rev, Matrix.transpose_nonsing_inv]

end

end generated

/-! ## non-vacuity: every hypothesis bundle above is satisfiable (1×1 rational instances) -/

section examples

-- nystrom_root: R Rᵀ = Kzz⁻¹ is satisfiable
example : (m11 (1/2)).toMatrix * (m11 (1/2)).toMatrixᵀ = (m11 4).toMatrix⁻¹ := by
  rw [m11_T, m11_mul, m11_inv 4 (1/4) (by norm_num)]; norm_num

-- sgpr_woodbury: hypotheses satisfiable (Rx = 1, D = 1/3, capacitance 4, C = 1/2)
example : (sgprInverse (m11 1) (fun _ : Fin 1 => ((1/3 : ℚ))⁻¹) (m11 (1/2))).toMatrix
    = ((m11 1).toMatrix * (m11 1).toMatrixᵀ + Matrix.diagonal (fun _ : Fin 1 => (1/3 : ℚ)))⁻¹ :=
  sgpr_woodbury (m11 1) (fun _ => 1/3) (fun _ => by norm_num) (m11 (1/2))
    (by rw [cap_ex, m11_T, m11_mul, m11_inv 4 (1/4) (by norm_num)]; norm_num)
    (by rw [cap_ex, m11_det]; norm_num)

-- sgpr_pred_eq_titsias_predictive: Kzz = 4, R = 1/2, Kxz = 2 (so Rx = 1), noise 1/3, Q + Σ = 4/3
example : True := by
  have hR : (m11 (1/2)).toMatrix * (m11 (1/2)).toMatrixᵀ = (m11 4).toMatrix⁻¹ := by
    rw [m11_T, m11_mul, m11_inv 4 (1/4) (by norm_num)]; norm_num
  have hRx : nystromRoot (m11 2) (m11 (1/2)) = m11 1 := by
    apply DMat.toMatrix_injective; simp only [nystromRoot, DMat.toMatrix_mul, m11_mul]; norm_num
  have := sgpr_pred_eq_titsias_predictive (fun _ : Fin 1 => (5 : ℚ)) (fun _ : Fin 1 => (1/3 : ℚ)) (fun _ => by norm_num)
    (m11 2) (m11 3) (m11 4) (m11 (1/2)) (m11 7) (m11 1) (m11 (1/2)) (m11 (3/4)) hR
    (by rw [hRx, cap_ex, m11_T, m11_mul, m11_inv 4 (1/4) (by norm_num)]; norm_num)
    (by rw [hRx, cap_ex, m11_det]; norm_num)
    (by
      rw [m11_inv 4 (1/4) (by norm_num), m11_T, m11_mul, m11_mul]
      symm; apply Matrix.inv_eq_right_inv
      apply m11_ext; simp [m11, Matrix.mul_apply]; norm_num)
  trivial

-- rff_pred_eq_dense_conditional: c = 4, √c = 2, F = 1, A⁻¹ = 3/16, inner = 1/4, L = 1/2
example : True := by
  have := rff_pred_eq_dense_conditional (4 : ℚ) 2 (by norm_num) (m11 1) (m11 5) (m11 (3/16)) (m11 (1/2))
    (by rw [m11_T, m11_mul]; apply m11_ext; simp [rffInner, m11, Matrix.mul_apply]; norm_num)
  trivial

-- interp_pred_eq_dense_conditional: K_uu = 2 (symmetric), S = 1/2, A⁻¹ = 1/4
example : True := by
  have := interp_pred_eq_dense_conditional (m11 2) (m11_T 2) (m11 1) (m11 3) (m11 5) (m11 (1/4)) (m11 1) (m11 (1/2))
    (by rw [m11_T, m11_mul]; norm_num)
  trivial

-- wiski_mean_eq_dense / wiski_covar_eq_dense: W = 1, D = 1/4, P = 4, L = 2, K = 2, Q = 9, root = 4/3
example : True := by
  have hL : (m11 2).toMatrix * (m11 2).toMatrixᵀ = (wiskiInnerProd (m11 1) fun _ : Fin 1 => ((1/4 : ℚ))⁻¹).toMatrix := by
    rw [m11_T, m11_mul]; apply m11_ext; simp [wiskiInnerProd, m11, Matrix.mul_apply]; norm_num
  have hQ : (m11 (1/9)).toMatrix * ((m11 2).toMatrixᵀ * (m11 2).toMatrix * (m11 2).toMatrix + 1) = 1 := by
    apply m11_ext; simp [m11, Matrix.mul_apply]; norm_num
  have hA : IsUnit ((interpKernel (m11 1) (m11 2) (m11 1)).toMatrix + Matrix.diagonal (fun _ : Fin 1 => (1/4 : ℚ))).det := by
    simp [interpKernel, m11, Matrix.vecMul, dotProduct]; norm_num
  have h1 := wiski_mean_eq_dense (m11 2) (m11 1) (m11 3) (fun _ : Fin 1 => (1/4 : ℚ)) (fun _ => by norm_num) (m11 1)
    (m11 2) (m11 (1/9)) hL hQ hA
  have h2 := wiski_covar_eq_dense (m11 2) (m11_T 2) (m11 1) (m11 3) (m11 5) (fun _ : Fin 1 => (1/4 : ℚ)) (fun _ => by norm_num)
    (m11 2) (m11 (1/9)) (m11 (4/3)) hL hQ hA
    (by rw [m11_T, m11_mul]; apply m11_ext; simp [wiskiInnerCache, m11, Matrix.mul_apply, Matrix.vecMul, dotProduct]; norm_num)
  trivial

-- toeplitz_entry: an even function exists
example (i j : Fin 3) := toeplitz_entry (fun x : ℚ => x ^ 2) (fun x => by ring) 0 (1/2) i j

-- grid_kron_order: bounds satisfiable for a 2×3 grid
example : (gridKron [⟨2, DMat.ofMatrix !![1, 2; 3, 4]⟩, ⟨3, (DMat.one : DMat 3 3 ℚ)⟩]).get
    (gridFlat [2, 3] [1, 2]) (gridFlat [2, 3] [0, 2]) = gridProd [⟨2, DMat.ofMatrix !![1, 2; 3, 4]⟩, ⟨3, (DMat.one : DMat 3 3 ℚ)⟩] [1, 2] [0, 2] :=
  grid_kron_order _ [1, 2] [0, 2]
    (List.Forall₂.cons (by decide) (List.Forall₂.cons (by decide) List.Forall₂.nil))
    (List.Forall₂.cons (by decide) (List.Forall₂.cons (by decide) List.Forall₂.nil))

-- keys: r = 1/2 is an admissible offset; the weights there are (−1/16, 9/16, 9/16, −1/16)
example : ∑ k ∈ Finset.range numCoefficients, cubicKernel (scaledDist (1/2 : ℚ) k) = 1 :=
  keys_partition_of_unity (1/2) (by norm_num) (by norm_num)

-- rff_push_through: F = 1, σ² = 1 (both matrices equal 2)
example : True := by
  have := rff_push_through (m11 1) (1 : ℚ) (by simp [m11, Matrix.vecMul, dotProduct]) (by simp [m11, Matrix.mul_apply])
  trivial

-- gen_grid_toeplitz_eq_dense: an even profile exists (f = x², two dimensions of different size)
example := gen_grid_toeplitz_eq_dense [⟨3, fun x : ℚ => x ^ 2, 0, 1/2⟩, ⟨4, fun x : ℚ => x ^ 2, 1, 1/4⟩]
  (by intro d hd x; simp only [List.mem_cons, List.not_mem_nil, or_false] at hd; rcases hd with rfl | rfl <;> ring)

-- gen_kron_order_grid_matches_full_grid: bounds satisfiable for a 2×3 grid
example := gen_kron_order_grid_matches_full_grid [⟨2, DMat.ofMatrix !![1, 2; 3, 4]⟩, ⟨3, (DMat.one : DMat 3 3 ℚ)⟩] [1, 2] [0, 2]
    (List.Forall₂.cons (by decide) (List.Forall₂.cons (by decide) List.Forall₂.nil))
    (List.Forall₂.cons (by decide) (List.Forall₂.cons (by decide) List.Forall₂.nil))

-- gen_compute_grid_reads_column: n = 5, d = 3, entry (a, i) = (4, 2)
example := gen_compute_grid_reads_column 5 3 4 2 1 (by decide) (by decide) (by decide)

-- gen_wiski_fantasy_step_eq_model: a square-root oracle exists on the noise values used (noise 1/4, √ = 1/2)
example := gen_wiski_fantasy_step_eq_model (α := ℚ) ⟨fun A => A, fun A => A, fun A => A, fun A => A, fun _ => 1/2⟩ (m11 4) (m11 1) (m11 1)
  (fun _ : Fin 1 => (1/4 : ℚ)) (m11 3) (m11 1) (fun _ => by norm_num)

-- sgpr_objective_needs_shared_noise: tr(K − Q) = 2 ≠ 0, noises 1/3 and 1/2
example := sgpr_objective_needs_shared_noise (fun _ : Fin 1 => (5 : ℚ)) (fun _ => 3) (1/3) (1/2) 0 (by norm_num) (by norm_num) (by norm_num)
  (by norm_num)

-- deepcopy_memo_preserves_sharing: object 7 was already copied to 2 and 3 ids are in use
example := deepcopy_memo_preserves_sharing ⟨[(7, 2)], 3⟩ 7 2 rfl (by decide)

end examples

end C09

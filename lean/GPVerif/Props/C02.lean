/-
C02 — the exact marginal log likelihood and the leave-one-out objective equal their dense definitions.

Statements are about the definitions of `GPVerif/Model/MLL.lean` executed by `drivers/C02.lean`.

*Gradients* (wave 3): `logNormal_gradient` is the textbook formula
`∂/∂θ log N(y | μ(θ), K(θ)) = ½ rᵀK⁻¹(∂K)K⁻¹r − ½ tr(K⁻¹∂K) + (∂μ)ᵀK⁻¹r` for EVERY entrywise-differentiable
parameterisation (Jacobi's formula and the derivative of the matrix inverse along arbitrary curves are proved in
`Bridge/MLLGrad.lean` from the Leibniz expansion, the resolvent identity and `Matrix.det_one_add_smul`);
`gradParts_correct` says the driver's exact rationals are the three pieces of that formula, `mll_gradient` lifts
it through the `(log N + priors + added)/num_data` assembly.  What stays correspondence-only: that torch autograd
applied to the kernel / mean / prior code returns `∂K`, `∂μ` and the prior derivatives (C05 / C19 prove the
hand-written kernel backward passes).  `loo_gradient` / `looGrad_correct` do the same for the leave-one-out objective.
-/
import GPVerif.Model.MLL
import GPVerif.Gen.MLLAssembly
import GPVerif.Bridge.MLLIndex
import GPVerif.Bridge.MLLGrad
import Mathlib.LinearAlgebra.Matrix.Block
import Mathlib.Algebra.BigOperators.Fin
import Mathlib.Tactic.Ring
import Mathlib.Tactic.FieldSimp
import Mathlib.Tactic.LinearCombination

open Matrix

namespace C02
open MLL MLLIndex
variable {α : Type}

/-! ### the certified pieces are what they claim to be -/

/-- The driver's quadratic form is `rᵀ A⁻¹ r`. -/
theorem quad_correct [Field α] [DecidableEq α] {n : Nat} (A : DMat n n α) (r : Fin n → α) (q : α)
    (h : quad? A r = some q) : q = r ⬝ᵥ (A.toMatrix⁻¹ *ᵥ r) := by
  simp only [quad?, Option.map_eq_some_iff] at h
  obtain ⟨X, hX, rfl⟩ := h
  rw [quadForm, DMat.inv?_correct hX]

/-- The driver's determinant is `det A`. -/
theorem det_correct [Field α] [DecidableEq α] {n : Nat} (A : DMat n n α) (d : α)
    (h : det? A = some d) : d = A.toMatrix.det := by
  simp only [det?, Option.map_eq_some_iff] at h
  obtain ⟨⟨L, dd⟩, hL, rfl⟩ := h
  exact (DMat.ldl?_det hL).symm

/-- Cholesky: `A = L Lᵀ` with `L` lower triangular gives `det A = ∏ Lᵢᵢ²` (so `log det A = 2 Σ log Lᵢᵢ`,
the expression the Cholesky path of `inv_quad_logdet` / torch's `log_prob` evaluates). -/
theorem det_eq_prod_sq_diag_of_chol [CommRing α] {n : Nat} (A L : Matrix (Fin n) (Fin n) α)
    (hL : ∀ i j, i < j → L i j = 0) (hA : A = L * Lᵀ) : A.det = ∏ i, (L i i) ^ 2 := by
  have ht : L.BlockTriangular OrderDual.toDual := by
    intro i j hij
    exact hL i j (by simpa using hij)
  rw [hA, Matrix.det_mul, Matrix.det_transpose, Matrix.det_of_isLowerTriangular _ ht, ← Finset.prod_mul_distrib]
  exact Finset.prod_congr rfl fun i _ => (sq (L i i)).symm

/-! ### assembly -/

/-- **Scaling and term structure**: `num_data · mll = log N + Σ prior terms + Σ added loss terms` —
every term enters once, and the whole sum (not only the Gaussian part) is divided by `num_data`. -/
theorem mll_assembly [Field α] (logN : α) (P L : List α) (n : Nat) (hn : (n : α) ≠ 0) :
    mll logN P L n * (n : α) = logN + P.sum + L.sum := by
  simp only [mll]
  field_simp

/-- The value splits into the rational part the driver computes (`logdet := 0`, `log 2π := 0`) and the
logarithmic part `−½ (log det A + n log 2π)/num_data` added on the Python side. -/
theorem mll_split [Field α] (half log2pi quad logdet : α) (P L : List α) (n nd : Nat) :
    mll (logNormal half log2pi n quad logdet) P L nd =
      mll (logNormal half 0 n quad 0) P L nd - half * (logdet + (n : α) * log2pi) / (nd : α) := by
  simp only [mll, logNormal]
  ring

/-- `log N` is the Gaussian log density: with `q = rᵀA⁻¹r` and `ld = log det A` it is
`−½ q − ½ ld − (n/2) log 2π`. -/
theorem logNormal_eq [Field α] (half log2pi q ld : α) (n : Nat) :
    logNormal half log2pi n q ld = -(half * q) - half * ld - (n : α) * (half * log2pi) := by
  simp only [logNormal]; ring

/-! ### per-batch reduction of a prior term (`view(*shape[:k], -1).sum(-1)`) -/

/-- Row-major flattening of a concatenated index: the entries `(b, j)` of a tensor of shape
`resShape ++ rest` occupy the contiguous block `flat(b)·|rest| … flat(b)·|rest| + |rest| − 1`. -/
theorem flatIdx_append : ∀ (b s j rest : List Nat), Valid b s →
    flatIdx (b ++ j) (s ++ rest) = flatIdx b s * rest.prod + flatIdx j rest
  | [], [], j, rest, _ => by simp [flatIdx]
  | i :: is, t :: ss, j, rest, h => by
    simp only [List.cons_append, flatIdx, List.prod_append, flatIdx_append is ss j rest h.2]
    ring
  | [], _ :: _, _, _, h => h.elim
  | _ :: _, [], _, _, h => h.elim

/-- **Per-batch prior reduction.**  For a prior term whose leading dimensions are the batch dimensions of
the result (`termShape = resShape ++ rest`), the value added to batch element `b` is the sum of exactly
the entries `(b, ·)` of the term — the log prior density of the parameters of that batch element. -/
theorem prior_view_sum_per_batch [AddCommMonoid α] [Inhabited α] (resShape rest : List Nat)
    (vals : Array α) (b : List Nat) (hb : Valid b resShape) :
    priorReduce resShape (resShape ++ rest) vals b =
      ((List.range rest.prod).map fun j => vals[flatIdx b resShape * rest.prod + j]!).sum := by
  simp only [priorReduce, List.take_left', List.drop_left', bcastIdx_self b resShape hb]

/-- A parameter shared by all batch elements (singleton batch dimensions, e.g. a lengthscale of shape
`1 × d` under a data batch) contributes its *total* log prior density to every batch element. -/
theorem prior_shared_all_batches [AddCommMonoid α] [Inhabited α] (resShape rest : List Nat)
    (vals : Array α) (b : List Nat) (hb : b.length = resShape.length) :
    priorReduce resShape (List.replicate resShape.length 1 ++ rest) vals b =
      ((List.range rest.prod).map fun j => vals[j]!).sum := by
  have h1 : (List.replicate resShape.length 1 ++ rest).take resShape.length = List.replicate resShape.length 1 := by
    rw [List.take_left']; simp
  have h2 : (List.replicate resShape.length 1 ++ rest).drop resShape.length = rest := by
    rw [List.drop_left']; simp
  simp only [priorReduce, h1, h2, flatIdx_bcast_ones _ b hb, Nat.zero_mul, Nat.zero_add]

/-! ### leave-one-out: the bordered-system formulas are the true predictive -/

section loo
variable [Field α] [DecidableEq α] {k : Nat}

/-- **LOO.**  Whenever the driver's certified inverses exist (`A` invertible and `A₋ᵢ` invertible — the
latter is equivalent to `[A⁻¹]ᵢᵢ ≠ 0`), the code's `(μᵢ, σ²ᵢ) = (yᵢ − [A⁻¹(y−m)]ᵢ/[A⁻¹]ᵢᵢ, 1/[A⁻¹]ᵢᵢ)` are the
mean and variance of `yᵢ` conditioned on all other observations, obtained by deleting point `i`
(`mᵢ + A[i,−i] A₋ᵢ⁻¹ (y₋ᵢ − m₋ᵢ)`, `Aᵢᵢ − A[i,−i] A₋ᵢ⁻¹ A[−i,i]`) — for every `i`, every size. -/
theorem loo_eq_true_predictive (A : DMat (k + 1) (k + 1) α) (y m : Fin (k + 1) → α) (i : Fin (k + 1))
    (μ s2 μ' s2' : α) (hc : looCode A y m i = some (μ, s2)) (ht : looTrue A y m i = some (μ', s2')) :
    μ = μ' ∧ s2 = s2' := by
  simp only [looCode, Option.map_eq_some_iff] at hc
  obtain ⟨X, hX, hXe⟩ := hc
  simp only [looTrue, Option.map_eq_some_iff] at ht
  obtain ⟨Z, hZ, hZe⟩ := ht
  -- certified facts
  have hAX : A.toMatrix * X.toMatrix = 1 := DMat.inv?_mul hX
  have hXA : X.toMatrix * A.toMatrix = 1 := mul_eq_one_comm.1 hAX
  have hA11Z : (A.submatrix i.succAbove i.succAbove).toMatrix * Z.toMatrix = 1 := DMat.inv?_mul hZ
  set Am := A.toMatrix with hAm
  set Xm := X.toMatrix with hXm
  set Zm := Z.toMatrix with hZm
  have hA11 : (A.submatrix i.succAbove i.succAbove).toMatrix = Am.submatrix i.succAbove i.succAbove := by
    simp [hAm]
  rw [hA11] at hA11Z
  -- notation
  set u : Fin (k + 1) → α := fun j => Xm i j with hu
  set u1 : Fin k → α := fun j => Xm i (i.succAbove j) with hu1
  set c : Fin k → α := fun j => Am i (i.succAbove j) with hc'
  set b : Fin k → α := fun j => Am (i.succAbove j) i with hb
  set r1 : Fin k → α := fun j => y (i.succAbove j) - m (i.succAbove j) with hr1
  -- row i of X·A = 1, split at index i
  have hrow : ∀ l, Xm i i * Am i l + ∑ j, u1 j * Am (i.succAbove j) l = (1 : Matrix _ _ α) i l := by
    intro l
    have := congrFun (congrFun hXA i) l
    rw [Matrix.mul_apply, Fin.sum_univ_succAbove _ i] at this
    exact this
  -- off-diagonal columns:  uᵢ c + u₁ A₋ᵢ = 0
  have hoff : Xm i i • c + u1 ᵥ* (Am.submatrix i.succAbove i.succAbove) = 0 := by
    funext l
    have := hrow (i.succAbove l)
    rw [Matrix.one_apply_ne (Fin.succAbove_ne i l).symm] at this
    simpa [Matrix.vecMul, dotProduct, hc'] using this
  -- hence u₁ = −uᵢ (c Z)
  have hu1' : u1 = -(Xm i i • (c ᵥ* Zm)) := by
    have h := congrArg (fun v => v ᵥ* Zm) hoff
    simp only [Matrix.add_vecMul, Matrix.vecMul_vecMul, hA11Z, Matrix.vecMul_one, Matrix.zero_vecMul,
      Matrix.smul_vecMul] at h
    exact eq_neg_of_add_eq_zero_right h
  -- diagonal column:  uᵢ (Aᵢᵢ − c Z b) = 1
  have hdiag : Xm i i * (Am i i - c ⬝ᵥ (Zm *ᵥ b)) = 1 := by
    have := hrow i
    rw [Matrix.one_apply_eq] at this
    have hsum : ∑ j, u1 j * Am (i.succAbove j) i = u1 ⬝ᵥ b := rfl
    rw [hsum, hu1', neg_dotProduct, smul_dotProduct, ← Matrix.dotProduct_mulVec, smul_eq_mul] at this
    linear_combination this
  have hne : Xm i i ≠ 0 := left_ne_zero_of_mul_eq_one hdiag
  -- (X r)ᵢ = uᵢ (rᵢ − c Z r₁)
  have hXr : (Xm *ᵥ (y - m)) i = Xm i i * ((y i - m i) - c ⬝ᵥ (Zm *ᵥ r1)) := by
    have h0 : (Xm *ᵥ (y - m)) i = Xm i i * (y i - m i) + u1 ⬝ᵥ r1 := by
      simp only [Matrix.mulVec, dotProduct]
      rw [Fin.sum_univ_succAbove _ i]
      rfl
    rw [h0, hu1', neg_dotProduct, smul_dotProduct, ← Matrix.dotProduct_mulVec, smul_eq_mul]
    ring
  -- conclude
  have e1 := congrArg Prod.fst hXe
  have e2 := congrArg Prod.snd hXe
  have f1 := congrArg Prod.fst hZe
  have f2 := congrArg Prod.snd hZe
  simp only at e1 e2 f1 f2
  have hs : (1 : α) / Xm i i = Am i i - c ⬝ᵥ (Zm *ᵥ b) := (eq_one_div_of_mul_eq_one_right hdiag).symm
  constructor
  · rw [← e1, ← f1, hXr]
    field_simp
    ring
  · rw [← e2, ← f2, hs]

/-- the hypothesis `[A⁻¹]ᵢᵢ ≠ 0` of the property follows from the two certificates. -/
theorem loo_inv_diag_ne_zero (A : DMat (k + 1) (k + 1) α) (y m : Fin (k + 1) → α) (i : Fin (k + 1))
    (X : DMat (k + 1) (k + 1) α) (hX : A.inv? = some X) (p : α × α) (ht : looTrue A y m i = some p) :
    A.toMatrix⁻¹ i i * p.2 = 1 := by
  have hc : looCode A y m i = some (y i - (X.toMatrix *ᵥ (y - m)) i * (1 / X.toMatrix i i), 1 / X.toMatrix i i) := by
    simp [looCode, hX]
  obtain ⟨_, h2⟩ := loo_eq_true_predictive A y m i _ _ p.1 p.2 hc ht
  rw [← DMat.inv?_correct hX, ← h2]
  by_cases h0 : X.toMatrix i i = 0
  · -- impossible: then σ² = 1/0 = 0 = true variance, but X·A = 1 forces uᵢ·σ²_true = 1; use the theorem again
    exfalso
    simp only [looTrue, Option.map_eq_some_iff] at ht
    obtain ⟨Z, hZ, hZe⟩ := ht
    have hAX : A.toMatrix * X.toMatrix = 1 := DMat.inv?_mul hX
    have hXA : X.toMatrix * A.toMatrix = 1 := mul_eq_one_comm.1 hAX
    have hA11Z := DMat.inv?_mul hZ
    rw [DMat.toMatrix_submatrix] at hA11Z
    have hrow : ∀ l, X.toMatrix i i * A.toMatrix i l +
        ∑ j, X.toMatrix i (i.succAbove j) * A.toMatrix (i.succAbove j) l = (1 : Matrix _ _ α) i l := by
      intro l
      have := congrFun (congrFun hXA i) l
      rw [Matrix.mul_apply, Fin.sum_univ_succAbove _ i] at this
      exact this
    have hoff : (fun j => X.toMatrix i (i.succAbove j)) ᵥ* (A.toMatrix.submatrix i.succAbove i.succAbove) = 0 := by
      funext l
      have := hrow (i.succAbove l)
      rw [Matrix.one_apply_ne (Fin.succAbove_ne i l).symm, h0, zero_mul, zero_add] at this
      simpa [Matrix.vecMul, dotProduct] using this
    have hz : (fun j => X.toMatrix i (i.succAbove j)) = 0 := by
      have h := congrArg (fun v => v ᵥ* Z.toMatrix) hoff
      simpa [Matrix.vecMul_vecMul, hA11Z] using h
    have := hrow i
    rw [Matrix.one_apply_eq, h0, zero_mul, zero_add] at this
    have hz' : ∀ j, X.toMatrix i (i.succAbove j) = 0 := fun j => congrFun hz j
    simp [hz'] at this
  · field_simp

end loo

/-- The LOO objective is the average of the full predictive log densities plus the prior / added terms
over `n`: `−½ log 2π` outside the division is the `n` constants `−½ log 2π` inside it. -/
theorem loo_objective_eq [Field α] (half log2pi : α) (terms P L : List α) (n : Nat) (hn : (n : α) ≠ 0)
    (hlen : terms.length = n) :
    looObjective half log2pi terms P L n =
      ((terms.map fun t => t - half * log2pi).sum + P.sum + L.sum) / (n : α) := by
  have hsum : ∀ ts : List α, (ts.map fun t => t - half * log2pi).sum = ts.sum - (ts.length : α) * (half * log2pi) := by
    intro ts
    induction ts with
    | nil => simp
    | cons t ts ih => simp only [List.map_cons, List.sum_cons, ih, List.length_cons]; push_cast; ring
  rw [hsum, hlen]
  simp only [looObjective]
  field_simp
  ring

/-- one summand is the Gaussian log density without its constant:
`looTerm ½ (log σ²) ((y−μ)²/σ²) − ½ log 2π = −½ [ (y−μ)²/σ² + log σ² + log 2π ]`. -/
theorem looTerm_eq [Field α] (half logS2 log2pi y μ s2 : α) :
    looTerm half logS2 (looQuad y μ s2) - half * log2pi =
      -(half * ((y - μ) * (y - μ) / s2 + logS2 + log2pi)) := by
  simp only [looTerm, looQuad]; ring

/-! ### sum of marginal log likelihoods -/

/-- `SumMarginalLogLikelihood` is the arithmetic mean of the member MLLs. -/
theorem sum_mll_is_mean [Field α] (ms : List α) (h : (ms.length : α) ≠ 0) :
    sumMll ms * (ms.length : α) = ms.sum := by
  simp only [sumMll]
  field_simp

/-! ### the definitions regenerated from the source (`Gen/MLLAssembly.lean`, translator G7) are the model

Re-checked on every run against the file the translator has just written from `$VERIF_REPO`: a change of the count
the objective is divided by, of the sign / presence of the added-loss or prior terms, of the reduction expression, of
the LOO `σ²`/`μ` formulas or summands changes the generated definition and breaks the corresponding proof. -/

section generated
open Gen.MLLAssembly

theorem foldl_add_eq [AddCommMonoid α] (l : List α) (a : α) : l.foldl (fun r t => r + t) a = a + l.sum := by
  induction l generalizing a with
  | nil => simp
  | cons x xs ih => simp only [List.foldl_cons, ih, List.sum_cons, add_assoc]

/-- the generated `_add_other_terms` adds every added-loss term and every prior term once, with sign `+`. -/
theorem gen_add_other_terms [Field α] (res : α) (P L : List α) :
    addOtherTerms res P L = res + P.sum + L.sum := by
  simp only [addOtherTerms, foldl_add_eq]
  ring

/-- **`forward` as generated is the model's `mll`**: log_prob, then the other terms, then division of the *whole* sum
by `num_data = event_shape.numel()` — so `mll_assembly` / `mll_split` apply to what the source says now; and the
generated reduction expression of a prior term is `priorReduce`. -/
theorem gen_mll_assembly [Field α] [Inhabited α] (logN : α) (P L : List α) (n : Nat) :
    mllForward logN P L n = mll logN P L n ∧
    ∀ (resShape termShape : List Nat) (vals : Array α) (b : List Nat),
      Gen.MLLAssembly.priorReduce resShape termShape vals b = MLL.priorReduce resShape termShape vals b := by
  refine ⟨?_, fun _ _ _ _ => rfl⟩
  simp only [mllForward, mll, gen_add_other_terms]

/-- **The generated LOO formulas are the model's**: `(μᵢ, σ²ᵢ)` as written in the source are `looCode` (hence, by
`loo_eq_true_predictive`, the predictive after deleting point `i`), the generated summand is `looTerm ∘ looQuad`, and
the generated final reduction is `looObjective`. -/
theorem gen_loo_terms_eq_model [Field α] [DecidableEq α] {k : Nat} (A : DMat (k + 1) (k + 1) α)
    (y m : Fin (k + 1) → α) (i : Fin (k + 1)) :
    looCode A y m i =
      (A.inv?).map (fun X => (looMu A.toMatrix X.toMatrix y m i, looSigma2 A.toMatrix X.toMatrix i)) ∧
    (∀ half logS2 yy mu s2 : α, looTermExpr half logS2 yy mu s2 = looTerm half logS2 (looQuad yy mu s2)) ∧
    (∀ (half log2pi : α) (terms P L : List α) (n : Nat),
      looReduce half log2pi terms P L n = looObjective half log2pi terms P L n) := by
  refine ⟨?_, ?_, ?_⟩
  · simp only [looCode]
    cases A.inv? with
    | none => rfl
    | some X =>
      simp only [Option.map_some, looMu, looSigma2]
      rfl
  · intro half logS2 yy mu s2
    simp only [looTermExpr, looTerm, looQuad]
    ring
  · intro half log2pi terms P L n
    simp only [looReduce, looObjective, gen_add_other_terms]

/-- the generated LOO quantities are the true predictive (composition with `loo_eq_true_predictive`). -/
theorem gen_loo_eq_true_predictive [Field α] [DecidableEq α] {k : Nat} (A : DMat (k + 1) (k + 1) α)
    (y m : Fin (k + 1) → α) (i : Fin (k + 1)) (X : DMat (k + 1) (k + 1) α) (hX : A.inv? = some X)
    (μ' s2' : α) (ht : looTrue A y m i = some (μ', s2')) :
    looMu A.toMatrix X.toMatrix y m i = μ' ∧ looSigma2 A.toMatrix X.toMatrix i = s2' := by
  have h := (gen_loo_terms_eq_model A y m i).1
  rw [hX] at h
  exact loo_eq_true_predictive A y m i _ _ μ' s2' h ht

/-- `SumMarginalLogLikelihood.forward` as generated is `sumMll` (the mean of the members). -/
theorem gen_sum_mll_is_mean [Field α] (ms : List α) : sumMllExpr ms = sumMll ms := rfl

end generated

/-! ### gradients -/

section gradients

/-- The driver's three gradient pieces are `rᵀA⁻¹DA⁻¹r`, `tr(A⁻¹D)` and `dμᵀA⁻¹r`. -/
theorem gradParts_correct [Field α] [DecidableEq α] {n : Nat} (A D : DMat n n α) (r dμ : Fin n → α)
    (p : α × α × α) (h : gradParts? A D r dμ = some p) :
    p = (r ⬝ᵥ ((A.toMatrix⁻¹ * D.toMatrix * A.toMatrix⁻¹) *ᵥ r), (A.toMatrix⁻¹ * D.toMatrix).trace,
          dμ ⬝ᵥ (A.toMatrix⁻¹ *ᵥ r)) := by
  simp only [gradParts?, Option.map_eq_some_iff] at h
  obtain ⟨X, hX, rfl⟩ := h
  rw [← DMat.inv?_correct hX]
  simp only [← Matrix.mulVec_mulVec, Matrix.dotProduct_mulVec]

/-- **Gradient of the Gaussian log marginal likelihood w.r.t. any hyperparameter.**  If the covariance `A t`
(invertible, `det > 0`, symmetric at `t = 0`) and the mean `μ t` are entrywise differentiable at `0` with
derivatives `D`, `dμ`, then the derivative of `logNormal ½ log2π n (rᵀA⁻¹r) (log det A)` — the model's expression
for `MultivariateNormal.log_prob` — is `gradAssemble ½` of the three pieces the driver computes. -/
theorem logNormal_gradient {n : Nat} (A : ℝ → Matrix (Fin n) (Fin n) ℝ) (D : Matrix (Fin n) (Fin n) ℝ)
    (μ : ℝ → Fin n → ℝ) (dμ y : Fin n → ℝ) (log2pi : ℝ)
    (hA : ∀ i j, HasDerivAt (fun t => A t i j) (D i j) 0)
    (hμ : ∀ i, HasDerivAt (fun t => μ t i) (dμ i) 0)
    (hK : IsUnit (A 0).det) (hpos : 0 < (A 0).det) (hsymm : (A 0)ᵀ = A 0) :
    HasDerivAt
      (fun t : ℝ => logNormal (1 / 2 : ℝ) log2pi n ((y - μ t) ⬝ᵥ ((A t)⁻¹ *ᵥ (y - μ t)))
        (Real.log (A t).det))
      (gradAssemble (1 / 2 : ℝ)
        ((y - μ 0) ⬝ᵥ (((A 0)⁻¹ * D * (A 0)⁻¹) *ᵥ (y - μ 0)), ((A 0)⁻¹ * D).trace,
          dμ ⬝ᵥ ((A 0)⁻¹ *ᵥ (y - μ 0)))) 0 := by
  have h := MLLGrad.hasDerivAt_logNormal_curve A D μ dμ y ((1 / 2) * ((n : ℝ) * log2pi)) hA hμ hK hpos hsymm
  have hfun : (fun t : ℝ => logNormal (1 / 2 : ℝ) log2pi n ((y - μ t) ⬝ᵥ ((A t)⁻¹ *ᵥ (y - μ t)))
        (Real.log (A t).det))
      = fun t : ℝ => -(1 / 2) * ((y - μ t) ⬝ᵥ ((A t)⁻¹ *ᵥ (y - μ t)))
        - (1 / 2) * Real.log (A t).det - (1 / 2) * ((n : ℝ) * log2pi) := by
    funext t
    simp only [logNormal]
    ring
  rw [hfun]
  exact h.congr_deriv (by simp only [gradAssemble])

/-- The objective differentiates termwise: with `g` the derivative of the Gaussian part and `p'`, `a'` those of
the summed prior / added-loss terms, `d/dθ mll = (g + p' + a') / num_data`. -/
theorem mll_gradient (logN p a : ℝ → ℝ) (g p' a' : ℝ) (nd : Nat)
    (h1 : HasDerivAt logN g 0) (h2 : HasDerivAt p p' 0) (h3 : HasDerivAt a a' 0) :
    HasDerivAt (fun t => mll (logN t) [p t] [a t] nd) ((g + p' + a') / (nd : ℝ)) 0 := by
  have := ((h1.add h2).add h3).div_const (nd : ℝ)
  refine (this.congr_deriv rfl).congr_of_eventuallyEq ?_
  exact Filter.Eventually.of_forall fun t => by simp [mll]

/-- the derivative in the direction of the targets: `∂/∂y log N = −K⁻¹ r` (as a pairing with `h`). -/
theorem logNormal_gradient_targets {n : Nat} (K : Matrix (Fin n) (Fin n) ℝ) (hsymm : Kᵀ = K)
    (r h : Fin n → ℝ) (c : ℝ) :
    HasDerivAt (fun t : ℝ => -(1 / 2) * ((r + t • h) ⬝ᵥ (K⁻¹ *ᵥ (r + t • h))) - c)
      (-(h ⬝ᵥ (K⁻¹ *ᵥ r))) 0 :=
  MLLGrad.hasDerivAt_logNormal_resid K hsymm r h c

/-- The driver's LOO gradient is the expression of `MLLGrad.hasDerivAt_loo_curve` at `A⁻¹`. -/
theorem looGrad_correct [Field α] [DecidableEq α] {n : Nat} (half : α) (A D : DMat n n α) (r dμ : Fin n → α) (g : α)
    (h : looGrad? half A D r dμ = some g) :
    g = ∑ i,
      (half * (-((A.toMatrix⁻¹ * D.toMatrix * A.toMatrix⁻¹) i i)) / A.toMatrix⁻¹ i i
        - (A.toMatrix⁻¹ *ᵥ r) i * (-(((A.toMatrix⁻¹ * D.toMatrix * A.toMatrix⁻¹) *ᵥ r) i) - (A.toMatrix⁻¹ *ᵥ dμ) i)
            / A.toMatrix⁻¹ i i
        + half * (A.toMatrix⁻¹ *ᵥ r) i ^ 2 * (-((A.toMatrix⁻¹ * D.toMatrix * A.toMatrix⁻¹) i i)) / A.toMatrix⁻¹ i i ^ 2) := by
  simp only [looGrad?, Option.map_eq_some_iff] at h
  obtain ⟨X, hX, rfl⟩ := h
  rw [← DMat.inv?_correct hX]
  simp only [DMat.toMatrix_mul]

/-- the code's LOO summand `−½ log σ² − ½ (y − μ)²/σ²` with `σ² = 1/a`, `μ = y − b σ²` is `½ log a − ½ b²/a`. -/
theorem looTerm_ab_form (y a b : ℝ) (ha : 0 < a) :
    looTerm (1 / 2 : ℝ) (Real.log (1 / a)) (looQuad y (y - b * (1 / a)) (1 / a))
      = (1 / 2) * Real.log a - (1 / 2) * b ^ 2 / a := by
  have hne : a ≠ 0 := ha.ne'
  simp only [looTerm, looQuad, one_div, Real.log_inv]
  field_simp
  ring

/-- **Gradient of the leave-one-out objective** (rational part `Σᵢ ½ log aᵢ − ½ bᵢ²/aᵢ`, `a = diag A⁻¹`, `b = A⁻¹(y − μ)`)
along any entrywise-differentiable curve of covariances and means — the expression `looGrad?` evaluates. -/
theorem loo_gradient {n : Nat} (A : ℝ → Matrix (Fin n) (Fin n) ℝ) (D : Matrix (Fin n) (Fin n) ℝ)
    (μ : ℝ → Fin n → ℝ) (dμ y : Fin n → ℝ)
    (hA : ∀ i j, HasDerivAt (fun t => A t i j) (D i j) 0) (hμ : ∀ i, HasDerivAt (fun t => μ t i) (dμ i) 0)
    (hK : IsUnit (A 0).det) (hpos : ∀ i, 0 < (A 0)⁻¹ i i) :
    HasDerivAt
      (fun t => ∑ i, ((1 / 2) * Real.log ((A t)⁻¹ i i)
        - (1 / 2) * (((A t)⁻¹ *ᵥ (y - μ t)) i) ^ 2 / (A t)⁻¹ i i))
      (∑ i,
        ((1 / 2) * (-(((A 0)⁻¹ * D * (A 0)⁻¹) i i)) / (A 0)⁻¹ i i
          - ((A 0)⁻¹ *ᵥ (y - μ 0)) i * (-((((A 0)⁻¹ * D * (A 0)⁻¹) *ᵥ (y - μ 0)) i) - ((A 0)⁻¹ *ᵥ dμ) i)
              / (A 0)⁻¹ i i
          + (1 / 2) * ((A 0)⁻¹ *ᵥ (y - μ 0)) i ^ 2 * (-(((A 0)⁻¹ * D * (A 0)⁻¹) i i)) / (A 0)⁻¹ i i ^ 2)) 0 :=
  MLLGrad.hasDerivAt_loo_curve A D μ dμ y hA hμ hK hpos

end gradients

/-! ### non-vacuity -/

-- hypotheses of `logNormal_gradient` are satisfiable: the curve `t ↦ (1 + t) • 1`, mean `t ↦ t • 1`
example : ∃ (A : ℝ → Matrix (Fin 2) (Fin 2) ℝ) (D : Matrix (Fin 2) (Fin 2) ℝ) (μ : ℝ → Fin 2 → ℝ) (dμ : Fin 2 → ℝ),
    (∀ i j, HasDerivAt (fun t => A t i j) (D i j) 0) ∧ (∀ i, HasDerivAt (fun t => μ t i) (dμ i) 0) ∧
    IsUnit (A 0).det ∧ 0 < (A 0).det ∧ (A 0)ᵀ = A 0 := by
  refine ⟨fun t => (1 + t) • 1, 1, fun t _ => t, fun _ => 1, ?_, ?_, ?_, ?_, ?_⟩
  · intro i j
    have hid : HasDerivAt (fun t : ℝ => t) 1 (0 : ℝ) := hasDerivAt_id 0
    have := (hid.const_add 1).mul_const ((1 : Matrix (Fin 2) (Fin 2) ℝ) i j)
    simpa [Matrix.smul_apply] using this
  · intro i; exact hasDerivAt_id 0
  · simp
  · simp
  · simp

example : looGrad? (α := ℚ) (1 / 2) (DMat.ofMatrix !![2, 1/2; 1/2, 3]) (DMat.ofMatrix !![1, 0; 0, 1]) ![1, -1] ![0, 0]
    = some (-2815 / 38088) := by decide +kernel

-- the driver's gradient pieces on a 2×2 instance (A = [[2, ½], [½, 3]], D = 1, r = (1, −1), dμ = (0, 0))
example : gradParts? (α := ℚ) (DMat.ofMatrix !![2, 1/2; 1/2, 3]) (DMat.ofMatrix !![1, 0; 0, 1]) ![1, -1] ![0, 0]
    = some (296 / 529, 20 / 23, 0) := by decide +kernel

-- a 2×2 SPD instance on which both certificates succeed and the LOO identities are visible
example : looCode (α := ℚ) (k := 1) (DMat.ofMatrix !![2, 1; 1, 2]) ![1, 3] ![0, 0] 0 = some (3 / 2, 3 / 2) := by
  decide +kernel
example : looTrue (α := ℚ) (k := 1) (DMat.ofMatrix !![2, 1; 1, 2]) ![1, 3] ![0, 0] 0 = some (3 / 2, 3 / 2) := by
  decide +kernel
example : quad? (α := ℚ) (DMat.ofMatrix !![2, 1; 1, 2]) ![1, 3] = some (14 / 3) := by decide +kernel
example : det? (α := ℚ) (DMat.ofMatrix !![2, 1; 1, 2]) = some 3 := by decide +kernel
example : Valid [1, 0] [2, 3] := ⟨by omega, by omega, trivial⟩

end C02

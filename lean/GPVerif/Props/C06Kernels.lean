/-
C06 — the missing link `pairwise_of_spec`, for REGENERATED code: every kernel whose `forward` is regenerated from the
source (`Gen/KernelFormulas.lean`, `Gen/Formulas.lean`: RBF generic + fast path, Matérn ½, 3/2, 5/2 generic + fast path, RQ,
Periodic, Cosine, Linear, Polynomial, PiecewisePolynomial q = 0..3, Constant, and `sq_dist` / `dist` / `covar_dist`) is
PAIRWISE over `ℝ`, hence the commutation laws of `Props/C06.lean` hold for it.

The objects: `Gen.KernelCall.genMat` — the regenerated matrix-level forward: entry `(i, j)` computed from ALL rows of `x1`
(`sq_dist` subtracts `x1.mean(-2)`, Matérn centres on it itself), from the flag `torch.equal(x1_, x2_)` and from the
position (diagonal fill) — and `KernelPairwise.genKappa`, a function of the flag, the parameters and the two rows.  The
driver (`drivers/C06.lean`, ops `gk*`) executes `genMat` / `genDiag` through the same `evalDenseMat` at `Float`.

What stays observed (floating point, correspondence part K): independence of the row subset in float64; the clamp
constants make the pair function of the `dist`-based families depend on the flag (`m`) — laws that compare evaluations
with different flags are stated for equal flags or for the families without `dist`.
-/
import GPVerif.Props.C06
import GPVerif.Bridge.KernelMatrixLemmas

namespace C06Kernels
open Bcast PyIndex KernelIndex KernelMatrix KernelPairwise Gen.KernelCall Scalar

/-! ### `covar_dist`, regenerated -/

/-- the regenerated `covar_dist` entry depends on its two rows only through their squared distance: not on the centre
that `sq_dist` subtracts, not on whether the entry is zero-filled as a diagonal entry of `x1_eq_x2` (as long as such an
entry really has distance 0) -/
theorem gen_covarDist_depends_on_sqDist (diag sq m od od' : Bool) (u v c u' v' c' : List ℝ)
    (hu : u.length = c.length) (hv : v.length = c.length) (hu' : u'.length = c'.length) (hv' : v'.length = c'.length)
    (h : sqDist u v = sqDist u' v')
    (hod : od = true → m = true → sqDist u v = 0) (hod' : od' = true → m = true → sqDist u' v' = 0) :
    covarDistEntry Prims.euclid diag sq m od u v c = covarDistEntry Prims.euclid diag sq m od' u' v' c' :=
  covarDist_congr diag sq m od od' u v c u' v' c' hu hv hu' hv' h hod hod'

/-- **the centring cancels**: called as the code calls it — transformed rows `t (x1 i)`, `t (x2 j)`, the centre `colMean`
of ALL transformed rows of `x1`, the flag, the diagonal fill — the helper is a function of the two rows -/
theorem gen_covarDist_centre_free (diag sq m : Bool) (d : ℕ) (X1 X2 : List (List ℝ)) (t : List ℝ → List ℝ)
    (ht1 : ∀ r ∈ X1, (t r).length = d) (ht2 : ∀ r ∈ X2, (t r).length = d) (hm : m = true → X1 = X2)
    (i j : ℕ) (hi : i < X1.length) (hj : j < X2.length) :
    covarDistEntry Prims.euclid diag sq m (i == j) (t (X1.getD i [])) (t (X2.getD j [])) (colMean (X1.map t))
      = cdFree diag sq m (t (X1.getD i [])) (t (X2.getD j [])) :=
  cb_eq diag sq m d X1 X2 t ht1 ht2 hm i j hi hj (i == j) (by simp)

/-- non-vacuity: two rows of dimension 2, the flag set, the same inputs -/
example : (∀ r ∈ ([[1, 2], [3, 5]] : List (List ℝ)), (id r).length = 2) ∧ ((true = true) → ([[1, 2], [3, 5]] : List (List ℝ)) = [[1, 2], [3, 5]]) := by
  constructor
  · intro r hr; simp at hr; rcases hr with rfl | rfl <;> rfl
  · intro _; rfl

/-- `covar_dist(last_dim_is_batch=True)` really makes every input dimension its own batch element (the per-dimension
reading `zipIdx` of the Periodic kernel's matrix-level definition relies on it) -/
theorem gen_covarDist_transposes_last_dim : covarDistTransposesLastDim = true := rfl

/-! ### every regenerated kernel is pairwise -/

/-- **`gen_kernel_pairwise`.**  For every regenerated family `f`, well-formed inputs (every row has `d` features,
per-dimension parameters have `d` entries) and a sound `torch.equal` flag `m`: entry `(i, j)` of what the regenerated
`forward` computes on the WHOLE inputs `(X1, X2)` is `genKappa f m θ (X1 i) (X2 j)` — a function of the two rows only. -/
theorem gen_kernel_pairwise (f : Fam) (m : Bool) (d : ℕ) (X1 X2 : List (List ℝ)) (θ : Theta ℝ)
    (h1 : ∀ r ∈ X1, r.length = d) (h2 : ∀ r ∈ X2, r.length = d)
    (hls : f.needsLs = true → θ.ls.length = d) (hps : f.needsPs = true → θ.ps.length = d)
    (hm : m = true → X1 = X2) (i j : ℕ) (hi : i < X1.length) (hj : j < X2.length) :
    genMat Prims.euclid f m θ X1 X2 i j = genKappa f m θ (X1.getD i []) (X2.getD j []) :=
  genMat_pairwise f m d X1 X2 θ h1 h2 hls hps hm i j hi hj

/-- non-vacuity of the hypotheses of `gen_kernel_pairwise` (Periodic needs both parameter lists) -/
example : (∀ r ∈ ([[1, 2], [3, 5]] : List (List ℝ)), r.length = 2) ∧
    (Fam.periodic.needsLs = true → (⟨[1, 1], [2, 3], 0, 0⟩ : Theta ℝ).ls.length = 2) ∧
    (Fam.periodic.needsPs = true → (⟨[1, 1], [2, 3], 0, 0⟩ : Theta ℝ).ps.length = 2) := by
  refine ⟨?_, fun _ => rfl, fun _ => rfl⟩
  intro r hr; simp at hr; rcases hr with rfl | rfl <;> rfl

/-- the pair function is symmetric -/
theorem gen_kappa_symm (f : Fam) (m : Bool) (θ : Theta ℝ) (a b : List ℝ) (hab : a.length = b.length) :
    genKappa f m θ a b = genKappa f m θ b a := genKappa_symm f m θ a b hab

/-- for the families that do not go through `dist` the pair function does not depend on the `torch.equal` flag -/
theorem gen_kappa_mode_free (f : Fam) (hf : f.usesDist = false) (m m' : Bool) (θ : Theta ℝ) (a b : List ℝ)
    (hab : a.length = b.length) : genKappa f m θ a b = genKappa f m' θ a b := genKappa_mode_free f hf m m' θ a b hab

/-- the pair function is the DOCUMENTED covariance function (C05's `Spec`), here for the two families built on `sq_dist`:
`exp(−½ (a−b)ᵀΘ⁻²(a−b))` and `(1 + (a−b)ᵀΘ⁻²(a−b) / 2α)^(−α)`, whatever the flag -/
theorem gen_kappa_rbf_rq_eq_spec (m : Bool) (θ : Theta ℝ) (a b : List ℝ) (hab : a.length = b.length) :
    genKappa .rbfGeneric m θ a b = Kernels.rbfSpec θ.ls a b ∧ genKappa .rq m θ a b = Kernels.rqSpec θ.ls θ.s a b := by
  have hdiv : (rowDiv a θ.ls).length = (rowDiv b θ.ls).length := by simp only [length_rowDiv', hab]
  constructor
  · simp only [genKappa, Gen.KernelFormulas.rbfGeneric, cdFree_sq_eq m _ _ hdiv, Kernels.sqDist_rowDiv, Kernels.rbfSpec,
      exp_real, lit_real]
    congr 1; push_cast; ring
  · simp only [genKappa, Gen.KernelFormulas.rq, cdFree_sq_eq m _ _ hdiv, Kernels.sqDist_rowDiv, Kernels.rqSpec, rpow_real,
      lit_real]

/-- the regenerated `diag=True` branch (which computes `‖x1ᵢ − x2ᵢ‖²` from the two rows directly, or returns zeros when
`torch.equal(x1, x2)`) is pairwise too … -/
theorem gen_diag_pairwise (g : DiagFam) (m : Bool) (d : ℕ) (X1 X2 : List (List ℝ)) (θ : Theta ℝ)
    (h1 : ∀ r ∈ X1, r.length = d) (h2 : ∀ r ∈ X2, r.length = d)
    (hls : g.toFam.needsLs = true → θ.ls.length = d)
    (hm : m = true → X1 = X2) (i : ℕ) (hi : i < X1.length) (hj : i < X2.length) :
    genDiag Prims.euclid g m θ X1 X2 i = genKappaDiag g m θ (X1.getD i []) (X2.getD i []) :=
  genDiag_pairwise g m d X1 X2 θ h1 h2 hls hm i hi hj

/-- … and its pair function is the pair function of the full matrix (RBF, RQ, Polynomial, Constant; not Periodic, whose
full branch clamps the per-dimension distance at `1e-15` and whose `diag=True` branch does not) -/
theorem gen_diag_kappa_eq (g : DiagFam) (hg : g ≠ .periodic) (m : Bool) (θ : Theta ℝ) (a b : List ℝ)
    (hab : a.length = b.length) (h0 : m = true → a = b) :
    genKappaDiag g m θ a b = genKappa g.toFam m θ a b := genKappaDiag_eq g hg m θ a b hab h0

/-! ### batched inputs: the matrix-level evaluation is the pairwise evaluation of the C06 model -/

/-- `evalDenseMat (genMat f)` — the regenerated code on batched inputs, every batch element seeing all its rows — is
`evalDense (genKappa f m)`, the pairwise evaluation all theorems of `Props/C06.lean` are about -/
theorem gen_evalDense_pairwise (f : Fam) (m : Bool) (d : ℕ) (bs : RShape) (p : Params (Theta ℝ)) (x1 x2 : Inputs (List ℝ))
    (hx1 : WFIn d x1) (hx2 : WFIn d x2) (hp : WFPar f d p) (hm : SameOK m x1 x2)
    (b : RIdx) (i j : ℕ) (hi : i < x1.n) (hj : j < x2.n) :
    (evalDenseMat (genMat Prims.euclid f) m bs p x1 x2).get (j :: i :: b)
      = (evalDense (genKappa f m) bs p x1 x2).get (j :: i :: b) := by
  simp only [evalDenseMat, evalDense, List.getD_cons_zero, List.getD_cons_succ, List.drop_succ_cons, List.drop_zero]
  rw [gen_kernel_pairwise f m d _ _ _ (rows_wf hx1 _) (rows_wf hx2 _) (hp _).1 (hp _).2 (fun h => hm h b) i j
    (by rw [rows_length]; exact hi) (by rw [rows_length]; exact hj), rows_getD _ _ hi, rows_getD _ _ hj]

theorem gen_evalDiag_pairwise (g : DiagFam) (m : Bool) (d : ℕ) (bs : RShape) (p : Params (Theta ℝ)) (x1 x2 : Inputs (List ℝ))
    (hx1 : WFIn d x1) (hx2 : WFIn d x2) (hp : WFPar g.toFam d p) (hm : SameOK m x1 x2)
    (b : RIdx) (i : ℕ) (hi : i < x1.n) (hj : i < x2.n) :
    (evalDiagMat (genDiag Prims.euclid g) m bs p x1 x2).get (i :: b)
      = (evalDiag (genKappaDiag g m) bs p x1 x2).get (i :: b) := by
  simp only [evalDiagMat, evalDiag, List.getD_cons_zero, List.drop_succ_cons, List.drop_zero]
  rw [gen_diag_pairwise g m d _ _ _ (rows_wf hx1 _) (rows_wf hx2 _) (hp _).1 (fun h => hm h b) i
    (by rw [rows_length]; exact hi) (by rw [rows_length]; exact hj), rows_getD _ _ hi, rows_getD _ _ hj]

/-- non-vacuity: batched well-formed inputs, parameters, and a sound flag exist -/
example : WFIn 2 ⟨[2], 3, fun b i => [(b.getD 0 0 : ℝ), i]⟩ ∧ WFPar .rbfGeneric 2 ⟨[2], fun _ => ⟨[1, 2], [], 0, 0⟩⟩ ∧
    SameOK true (⟨[2], 3, fun b i => [(b.getD 0 0 : ℝ), i]⟩ : Inputs (List ℝ)) ⟨[2], 3, fun b i => [(b.getD 0 0 : ℝ), i]⟩ := by
  refine ⟨fun _ _ => rfl, fun _ => ⟨fun _ => rfl, fun h => by simp [Fam.needsPs] at h⟩, fun _ _ => rfl⟩

/-! ### the C06 laws for the regenerated kernels -/

/-- **evaluate ∘ select = index ∘ evaluate** for the regenerated kernels: the code run on the SELECTED rows / batch
elements (its centres are the means of the selected rows, its flag `m'` the one of the selected tensors) gives the
selected entries of the code run on everything — for the families without `dist` whatever the flags, otherwise for equal
flags.  Composition of `gen_evalDense_pairwise` with `C06.pairwise_getitem_commutes`. -/
theorem gen_getitem_commutes (f : Fam) (m m' : Bool) (hmode : f.usesDist = false ∨ m' = m) (d : ℕ) (bs : RShape)
    (p : Params (Theta ℝ)) (x1 x2 : Inputs (List ℝ)) (hx1 : WFIn d x1) (hx2 : WFIn d x2) (hp : WFPar f d p)
    (batch : List NItem) (rws cols : List ℕ)
    (hm : SameOK m x1 x2) (hm' : SameOK m' (x1.getitem batch rws) (x2.getitem batch cols))
    (hrows : ∀ r ∈ rws, r < x1.n) (hcols : ∀ c ∈ cols, c < x2.n)
    (b' : RIdx) (i' j' : ℕ) (hb : InRange b' (selShape batch)) (hi : i' < rws.length) (hj : j' < cols.length) :
    (evalDenseMat (genMat Prims.euclid f) m' (selShape batch) (p.getitem batch) (x1.getitem batch rws)
        (x2.getitem batch cols)).get (j' :: i' :: b')
      = (indexDense batch rws cols (evalDenseMat (genMat Prims.euclid f) m bs p x1 x2)).get (j' :: i' :: b') := by
  rw [gen_evalDense_pairwise f m' d _ _ _ _ (hx1.getitem batch rws) (hx2.getitem batch cols) (hp.getitem batch) hm' b' i' j'
    hi hj]
  have h1 := C06.pairwise_getitem_commutes (genKappa f m') bs p x1 x2 batch rws cols b' i' j' hb
  simp only [lazyGetitem] at h1
  rw [h1]
  simp only [indexDense, List.getD_cons_zero, List.getD_cons_succ, List.drop_succ_cons, List.drop_zero]
  rw [gen_evalDense_pairwise f m d bs p x1 x2 hx1 hx2 hp hm _ _ _ (getD_lt_of_mem hrows hi) (getD_lt_of_mem hcols hj)]
  rcases hmode with hf | rfl
  · simp only [evalDense, List.getD_cons_zero, List.getD_cons_succ, List.drop_succ_cons, List.drop_zero]
    exact gen_kappa_mode_free f hf m' m _ _ _ ((hx1 _ _).trans (hx2 _ _).symm)
  · rfl

/-- **diag = diagonal** for the regenerated kernels: the `diag=True` branch of the code (distances computed from the two
rows, zeros under `torch.equal`) is the diagonal of the full matrix the code computes (through the centred quadratic
expansion).  Composition with `C06.diag_eq_diagonal`. -/
theorem gen_diag_eq_diagonal (g : DiagFam) (hg : g ≠ .periodic) (m : Bool) (d : ℕ) (bs : RShape)
    (p : Params (Theta ℝ)) (x1 x2 : Inputs (List ℝ)) (hx1 : WFIn d x1) (hx2 : WFIn d x2) (hp : WFPar g.toFam d p)
    (hm : SameOK m x1 x2) (b : RIdx) (i : ℕ) (hi : i < x1.n) (hj : i < x2.n) :
    (evalDiagMat (genDiag Prims.euclid g) m bs p x1 x2).get (i :: b)
      = (diagonal (evalDenseMat (genMat Prims.euclid g.toFam) m bs p x1 x2)).get (i :: b) := by
  rw [gen_evalDiag_pairwise g m d bs p x1 x2 hx1 hx2 hp hm b i hi hj]
  simp only [diagonal, List.getD_cons_zero]
  rw [gen_evalDense_pairwise g.toFam m d bs p x1 x2 hx1 hx2 hp hm b i i hi hj]
  simp only [evalDiag, evalDense, List.getD_cons_zero, List.getD_cons_succ, List.drop_succ_cons, List.drop_zero]
  apply gen_diag_kappa_eq g hg m _ _ _ ((hx1 _ _).trans (hx2 _ _).symm)
  intro hm'
  have := hm hm' b
  have e1 := rows_getD x1 (bidxR x1.bshape b) hi
  have e2 := rows_getD x2 (bidxR x2.bshape b) hj
  rw [← e1, ← e2, this]

/-- `diag=True` of an RBF kernel (always the generic branch) is also the diagonal of the FAST-path matrix
(`RBFCovariance.apply`, one lengthscale), which is what `kernel(x1, x2)` evaluates without gradients -/
theorem gen_diag_eq_diagonal_rbfFast (m : Bool) (d : ℕ) (X1 X2 : List (List ℝ)) (θ : Theta ℝ)
    (h1 : ∀ r ∈ X1, r.length = d) (h2 : ∀ r ∈ X2, r.length = d) (hθ : θ.ls = List.replicate d θ.s)
    (hm : m = true → X1 = X2) (i : ℕ) (hi : i < X1.length) (hj : i < X2.length) :
    genDiag Prims.euclid .rbf m θ X1 X2 i = genMat Prims.euclid .rbfFast m θ X1 X2 i i := by
  have hrep : ∀ x : List ℝ, x.length = d → rowDiv x (List.replicate d θ.s) = rowDivS x θ.s := by
    intro x hx; rw [← hx]; exact rowDiv_replicate θ.s x
  have la := getD_mem_length h1 hi
  have lb := getD_mem_length h2 hj
  rw [gen_diag_pairwise .rbf m d X1 X2 θ h1 h2 (fun _ => by rw [hθ]; simp) hm i hi hj,
    gen_diag_kappa_eq .rbf (by decide) m θ _ _ (la.trans lb.symm) (fun h => by rw [hm h]),
    gen_kernel_pairwise .rbfFast m d X1 X2 θ h1 h2 (fun h => by simp [Fam.needsLs] at h) (fun h => by simp [Fam.needsPs] at h)
      hm i i hi hj]
  simp only [DiagFam.toFam, genKappa, Gen.KernelFormulas.rbfGeneric, Gen.Formulas.rbfFwdNoGradOut, hθ, hrep _ la, hrep _ lb]

/-- **transpose**: the code run on `(x2, x1)` gives the transpose of the code run on `(x1, x2)` -/
theorem gen_transpose_swap (f : Fam) (m : Bool) (d : ℕ) (bs : RShape) (p : Params (Theta ℝ)) (x1 x2 : Inputs (List ℝ))
    (hx1 : WFIn d x1) (hx2 : WFIn d x2) (hp : WFPar f d p) (hm : SameOK m x1 x2)
    (b : RIdx) (i j : ℕ) (hi : i < x1.n) (hj : j < x2.n) :
    (evalDenseMat (genMat Prims.euclid f) m bs p x2 x1).get (i :: j :: b)
      = (T.mT (evalDenseMat (genMat Prims.euclid f) m bs p x1 x2)).get (i :: j :: b) := by
  rw [gen_evalDense_pairwise f m d bs p x2 x1 hx2 hx1 hp hm.symm b j i hj hi]
  simp only [T.mT, T.swap01]
  rw [gen_evalDense_pairwise f m d bs p x1 x2 hx1 hx2 hp hm b i j hi hj]
  simp only [evalDense, List.getD_cons_zero, List.getD_cons_succ, List.drop_succ_cons, List.drop_zero]
  exact gen_kappa_symm f m _ _ _ ((hx2 _ _).trans (hx1 _ _).symm)

/-- **repeat**: the code run on row-repeated inputs tiles the matrix (composition with `C06.repeat_commutes`) -/
theorem gen_repeat_commutes (f : Fam) (m m' : Bool) (hmode : f.usesDist = false ∨ m' = m) (d : ℕ) (bs : RShape)
    (p : Params (Theta ℝ)) (x1 x2 : Inputs (List ℝ)) (hx1 : WFIn d x1) (hx2 : WFIn d x2) (hp : WFPar f d p)
    (r c : ℕ) (hm : SameOK m x1 x2) (hm' : SameOK m' (x1.repeatRows r) (x2.repeatRows c))
    (b : RIdx) (i j : ℕ) (hi : i < x1.n * r) (hj : j < x2.n * c) :
    (evalDenseMat (genMat Prims.euclid f) m' bs p (x1.repeatRows r) (x2.repeatRows c)).get (j :: i :: b)
      = (evalDenseMat (genMat Prims.euclid f) m bs p x1 x2).get (j % x2.n :: i % x1.n :: b) := by
  have h1n : 0 < x1.n := Nat.pos_of_ne_zero (by rintro h; simp [h] at hi)
  have h2n : 0 < x2.n := Nat.pos_of_ne_zero (by rintro h; simp [h] at hj)
  rw [gen_evalDense_pairwise f m' d bs p _ _ (hx1.repeatRows r) (hx2.repeatRows c) hp hm' b i j hi hj,
    C06.repeat_commutes (genKappa f m') bs p x1 x2 r c b i j,
    gen_evalDense_pairwise f m d bs p x1 x2 hx1 hx2 hp hm b _ _ (Nat.mod_lt _ h1n) (Nat.mod_lt _ h2n)]
  rcases hmode with hf | rfl
  · simp only [evalDense, List.getD_cons_zero, List.getD_cons_succ, List.drop_succ_cons, List.drop_zero]
    exact gen_kappa_mode_free f hf m' m _ _ _ ((hx1 _ _).trans (hx2 _ _).symm)
  · rfl

/-- **blocks**: the top-left block of the code run on stacked inputs is the code run on the first halves (the other
three blocks likewise, `C06.blocks_of_stacked`); the centre of the stacked run is the mean of BOTH halves -/
theorem gen_block_of_stacked (f : Fam) (m m' : Bool) (hmode : f.usesDist = false ∨ m' = m) (d : ℕ) (bs : RShape)
    (p : Params (Theta ℝ)) (xa xb ya yb : Inputs (List ℝ)) (hxa : WFIn d xa) (hxb : WFIn d xb) (hya : WFIn d ya)
    (hyb : WFIn d yb) (hp : WFPar f d p) (hx : xb.bshape = xa.bshape) (hy : yb.bshape = ya.bshape)
    (hm : SameOK m xa ya) (hm' : SameOK m' (xa.cat xb) (ya.cat yb))
    (b : RIdx) (i j : ℕ) (hi : i < xa.n) (hj : j < ya.n) :
    (evalDenseMat (genMat Prims.euclid f) m' bs p (xa.cat xb) (ya.cat yb)).get (j :: i :: b)
      = (evalDenseMat (genMat Prims.euclid f) m bs p xa ya).get (j :: i :: b) := by
  rw [gen_evalDense_pairwise f m' d bs p _ _ (hxa.cat hxb) (hya.cat hyb) hp hm' b i j
      (by simp only [Inputs.cat]; omega) (by simp only [Inputs.cat]; omega),
    C06.blocks_of_stacked (genKappa f m') bs p xa xb ya yb hx hy b i j, if_pos hi, if_pos hj,
    gen_evalDense_pairwise f m d bs p xa ya hxa hya hp hm b i j hi hj]
  rcases hmode with hf | rfl
  · simp only [evalDense, List.getD_cons_zero, List.getD_cons_succ, List.drop_succ_cons, List.drop_zero]
    exact gen_kappa_mode_free f hf m' m _ _ _ ((hxa _ _).trans (hya _ _).symm)
  · rfl

/-! ### branch selection of `RBFKernel.forward` / `MaternKernel.forward` (regenerated conditions) -/

/-- a `diag=True` or `last_dim_is_batch=True` call never reaches the fast path (whose distance callback is built with
`diag=False` and no `last_dim_is_batch`) -/
theorem gen_forward_diag_takes_generic (g1 g2 : Bool) (ard : Option ℕ) (diag ldb tr : Bool) (h : diag = true ∨ ldb = true) :
    rbfTakesGeneric g1 g2 ard diag ldb tr = true ∧ maternTakesGeneric g1 g2 ard diag ldb tr = true := by
  rcases h with rfl | rfl <;> simp [rbfTakesGeneric, maternTakesGeneric]

/-- the fast path (one scalar lengthscale in `Gen/Formulas.lean`) is only taken without ARD lengthscales -/
theorem gen_fast_path_single_lengthscale (g1 g2 : Bool) (ard : Option ℕ) (diag ldb tr : Bool)
    (h : rbfTakesGeneric g1 g2 ard diag ldb tr = false ∨ maternTakesGeneric g1 g2 ard diag ldb tr = false) :
    ard = none ∨ ∃ k, ard = some k ∧ k ≤ 1 := by
  rcases h with h | h <;>
  · simp only [rbfTakesGeneric, maternTakesGeneric, Bool.or_eq_false_iff, Bool.and_eq_false_iff, decide_eq_false_iff_not] at h
    cases ard with
    | none => exact Or.inl rfl
    | some k =>
      refine Or.inr ⟨k, rfl, ?_⟩
      have := h.1.1.1.2
      simp at this
      omega

example : rbfTakesGeneric false false none false false false = false := by decide

/-! ### `Kernel.__call__`: the input preparation (regenerated statement list `callPrep`) -/

section call
open KernelCall
variable {α : Type} [Inhabited α]

/-- **the prepared inputs are the rows the model says**: for `(*batch, n, d)` tensors `x1`, `x2`, the regenerated
preparation ends with `x1_`, `x2_` = the `active_dims` columns of every point, in the listed order (or the tensors
themselves without `active_dims`, whose last sizes must then agree), nothing else is touched -/
theorem gen_call_prepares_rows (ad : Option (List ℕ)) (ard : Option ℕ) (d1 d2 : ℕ) (x1 x2 : Inputs (List α))
    (hd : ad = none → d1 = d2) :
    run ⟨ad, false, ard⟩ callPrep (St.init (.mat d1 x1) (some (.mat d2 x2)))
      = .ok ⟨some (.mat d1 x1), some (.mat d2 x2), some (selectedInputs ad d1 x1), some (selectedInputs ad d2 x2)⟩ := by
  cases ad with
  | none =>
    have := hd rfl
    subst this
    simp [run, callPrep, evalGuards, evalGuard, doAct, St.init, St.get, St.set, selectedInputs, PT.lastSize]
  | some idx =>
    simp [run, callPrep, evalGuards, evalGuard, doAct, St.init, St.get, St.set, selectedInputs, PT.lastSize, PT.selectLast]

/-- `selectedInputs` is `preparedInputs` (same points: `selectDims active_dims`) -/
theorem gen_call_selected_points (ad : Option (List ℕ)) (d : ℕ) (x : Inputs (List α)) :
    ∃ d', selectedInputs ad d x = .mat d' (preparedInputs ad x) := by
  cases ad with
  | none => exact ⟨d, by simp [selectedInputs, preparedInputs, selectDims]⟩
  | some idx => exact ⟨idx.length, by simp [selectedInputs, preparedInputs]⟩

/-- `x2 = None`: the second input is the prepared first input (the same object) -/
theorem gen_call_x2_none (ad : Option (List ℕ)) (ard : Option ℕ) (d1 : ℕ) (x1 : Inputs (List α)) :
    run ⟨ad, false, ard⟩ callPrep (St.init (.mat d1 x1) none)
      = .ok ⟨some (.mat d1 x1), none, some (selectedInputs ad d1 x1), some (selectedInputs ad d1 x1)⟩ := by
  cases ad <;>
    simp [run, callPrep, evalGuards, evalGuard, doAct, St.init, St.get, St.set, selectedInputs, PT.selectLast]

/-- without `active_dims`, inputs with different numbers of features are rejected by the code's own `raise` -/
theorem gen_call_rejects_mismatch (ard : Option ℕ) (debug : Bool) (d1 d2 : ℕ) (x1 x2 : Inputs (List α)) (hd : d1 ≠ d2) :
    run ⟨none, debug, ard⟩ callPrep (St.init (.mat d1 x1) (some (.mat d2 x2))) = .raised := by
  have hne : (d1 != d2) = true := by simp [hd]
  simp [run, callPrep, evalGuards, evalGuard, doAct, St.init, St.get, St.set, PT.lastSize, hne]

/-- a 1-d input becomes a column of 1-d points -/
theorem gen_call_1d (ard : Option ℕ) (l : List α) :
    run ⟨none, false, ard⟩ callPrep (St.init (.vec l) none)
      = .ok ⟨some (.vec l), none, some (.mat 1 ⟨[], l.length, fun _ i => [l.getD i default]⟩),
          some (.mat 1 ⟨[], l.length, fun _ i => [l.getD i default]⟩)⟩ := by
  simp [run, callPrep, evalGuards, evalGuard, doAct, St.init, St.get, St.set, PT.unsqueeze]

/-- under `settings.debug` the `ard_num_dims` check looks at the PREPARED input: it raises iff `ard_num_dims` differs
from the number of selected columns -/
theorem gen_call_ard_check (idx : List ℕ) (k d1 : ℕ) (x1 : Inputs (List α)) :
    run ⟨some idx, true, some k⟩ callPrep (St.init (.mat d1 x1) none)
      = if k = idx.length then
          .ok ⟨some (.mat d1 x1), none, some (selectedInputs (some idx) d1 x1), some (selectedInputs (some idx) d1 x1)⟩
        else .raised := by
  by_cases h : k = idx.length
  · simp [run, callPrep, evalGuards, evalGuard, doAct, St.init, St.get, St.set, selectedInputs, PT.selectLast, PT.lastSize, h]
  · have hne : (k != idx.length) = true := by simp [h]
    simp [run, callPrep, evalGuards, evalGuard, doAct, St.init, St.get, St.set, PT.selectLast, PT.lastSize, hne, h]

/-- evaluating a pairwise kernel on the prepared inputs is `evalActive` of the C06 model (`Props/C06.lean`:
`kernel_getitem_eval`, `expandBatch_eval` are about it) -/
theorem gen_call_feeds_evalActive {Θ V : Type} (κ : Θ → List α → List α → V) (bs : RShape) (k : KernelState Θ)
    (x1 x2 : Inputs (List α)) (idx : RIdx) :
    (evalDense κ bs k.params (preparedInputs k.activeDims x1) (preparedInputs k.activeDims x2)).get idx
      = (evalActive κ bs k x1 x2).get idx := by
  simp [evalActive, evalDense, preparedInputs]

end call

/-! ### `Kernel.__call__(diag=True)`: when is `res.diagonal()` taken (regenerated decision) -/

/-- **no second diagonal of a diagonal**: when `forward` honoured `diag=True` (result `(*bs, n)`, or `(*bs, d, n)` with
`last_dim_is_batch`) the result is returned as it is — also when the last batch size equals `n` — and when `forward`
returned the full matrix (`(*bs, [d,] n, n)`) its diagonal is taken; `bs` is the broadcast of the batch shapes of
`x1_`, `x2_` and the kernel.  (On the pinned source the decision compared with `x1_.dim()` and this is false.) -/
theorem gen_call_diag_postprocess (b1 b2 bk bs : RShape) (n : ℕ) (ldb : Bool) (last2 : ℕ × ℕ)
    (hbs : bcastR3 b1 b2 bk = some bs) :
    callDiagTakesDiagonal b1 b2 bk n n ldb (bs.length + 1 + (if ldb then 1 else 0)) last2 = some false ∧
    callDiagTakesDiagonal b1 b2 bk n n ldb (bs.length + 2 + (if ldb then 1 else 0)) (n, n) = some true := by
  cases ldb <;> simp [callDiagTakesDiagonal, hbs]

/-- the hypothesis is satisfiable, in a diag-ambiguous cell: kernel batch `(3,)`, unbatched inputs, `n = 3` -/
example : bcastR3 [] [] [3] = some [3] := by decide
example : callDiagTakesDiagonal [] [] [3] 3 3 false 2 (3, 3) = some false := by decide

end C06Kernels

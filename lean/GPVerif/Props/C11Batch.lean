/-
C11, batch-aware part — the WHOLE `MultitaskMultivariateNormal.__getitem__` as regenerated into
`GPVerif.Gen.MTIndex` (`getitemIdx`: tuple normalisation, ellipsis expansion, appended task slice;
`getitemFull`: batch-only branch, too-many-indices, layout assignment, dispatch with the batch components kept in
the covariance selection) against the batch-aware specification `MTIndex.specGetitemB` (torch's `mean[idx]` on a
mean of shape `bs × n × t`, any rank of `bs`).
-/
import GPVerif.Gen.MTIndex
import GPVerif.Bridge.MTBatch
import GPVerif.Bridge.MTCtor
import GPVerif.Props.C11

set_option linter.unusedSimpArgs false
set_option linter.unnecessarySeqFocus false

namespace C11
open MTIndex Gen.MTIndex

/-! ## the preamble: tuple normalisation, ellipsis expansion, appended task slice -/

/-- the preamble only looks at the components (`idx if isinstance(idx, tuple) else (idx,)`) -/
theorem getitemIdx_eq_tuple (dim : Int) (e : IdxExpr) : getitemIdx dim e = getitemIdx dim (.tuple e.toList) := by
  cases e <;> rfl

/-- generated preamble on a tuple without `Ellipsis`: a tuple one short of the rank gets the task slice -/
theorem getitemIdx_embed (dim : Int) (e : IdxExpr) (cs : List Idx) (he : e.toList = embed cs) :
    getitemIdx dim e = some (if (cs.length : Int) = dim - 1 then cs ++ [.slice PySlice.full] else cs) := by
  rw [getitemIdx_eq_tuple, he]
  unfold getitemIdx
  simp only []
  rw [if_neg (ellipsis_not_mem_embed cs)]
  by_cases h : (cs.length : Int) = dim - 1
  · simp only [embed_length, h, if_true, Option.bind_some]
    have : embed cs ++ [BIdx.full] = embed (cs ++ [.slice PySlice.full]) := by simp [embed_append, BIdx.full]
    rw [this, comps?_embed]
  · simp only [embed_length, h, if_false, Option.bind_some, comps?_embed]

/-- generated preamble on a tuple with an `Ellipsis`: it is replaced by the missing full slices; a second one and
too many components are errors -/
theorem getitemIdx_split (dim : Int) (e : IdxExpr) (cs : List Idx) (rest : List BIdx)
    (he : e.toList = embed cs ++ BIdx.ellipsis :: rest) :
    getitemIdx dim e =
      if BIdx.ellipsis ∈ rest then none
      else if dim - cs.length - rest.length < 0 then none
      else BIdx.comps? (embed cs ++ List.replicate (dim - cs.length - rest.length).toNat BIdx.full ++ rest) := by
  rw [getitemIdx_eq_tuple, he]
  unfold getitemIdx
  simp only []
  rw [if_pos (by simp)]
  simp only [pyIndexOf?_split, Option.bind_some, pyDrop_split, pyTake_split, embed_length, pyRepeat_singleton]
  by_cases h1 : BIdx.ellipsis ∈ rest
  · simp [h1]
  · by_cases h2 : dim - cs.length - rest.length < 0
    · simp [h1, h2]
    · simp [h1, h2]

/-- **getitemIdx_spec** — the generated preamble reads an index expression exactly as torch reads it on the mean
(`specExpand`: the ellipsis at ANY position stands for the missing dimensions, a second one / too many components
are errors), for every batch rank `k`: the tuple it hands on is torch's one-component-per-dimension form, or — for
an expression without ellipsis that addresses at most the `k` batch dimensions — that form without its trailing full
slices (the batch-only branch). -/
theorem getitemIdx_spec (k : Nat) (e : IdxExpr) (full : List Idx)
    (h : specExpand (k + 2) e.toList = some full) :
    ∃ idx, getitemIdx ((k : Int) + 2) e = some idx ∧
      (idx = full ∨
        (idx.length ≤ k ∧ full = idx ++ List.replicate (k + 2 - idx.length) (.slice PySlice.full))) := by
  rcases tuple_decomp e.toList with ⟨cs, he⟩ | ⟨cs, rest, he⟩
  · rw [he, specExpand_embed] at h
    split at h
    · cases h
    · rename_i hlen
      cases h
      rw [getitemIdx_embed _ e cs he]
      by_cases h1 : (cs.length : Int) = (k : Int) + 2 - 1
      · refine ⟨_, by rw [if_pos h1], Or.inl ?_⟩
        have : k + 2 - cs.length = 1 := by omega
        simp [this]
      · refine ⟨_, by rw [if_neg h1], ?_⟩
        by_cases h2 : cs.length = k + 2
        · left; simp [h2]
        · right; exact ⟨by omega, rfl⟩
  · by_cases hm : BIdx.ellipsis ∈ rest
    · rw [he, specExpand_two _ _ _ hm] at h; cases h
    · have hps : ∃ ps, rest = embed ps := by
        rcases tuple_decomp rest with ⟨ps, hps⟩ | ⟨ps, r', hps⟩
        · exact ⟨ps, hps⟩
        · exact absurd (by rw [hps]; simp) hm
      obtain ⟨ps, rfl⟩ := hps
      rw [he, specExpand_split] at h
      split at h
      · cases h
      · rename_i hlen
        cases h
        rw [getitemIdx_split _ e cs _ he, if_neg hm]
        have hd : ((k : Int) + 2 - cs.length - (embed ps).length) = ((k + 2 - (cs.length + ps.length) : Nat) : Int) := by
          simp only [embed_length]; omega
        rw [hd, if_neg (by omega), Int.toNat_natCast]
        have hr : ∀ m : Nat, List.replicate m BIdx.full = embed (List.replicate m (.slice PySlice.full)) := by
          intro m; simp [embed, BIdx.full]
        rw [hr, ← embed_append, ← embed_append, comps?_embed]
        exact ⟨_, rfl, Or.inl rfl⟩

/-! ## the dispatch with the batch components kept = the dispatch on the event positions -/

/-- the event positions of the covariance selection of the batch-carrying dispatch are the positions of the plain
dispatch (same source statements, rendered twice by the translator) -/
theorem getitemRCB_positions (inter : Bool) (N nr nc : Int) (B : List Idx) (r c : Idx) :
    (getitemRCB inter N nr nc B r c).bind (fun ks => (ks.2.ev.positions N).map fun pos => (ks.1, pos))
      = getitemRC inter N nr nc r c := by
  cases r <;> cases c <;>
    simp [getitemRCB, getitemRC, Idx.isInt, Idx.isSlice, Idx.isFull, branchB_intInt, branch_intInt, branchB_intSlice,
      branch_intSlice, branchB_sliceInt, branch_sliceInt, branchB_fullSlices, branch_fullSlices, branchB_mesh, branch_mesh,
      branchB_pairs, branch_pairs, EvSel.positions, Option.bind_assoc, Option.map_eq_bind, Function.comp_def] <;>
    try (split <;> simp [EvSel.positions, Option.map_eq_bind, Function.comp_def])

/-- the batch-carrying dispatch hands the batch components on unchanged, and selects a single diagonal entry exactly
in the int × int branch -/
theorem getitemRCB_sel (inter : Bool) (N nr nc : Int) (B : List Idx) (r c : Idx) (k : OutKind) (sel : CovSel)
    (h : getitemRCB inter N nr nc B r c = some (k, sel)) :
    sel.batch = B ∧ sel.ev.isDiag = (r.isInt && c.isInt) := by
  cases r <;> cases c <;>
    simp [getitemRCB, Idx.isInt, Idx.isSlice, Idx.isFull, branchB_intInt, branchB_intSlice, branchB_sliceInt,
      branchB_fullSlices, branchB_mesh, branchB_pairs, Option.bind_eq_some_iff] at h <;>
    grind [EvSel.isDiag, Idx.isInt]

/-! ## the dispatch on a full-length index -/

/-- on a tuple with one component per dimension the generated `__getitem__` reaches the layout assignment and the
dispatch, with `batch_idx` = the leading components -/
theorem getitemDispatch_full (inter : Bool) (k : Nat) (n t : Int) (bidx : List Idx) (r c : Idx) (hlen : bidx.length = k) :
    getitemDispatch inter ((k : Int) + 2) n t (bidx ++ [r, c]) =
      getitemRCB inter (n * t) (layout_num_rows inter n t r c) (layout_num_cols inter n t r c) bidx
        (layout_row_idx inter n t r c) (layout_col_idx inter n t r c) := by
  unfold getitemDispatch
  have h1 : ¬ (((bidx ++ [r, c]).length : Int) ≤ (k : Int) + 2 - 2) := by simp [hlen]
  have h2 : ¬ (((bidx ++ [r, c]).length : Int) > (k : Int) + 2) := by simp [hlen]
  simp only [h1, h2, if_false, pyTake_neg_two, pyGet?_neg_two, pyGet?_neg_one, Option.bind_some]

/-- the batch-carrying dispatch, read through its event positions, is the plain `getitem` -/
theorem getitemRCB_of_getitem (inter : Bool) (n t : Int) (bidx : List Idx) (r c : Idx) (kind : OutKind) (pos : List Int)
    (h : getitem inter n t r c = some (kind, pos)) :
    ∃ sel, getitemRCB inter (n * t) (layout_num_rows inter n t r c) (layout_num_cols inter n t r c) bidx
        (layout_row_idx inter n t r c) (layout_col_idx inter n t r c) = some (kind, sel) ∧
      sel.batch = bidx ∧ sel.ev.positions (n * t) = some pos ∧ sel.ev.isDiag = (r.isInt && c.isInt) := by
  unfold getitem at h
  rw [← getitemRCB_positions inter (n * t) _ _ bidx] at h
  simp only [Option.bind_eq_some_iff, Option.map_eq_some_iff, Prod.mk.injEq] at h
  obtain ⟨⟨k', sel⟩, hsel, pos', hpos, rfl, rfl⟩ := h
  have hs := getitemRCB_sel _ _ _ _ _ _ _ _ _ hsel
  refine ⟨sel, hsel, hs.1, hpos, ?_⟩
  rw [hs.2]
  cases inter <;> simp [layout_row_idx, layout_col_idx, Bool.and_comm]

/-- **full-length index, int / slice batch components** — for every batch shape `bs` (any rank), all `n`, `t`, both
layouts, every event pair (int | slice | index tensor)²: the covariance the generated `__getitem__` selects —
batch components included, evaluated by the model of LinearOperator indexing — is the covariance of `mean[idx]`. -/
theorem getitemDispatch_full_correct (inter : Bool) (bs : List Nat) (n t : Nat) (bidx : List Idx) (r c : Idx)
    (res : OutKind × CovRes) (hlen : bidx.length = bs.length) (hbasic : (bidx.all fun x => !x.isList) = true)
    (h : specOfFull inter bs n t (bidx ++ [r, c]) = some res) :
    evalResult bs ((n : Int) * t) (getitemDispatch inter ((bs.length : Int) + 2) n t (bidx ++ [r, c])) = some res := by
  rw [specOfFull_split inter bs n t bidx r c hlen] at h
  simp only [Option.bind_eq_some_iff, Option.map_eq_some_iff] at h
  obtain ⟨b, hres, ri, hri, ci, hci, g, hg, cov, hcov, rfl⟩ := h
  obtain ⟨hb, hnd⟩ := resolveAll_basic _ _ _ hres hbasic
  have hr := toRItem_resolve hri
  have hc := toRItem_resolve hci
  have kr := toRItem_kind hri
  have kc := toRItem_kind hci
  rw [getitemDispatch_full inter bs.length n t bidx r c hlen]
  by_cases hii : r.isInt = true ∧ c.isInt = true
  · -- int × int: a single diagonal entry per selected batch element
    obtain ⟨pi, rfl⟩ := kr.2.2.1 hii.1
    obtain ⟨pa, rfl⟩ := kc.2.2.1 hii.2
    have hk : specKind inter r c = .mvn := by simp [specKind, hii.1]
    have hl : (r.isList && c.isList) = false := by
      cases r <;> simp_all [Idx.isInt, Idx.isList]
    have hp : specPositions inter n t (r.isList && c.isList) (RItem.pick pi).positions (RItem.pick pa).positions
        = some [flat inter n t pi pa] := by
      rw [hl]; cases inter <;> simp [specPositions, RItem.positions]
    have hget := getitem_selects_pairs inter n t r c hr hc hp
    obtain ⟨sel, hsel, hsb, hpos, hdiag⟩ := getitemRCB_of_getitem inter n t bidx r c _ _ hget
    rw [hsel]
    obtain ⟨sb, ev⟩ := sel
    simp only at hsb hpos hdiag
    subst hsb
    cases ev with
    | diag e =>
      simp only [EvSel.positions, indexInt, Option.map_eq_some_iff] at hpos
      obtain ⟨p0, hw, hp0⟩ := hpos
      have hp0' : p0 = flat inter n t pi pa := by simpa using hp0
      subst hp0'
      rw [hk] at hcov ⊢
      have := spec_block_diag inter n t b hb hnd pi pa g cov hg hcov
      simp only [evalResult, Option.bind_some, eval_diag bs _ sb e _ b hlen hres hb hw, Option.map_some, this]
    | full => simp [EvSel.isDiag, hii.1, hii.2] at hdiag
    | slice2 s => simp [EvSel.isDiag, hii.1, hii.2] at hdiag
    | tensor ind => simp [EvSel.isDiag, hii.1, hii.2] at hdiag
  · -- every other pair: the block of the selected event positions per selected batch element
    have hblock : ∃ pos, specPositions inter n t (r.isList && c.isList) ri.positions ci.positions = some pos ∧
        cov = ⟨keepDims b, (bsel b []).map fun p => gridBlock p.reverse pos⟩ := by
      cases r with
      | int i =>
        obtain ⟨pi, rfl⟩ := kr.2.2.1 rfl
        cases c with
        | int j => exact absurd ⟨rfl, rfl⟩ hii
        | slice s =>
          obtain ⟨C, rfl⟩ := kc.2.2.2.1 rfl
          exact spec_block_one_pick inter n t b hb _ _ (Or.inl ⟨rfl, rfl⟩) rfl (by simp [RItem.isAdv]) g cov hg
            (by simpa [specKind, Idx.isSlice, Idx.isInt] using hcov)
        | list l =>
          obtain ⟨C, rfl⟩ := kc.2.2.2.2 rfl
          exact spec_block_one_pick inter n t b hb _ _ (Or.inl ⟨rfl, rfl⟩) rfl (by simp [RItem.isAdv]) g cov hg
            (by simpa [specKind, Idx.isSlice, Idx.isInt] using hcov)
      | slice s =>
        obtain ⟨R, rfl⟩ := kr.2.2.2.1 rfl
        cases c with
        | int j =>
          obtain ⟨pa, rfl⟩ := kc.2.2.1 rfl
          exact spec_block_one_pick inter n t b hb _ _ (Or.inr ⟨rfl, rfl⟩) rfl (by simp [RItem.isAdv]) g cov hg
            (by simpa [specKind, Idx.isSlice, Idx.isInt] using hcov)
        | slice s' =>
          obtain ⟨C, rfl⟩ := kc.2.2.2.1 rfl
          exact spec_block_grid inter n t b hb _ _ rfl rfl (by simp [RItem.isAdv]) g cov hg
            (by simpa [specKind, Idx.isSlice, Idx.isInt] using hcov)
        | list l =>
          obtain ⟨C, rfl⟩ := kc.2.2.2.2 rfl
          exact spec_block_grid inter n t b hb _ _ rfl rfl (by simp [RItem.isAdv]) g cov hg
            (by simpa [specKind, Idx.isSlice, Idx.isInt] using hcov)
      | list l =>
        obtain ⟨R, rfl⟩ := kr.2.2.2.2 rfl
        cases c with
        | int j =>
          obtain ⟨pa, rfl⟩ := kc.2.2.1 rfl
          exact spec_block_one_pick inter n t b hb _ _ (Or.inr ⟨rfl, rfl⟩) rfl (by simp [RItem.isAdv]) g cov hg
            (by simpa [specKind, Idx.isSlice, Idx.isInt] using hcov)
        | slice s' =>
          obtain ⟨C, rfl⟩ := kc.2.2.2.1 rfl
          exact spec_block_grid inter n t b hb _ _ rfl rfl (by simp [RItem.isAdv]) g cov hg
            (by simpa [specKind, Idx.isSlice, Idx.isInt] using hcov)
        | list l' =>
          obtain ⟨C, rfl⟩ := kc.2.2.2.2 rfl
          exact spec_block_pairs inter n t b hb R C g cov hg
            (by simpa [specKind, Idx.isSlice, Idx.isInt] using hcov)
    obtain ⟨pos, hp, rfl⟩ := hblock
    have hget := getitem_selects_pairs inter n t r c hr hc hp
    obtain ⟨sel, hsel, hsb, hpos, hdiag⟩ := getitemRCB_of_getitem inter n t bidx r c _ _ hget
    rw [hsel]
    obtain ⟨sb, ev⟩ := sel
    simp only at hsb hpos hdiag
    subst hsb
    have hnd' : ev.isDiag = false := by
      rw [hdiag]
      cases hr' : r.isInt <;> cases hc' : c.isInt <;> simp_all
    simp only [evalResult, Option.bind_some, eval_grid bs _ sb ev b pos hlen hres hb hpos hnd', Option.map_some]

/-! ## the batch-only branch -/

theorem getitemRCB_fullSlices (inter : Bool) (N nr nc : Int) (B : List Idx) :
    getitemRCB inter N nr nc B (.slice PySlice.full) (.slice PySlice.full) = some (.mt inter, ⟨B, .full⟩) := by
  simp [getitemRCB, Idx.isInt, Idx.isSlice, Idx.isFull, branchB_fullSlices]

/-- **batch-only index** (at most as many int / slice components as there are batch dimensions, no ellipsis): the
generated batch-only branch `cov[idx]` yields the covariance of `mean[idx]`, for every batch rank. -/
theorem getitemDispatch_batchonly_correct (inter : Bool) (bs : List Nat) (n t : Nat) (idx : List Idx)
    (res : OutKind × CovRes) (hlen : idx.length ≤ bs.length) (hbasic : (idx.all fun x => !x.isList) = true)
    (h : specOfFull inter bs n t (idx ++ List.replicate (bs.length + 2 - idx.length) (.slice PySlice.full)) = some res) :
    evalResult bs ((n : Int) * t) (getitemDispatch inter ((bs.length : Int) + 2) n t idx) = some res := by
  have e : bs.length + 2 - idx.length = (bs.length - idx.length) + 2 := by omega
  rw [e, replicate_add_two, ← List.append_assoc] at h
  have hl : (idx ++ List.replicate (bs.length - idx.length) (Idx.slice PySlice.full)).length = bs.length := by
    simp; omega
  have hb : ((idx ++ List.replicate (bs.length - idx.length) (Idx.slice PySlice.full)).all fun x => !x.isList) = true := by
    simp only [List.all_append, hbasic, Bool.true_and, List.all_replicate]
    simp [Idx.isList]
  have := getitemDispatch_full_correct inter bs n t _ _ _ res hl hb h
  rw [getitemDispatch_full inter bs.length n t _ _ _ hl] at this
  have hlay : layout_row_idx inter n t (.slice PySlice.full) (.slice PySlice.full) = .slice PySlice.full ∧
      layout_col_idx inter n t (.slice PySlice.full) (.slice PySlice.full) = .slice PySlice.full := by
    cases inter <;> simp [layout_row_idx, layout_col_idx]
  rw [hlay.1, hlay.2, getitemRCB_fullSlices] at this
  unfold getitemDispatch
  have h1 : ((idx.length : Int) ≤ (bs.length : Int) + 2 - 2) := by omega
  simp only [h1, if_true]
  simp only [evalResult, Option.bind_some] at this ⊢
  rw [eval_pad bs _ idx .full hlen]
  exact this

/-! ## the property: `d[idx]` on a batch of any rank -/

/-- **getitemB_eq_spec_except_known** — for every batch shape `bs` (any rank, any sizes), all `n`, `t`, both layouts
and every index expression (bare or tuple; ints, slices with any start / stop / step ≥ 1, index tensors / lists on the
two event dimensions, `Ellipsis` at any position, omitted trailing components) that is valid for the mean and has NO
index tensor on a batch dimension: the whole regenerated `__getitem__` — preamble, batch-only branch, layout
assignment, dispatch, the covariance selection with its batch components evaluated by the model of LinearOperator
indexing — returns the result class and exactly the covariance entries (batch element, position, position) of the
specification `specGetitemB`, i.e. the covariance of the (batch element, point, task) triples in `mean[idx]`, zero
between distinct batch elements.  (Index tensors on a batch dimension are the recorded known finding, below.) -/
theorem getitemB_eq_spec_except_known (inter : Bool) (bs : List Nat) (n t : Nat) (e : IdxExpr) (res : OutKind × CovRes)
    (hbasic : batchBasic bs.length e = true)
    (h : specGetitemB inter bs n t e = some res) :
    evalResult bs ((n : Int) * t) (getitemFull inter ((bs.length : Int) + 2) n t e) = some res := by
  unfold specGetitemB at h
  simp only [Option.bind_eq_some_iff] at h
  obtain ⟨full, hfull, hspec⟩ := h
  have hlenf := specExpand_length _ _ _ hfull
  simp only [batchBasic, hfull] at hbasic
  obtain ⟨idx, hidx, hcase⟩ := getitemIdx_spec bs.length e full hfull
  unfold getitemFull
  rw [hidx, Option.bind_some]
  rcases hcase with rfl | ⟨hshort, hpad⟩
  · obtain ⟨r, c, hrc⟩ := split_last_two bs.length idx hlenf
    rw [hrc] at hspec ⊢
    exact getitemDispatch_full_correct inter bs n t _ r c res (by simp; omega) hbasic hspec
  · have hb : (idx.all fun x => !x.isList) = true := by
      rw [hpad] at hbasic
      have hs : ∀ x ∈ idx, x ∈ List.take bs.length (idx ++ List.replicate (bs.length + 2 - idx.length) (Idx.slice PySlice.full)) := by
        intro x hx
        rw [List.mem_take_iff_getElem]
        obtain ⟨i, hi, rfl⟩ := List.getElem_of_mem hx
        exact ⟨i, by simp; omega, by simp [List.getElem_append_left hi]⟩
      rw [List.all_eq_true] at hbasic ⊢
      exact fun x hx => hbasic x (hs x hx)
    rw [hpad] at hspec
    exact getitemDispatch_batchonly_correct inter bs n t idx res hshort hb hspec

/-! ## index tensors on batch dimensions, where the covariance selection is a block -/

/-- int × slice, slice × int select `cov[batch + (s, s)]`, full × full selects `cov[batch]` -/
theorem getitemRCB_block (inter : Bool) (N nr nc : Int) (B : List Idx) (r c : Idx) (k : OutKind) (sel : CovSel)
    (h : getitemRCB inter N nr nc B r c = some (k, sel))
    (hs : ((r.isInt && c.isSlice) || (r.isSlice && c.isInt) || (r.isFull && c.isFull)) = true) :
    sel.ev = .full ∨ ∃ s, sel.ev = .slice2 s := by
  cases r <;> cases c <;>
    simp [getitemRCB, Idx.isInt, Idx.isSlice, Idx.isFull, branchB_intInt, branchB_intSlice, branchB_sliceInt,
      branchB_fullSlices, branchB_mesh, branchB_pairs, Option.bind_eq_some_iff] at h hs <;>
    grind

/-- **full-length index with ANY batch components (ints, slices, index tensors / lists), event part int × slice,
slice × int or full × full** — the selection `cov[batch_idx + (s, s)]` / `cov[batch_idx]` follows torch's gather
semantics in the batch dimensions exactly as `mean[idx]` does, for every batch rank. -/
theorem getitemDispatch_block_correct (inter : Bool) (bs : List Nat) (n t : Nat) (bidx : List Idx) (r c : Idx)
    (res : OutKind × CovRes) (hlen : bidx.length = bs.length)
    (hs : ((r.isInt && c.isSlice) || (r.isSlice && c.isInt) || (r.isFull && c.isFull)) = true)
    (h : specOfFull inter bs n t (bidx ++ [r, c]) = some res) :
    evalResult bs ((n : Int) * t) (getitemDispatch inter ((bs.length : Int) + 2) n t (bidx ++ [r, c])) = some res := by
  rw [specOfFull_split inter bs n t bidx r c hlen] at h
  simp only [Option.bind_eq_some_iff, Option.map_eq_some_iff] at h
  obtain ⟨A, hres, ri, hri, ci, hci, g, hg, cov, hcov, rfl⟩ := h
  have hr := toRItem_resolve hri
  have hc := toRItem_resolve hci
  have kr := toRItem_kind hri
  have kc := toRItem_kind hci
  have hnl : r.isList = false ∧ c.isList = false := by
    cases r <;> cases c <;> simp_all [Idx.isInt, Idx.isSlice, Idx.isFull, Idx.isList]
  have hrb : ri.basic = true := by rw [kr.2.1, hnl.1]; rfl
  have hcb : ci.basic = true := by rw [kc.2.1, hnl.2]; rfl
  have hT : allBasic [ri, ci] = true := by simp [allBasic, hrb, hcb]
  obtain ⟨o, ho⟩ : ∃ o, outerOf A = some o := by
    rw [gather, gatherFrom_basicTail _ A [ri, ci] hT] at hg
    cases hh : outerOf A with
    | none => simp [hh] at hg
    | some o => exact ⟨o, rfl⟩
  rw [getitemDispatch_full inter bs.length n t bidx r c hlen]
  have hblock : ∃ pos, specPositions inter n t (r.isList && c.isList) ri.positions ci.positions = some pos ∧
      cov = ⟨o.shape, o.data.map fun p => gridBlock p.reverse pos⟩ := by
    rw [hnl.1, hnl.2]
    cases r with
    | int i =>
      obtain ⟨pi, rfl⟩ := kr.2.2.1 rfl
      cases c with
      | int j => simp [Idx.isInt, Idx.isSlice, Idx.isFull] at hs
      | slice s =>
        obtain ⟨C, rfl⟩ := kc.2.2.2.1 rfl
        exact spec_outer_one_pick inter n t A o ho _ _ rfl rfl (Or.inl ⟨rfl, rfl⟩) rfl g cov hg
          (by simpa [specKind, Idx.isSlice, Idx.isInt] using hcov)
      | list l => simp [Idx.isList] at hnl
    | slice s =>
      obtain ⟨R, rfl⟩ := kr.2.2.2.1 rfl
      cases c with
      | int j =>
        obtain ⟨pa, rfl⟩ := kc.2.2.1 rfl
        exact spec_outer_one_pick inter n t A o ho _ _ rfl rfl (Or.inr ⟨rfl, rfl⟩) rfl g cov hg
          (by simpa [specKind, Idx.isSlice, Idx.isInt] using hcov)
      | slice s' =>
        obtain ⟨C, rfl⟩ := kc.2.2.2.1 rfl
        exact spec_outer_grid inter n t A o ho R C g cov hg
          (by simpa [specKind, Idx.isSlice, Idx.isInt] using hcov)
      | list l => simp [Idx.isList] at hnl
    | list l => simp [Idx.isList] at hnl
  obtain ⟨pos, hp, rfl⟩ := hblock
  have hget := getitem_selects_pairs inter n t r c hr hc hp
  obtain ⟨sel, hsel, hsb, hpos, -⟩ := getitemRCB_of_getitem inter n t bidx r c _ _ hget
  have hev := getitemRCB_block inter _ _ _ bidx _ _ _ sel hsel (by
    cases inter <;> simp only [layout_row_idx, layout_col_idx, if_true, Bool.false_eq_true, if_false]
    · rw [← hs]; cases r.isInt <;> cases c.isInt <;> cases r.isSlice <;> cases c.isSlice <;> cases r.isFull <;> cases c.isFull <;> rfl
    · exact hs)
  rw [hsel]
  obtain ⟨sb, ev⟩ := sel
  simp only at hsb hpos hev
  subst hsb
  simp only [evalResult, Option.bind_some, eval_outer bs _ sb ev A pos hlen hres hev hpos, ho, Option.map_some]

/-- **batch-only index with ANY components (index tensors / lists included)**: `cov[idx]` is the covariance of `mean[idx]` -/
theorem getitemDispatch_batchonly_correct_any (inter : Bool) (bs : List Nat) (n t : Nat) (idx : List Idx)
    (res : OutKind × CovRes) (hlen : idx.length ≤ bs.length)
    (h : specOfFull inter bs n t (idx ++ List.replicate (bs.length + 2 - idx.length) (.slice PySlice.full)) = some res) :
    evalResult bs ((n : Int) * t) (getitemDispatch inter ((bs.length : Int) + 2) n t idx) = some res := by
  have e : bs.length + 2 - idx.length = (bs.length - idx.length) + 2 := by omega
  rw [e, replicate_add_two, ← List.append_assoc] at h
  have hl : (idx ++ List.replicate (bs.length - idx.length) (Idx.slice PySlice.full)).length = bs.length := by
    simp; omega
  have := getitemDispatch_block_correct inter bs n t _ _ _ res hl (by simp [Idx.isFull, Idx.isInt, Idx.isSlice]) h
  rw [getitemDispatch_full inter bs.length n t _ _ _ hl] at this
  have hlay : layout_row_idx inter n t (.slice PySlice.full) (.slice PySlice.full) = .slice PySlice.full ∧
      layout_col_idx inter n t (.slice PySlice.full) (.slice PySlice.full) = .slice PySlice.full := by
    cases inter <;> simp [layout_row_idx, layout_col_idx]
  rw [hlay.1, hlay.2, getitemRCB_fullSlices] at this
  unfold getitemDispatch
  have h1 : ((idx.length : Int) ≤ (bs.length : Int) + 2 - 2) := by omega
  simp only [h1, if_true]
  simp only [evalResult, Option.bind_some] at this ⊢
  rw [eval_pad bs _ idx .full hlen]
  exact this

/-- **getitemB_eq_spec_block_event** — index tensors / lists on BATCH dimensions where they are handled correctly: for
every batch shape (any rank), all `n`, `t`, both layouts and every index expression valid for the mean — batch
components of ANY kind (ints, slices, index tensors, several of them, adjacent or separated by slices), `Ellipsis`
anywhere — whose event part is int × slice, slice × int, or two full slices (in particular every index that addresses
batch dimensions only), the regenerated `__getitem__` returns the covariance of `mean[idx]`.  Together with
`getitemB_eq_spec_except_known` this confines the known finding to: index tensor on a batch dimension AND
(int × int, a strided / partial slice × slice, or an index tensor on an event dimension). -/
theorem getitemB_eq_spec_block_event (inter : Bool) (bs : List Nat) (n t : Nat) (e : IdxExpr) (res : OutKind × CovRes)
    (hblock : eventBlock bs.length e = true)
    (h : specGetitemB inter bs n t e = some res) :
    evalResult bs ((n : Int) * t) (getitemFull inter ((bs.length : Int) + 2) n t e) = some res := by
  unfold specGetitemB at h
  simp only [Option.bind_eq_some_iff] at h
  obtain ⟨full, hfull, hspec⟩ := h
  have hlenf := specExpand_length _ _ _ hfull
  simp only [eventBlock, hfull] at hblock
  obtain ⟨idx, hidx, hcase⟩ := getitemIdx_spec bs.length e full hfull
  unfold getitemFull
  rw [hidx, Option.bind_some]
  rcases hcase with rfl | ⟨hshort, hpad⟩
  · obtain ⟨r, c, hrc⟩ := split_last_two bs.length idx hlenf
    have hd : idx.drop bs.length = [r, c] := by
      have := congrArg (List.drop bs.length) hrc
      rw [List.drop_append_of_le_length (by simp; omega)] at this
      simpa using this
    rw [hd] at hblock
    rw [hrc] at hspec ⊢
    exact getitemDispatch_block_correct inter bs n t _ r c res (by simp; omega) hblock hspec
  · rw [hpad] at hspec
    exact getitemDispatch_batchonly_correct_any inter bs n t idx res hshort hspec

/-! ## the recorded known finding, as theorems about the generated code -/

/-- **getitemB_batch_advanced_known** — index tensors on a BATCH dimension (known finding `getitem:*:batch-advanced:*`):
the generated tensor branches index the covariance with `batch_idx + (indices,)`, which zips the batch index tensor
with the flattened event positions.  Batch shape `(2,)`, `n = 1`, `t = 2`, interleaved, `d[tensor([1, 0]), :, [0, 0]]`:
the specification has no covariance between the two selected variables (they belong to different batch elements),
the generated code returns the entries `(β = 1, 0, 0)` and `(β = 0, 0, 0)` there.  Kernel-checked on the regenerated
definitions: once the source is repaired this stops building. -/
theorem getitemB_batch_advanced_known :
    let e : IdxExpr := .tuple [.comp (.list [1, 0]), BIdx.full, .comp (.list [0, 0])]
    batchBasic 1 e = false ∧
    specGetitemB true [2] 1 2 e = some (.mt true, ⟨[], [[[some ([1], 0, 0), none], [none, some ([0], 0, 0)]]]⟩) ∧
    evalResult [2] 2 (getitemFull true 3 1 2 e)
      = some (.mt true, ⟨[], [[[some ([1], 0, 0), some ([1], 0, 0)], [some ([0], 0, 0), some ([0], 0, 0)]]]⟩) := by
  decide +kernel

/-- the int × int face of the same finding: `d[tensor([-1, 0, 1]), 0, -2]` on batch shape `(2,)`, `n = 1`, `t = 3`
selects the same variable (batch element 1) twice; the generated code wraps the diagonal in a `DiagLinearOperator`,
i.e. reports two copies of one variable as independent. -/
theorem getitemB_batch_advanced_diag_known :
    let e : IdxExpr := .tuple [.comp (.list [-1, 0, 1]), .comp (.int 0), .comp (.int (-2))]
    batchBasic 1 e = false ∧
    (specGetitemB true [2] 1 3 e).map (fun r => (r.2.blocks.map fun blk => blk.map fun row => row.map Option.isSome))
      = some [[[true, false, true], [false, true, false], [true, false, true]]] ∧
    (evalResult [2] 3 (getitemFull true 3 1 3 e)).map
        (fun r => (r.2.blocks.map fun blk => blk.map fun row => row.map Option.isSome))
      = some [[[true, false, false], [false, true, false], [false, false, true]]] := by
  decide +kernel

/-! ## constructors on batches of any rank: the regenerated permutation / stacking / block dimensions -/

/-- generated `from_batch_mvn` plan: a valid `task_dim` (negative values count from the end) names batch dimension `p`;
the mean is permuted by `range(0, p), range(p + 1, nd), p` and `p` is the block dimension of the covariance -/
theorem gen_from_batch_mvn_plan (nb : Nat) (task_dim p : Int) (hw : wrap nb task_dim = some p) :
    fromBatchMvnPlan nb ((nb : Int) + 1) task_dim
      = some (pyRange 0 p ++ pyRange (p + 1) ((nb : Int) + 1) ++ [p], p) := by
  have hb := wrap_bounds hw
  have hn := wrap_eq_norm' hw
  unfold fromBatchMvnPlan
  have e : (if task_dim ≥ 0 then task_dim else (nb : Int) + task_dim) = p := by
    rw [← hn]; split <;> split <;> omega
  simp only [e]
  rw [if_neg (by omega)]

/-- **gen_from_batch_mvn_entry** — for every number of batch dimensions, every valid `task_dim` (either sign) and every
remaining batch element `β`: with the regenerated permutation the mean entry `(β, i, a)` of the result is the entry of
batch member `a` along the stated task dimension (`β` with `a` inserted at `p`), and with the regenerated block
dimension, block operator and layout flag the covariance between `(i, a)` and `(j, b)` of batch element `β` is that
member's `K[i, j]` when `a = b` and `0` otherwise. -/
theorem gen_from_batch_mvn_entry {α : Type} [OfNat α 0] (nb : Nat) (task_dim p : Int) (hw : wrap nb task_dim = some p)
    (K : List Int → Int → Int → α) (β : List Int) (hβ : β.length + 1 = nb) {n t i a j b : Int}
    (hi0 : 0 ≤ i) (hi1 : i < n) (ha0 : 0 ≤ a) (ha1 : a < t) (hj0 : 0 ≤ j) (hj1 : j < n) (hb0 : 0 ≤ b) (hb1 : b < t) :
    ∃ perm bd, fromBatchMvnPlan nb ((nb : Int) + 1) task_dim = some (perm, bd) ∧
      permutedIdx perm (insertAt p.toNat a β ++ [i]) = β ++ [i, a] ∧
      blockEntryB fromBatchMvn.1 bd.toNat n t K β (flat fromBatchMvn.2 n t i a) (flat fromBatchMvn.2 n t j b)
        = (if a = b then K (insertAt p.toNat a β) i j else 0) := by
  have hb := wrap_bounds hw
  refine ⟨_, _, gen_from_batch_mvn_plan nb task_dim p hw, ?_, ?_⟩
  · have hk : (β.take p.toNat).length = p.toNat := by simp; omega
    have hp : ((β.take p.toNat).length : Int) = p := by rw [hk]; omega
    have hl : ((β.take p.toNat).length : Int) + ((β.drop p.toNat).length : Nat) + 2 = (nb : Int) + 1 := by
      simp only [List.length_take, List.length_drop]; omega
    have := moveLast_permutedIdx (β.take p.toNat) (β.drop p.toNat) a i
    rw [hl, hp] at this
    simpa [insertAt, List.append_assoc] using this
  · simp [fromBatchMvn, blockEntryB, flat, flat_div ha0 ha1, flat_mod ha0 ha1, flat_div hb0 hb1, flat_mod hb0 hb1]

/-- **gen_from_independent_entry** — with the regenerated stacking / concatenation / block dimensions of
`from_independent_mvns`, for every batch element `β` (any rank): mean entry `(β, i, a)` is entry `(β, i)` of task `a`'s
mean, block `a` of the concatenated covariances is task `a`'s covariance, and the covariance between `(i, a)` and
`(j, b)` is `K_a[β][i, j]` when `a = b` and `0` otherwise. -/
theorem gen_from_independent_entry {α : Type} [OfNat α 0] (K : List Int → Int → Int → α) (β : List Int)
    {n t i a j b : Int}
    (hi0 : 0 ≤ i) (hi1 : i < n) (ha0 : 0 ≤ a) (ha1 : a < t) (hj0 : 0 ≤ j) (hj1 : j < n) (hb0 : 0 ≤ b) (hb1 : b < t) :
    stackSrc (β.length + 2) fromIndependentPlan.1 (β ++ [i, a]) = (a, β ++ [i]) ∧
    catUnsqueezeSrc (β.length + 3) fromIndependentPlan.2.1 fromIndependentPlan.2.2.1 (a :: β ++ [i, j])
      = some (a, β ++ [i, j]) ∧
    blockEntryB fromIndependentMvns.1 fromIndependentPlan.2.2.2.toNat n t K β
        (flat fromIndependentMvns.2 n t i a) (flat fromIndependentMvns.2 n t j b)
      = (if a = b then K (a :: β) i j else 0) := by
  refine ⟨?_, ?_, ?_⟩
  · have h : normDim (β.length + 2) (-1) = β.length + 1 := by simp [normDim]; omega
    simp only [fromIndependentPlan, stackSrc, h]
    have e : β ++ [i, a] = (β ++ [i]) ++ [a] := by simp
    rw [e]
    refine Prod.ext ?_ ?_
    · simp [List.getD_eq_getElem?_getD]
    · have : (β ++ [i]).length = β.length + 1 := by simp
      rw [← this, List.eraseIdx_append_of_length_le (Nat.le_refl _)]
      simp
  · simp [fromIndependentPlan, catUnsqueezeSrc, stackSrc, normDim]
  · simp [fromIndependentMvns, fromIndependentPlan, blockEntryB, insertAt, flat, flat_div hi0 hi1, flat_mod hi0 hi1,
      flat_div hj0 hj1, flat_mod hj0 hj1]

/-- **gen_from_repeated_entry** — `from_repeated_mvn` expands the MVN by a new LEADING dimension of size `num_tasks`
and hands `task_dim = 0` to `from_batch_mvn`: every task is a copy of the MVN (`K[β][i, j]` within a task, `0` across). -/
theorem gen_from_repeated_entry {α : Type} [OfNat α 0] (K : List Int → Int → Int → α) (bshape β : List Int)
    (hβ : β.length = bshape.length) (num_tasks : Int) {n t i a j b : Int}
    (hi0 : 0 ≤ i) (hi1 : i < n) (ha0 : 0 ≤ a) (ha1 : a < t) (hj0 : 0 ≤ j) (hj1 : j < n) (hb0 : 0 ≤ b) (hb1 : b < t) :
    fromRepeatedShape num_tasks bshape = num_tasks :: bshape ∧
    ∃ perm bd, fromBatchMvnPlan ((bshape.length + 1 : Nat) : Int) (((bshape.length + 1 : Nat) : Int) + 1) fromRepeatedTaskDim
        = some (perm, bd) ∧
      permutedIdx perm (a :: β ++ [i]) = β ++ [i, a] ∧
      blockEntryB fromRepeatedMvn.1 bd.toNat n t
          (fun idx => K (expandSrc bshape.length (fromRepeatedShape num_tasks bshape) idx)) β
          (flat fromRepeatedMvn.2 n t i a) (flat fromRepeatedMvn.2 n t j b)
        = (if a = b then K β i j else 0) := by
  refine ⟨rfl, ?_⟩
  have hw : wrap ((bshape.length + 1 : Nat) : Int) fromRepeatedTaskDim = some 0 := by
    simp [fromRepeatedTaskDim, wrap]
  obtain ⟨perm, bd, hplan, hperm, hcov⟩ := gen_from_batch_mvn_entry (bshape.length + 1) fromRepeatedTaskDim 0 hw
    (fun idx => K (expandSrc bshape.length (fromRepeatedShape num_tasks bshape) idx)) β (by omega)
    hi0 hi1 ha0 ha1 hj0 hj1 hb0 hb1
  refine ⟨perm, bd, hplan, by simpa [insertAt] using hperm, ?_⟩
  have hB : fromRepeatedMvn = fromBatchMvn := rfl
  rw [hB, hcov]
  simp [insertAt, expandSrc, fromRepeatedShape]

/-! ## `to_data_independent_dist` and the base samples of `rsample` -/

/-- **gen_data_independent_entry** — entry `(i, x, y)` of the blocks `to_data_independent_dist` selects: with the
regenerated index grids and the regenerated `unsqueeze` axes, row and column are the flat positions of `(i, y)` and
`(i, x)`, i.e. the block of point `i` (transposed: immaterial for a symmetric covariance), for all `n`, `t`, both
layouts. -/
theorem gen_data_independent_entry (inter : Bool) (n t : Nat) (hn : 0 < n) (ht : 0 < t) (i x y : Nat)
    (hi : i < n) (hx : x < t) (hy : y < t) :
    (dataIndices inter n t).getD i 0 + (taskIndices inter n t).getD (diRowTask x y).toNat 0 = flat inter n t i y ∧
    (dataIndices inter n t).getD i 0 + (taskIndices inter n t).getD (diColTask x y).toNat 0 = flat inter n t i x := by
  obtain ⟨hd, htk, hadd⟩ := data_independent_blocks inter n t hn ht
  have e1 : (dataIndices inter n t).getD i 0 = flat inter n t i 0 := by
    rw [hd]; simp [List.getD_eq_getElem?_getD, hi]
  have e2 : ∀ z : Nat, z < t → (taskIndices inter n t).getD z 0 = flat inter n t 0 z := by
    intro z hz; rw [htk]; simp [List.getD_eq_getElem?_getD, hz]
  simp only [diRowTask, diColTask, Int.toNat_natCast, e1, e2 y hy, e2 x hx, hadd]
  exact ⟨trivial, trivial⟩

/-- **gen_base_samples_bijection** — `rsample(base_samples=…)` views the `n × t` base-sample matrix as the flat vector
the base class consumes: entry `(i, a)` drives flat position `i·t + a` in BOTH layouts — a bijection of
`[0, n) × [0, t)` onto `[0, n·t)` (`flat_unflat true`), so independent standard-normal base samples stay independent
standard normal; in the non-interleaved layout position `i·t + a` belongs to the variable `unflat false` of it, not to
`(i, a)` (observed through the Gram matrix of the sampling map, not a defect). -/
theorem gen_base_samples_bijection {α : Type} (inter : Bool) {n t i a : Int} (base : Int → Int → α)
    (ha0 : 0 ≤ a) (ha1 : a < t) :
    baseSamplesArg inter n t base (flat true n t i a) = base i a := by
  cases inter <;> simp [baseSamplesArg, reshapeFlat, flat, flat_div ha0 ha1, flat_mod ha0 ha1]

/-! ## non-vacuity -/

-- batch shape (2, 3), n = t = 2, non-interleaved, `d[1, ::2, 0, :]` : hypotheses of the main theorem hold, two blocks
example :
    let e : IdxExpr := .tuple [.comp (.int 1), .comp (.slice ⟨none, none, some 2⟩), .comp (.int 0), BIdx.full]
    batchBasic 2 e = true ∧ (specGetitemB false [2, 3] 2 2 e).isSome = true ∧
    evalResult [2, 3] 4 (getitemFull false 4 2 2 e) = specGetitemB false [2, 3] 2 2 e := by
  decide +kernel
-- Ellipsis in front / in the middle / at the end, a bare int on a rank-3 batch with size-1 dimensions (batch-only branch)
example : getitemIdx 4 (.tuple [.ellipsis, .comp (.int 0)]) = some [.slice PySlice.full, .slice PySlice.full, .slice PySlice.full, .int 0] := by
  decide +kernel
example : getitemIdx 4 (.tuple [.comp (.int 1), .ellipsis, .comp (.int 0)]) = some [.int 1, .slice PySlice.full, .slice PySlice.full, .int 0] := by
  decide +kernel
example : getitemIdx 5 (.bare (.comp (.int (-1)))) = some [.int (-1)] := by decide +kernel
example : getitemIdx 3 (.tuple [.ellipsis, .comp (.int 0), .ellipsis]) = none := by decide +kernel
example : (specGetitemB true [1, 3, 1] 2 2 (.bare (.comp (.int 0)))).isSome = true ∧ batchBasic 3 (.bare (.comp (.int 0))) = true := by
  decide +kernel
-- int × int over a kept batch dimension: diagonal across the batch members
example : specGetitemB true [2] 2 2 (.tuple [BIdx.full, .comp (.int 1), .comp (.int 0)])
    = some (.mvn, ⟨[], [[[some ([0], 2, 2), none], [none, some ([1], 2, 2)]]]⟩) := by decide +kernel
-- constructors: batch shape (2, 3, 4) with task_dim = -2 names batch dimension 1; the mean permutation and its effect
example : fromBatchMvnPlan 3 4 (-2) = some ([0, 2, 3, 1], 1) := by decide +kernel
example : permutedIdx [0, 2, 3, 1] (insertAt 1 7 [5, 6] ++ [9]) = [5, 6] ++ [9, 7] := by decide +kernel
example : wrap 3 (-2) = some 1 ∧ fromBatchMvnPlan 3 4 3 ≠ none ∧ fromBatchMvnPlan 3 4 4 = none := by decide +kernel
example : fromRepeatedShape 5 [2, 3] = [5, 2, 3] ∧ fromRepeatedTaskDim = 0 ∧ fromIndependentPlan = (-1, 0, 0, 0) := by decide +kernel
example : diRowTask 1 2 = 2 ∧ diColTask 1 2 = 1 := by decide +kernel
-- index tensors on two batch dimensions separated by a slice (torch moves their common dimension to the front), event part
-- slice × int: inside `getitemB_eq_spec_block_event`
example :
    let e : IdxExpr := .tuple [.comp (.list [1, 0, 1]), BIdx.full, .comp (.list [0, 2, 1]), .comp (.slice ⟨some 1, none, none⟩), .comp (.int 0)]
    eventBlock 3 e = true ∧ batchBasic 3 e = false ∧ (specGetitemB false [2, 2, 3] 3 2 e).isSome = true ∧
    evalResult [2, 2, 3] 6 (getitemFull false 5 3 2 e) = specGetitemB false [2, 2, 3] 3 2 e := by
  decide +kernel
-- a batch-only index with an index tensor
example : eventBlock 1 (.bare (.comp (.list [1, 1, 0]))) = true ∧
    (specGetitemB true [2] 1 2 (.bare (.comp (.list [1, 1, 0])))).map (fun r => r.2.batch) = some [3] := by decide +kernel

end C11

/-
C06 — diag, transpose, lazy evaluation and indexing of a kernel all agree; active_dims.

The objects are the executable definitions of `GPVerif.Model.{Bcast,PyIndex,KernelIndex}` (run by
`drivers/C06.lean`) and the generated `GPVerif.Gen.LazyIndex` (regenerated from the source on every run:
the multi-output slice division of `LazyEvaluatedKernelTensor._getitem` and the `active_dims` handling of
`Kernel.__getitem__` / `Kernel.expand_batch`).  The theorems quantify over all kernels that are pairwise
(arbitrary `κ`), all point / parameter / value types, all batch shapes and all normalised index forms.
-/
import GPVerif.Model.KernelIndex
import GPVerif.Gen.LazyIndex
import GPVerif.Bridge.BcastLemmas
import GPVerif.Bridge.PyIndexLemmas

namespace C06
open Bcast PyIndex KernelIndex Gen.LazyIndex

variable {X Θ V : Type}

/-! ### lazy `_getitem` commutes with evaluation -/

/-- **evaluate ∘ select = index ∘ evaluate** for every pairwise kernel `κ`, every batch broadcast pattern
(`p`, `x1`, `x2` carry their own batch shapes), every normalised batch index (ints and slices / index
tensor), every row and column position list (slices of any step, index tensors, ints). -/
theorem pairwise_getitem_commutes (κ : Θ → X → X → V) (bs : RShape) (p : Params Θ) (x1 x2 : Inputs X)
    (batch : List NItem) (rows cols : List Nat) (b' : RIdx) (i' j' : Nat)
    (hb : InRange b' (selShape batch)) :
    (lazyGetitem κ batch rows cols p x1 x2).get (j' :: i' :: b')
      = (indexDense batch rows cols (evalDense κ bs p x1 x2)).get (j' :: i' :: b') := by
  simp [lazyGetitem, evalDense, indexDense, Inputs.getitem, Params.getitem, bidxR_self hb]

theorem pairwise_getitem_shape (κ : Θ → X → X → V) (bs : RShape) (p : Params Θ) (x1 x2 : Inputs X)
    (batch : List NItem) (rows cols : List Nat) :
    (lazyGetitem κ batch rows cols p x1 x2).shape
      = (indexDense batch rows cols (evalDense κ bs p x1 x2)).shape := rfl

/-- the batch element that the lazy path reads exists: a valid index of the selected shape is mapped to a
valid index of the broadcast batch shape -/
theorem selIdx_inRange : ∀ {batch : List NItem} {bs : RShape} {b' : RIdx},
    ValidItems batch bs → InRange b' (selShape batch) → InRange (selIdx batch b') bs
  | [], [], b', _, h => by cases b' <;> simp_all [selShape, selIdx, InRange]
  | .pick k :: r, d :: ds, b', hv, h => by
    simp only [ValidItems] at hv
    exact ⟨hv.1, selIdx_inRange hv.2 h⟩
  | .sel l :: r, d :: ds, i :: b', hv, h => by
    simp only [ValidItems] at hv
    simp only [selShape, InRange] at h
    refine ⟨?_, selIdx_inRange hv.2 h.2⟩
    have : l.getD i 0 = l[i]'h.1 := by simp [List.getD_eq_getElem?_getD, h.1]
    rw [this]; exact hv.1 _ (List.getElem_mem _)
  | .adv l :: r, d :: ds, i :: b', hv, h => by
    simp only [ValidItems] at hv
    simp only [selShape, InRange] at h
    refine ⟨?_, selIdx_inRange hv.2 h.2⟩
    have : l.getD i 0 = l[i]'h.1 := by simp [List.getD_eq_getElem?_getD, h.1]
    rw [this]; exact hv.1 _ (List.getElem_mem _)
  | .sel l :: r, d :: ds, [], hv, h => by simp [selShape, InRange] at h
  | .adv l :: r, d :: ds, [], hv, h => by simp [selShape, InRange] at h
  | [], _ :: _, _, hv, _ => by simp [ValidItems] at hv
  | _ :: _, [], _, hv, _ => by simp [ValidItems] at hv

/-- every index expression accepted by the normaliser (ints incl. negative, slices with any start / stop /
step incl. `None`, index tensors, ellipsis, missing trailing indices) yields in-range positions, for every
shape -/
theorem normalize_valid {shape : List Nat} {items : List Item} {nit : List NItem}
    (h : normalize shape items = some nit) : ValidItems nit shape := by
  unfold normalize at h
  cases he : expandItems shape.length items with
  | none => simp [he] at h
  | some its => simp [he] at h; exact normZip_valid h

/-- non-vacuity of the hypotheses above: a valid result index of a batch selection `[1, :, [2,0]]`
(innermost-first: index tensor, full slice, int) on batch shape `(2, 2, 3)`, and valid items -/
example : InRange [1, 0] (selShape [.sel [2, 0], .sel [0, 1], .pick 1]) := by decide
example : ValidItems [.sel [2, 0], .sel [0, 1], .pick 1] [3, 2, 2] := by
  simp [ValidItems, NItem.Valid]
example : normalize [2, 3] [.int (-1), .slice (some 1) none none] = some [.pick 1, .sel [1, 2]] := by decide

/-! ### diag, transpose, repeat, stacked inputs -/

/-- `kernel(x1, x2, diag=True)` (as requested by `_diagonal`) is the diagonal of the full matrix -/
theorem diag_eq_diagonal (κ : Θ → X → X → V) (bs : RShape) (p : Params Θ) (x1 x2 : Inputs X) (b : RIdx) (i : Nat) :
    (evalDiag κ bs p x1 x2).get (i :: b) = (diagonal (evalDense κ bs p x1 x2)).get (i :: b) := by
  simp [evalDiag, diagonal, evalDense]

/-- `_transpose_nonbatch` (the lazy tensor of `(x2, x1)`) is the transpose: `K(x1,x2)ᵀ = K(x2,x1)` for
every symmetric pair function -/
theorem transpose_swap (κ : Θ → X → X → V) (hsym : ∀ θ a b, κ θ a b = κ θ b a)
    (bs : RShape) (p : Params Θ) (x1 x2 : Inputs X) (b : RIdx) (i j : Nat) :
    (evalDense κ bs p x2 x1).get (i :: j :: b) = (T.mT (evalDense κ bs p x1 x2)).get (i :: j :: b) := by
  simp [evalDense, T.mT, T.swap01, hsym]

/-- the symmetry hypothesis is satisfiable (e.g. any function of the unordered pair) -/
example : ∀ (θ a b : Nat), (fun (t x y : Nat) => (t, min x y, max x y)) θ a b
    = (fun (t x y : Nat) => (t, min x y, max x y)) θ b a := by
  intro θ a b; simp [Nat.min_comm, Nat.max_comm]

/-- multi-output version: tasks are swapped together with the points -/
theorem transpose_swap_multi (κ : Θ → X → X → Nat → Nat → V) (hsym : ∀ θ a b s u, κ θ a b s u = κ θ b a u s)
    (t : Nat) (bs : RShape) (p : Params Θ) (x1 x2 : Inputs X) (b : RIdx) (r c : Nat) :
    (evalDenseMulti κ t bs p x2 x1).get (r :: c :: b) = (T.mT (evalDenseMulti κ t bs p x1 x2)).get (r :: c :: b) := by
  simp [evalDenseMulti, T.mT, T.swap01, hsym]

/-- `LazyEvaluatedKernelTensor.repeat` (repeat the rows of `x1` / `x2`) tiles the matrix -/
theorem repeat_commutes (κ : Θ → X → X → V) (bs : RShape) (p : Params Θ) (x1 x2 : Inputs X) (r c : Nat)
    (b : RIdx) (i j : Nat) :
    (evalDense κ bs p (x1.repeatRows r) (x2.repeatRows c)).get (j :: i :: b)
      = (evalDense κ bs p x1 x2).get (j % x2.n :: i % x1.n :: b) := by
  simp [evalDense, Inputs.repeatRows]

/-- the four blocks of `K` on stacked inputs are the separately computed blocks -/
theorem blocks_of_stacked (κ : Θ → X → X → V) (bs : RShape) (p : Params Θ) (xa xb ya yb : Inputs X)
    (hx : xb.bshape = xa.bshape) (hy : yb.bshape = ya.bshape) (b : RIdx) (i j : Nat) :
    (evalDense κ bs p (xa.cat xb) (ya.cat yb)).get (j :: i :: b) =
      if i < xa.n then
        (if j < ya.n then (evalDense κ bs p xa ya).get (j :: i :: b)
         else (evalDense κ bs p xa yb).get ((j - ya.n) :: i :: b))
      else
        (if j < ya.n then (evalDense κ bs p xb ya).get (j :: (i - xa.n) :: b)
         else (evalDense κ bs p xb yb).get ((j - ya.n) :: (i - xa.n) :: b)) := by
  by_cases hi : i < xa.n <;> by_cases hj : j < ya.n <;> simp [evalDense, Inputs.cat, hi, hj, hx, hy]

/-! ### multi-output kernels: the generated slice division -/

/-- `start or 0` is harmless: the only value it rewrites is `0 ↦ 0` -/
theorem pyOr_zero (s : Option Int) : pyOr s 0 = s.getD 0 := by
  cases s with
  | none => rfl
  | some v => by_cases hv : v = 0 <;> simp [pyOr, hv]

/-- **The generated code of the multi-output branch is right whenever it does not fall back**: both slices
have no step, and a row `r` of the `(n·t)` axis is selected by the user's slice exactly when its point
`r / t` is selected by the divided slice that the code applies to `x1` (hence all `t` tasks of the selected
points and nothing else) — for all sizes, all `t ≥ 1`, all start / stop values including `None`, negative
and out-of-range ones.  On the unrepaired source (`row_index.stop or self.shape[-2]`) this statement is
false for `stop = 0` and the proof does not go through. -/
theorem multiout_slice_div_correct {n1 n2 tr tc : Nat} (htr : 0 < tr) (htc : 0 < tc)
    {rowSl colSl : Sl} {ris cis : Bool} {a b c d : Int}
    (h : divide rowSl colSl ris cis ((n1 * tr : Nat) : Int) ((n2 * tc : Nat) : Int) tr tc = some ((a, b), (c, d))) :
    rowSl.2.2 = none ∧ colSl.2.2 = none ∧ ris = true ∧ cis = true ∧
    (∀ r : Nat, r < n1 * tr → (InSlice (n1 * tr) rowSl.1 rowSl.2.1 r ↔ InSlice n1 (some a) (some b) (r / tr))) ∧
    (∀ r : Nat, r < n2 * tc → (InSlice (n2 * tc) colSl.1 colSl.2.1 r ↔ InSlice n2 (some c) (some d) (r / tc))) := by
  obtain ⟨rs, re, rst⟩ := rowSl
  obtain ⟨cs, ce, cst⟩ := colSl
  simp only [divide] at h
  split at h
  · exact absurd h (by simp)
  rename_i h1
  split at h
  · exact absurd h (by simp)
  rename_i h2
  split at h
  · exact absurd h (by simp)
  rename_i h3
  simp [fallbackNonSlice] at h1
  simp [fallbackStep, rowStep, colStep] at h2
  simp [fallbackMod, rowStart, rowEnd, colStart, colEnd, truthy] at h3
  simp only [newRowStart, newRowStop, newColStart, newColStop, rowStart, rowEnd, colStart, colEnd,
    Option.some.injEq, Prod.mk.injEq] at h
  obtain ⟨⟨rfl, rfl⟩, rfl, rfl⟩ := h
  obtain ⟨⟨⟨m1, m2⟩, m3⟩, m4⟩ := h3
  rw [← Int.natCast_mul] at m3 m4
  refine ⟨h2.1, h2.2, h1.1, h1.2, ?_, ?_⟩
  · intro r hr
    exact axis_div n1 tr htr rs re _ _ (pyOr_zero rs) rfl m1 m3 r hr
  · intro r hr
    exact axis_div n2 tc htc cs ce _ _ (pyOr_zero cs) rfl m2 m4 r hr

/-- the hypotheses are satisfiable: `K[2:4, :4]` with `t = 2` on 3 × 4 points divides to `x1[1:2]`, `x2[0:2]` -/
example : divide (some 2, some 4, none) (none, some 4, none) true true ((3 * 2 : Nat) : Int) ((4 * 2 : Nat) : Int) 2 2
    = some ((1, 2), (0, 2)) := by decide

/-- … and an unaligned slice falls back -/
example : divide (some 1, some 4, none) (none, none, none) true true 6 8 2 2 = none := by decide

/-- rows of the lazily divided multi-output tensor: entry `(r', c')` of the kernel evaluated on the selected
points is entry `(multiRows …[r'], multiRows …[c'])` of the full multi-output matrix -/
theorem multiout_lazy_rows (κ : Θ → X → X → Nat → Nat → V) (t : Nat) (ht : 0 < t) (bs : RShape)
    (p : Params Θ) (x1 x2 : Inputs X) (batch : List NItem) (pts1 pts2 : List Nat) (b' : RIdx) (r' c' : Nat)
    (hb : InRange b' (selShape batch)) (hr : r' < pts1.length * t) (hc : c' < pts2.length * t) :
    (evalDenseMulti κ t (selShape batch) (p.getitem batch) (x1.getitem batch pts1) (x2.getitem batch pts2)).get
        (c' :: r' :: b')
      = (evalDenseMulti κ t bs p x1 x2).get
        ((multiRows t pts2).getD c' 0 :: (multiRows t pts1).getD r' 0 :: selIdx batch b') := by
  simp only [evalDenseMulti, Inputs.getitem, Params.getitem, List.getD_cons_zero, List.getD_cons_succ,
    List.drop_succ_cons, List.drop_zero, bidxR_self hb, multiRows_getD t ht pts1 r' hr, multiRows_getD t ht pts2 c' hc]
  have e1 : (pts1.getD (r' / t) 0 * t + r' % t) / t = pts1.getD (r' / t) 0 := by
    rw [Nat.mul_comm, Nat.mul_add_div ht, Nat.div_eq_of_lt (Nat.mod_lt _ ht), Nat.add_zero]
  have e2 : (pts1.getD (r' / t) 0 * t + r' % t) % t = r' % t := by
    rw [Nat.mul_comm, Nat.mul_add_mod, Nat.mod_mod]
  have e3 : (pts2.getD (c' / t) 0 * t + c' % t) / t = pts2.getD (c' / t) 0 := by
    rw [Nat.mul_comm, Nat.mul_add_div ht, Nat.div_eq_of_lt (Nat.mod_lt _ ht), Nat.add_zero]
  have e4 : (pts2.getD (c' / t) 0 * t + c' % t) % t = c' % t := by
    rw [Nat.mul_comm, Nat.mul_add_mod, Nat.mod_mod]
  rw [e1, e2, e3, e4]

/-! ### active_dims, `Kernel.__getitem__`, `Kernel.expand_batch` (flags generated from the source) -/

/-- **Indexing the batch of a kernel leaves its column selection intact** — about the *generated* flag: on
the unrepaired source `getitemIndexesActiveDims = true` and this does not hold. -/
theorem activeDims_commutes_with_batch_index (k : KernelState Θ) (batch : List NItem) :
    (k.getitem getitemIndexesActiveDims batch).activeDims = k.activeDims := by
  simp [KernelState.getitem, getitemIndexesActiveDims]

/-- `kernel[idx](x1[idx], x2[idx])` is slice `idx` of the batched result, also with `active_dims` -/
theorem kernel_getitem_eval {α : Type} [Inhabited α] (κ : Θ → List α → List α → V) (bs : RShape)
    (k : KernelState Θ) (x1 x2 : Inputs (List α)) (batch : List NItem) (rows cols : List Nat)
    (b' : RIdx) (i' j' : Nat) (hb : InRange b' (selShape batch)) :
    (evalActive κ (selShape batch) (k.getitem getitemIndexesActiveDims batch)
        (x1.getitem batch rows) (x2.getitem batch cols)).get (j' :: i' :: b')
      = (indexDense batch rows cols (evalActive κ bs k x1 x2)).get (j' :: i' :: b') := by
  unfold evalActive
  rw [activeDims_commutes_with_batch_index]
  exact pairwise_getitem_commutes _ bs k.params x1 x2 batch rows cols b' i' j' hb

theorem expandBatch_keeps_activeDims (k : KernelState Θ) (bs : RShape) :
    (k.expandBatch expandBatchExpandsActiveDims bs).activeDims = k.activeDims := by
  simp [KernelState.expandBatch, expandBatchExpandsActiveDims]

/-- `kernel.expand_batch(bs)` evaluates to the same tensor (on the batch shape `bs`) -/
theorem expandBatch_eval {α : Type} [Inhabited α] (κ : Θ → List α → List α → V) (bs : RShape)
    (k : KernelState Θ) (x1 x2 : Inputs (List α)) (b : RIdx) (i j : Nat) (hb : InRange b bs) :
    (evalActive κ bs (k.expandBatch expandBatchExpandsActiveDims bs) x1 x2).get (j :: i :: b)
      = (evalActive κ bs k x1 x2).get (j :: i :: b) := by
  unfold evalActive
  rw [expandBatch_keeps_activeDims]
  simp [evalDense, KernelState.expandBatch, bidxR_self hb]

/-- the column selection itself: `selectDims` reads exactly the listed columns, in order -/
theorem selectDims_get {α : Type} [Inhabited α] (l : List Nat) (x : List α) (c : Nat) (hc : c < l.length) :
    (selectDims (some l) x).getD c default = x.getD (l[c]) default := by
  simp [selectDims, List.getD_eq_getElem?_getD, hc]

/-- non-vacuity: a batched kernel state with an `active_dims` buffer, indexed by an int -/
example : ((⟨⟨[2], fun b => b.getD 0 0⟩, some [0, 2]⟩ : KernelState Nat).getitem getitemIndexesActiveDims
    [.pick 1]).activeDims = some [0, 2] := by decide

/-! ### slice / int normalisation (all lengths) -/

theorem normInt_lt {n : Nat} {k : Int} {r : Nat} (h : normInt n k = some r) : r < n := PyIndex.normInt_lt h

theorem normInt_nonneg {n : Nat} {k : Int} (h0 : 0 ≤ k) (h1 : k < n) : normInt n k = some k.toNat := by
  simp [normInt, h0, h1]

/-- a negative index `k` is the index `k + n` -/
theorem normInt_neg {n : Nat} {k : Int} (h0 : -(n : Int) ≤ k) (h1 : k < 0) : normInt n k = normInt n (k + n) := by
  have e1 : ¬ (0 ≤ k ∧ k < n) := by omega
  have e2 : (0 ≤ k + n ∧ k + n < n) := by omega
  simp [normInt, e1, e2, h0, h1]

theorem normInt_none_iff {n : Nat} {k : Int} : normInt n k = none ↔ (k < -(n : Int) ∨ (n : Int) ≤ k) := by
  unfold normInt
  split
  · simp; omega
  · split
    · simp; omega
    · simp; omega

/-- every position produced by a slice (any start / stop / step ≠ 0, `None` anywhere) is in range -/
theorem slicePositions_lt {n : Nat} {s e st : Option Int} {l : List Nat}
    (h : slicePositions n s e st = some l) : ∀ r ∈ l, r < n := PyIndex.slicePositions_lt h

/-- a step-less slice selects exactly the interval given by `slice.indices` -/
theorem slicePositions_step1 {n : Nat} {s e : Option Int} {l : List Nat}
    (h : slicePositions n s e none = some l) (r : Nat) : r ∈ l ↔ InSlice n s e r := PyIndex.mem_slicePositions_step1 h r

/-- a full slice selects everything, in order -/
theorem slicePositions_full (n : Nat) : slicePositions n none none none = some (List.range n) :=
  PyIndex.slicePositions_full n

end C06

/-
C16 — under `observation_nan_policy` `mask` / `fill` every quantity computed from targets with missing
entries equals the quantity computed after deleting those observations.

Statements are about the executable definitions of `GPVerif/Model/ExactGP.lean` that `drivers/C16.lean`
runs; `obsIdx obs` is the model's own enumeration of the observed indices (`obsIdx_enumerates`), so no
hypothesis about the index bookkeeping is left open.  "After deletion" has two readings, both covered:
data level (`mask_eq_delete`: the masked pieces *are* the pieces of the model built on the observed inputs
only) and closed form (`… = mt + K*o (Aoo)⁻¹ r_o`, `K** − K*o (Aoo)⁻¹ Ko*`).
-/
import GPVerif.Bridge.NanMask
import GPVerif.Bridge.GenAlgebra
import Mathlib.Tactic.FieldSimp
import Mathlib.Tactic.Ring

open Matrix

namespace C16
open ExactGP

variable {n s p : Nat} {α : Type} [Field α]

/-! ### mask -/

/-- **mask = delete, data level.**  For a covariance *function* `kf`, mean function `mf`, per-observation
noise `σ` and targets `y`: every masked piece (train–train matrix with noise, residual, test–train block) is
literally the corresponding piece of the model built on the observed inputs `X ∘ obsIdx` only.  Hence every
quantity computed from the masked pieces (solves, predictions, MLL) is the deleted-data quantity. -/
theorem mask_eq_delete {ι : Type} (kf : ι → ι → α) (mf : ι → α) (X : Fin n → ι) (Xt : Fin s → ι)
    (σ y : Fin n → α) (obs : Fin n → Bool) :
    maskSub (marginal (gram kf X) (DMat.diagonal σ)) obs
        = marginal (gram kf (X ∘ obsIdx obs)) (DMat.diagonal (σ ∘ obsIdx obs)) ∧
      maskRows (residual (colVec y) (colVec (mf ∘ X))) obs
        = residual (colVec (y ∘ obsIdx obs)) (colVec (mf ∘ X ∘ obsIdx obs)) ∧
      maskCols (cross kf Xt X) obs = cross kf Xt (X ∘ obsIdx obs) := by
  have hinj := (obsIdx_enumerates obs).inj
  refine ⟨?_, ?_, ?_⟩ <;> apply DMat.toMatrix_injective <;> ext i j
  · simp [maskSub, marginal, gram, Matrix.diagonal_apply, hinj.eq_iff]
  · simp [maskRows, residual, colVec]
  · simp [maskCols, cross]

/-- The masked mean cache of the code *is* the mean cache of the deleted-data model (same executable
function applied to the deleted pieces). -/
theorem meanCacheMask_eq_delete [DecidableEq α] {ι : Type} (kf : ι → ι → α) (mf : ι → α) (X : Fin n → ι)
    (σ y : Fin n → α) (obs : Fin n → Bool) :
    meanCacheMask (marginal (gram kf X) (DMat.diagonal σ)) (residual (colVec y) (colVec (mf ∘ X))) obs
      = meanCache (marginal (gram kf (X ∘ obsIdx obs)) (DMat.diagonal (σ ∘ obsIdx obs)))
          (residual (colVec (y ∘ obsIdx obs)) (colVec (mf ∘ X ∘ obsIdx obs))) := by
  obtain ⟨h1, h2, _⟩ := mask_eq_delete kf mf X (fun i : Fin 0 => i.elim0) σ y obs
  simp only [meanCacheMask, h1, h2]

/-- Predictive mean under `mask` = closed form on the observed block. -/
theorem pred_mean_mask_eq_delete [DecidableEq α] (A : DMat n n α) (r : DMat n 1 α) (mt : DMat s 1 α)
    (Kts : DMat s n α) (obs : Fin n → Bool) (a : DMat (nObs obs) 1 α) (h : meanCacheMask A r obs = some a) :
    (predMeanMask mt Kts obs a).toMatrix
      = mt.toMatrix + Kts.toMatrix.submatrix id (obsIdx obs)
          * (A.toMatrix.submatrix (obsIdx obs) (obsIdx obs))⁻¹ * r.toMatrix.submatrix (obsIdx obs) id := by
  simp only [meanCacheMask, meanCache, Option.map_eq_some_iff] at h
  obtain ⟨X, hX, rfl⟩ := h
  have := DMat.inv?_correct hX
  simp only [maskSub, DMat.toMatrix_submatrix] at this
  simp [predMeanMask, predMean, meanCacheOf, maskCols, maskRows, this, Matrix.mul_assoc]

/-! ### fill -/

/-- **fill = delete (the solve).**  Zeroing the rows/columns of the missing entries while keeping their
diagonal decouples them: for *any* right-hand side `B` (one column: the mean cache; `s` columns: the
covariance correction), any fill value `c` and any kept diagonal entries, the observed rows of
`(fill A)⁻¹ · fillRows B c` are `(Aoo)⁻¹ B_o`. -/
theorem fill_eq_delete [DecidableEq α] (A : DMat n n α) (B : DMat n p α) (obs : Fin n → Bool) (c : α)
    (Z : DMat n p α) (h : solve? (fill A obs) (fillRows B obs c) = some Z)
    (hoo : IsUnit (A.toMatrix.submatrix (obsIdx obs) (obsIdx obs)).det) :
    Z.toMatrix.submatrix (obsIdx obs) id
      = (A.toMatrix.submatrix (obsIdx obs) (obsIdx obs))⁻¹ * B.toMatrix.submatrix (obsIdx obs) id := by
  have he := obsIdx_enumerates obs
  simp only [solve?, Option.map_eq_some_iff] at h
  obtain ⟨X, hX, rfl⟩ := h
  have hmul : (fill A obs).toMatrix * (X.mul (fillRows B obs c)).toMatrix = (fillRows B obs c).toMatrix := by
    rw [DMat.toMatrix_mul, ← Matrix.mul_assoc, DMat.inv?_mul hX, Matrix.one_mul]
  have hrows := congrArg (fun M => M.submatrix (obsIdx obs) id) hmul
  simp only [toMatrix_fill, toMatrix_fillRows] at hrows
  rw [fillM_mul_observed _ he, fillRows_observed _ he] at hrows
  rw [← hrows, Matrix.nonsing_inv_mul_cancel_left _ _ hoo]

/-- "Don't touch the diagonal to ensure a unique solution": the filled matrix has determinant
`det(A_oo) · ∏_{missing} A_ii`, so the filled system is uniquely solvable exactly when the observed block is
invertible and the kept diagonal entries of the missing rows are non-zero. -/
theorem fill_unique_solution (A : DMat n n α) (obs : Fin n → Bool) :
    (fill A obs).toMatrix.det = (A.toMatrix.submatrix (obsIdx obs) (obsIdx obs)).det
        * ∏ j : {i // ¬ obs i = true}, A.toMatrix j.1 j.1 ∧
    (IsUnit (fill A obs).toMatrix.det ↔ IsUnit (A.toMatrix.submatrix (obsIdx obs) (obsIdx obs)).det ∧
        ∀ i, obs i = false → A.toMatrix i i ≠ 0) := by
  have hd : (fill A obs).toMatrix.det = (A.toMatrix.submatrix (obsIdx obs) (obsIdx obs)).det
      * ∏ j : {i // ¬ obs i = true}, A.toMatrix j.1 j.1 := by
    rw [toMatrix_fill, fillM_det, det_submatrix_enumerates _ (obsIdx_enumerates obs)]
  refine ⟨hd, ?_⟩
  rw [hd, isUnit_iff_ne_zero, isUnit_iff_ne_zero, mul_ne_zero_iff, Finset.prod_ne_zero_iff]
  constructor
  · rintro ⟨h1, h2⟩
    exact ⟨h1, fun i hi => h2 ⟨i, by simp [hi]⟩ (Finset.mem_univ _)⟩
  · rintro ⟨h1, h2⟩
    exact ⟨h1, fun j _ => h2 j.1 (by simpa using j.2)⟩

/-- Predictive mean under `fill` = closed form on the observed block, whatever the two fill values. -/
theorem pred_mean_fill_eq_delete [DecidableEq α] (A : DMat n n α) (r : DMat n 1 α) (mt : DMat s 1 α)
    (Kts : DMat s n α) (obs : Fin n → Bool) (c c' : α) (a : DMat n 1 α) (h : meanCacheFill A r obs c = some a)
    (hoo : IsUnit (A.toMatrix.submatrix (obsIdx obs) (obsIdx obs)).det) :
    (predMeanFill mt Kts obs a c').toMatrix
      = mt.toMatrix + Kts.toMatrix.submatrix id (obsIdx obs)
          * (A.toMatrix.submatrix (obsIdx obs) (obsIdx obs))⁻¹ * r.toMatrix.submatrix (obsIdx obs) id := by
  have he := obsIdx_enumerates obs
  have hs : solve? (fill A obs) (fillRows r obs c) = some a := by
    simpa [meanCacheFill, meanCache, solve?, meanCacheOf] using h
  have ha := fill_eq_delete A r obs c a hs hoo
  simp only [predMeanFill, predMean, DMat.toMatrix_add, DMat.toMatrix_mul, toMatrix_zeroCols, toMatrix_fillRows]
  rw [zeroCols_mul _ he, fillRows_observed _ he, ha, Matrix.mul_assoc]

/-! ### covariance (the behaviour the property demands of `exact_predictive_covar`) -/

/-- **Predictive covariance under `mask` and under `fill` = the deleted-data conditional covariance**
`K** − K*o (Aoo)⁻¹ Ko*`.  This is a theorem about the model's `predCovarMask` / `predCovarFill`; the
pristine `exact_predictive_covar` computes `predCovarIgnoringPolicy` instead (see the example below and
docs/C16.md) — the correspondence check compares the implementation with these functions. -/
theorem pred_covar_nan_eq_delete [DecidableEq α] (Ktt : DMat s s α) (Kts : DMat s n α) (A : DMat n n α)
    (obs : Fin n → Bool) (hoo : IsUnit (A.toMatrix.submatrix (obsIdx obs) (obsIdx obs)).det) :
    (∀ C, predCovarMask Ktt Kts A obs = some C →
        C.toMatrix = Ktt.toMatrix - Kts.toMatrix.submatrix id (obsIdx obs)
          * (A.toMatrix.submatrix (obsIdx obs) (obsIdx obs))⁻¹ * (Kts.toMatrix.submatrix id (obsIdx obs))ᵀ) ∧
    (∀ C, predCovarFill Ktt Kts A obs = some C →
        C.toMatrix = Ktt.toMatrix - Kts.toMatrix.submatrix id (obsIdx obs)
          * (A.toMatrix.submatrix (obsIdx obs) (obsIdx obs))⁻¹ * (Kts.toMatrix.submatrix id (obsIdx obs))ᵀ) := by
  have he := obsIdx_enumerates obs
  constructor
  · intro C h
    simp only [predCovarMask, predCovarSolve, solve?, Option.map_eq_some_iff] at h
    obtain ⟨_, ⟨X, hX, rfl⟩, rfl⟩ := h
    have := DMat.inv?_correct hX
    simp only [maskSub, DMat.toMatrix_submatrix] at this
    simp [predCovarOfSolve, maskCols, this, Matrix.mul_assoc]
  · intro C h
    simp only [predCovarFill, predCovarSolve, Option.map_eq_some_iff] at h
    obtain ⟨Z, hZ, rfl⟩ := h
    -- the right-hand side `zeroCols(Kts)ᵀ` is its own `fillRows … 0`
    have hB : (zeroCols Kts obs).transpose = fillRows (Kts.transpose) obs 0 := by
      apply DMat.toMatrix_injective; ext i j; simp [Matrix.transpose_apply]
    rw [hB] at hZ
    have hz := fill_eq_delete A Kts.transpose obs 0 Z hZ hoo
    simp only [predCovarOfSolve, DMat.toMatrix_sub, DMat.toMatrix_mul, toMatrix_zeroCols]
    rw [zeroCols_mul _ he, hz, ← Matrix.mul_assoc]
    simp [Matrix.transpose_submatrix]

/-! ### batches of targets: `fill` is per element, `mask` deletes the pattern reduced over the batch -/

section batch
variable {B : Nat}

/-- `_get_observed` on a batch: an entry is observed iff it is observed in every batch element. -/
theorem obsUnion_iff (obs : Fin B → Fin n → Bool) (i : Fin n) :
    obsUnion obs i = true ↔ ∀ b, obs b i = true := by
  simp [obsUnion, List.all_eq_true]

/-- **`fill` on a batch is judged per element**: element `b` of the batched predictive mean and covariance under
`fill` equals the deleted-data value for ITS OWN pattern `obs b` — whatever is missing in the other batch elements
(corollary of `pred_mean_fill_eq_delete` / `pred_covar_nan_eq_delete`). -/
theorem fill_batch_elementwise [DecidableEq α] (A : Fin B → DMat n n α) (r : Fin B → DMat n 1 α)
    (mt : Fin B → DMat s 1 α) (Kts : Fin B → DMat s n α) (Ktt : Fin B → DMat s s α) (obs : Fin B → Fin n → Bool)
    (c c' : α) (b : Fin B)
    (hoo : IsUnit ((A b).toMatrix.submatrix (obsIdx (obs b)) (obsIdx (obs b))).det) :
    (∀ m, predMeanFillBatch A r mt Kts obs c c' b = some m →
        m.toMatrix = (mt b).toMatrix + (Kts b).toMatrix.submatrix id (obsIdx (obs b))
          * ((A b).toMatrix.submatrix (obsIdx (obs b)) (obsIdx (obs b)))⁻¹
          * (r b).toMatrix.submatrix (obsIdx (obs b)) id) ∧
    (∀ C, predCovarFillBatch Ktt Kts A obs b = some C →
        C.toMatrix = (Ktt b).toMatrix - (Kts b).toMatrix.submatrix id (obsIdx (obs b))
          * ((A b).toMatrix.submatrix (obsIdx (obs b)) (obsIdx (obs b)))⁻¹
          * ((Kts b).toMatrix.submatrix id (obsIdx (obs b)))ᵀ) := by
  constructor
  · intro m h
    simp only [predMeanFillBatch, Option.map_eq_some_iff] at h
    obtain ⟨a, ha, rfl⟩ := h
    exact pred_mean_fill_eq_delete (A b) (r b) (mt b) (Kts b) (obs b) c c' a ha hoo
  · intro C h
    exact (pred_covar_nan_eq_delete (Ktt b) (Kts b) (A b) (obs b) hoo).2 C h

/-- `mask` on a batch deletes, in every element, the entries missing in ANY element (`obsUnion`; the documented
behaviour of `_get_observed`). -/
theorem mask_batch_deletes_union [DecidableEq α] (A : Fin B → DMat n n α) (r : Fin B → DMat n 1 α)
    (mt : Fin B → DMat s 1 α) (Kts : Fin B → DMat s n α) (Ktt : Fin B → DMat s s α) (obs : Fin B → Fin n → Bool)
    (b : Fin B)
    (hoo : IsUnit ((A b).toMatrix.submatrix (obsIdx (obsUnion obs)) (obsIdx (obsUnion obs))).det) :
    (∀ m, predMeanMaskBatch A r mt Kts obs b = some m →
        m.toMatrix = (mt b).toMatrix + (Kts b).toMatrix.submatrix id (obsIdx (obsUnion obs))
          * ((A b).toMatrix.submatrix (obsIdx (obsUnion obs)) (obsIdx (obsUnion obs)))⁻¹
          * (r b).toMatrix.submatrix (obsIdx (obsUnion obs)) id) ∧
    (∀ C, predCovarMaskBatch Ktt Kts A obs b = some C →
        C.toMatrix = (Ktt b).toMatrix - (Kts b).toMatrix.submatrix id (obsIdx (obsUnion obs))
          * ((A b).toMatrix.submatrix (obsIdx (obsUnion obs)) (obsIdx (obsUnion obs)))⁻¹
          * ((Kts b).toMatrix.submatrix id (obsIdx (obsUnion obs)))ᵀ) := by
  constructor
  · intro m h
    simp only [predMeanMaskBatch, Option.map_eq_some_iff] at h
    obtain ⟨a, ha, rfl⟩ := h
    exact pred_mean_mask_eq_delete (A b) (r b) (mt b) (Kts b) (obsUnion obs) a ha
  · intro C h
    exact (pred_covar_nan_eq_delete (Ktt b) (Kts b) (A b) (obsUnion obs) hoo).1 C h

end batch

/-! ### MLL -/

/-- The `mask` MLL is computed from the deleted-data pieces but divided by the *full* count `N`; the
deleted-data MLL divides by the observed count.  Hence `N · mll_mask = n_obs · mll_deleted` (the documented
rescaling), for any `log`, any `log 2π`. -/
theorem mll_mask_rescaled (L : α → α) (c2pi quad det : α) (cnt N : Nat) (hN : (N : α) ≠ 0) (hc : (cnt : α) ≠ 0) :
    (N : α) * mllOf L c2pi quad det cnt N = (cnt : α) * mllOf L c2pi quad det cnt cnt := by
  unfold mllOf
  field_simp

/-- The exact pieces of the masked MLL (`quad`, the matrix whose determinant is taken, the count) are those of
the deleted-data model. -/
theorem mll_mask_pieces_eq_delete {ι : Type} (kf : ι → ι → α) (mf : ι → α) (X : Fin n → ι) (σ y : Fin n → α)
    (obs : Fin n → Bool) (Xo : DMat (nObs obs) (nObs obs) α) :
    quadForm Xo (maskRows (residual (colVec y) (colVec (mf ∘ X))) obs)
      = quadForm Xo (residual (colVec (y ∘ obsIdx obs)) (colVec (mf ∘ X ∘ obsIdx obs))) ∧
    (maskSub (marginal (gram kf X) (DMat.diagonal σ)) obs).toMatrix.det
      = (marginal (gram kf (X ∘ obsIdx obs)) (DMat.diagonal (σ ∘ obsIdx obs))).toMatrix.det := by
  obtain ⟨h1, h2, _⟩ := mask_eq_delete kf mf X (fun i : Fin 0 => i.elim0) σ y obs
  rw [h1, h2]
  exact ⟨rfl, rfl⟩

/-! ### expected_log_prob / log_marginal terms -/

/-- Under `mask` the per-point terms are the deleted-data terms (computed from restricted inputs). -/
theorem elp_mask_eq_delete (L : α → α) (c2pi : α) (y mu v s2 : Fin n → α) (obs : Fin n → Bool) (a : Fin (nObs obs)) :
    elpMask L c2pi y mu v s2 obs a
      = elpTerm L c2pi ((y ∘ obsIdx obs) a) ((mu ∘ obsIdx obs) a) ((v ∘ obsIdx obs) a) ((s2 ∘ obsIdx obs) a) := rfl

/-- Under `fill` observed entries carry the deleted-data term and missing entries contribute exactly 0,
whatever the fill value. -/
theorem elp_fill_zeroes_missing (L : α → α) (c2pi : α) (y mu v s2 : Fin n → α) (obs : Fin n → Bool) (c : α)
    (i : Fin n) :
    elpFill L c2pi y mu v s2 obs c i = if obs i then elpTerm L c2pi (y i) (mu i) (v i) (s2 i) else 0 := by
  unfold elpFill
  by_cases h : obs i = true <;> simp [h]

/-! ### order of policies on one model object -/

/-- The cache is keyed by the policy: whatever sequence of policies was used before on the same object
(starting from a consistent table, e.g. the empty one), the value handed out under policy `p` is the value
computed for `p`. -/
theorem policy_cache_keys_disjoint {β : Type} (compute : Policy → β) (ps : List Policy) (m : Memo β)
    (hm : ∀ q v, m q = some v → v = compute q) :
    Memo.run compute m ps = ps.map compute := by
  induction ps generalizing m with
  | nil => rfl
  | cons p ps ih =>
    simp only [Memo.run, List.map_cons]
    have hv : (Memo.read compute m p).1 = compute p := by
      unfold Memo.read; split
      · rename_i v hv; exact hm p v hv
      · rfl
    have hm' : ∀ q v, (Memo.read compute m p).2 q = some v → v = compute q := by
      intro q v
      unfold Memo.read; split
      · exact hm q v
      · simp only
        split
        · rename_i hq; subst hq; intro h; exact (Option.some.inj h).symm
        · exact hm q v
    rw [hv, ih _ hm']

/-! ### The regenerated code (`GPVerif/Gen/ExactAlgebra.lean`, translator G7) deletes the missing observations

Corollaries about the expressions extracted on every run from the Python AST of `_mean_cache` (mask / fill
branches), `exact_predictive_mean`, `exact_predictive_covar` and `_exact_predictive_covar_missing_obs`; these are
what `drivers/C16.lean` executes. -/

section generated
open Gen.ExactAlgebra
variable {k : Nat}

/-- The generated mean-cache branches are the model's `meanCache` / `meanCacheMask` / `meanCacheFill`. -/
theorem gen_mean_cache_eq [DecidableEq α] (cfg : Cfg) (A : DMat n n α) (mx y : DMat n 1 α) (obs : Fin n → Bool) (c : α) :
    mean_cache_ignore cfg A mx y = meanCache A (residual y mx) ∧
      mean_cache_mask cfg A mx y obs = meanCacheMask A (residual y mx) obs ∧
      mean_cache_fill cfg A mx y obs c = meanCacheFill A (residual y mx) obs c := by
  refine ⟨?_, ?_, ?_⟩ <;>
    simp [mean_cache_ignore, mean_cache_mask, mean_cache_fill, meanCache, meanCacheMask, meanCacheFill, solve?,
      meanCacheOf, residual, Option.map_eq_bind]

/-- Generated `exact_predictive_mean` under `mask` and under `fill` = deleted-data conditional mean. -/
theorem gen_mean_missing_obs_eq_delete [DecidableEq α] (cfg : Cfg) (hp : cfg.policy ≠ Policy.ignore) (mt : DMat s 1 α)
    (Kts : DMat s n α) (A : DMat n n α) (mx y : DMat n 1 α) (obs : Fin n → Bool) (c : α) (m : DMat s 1 α)
    (hoo : IsUnit (A.toMatrix.submatrix (obsIdx obs) (obsIdx obs)).det)
    (h : exact_predictive_mean cfg mt Kts A mx y obs c = some m) :
    m.toMatrix = mt.toMatrix + Kts.toMatrix.submatrix id (obsIdx obs)
        * (A.toMatrix.submatrix (obsIdx obs) (obsIdx obs))⁻¹ * (y.toMatrix - mx.toMatrix).submatrix (obsIdx obs) id := by
  simp only [exact_predictive_mean, hp, if_false] at h
  split_ifs at h
  · simp only [Option.bind_eq_bind, Option.bind_eq_some_iff, Option.pure_def] at h
    obtain ⟨x, hx, hm⟩ := h
    have hx' : meanCacheMask A (residual y mx) obs = some x := by
      simpa [meanCacheMask, meanCache, solve?, meanCacheOf, residual] using hx
    have := pred_mean_mask_eq_delete A (residual y mx) mt Kts obs x hx'
    rw [← Option.some.inj hm]
    simp only [predMeanMask, predMean, residual, DMat.toMatrix_add, DMat.toMatrix_sub] at this ⊢
    rw [add_comm]; exact this
  · simp only [Option.bind_eq_bind, Option.bind_eq_some_iff, Option.pure_def] at h
    obtain ⟨x, hx, hm⟩ := h
    have hx' : meanCacheFill A (residual y mx) obs c = some x := by
      simpa [meanCacheFill, meanCache, solve?, meanCacheOf, residual] using hx
    have := pred_mean_fill_eq_delete A (residual y mx) mt Kts obs c c x hx' hoo
    rw [← Option.some.inj hm]
    simp only [predMeanFill, predMean, residual, DMat.toMatrix_add, DMat.toMatrix_sub] at this ⊢
    rw [add_comm]; exact this

/-- Generated `_exact_predictive_covar_missing_obs` (both policies), and generated `exact_predictive_covar` whenever
the policy is not `ignore` (with or without `fast_pred_var`), = deleted-data conditional covariance. -/
theorem gen_covar_missing_obs_eq_delete [DecidableEq α] (cfg : Cfg) (hp : cfg.policy ≠ Policy.ignore)
    (hs : cfg.skip = false) (Ktt : DMat s s α) (Kts : DMat s n α) (A : DMat n n α) (R : DMat n k α)
    (obs : Fin n → Bool) (hoo : IsUnit (A.toMatrix.submatrix (obsIdx obs) (obsIdx obs)).det) (C : DMat s s α)
    (h : exact_predictive_covar_missing_obs cfg Ktt Kts A obs = some C ∨
         exact_predictive_covar cfg Ktt Kts A R obs = some C) :
    C.toMatrix = Ktt.toMatrix - Kts.toMatrix.submatrix id (obsIdx obs)
        * (A.toMatrix.submatrix (obsIdx obs) (obsIdx obs))⁻¹ * (Kts.toMatrix.submatrix id (obsIdx obs))ᵀ := by
  obtain ⟨hm, hf⟩ := pred_covar_nan_eq_delete Ktt Kts A obs hoo
  have key : ∀ C, (cfg.policy = Policy.mask ∧ ∃ x, solve? (maskSub A obs) (maskCols Kts obs).transpose = some x ∧
        C = Ktt.add ((maskCols Kts obs).mul (DMat.smul (-1 : α) x))) ∨
      (∃ x, solve? (fill A obs) (zeroCols Kts obs).transpose = some x ∧
        C = Ktt.add ((zeroCols Kts obs).mul (DMat.smul (-1 : α) x))) →
      C.toMatrix = Ktt.toMatrix - Kts.toMatrix.submatrix id (obsIdx obs)
        * (A.toMatrix.submatrix (obsIdx obs) (obsIdx obs))⁻¹ * (Kts.toMatrix.submatrix id (obsIdx obs))ᵀ := by
    rintro C (⟨-, x, hx, rfl⟩ | ⟨x, hx, rfl⟩)
    · have := hm (predCovarOfSolve Ktt (maskCols Kts obs) x) (by simp [predCovarMask, predCovarSolve, hx])
      rw [← this]; simp [predCovarOfSolve, sub_eq_add_neg]
    · have := hf (predCovarOfSolve Ktt (zeroCols Kts obs) x) (by simp [predCovarFill, predCovarSolve, hx])
      rw [← this]; simp [predCovarOfSolve, sub_eq_add_neg]
  apply key
  rcases h with h | h
  · simp only [exact_predictive_covar_missing_obs] at h
    split_ifs at h with hmask <;>
      simp only [Option.bind_eq_bind, Option.bind_eq_some_iff, Option.pure_def, Option.some.injEq] at h <;>
      obtain ⟨x, hx, rfl⟩ := h
    · exact Or.inl ⟨hmask, x, hx, rfl⟩
    · exact Or.inr ⟨x, hx, rfl⟩
  · simp only [exact_predictive_covar, hp, hs, if_false, Bool.false_eq_true] at h
    split_ifs at h with h1 hmask hmask <;>
      simp only [Option.bind_eq_bind, Option.bind_eq_some_iff, Option.pure_def, Option.some.injEq] at h <;>
      obtain ⟨x, hx, rfl⟩ := h
    all_goals first
      | exact Or.inl ⟨hmask, x, hx, rfl⟩
      | exact Or.inr ⟨x, hx, rfl⟩

end generated

/-! ### non-vacuity, and the defect -/

private def Aex : DMat 3 3 ℚ := DMat.ofMatrix !![2, 1, 1; 1, 2, 1; 1, 1, 3]
private def Ktsex : DMat 1 3 ℚ := DMat.ofMatrix !![1, 1, 1]
private def Kttex : DMat 1 1 ℚ := DMat.ofMatrix !![2]
private def obsex : Fin 3 → Bool := ![true, false, true]

/-- On a concrete instance (second of three targets missing) mask and fill return the same covariance … -/
example : (predCovarMask Kttex Ktsex Aex obsex).map (·.arr) = some #[#[(7 / 5 : ℚ)]] ∧
    (predCovarFill Kttex Ktsex Aex obsex).map (·.arr) = some #[#[(7 / 5 : ℚ)]] := by
  constructor <;> decide +kernel

/-- … while ignoring the policy (pristine `exact_predictive_covar`) conditions on the missing row too and
returns a different (smaller) value: the full-strength statement is false of that code path. -/
example : (predCovarIgnoringPolicy Kttex Ktsex Aex).map (·.arr) = some #[#[(9 / 7 : ℚ)]] := by
  decide +kernel

/-- The observed block of the example is invertible (hypothesis `hoo` is satisfiable). -/
example : (DMat.inv? (maskSub Aex obsex)).isSome = true := by decide +kernel

private def rex : DMat 3 1 ℚ := DMat.ofMatrix !![1; 2; 3]
private def mtex : DMat 1 1 ℚ := DMat.ofMatrix !![0]
/-- A batch of two patterns: element 0 fully observed, element 1 with its second target missing. -/
private def obsB : Fin 2 → Fin 3 → Bool := ![![true, true, true], ![true, false, true]]

/-- Batch of two elements under `fill`: element 0 (fully observed) returns `9/7`, element 1 returns `1` — each its own
deleted-data value; the hypotheses of `fill_batch_elementwise` are satisfiable for both elements … -/
example : (predMeanFillBatch (fun _ => Aex) (fun _ => rex) (fun _ => mtex) (fun _ => Ktsex) obsB (-999) (-999) 0).map (·.arr)
      = some #[#[(9 / 7 : ℚ)]] ∧
    (predMeanFillBatch (fun _ => Aex) (fun _ => rex) (fun _ => mtex) (fun _ => Ktsex) obsB (-999) (-999) 1).map (·.arr)
      = some #[#[(1 : ℚ)]] ∧
    (DMat.inv? (maskSub Aex (obsB 0))).isSome = true ∧ (DMat.inv? (maskSub Aex (obsB 1))).isSome = true := by
  refine ⟨?_, ?_, ?_, ?_⟩ <;> decide +kernel

/-- … while a `fill` mean cache built from the batch-reduced `mask` pattern (`obsUnion`, as in the seeded change
C08-8) hands element 0 the value `1 ≠ 9/7`: it ignores a target that element 0 did observe.  Under `mask` that
same value is the documented one (`mask_batch_deletes_union`). -/
example : ((meanCacheFill Aex rex (obsUnion obsB) (-999)).map fun a => (predMeanFill mtex Ktsex (obsUnion obsB) a (-999)).arr)
      = some #[#[(1 : ℚ)]] ∧
    (predMeanMaskBatch (fun _ => Aex) (fun _ => rex) (fun _ => mtex) (fun _ => Ktsex) obsB 0).map (·.arr)
      = some #[#[(1 : ℚ)]] ∧
    (DMat.inv? (maskSub Aex (obsUnion obsB))).isSome = true := by
  refine ⟨?_, ?_, ?_⟩ <;> decide +kernel

end C16
